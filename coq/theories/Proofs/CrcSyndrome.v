(** Pages under bit flips: the residual [stored checksum xor computed CRC] of a
    page changes, under a flip of bit [i], by a value [synd msb i] that does
    not depend on the page (the unit syndrome of bit [i]).  Hence a valid page
    altered on the positions [l] is rejected as soon as the xor of the unit
    syndromes of [l] is not zero.  Purely structural; the finite facts about
    the 8192 unit syndromes are in [CrcSynTable]. *)
From Coq Require Import ZifyN ZifyNat ZifyBool.
From E57 Require Import Base.Prelude Model.Crc Spec.CrcSpec Proofs.CrcLinear.
Ltac Zify.zify_post_hook ::= Z.div_mod_to_equations.

(** * Iterated zero-byte step *)

Fixpoint iterE (n : nat) (v : N) : N :=
  match n with O => v | S k => iterE k (crc_entry v) end.

Lemma iterE_lxor n : forall a b, iterE n (N.lxor a b) = N.lxor (iterE n a) (iterE n b).
Proof.
  induction n as [ | n IH]; intros a b; cbn [iterE]; [reflexivity | ].
  rewrite crc_entry_lxor. apply IH.
Qed.

Lemma iterE_0 n : iterE n 0 = 0.
Proof. induction n as [ | n IH]; cbn [iterE]; [reflexivity | ]. rewrite crc_entry_0. exact IH. Qed.

Lemma iterE_add n : forall m v, iterE (n + m) v = iterE m (iterE n v).
Proof. induction n as [ | n IH]; intros m v; cbn [iterE Nat.add]; [reflexivity | apply IH]. Qed.

Lemma iterE_S_out n : forall v, iterE (S n) v = crc_entry (iterE n v).
Proof.
  intro v. replace (S n) with (n + 1)%nat by lia. rewrite iterE_add. reflexivity.
Qed.

Lemma iterE_lt n : forall v, v < 2 ^ 32 -> iterE n v < 2 ^ 32.
Proof.
  induction n as [ | n IH]; intros v H; cbn [iterE]; [exact H | ].
  apply IH, crc_entry_lt, H.
Qed.

Lemma iterE_eq0 n : forall v, v < 2 ^ 32 -> iterE n v = 0 -> v = 0.
Proof.
  induction n as [ | n IH]; intros v Hv H; cbn [iterE] in H; [exact H | ].
  apply crc_entry_eq0; [exact Hv | ]. apply IH; [ apply crc_entry_lt, Hv | exact H ].
Qed.

(** * The register is affine in its initial value and in each input byte *)

Lemma crc_step_zero t : crc_step t 0 = crc_entry t.
Proof. rewrite crc_step_entry, N.land_0_l, N.lxor_0_r. reflexivity. Qed.

Lemma crc_step_flip s x e :
  e < 256 -> crc_step s (N.lxor x e) = N.lxor (crc_step s x) (crc_entry e).
Proof.
  intro He. rewrite <- (N.lxor_0_r s) at 1. rewrite crc_step_lxor. f_equal.
  rewrite crc_step_entry, N.lxor_0_l, land_255_small by exact He. reflexivity.
Qed.

Lemma reg_lxor l : forall s t,
  fold_left crc_step l (N.lxor s t)
  = N.lxor (fold_left crc_step l s) (iterE (length l) t).
Proof.
  induction l as [ | x l IH]; intros s t; cbn [fold_left length iterE]; [reflexivity | ].
  rewrite <- IH. f_equal.
  rewrite <- (N.lxor_0_r x) at 1. rewrite crc_step_lxor, crc_step_zero. reflexivity.
Qed.

Lemma crc32c_flip A x D e :
  e < 256 ->
  crc32c (A ++ N.lxor x e :: D)
  = N.lxor (crc32c (A ++ x :: D)) (iterE (length D) (crc_entry e)).
Proof.
  intro He. unfold crc32c. rewrite !fold_left_app. cbn [fold_left].
  rewrite crc_step_flip by exact He. rewrite reg_lxor.
  rewrite !N.lxor_assoc. f_equal. apply N.lxor_comm.
Qed.

(** * List surgery *)

Lemma firstn_app_exact {A} (u v : list A) n : length u = n -> firstn n (u ++ v) = u.
Proof.
  intros <-. induction u as [ | a u IH]; cbn [length firstn app].
  - destruct v; reflexivity.
  - f_equal. exact IH.
Qed.

Lemma skipn_app_exact {A} (u v : list A) n : length u = n -> skipn n (u ++ v) = v.
Proof.
  intros <-. induction u as [ | a u IH]; cbn [length skipn app]; [reflexivity | exact IH].
Qed.

Lemma flip_bit_split msb A x R i :
  length A = N.to_nat (i / 8) ->
  flip_bit msb (A ++ x :: R) i = A ++ N.lxor x (2 ^ bit_in_byte msb i) :: R.
Proof.
  intro H. unfold flip_bit, take, drop. rewrite <- H.
  rewrite firstn_app_exact by reflexivity. rewrite nth_middle.
  cbn [app]. do 2 f_equal.
  replace (A ++ x :: R) with ((A ++ [x]) ++ R) by (rewrite <- app_assoc; reflexivity).
  apply skipn_app_exact. rewrite app_length. cbn [length]. lia.
Qed.

Lemma bit_in_byte_lt msb i : bit_in_byte msb i < 8.
Proof. unfold bit_in_byte. destruct msb; lia. Qed.

Lemma flip_mask_lt msb i : 2 ^ bit_in_byte msb i < 256.
Proof.
  change 256 with (2 ^ 8). apply N.pow_lt_mono_r; [ lia | apply bit_in_byte_lt ].
Qed.

Lemma page_split page i :
  is_page page -> i < 8192 ->
  exists A x R, page = A ++ x :: R /\ length A = N.to_nat (i / 8).
Proof.
  intros [Hl _] Hi.
  destruct (nth_split page 0 (n := N.to_nat (i / 8))) as (A & R & E & HA); [ lia | ].
  eauto.
Qed.

Lemma flip_bit_is_page msb page i :
  is_page page -> i < 8192 -> is_page (flip_bit msb page i).
Proof.
  intros Hp Hi. destruct (page_split page i Hp Hi) as (A & x & R & -> & HA).
  rewrite flip_bit_split by exact HA.
  destruct Hp as [Hl Hb]. split.
  - rewrite app_length in *. cbn [length] in *. exact Hl.
  - unfold bytes_ok in *. apply Forall_app in Hb. destruct Hb as [H1 H2].
    inversion H2; subst. apply Forall_app. split; [exact H1 | ].
    constructor; [ | assumption ].
    unfold byte_ok in *. change 256 with (2 ^ 8) in *.
    apply lxor_lt_pow2; [ assumption | apply flip_mask_lt ].
Qed.

(** * The residual *)

Definition resid (page : list N) : N :=
  N.lxor (be_num (drop 1020 page)) (crc32c (take 1020 page)).

Lemma resid_app P C :
  length P = 1020%nat -> resid (P ++ C) = N.lxor (be_num C) (crc32c P).
Proof.
  intro H. unfold resid, take, drop.
  rewrite firstn_app_exact, skipn_app_exact by (rewrite H; reflexivity). reflexivity.
Qed.

Lemma be_num_be_bytes4 v : v < 2 ^ 32 -> be_num (be_bytes 4 v) = v.
Proof.
  intro H. unfold be_num, be_bytes. rewrite rev_involutive.
  cbn [le_bytes le_num]. change (2 ^ 32) with 4294967296 in H. lia.
Qed.

Lemma crc_ok_resid page : crc_ok page = true -> resid page = 0.
Proof.
  unfold crc_ok. destruct (list_eq_dec _ _ _) as [E | ]; [ intros _ | discriminate ].
  unfold resid. rewrite E. unfold crc_bytes.
  rewrite be_num_be_bytes4 by apply crc32c_lt. apply N.lxor_nilpotent.
Qed.

(** * Unit syndromes *)

Definition synd (msb : bool) (i : N) : N :=
  if i <? 8160
  then iterE (1019 - N.to_nat (i / 8)) (crc_entry (2 ^ bit_in_byte msb i))
  else 2 ^ bit_in_byte msb i * 256 ^ (1023 - i / 8).

Lemma resid_flip_payload msb page i :
  is_page page -> i < 8160 ->
  resid (flip_bit msb page i) = N.lxor (resid page) (synd msb i).
Proof.
  intros Hp Hi.
  destruct (page_split page i Hp) as (A & x & R & -> & HA); [ lia | ].
  rewrite flip_bit_split by exact HA.
  destruct Hp as [Hl _]. rewrite app_length in Hl. cbn [length] in Hl.
  rewrite <- (firstn_skipn (1019 - N.to_nat (i / 8)) R).
  set (D := firstn (1019 - N.to_nat (i / 8)) R).
  set (C := skipn (1019 - N.to_nat (i / 8)) R).
  assert (length D = (1019 - N.to_nat (i / 8))%nat) as HD
    by (unfold D; rewrite firstn_length; lia).
  replace (A ++ N.lxor x (2 ^ bit_in_byte msb i) :: D ++ C)
    with ((A ++ N.lxor x (2 ^ bit_in_byte msb i) :: D) ++ C)
    by (rewrite <- app_assoc; reflexivity).
  replace (A ++ x :: D ++ C) with ((A ++ x :: D) ++ C)
    by (rewrite <- app_assoc; reflexivity).
  rewrite !resid_app by (rewrite app_length; cbn [length]; lia).
  rewrite crc32c_flip by apply flip_mask_lt.
  unfold synd. replace (i <? 8160) with true by (symmetry; apply N.ltb_lt; exact Hi).
  rewrite HD. symmetry. apply N.lxor_assoc.
Qed.

(** Big-endian field arithmetic, via bits. *)
Lemma testbit_add256 b r n :
  b < 256 -> N.testbit (b + 256 * r) n = if n <? 8 then N.testbit b n else N.testbit r (n - 8).
Proof.
  intro Hb. destruct (N.ltb_spec n 8) as [H | H].
  - rewrite <- (N.mod_pow2_bits_low (b + 256 * r) 8 n) by exact H.
    f_equal. change (2 ^ 8) with 256. lia.
  - replace n with ((n - 8) + 8) at 1 by lia.
    rewrite <- N.div_pow2_bits. f_equal. change (2 ^ 8) with 256. lia.
Qed.

Lemma testbit_byte_high e n : e < 256 -> 8 <= n -> N.testbit e n = false.
Proof.
  intros He Hn. replace e with (e + 256 * 0) by lia.
  rewrite testbit_add256 by exact He.
  replace (n <? 8) with false by (symmetry; apply N.ltb_ge; exact Hn).
  apply N.bits_0.
Qed.

Lemma byte_lxor_lt b e : b < 256 -> e < 256 -> N.lxor b e < 256.
Proof. change 256 with (2 ^ 8). apply lxor_lt_pow2. Qed.

Lemma add256_flip_low b e r :
  b < 256 -> e < 256 -> N.lxor b e + 256 * r = N.lxor (b + 256 * r) e.
Proof.
  intros Hb He. apply N.bits_inj. intro n.
  rewrite N.lxor_spec, !testbit_add256 by auto using byte_lxor_lt.
  destruct (N.ltb_spec n 8) as [H | H].
  - apply N.lxor_spec.
  - rewrite (testbit_byte_high e n He H). now rewrite xorb_false_r.
Qed.

Lemma add256_flip_high b r t :
  b < 256 -> b + 256 * N.lxor r t = N.lxor (b + 256 * r) (256 * t).
Proof.
  intros Hb. apply N.bits_inj. intro n.
  replace (256 * t) with (0 + 256 * t) by lia.
  rewrite N.lxor_spec, !testbit_add256 by (exact Hb || reflexivity).
  destruct (n <? 8).
  - rewrite N.bits_0. now rewrite xorb_false_r.
  - apply N.lxor_spec.
Qed.

Lemma resid_flip_checksum msb page i :
  is_page page -> 8160 <= i < 8192 ->
  resid (flip_bit msb page i) = N.lxor (resid page) (synd msb i).
Proof.
  intros [Hl Hb] Hi.
  assert (length (firstn 1020 page) = 1020%nat) as HP by (rewrite firstn_length; lia).
  rewrite <- (firstn_skipn 1020 page) in Hl, Hb |- *.
  set (P := firstn 1020 page) in *. set (C := skipn 1020 page) in *.
  rewrite app_length in Hl.
  unfold bytes_ok in Hb. apply Forall_app in Hb. destruct Hb as [_ HC].
  destruct C as [ | c0 [ | c1 [ | c2 [ | c3 [ | ? ? ]]]]]; cbn [length] in Hl; try lia.
  clearbody P. clear Hl.
  inversion_clear HC as [ | ? ? H0 HC1]. inversion_clear HC1 as [ | ? ? H1 HC2].
  inversion_clear HC2 as [ | ? ? H2 HC3]. inversion_clear HC3 as [ | ? ? H3 _].
  unfold byte_ok in *.
  pose proof (flip_mask_lt msb i) as He.
  unfold synd. replace (i <? 8160) with false by (symmetry; apply N.ltb_ge; lia).
  set (e := 2 ^ bit_in_byte msb i) in *.
  assert (i / 8 = 1020 \/ i / 8 = 1021 \/ i / 8 = 1022 \/ i / 8 = 1023) as Hj by lia.
  destruct Hj as [Hj | [Hj | [Hj | Hj]]]; rewrite Hj.
  - rewrite (flip_bit_split msb P c0 [c1; c2; c3] i) by (rewrite Hj, HP; reflexivity).
    fold e. rewrite !resid_app by exact HP.
    rewrite (N.lxor_comm (N.lxor _ _) (e * _)), <- N.lxor_assoc. f_equal.
    unfold be_num. cbn [rev app le_num].
    change (256 ^ (1023 - 1020)) with 16777216.
    rewrite add256_flip_low, !add256_flip_high by assumption.
    rewrite N.lxor_comm. f_equal. lia.
  - replace (P ++ [c0; c1; c2; c3]) with ((P ++ [c0]) ++ c1 :: [c2; c3])
      by (rewrite <- app_assoc; reflexivity).
    rewrite (flip_bit_split msb (P ++ [c0]) c1 [c2; c3] i)
      by (rewrite Hj, app_length, HP; reflexivity).
    fold e. rewrite <- !app_assoc. cbn [app]. rewrite !resid_app by exact HP.
    rewrite (N.lxor_comm (N.lxor _ _) (e * _)), <- N.lxor_assoc. f_equal.
    unfold be_num. cbn [rev app le_num].
    change (256 ^ (1023 - 1021)) with 65536.
    rewrite add256_flip_low, !add256_flip_high by assumption.
    rewrite N.lxor_comm. f_equal. lia.
  - replace (P ++ [c0; c1; c2; c3]) with ((P ++ [c0; c1]) ++ c2 :: [c3])
      by (rewrite <- app_assoc; reflexivity).
    rewrite (flip_bit_split msb (P ++ [c0; c1]) c2 [c3] i)
      by (rewrite Hj, app_length, HP; reflexivity).
    fold e. rewrite <- !app_assoc. cbn [app]. rewrite !resid_app by exact HP.
    rewrite (N.lxor_comm (N.lxor _ _) (e * _)), <- N.lxor_assoc. f_equal.
    unfold be_num. cbn [rev app le_num].
    change (256 ^ (1023 - 1022)) with 256.
    rewrite add256_flip_low, !add256_flip_high by assumption.
    rewrite N.lxor_comm. f_equal. lia.
  - replace (P ++ [c0; c1; c2; c3]) with ((P ++ [c0; c1; c2]) ++ c3 :: [])
      by (rewrite <- app_assoc; reflexivity).
    rewrite (flip_bit_split msb (P ++ [c0; c1; c2]) c3 [] i)
      by (rewrite Hj, app_length, HP; reflexivity).
    fold e. rewrite <- !app_assoc. cbn [app]. rewrite !resid_app by exact HP.
    rewrite (N.lxor_comm (N.lxor _ _) (e * _)), <- N.lxor_assoc. f_equal.
    unfold be_num. cbn [rev app le_num].
    change (256 ^ (1023 - 1023)) with 1.
    rewrite add256_flip_low by assumption.
    rewrite N.lxor_comm. f_equal. lia.
Qed.

Lemma resid_flip msb page i :
  is_page page -> i < 8192 ->
  resid (flip_bit msb page i) = N.lxor (resid page) (synd msb i).
Proof.
  intros Hp Hi. destruct (N.lt_ge_cases i 8160).
  - apply resid_flip_payload; assumption.
  - apply resid_flip_checksum; [ assumption | lia ].
Qed.

(** * Several flips *)

Definition xors (l : list N) : N := fold_right N.lxor 0 l.

Lemma flip_bits_resid msb l : forall page,
  is_page page -> Forall (fun i => i < 8192) l ->
  is_page (flip_bits msb page l) /\
  resid (flip_bits msb page l) = N.lxor (resid page) (xors (map (synd msb) l)).
Proof.
  unfold flip_bits.
  induction l as [ | i l IH]; intros page Hp Hl; cbn [fold_left map xors fold_right].
  - split; [ exact Hp | now rewrite N.lxor_0_r ].
  - inversion_clear Hl as [ | ? ? Hi Hl'].
    destruct (IH (flip_bit msb page i)) as [IH1 IH2];
      [ apply flip_bit_is_page; assumption | exact Hl' | ].
    split; [ exact IH1 | ].
    rewrite IH2, resid_flip by assumption. apply N.lxor_assoc.
Qed.

(** The detection criterion. *)
Theorem crc_flip_detected msb page l :
  is_page page -> crc_ok page = true -> Forall (fun i => i < 8192) l ->
  xors (map (synd msb) l) <> 0 ->
  crc_ok (flip_bits msb page l) = false.
Proof.
  intros Hp Hok Hl Hx.
  destruct (crc_ok (flip_bits msb page l)) eqn:E; [ exfalso | reflexivity ].
  apply crc_ok_resid in E.
  destruct (flip_bits_resid msb l page Hp Hl) as [_ Hr].
  rewrite Hr, (crc_ok_resid page Hok), N.lxor_0_l in E. contradiction.
Qed.

Print Assumptions crc_flip_detected.
