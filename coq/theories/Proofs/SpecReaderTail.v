(** [qr_decodes_any_layout] without the hypothesis that something follows the
    section: the seek to the data offset succeeds as soon as the section has
    a packet (or is not attempted: no records), so a section may be the very
    last thing of the logical stream.  A non-empty point cloud always has a
    data packet (a record of non-zero width has a non-empty byte stream). *)
From E57 Require Import Base.Prelude Spec.PageSpec Model.PagedReader Model.Prog Model.BsRead
  Model.Record Model.QueueReader Spec.BitSpec Spec.FormatSpec.
From E57 Require Import Proofs.BitLemmas Proofs.BitCodecProofs Proofs.QueueReaderLemmas Proofs.QueueReaderPacket
  Proofs.QueueReaderDecode Proofs.QueueReaderProofs.
From Coq Require Import ZifyN ZifyNat ZifyBool.
Ltac Zify.zify_post_hook ::= Z.div_mod_to_equations.
Open Scope N_scope.

Lemma raw_new_runs_tail log pre lay post n records proto :
  log = pre ++ encode_section (phys_of_log (len pre + 32)) lay ++ post ->
  records = 0 \/ post <> [] \/ section_body lay <> [] ->
  Forall (fun p => packet_ok n p = true) lay ->
  len log mod 1020 = 0 -> phys_of_log (len log) < 2 ^ 64 ->
  runs log (raw_new (phys_of_log (len pre)) records proto) 0 (len pre + 32)
       (mkRaw (mkQr proto (map (fun _ => bsr_new) proto) (map (fun _ => []) proto)) records 0) /\
  cur log (len pre + 32) (section_body lay ++ post).
Proof.
  intros Hlog Hpost Hlay Hmod Hsz.
  destruct (qlen_section_body n lay Hlay) as [_ Hb4].
  assert (Hc0 : cur log (len pre) (encode_section (phys_of_log (len pre + 32)) lay ++ post)).
  { rewrite Hlog. apply cur_app. }
  pose proof (cur_len _ _ _ Hc0) as HL.
  unfold encode_section in Hc0, HL.
  rewrite !app_assoc in Hc0, HL. rewrite <- !(app_assoc _ _ (le_bytes 8 0)) in Hc0, HL.
  rewrite <- !(app_assoc _ _ (le_bytes 8 (phys_of_log (len pre + 32)) ++ le_bytes 8 0)) in Hc0, HL.
  rewrite <- (app_assoc _ (section_body lay) post) in Hc0, HL.
  assert (Hpl : records = 0 \/ 0 < len post + len (section_body lay)).
  { destruct Hpost as [Hpost|[Hpost|Hpost]]; [left; exact Hpost|right|right].
    - destruct post; [congruence|]. rewrite qlen_cons. lia.
    - destruct (section_body lay); [congruence|]. rewrite qlen_cons. lia. }
  rewrite qlen_app in HL. rewrite (qlen_app (section_body lay)) in HL.
  rewrite !qlen_app, !qlen_le_bytes in HL. change (len [1; 0; 0; 0; 0; 0; 0; 0]) with 8 in HL.
  assert (Hlt : len log < 2 ^ 64).
  { unfold phys_of_log, PAYLOAD_SZ in Hsz. lia. }
  assert (Hdo : phys_of_log (len pre + 32) < 2 ^ 64).
  { eapply N.le_lt_trans; [apply phys_of_log_mono|exact Hsz]. lia. }
  destruct (cv_header_runs log (len pre) (32 + len (section_body lay)) (phys_of_log (len pre + 32))
              (section_body lay ++ post)) as [Hr1 Hc1]; try assumption; try lia.
  split; [|exact Hc1].
  unfold raw_new, qr_new.
  eapply runs_bind; [|apply runs_ret].
  eapply runs_bind; [apply seek_runs; [exact Hmod|lia]|].
  eapply runs_bind; [exact Hr1|]. cbn [cv_data_offset].
  destruct (0 <? records) eqn:E.
  - eapply runs_bind; [apply seek_runs; [exact Hmod|lia]|]. apply runs_ret.
  - eapply runs_bind; [apply runs_ret|]. apply runs_ret.
Qed.

(** a scene with at least one point has a packet in every legal layout *)
Lemma nonempty_scene_has_packet proto p points lay :
  scene_ok proto (p :: points) = true -> legal proto (p :: points) lay = true -> section_body lay <> [].
Proof.
  intros Hs Hl Hb.
  destruct (scene_ok_spec _ _ Hs) as (Ht & Hp & Hex).
  destruct (legal_spec _ _ _ Hl) as [Hok Hst].
  destruct (qlen_section_body _ _ Hok) as [H4 _]. rewrite Hb in H4.
  assert (lay = []) as -> by (destruct lay; [reflexivity|rewrite qlen_cons, qlen_nil in H4; lia]).
  apply existsb_exists in Hex as (t & Hin & Hsz).
  destruct (In_nth _ _ TSingle Hin) as (i & Hi & Hnth).
  specialize (Hst i Hi). cbn [record_chunks flat_map concat] in Hst. rewrite Hnth in Hst.
  assert (Hcol : Forall (fun v => in_range t v = true) (column i (p :: points))).
  { unfold column. apply Forall_map. revert Hp. apply Forall_impl. intros q Hq.
    apply point_ok_spec in Hq as [_ Hq]. rewrite <- Hnth. apply Hq. exact Hi. }
  pose proof (stream_bits_length t _ Hcol) as Hlen.
  apply (f_equal (@length N)) in Hst. unfold spec_stream_bytes in Hst. rewrite bob_length, Hlen in Hst.
  unfold column in Hst. cbn [map length] in Hst. unfold sized in Hsz.
  assert (0 < N.to_nat (spec_bit_size t))%nat by lia.
  assert (8 <= S (length (map (fun q => nth i q (VInteger 0)) points)) * N.to_nat (spec_bit_size t) + 7)%nat by nia.
  assert (1 <= (S (length (map (fun q => nth i q (VInteger 0)) points)) * N.to_nat (spec_bit_size t) + 7) / 8)%nat
    by (apply Nat.div_le_lower_bound; lia).
  lia.
Qed.

Theorem qr_decodes_any_layout_tail :
  forall (proto : list dtype) (points : list (list rvalue)) (lay : layout) (pre post log : list N) (fuel : nat),
  scene_ok proto points = true -> legal proto points lay = true ->
  log = pre ++ encode_section (phys_of_log (len pre + 32)) lay ++ post ->
  len pre mod 4 = 0 ->
  (length points < fuel)%nat ->
  len log mod 1020 = 0 -> phys_of_log (len log) < 2 ^ 64 ->
  snd (rrun_spec log (rbind (raw_new (phys_of_log (len pre)) (len points) proto)
                            (fun it => raw_collect fuel (len log) it [])) 0) = Ok points.
Proof.
  intros proto points lay pre post log fuel Hscene Hlegal Hlog Hpre Hfuel Hmod Hsz.
  destruct points as [|p points].
  { apply (qr_decodes_empty proto lay pre post log fuel); try assumption. }
  pose proof (nonempty_scene_has_packet _ _ _ _ Hscene Hlegal) as Hbody.
  set (pts := p :: points) in *.
  destruct (legal_spec _ _ _ Hlegal) as [Hok _].
  destruct (raw_new_runs_tail log pre lay post (length proto) (len pts) proto Hlog
              (or_intror (or_intror Hbody)) Hok Hmod Hsz) as [Hr0 Hc0].
  set (q0 := mkQr proto (map (fun _ => bsr_new) proto) (map (fun _ => []) proto)) in *.
  assert (Hst : st_inv proto pts log post 0 lay (len pre + 32) q0).
  { eexists _, _. split; [reflexivity|]. split; [exact Hc0|]. split; [lia|]. split; [exact Hok|].
    apply inv5_init; apply initial_lists; assumption. }
  destruct (collect_ok proto pts log post Hscene (length pts) 0 fuel lay _ q0 Hst
              ltac:(lia) Hfuel) as (off' & Hr).
  cbn [firstn] in Hr. change (N.of_nat 0) with 0 in Hr.
  pose proof (runs_bind _ _ (fun it => raw_collect fuel (len log) it []) _ _ _ _ _ Hr0 Hr) as H.
  unfold runs in H. rewrite H. reflexivity.
Qed.

Print Assumptions qr_decodes_any_layout_tail.
