(** File-level round trip, instances: the hypotheses of [file_roundtrip] are
    satisfiable on a non-trivial program; the same run evaluated end to end by
    computation; the smallest file the reader refuses (empty XML at the very
    end of a payload). *)
From E57 Require Import Base.Prelude Model.Crc Model.Device Model.PagedWriter Model.PagedReader
  Spec.PageSpec Model.Prog Model.Record Model.QueueReader Model.PcWriter
  Model.FileBin Model.ReaderOpen Spec.FormatSpec.
From E57 Require Import Proofs.PagedWriterProofs Proofs.FileRtWriter Proofs.FileRtReader Proofs.FileRtMain.
Open Scope N_scope.

Module FileInstance.
  (* a 0-bit, an 11-bit and a 64-bit record *)
  Definition proto : list dtype := [TInteger 5 5; TInteger 0 2047; TInteger (- 2 ^ 63) (2 ^ 63 - 1)].
  Definition pts1 : list (list rvalue) :=
    [[VInteger 5; VInteger 0; VInteger (- 2 ^ 63)]; [VInteger 5; VInteger 2047; VInteger (2 ^ 63 - 1)];
     [VInteger 5; VInteger 1234; VInteger (-1)]].
  Definition pts2 : list (list rvalue) := [[VInteger 5; VInteger 7; VInteger 42]].
  (* 1019 bytes: the blob section needs one byte of padding and crosses a page boundary *)
  Definition blob : list N := map (fun i => N.of_nat i mod 256) (seq 0 1019).
  Definition xml : list N := [60; 101; 53; 55; 47; 62].
  Definition items : list item := [IPc proto pts1; IBlob blob; IPc proto pts2].

  (* what the opened reader returns for descriptor [o] *)
  Definition read_item (pr_ : list dtype) (rs : pr) (o : item_out)
    : res (list N) + res (list (list rvalue)) :=
    match o with
    | OBlob off l => inl (snd (rrun (blob_read (pr_log_size rs) off l) rs))
    | OPc off n => inr (snd (rrun (rbind (raw_new off n pr_)
                                         (fun it => raw_collect 10 (pr_log_size rs) it [])) rs))
    end.

  (* the whole pipeline: write, flush, open, read every item back *)
  Definition pipeline (pr_ : list dtype) (is : list item) (x : list N)
    : res (list N * N * N * N * list (res (list N) + res (list (list rvalue)))) :=
    res_bind (snd (wrun (file_prog is x) pw0)) (fun outs =>
    res_bind (snd (reader_open (dev_init (file_of is x) None))) (fun r =>
      let '(rs, h, x') := r in
      Ok (x', h_phys_length h, h_xml_offset h, h_xml_length h, map (read_item pr_ rs) outs))).
End FileInstance.

(** The hypotheses of the theorem hold for this program. *)
Example file_roundtrip_instance : roundtrip_ok FileInstance.items FileInstance.xml.
Proof.
  apply file_roundtrip_xml.
  - vm_compute. reflexivity.
  - discriminate.
  - vm_compute. discriminate.
  - vm_compute. reflexivity.
Qed.

(** The same, end to end by evaluation of the models (two pages; XML at physical offset 1248). *)
Example file_pipeline_computed :
  FileInstance.pipeline FileInstance.proto FileInstance.items FileInstance.xml =
  Ok (FileInstance.xml, 2048, 1248, 6,
      [inr (Ok FileInstance.pts1); inl (Ok FileInstance.blob); inr (Ok FileInstance.pts2)]).
Proof. vm_compute. reflexivity. Qed.

(** A one-page file whose (empty) XML lies at the very end of the payload: the writer
    succeeds, every page is sealed, and [reader_open] refuses the file. *)
Example empty_xml_at_page_end_refused :
  let is := [IBlob (zeros 956)] in
  forallb item_ok is = true /\
  snd (wrun (file_prog is []) pw0) = Ok [OBlob 48 956] /\
  len (file_of is []) = 1024 /\ all_pages_valid (file_of is []) = true /\
  snd (reader_open (dev_init (file_of is []) None)) = Err ERead.
Proof. cbv zeta. repeat split; vm_compute; reflexivity. Qed.

(** the same through the general statement *)
Example empty_xml_at_page_end_refused' :
  snd (reader_open (dev_init (file_of [IBlob (zeros 956)] []) None)) = Err ERead.
Proof. apply file_open_fails_empty_xml_at_page_end; vm_compute; reflexivity. Qed.

Print Assumptions file_roundtrip_instance.
Print Assumptions file_pipeline_computed.
Print Assumptions empty_xml_at_page_end_refused.
