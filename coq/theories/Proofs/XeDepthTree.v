(** The trees of metadata values (Spec/MetaTree.v) are nested 6 elements deep at most, so the
    depth check of [E57Reader::new] accepts every rendering of them, in particular every file
    of the writer: [xml_meta] on such bytes is what it was before the check existed. *)
From Coq Require Import Strings.String.
From Coq Require Import List Bool NArith ZArith Lia.
From E57 Require Import Base.Prelude Model.Meta Model.MetaFile Model.XmlTree Model.XmlParse Model.XmlDepth
  Model.XmlExtract Model.ReaderFull Spec.XmlRender Spec.MetaTree Spec.XeTreeDepth
  Proofs.XeTreeMain Proofs.XeDepthRender Proofs.XeTotalFull.
Import ListNotations.

Lemma max_depth_le k l : Forall (fun c => node_depth c <= k) l -> max_depth l <= k.
Proof. induction 1 as [|x l Hx Hl IH]; cbn [max_depth fold_right]; [lia|]. fold (max_depth l). lia. Qed.

Lemma depth_elem k K xn attrs sc ch :
  Forall (fun c => node_depth c <= k) ch -> 1 + k <= K -> node_depth (XElem xn attrs sc ch) <= K.
Proof. intros H HK. rewrite node_depth_elem. pose proof (max_depth_le k ch H). lia. Qed.

Lemma Forall_lines k l : Forall (fun c => node_depth c <= k) l -> Forall (fun c => node_depth c <= k) (lines l).
Proof.
  intros H. unfold lines. constructor; [cbn; lia|].
  induction H as [|x l Hx Hl IH]; cbn [flat_map app]; [constructor|].
  constructor; [exact Hx|]. constructor; [cbn; lia|exact IH].
Qed.

Lemma depth_el k K sc name attrs ch :
  Forall (fun c => node_depth c <= k) ch -> 1 + k <= K -> node_depth (el sc name attrs (lines ch)) <= K.
Proof. intros H HK. eapply depth_elem; [apply Forall_lines; exact H|exact HK]. Qed.

Lemma depth_leaf sc name attrs t : node_depth (el sc name attrs [XText t]) <= 1.
Proof. cbn. lia. Qed.
Lemma depth_empty sc name attrs : node_depth (el sc name attrs []) <= 1.
Proof. cbn. lia. Qed.

Lemma le_weaken (n : xnode) a b : node_depth n <= a -> a <= b -> node_depth n <= b.
Proof. lia. Qed.

Section Depth.
Variable sc : list xnsdecl.
Variable exts : list extension.

Ltac leaf := first [apply depth_leaf | apply depth_empty | (eapply le_weaken; [first [apply depth_leaf|apply depth_empty]|lia])].
Ltac fl :=
  repeat first [ apply Forall_nil | apply Forall_cons | apply Forall_app; split | apply Forall_opt1; intro ].

Lemma d_string n s : node_depth (t_string sc n s) <= 1. Proof. apply depth_leaf. Qed.
Lemma d_float n f : node_depth (t_float sc n f) <= 1. Proof. apply depth_leaf. Qed.
Lemma d_int n z : node_depth (t_int sc n z) <= 1. Proof. apply depth_leaf. Qed.
Lemma d_uint n z : node_depth (t_uint sc n z) <= 1. Proof. apply depth_leaf. Qed.
Lemma d_blob n b : node_depth (t_blob sc n b) <= 1. Proof. apply depth_empty. Qed.
Lemma d_limit n v : node_depth (t_limit sc n v) <= 1. Proof. destruct v; apply depth_leaf. Qed.
Lemma d_record r : node_depth (t_record sc exts r) <= 1.
Proof. unfold t_record. destruct (r_type r); cbn; lia. Qed.

Ltac struct k := eapply (depth_el k); [fl; cbv beta|lia].

Lemma d_date_time n d : node_depth (t_date_time sc n d) <= 2.
Proof. unfold t_date_time, t_struct. struct 1; leaf. Qed.
Lemma d_transform n t : node_depth (t_transform sc n t) <= 3.
Proof. unfold t_transform, t_struct. struct 2; struct 1; leaf. Qed.
Lemma d_cb b : node_depth (t_cartesian_bounds sc b) <= 2.
Proof. unfold t_cartesian_bounds, t_struct. struct 1; leaf. Qed.
Lemma d_sb b : node_depth (t_spherical_bounds sc b) <= 2.
Proof. unfold t_spherical_bounds, t_struct. struct 1; leaf. Qed.
Lemma d_ib b : node_depth (t_index_bounds sc b) <= 2.
Proof. unfold t_index_bounds, t_struct. struct 1; leaf. Qed.
Lemma d_il l : node_depth (t_intensity_limits sc l) <= 2.
Proof. unfold t_intensity_limits, t_struct. struct 1; apply d_limit. Qed.
Lemma d_cl l : node_depth (t_color_limits sc l) <= 2.
Proof. unfold t_color_limits, t_struct. struct 1; apply d_limit. Qed.

Lemma d_points pc : node_depth (t_points sc exts pc) <= 3.
Proof.
  unfold t_points, t_struct. struct 2. struct 1.
  apply Forall_map_nf. intros r _. apply d_record.
Qed.

Ltac dgoal :=
  match goal with
  | |- node_depth (t_string _ _ _) <= _ => eapply le_weaken; [apply d_string|lia]
  | |- node_depth (t_float _ _ _) <= _ => eapply le_weaken; [apply d_float|lia]
  | |- node_depth (t_int _ _ _) <= _ => eapply le_weaken; [apply d_int|lia]
  | |- node_depth (t_uint _ _ _) <= _ => eapply le_weaken; [apply d_uint|lia]
  | |- node_depth (t_blob _ _ _) <= _ => eapply le_weaken; [apply d_blob|lia]
  | |- node_depth (t_image_blob _ _) <= _ => unfold t_image_blob; eapply le_weaken; [apply d_blob|lia]
  | |- node_depth (t_cartesian_bounds _ _) <= _ => eapply le_weaken; [apply d_cb|lia]
  | |- node_depth (t_spherical_bounds _ _) <= _ => eapply le_weaken; [apply d_sb|lia]
  | |- node_depth (t_index_bounds _ _) <= _ => eapply le_weaken; [apply d_ib|lia]
  | |- node_depth (t_intensity_limits _ _) <= _ => eapply le_weaken; [apply d_il|lia]
  | |- node_depth (t_color_limits _ _) <= _ => eapply le_weaken; [apply d_cl|lia]
  | |- node_depth (t_transform _ _ _) <= _ => eapply le_weaken; [apply d_transform|lia]
  | |- node_depth (t_date_time _ _ _) <= _ => eapply le_weaken; [apply d_date_time|lia]
  | |- node_depth (t_points _ _ _) <= _ => eapply le_weaken; [apply d_points|lia]
  end.

Lemma d_pointcloud pc : node_depth (t_pointcloud sc exts pc) <= 4.
Proof.
  unfold t_pointcloud, t_struct. struct 3; try dgoal.
  unfold t_vector. eapply (le_weaken _ 2); [|lia]. struct 1.
  apply Forall_map_nf. intros s _. apply d_string.
Qed.

Lemma d_rep name ch :
  Forall (fun c => node_depth c <= 1) ch -> node_depth (t_struct sc name ch) <= 2.
Proof. intros H. unfold t_struct. eapply (depth_el 1); [exact H|lia]. Qed.

Lemma d_image i : node_depth (t_image sc i) <= 4.
Proof.
  unfold t_image, t_struct. struct 3; try dgoal.
  - eapply (le_weaken _ 2); [|lia]. unfold t_visual_reference.
    apply d_rep. fl; cbv beta; dgoal.
  - eapply (le_weaken _ 2); [|lia].
    destruct v; cbn [t_projection]; unfold t_pinhole, t_spherical_image, t_cylindrical_image;
      apply d_rep; fl; cbv beta; dgoal.
Qed.
End Depth.

Theorem tree_of_depth m : tree_depth (tree_of m) <= 6.
Proof.
  unfold tree_depth, tree_of. cbn [xd_children max_depth fold_right].
  assert (H : node_depth (t_root (scope_of (fm_extensions m)) (fm_extensions m) m) <= 6); [|lia].
  unfold t_root, t_struct. eapply (depth_el 5); [|lia].
  repeat first [ apply Forall_nil | apply Forall_cons | apply Forall_app; split | apply Forall_opt1; intro ];
    cbv beta;
    try match goal with
        | |- node_depth (t_string _ _ _) <= _ => eapply le_weaken; [apply d_string|lia]
        | |- node_depth (t_int _ _ _) <= _ => eapply le_weaken; [apply d_int|lia]
        | |- node_depth (t_date_time _ _ _) <= _ => eapply le_weaken; [apply d_date_time|lia]
        end.
  - unfold t_vector. eapply (depth_el 4); [|lia]. apply Forall_map_nf. intros pc _. apply d_pointcloud.
  - unfold t_vector. eapply (depth_el 4); [|lia]. apply Forall_map_nf. intros i _. apply d_image.
Qed.

(** every rendering of the tree of a metadata value passes the depth check *)
Theorem tree_of_depth_ok c m : wf_doc (tree_of m) = true -> xml_depth_ok (render c (tree_of m)) = true.
Proof.
  intros Hw. apply xml_depth_ok_render_proof; [exact Hw|]. pose proof (tree_of_depth m). lia.
Qed.

(** on bytes that pass the depth check [xml_meta] is what it was before the check existed *)
Definition xml_meta_before (pf64 pf32 : xstr -> option N) (fdiv : N -> Z -> N) (xml : list N) : res file_meta :=
  match xml_read xml with
  | XmlErrUtf8 => Err ERead
  | XmlErrParse => Err EInvalid
  | XmlUnsupported => Err EInvalid
  | XmlOk d => extract_all pf64 pf32 fdiv d
  end.

Lemma xml_meta_unchanged pf64 pf32 fdiv xml :
  xml_depth_ok xml = true -> xml_meta pf64 pf32 fdiv xml = xml_meta_before pf64 pf32 fdiv xml.
Proof.
  intros H. unfold xml_meta, xml_meta_before, xml_read. rewrite H. cbn [negb].
  destruct (negb _); [reflexivity|]. destruct (xml_parse xml); reflexivity.
Qed.

Theorem xml_meta_writer_unchanged pf64 pf32 fdiv c m :
  wf_doc (tree_of m) = true ->
  xml_meta pf64 pf32 fdiv (render c (tree_of m)) = xml_meta_before pf64 pf32 fdiv (render c (tree_of m)).
Proof. intros Hw. apply xml_meta_unchanged. apply tree_of_depth_ok. exact Hw. Qed.

Theorem xml_depth_ok_render :
  forall (c : render_choices) (d : xdoc), wf_doc d = true -> tree_depth d <= 256 -> xml_depth_ok (render c d) = true.
Proof. exact xml_depth_ok_render_proof. Qed.
