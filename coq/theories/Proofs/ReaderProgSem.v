(** Reader programs on the cache-less validating reader ([rrun_g]) and their
    equivalence with the paged reader model for every history (G1). *)
From E57 Require Import Base.Prelude Model.Crc Model.Device Model.PagedReader Spec.PageReadSpec Model.Prog
  Model.Record Model.QueueReader Model.FileBin Model.ReaderOpen Proofs.PagedReaderCache.
From E57 Require Import Proofs.PageSpecLemmas.

(* reader programs on the cache-less validating reader: the only state is the logical offset *)
Fixpoint rrun_g {A} (ps : N) (phys : list N) (p : rprog A) (off : N) : N * res A :=
  match p with
  | RRet a => (off, Ok a)
  | RErr k => (off, Err k)
  | RPanic => (off, Panic)
  | ROp o k => let '(off1, r) := gr_step ps phys o off in rrun_g ps phys (k r) off1
  end.

(* G1 *)
Theorem rrun_g_equiv : forall ps phys A (p : rprog A) s,
  pr_inv ps phys s ->
  snd (rrun p s) = snd (rrun_g ps phys p (pr_off s)) /\
  pr_inv ps phys (fst (rrun p s)) /\
  pr_off (fst (rrun p s)) = fst (rrun_g ps phys p (pr_off s)).
Proof.
  intros ps phys A p. induction p as [a|e| |o k IH]; intros s I; cbn [rrun rrun_g fst snd]; auto.
  destruct (pr_step_spec ps phys s o I) as (s1 & H1 & I1 & Ho1).
  rewrite H1.
  destruct (gr_step ps phys o (pr_off s)) as [off1 r].
  cbn [fst snd] in *. rewrite <- Ho1. apply IH. exact I1.
Qed.

(* every reader state reached by running programs from a fresh reader satisfies the invariant *)
Theorem rrun_preserves_inv : forall ps phys A (p : rprog A) s, pr_inv ps phys s -> pr_inv ps phys (fst (rrun p s)).
Proof.
  intros ps phys A p s I. apply (rrun_g_equiv ps phys A p s I).
Qed.

Lemma take_min_len {A} n (l : list A) : take (N.min n (len l)) l = take n l.
Proof.
  rewrite <- take_take. rewrite (take_all (len l) l); [reflexivity|]. apply N.le_refl.
Qed.

(* bytes handed out by a read always come from a page whose checksum is valid *)
Theorem gr_read_serves_valid : forall ps phys n off off' bs,
  gr_read ps phys n off = (off', Ok bs) -> bs <> [] ->
  page_ok ps (page_at ps phys (off / (ps - 4))) = true /\
  bs = slice (off mod (ps - 4)) (len bs) (page_at ps phys (off / (ps - 4))).
Proof.
  intros ps phys n off off' bs. unfold gr_read. cbv zeta.
  destruct (len phys / ps <=? off / (ps - 4)) eqn:E1.
  - intros H Hn. injection H as _ <-. congruence.
  - destruct (page_ok ps (page_at ps phys (off / (ps - 4)))) eqn:E2; [|discriminate].
    intros H _. injection H as _ <-. split; [reflexivity|].
    rewrite len_slice. unfold slice. rewrite <- len_drop. rewrite take_min_len. reflexivity.
Qed.
