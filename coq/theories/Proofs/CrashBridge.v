(** C15 / C16: the two developments talk about the same program and the same start state; the
    fault theorem restated with [final_image]; what a successful [reader_open] implies about the
    image (whole pages, valid page 0). *)
From E57 Require Import Base.Prelude Model.Device Model.PagedWriter Model.PagedReader Spec.PageReadSpec
  Model.Prog Model.FileBin Model.ReaderOpen Model.CrashImage.
From E57 Require Import Proofs.PagedWriterProofs Proofs.FaultWriter Proofs.CrashLog Proofs.CrashOpen.

Lemma crash_prog_is_fault_prog is xml : crash_prog is xml = fault_prog is xml.
Proof. reflexivity. Qed.

(** a run under a single device fault that returns Ok from [finalize] leaves, after Drop, exactly
    the completed file of the fault-free run (C16_success_complete in the vocabulary of C15) *)
Theorem success_under_fault_is_final_image : forall (is : list item) (xml : list N) (i : N), 1 <= i ->
  snd (wrun (crash_prog is xml) (pw0f i)) = Ok tt ->
  d_bytes (pw_dev (fst (pw_drop (fst (wrun (crash_prog is xml) (pw0f i)))))) = final_image (crash_prog is xml).
Proof.
  intros is xml i Hi Hok. unfold final_image, dev_after. rewrite pw_fresh_pw0.
  exact (C16_success_complete is xml i Hi Hok).
Qed.

(** [reader_open] accepts only a non-zero whole number of pages whose page 0 has a valid checksum
    and whose first 48 bytes parse as a header *)
Theorem open_ok_shape : forall img s h x, open_result img = Ok (s, h, x) ->
  len img <> 0 /\ len img mod 1024 = 0 /\ page_ok 1024 (page_at 1024 img 0) = true /\
  header_parse (take 48 img) = Ok h.
Proof.
  intros img s h x E.
  destruct (reader_open_cases img) as [[e E']|(s' & h' & x' & E' & H1 & H2 & H3 & H4 & _)];
    rewrite E' in E; [discriminate|].
  injection E as _ <- _. auto.
Qed.

Print Assumptions success_under_fault_is_final_image.
Print Assumptions open_ok_shape.
