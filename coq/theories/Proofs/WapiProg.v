(** Writer API, part 1: facts about writer programs on the logical stream that
    do not depend on where the cursor is.  A program that only writes, aligns
    and flushes returns the same result on every stream ([wpure]); the stream
    invariant [ls_ok] (cursor inside the data and 4-aligned) is kept by every
    step the API performs; [wtry]; the binary file-level programs ([blob_write],
    [writer_init], [writer_finalize]) never fail on an [ls_ok] stream, whatever
    was written before - in particular after an earlier top-level finalize. *)
From E57 Require Import Base.Prelude Spec.PageSpec Model.PagedWriter Model.Prog Model.Record
  Model.PcWriter Model.FileBin Model.WriterApi.
From E57 Require Import Proofs.PagedWriterLemmas Proofs.ProgTransfer Proofs.PcWriterLemmas.
From Coq Require Import ZifyN ZifyNat ZifyBool.
Ltac Zify.zify_post_hook ::= Z.div_mod_to_equations.
Open Scope N_scope.

(** * The stream invariant *)

Definition ls_ok (l : lstream) : Prop := ls_pos l <= len (ls_data l) /\ ls_pos l mod 4 = 0.
(** the data never shrinks *)
Definition ls_le (l l' : lstream) : Prop := len (ls_data l) <= len (ls_data l').

Lemma ls_le_refl l : ls_le l l.
Proof. unfold ls_le. lia. Qed.
Lemma ls_le_trans a b c : ls_le a b -> ls_le b c -> ls_le a c.
Proof. unfold ls_le. lia. Qed.

Lemma ls_init_ok : ls_ok ls_init.
Proof. split; reflexivity. Qed.

Lemma ls_write_len l bs : len (ls_data l) <= len (ls_data (ls_write l bs)).
Proof.
  unfold ls_write. destruct bs as [|b r]; [lia|]. cbn [ls_data]. rewrite len_overwrite. lia.
Qed.

Lemma ls_write_pos l bs : ls_pos (ls_write l bs) = ls_pos l + len bs.
Proof.
  unfold ls_write. destruct bs as [|b r]; [rewrite len_nil; lia|]. reflexivity.
Qed.

Lemma ls_write_pos_le l bs : ls_pos l <= len (ls_data l) ->
  ls_pos (ls_write l bs) <= len (ls_data (ls_write l bs)).
Proof.
  intros H. unfold ls_write. destruct bs as [|b r]; [exact H|].
  cbn [ls_data ls_pos]. rewrite len_overwrite. lia.
Qed.

(** * [wtry] *)

Lemma wrun_spec_wtry {A} (p : wprog A) : forall l,
  wrun_spec (wtry p) l =
  (fst (wrun_spec p l),
   match snd (wrun_spec p l) with Ok a => Ok (Ok a) | Err k => Ok (Err k) | Panic => Panic end).
Proof.
  induction p as [a|k| |o k IH]; intros l; try reflexivity.
  cbn [wtry wrun_spec]. destruct (ls_step o l) as [l1 x]. apply IH.
Qed.

(** * Programs that only write: the result does not depend on the stream *)

Definition is_wr (o : pw_op) : bool :=
  match o with PwWrite _ | PwAlign | PwFlush => true | _ => false end.

Fixpoint wpure {A} (p : wprog A) : option (res A) :=
  match p with
  | WRet a => Some (Ok a)
  | WErr k => Some (Err k)
  | WPanic => Some Panic
  | WOp o k => if is_wr o then wpure (k (Ok 0)) else None
  end.

Lemma wpure_bind {A B} (p : wprog A) (f : A -> wprog B) :
  wpure (wbind p f) =
  match wpure p with
  | Some (Ok a) => wpure (f a)
  | Some (Err k) => Some (Err k)
  | Some Panic => Some Panic
  | None => None
  end.
Proof.
  induction p as [a|k| |o k IH]; try reflexivity.
  cbn [wbind wpure]. destruct (is_wr o); [apply IH|reflexivity].
Qed.

Lemma wpure_wlift {A} (r : res A) : wpure (wlift r) = Some r.
Proof. destruct r; reflexivity. Qed.
Lemma wpure_wr bs : wpure (wr bs) = Some (Ok tt).
Proof. reflexivity. Qed.
Lemma wpure_align : wpure w_align = Some (Ok tt).
Proof. reflexivity. Qed.
Lemma wpure_wr_all : forall cs, wpure (wr_all cs) = Some (Ok tt).
Proof.
  induction cs as [|c r IH]; [reflexivity|]. cbn [wr_all]. rewrite wpure_bind, wpure_wr. exact IH.
Qed.

Lemma align_pos l : ls_pos l <= len (ls_data l) ->
  let l' := fst (ls_step PwAlign l) in
  ls_pos l' <= len (ls_data l') /\ ls_pos l' mod 4 = 0.
Proof.
  intros H. cbn [ls_step fst]. split; [apply ls_write_pos_le; exact H|].
  rewrite ls_write_pos, len_zeros. lia.
Qed.

(** Soundness: on every stream the result is the predicted one; the data only grows
    and the cursor stays inside it. *)
Lemma wpure_sound {A} (p : wprog A) : forall r l, wpure p = Some r ->
  ls_pos l <= len (ls_data l) ->
  snd (wrun_spec p l) = r /\
  ls_pos (fst (wrun_spec p l)) <= len (ls_data (fst (wrun_spec p l))) /\
  ls_le l (fst (wrun_spec p l)).
Proof.
  induction p as [a|k| |o k IH]; intros r l Hp Hl; cbn [wpure] in Hp.
  - inversion Hp. cbn. split; [reflexivity|]. split; [exact Hl|apply ls_le_refl].
  - inversion Hp. cbn. split; [reflexivity|]. split; [exact Hl|apply ls_le_refl].
  - inversion Hp. cbn. split; [reflexivity|]. split; [exact Hl|apply ls_le_refl].
  - destruct (is_wr o) eqn:Eo; [|discriminate]. cbn [wrun_spec].
    destruct o; try discriminate; cbn [ls_step].
    + destruct (IH (Ok 0) r (ls_write l data) Hp (ls_write_pos_le l data Hl)) as (H1 & H2 & H3).
      split; [exact H1|]. split; [exact H2|].
      eapply ls_le_trans; [|exact H3]. unfold ls_le. apply ls_write_len.
    + destruct (IH (Ok 0) r l Hp Hl) as (H1 & H2 & H3). auto.
    + set (z := zeros ((4 - ls_pos l mod 4) mod 4)).
      destruct (IH (Ok 0) r (ls_write l z) Hp (ls_write_pos_le l z Hl)) as (H1 & H2 & H3).
      split; [exact H1|]. split; [exact H2|].
      eapply ls_le_trans; [|exact H3]. unfold ls_le. apply ls_write_len.
Qed.

(** * Sequencing on the logical stream *)

Lemma run_bind {A B} (p : wprog A) (f : A -> wprog B) l :
  wrun_spec (wbind p f) l =
  match snd (wrun_spec p l) with
  | Ok a => wrun_spec (f a) (fst (wrun_spec p l))
  | Err k => (fst (wrun_spec p l), Err k)
  | Panic => (fst (wrun_spec p l), Panic)
  end.
Proof.
  rewrite wrun_spec_bind. destruct (wrun_spec p l) as [l1 r]. destruct r; reflexivity.
Qed.

Lemma run_position l : wrun_spec w_position l = (l, Ok (phys_of_log (ls_pos l))).
Proof. reflexivity. Qed.

Lemma run_wr_gen bs l : wrun_spec (wr bs) l = (ls_write l bs, Ok tt).
Proof. reflexivity. Qed.

Lemma run_seek_gen l x : x <= len (ls_data l) ->
  wrun_spec (w_seek (phys_of_log x)) l = (mkLs (ls_data l) x, Ok tt).
Proof.
  intros H. destruct l as [d p]. cbn [ls_data] in *. apply run_w_seek. exact H.
Qed.

Lemma run_align_gen l : wrun_spec w_align l = (fst (ls_step PwAlign l), Ok tt).
Proof. reflexivity. Qed.

Lemma run_wr_all_gen : forall cs l, ls_pos l <= len (ls_data l) ->
  snd (wrun_spec (wr_all cs) l) = Ok tt /\
  ls_pos (fst (wrun_spec (wr_all cs) l)) = ls_pos l + len (concat cs) /\
  ls_pos (fst (wrun_spec (wr_all cs) l)) <= len (ls_data (fst (wrun_spec (wr_all cs) l))) /\
  ls_le l (fst (wrun_spec (wr_all cs) l)).
Proof.
  induction cs as [|c r IH]; intros l Hl.
  - cbn. rewrite len_nil. split; [reflexivity|]. split; [lia|]. split; [exact Hl|apply ls_le_refl].
  - cbn [wr_all concat]. rewrite run_bind, run_wr_gen. cbn [fst snd].
    destruct (IH (ls_write l c) (ls_write_pos_le l c Hl)) as (H1 & H2 & H3 & H4).
    split; [exact H1|]. split; [rewrite H2, ls_write_pos, len_app; lia|]. split; [exact H3|].
    eapply ls_le_trans; [|exact H4]. unfold ls_le. apply ls_write_len.
Qed.

(** * The file-level binary programs on any [ls_ok] stream *)

Lemma header_fields_len a b c : len (concat (header_fields a b c)) = 48.
Proof.
  unfold header_fields. cbn [concat]. rewrite !len_app, !pc_len_le_bytes, len_nil. reflexivity.
Qed.

Lemma writer_init_run l : ls_ok l ->
  snd (wrun_spec writer_init l) = Ok tt /\ ls_ok (fst (wrun_spec writer_init l)) /\
  ls_le l (fst (wrun_spec writer_init l)).
Proof.
  intros [Hl Ha]. unfold writer_init, header_write.
  destruct (run_wr_all_gen (header_fields 0 0 0) l Hl) as (H1 & H2 & H3 & H4).
  split; [exact H1|]. split; [|exact H4]. split; [exact H3|].
  rewrite H2, header_fields_len. lia.
Qed.

Lemma blob_write_run data l : ls_ok l ->
  exists l', wrun_spec (blob_write data) l = (l', Ok (phys_of_log (ls_pos l), len data)) /\
    ls_ok l' /\ ls_le l l'.
Proof.
  intros [Hl Ha]. unfold blob_write.
  rewrite run_bind, run_position. cbn [fst snd].
  rewrite run_bind, run_wr_gen. cbn [fst snd].
  set (l1 := ls_write l (zeros 16)).
  rewrite run_bind, run_wr_gen. cbn [fst snd].
  set (l2 := ls_write l1 data).
  rewrite run_bind, run_position. cbn [fst snd].
  assert (H1 : ls_pos l1 <= len (ls_data l1)) by (apply ls_write_pos_le; exact Hl).
  assert (H2 : ls_pos l2 <= len (ls_data l2)) by (apply ls_write_pos_le; exact H1).
  assert (L1 : len (ls_data l) <= len (ls_data l1)) by apply ls_write_len.
  assert (L2 : len (ls_data l1) <= len (ls_data l2)) by apply ls_write_len.
  rewrite run_bind, (run_seek_gen l2 (ls_pos l)) by lia. cbn [fst snd].
  rewrite run_bind, run_wr_gen. cbn [fst snd].
  set (hdr := zeros 8 ++ le_bytes 8 ((BLOB_HEADER_SIZE + len data + 3) / 4 * 4)).
  set (l3 := ls_write (mkLs (ls_data l2) (ls_pos l)) hdr).
  assert (L3 : len (ls_data l2) <= len (ls_data l3)) by apply (ls_write_len (mkLs (ls_data l2) (ls_pos l))).
  rewrite run_bind, (run_seek_gen l3 (ls_pos l2)) by lia. cbn [fst snd].
  set (l4 := mkLs (ls_data l3) (ls_pos l2)).
  rewrite run_bind.
  assert (Hal : wrun_spec (wrelabel EWrite w_align) l4 = (fst (ls_step PwAlign l4), Ok tt)) by reflexivity.
  rewrite Hal. cbn [fst snd].
  destruct (align_pos l4) as (P1 & P2); [subst l4; cbn [ls_pos ls_data]; lia|].
  eexists. split; [reflexivity|]. split; [split; assumption|].
  unfold ls_le. cbn [ls_step fst]. pose proof (ls_write_len l4 (zeros ((4 - ls_pos l4 mod 4) mod 4))) as L4.
  subst l4. cbn [ls_data] in *. lia.
Qed.

Lemma writer_finalize_run xml l : ls_ok l ->
  exists l', wrun_spec (writer_finalize xml) l = (l', Ok tt) /\ ls_ok l' /\ ls_le l l'.
Proof.
  intros [Hl Ha]. unfold writer_finalize.
  rewrite run_bind, run_position. cbn [fst snd].
  rewrite run_bind, run_wr_gen. cbn [fst snd].
  set (l1 := ls_write l xml).
  assert (H1 : ls_pos l1 <= len (ls_data l1)) by (apply ls_write_pos_le; exact Hl).
  assert (L1 : len (ls_data l) <= len (ls_data l1)) by apply ls_write_len.
  rewrite run_bind. change (wrun_spec w_size l1) with (l1, Ok (ls_phys_size l1)). cbn [fst snd].
  rewrite run_bind.
  assert (Hs : wrun_spec (w_seek 0) l1 = (mkLs (ls_data l1) 0, Ok tt)).
  { change 0 with (phys_of_log 0) at 1. apply run_seek_gen. lia. }
  rewrite Hs. cbn [fst snd].
  set (l2 := mkLs (ls_data l1) 0).
  rewrite run_bind. unfold header_write.
  destruct (run_wr_all_gen (header_fields (ls_phys_size l1) (phys_of_log (ls_pos l)) (len xml)) l2)
    as (R1 & R2 & R3 & R4); [subst l2; cbn [ls_pos ls_data]; lia|].
  rewrite R1.
  set (l3 := fst (wrun_spec (wr_all (header_fields (ls_phys_size l1) (phys_of_log (ls_pos l)) (len xml))) l2)) in *.
  change (wrun_spec w_flush l3) with (l3, Ok tt).
  exists l3. split; [reflexivity|]. split.
  - split; [exact R3|]. rewrite R2, header_fields_len. subst l2. cbn [ls_pos]. lia.
  - unfold ls_le in *. subst l2. cbn [ls_data] in R4. lia.
Qed.
