(** C16 at the level of the public writer API.  [wapi_step] runs the page-layer program of a call
    inside [wtry]: an error of the program becomes the call's result [CrErr] and the writer goes
    on.  So a sequence of calls is not a strict program; the right notion is per call:
    [csim E p] - run on a fault-free state and on its twin with fault index i, [p] either does
    exactly the same, or operation i was issued and [p] RETURNS a value satisfying [E] (here:
    the call result is [CrErr]); it does not panic and does not report success.  After that call
    the two runs are no longer related and nothing is claimed about later calls (they run on a
    device without further faults, from the state the failed call left: possibly a page buffer
    that was not written, a half-patched section header). *)
From E57 Require Import Base.Prelude Model.Device Model.PagedWriter Spec.PageSpec Model.Prog Model.Record
  Model.PcWriter Model.FileBin Model.Meta Model.MetaFile Model.WriterApi Model.WriterFull.
From E57 Require Import Proofs.PagedWriterProofs Proofs.ProgTransfer Proofs.FaultSim Proofs.FaultWriter
  Proofs.CrashApiSteps.
From Coq Require Import Lia.

(** * Per-call simulation *)

Definition csim {A} (E : A -> Prop) (p : wprog A) : Prop := forall i s s', ptwin i s s' ->
  (ptwin i (fst (wrun p s)) (fst (wrun p s')) /\ snd (wrun p s') = snd (wrun p s)) \/
  (i < d_ops (pw_dev (fst (wrun p s'))) /\ exists a, snd (wrun p s') = Ok a /\ E a).

Lemma csim_const A (E : A -> Prop) (p : wprog A) r : wconst p r -> csim E p.
Proof. intros Hc i s s' T. left. rewrite !Hc. split; [exact T|reflexivity]. Qed.

Lemma csim_try A C (E : C -> Prop) (q : wprog A) (k : res A -> wprog C) :
  wstrict q ->
  (forall r0, exists r, wconst (k r0) r) ->
  (forall e, exists a, wconst (k (Err e)) (Ok a) /\ E a) ->
  csim E (wbind (wtry q) k).
Proof.
  intros Hq Hk He i s s' T. rewrite !wrun_bind, !wrun_wtry.
  destruct (wrun_sim _ q Hq i s s' T) as [[T1 Hr]|[Hhit [e Herr]]].
  - left. rewrite Hr. destruct (snd (wrun q s)) as [a|e|].
    + destruct (Hk (Ok a)) as (r & Hc). rewrite !Hc. split; [exact T1|reflexivity].
    + destruct (Hk (Err e)) as (r & Hc). rewrite !Hc. split; [exact T1|reflexivity].
    + split; [exact T1|reflexivity].
  - right. rewrite Herr. cbv beta iota. destruct (He e) as (a & Hc & Ea).
    split; [rewrite Hc; exact Hhit|]. exists a. rewrite Hc. split; [reflexivity|exact Ea].
Qed.

Lemma csim_bind_const A C (E1 : A -> Prop) (E2 : C -> Prop) (p : wprog A) (f : A -> wprog C) :
  csim E1 p ->
  (forall a, exists r, wconst (f a) r) ->
  (forall a, E1 a -> exists b, wconst (f a) (Ok b) /\ E2 b) ->
  csim E2 (wbind p f).
Proof.
  intros Hp Hf He i s s' T. rewrite !wrun_bind.
  destruct (Hp i s s' T) as [[T1 Hr]|[Hhit (a & Ha & Ea)]].
  - left. destruct (wrun p s) as [s1 r1], (wrun p s') as [s1' r1']. cbn [fst snd] in *. subst r1'.
    destruct r1 as [a|e|]; try (split; [exact T1|reflexivity]).
    destruct (Hf a) as (r & Hc). rewrite !Hc. split; [exact T1|reflexivity].
  - right. destruct (wrun p s') as [s1' r1']. cbn [fst snd] in *. subst r1'.
    destruct (He a Ea) as (b & Hc & Eb). split; [rewrite Hc; exact Hhit|]. exists b. rewrite Hc. auto.
Qed.

(** * Every call of the API *)

Definition is_cr_err (x : wstate * call_result) : Prop := exists k, snd x = CrErr k.
Definition is_cr_err2 {X} (x : X * call_result) : Prop := exists k, snd x = CrErr k.
Definition is_cr_err3 {X Y} (x : X * Y * call_result) : Prop := exists k, snd x = CrErr k.

Lemma wstrict_pc_new exts guid proto : wstrict (pc_new exts guid proto).
Proof. unfold pc_new. wstrict_tac. Qed.

Lemma wstrict_im_blobs data mask : wstrict (im_blobs data mask).
Proof. unfold im_blobs. wstrict_tac. Qed.

Ltac kconst :=
  intros [?|?|]; repeat match goal with a : (_ * _)%type |- _ => destruct a end;
  eexists; intros ?; reflexivity.
Ltac kerr := intros ?; eexists; split; [intros ?; reflexivity|eexists; reflexivity].
Ltac cconst := solve [eapply csim_const; intros ?; reflexivity].

Section Api.
Variable gen_xml : file_meta -> res (list N).
Variable lib_version : xstring.

Lemma pc_add_point_csim values ps : csim is_cr_err2 (pc_add_point values ps).
Proof.
  unfold pc_add_point.
  destruct (ps_finalized ps); [cconst|]. destruct (negb _); [cconst|].
  destruct (update_bounds _ _ _) as [b1 [u|k|]]; [|cconst|cconst].
  apply csim_try; [apply wstrict_pcw_add_point|kconst|kerr].
Qed.

Lemma pc_finalize_csim ps : csim is_cr_err3 (pc_finalize ps).
Proof.
  unfold pc_finalize.
  destruct (ps_finalized ps); [cconst|]. destruct (negb _); [cconst|].
  apply csim_try; [apply wstrict_pcw_finalize|kconst|kerr].
Qed.

Lemma im_add_projection_csim st im fin data mask mk :
  csim is_cr_err (im_add_projection st im fin data mask mk).
Proof.
  unfold im_add_projection. destruct fin; [cconst|]. destruct (has_projection im); [cconst|].
  apply csim_try; [apply wstrict_im_blobs|kconst|kerr].
Qed.

Theorem wapi_step_csim st c : csim is_cr_err (wapi_step gen_xml lib_version st c).
Proof.
  unfold wapi_step. destruct (negb (ws_open st)).
  { destruct c; try cconst. apply csim_try; [apply wstrict_writer_init|kconst|kerr]. }
  destruct (ws_sub st) as [|ps|im fin]; destruct c; try cconst;
    try apply im_add_projection_csim.
  - destruct (ws_root st). cconst.
  - destruct (ws_root st). cconst.
  - destruct (_ >> _) as [[]|k|]; [|cconst|cconst].
    destruct (url_registered _ _); [cconst|]. destruct (ext_registered _ _); cconst.
  - destruct (ws_finalized st); [cconst|]. apply csim_try; [apply wstrict_blob_write|kconst|kerr].
  - destruct (ws_finalized st); [cconst|]. apply csim_try; [apply wstrict_pc_new|kconst|kerr].
  - destruct (ws_finalized st); cconst.
  - destruct (ws_finalized st); [cconst|]. destruct (gen_xml (ws_meta st)) as [xml|k|]; [|cconst|cconst].
    apply csim_try; [apply wstrict_writer_finalize|kconst|kerr].
  - eapply csim_bind_const; [apply pc_add_point_csim| |].
    + intros [ps' r]. eexists. intros s. reflexivity.
    + intros [ps' r] [k Hk]. cbn [snd] in Hk. subst r. eexists. split; [intros s; reflexivity|]. eexists. reflexivity.
  - eapply csim_bind_const; [apply pc_finalize_csim| |].
    + intros [[ps' pc] r]. eexists. intros s. reflexivity.
    + intros [[ps' pc] r] [k Hk]. cbn [snd] in Hk. subst r. eexists. split; [intros s; reflexivity|]. eexists. reflexivity.
  - destruct fin; [cconst|]. apply csim_try; [apply wstrict_im_blobs|kconst|kerr].
  - destruct fin; [cconst|]. destruct (im_visual_reference im), (im_projection im); cconst.
Qed.

(** * Sequences of calls, call by call *)

(** [wapi_run] executed call by call: the results so far, and whether every call returned (a
    panic of a call ends the run) *)
Fixpoint api_exec (st : wstate) (calls : list wcall) (s : pw) : pw * list call_result * bool :=
  match calls with
  | [] => (s, [], true)
  | c :: r =>
      let '(s1, x) := wrun (wapi_step gen_xml lib_version st c) s in
      match x with
      | Ok (st1, cr) => let '(s2, crs, ok) := api_exec st1 r s1 in (s2, cr :: crs, ok)
      | _ => (s1, [], false)
      end
  end.

Lemma api_exec_run : forall calls st s,
  let '(s', crs, ok) := api_exec st calls s in
  fst (wrun (wapi_run gen_xml lib_version st calls) s) = s' /\
  (forall st' xs, snd (wrun (wapi_run gen_xml lib_version st calls) s) = Ok (st', xs) -> xs = crs /\ ok = true) /\
  (ok = true -> exists st', snd (wrun (wapi_run gen_xml lib_version st calls) s) = Ok (st', crs)).
Proof.
  induction calls as [|c r IH]; intros st s; cbn [api_exec wapi_run].
  - cbn. split; [reflexivity|]. split; [intros st' xs E; injection E as _ <-; auto|eauto].
  - rewrite wrun_bind. destruct (wrun (wapi_step gen_xml lib_version st c) s) as [s1 [[st1 cr]|k|]].
    + specialize (IH st1 s1). destruct (api_exec st1 r s1) as [[s2 crs] ok]. destruct IH as (H1 & H2 & H3).
      rewrite wrun_bind. destruct (wrun (wapi_run gen_xml lib_version st1 r) s1) as [s2' [[st2 xs]|k|]];
        cbn [fst snd wret wrun] in *.
      * split; [exact H1|]. destruct (H2 st2 xs eq_refl) as [-> ->]. split; [|eauto].
        intros st' ys E. injection E as _ <-. auto.
      * split; [exact H1|]. split; [discriminate|]. intros Hok. destruct (H3 Hok) as [st' E]. discriminate.
      * split; [exact H1|]. split; [discriminate|]. intros Hok. destruct (H3 Hok) as [st' E]. discriminate.
    + cbn. split; [reflexivity|]. split; discriminate.
    + cbn. split; [reflexivity|]. split; discriminate.
Qed.

(** the call during which operation [i] is issued returns [CrErr]; the calls before it return
    what they return without the fault *)
Theorem api_fault_surfaces : forall calls st i s s', ptwin i s s' ->
  i < d_ops (pw_dev (fst (fst (api_exec st calls s)))) ->
  exists j e, nth_error (snd (fst (api_exec st calls s'))) j = Some (CrErr e) /\
              firstn j (snd (fst (api_exec st calls s'))) = firstn j (snd (fst (api_exec st calls s))).
Proof.
  induction calls as [|c r IH]; intros st i s s' T Hi; cbn [api_exec] in *.
  - cbn [fst snd] in Hi. destruct T as ((_ & _ & Ho & _ & _ & _ & Hle) & _). lia.
  - destruct (wapi_step_csim st c i s s' T) as [[T1 Hr]|[Hhit ([st1 cr] & Ha & [k Hk])]].
    + destruct (wrun (wapi_step gen_xml lib_version st c) s) as [s1 x],
               (wrun (wapi_step gen_xml lib_version st c) s') as [s1' x']. cbn [fst snd] in *. subst x'.
      destruct x as [[st1 cr]|k|].
      * specialize (IH st1 i s1 s1' T1).
        destruct (api_exec st1 r s1) as [[s2 crs] ok], (api_exec st1 r s1') as [[s2' crs'] ok'].
        cbn [fst snd] in *. destruct (IH Hi) as (j & e & Hn & Hf).
        exists (S j), e. cbn [nth_error firstn]. split; [exact Hn|]. f_equal. exact Hf.
      * cbn [fst snd] in Hi. destruct T1 as ((_ & _ & Ho & _ & _ & _ & Hle) & _). lia.
      * cbn [fst snd] in Hi. destruct T1 as ((_ & _ & Ho & _ & _ & _ & Hle) & _). lia.
    + destruct (wrun (wapi_step gen_xml lib_version st c) s') as [s1' x']. cbn [fst snd] in *. subst x'.
      cbn [snd] in Hk. subst cr.
      destruct (api_exec st1 r s1') as [[s2' crs'] ok']. cbn [fst snd].
      exists 0%nat, k. split; reflexivity.
Qed.

(** * A run in which every call succeeded under the fault plan *)

Definition cr_ok (r : call_result) : Prop := match r with CrErr _ => False | _ => True end.

(** no [CrErr] among the results: the fault was not hit inside any call, the runs are twins *)
Lemma api_all_ok_twin : forall calls st i s s', ptwin i s s' ->
  Forall cr_ok (snd (fst (api_exec st calls s'))) ->
  ptwin i (fst (fst (api_exec st calls s))) (fst (fst (api_exec st calls s'))) /\
  snd (fst (api_exec st calls s')) = snd (fst (api_exec st calls s)) /\
  snd (api_exec st calls s') = snd (api_exec st calls s) /\
  forall st' xs, snd (wrun (wapi_run gen_xml lib_version st calls) s') = Ok (st', xs) ->
                 snd (wrun (wapi_run gen_xml lib_version st calls) s) = Ok (st', xs).
Proof.
  induction calls as [|c r IH]; intros st i s s' T Hok; cbn [api_exec wapi_run] in *.
  - cbn. auto.
  - rewrite !wrun_bind.
    destruct (wapi_step_csim st c i s s' T) as [[T1 Hr]|[Hhit ([st1 cr] & Ha & [k Hk])]].
    + destruct (wrun (wapi_step gen_xml lib_version st c) s) as [s1 x],
               (wrun (wapi_step gen_xml lib_version st c) s') as [s1' x']. cbn [fst snd] in *. subst x'.
      destruct x as [[st1 cr]|k|]; try (cbn; auto; fail).
      specialize (IH st1 i s1 s1' T1). rewrite !wrun_bind.
      destruct (api_exec st1 r s1) as [[s2 crs] ok], (api_exec st1 r s1') as [[s2' crs'] ok'].
      cbn [fst snd] in *. inversion Hok as [|? ? _ Hok']; subst.
      destruct (IH Hok') as (T2 & E1 & E2 & E3). subst crs' ok'.
      split; [exact T2|]. split; [reflexivity|]. split; [reflexivity|].
      intros st' xs.
      destruct (wrun (wapi_run gen_xml lib_version st1 r) s1') as [s3' [[st3 ys]|k|]]; cbn [snd wret wrun]; try discriminate.
      pose proof (E3 st3 ys eq_refl) as E4.
      destruct (wrun (wapi_run gen_xml lib_version st1 r) s1) as [s3 r3]. cbn [snd] in E4. subst r3.
      cbn [snd wret wrun]. auto.
    + exfalso. destruct (wrun (wapi_step gen_xml lib_version st c) s') as [s1' x']. cbn [fst snd] in *. subst x'.
      cbn [snd] in Hk. subst cr. destruct (api_exec st1 r s1') as [[s2' crs'] ok']. cbn [fst snd] in Hok.
      inversion Hok as [|? ? Hbad _]. exact Hbad.
Qed.

(** the fault-free run: the paged writer stays related to a logical stream, and once the
    top-level finalize has succeeded a further flush changes nothing *)
Definition flushed (s : pw) : Prop := d_bytes (pw_dev (fst (pw_flush s))) = d_bytes (pw_dev s).

Lemma finalize_ends_flushed xml s l :
  R s l -> snd (wrun (writer_finalize xml) s) = Ok tt -> flushed (fst (wrun (writer_finalize xml) s)).
Proof.
  intros R2 Hok. unfold flushed. unfold writer_finalize in *.
  destruct (wrun_bind_ok _ _ _ _ _ _ Hok) as (a3 & H3 & E3). rewrite E3 in *. clear E3.
  destruct (R_wrun _ w_position s l R2) as (l3 & R3).
  revert Hok R3. generalize (fst (wrun w_position s)). intros s3 Hok R3.
  destruct (wrun_bind_ok _ _ _ _ _ _ Hok) as (a4 & H4 & E4). rewrite E4 in *. clear E4.
  destruct (R_wrun _ (wr xml) s3 l3 R3) as (l4 & R4).
  revert Hok R4. generalize (fst (wrun (wr xml) s3)). intros s4 Hok R4.
  destruct (wrun_bind_ok _ _ _ _ _ _ Hok) as (a5 & H5 & E5). rewrite E5 in *. clear E5.
  destruct (R_wrun _ w_size s4 l4 R4) as (l5 & R5).
  revert Hok R5. generalize (fst (wrun w_size s4)). intros s5 Hok R5.
  destruct (wrun_bind_ok _ _ _ _ _ _ Hok) as (a6 & H6 & E6). rewrite E6 in *. clear E6.
  destruct (R_wrun _ (w_seek 0) s5 l5 R5) as (l6 & R6).
  revert Hok R6. generalize (fst (wrun (w_seek 0) s5)). intros s6 Hok R6.
  destruct (wrun_bind_ok _ _ _ _ _ _ Hok) as (a7 & H7 & E7). rewrite E7 in *. clear E7.
  destruct (R_wrun _ (header_write a5 a3 (len xml)) s6 l6 R6) as (l7 & R7).
  revert Hok R7. generalize (fst (wrun (header_write a5 a3 (len xml)) s6)). intros s7 Hok R7.
  exact (flush_after_w_flush s7 l7 R7 Hok).
Qed.

Definition api_inv (st : wstate) (s : pw) : Prop :=
  (exists l, R s l) /\ (ws_finalized st = true -> finalized st /\ flushed s) /\
  (ws_open st = false -> st = ws_init).

Lemma api_inv_step st c s s1 st1 cr :
  api_inv st s -> wrun (wapi_step gen_xml lib_version st c) s = (s1, Ok (st1, cr)) -> api_inv st1 s1.
Proof.
  intros ((l & HR) & Hfin & Hclosed) Hrun.
  assert (HR1 : exists l1, R s1 l1).
  { destruct (R_wrun _ (wapi_step gen_xml lib_version st c) s l HR) as (l1 & H). rewrite Hrun in H. eauto. }
  destruct (ws_finalized st) eqn:Ef.
  { destruct (Hfin eq_refl) as (Hf & Hfl). destruct (finalized_step gen_xml lib_version st c Hf) as (r & Hc & Hx).
    rewrite Hc in Hrun. injection Hrun as <- ->. destruct (Hx st1 cr eq_refl) as (Hf1 & _).
    split; [exact HR1|]. split; [auto|]. destruct Hf1 as (Ho1 & _). rewrite Ho1. discriminate. }
  destruct (ws_open st) eqn:Eo.
  2:{ rewrite (Hclosed eq_refl) in Hrun.
      destruct c; try (rewrite (closed_step gen_xml lib_version) in Hrun by discriminate;
                       injection Hrun as <- <- <-; split; [exists l; exact HR|]; split; [discriminate|reflexivity]).
      rewrite new_writer_step, wrun_bind, wrun_wtry in Hrun.
      destruct (snd (wrun writer_init s)) as [[]|k|]; cbn [wret wrun] in Hrun; [| |discriminate].
      - injection Hrun as <- <- <-. split; [exact HR1|]. split; discriminate.
      - injection Hrun as <- <- <-. split; [exact HR1|]. split; [discriminate|reflexivity]. }
  assert (Hcase : at_finalize st c \/ ~ at_finalize st c).
  { unfold at_finalize. destruct c; try (right; intros (Hc & _); discriminate Hc).
    destruct (ws_sub st) eqn:Es; [left; auto|right; intros (_ & _ & H & _); discriminate H..]. }
  destruct Hcase as [(-> & _ & Es & _)|Hn].
  - rewrite (finalize_step gen_xml lib_version st Eo Es Ef) in Hrun.
    destruct (gen_xml (ws_meta st)) as [xml|k|].
    + rewrite wrun_bind, wrun_wtry in Hrun.
      destruct (snd (wrun (writer_finalize xml) s)) as [[]|k|] eqn:Ew; cbn [wret wrun] in Hrun; [| |discriminate].
      * injection Hrun as <- <- <-. split; [exact HR1|]. split; [|discriminate].
        intros _. split; [unfold finalized; cbn; auto|]. eapply finalize_ends_flushed; eassumption.
      * injection Hrun as <- <- <-. split; [exact HR1|]. split; [rewrite Ef; discriminate|rewrite Eo; discriminate].
    + cbn [wret wrun] in Hrun. injection Hrun as <- <- <-. split; [exact HR1|]. split; [rewrite Ef; discriminate|rewrite Eo; discriminate].
    + discriminate.
  - pose proof (wpost_run _ _ _ (other_step_post gen_xml lib_version st c Eo Ef Hn) s (st1, cr)) as Hp.
    rewrite Hrun in Hp. destruct (Hp eq_refl) as [Ho1 Hf1]. cbn [fst] in *.
    split; [exact HR1|]. split; [rewrite Hf1; discriminate|rewrite Ho1; discriminate].
Qed.

Lemma api_inv_run : forall calls st s st' xs,
  api_inv st s -> snd (wrun (wapi_run gen_xml lib_version st calls) s) = Ok (st', xs) ->
  api_inv st' (fst (wrun (wapi_run gen_xml lib_version st calls) s)).
Proof.
  induction calls as [|c r IH]; intros st s st' xs Hi Hr; cbn [wapi_run] in *.
  - cbn in *. injection Hr as <- _. exact Hi.
  - rewrite wrun_bind in *.
    destruct (wrun (wapi_step gen_xml lib_version st c) s) as [s1 [[st1 cr]|k|]] eqn:E1; try discriminate.
    pose proof (api_inv_step _ _ _ _ _ _ Hi E1) as Hi1.
    rewrite wrun_bind in *.
    destruct (wrun (wapi_run gen_xml lib_version st1 r) s1) as [s2 [[st2 ys]|k|]] eqn:E2; try discriminate.
    cbn [wret wrun fst snd] in *. injection Hr as <- _.
    specialize (IH st1 s1 st2 ys Hi1). rewrite E2 in IH. apply IH. reflexivity.
Qed.

End Api.

(** * The whole writer *)

Section Full.
Variables fmt64 fmt32 : N -> xstring.
Variable version : xstring.

Notation G := (gen_xml_full fmt64 fmt32).
Notation L := (lib_version_text version).

(** the results of the calls, call by call (up to a panic), on a given paged writer *)
Definition api_results (calls : list wcall) (s : pw) : list call_result :=
  snd (fst (api_exec G L ws_init calls s)).
Definition api_ops (calls : list wcall) (s : pw) : N :=
  d_ops (pw_dev (fst (fst (api_exec G L ws_init calls s)))).

Lemma api_exec_writer_run calls s :
  fst (wrun (writer_run fmt64 fmt32 version calls) s) = fst (fst (api_exec G L ws_init calls s)) /\
  forall st xs, snd (wrun (writer_run fmt64 fmt32 version calls) s) = Ok (st, xs) -> xs = api_results calls s.
Proof.
  unfold writer_run, api_results.
  pose proof (api_exec_run G L calls ws_init s) as H.
  destruct (api_exec G L ws_init calls s) as [[s' crs] ok]. destruct H as (H1 & H2 & _).
  cbn [fst snd]. split; [exact H1|]. intros st xs E. destruct (H2 st xs E) as [-> _]. reflexivity.
Qed.

Theorem api_fault_surfaces_full : forall calls i, 1 <= i ->
  i < d_ops (pw_dev (fst (wrun (writer_run fmt64 fmt32 version calls) pw0))) ->
  exists j e, nth_error (api_results calls (pw0f i)) j = Some (CrErr e) /\
              firstn j (api_results calls (pw0f i)) = firstn j (api_results calls pw0).
Proof.
  intros calls i Hi Hops. destruct (api_exec_writer_run calls pw0) as [E _]. rewrite E in Hops.
  exact (api_fault_surfaces G L calls ws_init i pw0 (pw0f i) (ptwin_pw0 i Hi) Hops).
Qed.

(** when both runs return (no panic), the statement on the returned result lists *)
Corollary api_fault_surfaces_results : forall calls i st rs st' rs', 1 <= i ->
  i < d_ops (pw_dev (fst (wrun (writer_run fmt64 fmt32 version calls) pw0))) ->
  snd (wrun (writer_run fmt64 fmt32 version calls) pw0) = Ok (st, rs) ->
  snd (wrun (writer_run fmt64 fmt32 version calls) (pw0f i)) = Ok (st', rs') ->
  exists j e, nth_error rs' j = Some (CrErr e) /\ firstn j rs' = firstn j rs.
Proof.
  intros calls i st rs st' rs' Hi Hops H0 H1.
  destruct (api_exec_writer_run calls pw0) as [_ E0]. destruct (api_exec_writer_run calls (pw0f i)) as [_ E1].
  rewrite (E0 _ _ H0), (E1 _ _ H1). apply api_fault_surfaces_full; assumption.
Qed.

(** every call including the top-level finalize returned without error under the fault plan:
    after Drop the device holds exactly the file of the fault-free run *)
Theorem api_success_complete : forall calls i st' rs', 1 <= i ->
  snd (wrun (writer_run fmt64 fmt32 version calls) (pw0f i)) = Ok (st', rs') ->
  Forall cr_ok rs' -> ws_finalized st' = true ->
  d_bytes (pw_dev (fst (pw_drop (fst (wrun (writer_run fmt64 fmt32 version calls) (pw0f i)))))) =
  d_bytes (pw_dev (fst (pw_drop (fst (wrun (writer_run fmt64 fmt32 version calls) pw0))))) /\
  snd (wrun (writer_run fmt64 fmt32 version calls) pw0) = Ok (st', rs').
Proof.
  intros calls i st' rs' Hi Hrun Hok Hfin.
  destruct (api_exec_writer_run calls (pw0f i)) as [Ef Er]. pose proof (Er _ _ Hrun) as Ers.
  destruct (api_exec_writer_run calls pw0) as [E0 _].
  assert (Hok' : Forall cr_ok (snd (fst (api_exec G L ws_init calls (pw0f i))))) by (unfold api_results in Ers; rewrite <- Ers; exact Hok).
  destruct (api_all_ok_twin G L calls ws_init i pw0 (pw0f i) (ptwin_pw0 i Hi) Hok') as (T & _ & _ & Hres).
  pose proof (Hres st' rs' Hrun) as Hrun0. fold (writer_run fmt64 fmt32 version calls) in Hrun0.
  split; [|exact Hrun0].
  assert (Hinv0 : api_inv ws_init pw0).
  { split; [exists ls_init; apply R_init|]. split; [discriminate|reflexivity]. }
  pose proof (api_inv_run G L calls ws_init pw0 st' rs' Hinv0 Hrun0) as (_ & Hfl & _).
  destruct (Hfl Hfin) as (_ & Hflushed). unfold flushed in Hflushed.
  fold (writer_run fmt64 fmt32 version calls) in Hflushed.
  rewrite !pw_drop_fst, Ef, E0.
  rewrite E0 in Hflushed.
  destruct (flush_fault_bytes i _ _ T) as [E|E]; rewrite E; [symmetry; exact Hflushed|reflexivity].
Qed.

End Full.

Print Assumptions wapi_step_csim.
Print Assumptions api_fault_surfaces_full.
Print Assumptions api_success_complete.
