(** Child lookups in the trees of Spec/MetaTree.v (children laid out one per line, optional
    children as [opt1] segments) and the leaf extractors of Model/XmlExtract.v on them. *)
From Coq Require Import Strings.String.
From Coq Require Import List Bool NArith ZArith Lia.
From E57 Require Import Base.Prelude Model.Meta Model.MetaFile Model.XmlTree Model.XmlExtract
  Spec.MetaTree Spec.XeMetaOk Proofs.XeLemmas Proofs.XeTreeDec.
Import ListNotations.

Local Notation "'B' s" := (ltac:(let v := eval vm_compute in (bytes_of_string s%string) in exact v))
  (at level 0, s at level 0, only parsing).

(** * First match among children laid out one per line *)
Definition ffind (p : xnode -> bool) (ch : list xnode) : option xnode :=
  find p (flat_map (fun c => [c; nl]) ch).
Definition ofind (p : xnode -> bool) {A} (f : A -> xnode) (o : option A) : option xnode :=
  match o with Some v => if p (f v) then Some (f v) else None | None => None end.

Lemma find_lines p ch : p nl = false -> find p (lines ch) = ffind p ch.
Proof. intros H. unfold lines, ffind. cbn [find]. rewrite H. reflexivity. Qed.

Lemma ffind_nil p : ffind p [] = None.
Proof. reflexivity. Qed.
Lemma ffind_cons p x r : p nl = false -> ffind p (x :: r) = if p x then Some x else ffind p r.
Proof. intros H. unfold ffind. cbn [flat_map app find]. rewrite H. reflexivity. Qed.
Lemma ffind_app p a b : ffind p (a ++ b) = match ffind p a with Some x => Some x | None => ffind p b end.
Proof. unfold ffind. rewrite flat_map_app. apply find_app. Qed.
Lemma ffind_opt1 p {A} (f : A -> xnode) o : p nl = false -> ffind p (opt1 f o) = ofind p f o.
Proof. intros H. destruct o; cbn [opt1 ofind]; [rewrite ffind_cons by exact H; rewrite ffind_nil|]; reflexivity. Qed.
Lemma ofind_no p {A} (f : A -> xnode) o : (forall v, p (f v) = false) -> ofind p f o = None.
Proof. intros H. destruct o; cbn; [rewrite H|]; reflexivity. Qed.
Lemma ofind_yes p {A} (f : A -> xnode) o : (forall v, p (f v) = true) -> ofind p f o = option_map f o.
Proof. intros H. destruct o; cbn; [rewrite H|]; reflexivity. Qed.
Lemma opt_id {A} (o : option A) : match o with Some x => Some x | None => None end = o.
Proof. destruct o; reflexivity. Qed.

Lemma find_child_el sc nm name attrs ch :
  find_child nm (el sc name attrs (lines ch)) = ffind (is_tag nm) ch.
Proof. unfold find_child, el. cbn [children]. apply find_lines. reflexivity. Qed.
Lemma find_child_typed_el sc nm t name attrs ch :
  find_child_typed nm t (el sc name attrs (lines ch)) =
  ffind (fun c => is_tag nm c && attr_is TYPE t c) ch.
Proof. unfold find_child_typed, el. cbn [children]. apply find_lines. reflexivity. Qed.

(** evaluate the tests on concrete tag names *)
Ltac eval_ifs :=
  repeat match goal with
         | |- context[if ?c then _ else _] =>
             let v := eval vm_compute in c in
             first [constr_eq v true | constr_eq v false]; change c with v; cbv beta iota
         end.
Ltac fc_side :=
  intros; try match goal with v : limit_value |- _ => destruct v end; vm_compute; reflexivity.
(** after unfolding the builder of the parent: the lookup as a closed form *)
Ltac fc_norm :=
  rewrite ?find_child_el, ?find_child_typed_el;
  rewrite ?ffind_app;
  rewrite ?ffind_opt1 by reflexivity;
  repeat (rewrite ffind_cons by reflexivity);
  rewrite ?ffind_nil;
  repeat first [rewrite ofind_no by fc_side | rewrite ofind_yes by fc_side];
  eval_ifs; cbv beta iota; rewrite ?opt_id.
Ltac fc := fc_norm; reflexivity.

(** * Leaf extractors *)
Lemma f64_eta f b : N.eqb b (f64_bits f) = true -> mkF64 b (f64_text f) = f.
Proof. intros H. apply N.eqb_eq in H. subst. destruct f; reflexivity. Qed.
Lemma f32_eta f b : N.eqb b (f32_bits f) = true -> mkF32 b (f32_text f) = f.
Proof. intros H. apply N.eqb_eq in H. subst. destruct f; reflexivity. Qed.

Section Leaf.
Variable sc : list xnsdecl.
Variables pf64 pf32 : xstr -> option N.

(** the text of a leaf element of the trees *)
Lemma elem_text_leaf name attrs t : elem_text (el sc name attrs [XText t]) = Some t.
Proof. unfold elem_text, el. cbn [children existsb is_text_node orb cat_texts]. rewrite app_nil_r. reflexivity. Qed.
Lemma opt_text_leaf d name attrs t : opt_text d (el sc name attrs [XText t]) = t.
Proof. unfold opt_text. rewrite elem_text_leaf. reflexivity. Qed.
Lemma opt_text_string d n s : opt_text d (t_string sc n s) = s.
Proof. apply opt_text_leaf. Qed.
Lemma opt_text_float d n f : opt_text d (t_float sc n f) = f64_text f.
Proof. apply opt_text_leaf. Qed.
Lemma opt_text_int d n z : opt_text d (t_int sc n z) = dec_z z.
Proof. apply opt_text_leaf. Qed.
Lemma opt_text_uint d n z : opt_text d (t_uint sc n z) = dec_n z.
Proof. apply opt_text_leaf. Qed.

Lemma f64_parsed_ok f : fo64 pf64 f = true -> f64_parsed pf64 (f64_text f) = Some f.
Proof.
  unfold fo64, f64_parsed. destruct (pf64 (f64_text f)) as [b|]; [|discriminate].
  intros H. rewrite (f64_eta _ _ H). reflexivity.
Qed.
Lemma f32_parsed_ok f : fo32 pf32 f = true -> f32_parsed pf32 (f32_text f) = Some f.
Proof.
  unfold fo32, f32_parsed. destruct (pf32 (f32_text f)) as [b|]; [|discriminate].
  intros H. rewrite (f32_eta _ _ H). reflexivity.
Qed.

Lemma in_i64_spec z : in_i64 z = true -> (- 2 ^ 63 <= z <= 2 ^ 63 - 1)%Z.
Proof. unfold in_i64. intros H. apply andb_true_iff in H. destruct H as [H1 H2]. apply Z.leb_le in H1. apply Z.leb_le in H2. lia. Qed.
Lemma in_u64_spec n : in_u64 n = true -> n < 2 ^ 64.
Proof. unfold in_u64. intros H. apply N.ltb_lt in H. exact H. Qed.
Lemma in_u32_spec n : in_u32 n = true -> n < 2 ^ 32.
Proof. unfold in_u32. intros H. apply N.ltb_lt in H. exact H. Qed.

Lemma opt_string_of n nm nm' o :
  find_child nm n = option_map (t_string sc nm') o -> opt_string n nm = Ok o.
Proof.
  intros E. unfold opt_string, opt_bind. rewrite E. destruct o as [s|]; [|reflexivity].
  cbn [option_map opt_case]. change (check_type _ (t_string sc nm' s)) with (@Ok unit tt). cbn [res_bind].
  rewrite opt_text_string. reflexivity.
Qed.

Lemma req_string_of n nm nm' s :
  find_child nm n = Some (t_string sc nm' s) -> req_string n nm = Ok s.
Proof. intros E. unfold req_string. rewrite (opt_string_of n nm nm' (Some s) E). reflexivity. Qed.

Lemma opt_f64_of n nm nm' o :
  find_child nm n = option_map (t_float sc nm') o -> ofo (fo64 pf64) o = true -> opt_f64 pf64 n nm = Ok o.
Proof.
  intros E H. unfold opt_f64, opt_num, opt_bind. rewrite E. destruct o as [f|]; [|reflexivity].
  cbn [ofo] in H. cbn [option_map opt_case].
  change (check_type _ (t_float sc nm' f)) with (@Ok unit tt). cbn [res_bind].
  rewrite opt_text_float.
  rewrite (f64_parsed_ok f H). reflexivity.
Qed.

Lemma req_f64_of n nm nm' f :
  find_child nm n = Some (t_float sc nm' f) -> fo64 pf64 f = true -> req_f64 pf64 n nm = Ok f.
Proof. intros E H. unfold req_f64. rewrite (opt_f64_of n nm nm' (Some f) E H). reflexivity. Qed.

Lemma opt_i64_of n nm nm' o :
  find_child nm n = option_map (t_int sc nm') o -> ofo in_i64 o = true -> opt_int parse_i64 n nm = Ok o.
Proof.
  intros E H. unfold opt_int, opt_num, opt_bind. rewrite E. destruct o as [z|]; [|reflexivity].
  cbn [ofo] in H. cbn [option_map opt_case].
  change (check_type _ (t_int sc nm' z)) with (@Ok unit tt). cbn [res_bind].
  rewrite opt_text_int.
  rewrite (parse_i64_dec_z z (in_i64_spec z H)). reflexivity.
Qed.

Lemma req_i64_of n nm nm' z :
  find_child nm n = Some (t_int sc nm' z) -> in_i64 z = true -> req_int parse_i64 n nm = Ok z.
Proof. intros E H. unfold req_int. rewrite (opt_i64_of n nm nm' (Some z) E H). reflexivity. Qed.

Lemma req_u32_of n nm nm' w :
  find_child nm n = Some (t_uint sc nm' w) -> in_u32 w = true -> req_int parse_u32 n nm = Ok (Z.of_N w).
Proof.
  intros E H. unfold req_int, opt_int, opt_num, opt_bind. rewrite E. cbn [opt_case].
  change (check_type _ (t_uint sc nm' w)) with (@Ok unit tt). cbn [res_bind].
  rewrite opt_text_uint.
  rewrite (parse_u32_dec_n w (in_u32_spec w H)). reflexivity.
Qed.

(** * date_time.rs *)
Lemma date_time_of nm d :
  dt_fo pf64 d = true -> date_time_from_node pf64 (t_date_time sc nm d) = Ok (Some d).
Proof.
  intros H. unfold dt_fo in H. unfold date_time_from_node, req_node, t_date_time, t_struct.
  rewrite !find_child_typed_el.
  repeat (rewrite ffind_cons by reflexivity). eval_ifs. cbn [opt_case].
  unfold t_float at 1. rewrite elem_text_leaf.
  cbv beta iota. rewrite (f64_parsed_ok _ H). cbn [invalid_err res_bind opt_case].
  destruct d as [g a]. cbn [dt_gps_time dt_atomic]. destruct a; reflexivity.
Qed.

Lemma opt_date_time_of n nm nm' o :
  find_child nm n = option_map (t_date_time sc nm') o -> ofo (dt_fo pf64) o = true ->
  opt_date_time pf64 n nm = Ok o.
Proof.
  intros E H. unfold opt_date_time, opt_bind. rewrite E. destruct o as [d|]; [|reflexivity].
  cbn [option_map opt_case ofo] in *.
  change (check_type _ (t_date_time sc nm' d)) with (@Ok unit tt). cbn [res_bind].
  apply date_time_of. exact H.
Qed.

End Leaf.

Ltac split_and :=
  repeat match goal with
         | H : _ && _ = true |- _ => apply andb_true_iff in H; destruct H
         end.
