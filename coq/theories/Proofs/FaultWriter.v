(** C16, part A, writer side: every writer call of the model stops at the first
    failing page operation ([wstrict]); a device fault at operation [i] issued
    during a call makes that call return [Err]; calls before it are unaffected;
    and a file-writing program that returned [Ok] under a fault plan left
    exactly the fault-free file on the device, even if the fault fires inside
    [Drop]. *)
From E57 Require Import Base.Prelude Model.Crc Model.Device Model.PagedWriter Spec.PageSpec Model.BsWrite
  Model.Record Model.Prog Model.PcWriter Model.FileBin.
From E57 Require Import Proofs.PagedWriterLemmas Proofs.PagedWriterProofs Proofs.ProgTransfer Proofs.FaultSim.
From Coq Require Import ZArith Lia ZifyN ZifyNat ZifyBool.

Local Arguments overwrite : simpl never.
Local Arguments seal : simpl never.
Local Arguments take : simpl never.
Local Arguments drop : simpl never.
Local Arguments slice : simpl never.
Local Arguments zeros : simpl never.
Local Arguments len : simpl never.
Local Arguments crc_bytes : simpl never.

(** * Strict writer programs *)

(* programs that stop at the first failing page operation *)
Inductive wstrict {A} : wprog A -> Prop :=
| wstrict_ret a : wstrict (WRet a)
| wstrict_err k : wstrict (WErr k)
| wstrict_panic : wstrict WPanic
| wstrict_op o k :
    (forall e, exists e', k (Err e) = WErr e') -> (forall r, wstrict (k r)) -> wstrict (WOp o k).

Lemma wstrict_wbind : forall A B (p : wprog A) (f : A -> wprog B),
  wstrict p -> (forall a, wstrict (f a)) -> wstrict (wbind p f).
Proof.
  intros A B p f Hp Hf. induction Hp as [a|e| |o k He Hk IH]; cbn [wbind].
  - apply Hf.
  - constructor.
  - constructor.
  - apply wstrict_op.
    + intros e. destruct (He e) as [e' E]. exists e'. rewrite E. reflexivity.
    + exact IH.
Qed.

Lemma wstrict_wrelabel : forall A e (p : wprog A), wstrict p -> wstrict (wrelabel e p).
Proof.
  intros A e p Hp. induction Hp as [a|e0| |o k He Hk IH]; cbn [wrelabel]; try constructor.
  - intros e0. destruct (He e0) as [e' E]. exists e. rewrite E. reflexivity.
  - exact IH.
Qed.

Lemma wstrict_wlift A (r : res A) : wstrict (wlift r).
Proof. destruct r; constructor. Qed.

Lemma wstrict_wop o : wstrict (wop o).
Proof.
  unfold wop. apply wstrict_op.
  - intros e. exists e. reflexivity.
  - intros r. apply wstrict_wlift.
Qed.

Lemma wstrict_wop_ o : wstrict (wop_ o).
Proof.
  unfold wop_. apply wstrict_op.
  - intros e. exists e. reflexivity.
  - intros r. apply wstrict_wlift.
Qed.

Lemma wstrict_w_write data : wstrict (w_write data).
Proof. apply wstrict_wop_. Qed.
Lemma wstrict_w_position : wstrict w_position.
Proof. apply wstrict_wop. Qed.
Lemma wstrict_w_seek p : wstrict (w_seek p).
Proof. apply wstrict_wop_. Qed.
Lemma wstrict_w_size : wstrict w_size.
Proof. apply wstrict_wop. Qed.
Lemma wstrict_w_align : wstrict w_align.
Proof. apply wstrict_wop_. Qed.
Lemma wstrict_w_flush : wstrict w_flush.
Proof. apply wstrict_wop_. Qed.
Lemma wstrict_wr data : wstrict (wr data).
Proof. apply wstrict_wop_. Qed.
Lemma wstrict_wret A (a : A) : wstrict (wret a).
Proof. constructor. Qed.
Lemma wstrict_wfail A k : wstrict (@wfail A k).
Proof. constructor. Qed.

Create HintDb wstrict_db.
#[export] Hint Resolve wstrict_wlift wstrict_wop wstrict_wop_ wstrict_w_write wstrict_w_position wstrict_w_seek
  wstrict_w_size wstrict_w_align wstrict_w_flush wstrict_wr wstrict_wret wstrict_wfail
  wstrict_ret wstrict_err wstrict_panic : wstrict_db.

Ltac wstrict_step :=
  first
  [ solve [auto 1 with wstrict_db nocore]
  | apply wstrict_wbind; [|intros]
  | apply wstrict_wrelabel
  | match goal with
    | |- wstrict (if ?c then _ else _) => destruct c
    | |- wstrict (match ?x with _ => _ end) => destruct x
    end ].
Ltac wstrict_tac := cbv zeta; repeat wstrict_step.

Lemma wstrict_wr_all : forall chunks, wstrict (wr_all chunks).
Proof. induction chunks as [|c r IH]; cbn [wr_all]; wstrict_tac. Qed.
#[export] Hint Resolve wstrict_wr_all : wstrict_db.

Lemma wstrict_header_write a b c : wstrict (header_write a b c).
Proof. unfold header_write. apply wstrict_wr_all. Qed.

Lemma wstrict_blob_write data : wstrict (blob_write data).
Proof. unfold blob_write. wstrict_tac. Qed.

Lemma wstrict_pcw_new proto : wstrict (pcw_new proto).
Proof. unfold pcw_new. wstrict_tac. Qed.
#[export] Hint Resolve wstrict_header_write wstrict_blob_write wstrict_pcw_new : wstrict_db.

Lemma wstrict_write_buffer_to_disk last w : wstrict (write_buffer_to_disk last w).
Proof. unfold write_buffer_to_disk. wstrict_tac. Qed.
#[export] Hint Resolve wstrict_write_buffer_to_disk : wstrict_db.

Lemma wstrict_pcw_add_point values w : wstrict (pcw_add_point values w).
Proof. unfold pcw_add_point. wstrict_tac. Qed.

Lemma wstrict_drain_buffer : forall fuel w, wstrict (drain_buffer fuel w).
Proof. induction fuel as [|f IH]; intros w; cbn [drain_buffer]; wstrict_tac. Qed.
#[export] Hint Resolve wstrict_pcw_add_point wstrict_drain_buffer : wstrict_db.

Lemma wstrict_pcw_finalize w : wstrict (pcw_finalize w).
Proof. unfold pcw_finalize. wstrict_tac. Qed.

Lemma wstrict_add_points : forall points w, wstrict (add_points points w).
Proof. induction points as [|p r IH]; intros w; cbn [add_points]; wstrict_tac. Qed.
#[export] Hint Resolve wstrict_pcw_finalize wstrict_add_points : wstrict_db.

Lemma wstrict_item_write it : wstrict (item_write it).
Proof. destruct it; cbn [item_write]; wstrict_tac. Qed.
#[export] Hint Resolve wstrict_item_write : wstrict_db.

Lemma wstrict_items_write : forall is, wstrict (items_write is).
Proof. induction is as [|i r IH]; cbn [items_write]; wstrict_tac. Qed.

Lemma wstrict_writer_init : wstrict writer_init.
Proof. unfold writer_init. apply wstrict_header_write. Qed.

Lemma wstrict_writer_finalize xml : wstrict (writer_finalize xml).
Proof. unfold writer_finalize. wstrict_tac. Qed.
#[export] Hint Resolve wstrict_items_write wstrict_writer_init wstrict_writer_finalize : wstrict_db.

(** * A strict program run on twin states *)

Theorem wrun_sim : forall A (p : wprog A), wstrict p -> forall i s s', ptwin i s s' ->
  (ptwin i (fst (wrun p s)) (fst (wrun p s')) /\ snd (wrun p s') = snd (wrun p s)) \/
  (i < d_ops (pw_dev (fst (wrun p s'))) /\ exists e, snd (wrun p s') = Err e).
Proof.
  intros A p Hp. induction Hp as [a|e| |o k He Hk IH]; intros i s s' H; cbn [wrun].
  - left. split; [exact H|reflexivity].
  - left. split; [exact H|reflexivity].
  - left. split; [exact H|reflexivity].
  - destruct (pwsim_step_op o i s s' H) as [[Ht Hr]|[Hlt [e E]]].
    + destruct (pw_step o s) as [s1 r]. destruct (pw_step o s') as [s1' r']. cbn [fst snd] in Ht, Hr.
      subst r'. apply IH. exact Ht.
    + destruct (pw_step o s') as [s1' r']. cbn [fst snd] in Hlt, E. subst r'.
      destruct (He e) as [e' E']. rewrite E'. cbn [wrun fst snd].
      right. split; [exact Hlt|]. exists e'. reflexivity.
Qed.

(** the state right after [PagedWriter::new] on an empty device with fault plan [Some i], [i >= 1] *)
Definition pw0f (i : N) : pw := mkPw (mkDev [] 0 1 (Some i) []) 0 (zeros PAGE).

Lemma pw_new_fault0 : exists d e, pw_new (dev_init [] (Some 0)) = (d, Err e).
Proof. eexists. eexists. reflexivity. Qed.

Lemma pw_new_faulti : forall i, 1 <= i -> pw_new (dev_init [] (Some i)) = (pw_dev (pw0f i), Ok (pw0f i)).
Proof.
  intros i Hi. unfold pw_new, relabel, d_seek_end, bind, tick, dev_init, pw0f.
  cbn [d_fault d_ops d_bytes d_cur d_log pw_dev].
  destruct (N.eqb_spec i 0) as [E|_]; [lia|]. reflexivity.
Qed.

Lemma ptwin_pw0 i : 1 <= i -> ptwin i pw0 (pw0f i).
Proof. intros Hi. apply ptwin_mk, dtwin_mk. exact Hi. Qed.

(* the call during which operation [i] is issued returns Err *)
Theorem C16_fault_surfaces_writer : forall A (p : wprog A) i, wstrict p -> 1 <= i ->
  i < d_ops (pw_dev (fst (wrun p pw0))) -> exists e, snd (wrun p (pw0f i)) = Err e.
Proof.
  intros A p i Hp Hi Hlt.
  destruct (wrun_sim A p Hp i pw0 (pw0f i) (ptwin_pw0 i Hi)) as [[Ht _]|[_ He]]; [|exact He].
  pose proof (ptwin_ops_le _ _ _ Ht) as Hle. destruct Ht as ((_ & _ & Ho & _) & _). lia.
Qed.

(** * Sessions: several API calls, the caller goes on after a failure *)

Inductive sess : Type :=
| SDone
| SCall {A : Type} (p : wprog A) (k : res A -> sess).

Inductive rclass := COk | CErr (k : err_kind) | CPanic.

Definition class_of {A} (r : res A) : rclass :=
  match r with Ok _ => COk | Err k => CErr k | Panic => CPanic end.

(* runs every call, records the class of each result *)
Fixpoint srun (q : sess) (s : pw) : pw * list rclass :=
  match q with
  | SDone => (s, [])
  | SCall p k => let '(s1, r) := wrun p s in
                 let '(s2, l) := srun (k r) s1 in (s2, class_of r :: l)
  end.

Inductive sess_strict : sess -> Prop :=
| ss_done : sess_strict SDone
| ss_call A (p : wprog A) k : wstrict p -> (forall r, sess_strict (k r)) -> sess_strict (SCall p k).

(* the call during which operation [i] is issued returns Err (not Ok, not a panic), and all calls
   before it returned what they return without the fault *)
Theorem C16_session : forall q, sess_strict q -> forall i s s', ptwin i s s' ->
  i < d_ops (pw_dev (fst (srun q s))) ->
  exists j e, nth_error (snd (srun q s')) j = Some (CErr e) /\
              firstn j (snd (srun q s')) = firstn j (snd (srun q s)).
Proof.
  intros q Hq. induction Hq as [|A p k Hp Hk IH]; intros i s s' H Hlt.
  - cbn [srun fst] in Hlt. pose proof (ptwin_ops_le _ _ _ H) as Hle.
    destruct H as ((_ & _ & Ho & _) & _). lia.
  - cbn [srun] in *.
    destruct (wrun_sim A p Hp i s s' H) as [[Ht Hr]|[_ [e E]]].
    + destruct (wrun p s) as [s1 r]. destruct (wrun p s') as [s1' r']. cbn [fst snd] in Ht, Hr. subst r'.
      specialize (IH r i s1 s1' Ht).
      destruct (srun (k r) s1) as [s2 l]. destruct (srun (k r) s1') as [s2' l'].
      cbn [fst snd] in *. destruct (IH Hlt) as (j & e & Hn & Hf).
      exists (S j), e. cbn [nth_error firstn]. split; [exact Hn|]. rewrite Hf. reflexivity.
    + destruct (wrun p s') as [s1' r']. cbn [snd] in E. subst r'.
      destruct (srun (k (Err e)) s1') as [s2' l']. cbn [snd].
      exists 0%nat, e. split; reflexivity.
Qed.

(* the hypotheses are satisfiable: two calls, the fault in the second *)
Example C16_session_example :
  let q := SCall (w_write [1; 2; 3]) (fun _ => SCall w_flush (fun _ => SDone)) in
  sess_strict q /\ ptwin 2 pw0 (pw0f 2) /\ 2 < d_ops (pw_dev (fst (srun q pw0))) /\
  snd (srun q (pw0f 2)) = [COk; CErr EWrite].
Proof.
  cbv zeta. split; [|split; [|split]].
  - apply ss_call; [apply wstrict_w_write|intros _].
    apply ss_call; [apply wstrict_w_flush|intros _]. constructor.
  - apply ptwin_pw0. lia.
  - vm_compute. reflexivity.
  - vm_compute. reflexivity.
Qed.

(** * A program that returned Ok left the complete file *)

Definition fault_prog (is : list item) (xml : list N) : wprog unit :=
  (writer_init ;;; _ <- items_write is ;; writer_finalize xml)%wprog.

Lemma wstrict_fault_prog is xml : wstrict (fault_prog is xml).
Proof. unfold fault_prog. wstrict_tac. Qed.

(* [R] is preserved by every program *)
Lemma R_wrun A (p : wprog A) s l : R s l -> exists l', R (fst (wrun p s)) l'.
Proof.
  intros HR. destruct (wrun_R A p s l HR) as (_ & ops' & H1 & _).
  destruct (R_run ops' s l HR) as (_ & HR'). rewrite H1. eexists. exact HR'.
Qed.

(* a successful bind: both parts succeeded *)
Lemma wrun_bind_ok A B (p : wprog A) (f : A -> wprog B) s b :
  snd (wrun (wbind p f) s) = Ok b ->
  exists a, snd (wrun p s) = Ok a /\ wrun (wbind p f) s = wrun (f a) (fst (wrun p s)).
Proof.
  rewrite wrun_bind. destruct (wrun p s) as [s1 [a|e|]]; cbn [fst snd]; intros H; try discriminate.
  exists a. split; reflexivity.
Qed.

(* after a successful [w_flush] from a state related to a logical stream, a further flush
   leaves the device bytes as they are *)
Lemma flush_after_w_flush s l :
  R s l -> snd (wrun w_flush s) = Ok tt ->
  let s1 := fst (wrun w_flush s) in
  d_bytes (pw_dev (fst (pw_flush s1))) = d_bytes (pw_dev s1).
Proof.
  intros HR _. cbv zeta.
  destruct (R_flush s l HR) as (s1 & V & HR1 & Hb).
  assert (E : fst (wrun w_flush s) = s1).
  { unfold w_flush, wop_. cbn [wrun pw_step]. unfold bind, relabel, ret. rewrite V. reflexivity. }
  rewrite E. destruct (R_flush s1 l HR1) as (s2 & V2 & _ & Hb2). rewrite V2. cbn [fst].
  rewrite Hb, Hb2. reflexivity.
Qed.

(* the file-writing program ends with [w_flush] *)
Lemma fault_prog_ends_flushed is xml :
  snd (wrun (fault_prog is xml) pw0) = Ok tt ->
  let s := fst (wrun (fault_prog is xml) pw0) in
  d_bytes (pw_dev (fst (pw_flush s))) = d_bytes (pw_dev s).
Proof.
  intros Hok. cbv zeta. unfold fault_prog in *.
  destruct (wrun_bind_ok _ _ _ _ _ _ Hok) as (a1 & H1 & E1). rewrite E1 in *. clear E1.
  destruct (R_wrun _ writer_init pw0 ls_init R_init) as (l1 & R1).
  revert Hok R1. generalize (fst (wrun writer_init pw0)). intros s1 Hok R1.
  destruct (wrun_bind_ok _ _ _ _ _ _ Hok) as (a2 & H2 & E2). rewrite E2 in *. clear E2.
  destruct (R_wrun _ (items_write is) s1 l1 R1) as (l2 & R2).
  revert Hok R2. generalize (fst (wrun (items_write is) s1)). intros s2 Hok R2.
  unfold writer_finalize in *.
  destruct (wrun_bind_ok _ _ _ _ _ _ Hok) as (a3 & H3 & E3). rewrite E3 in *. clear E3.
  destruct (R_wrun _ w_position s2 l2 R2) as (l3 & R3).
  revert Hok R3. generalize (fst (wrun w_position s2)). intros s3 Hok R3.
  destruct (wrun_bind_ok _ _ _ _ _ _ Hok) as (a4 & H4 & E4). rewrite E4 in *. clear E4.
  destruct (R_wrun _ (wr xml) s3 l3 R3) as (l4 & R4).
  revert Hok R4. generalize (fst (wrun (wr xml) s3)). intros s4 Hok R4.
  destruct (wrun_bind_ok _ _ _ _ _ _ Hok) as (a5 & H5 & E5). rewrite E5 in *. clear E5.
  destruct (R_wrun _ w_size s4 l4 R4) as (l5 & R5).
  revert Hok R5. generalize (fst (wrun w_size s4)). intros s5 Hok R5.
  destruct (wrun_bind_ok _ _ _ _ _ _ Hok) as (a6 & H6 & E6). rewrite E6 in *. clear E6.
  destruct (R_wrun _ (w_seek 0) s5 l5 R5) as (l6 & R6).
  revert Hok R6. generalize (fst (wrun (w_seek 0) s5)). intros s6 Hok R6.
  destruct (wrun_bind_ok _ _ _ _ _ _ Hok) as (a7 & H7 & E7). rewrite E7 in *. clear E7.
  destruct (R_wrun _ (header_write a5 a3 (len xml)) s6 l6 R6) as (l7 & R7).
  revert Hok R7. generalize (fst (wrun (header_write a5 a3 (len xml)) s6)). intros s7 Hok R7.
  exact (flush_after_w_flush s7 l7 R7 Hok).
Qed.

(** [pw_flush] under a fault at any of its device operations: the device bytes afterwards
    are those before the flush or those after the fault-free flush. *)
Lemma flush_fault_bytes i s s' : ptwin i s s' ->
  d_bytes (pw_dev (fst (pw_flush s'))) = d_bytes (pw_dev s) \/
  d_bytes (pw_dev (fst (pw_flush s'))) = d_bytes (pw_dev (fst (pw_flush s))).
Proof.
  intros H. destruct (ptwin_inv _ _ _ H) as (d & d' & off & buf & -> & -> & Hd). clear H.
  destruct (dtwin_inv _ _ _ Hd) as (b & c & o & lg & -> & -> & Hle). clear Hd.
  unfold pw_flush, bind, pw_get_off, pw_get_buf, pw_set_buf, ret, pw_lift, d_pos, d_seek_start, d_flush,
    d_write_all, tick, bind, ret, set_cur.
  cbn.
  destruct (0 <? off); destruct (seal buf) as [|x sb];
    repeat (cbn; match goal with |- context [if ?c then _ else _] => destruct c end); cbn;
    first [left; reflexivity | right; reflexivity].
Qed.

Lemma pw_drop_fst s : fst (pw_drop s) = fst (pw_flush s).
Proof. unfold pw_drop, ignore_err. destruct (pw_flush s) as [s1 [u|e|]]; reflexivity. Qed.

(* finalize returned Ok under a fault plan -> after Drop the device holds exactly the file of the
   fault-free run, wherever the fault fires (inside Drop included) *)
Theorem C16_success_complete : forall (is : list item) (xml : list N) (i : N), 1 <= i ->
  snd (wrun (fault_prog is xml) (pw0f i)) = Ok tt ->
  d_bytes (pw_dev (fst (pw_drop (fst (wrun (fault_prog is xml) (pw0f i)))))) =
  d_bytes (pw_dev (fst (pw_drop (fst (wrun (fault_prog is xml) pw0))))).
Proof.
  intros is xml i Hi Hok.
  pose proof (wrun_sim unit (fault_prog is xml) (wstrict_fault_prog is xml) i pw0 (pw0f i) (ptwin_pw0 i Hi)) as Hs.
  revert Hok Hs. generalize (pw0f i). intros sf Hok Hs.
  destruct Hs as [[Ht Hr]|[_ [e E]]]; [|congruence].
  assert (Hr' : snd (wrun (fault_prog is xml) pw0) = Ok tt) by congruence. clear Hr. rename Hr' into Hr.
  pose proof (fault_prog_ends_flushed is xml Hr) as Hst. cbv zeta in Hst.
  rewrite !pw_drop_fst.
  destruct (flush_fault_bytes i _ _ Ht) as [E|E]; rewrite E; [symmetry; exact Hst|reflexivity].
Qed.

(* not vacuous: a concrete run in which the fault fires inside Drop and is swallowed there *)
Example C16_success_complete_example :
  let is := [IBlob [1; 2; 3; 4; 5]] in
  let xml := [60; 97; 47; 62] in
  (* a fault after the last operation of the program: fires inside Drop *)
  let n := d_ops (pw_dev (fst (wrun (fault_prog is xml) pw0))) in
  snd (wrun (fault_prog is xml) (pw0f n)) = Ok tt /\
  snd (pw_flush (fst (wrun (fault_prog is xml) (pw0f n)))) = Err EIo /\
  snd (pw_drop (fst (wrun (fault_prog is xml) (pw0f n)))) = Ok tt.
Proof. vm_compute. repeat split. Qed.

Print Assumptions wrun_sim.
Print Assumptions C16_fault_surfaces_writer.
Print Assumptions C16_session.
Print Assumptions C16_success_complete.
