(** C02, binary side: the file the crate-shaped writer model leaves on the
    device IS a file of the independent specification - [spec_encode_file] for
    the layout the writer chose (sections in call order, no extra padding, the
    packetisation of [pcw_emits_spec], the XML last) - and therefore the
    independent decoder accepts it and returns exactly what was handed to the
    writer ([spec_decode_encode]). *)
From E57 Require Import Base.Prelude Model.Crc Model.Device Model.PagedWriter Model.Record Model.Prog
  Model.QueueReader Model.PcWriter Model.FileBin Spec.BitSpec Spec.PageSpec Spec.FormatSpec Spec.FileSpec.
From E57 Require Import Proofs.PageSpecLemmas Proofs.PagedWriterProofs Proofs.PagedReaderProofs Proofs.ProgTransfer
  Proofs.QueueReaderLemmas Proofs.BlobProofs Proofs.FileRtWriter Proofs.SpecLayout Proofs.SpecDecode.
From Coq Require Import ZifyN ZifyNat ZifyBool.
Ltac Zify.zify_post_hook ::= Z.div_mod_to_equations.
Open Scope N_scope.

(** * What the writer publishes, as descriptors; what it was given, as contents *)

Fixpoint item_descriptors (is : list item) (outs : list item_out) : list descriptor :=
  match is, outs with
  | IBlob _ :: r, OBlob off l :: ro => DBlob off l :: item_descriptors r ro
  | IPc proto _ :: r, OPc off n :: ro => DPc off n proto :: item_descriptors r ro
  | _, _ => []
  end.

Definition item_content (i : item) : content :=
  match i with IBlob data => CBlob data | IPc _ points => CPoints points end.

(** * The layout the writer chose *)

Lemma layout_descriptors_app : forall a b base xl,
  layout_descriptors base (a ++ b) xl
  = layout_descriptors base a xl ++ layout_descriptors (base + fsecs_len a xl) b xl.
Proof.
  induction a as [|s r IH]; intros b base xl; cbn [app layout_descriptors fsecs_len].
  - rewrite N.add_0_r. reflexivity.
  - rewrite IH. replace (base + fsec_len s xl + fsecs_len r xl) with (base + (fsec_len s xl + fsecs_len r xl)) by lia.
    destruct s; reflexivity.
Qed.

Lemma layout_contents_app a b : layout_contents (a ++ b) = layout_contents a ++ layout_contents b.
Proof.
  induction a as [|s r IH]; [reflexivity|]. cbn [app layout_contents]. rewrite IH. destruct s; reflexivity.
Qed.

(** the sections a writer run laid out are the entries of a layout without padding *)
Lemma laid_layout : forall base is outs secs (x : list N),
  laid base is outs secs -> forallb item_wf is = true ->
  exists fl : file_layout,
    forallb fsection_ok fl = true /\ filter is_xml fl = [] /\
    encode_fsections base fl x = concat secs /\
    fsecs_len fl (len x) = len (concat secs) /\
    layout_descriptors base fl (len x) = item_descriptors is outs /\
    layout_contents fl = map item_content is.
Proof.
  intros base is outs secs x Hlaid. induction Hlaid as [base|base i o s is outs secs Hal Hsec Hrest IH]; intros Hwf.
  - exists []. repeat split; reflexivity.
  - cbn [forallb] in Hwf. apply andb_prop in Hwf as [Hi Hr].
    destruct (IH Hr) as (fl & Hok & Hnx & Henc & Hlen & Hdesc & Hcont).
    destruct i as [data|proto points]; destruct o as [off l|off n]; cbn [sec_of] in Hsec; try contradiction.
    + destruct Hsec as (-> & -> & ->).
      assert (Hsl : fsec_len (FBlob data 0) (len x) = len (blob_section data)).
      { cbn [fsec_len]. rewrite len_blob_section. unfold pad4n. lia. }
      exists (FBlob data 0 :: fl).
      cbn [forallb fsection_ok filter is_xml encode_fsections encode_fsection fsecs_len layout_descriptors
           layout_contents item_descriptors map item_content concat].
      rewrite Hsl, Henc, Hlen, Hdesc, Hcont, Hok, len_app.
      change (zeros 0) with (@nil N). rewrite app_nil_r, spec_blob_section_eq.
      repeat split; try reflexivity. exact Hnx.
    + destruct Hsec as (-> & -> & lay & Hlegal & ->).
      cbn [item_wf] in Hi. apply andb_prop in Hi as [Hscene _].
      assert (Hsl : fsec_len (FPc proto points lay 0) (len x)
                    = len (encode_section (phys_of_log (base + 32)) lay)).
      { cbn [fsec_len]. rewrite len_encode_section. lia. }
      exists (FPc proto points lay 0 :: fl).
      cbn [forallb fsection_ok filter is_xml encode_fsections encode_fsection fsecs_len layout_descriptors
           layout_contents item_descriptors map item_content concat].
      rewrite Hsl, Henc, Hlen, Hdesc, Hcont, Hok, Hscene, Hlegal, len_app.
      change (zeros 0) with (@nil N). rewrite app_nil_r.
      repeat split; try reflexivity. exact Hnx.
Qed.

(** * The device image of the writer program is a file of the specification *)

Theorem writer_file_is_spec : forall (is : list item) (xml : list N) (outs : list item_out) (s : pw),
  forallb item_wf is = true ->
  wrun (file_prog is xml) pw0 = (s, Ok outs) ->
  exists fl : file_layout,
    file_layout_ok fl = true /\
    snd (pw_flush s) = Ok tt /\
    d_bytes (pw_dev (fst (pw_flush s))) = spec_encode_file fl xml /\
    layout_descriptors 48 fl (len xml) = item_descriptors is outs /\
    layout_contents fl = map item_content is.
Proof.
  intros is xml outs s Hwf Hrun.
  destruct (file_prog_spec is xml Hwf) as (outs' & secs & Hspec & Hlaid & Hal).
  destruct (wrun_image _ (file_prog is xml)) as (Hres & Hfl & Himg).
  rewrite Hrun in Hres, Hfl, Himg. rewrite Hspec in Hres, Himg. cbn [fst snd ls_data] in Hres, Hfl, Himg.
  injection Hres as <-.
  destruct (laid_layout 48 is outs secs xml Hlaid Hwf) as (fl & Hok & Hnx & Henc & Hlen & Hdesc & Hcont).
  set (body := concat secs) in *.
  exists (fl ++ [FXml]).
  assert (Hfok : file_layout_ok (fl ++ [FXml]) = true).
  { unfold file_layout_ok. rewrite forallb_app, Hok, filter_app, Hnx. reflexivity. }
  split; [exact Hfok|]. split; [exact Hfl|].
  split; [|split].
  - rewrite Himg. unfold spec_encode_file, spec_file_log. cbv zeta.
    rewrite (encode_fsections_app fl [FXml] 48 xml). rewrite Henc.
    rewrite (xml_start_split fl [] 48 (len xml) Hnx). rewrite !Hlen.
    cbn [encode_fsections encode_fsection]. rewrite app_nil_r, !len_app, len_zeros.
    set (p := pad4n (len xml)).
    assert (Hp : pages_for (48 + (len body + (len xml + p))) = pages_for (48 + len body + len xml)).
    { subst p. unfold pad4n, pages_for, PAYLOAD_SZ. lia. }
    rewrite Hp.
    match goal with |- _ = paginate (spec_header ?a ?b ?c ++ _) => change (spec_header a b c) with (hdr a b c) end.
    set (H := hdr _ _ _).
    replace (H ++ body ++ xml ++ zeros p) with ((H ++ body ++ xml) ++ zeros p) by (rewrite <- !app_assoc; reflexivity).
    symmetry. apply paginate_zeros.
    rewrite !len_app. subst H. rewrite len_hdr. subst p. unfold pad4n, pages_for, PAYLOAD_SZ. lia.
  - rewrite layout_descriptors_app, Hdesc. cbn [layout_descriptors]. apply app_nil_r.
  - rewrite layout_contents_app, Hcont. cbn [layout_contents]. apply app_nil_r.
Qed.

(** * C02, binary side *)

(** The file is what the paged writer leaves on the device after the program and the flush of
    [Drop]; the descriptors are what the items published (they go into the XML). *)
Theorem writer_file_wellformed : forall (is : list item) (xml : list N) (outs : list item_out) (s : pw)
    (dx : list N -> list descriptor),
  forallb item_wf is = true ->        (* scenes the format can represent, prototypes the packet writer accepts *)
  xml <> [] ->                         (* the decoder demands an XML text *)
  wrun (file_prog is xml) pw0 = (s, Ok outs) ->
  let f := d_bytes (pw_dev (fst (pw_flush s))) in
  len f < 2 ^ 64 ->                    (* header fields, section lengths and offsets are u64 *)
  dx xml = item_descriptors is outs ->
  spec_wellformed f dx = true /\
  spec_decode_file f dx = Some (mkDecoded xml (map item_content is)).
Proof.
  intros is xml outs s dx Hwf Hx Hrun f Hsize Hdx.
  destruct (writer_file_is_spec is xml outs s Hwf Hrun) as (fl & Hok & _ & Hf & Hdesc & Hcont).
  subst f. rewrite Hf in *. rewrite <- Hdesc in Hdx.
  destruct (spec_decode_encode fl xml dx Hok Hx Hsize Hdx) as (_ & _ & H1 & H2).
  rewrite Hcont in H2. split; assumption.
Qed.

Print Assumptions writer_file_is_spec.
Print Assumptions writer_file_wellformed.
