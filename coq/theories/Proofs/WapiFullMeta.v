(** Whole writer, part 2 (static): what the API's validation establishes is what
    the XML layer's theorems ask of the metadata.  Extensions that passed
    [register_extension] give a scope in which every declaration is well formed,
    prefixes are distinct, every extension URL leads back to its own prefix and
    the E57 namespace to the default declaration; prototypes that passed
    [add_pointcloud] have record names and types that satisfy [record_ok] of both
    Spec/XgWriterOk.v and Spec/XeMetaOk.v. *)
From Coq Require Import ZArith Lia Bool.
From E57 Require Import Base.Prelude Base.Floats Model.Record Model.Meta Model.MetaFile Model.XmlTree Model.XmlGen
  Model.XmlExtract Spec.XmlRender Spec.MetaTree Spec.XgWriterOk Spec.XeMetaOk Model.WriterApi Model.WriterFull.
From E57 Require Import Proofs.WapiRules Proofs.WapiInv.
From Coq Require Import ZifyN ZifyNat ZifyBool.
Open Scope N_scope.

(** * Strings *)
Lemma xstr_xs a : forall b, xstr_eqb a b = xs_eqb a b.
Proof. intros b. reflexivity. Qed.
Lemma xstr_eqb_eq a b : xstr_eqb a b = true <-> a = b.
Proof. rewrite xstr_xs. apply xs_eqb_eq. Qed.
Lemma xstr_eqb_refl a : xstr_eqb a a = true.
Proof. apply xstr_eqb_eq. reflexivity. Qed.
Lemma xstr_eqb_neq a b : a <> b -> xstr_eqb a b = false.
Proof. intros H. destruct (xstr_eqb a b) eqn:E; [apply xstr_eqb_eq in E; contradiction|reflexivity]. Qed.

(** * Names accepted by [validate_name] + [validate_name_start] are XML names *)
Lemma name_is_ncname s : validate_name s = Ok tt -> validate_name_start s = Ok tt ->
  ncname s = true /\ xstr_eqb s S_XML = false /\ xstr_eqb s S_XMLNS = false.
Proof.
  unfold validate_name, validate_name_start. destruct s as [|c r]; [discriminate|].
  destruct (starts_with_xml (c :: r)) eqn:Ex; [discriminate|].
  destruct (forallb name_char (c :: r)) eqn:Ef; [|discriminate]. intros _.
  destruct ((48 <=? c) && (c <=? 57) || (c =? 45)) eqn:Es; [discriminate|]. intros _.
  cbn [forallb] in Ef. apply andb_prop in Ef as [Ec Er].
  split; [|split].
  - cbn [ncname]. apply andb_true_intro. split.
    + unfold name_char, is_alnum in Ec. unfold name_start_byte, in_rng. lia.
    + rewrite forallb_forall in *. intros b Hb. specialize (Er b Hb).
      unfold name_char, is_alnum in Er. unfold name_byte, name_start_byte, in_rng. lia.
  - apply xstr_eqb_neq. intros E. rewrite E in Ex. discriminate.
  - apply xstr_eqb_neq. intros E. rewrite E in Ex. discriminate.
Qed.

Lemma url_constants : URL_XML = NS_XML_URI /\ URL_XMLNS = XMLNS_URI /\ URL_E57 = E57_URI /\ E57_NAMESPACE = E57_URI.
Proof. repeat split; reflexivity. Qed.

Lemma url_facts u : validate_url u = Ok tt ->
  u <> NS_XML_URI /\ u <> XMLNS_URI /\ u <> [] /\ u <> E57_URI.
Proof.
  unfold validate_url. destruct url_constants as (<- & <- & <- & _).
  destruct (xs_eqb u URL_XML) eqn:E1; [discriminate|]. destruct (xs_eqb u URL_XMLNS) eqn:E2; [discriminate|].
  cbn [orb]. destruct u as [|c r]; [discriminate|].
  destruct (xs_eqb (c :: r) URL_E57) eqn:E3; [discriminate|]. intros _.
  repeat split; intros E; try discriminate;
    [rewrite E, (proj2 (xs_eqb_eq _ _) eq_refl) in E1|rewrite E, (proj2 (xs_eqb_eq _ _) eq_refl) in E2|
     rewrite E, (proj2 (xs_eqb_eq _ _) eq_refl) in E3]; discriminate.
Qed.

Lemma NoDup_app_snoc {A} (l : list A) x : NoDup l -> ~ In x l -> NoDup (l ++ [x]).
Proof.
  induction l as [|y l IH]; intros Hn Hx; cbn [app]; [constructor; [intros []|constructor]|].
  inversion Hn as [|? ? Hy Hl]; subst. constructor.
  - intros Hin. apply in_app_or in Hin as [Hin|[Hin|[]]]; [contradiction|]. subst. apply Hx. left. reflexivity.
  - apply IH; [exact Hl|]. intros Hin. apply Hx. right. exact Hin.
Qed.

(** * Registered extensions *)
Definition ext_good (e : extension) : Prop :=
  validate_name (e_namespace e) = Ok tt /\ validate_name_start (e_namespace e) = Ok tt /\
  validate_url (e_url e) = Ok tt /\ chars_ok (e_url e) = true.
Definition exts_good (exts : list extension) : Prop :=
  Forall ext_good exts /\ NoDup (map e_namespace exts) /\ NoDup (map e_url exts).

Lemma exts_good_nil : exts_good [].
Proof. split; [constructor|split; constructor]. Qed.

Lemma ext_registered_in exts ns : ext_registered exts ns = true <-> In ns (map e_namespace exts).
Proof.
  unfold ext_registered. rewrite existsb_exists, in_map_iff. split.
  - intros (e & Hin & He). apply xs_eqb_eq in He. eauto.
  - intros (e & He & Hin). exists e. split; [exact Hin|]. apply xs_eqb_eq. exact He.
Qed.
Lemma url_registered_in exts u : url_registered exts u = true <-> In u (map e_url exts).
Proof.
  unfold url_registered. rewrite existsb_exists, in_map_iff. split.
  - intros (e & Hin & He). apply xs_eqb_eq in He. eauto.
  - intros (e & He & Hin). exists e. split; [exact Hin|]. apply xs_eqb_eq. exact He.
Qed.

Lemma exts_good_snoc exts ns url : exts_good exts ->
  validate_name ns = Ok tt -> validate_name_start ns = Ok tt -> validate_url url = Ok tt -> chars_ok url = true ->
  ext_registered exts ns = false -> url_registered exts url = false ->
  exts_good (exts ++ [mkExtension ns url]).
Proof.
  intros (Hf & Hn & Hu) H1 H2 H3 H4 H5 H6. split; [|split].
  - apply Forall_app. split; [exact Hf|]. constructor; [|constructor]. repeat split; assumption.
  - rewrite map_app. cbn [map e_namespace]. apply NoDup_app_snoc; [exact Hn|].
    intros Hin. apply ext_registered_in in Hin. congruence.
  - rewrite map_app. cbn [map e_url]. apply NoDup_app_snoc; [exact Hu|].
    intros Hin. apply url_registered_in in Hin. congruence.
Qed.

(** ** the scope of the root element *)
Lemma find_ext_ns : forall exts e, NoDup (map e_namespace exts) -> In e exts ->
  find (fun x => xstr_eqb (e_namespace x) (e_namespace e)) exts = Some e.
Proof.
  induction exts as [|x r IH]; intros e Hn Hin; [destruct Hin|].
  cbn [map] in Hn. inversion Hn as [|? ? Hx Hr]; subst. cbn [find].
  destruct Hin as [->|Hin]; [rewrite xstr_eqb_refl; reflexivity|].
  destruct (xstr_eqb (e_namespace x) (e_namespace e)) eqn:E; [|apply IH; assumption].
  apply xstr_eqb_eq in E. exfalso. apply Hx. rewrite E. apply in_map. exact Hin.
Qed.

Lemma ext_uri_in exts e : NoDup (map e_namespace exts) -> In e exts -> ext_uri exts (e_namespace e) = Some (e_url e).
Proof. intros Hn Hin. unfold ext_uri. rewrite (find_ext_ns exts e Hn Hin). reflexivity. Qed.

Lemma find_scope_url : forall exts e, NoDup (map e_url exts) -> In e exts ->
  find (fun d => xstr_eqb (xns_uri d) (e_url e)) (scope_of exts) = Some (mkXNs (Some (e_namespace e)) (e_url e)).
Proof.
  unfold scope_of. induction exts as [|x r IH]; intros e Hn Hin; [destruct Hin|].
  cbn [map] in Hn. inversion Hn as [|? ? Hx Hr]; subst. cbn [map app find xns_uri].
  destruct Hin as [->|Hin]; [rewrite xstr_eqb_refl; reflexivity|].
  destruct (xstr_eqb (e_url x) (e_url e)) eqn:E; [|apply IH; assumption].
  apply xstr_eqb_eq in E. exfalso. apply Hx. rewrite E. apply in_map. exact Hin.
Qed.

Lemma find_scope_e57 : forall exts, (forall e, In e exts -> e_url e <> E57_URI) ->
  find (fun d => xstr_eqb (xns_uri d) E57_URI) (scope_of exts) = Some (mkXNs None E57_URI).
Proof.
  unfold scope_of. induction exts as [|x r IH]; intros H; [reflexivity|].
  cbn [map app find xns_uri]. rewrite xstr_eqb_neq by (apply H; left; reflexivity).
  apply IH. intros e He. apply H. right. exact He.
Qed.

Lemma exts_good_url_ne exts e : exts_good exts -> In e exts ->
  e_url e <> NS_XML_URI /\ e_url e <> XMLNS_URI /\ e_url e <> [] /\ e_url e <> E57_URI.
Proof.
  intros (Hf & _) Hin. rewrite Forall_forall in Hf. destruct (Hf e Hin) as (_ & _ & Hu & _). apply url_facts. exact Hu.
Qed.

(** the E57 namespace is rendered without prefix *)
Lemma e57_prefix_none exts : exts_good exts -> prefix_is (scope_of exts) (Some E57_URI) None = true.
Proof.
  intros Hg. unfold prefix_is, elem_prefix. rewrite find_scope_e57; [reflexivity|].
  intros e He. apply (exts_good_url_ne exts e Hg He).
Qed.

Lemma has_prefix_some_scope : forall exts ns,
  has_prefix (Some ns) (scope_of exts) = true -> In ns (map e_namespace exts).
Proof.
  unfold scope_of, has_prefix. induction exts as [|x r IH]; intros ns H; cbn [map app existsb xns_prefix opt_str_eqb] in H.
  - rewrite orb_false_r in H. discriminate.
  - apply orb_prop in H as [H|H]; [left; apply xstr_eqb_eq in H; exact H|right; apply IH; exact H].
Qed.

Lemma distinct_scope : forall exts, NoDup (map e_namespace exts) -> distinct_prefixes (scope_of exts) = true.
Proof.
  induction exts as [|x r IH]; intros Hn; [reflexivity|].
  cbn [map] in Hn. inversion Hn as [|? ? Hx Hr]; subst.
  change (scope_of (x :: r)) with (mkXNs (Some (e_namespace x)) (e_url x) :: scope_of r).
  cbn [distinct_prefixes xns_prefix]. rewrite (IH Hr), andb_true_r.
  destruct (has_prefix (Some (e_namespace x)) (scope_of r)) eqn:E; [|reflexivity].
  exfalso. apply Hx. apply has_prefix_some_scope. exact E.
Qed.

Lemma scope_decls_ok exts : exts_good exts -> forallb decl_ok (scope_of exts) = true.
Proof.
  intros Hg. pose proof Hg as (Hf & _). unfold scope_of. rewrite forallb_app. apply andb_true_intro. split.
  - rewrite forallb_forall. intros d Hd. apply in_map_iff in Hd as (e & <- & He).
    rewrite Forall_forall in Hf. destruct (Hf e He) as (H1 & H2 & H3 & H4).
    destruct (name_is_ncname _ H1 H2) as (N1 & N2 & N3).
    destruct (exts_good_url_ne exts e Hg He) as (U1 & U2 & _).
    unfold decl_ok. cbn [xns_prefix xns_uri]. rewrite N1, N2, N3, H4, (xstr_eqb_neq _ _ U1), (xstr_eqb_neq _ _ U2). reflexivity.
  - reflexivity.
Qed.

Lemma extensions_ok_of exts : exts_good exts -> len exts < 65535 -> extensions_ok exts = true.
Proof.
  intros Hg Hl. unfold extensions_ok. pose proof Hg as (_ & Hn & _).
  apply andb_true_intro. split; [apply andb_true_intro; split|lia].
  - pose proof (scope_decls_ok exts Hg) as H. unfold scope_of in H. rewrite forallb_app in H.
    apply andb_prop in H as [H _]. rewrite forallb_forall in *. intros e He.
    apply (H (ext_decl e)). apply in_map_iff. exists e. split; [reflexivity|exact He].
  - apply distinct_scope. exact Hn.
Qed.

(** * Record names of accepted prototypes *)
Lemma ext_validate_raw : forall proto exts, ext_validate_prototype proto exts = Ok tt ->
  forall ns name t, In (mkRecord (Unknown ns name) t) proto ->
    validate_name name = Ok tt /\ validate_name_start name = Ok tt /\ ext_registered exts ns = true.
Proof.
  induction proto as [|p pr IH]; intros exts H ns name t Hin; [destruct Hin|].
  cbn [ext_validate_prototype] in H.
  destruct Hin as [Hp|Hin].
  - subst p. cbn [r_name] in H.
    destruct (validate_name ns) as [[]|k|]; try discriminate.
    destruct (validate_name name) as [[]|k|]; try discriminate.
    destruct (validate_name_start name) as [[]|k|]; try discriminate.
    destruct (ext_registered exts ns); [auto|discriminate].
  - refine (IH exts _ ns name t Hin).
    destruct (r_name p); try exact H.
    destruct (validate_name namespace) as [[]|k|]; try discriminate.
    destruct (validate_name name0) as [[]|k|]; try discriminate.
    destruct (validate_name_start name0) as [[]|k|]; try discriminate.
    destruct (ext_registered exts namespace); [exact H|discriminate].
Qed.

Lemma ext_validate_mono : forall proto exts e, ext_validate_prototype proto exts = Ok tt ->
  ext_validate_prototype proto (exts ++ [e]) = Ok tt.
Proof.
  induction proto as [|p pr IH]; intros exts e H; [reflexivity|]. cbn [ext_validate_prototype] in *.
  destruct (r_name p); try (apply IH; exact H).
  destruct (validate_name namespace) as [[]|k|]; try discriminate.
  destruct (validate_name name) as [[]|k|]; try discriminate.
  destruct (validate_name_start name) as [[]|k|]; try discriminate.
  destruct (ext_registered exts namespace) eqn:E; [|discriminate].
  unfold ext_registered in *. rewrite existsb_app, E. cbn [orb]. apply IH. exact H.
Qed.

Lemma registered_ext exts ns : ext_registered exts ns = true -> exists e, In e exts /\ e_namespace e = ns.
Proof.
  unfold ext_registered. rewrite existsb_exists. intros (e & Hin & He). apply xs_eqb_eq in He. eauto.
Qed.

Lemma record_names_ok exts proto : exts_good exts -> ext_validate_prototype proto exts = Ok tt ->
  forall p, In p proto ->
    XgWriterOk.record_name_ok exts (r_name p) = true /\
    XeMetaOk.record_name_ok exts (r_name p) = true /\
    record_xml_ok exts p = true.
Proof.
  intros Hg Hv p Hin. pose proof Hg as (_ & Hn & Hu).
  unfold record_xml_ok. destruct p as [n t]. cbn [r_name]. destruct n; try (repeat split; reflexivity).
  destruct (ext_validate_raw _ _ Hv _ _ _ Hin) as (V1 & V2 & V3).
  destruct (registered_ext _ _ V3) as (e & He & <-).
  destruct (exts_good_url_ne exts e Hg He) as (U1 & U2 & U3 & U4).
  destruct (name_is_ncname _ V1 V2) as (N1 & _).
  split; [|split].
  - cbn [XgWriterOk.record_name_ok]. rewrite (ext_uri_in exts e Hn He).
    unfold prefix_is, elem_prefix. rewrite (find_scope_url exts e Hu He). cbn [xns_prefix opt_str_eqb].
    apply xstr_eqb_refl.
  - cbn [XeMetaOk.record_name_ok]. rewrite (ext_uri_in exts e Hn He).
    unfold scope_prefix, lookup_prefix. rewrite (xstr_eqb_neq _ _ U1), (find_scope_url exts e Hu He).
    cbn [xns_prefix opt_xstr_eqb]. rewrite xstr_eqb_refl. cbn [andb].
    unfold is_foreign_uri. destruct url_constants as (_ & _ & _ & ->).
    rewrite (xstr_eqb_neq _ _ U4). destruct (e_url e); [contradiction|reflexivity].
  - rewrite N1, (ext_uri_in exts e Hn He). reflexivity.
Qed.

(** * Filling in the float texts *)
Section Oracle.
Variables fmt64 fmt32 : N -> xstring.
Variables pf64 pf32 : xstr -> option N.
(** the two things assumed about Rust's Display / FromStr of floats: the text is plain
    (non-empty printable ASCII without markup characters) and parses back to the bit
    pattern, a NaN to the canonical NaN *)
Hypothesis plain64 : forall b, plain_text (fmt64 b) = true.
Hypothesis plain32 : forall b, plain_text (fmt32 b) = true.
Hypothesis back64 : forall b, pf64 (fmt64 b) = Some (canon64 b).
Hypothesis back32 : forall b, pf32 (fmt32 b) = Some (canon32 b).

Notation f64' := (fill64 fmt64).
Notation f32' := (fill32 fmt32).

Lemma ok64 f : f64_ok (f64' f) = true. Proof. apply plain64. Qed.
Lemma ok32 f : f32_ok (f32' f) = true. Proof. apply plain32. Qed.
Lemma fo64_fill f : fo64 pf64 (f64' f) = true.
Proof. unfold fo64, fill64. cbn [f64_text f64_bits]. rewrite back64. apply N.eqb_refl. Qed.
Lemma fo32_fill f : fo32 pf32 (f32' f) = true.
Proof. unfold fo32, fill32. cbn [f32_text f32_bits]. rewrite back32. apply N.eqb_refl. Qed.

Lemma opt_ok_map {A} (p : A -> bool) (g : A -> A) (o : option A) : (forall x, p (g x) = true) -> opt_ok p (option_map g o) = true.
Proof. intros H. destruct o; cbn; auto. Qed.
Lemma ofo_map {A} (p : A -> bool) (g : A -> A) (o : option A) : (forall x, p (g x) = true) -> ofo p (option_map g o) = true.
Proof. intros H. destruct o; cbn; auto. Qed.
Lemma ofo_map_eq {A} (p : A -> bool) (g : A -> A) (o : option A) : (forall x, p (g x) = p x) -> ofo p (option_map g o) = ofo p o.
Proof. intros H. destruct o; cbn; auto. Qed.

Ltac fin := repeat (rewrite ?ok64, ?ok32, ?fo64_fill, ?fo32_fill; cbn [andb]); try reflexivity.

Lemma dt_ok_fill d : date_time_ok (fill_dt fmt64 d) = true.
Proof. unfold date_time_ok, fill_dt. cbn [dt_gps_time]. apply ok64. Qed.
Lemma tr_ok_fill t : transform_ok (fill_tr fmt64 t) = true.
Proof. unfold transform_ok, fill_tr. cbn [t_rw t_rx t_ry t_rz t_tx t_ty t_tz]. fin. Qed.
Lemma cb_ok_fill b : cartesian_bounds_ok (fill_cb fmt64 b) = true.
Proof.
  unfold cartesian_bounds_ok, fill_cb. cbn [cb_x_min cb_x_max cb_y_min cb_y_max cb_z_min cb_z_max].
  rewrite !(opt_ok_map f64_ok f64') by apply ok64. reflexivity.
Qed.
Lemma sb_ok_fill b : spherical_bounds_ok (fill_sb fmt64 b) = true.
Proof.
  unfold spherical_bounds_ok, fill_sb.
  cbn [sb_azimuth_start sb_azimuth_end sb_elevation_min sb_elevation_max sb_range_min sb_range_max].
  rewrite !(opt_ok_map f64_ok f64') by apply ok64. reflexivity.
Qed.
Lemma lv_ok_fill v : limit_ok (fill_lv fmt64 fmt32 v) = true.
Proof. destruct v; cbn [fill_lv limit_ok]; try reflexivity; [apply ok32|apply ok64]. Qed.
Lemma is_some_map {A} (g : A -> A) o : is_some (option_map g o) = is_some o.
Proof. destruct o; reflexivity. Qed.
Lemma il_ok_fill l : intensity_limits_complete l = true -> intensity_limits_ok (fill_il fmt64 fmt32 l) = true.
Proof.
  intros H. unfold intensity_limits_ok, intensity_limits_complete, fill_il in *. cbn [il_min il_max].
  rewrite !is_some_map, H. rewrite !(opt_ok_map limit_ok (fill_lv fmt64 fmt32)) by apply lv_ok_fill. reflexivity.
Qed.
Lemma cl_ok_fill l : color_limits_complete l = true -> color_limits_ok (fill_cl fmt64 fmt32 l) = true.
Proof.
  intros H. unfold color_limits_ok, color_limits_complete, fill_cl in *.
  cbn [cl_red_min cl_red_max cl_green_min cl_green_max cl_blue_min cl_blue_max].
  rewrite !is_some_map, H. rewrite !(opt_ok_map limit_ok (fill_lv fmt64 fmt32)) by apply lv_ok_fill. reflexivity.
Qed.
Lemma type_ok_fill t : data_type_ok (fill_type fmt64 fmt32 t) = true.
Proof.
  destruct t; cbn [fill_type data_type_ok]; try reflexivity.
  - rewrite !(opt_ok_map f32_ok f32') by apply ok32. reflexivity.
  - rewrite !(opt_ok_map f64_ok f64') by apply ok64. reflexivity.
  - fin.
Qed.
Lemma proj_ok_fill p : projection_ok (fill_proj fmt64 p) = true.
Proof. destruct p; cbn [fill_proj projection_ok ph_focal_length ph_pixel_width ph_pixel_height ph_principal_x ph_principal_y
                        si_pixel_width si_pixel_height ci_radius ci_principal_y ci_pixel_width ci_pixel_height]; fin. Qed.

(** the reader's side: the texts parse back *)
Lemma dt_fo_fill d : dt_fo pf64 (fill_dt fmt64 d) = true.
Proof. unfold dt_fo, fill_dt. cbn [dt_gps_time]. apply fo64_fill. Qed.
Lemma tr_fo_fill t : tr_fo pf64 (fill_tr fmt64 t) = true.
Proof. unfold tr_fo, fill_tr. cbn [t_rw t_rx t_ry t_rz t_tx t_ty t_tz]. fin. Qed.
Lemma cb_fo_fill b : cb_fo pf64 (fill_cb fmt64 b) = true.
Proof.
  unfold cb_fo, fill_cb. cbn [cb_x_min cb_x_max cb_y_min cb_y_max cb_z_min cb_z_max].
  rewrite !(ofo_map (fo64 pf64) f64') by apply fo64_fill. reflexivity.
Qed.
Lemma sb_fo_fill b : sb_fo pf64 (fill_sb fmt64 b) = true.
Proof.
  unfold sb_fo, fill_sb. cbn [sb_azimuth_start sb_azimuth_end sb_elevation_min sb_elevation_max sb_range_min sb_range_max].
  rewrite !(ofo_map (fo64 pf64) f64') by apply fo64_fill. reflexivity.
Qed.
Lemma lv_fo_fill v : lv_fo pf64 pf32 (fill_lv fmt64 fmt32 v) = true.
Proof. destruct v; cbn [fill_lv lv_fo]; try reflexivity; [apply fo32_fill|apply fo64_fill]. Qed.
Lemma il_fo_fill l : il_fo pf64 pf32 (fill_il fmt64 fmt32 l) = true.
Proof.
  unfold il_fo, fill_il. cbn [il_min il_max].
  rewrite !(ofo_map (lv_fo pf64 pf32) (fill_lv fmt64 fmt32)) by apply lv_fo_fill. reflexivity.
Qed.
Lemma cl_fo_fill l : cl_fo pf64 pf32 (fill_cl fmt64 fmt32 l) = true.
Proof.
  unfold cl_fo, fill_cl. cbn [cl_red_min cl_red_max cl_green_min cl_green_max cl_blue_min cl_blue_max].
  rewrite !(ofo_map (lv_fo pf64 pf32) (fill_lv fmt64 fmt32)) by apply lv_fo_fill. reflexivity.
Qed.
Lemma dtype_fo_fill t : dtype_fo pf64 pf32 (fill_type fmt64 fmt32 t) = true.
Proof.
  destruct t; cbn [fill_type dtype_fo]; try reflexivity.
  - rewrite !(ofo_map (fo32 pf32) f32') by apply fo32_fill. reflexivity.
  - rewrite !(ofo_map (fo64 pf64) f64') by apply fo64_fill. reflexivity.
  - fin.
Qed.
Lemma proj_fo_fill p : proj_fo pf64 (fill_proj fmt64 p) = true.
Proof. destruct p; cbn [fill_proj proj_fo ph_focal_length ph_pixel_width ph_pixel_height ph_principal_x ph_principal_y
                        si_pixel_width si_pixel_height ci_radius ci_principal_y ci_pixel_width ci_pixel_height]; fin. Qed.

Lemma pc_fo_fill pc : pc_fo pf64 pf32 (fill_pc fmt64 fmt32 pc) = true.
Proof.
  unfold pc_fo, fill_pc.
  cbn [pc_prototype pc_cartesian_bounds pc_spherical_bounds pc_intensity_limits pc_color_limits pc_transform
       pc_acquisition_start pc_acquisition_end pc_temperature pc_humidity pc_atmospheric_pressure].
  rewrite (ofo_map (cb_fo pf64) _ _ cb_fo_fill), (ofo_map (sb_fo pf64) _ _ sb_fo_fill),
    (ofo_map (il_fo pf64 pf32) _ _ il_fo_fill), (ofo_map (cl_fo pf64 pf32) _ _ cl_fo_fill),
    (ofo_map (tr_fo pf64) _ _ tr_fo_fill), !(ofo_map (dt_fo pf64) _ _ dt_fo_fill),
    !(ofo_map (fo64 pf64) _ _ fo64_fill).
  rewrite !andb_true_r. rewrite forallb_forall. intros r Hr. apply in_map_iff in Hr as (r0 & <- & _).
  cbn [fill_rec r_type]. apply dtype_fo_fill.
Qed.
Lemma im_fo_fill im : im_fo pf64 (fill_im fmt64 im) = true.
Proof.
  unfold im_fo, fill_im. cbn [im_projection im_transform im_acquisition].
  rewrite (ofo_map (proj_fo pf64) _ _ proj_fo_fill), (ofo_map (tr_fo pf64) _ _ tr_fo_fill),
    (ofo_map (dt_fo pf64) _ _ dt_fo_fill). reflexivity.
Qed.

Theorem float_oracle_fill m : float_oracle_ok pf64 pf32 (fill_meta fmt64 fmt32 m) = true.
Proof.
  unfold float_oracle_ok, fill_meta, fill_root. cbn [fm_root fm_pointclouds fm_images rt_creation].
  rewrite (ofo_map (dt_fo pf64) _ _ dt_fo_fill). cbn [andb].
  apply andb_true_intro. split; rewrite forallb_forall; intros x Hx; apply in_map_iff in Hx as (y & <- & _);
    [apply pc_fo_fill|apply im_fo_fill].
Qed.
End Oracle.

(** * Descriptors that the XML theorems accept *)
Definition pc_strings (pc : pointcloud) : bool :=
  opt_string_ok (pc_guid pc) && opt_ok (forallb string_ok) (pc_original_guids pc) &&
  opt_string_ok (pc_name pc) && opt_string_ok (pc_description pc) &&
  opt_string_ok (pc_sensor_vendor pc) && opt_string_ok (pc_sensor_model pc) && opt_string_ok (pc_sensor_serial pc) &&
  opt_string_ok (pc_sensor_hw_version pc) && opt_string_ok (pc_sensor_sw_version pc) && opt_string_ok (pc_sensor_fw_version pc).

Lemma pointcloud_xml_ok_split exts pc :
  pointcloud_xml_ok exts pc = pc_strings pc && forallb (record_xml_ok exts) (pc_prototype pc).
Proof. reflexivity. Qed.

(** float limits of a prototype: numbers with minimum <= maximum (the writer's check since
    /repo eaf8fc6) that are f32 / f64 bit patterns (the model's [N] is unbounded) *)
Definition float_bits_ok (t : data_type) : bool :=
  match t with
  | DSingle mn mx => ofo (fun x => f32_bits x <? 2 ^ 32) mn && ofo (fun x => f32_bits x <? 2 ^ 32) mx
  | DDouble mn mx => ofo (fun x => f64_bits x <? 2 ^ 64) mn && ofo (fun x => f64_bits x <? 2 ^ 64) mx
  | _ => true
  end.
Definition limits_good (t : data_type) : bool := float_limits_ok t && float_bits_ok t.
Definition proto_limits_good (p : list record) : bool := forallb (fun r => limits_good (r_type r)) p.

(** what the state machine guarantees of a descriptor it holds *)
Definition pc_good (exts : list extension) (pc : pointcloud) : Prop :=
  ext_validate_prototype (pc_prototype pc) exts = Ok tt /\
  forallb (fun r => dtype_ok (r_type r)) (pc_prototype pc) = true /\
  pc_strings pc = true /\
  ofo ib_ok (pc_index_bounds pc) = true /\ ofo il_ok (pc_intensity_limits pc) = true /\
  ofo cl_ok (pc_color_limits pc) = true /\ proto_limits_good (pc_prototype pc) = true.

(** limits complete or absent (incomplete limits are silently not written: known finding) *)
Definition pc_limits_complete (pc : pointcloud) : bool :=
  opt_ok intensity_limits_complete (pc_intensity_limits pc) && opt_ok color_limits_complete (pc_color_limits pc).
(** the numbers the writer published are values of their Rust types (u64 offsets, lengths and
    counts; u32 image dimensions) - the model's [N] is unbounded *)
Definition pc_u64 (pc : pointcloud) : bool := in_u64 (pc_file_offset pc) && in_u64 (pc_records pc).

Definition root_good (r : root) : Prop :=
  rt_format r = STD_FORMAT_NAME /\ rt_major_version r = 1%Z /\ string_ok (rt_guid r) = true /\
  opt_string_ok (rt_library_version r) = true /\ opt_string_ok (rt_coordinate_metadata r) = true.

Lemma pc_good_mono exts e pc : pc_good exts pc -> pc_good (exts ++ [e]) pc.
Proof. intros (H1 & H). split; [apply ext_validate_mono; exact H1|exact H]. Qed.

Section Final.
Variables fmt64 fmt32 : N -> xstring.
Hypothesis plain64 : forall b, plain_text (fmt64 b) = true.
Hypothesis plain32 : forall b, plain_text (fmt32 b) = true.

Lemma dtype_ok_fill t : dtype_ok (fill_type fmt64 fmt32 t) = dtype_ok t.
Proof. destruct t; reflexivity. Qed.
Lemma lv_ok_fill' v : lv_ok (fill_lv fmt64 fmt32 v) = lv_ok v.
Proof. destruct v; reflexivity. Qed.
Lemma il_ok_fill' l : il_ok (fill_il fmt64 fmt32 l) = il_ok l.
Proof. unfold il_ok, fill_il. cbn [il_min il_max]. rewrite !(ofo_map_eq lv_ok _ _ lv_ok_fill'). reflexivity. Qed.
Lemma cl_ok_fill' l : cl_ok (fill_cl fmt64 fmt32 l) = cl_ok l.
Proof.
  unfold cl_ok, fill_cl. cbn [cl_red_min cl_red_max cl_green_min cl_green_max cl_blue_min cl_blue_max].
  rewrite !(ofo_map_eq lv_ok _ _ lv_ok_fill'). reflexivity.
Qed.

Lemma pc_final exts pc : exts_good exts -> pc_good exts pc -> pc_limits_complete pc = true -> pc_u64 pc = true ->
  pointcloud_ok exts (fill_pc fmt64 fmt32 pc) = true /\
  pointcloud_xml_ok exts (fill_pc fmt64 fmt32 pc) = true /\
  pc_ok exts (fill_pc fmt64 fmt32 pc) = true.
Proof.
  intros Hg (Hv & Hd & Hs & Hib & Hil & Hcl & _) Hc Hu.
  pose proof (record_names_ok exts (pc_prototype pc) Hg Hv) as Hn.
  unfold pc_limits_complete in Hc. apply andb_prop in Hc as [Hci Hcc].
  unfold pc_u64 in Hu. apply andb_prop in Hu as [Hu1 Hu2].
  split; [|split].
  - unfold pointcloud_ok, fill_pc.
    cbn [pc_prototype pc_cartesian_bounds pc_spherical_bounds pc_intensity_limits pc_color_limits pc_transform
         pc_acquisition_start pc_acquisition_end pc_temperature pc_humidity pc_atmospheric_pressure].
    rewrite (opt_ok_map cartesian_bounds_ok _ _ (cb_ok_fill fmt64 plain64)),
      (opt_ok_map spherical_bounds_ok _ _ (sb_ok_fill fmt64 plain64)),
      (opt_ok_map transform_ok _ _ (tr_ok_fill fmt64 plain64)),
      !(opt_ok_map date_time_ok _ _ (dt_ok_fill fmt64 plain64)),
      !(opt_ok_map f64_ok _ _ (ok64 fmt64 plain64)).
    assert (Hcl' : opt_ok color_limits_ok (option_map (fill_cl fmt64 fmt32) (pc_color_limits pc)) = true).
    { destruct (pc_color_limits pc); [|reflexivity]. cbn in *. apply cl_ok_fill; assumption. }
    assert (Hil' : opt_ok intensity_limits_ok (option_map (fill_il fmt64 fmt32) (pc_intensity_limits pc)) = true).
    { destruct (pc_intensity_limits pc); [|reflexivity]. cbn in *. apply il_ok_fill; assumption. }
    rewrite Hcl', Hil', !andb_true_r.
    rewrite forallb_forall. intros r Hr. apply in_map_iff in Hr as (r0 & <- & Hr0).
    unfold XgWriterOk.record_ok, fill_rec. cbn [r_name r_type].
    destruct (Hn r0 Hr0) as (N1 & _ & _). rewrite N1. apply type_ok_fill; assumption.
  - rewrite pointcloud_xml_ok_split. apply andb_true_intro. split; [exact Hs|].
    unfold fill_pc. cbn [pc_prototype]. rewrite forallb_forall. intros r Hr. apply in_map_iff in Hr as (r0 & <- & Hr0).
    destruct (Hn r0 Hr0) as (_ & _ & N3). unfold record_xml_ok in *. cbn [fill_rec r_name]. exact N3.
  - unfold pc_ok, fill_pc. cbn [pc_file_offset pc_records pc_prototype pc_index_bounds pc_intensity_limits pc_color_limits].
    rewrite Hu1, Hu2, Hib. rewrite (ofo_map_eq il_ok _ _ il_ok_fill'), (ofo_map_eq cl_ok _ _ cl_ok_fill'), Hil, Hcl.
    rewrite !andb_true_r. cbn [andb].
    rewrite forallb_forall. intros r Hr. apply in_map_iff in Hr as (r0 & <- & Hr0).
    unfold XeMetaOk.record_ok, fill_rec. cbn [r_name r_type].
    destruct (Hn r0 Hr0) as (_ & N2 & _). rewrite N2, dtype_ok_fill.
    rewrite forallb_forall in Hd. apply (Hd r0 Hr0).
Qed.

Lemma image_ok_fill im : image_ok (fill_im fmt64 im) = true.
Proof.
  unfold image_ok, fill_im. cbn [im_projection im_transform im_acquisition].
  rewrite (opt_ok_map projection_ok _ _ (proj_ok_fill fmt64 plain64)),
    (opt_ok_map transform_ok _ _ (tr_ok_fill fmt64 plain64)),
    (opt_ok_map date_time_ok _ _ (dt_ok_fill fmt64 plain64)). reflexivity.
Qed.
Lemma image_xml_ok_fill im : image_xml_ok (fill_im fmt64 im) = image_xml_ok im.
Proof. reflexivity. Qed.
Lemma im_ok_fill im : im_ok (fill_im fmt64 im) = im_ok im.
Proof.
  unfold im_ok, fill_im. cbn [im_visual_reference im_projection]. f_equal.
  destruct (im_projection im) as [[p|p|p]|]; reflexivity.
Qed.

(** the three booleans of the XML round trip for the metadata of a writer state *)
Theorem meta_final (m : file_meta) :
  exts_good (fm_extensions m) -> len (fm_extensions m) < 65535 -> root_good (fm_root m) ->
  Forall (pc_good (fm_extensions m)) (fm_pointclouds m) ->
  forallb image_xml_ok (fm_images m) = true ->
  forallb pc_limits_complete (fm_pointclouds m) = true ->
  forallb pc_u64 (fm_pointclouds m) = true -> forallb im_ok (fm_images m) = true ->
  writer_meta_ok (fill_meta fmt64 fmt32 m) = true /\
  meta_xml_ok (fill_meta fmt64 fmt32 m) = true /\
  meta_ok (fill_meta fmt64 fmt32 m) = true.
Proof.
  intros Hg Hl (R1 & R2 & R3 & R4 & R5) Hpcs Hims Hlc Hu Him.
  assert (Hpc : forall pc, In pc (fm_pointclouds m) ->
            pointcloud_ok (fm_extensions m) (fill_pc fmt64 fmt32 pc) = true /\
            pointcloud_xml_ok (fm_extensions m) (fill_pc fmt64 fmt32 pc) = true /\
            pc_ok (fm_extensions m) (fill_pc fmt64 fmt32 pc) = true).
  { intros pc Hin. rewrite Forall_forall in Hpcs. rewrite forallb_forall in Hlc, Hu.
    apply pc_final; auto. }
  split; [|split].
  - unfold writer_meta_ok, fill_meta, fill_root. cbn [fm_root fm_extensions fm_pointclouds fm_images rt_format rt_creation].
    rewrite R1, xstr_eqb_refl, (e57_prefix_none _ Hg), (opt_ok_map date_time_ok _ _ (dt_ok_fill fmt64 plain64)).
    cbn [andb]. apply andb_true_intro. split; rewrite forallb_forall; intros x Hx; apply in_map_iff in Hx as (y & <- & Hy).
    + apply (Hpc y Hy).
    + apply image_ok_fill.
  - unfold meta_xml_ok, fill_meta, fill_root.
    cbn [fm_root fm_extensions fm_pointclouds fm_images rt_format rt_guid rt_library_version rt_coordinate_metadata].
    rewrite R1, R3, R4, R5, (extensions_ok_of _ Hg Hl).
    change (string_ok STD_FORMAT_NAME) with true. cbn [andb].
    apply andb_true_intro. split; rewrite forallb_forall; intros x Hx; apply in_map_iff in Hx as (y & <- & Hy).
    + apply (Hpc y Hy).
    + rewrite image_xml_ok_fill. rewrite forallb_forall in Hims. apply (Hims y Hy).
  - unfold meta_ok, fill_meta, fill_root. cbn [fm_root fm_extensions fm_pointclouds fm_images rt_major_version].
    rewrite R2. change (in_i64 1) with true. cbn [andb].
    apply andb_true_intro. split; rewrite forallb_forall; intros x Hx; apply in_map_iff in Hx as (y & <- & Hy).
    + apply (Hpc y Hy).
    + rewrite im_ok_fill. rewrite forallb_forall in Him. apply (Him y Hy).
Qed.
End Final.
