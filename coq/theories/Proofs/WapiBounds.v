(** Writer API, part 6: what the bounds loop of [add_point] computes.  For
    every axis the running pair is the left fold of [update_min] /
    [update_max] over the values that feed the axis (all records with that
    name, in prototype order, point after point); on NaN-free values the fold
    is the first minimal / maximal element ([is_first_min]): a lower bound that
    occurs, the earliest among equals (so the sign of a zero bound is that of
    the first zero).  A NaN in first position stays forever, a later NaN is
    skipped.  Index bounds are exact integer minima and maxima. *)
From Coq Require Import ZArith Lia Bool.
From Flocq Require Import Binary Bits.
From E57 Require Import Base.Prelude Base.Floats Model.Record Model.Meta Model.WriterApi.
From E57 Require Import Proofs.WapiFloatOrder.
Open Scope N_scope.

(** * Folds of one axis *)

Definition fold_min (vs : list binary64) (m : option binary64) : option binary64 :=
  fold_left (fun m v => update_min f64_gt v m) vs m.
Definition fold_max (vs : list binary64) (m : option binary64) : option binary64 :=
  fold_left (fun m v => update_max f64_lt v m) vs m.
Definition mm_fold_f (vs : list binary64) (m : mm binary64) : mm binary64 :=
  fold_left (fun m v => mm_upd_f v m) vs m.

Lemma mm_fold_f_lo : forall vs m, mm_lo (mm_fold_f vs m) = fold_min vs (mm_lo m).
Proof. induction vs as [|v r IH]; intros m; [reflexivity|]. cbn [mm_fold_f fold_left fold_min]. apply IH. Qed.
Lemma mm_fold_f_hi : forall vs m, mm_hi (mm_fold_f vs m) = fold_max vs (mm_hi m).
Proof. induction vs as [|v r IH]; intros m; [reflexivity|]. cbn [mm_fold_f fold_left fold_max]. apply IH. Qed.
Lemma mm_fold_f_app a b m : mm_fold_f (a ++ b) m = mm_fold_f b (mm_fold_f a m).
Proof. unfold mm_fold_f. apply fold_left_app. Qed.

(** the earliest element that no other element undercuts / exceeds *)
Definition is_first_min (l : list binary64) (m : binary64) : Prop :=
  exists pre post, l = pre ++ m :: post /\
    Forall (fun v => f64_lt m v = true) pre /\ Forall (fun v => f64_le m v = true) post.
Definition is_first_max (l : list binary64) (m : binary64) : Prop :=
  exists pre post, l = pre ++ m :: post /\
    Forall (fun v => f64_lt v m = true) pre /\ Forall (fun v => f64_le v m = true) post.

Lemma first_min_lower l m : Forall not_nan l -> is_first_min l m ->
  In m l /\ Forall (fun v => f64_le m v = true) l.
Proof.
  intros Hn (pre & post & -> & H1 & H2).
  assert (Hm : not_nan m). { rewrite Forall_forall in Hn. apply Hn. apply in_or_app. right. left. reflexivity. }
  split; [apply in_or_app; right; left; reflexivity|].
  apply Forall_app. split.
  - rewrite Forall_forall in *. intros v Hv. apply f64_lt_le; [exact Hm| |apply H1; exact Hv].
    apply Hn. apply in_or_app. left. exact Hv.
  - constructor; [apply f64_le_refl; exact Hm|exact H2].
Qed.
Lemma first_max_upper l m : Forall not_nan l -> is_first_max l m ->
  In m l /\ Forall (fun v => f64_le v m = true) l.
Proof.
  intros Hn (pre & post & -> & H1 & H2).
  assert (Hm : not_nan m). { rewrite Forall_forall in Hn. apply Hn. apply in_or_app. right. left. reflexivity. }
  split; [apply in_or_app; right; left; reflexivity|].
  apply Forall_app. split.
  - rewrite Forall_forall in *. intros v Hv. apply f64_lt_le; [|exact Hm|apply H1; exact Hv].
    apply Hn. apply in_or_app. left. exact Hv.
  - constructor; [apply f64_le_refl; exact Hm|exact H2].
Qed.

Lemma fold_min_inv : forall rest done c, Forall not_nan (done ++ rest) -> is_first_min done c ->
  exists m, fold_min rest (Some c) = Some m /\ is_first_min (done ++ rest) m.
Proof.
  induction rest as [|v r IH]; intros done c Hn Hc.
  - exists c. rewrite app_nil_r. split; [reflexivity|exact Hc].
  - assert (Hnd : Forall not_nan done) by (apply Forall_app in Hn; tauto).
    assert (Hv : not_nan v). { rewrite Forall_forall in Hn. apply Hn. apply in_or_app. right. left. reflexivity. }
    destruct (first_min_lower done c Hnd Hc) as (Hin & Hlow).
    assert (Hcn : not_nan c) by (rewrite Forall_forall in Hnd; apply Hnd; exact Hin).
    cbn [fold_min fold_left update_min]. rewrite (f64_gt_lt c v Hcn Hv).
    replace (done ++ v :: r) with ((done ++ [v]) ++ r) in * by (rewrite <- app_assoc; reflexivity).
    destruct (f64_lt v c) eqn:E.
    + apply IH; [exact Hn|]. exists done, []. split; [reflexivity|]. split; [|constructor].
      rewrite Forall_forall in *. intros u Hu.
      apply (f64_lt_le_trans v c u Hv Hcn); [apply Hnd; exact Hu|exact E|apply Hlow; exact Hu].
    + apply IH; [exact Hn|]. destruct Hc as (pre & post & -> & H1 & H2).
      exists pre, (post ++ [v]). split; [rewrite <- app_assoc; reflexivity|]. split; [exact H1|].
      apply Forall_app. split; [exact H2|]. constructor; [|constructor].
      apply (f64_not_lt_le v c Hv Hcn E).
Qed.

Lemma fold_max_inv : forall rest done c, Forall not_nan (done ++ rest) -> is_first_max done c ->
  exists m, fold_max rest (Some c) = Some m /\ is_first_max (done ++ rest) m.
Proof.
  induction rest as [|v r IH]; intros done c Hn Hc.
  - exists c. rewrite app_nil_r. split; [reflexivity|exact Hc].
  - assert (Hnd : Forall not_nan done) by (apply Forall_app in Hn; tauto).
    assert (Hv : not_nan v). { rewrite Forall_forall in Hn. apply Hn. apply in_or_app. right. left. reflexivity. }
    destruct (first_max_upper done c Hnd Hc) as (Hin & Hup).
    assert (Hcn : not_nan c) by (rewrite Forall_forall in Hnd; apply Hnd; exact Hin).
    cbn [fold_max fold_left update_max].
    replace (done ++ v :: r) with ((done ++ [v]) ++ r) in * by (rewrite <- app_assoc; reflexivity).
    destruct (f64_lt c v) eqn:E.
    + apply IH; [exact Hn|]. exists done, []. split; [reflexivity|]. split; [|constructor].
      rewrite Forall_forall in *. intros u Hu.
      apply (f64_le_lt_trans u c v); [apply Hnd; exact Hu|exact Hcn|exact Hv|apply Hup; exact Hu|exact E].
    + apply IH; [exact Hn|]. destruct Hc as (pre & post & -> & H1 & H2).
      exists pre, (post ++ [v]). split; [rewrite <- app_assoc; reflexivity|]. split; [exact H1|].
      apply Forall_app. split; [exact H2|]. constructor; [|constructor].
      apply (f64_not_lt_le c v Hcn Hv E).
Qed.

(** The folds from nothing on NaN-free values *)
Theorem fold_min_spec l : Forall not_nan l ->
  match l with
  | [] => fold_min l None = None
  | _ => exists m, fold_min l None = Some m /\ is_first_min l m
  end.
Proof.
  intros Hn. destruct l as [|v r]; [reflexivity|].
  cbn [fold_min fold_left update_min].
  apply (fold_min_inv r [v] v Hn). exists [], []. split; [reflexivity|]. split; constructor.
Qed.
Theorem fold_max_spec l : Forall not_nan l ->
  match l with
  | [] => fold_max l None = None
  | _ => exists m, fold_max l None = Some m /\ is_first_max l m
  end.
Proof.
  intros Hn. destruct l as [|v r]; [reflexivity|].
  cbn [fold_max fold_left update_max].
  apply (fold_max_inv r [v] v Hn). exists [], []. split; [reflexivity|]. split; constructor.
Qed.

(** NaN: Rust's comparisons with a NaN are false, so a NaN never replaces a
    bound and a NaN bound is never replaced *)
Lemma fold_min_nan_stays : forall l c, f64_is_nan c = true -> fold_min l (Some c) = Some c.
Proof.
  induction l as [|v r IH]; intros c Hc; [reflexivity|].
  cbn [fold_min fold_left update_min]. rewrite (f64_gt_nan_l c v Hc). apply IH. exact Hc.
Qed.
Lemma fold_max_nan_stays : forall l c, f64_is_nan c = true -> fold_max l (Some c) = Some c.
Proof.
  induction l as [|v r IH]; intros c Hc; [reflexivity|].
  cbn [fold_max fold_left update_max]. rewrite (f64_lt_nan_l c v Hc). apply IH. exact Hc.
Qed.
Lemma fold_min_skips_nan : forall l c,
  fold_min l (Some c) = fold_min (filter (fun v => negb (f64_is_nan v)) l) (Some c).
Proof.
  induction l as [|v r IH]; intros c; [reflexivity|]. cbn [filter].
  destruct (f64_is_nan v) eqn:E; cbn [negb].
  - cbn [fold_min fold_left update_min]. rewrite (f64_gt_nan_r c v E). apply IH.
  - cbn [fold_min fold_left update_min]. destruct (f64_gt c v); apply IH.
Qed.
Lemma fold_max_skips_nan : forall l c,
  fold_max l (Some c) = fold_max (filter (fun v => negb (f64_is_nan v)) l) (Some c).
Proof.
  induction l as [|v r IH]; intros c; [reflexivity|]. cbn [filter].
  destruct (f64_is_nan v) eqn:E; cbn [negb].
  - cbn [fold_max fold_left update_max]. rewrite (f64_lt_nan_r c v E). apply IH.
  - cbn [fold_max fold_left update_max]. destruct (f64_lt c v); apply IH.
Qed.

(** ** integer axes *)
Definition mm_fold_i (vs : list Z) (m : mm Z) : mm Z := fold_left (fun m v => mm_upd_i v m) vs m.
Lemma mm_fold_i_app a b m : mm_fold_i (a ++ b) m = mm_fold_i b (mm_fold_i a m).
Proof. unfold mm_fold_i. apply fold_left_app. Qed.

Definition zmin_list (l : list Z) : option Z :=
  match l with [] => None | v :: r => Some (fold_left Z.min r v) end.
Definition zmax_list (l : list Z) : option Z :=
  match l with [] => None | v :: r => Some (fold_left Z.max r v) end.

Lemma mm_fold_i_some : forall vs lo hi,
  mm_fold_i vs (mkMm (Some lo) (Some hi)) = mkMm (Some (fold_left Z.min vs lo)) (Some (fold_left Z.max vs hi)).
Proof.
  induction vs as [|v r IH]; intros lo hi; [reflexivity|].
  cbn [mm_fold_i fold_left]. unfold mm_upd_i at 2. cbn [update_min update_max mm_lo mm_hi].
  replace (if (lo >? v)%Z then Some v else Some lo) with (Some (Z.min lo v)) by (destruct (Z.gtb_spec lo v); f_equal; lia).
  replace (if (hi <? v)%Z then Some v else Some hi) with (Some (Z.max hi v)) by (destruct (Z.ltb_spec hi v); f_equal; lia).
  apply IH.
Qed.

Theorem mm_fold_i_empty vs : mm_fold_i vs mm_empty = mkMm (zmin_list vs) (zmax_list vs).
Proof.
  destruct vs as [|v r]; [reflexivity|]. cbn [mm_fold_i fold_left]. apply mm_fold_i_some.
Qed.

Lemma fold_zmin_spec : forall r v, let m := fold_left Z.min r v in
  In m (v :: r) /\ Forall (fun u => (m <= u)%Z) (v :: r).
Proof.
  induction r as [|x r IH]; intros v; cbn [fold_left].
  - split; [left; reflexivity|constructor; [lia|constructor]].
  - destruct (IH (Z.min v x)) as (Hin & Hall). inversion Hall as [|? ? H1 H2]; subst. split.
    + destruct Hin as [Hin|Hin]; [|right; right; exact Hin].
      rewrite <- Hin. destruct (Z.min_spec v x) as [[_ ->]|[_ ->]]; [left|right; left]; reflexivity.
    + constructor; [lia|]. constructor; [lia|exact H2].
Qed.
Lemma fold_zmax_spec : forall r v, let m := fold_left Z.max r v in
  In m (v :: r) /\ Forall (fun u => (u <= m)%Z) (v :: r).
Proof.
  induction r as [|x r IH]; intros v; cbn [fold_left].
  - split; [left; reflexivity|constructor; [lia|constructor]].
  - destruct (IH (Z.max v x)) as (Hin & Hall). inversion Hall as [|? ? H1 H2]; subst. split.
    + destruct Hin as [Hin|Hin]; [|right; right; exact Hin].
      rewrite <- Hin. destruct (Z.max_spec v x) as [[_ ->]|[_ ->]]; [right; left|left]; reflexivity.
    + constructor; [lia|]. constructor; [lia|exact H2].
Qed.

(** * Which values feed which axis *)

Definition faxis_eqb (a b : faxis) : bool :=
  match a, b with FX, FX | FY, FY | FZ, FZ | FAz, FAz | FEl, FEl | FRg, FRg => true | _, _ => false end.
Definition iaxis_eqb (a b : iaxis) : bool :=
  match a, b with IRow, IRow | ICol, ICol | IRet, IRet => true | _, _ => false end.

(** the value one record contributes to float axis [a] (as [to_f64] sees it) *)
Definition one_f (a : faxis) (p : record) (v : rvalue) : list binary64 :=
  match axis_of (r_name p), to_f64 v (r_type p) with
  | Some (AxF a'), Ok x => if faxis_eqb a a' then [x] else []
  | _, _ => []
  end.
Definition one_i (a : iaxis) (p : record) (v : rvalue) : list Z :=
  match axis_of (r_name p), to_i64 v (r_type p) with
  | Some (AxI a'), Ok x => if iaxis_eqb a a' then [x] else []
  | _, _ => []
  end.

Fixpoint point_f (a : faxis) (proto : list record) (vs : list rvalue) : list binary64 :=
  match proto, vs with
  | p :: pr, v :: vr => one_f a p v ++ point_f a pr vr
  | _, _ => []
  end.
Fixpoint point_i (a : iaxis) (proto : list record) (vs : list rvalue) : list Z :=
  match proto, vs with
  | p :: pr, v :: vr => one_i a p v ++ point_i a pr vr
  | _, _ => []
  end.

(** all values of an axis over a point list: the attribute "as a real value" *)
Definition attr_f (a : faxis) (proto : list record) (pts : list (list rvalue)) : list binary64 :=
  flat_map (point_f a proto) pts.
Definition attr_i (a : iaxis) (proto : list record) (pts : list (list rvalue)) : list Z :=
  flat_map (point_i a proto) pts.

(** * get / set *)

Lemma fget_fset a a' m b : fget a b <> None ->
  fget a (fset a' m b) = if faxis_eqb a a' then Some m else fget a b.
Proof.
  destruct a, a'; cbn [fget fset faxis_eqb rb_cart rb_sph rb_idx cart_set sph_set];
    destruct (rb_cart b) as [c|], (rb_sph b) as [s|]; cbn [option_map cart_set sph_set cr_x cr_y cr_z sr_az sr_el sr_rg];
    intros H; try reflexivity; exfalso; apply H; reflexivity.
Qed.
Lemma fget_iset a a' m b : fget a (iset a' m b) = fget a b.
Proof. destruct a; reflexivity. Qed.
Lemma iget_fset a a' m b : iget a (fset a' m b) = iget a b.
Proof. destruct a, a'; reflexivity. Qed.
Lemma iget_iset a a' m b : iget a b <> None ->
  iget a (iset a' m b) = if iaxis_eqb a a' then Some m else iget a b.
Proof.
  destruct a, a'; cbn [iget iset iaxis_eqb rb_idx]; destruct (rb_idx b) as [i|]; cbn [option_map ir_row ir_col ir_ret];
    intros H; try reflexivity; exfalso; apply H; reflexivity.
Qed.

Lemma faxis_eqb_refl a : faxis_eqb a a = true.
Proof. destruct a; reflexivity. Qed.
Lemma faxis_eqb_eq a b : faxis_eqb a b = true -> a = b.
Proof. destruct a, b; try discriminate; reflexivity. Qed.
Lemma iaxis_eqb_eq a b : iaxis_eqb a b = true -> a = b.
Proof. destruct a, b; try discriminate; reflexivity. Qed.

(** * One record, one point, many points *)

Lemma update_one_f a p v b b' : update_one p v b = (b', Ok tt) ->
  fget a b' = option_map (mm_fold_f (one_f a p v)) (fget a b).
Proof.
  unfold update_one, one_f. destruct (axis_of (r_name p)) as [[a'|a']|].
  - destruct (to_f64 v (r_type p)) as [x|k|]; [|intros H; inversion H|intros H; inversion H].
    destruct (fget a' b) as [m|] eqn:Eg; intros H; inversion H; subst. clear H.
    destruct (fget a b) as [ma|] eqn:Ea.
    + rewrite fget_fset by congruence. destruct (faxis_eqb a a') eqn:E.
      * apply faxis_eqb_eq in E. subst a'. rewrite Ea in Eg. inversion Eg. reflexivity.
      * rewrite Ea. reflexivity.
    + cbn [option_map]. destruct a, a'; cbn [fget fset rb_cart rb_sph] in *;
        destruct (rb_cart b), (rb_sph b); cbn [option_map] in *; try discriminate; reflexivity.
  - destruct (to_i64 v (r_type p)) as [x|k|]; [|intros H; inversion H|intros H; inversion H].
    destruct (iget a' b) as [m|]; intros H; inversion H; subst.
    rewrite fget_iset. destruct (fget a b); reflexivity.
  - intros H. inversion H; subst. destruct (fget a b'); reflexivity.
Qed.

Lemma update_one_i a p v b b' : update_one p v b = (b', Ok tt) ->
  iget a b' = option_map (mm_fold_i (one_i a p v)) (iget a b).
Proof.
  unfold update_one, one_i. destruct (axis_of (r_name p)) as [[a'|a']|].
  - destruct (to_f64 v (r_type p)) as [x|k|]; [|intros H; inversion H|intros H; inversion H].
    destruct (fget a' b) as [m|]; intros H; inversion H; subst.
    rewrite iget_fset. destruct (to_i64 v (r_type p)); destruct (iget a b); reflexivity.
  - destruct (to_i64 v (r_type p)) as [x|k|]; [|intros H; inversion H|intros H; inversion H].
    destruct (iget a' b) as [m|] eqn:Eg; intros H; inversion H; subst. clear H.
    destruct (iget a b) as [ma|] eqn:Ea.
    + rewrite iget_iset by congruence. destruct (iaxis_eqb a a') eqn:E.
      * apply iaxis_eqb_eq in E. subst a'. rewrite Ea in Eg. inversion Eg. reflexivity.
      * rewrite Ea. reflexivity.
    + cbn [option_map]. destruct a, a'; cbn [iget iset rb_idx] in *;
        destruct (rb_idx b); cbn [option_map] in *; try discriminate; reflexivity.
  - intros H. inversion H; subst. destruct (to_i64 v (r_type p)); destruct (iget a b'); reflexivity.
Qed.

Lemma option_map_fold_f xs ys (o : option (mm binary64)) :
  option_map (mm_fold_f ys) (option_map (mm_fold_f xs) o) = option_map (mm_fold_f (xs ++ ys)) o.
Proof. destruct o; cbn [option_map]; [rewrite mm_fold_f_app|]; reflexivity. Qed.
Lemma option_map_fold_i xs ys (o : option (mm Z)) :
  option_map (mm_fold_i ys) (option_map (mm_fold_i xs) o) = option_map (mm_fold_i (xs ++ ys)) o.
Proof. destruct o; cbn [option_map]; [rewrite mm_fold_i_app|]; reflexivity. Qed.

Lemma update_bounds_f a : forall proto vs b b', length vs = length proto ->
  update_bounds proto vs b = (b', Ok tt) ->
  fget a b' = option_map (mm_fold_f (point_f a proto vs)) (fget a b).
Proof.
  induction proto as [|p pr IH]; intros vs b b' Hl H.
  - cbn [update_bounds] in H. inversion H; subst. destruct vs; cbn [point_f]; destruct (fget a b'); reflexivity.
  - destruct vs as [|v vr]; [discriminate|]. cbn [length] in Hl. cbn [update_bounds] in H.
    destruct (update_one p v b) as [b1 [[]|k|]] eqn:E1; try (inversion H; fail).
    rewrite (IH vr b1 b' ltac:(lia) H), (update_one_f a p v b b1 E1). cbn [point_f]. apply option_map_fold_f.
Qed.
Lemma update_bounds_i a : forall proto vs b b', length vs = length proto ->
  update_bounds proto vs b = (b', Ok tt) ->
  iget a b' = option_map (mm_fold_i (point_i a proto vs)) (iget a b).
Proof.
  induction proto as [|p pr IH]; intros vs b b' Hl H.
  - cbn [update_bounds] in H. inversion H; subst. destruct vs; cbn [point_i]; destruct (iget a b'); reflexivity.
  - destruct vs as [|v vr]; [discriminate|]. cbn [length] in Hl. cbn [update_bounds] in H.
    destruct (update_one p v b) as [b1 [[]|k|]] eqn:E1; try (inversion H; fail).
    rewrite (IH vr b1 b' ltac:(lia) H), (update_one_i a p v b b1 E1). cbn [point_i]. apply option_map_fold_i.
Qed.

(** the bounds after a list of accepted points *)
Inductive points_fold (proto : list record) : list (list rvalue) -> run_bounds -> run_bounds -> Prop :=
| pf_nil b : points_fold proto [] b b
| pf_cons vs pts b b1 b2 :
    length vs = length proto -> update_bounds proto vs b = (b1, Ok tt) ->
    points_fold proto pts b1 b2 -> points_fold proto (vs :: pts) b b2.

Lemma points_fold_f a proto pts b b' : points_fold proto pts b b' ->
  fget a b' = option_map (mm_fold_f (attr_f a proto pts)) (fget a b).
Proof.
  induction 1 as [b|vs pts b b1 b2 Hl Hu _ IH]; [destruct (fget a b); reflexivity|].
  rewrite IH, (update_bounds_f a proto vs b b1 Hl Hu). unfold attr_f. cbn [flat_map]. apply option_map_fold_f.
Qed.
Lemma points_fold_i a proto pts b b' : points_fold proto pts b b' ->
  iget a b' = option_map (mm_fold_i (attr_i a proto pts)) (iget a b).
Proof.
  induction 1 as [b|vs pts b b1 b2 Hl Hu _ IH]; [destruct (iget a b); reflexivity|].
  rewrite IH, (update_bounds_i a proto vs b b1 Hl Hu). unfold attr_i. cbn [flat_map]. apply option_map_fold_i.
Qed.

Lemma points_fold_app proto p1 p2 b0 b1 b2 :
  points_fold proto p1 b0 b1 -> points_fold proto p2 b1 b2 -> points_fold proto (p1 ++ p2) b0 b2.
Proof.
  induction 1 as [b|vs pts b bb1 bb2 Hl Hu _ IH]; intros H2; [exact H2|].
  cbn [app]. econstructor; [exact Hl|exact Hu|apply IH; exact H2].
Qed.
