(** B3: the read buffer; [bits] = the unread bits. *)
From E57 Require Import Base.Prelude Model.BsWrite Model.BsRead Model.Record Spec.BitSpec.
From E57 Require Import Proofs.BitLemmas Proofs.BitWidthProofs.
From Coq Require Import ZifyN ZifyNat ZifyBool.
Ltac Zify.zify_post_hook ::= Z.div_mod_to_equations.
Open Scope N_scope.

Definition bsr_holds (s : bsr) (bits : list bool) : Prop :=
  bytes_ok (br_buf s) /\ br_off s <= 8 * len (br_buf s) /\
  skipn (N.to_nat (br_off s)) (bits_of_bytes (br_buf s)) = bits.

Lemma bsr_new_holds : bsr_holds bsr_new [].
Proof.
  unfold bsr_holds, bsr_new. cbn [br_buf br_off]. split; [constructor|].
  split; [unfold len; cbn [length]; lia|reflexivity].
Qed.

Lemma bsr_holds_length s bits : bsr_holds s bits ->
  N.of_nat (length bits) = 8 * len (br_buf s) - br_off s.
Proof.
  intros (_ & Hoff & <-). rewrite skipn_length, bits_of_bytes_length. unfold len in *. lia.
Qed.

Theorem bsr_append_holds : forall s bits data,
  bsr_holds s bits -> bytes_ok data ->
  exists s', bsr_append s data = Ok s' /\ bsr_holds s' (bits ++ bits_of_bytes data).
Proof.
  intros s bits data (Hok & Hoff & Hbits) Hd. unfold bsr_append.
  destruct (len (br_buf s) <? br_off s / 8) eqn:E; [lia|].
  eexists; split; [reflexivity|]. unfold bsr_holds. cbn [br_buf br_off].
  split; [|split].
  - apply Forall_app. split; [apply Forall_skipn_; exact Hok|exact Hd].
  - unfold len, drop in *. rewrite app_length, skipn_length. lia.
  - unfold drop. rewrite bits_of_bytes_app, <- bits_of_bytes_skipn, skipn_app.
    rewrite skipn_skipn_, skipn_length, bits_of_bytes_length.
    unfold len in *.
    replace (8 * N.to_nat (br_off s / 8) + N.to_nat (br_off s - br_off s / 8 * 8))%nat
      with (N.to_nat (br_off s)) by lia.
    replace (N.to_nat (br_off s - br_off s / 8 * 8) - (8 * length (br_buf s) - 8 * N.to_nat (br_off s / 8)))%nat
      with 0%nat by lia.
    rewrite skipn_O, Hbits. reflexivity.
Qed.

(** ** The 16-byte window *)

Lemma extract_window buf o w : bytes_ok buf -> o + w <= 8 * len buf -> w <= 64 ->
  (N.shiftr (le_num (slice (o / 8) ((o + w + 7) / 8 - o / 8) buf)) (o mod 8) mod 2 ^ 64) mod 2 ^ w
  = num_of_bits (firstn (N.to_nat w) (skipn (N.to_nat o) (bits_of_bytes buf))).
Proof.
  intros Hok Hlen Hw. unfold len in Hlen.
  apply N.bits_inj; intro i. destruct (N.ltb_spec i w) as [Hi|Hi].
  - rewrite (N.mod_pow2_bits_low _ w i) by lia.
    rewrite (N.mod_pow2_bits_low _ 64 i) by lia.
    rewrite N.shiftr_spec'.
    rewrite <- (N2Nat.id (i + o mod 8)).
    rewrite <- bits_of_bytes_testbit
      by (unfold slice, take, drop; apply Forall_firstn_, Forall_skipn_; exact Hok).
    unfold slice, take, drop.
    rewrite <- bits_of_bytes_firstn, <- bits_of_bytes_skipn, nth_firstn_, nth_skipn_.
    rewrite num_of_bits_testbit, nth_firstn_, nth_skipn_.
    destruct (N.to_nat (i + o mod 8) <? 8 * N.to_nat ((o + w + 7) / 8 - o / 8))%nat eqn:E1; [|lia].
    destruct (N.to_nat i <? N.to_nat w)%nat eqn:E2; [|lia].
    f_equal. lia.
  - rewrite (N.mod_pow2_bits_high _ w i) by lia.
    rewrite num_of_bits_testbit, nth_firstn_.
    destruct (N.to_nat i <? N.to_nat w)%nat eqn:E2; [lia|reflexivity].
Qed.

Lemma bsr_extract_none s bits w :
  bsr_holds s bits -> N.of_nat (length bits) < w -> bsr_extract s w = Ok (s, None).
Proof.
  intros Hh Hlt. pose proof (bsr_holds_length _ _ Hh) as Hl. destruct Hh as (Hok & Hoff & Hbits).
  unfold bsr_extract, bsr_available.
  destruct (len (br_buf s) * 8 <? br_off s) eqn:E; [lia|].
  destruct (len (br_buf s) * 8 - br_off s <? w) eqn:E2; [reflexivity|lia].
Qed.

Lemma bsr_extract_some s bits w :
  bsr_holds s bits -> w <= 64 -> w <= N.of_nat (length bits) ->
  exists v, bsr_extract s w = Ok (mkBsr (br_buf s) (br_off s + w), Some v) /\
    v < 2 ^ 64 /\
    v mod 2 ^ w = num_of_bits (firstn (N.to_nat w) bits) /\
    bsr_holds (mkBsr (br_buf s) (br_off s + w)) (skipn (N.to_nat w) bits).
Proof.
  intros Hh Hw Hge. pose proof (bsr_holds_length _ _ Hh) as Hl. destruct Hh as (Hok & Hoff & Hbits).
  unfold bsr_extract, bsr_available.
  destruct (len (br_buf s) * 8 <? br_off s) eqn:E; [lia|].
  destruct (len (br_buf s) * 8 - br_off s <? w) eqn:E2; [lia|].
  destruct (16 <? (br_off s + w + 7) / 8 - br_off s / 8) eqn:E3; [lia|].
  destruct (len (br_buf s) <? (br_off s + w + 7) / 8) eqn:E4; [lia|].
  eexists; split; [reflexivity|]. split; [|split].
  - apply N.mod_lt. apply N.pow_nonzero. lia.
  - rewrite <- Hbits. apply extract_window; [exact Hok|lia|exact Hw].
  - unfold bsr_holds. cbn [br_buf br_off]. split; [exact Hok|]. split; [lia|].
    rewrite <- Hbits, skipn_skipn_. f_equal. lia.
Qed.

Theorem bsr_extract_holds : forall s bits w,
  bsr_holds s bits -> w <= 64 ->
  (N.of_nat (length bits) < w -> bsr_extract s w = Ok (s, None)) /\
  (w <= N.of_nat (length bits) ->
     exists s' v, bsr_extract s w = Ok (s', Some v) /\
       v mod 2 ^ w = num_of_bits (firstn (N.to_nat w) bits) /\
       bsr_holds s' (skipn (N.to_nat w) bits)).
Proof.
  intros s bits w Hh Hw. split.
  - apply bsr_extract_none. exact Hh.
  - intros Hge. destruct (bsr_extract_some s bits w Hh Hw Hge) as (v & H1 & _ & H2 & H3).
    eexists _, v. split; [exact H1|]. split; assumption.
Qed.

(** ** Cutting a bit list into groups *)

Fixpoint group_nums (fuel w : nat) (l : list bool) : list N :=
  match fuel with
  | O => []
  | S f => if (length l <? w)%nat then []
           else num_of_bits (firstn w l) :: group_nums f w (skipn w l)
  end.

Lemma decode_group_nums : forall fuel t w l,
  decode_bits_fuel fuel t w l = map (mk_value t) (group_nums fuel w l).
Proof.
  induction fuel; intros t w l; cbn [decode_bits_fuel group_nums]; [reflexivity|].
  destruct (length l <? w)%nat; [reflexivity|]. cbn [map]. rewrite IHfuel. reflexivity.
Qed.

Lemma group_nums_fuel : forall f1 f2 w l, (0 < w)%nat ->
  (length l <= f1)%nat -> (length l <= f2)%nat -> group_nums f1 w l = group_nums f2 w l.
Proof.
  induction f1; intros f2 w l Hw H1 H2.
  - destruct f2; [reflexivity|]. cbn [group_nums].
    destruct (length l <? w)%nat eqn:E; [reflexivity|lia].
  - destruct f2; cbn [group_nums].
    + destruct (length l <? w)%nat eqn:E; [reflexivity|lia].
    + destruct (length l <? w)%nat eqn:E; [reflexivity|].
      f_equal. apply IHf1; try assumption; rewrite skipn_length; lia.
Qed.

Lemma group_nums_short f w l : (length l < w)%nat -> group_nums f w l = [].
Proof.
  intros H. destruct f; cbn [group_nums]; [reflexivity|].
  destruct (length l <? w)%nat eqn:E; [reflexivity|lia].
Qed.

Lemma group_nums_step w l : (0 < w)%nat -> (w <= length l)%nat ->
  group_nums (length l) w l =
  num_of_bits (firstn w l) :: group_nums (length (skipn w l)) w (skipn w l).
Proof.
  intros Hw Hl. destruct (length l) as [|n] eqn:En; [lia|].
  cbn [group_nums]. rewrite En.
  destruct (S n <? w)%nat eqn:E; [lia|]. f_equal.
  apply group_nums_fuel; try assumption; rewrite skipn_length; lia.
Qed.

Lemma div_step (n w : nat) : (0 < w)%nat -> (w <= n)%nat -> (n / w = S ((n - w) / w))%nat.
Proof.
  intros Hw Hn. replace n with (1 * w + (n - w))%nat at 1 by lia.
  rewrite Nat.div_add_l by lia. lia.
Qed.

Lemma group_nums_length : forall f w l, (0 < w)%nat -> (length l <= f)%nat ->
  length (group_nums f w l) = (length l / w)%nat.
Proof.
  induction f; intros w l Hw Hl.
  - replace (length l) with 0%nat by lia. rewrite Nat.div_0_l by lia. reflexivity.
  - cbn [group_nums]. destruct (length l <? w)%nat eqn:E.
    + rewrite Nat.div_small by lia. reflexivity.
    + cbn [length]. rewrite IHf by (try assumption; rewrite skipn_length; lia).
      rewrite skipn_length. symmetry. apply div_step; lia.
Qed.

Lemma group_nums_lt : forall f w l, Forall (fun u => u < 2 ^ N.of_nat w) (group_nums f w l).
Proof.
  induction f; intros w l; cbn [group_nums]; [constructor|].
  destruct (length l <? w)%nat eqn:E; constructor; [|apply IHf].
  apply num_of_bits_lt_le. unfold len. rewrite firstn_length. lia.
Qed.

(** ** The unpack loop *)

Lemma unpack_loop_gen w mk : 0 < w -> w <= 64 -> forall fuel s bits acc,
  bsr_holds s bits -> (length bits / N.to_nat w < fuel)%nat ->
  exists s' vs, unpack_loop fuel w mk s acc = Ok (s', acc ++ vs) /\
    Forall2 (fun u x => exists v, v < 2 ^ 64 /\ v mod 2 ^ w = u /\ x = mk v)
            (group_nums (length bits) (N.to_nat w) bits) vs /\
    bsr_holds s' (skipn ((length bits / N.to_nat w) * N.to_nat w) bits).
Proof.
  intros Hw0 Hw. induction fuel; intros s bits acc Hh Hf; [exfalso; exact (Nat.nlt_0_r _ Hf)|].
  cbn [unpack_loop]. destruct (N.ltb_spec (N.of_nat (length bits)) w) as [Hlt|Hge].
  - rewrite (bsr_extract_none s bits w Hh Hlt).
    exists s, []. rewrite app_nil_r. split; [reflexivity|].
    rewrite group_nums_short by lia. split; [constructor|].
    rewrite Nat.div_small by lia. exact Hh.
  - destruct (bsr_extract_some s bits w Hh Hw Hge) as (v & He & Hv & Hmod & Hh').
    rewrite He.
    assert (Hdiv : (length bits / N.to_nat w = S (length (skipn (N.to_nat w) bits) / N.to_nat w))%nat).
    { rewrite skipn_length. apply div_step; lia. }
    destruct (IHfuel _ _ (acc ++ [mk v]) Hh') as (s'' & vs & Hl & HF & Hh''); [lia|].
    exists s'', (mk v :: vs). split; [|split].
    + rewrite Hl, <- app_assoc. reflexivity.
    + rewrite group_nums_step by lia. constructor; [|exact HF].
      exists v. split; [exact Hv|]. split; [exact Hmod|reflexivity].
    + rewrite skipn_skipn_ in Hh''. rewrite Hdiv.
      replace (S (length (skipn (N.to_nat w) bits) / N.to_nat w) * N.to_nat w)%nat
        with (N.to_nat w + length (skipn (N.to_nat w) bits) / N.to_nat w * N.to_nat w)%nat by lia.
      exact Hh''.
Qed.

Lemma unpack_fuel_enough s bits w : bsr_holds s bits -> 0 < w ->
  (length bits / N.to_nat w < unpack_fuel s w)%nat.
Proof.
  intros Hh Hw. pose proof (bsr_holds_length _ _ Hh) as Hl. unfold unpack_fuel.
  assert (length bits / N.to_nat w <= N.to_nat (len (br_buf s) * 8 / w))%nat; [|lia].
  rewrite N2Nat.inj_div. apply Nat.div_le_mono; lia.
Qed.

(** ** Values that stay inside i64 *)

Definition value_i64 (v : rvalue) : Prop :=
  match v with
  | VScaled z | VInteger z => in_i64 z = true
  | _ => True
  end.

Lemma wrap_i64_id z : in_i64 z = true -> wrap_i64 z = z.
Proof.
  intros H. apply in_i64_bounds in H. unfold wrap_i64.
  change (2 ^ 64)%Z with 18446744073709551616%Z.
  change (2 ^ 63)%Z with 9223372036854775808%Z.
  cbv zeta. destruct (z mod 18446744073709551616 <? 9223372036854775808)%Z eqn:E; lia.
Qed.

Lemma Forall2_weaken {A B} (R1 R2 : A -> B -> Prop) : (forall a b, R1 a b -> R2 a b) ->
  forall l l', Forall2 R1 l l' -> Forall2 R2 l l'.
Proof. intros H l l' HF. induction HF; constructor; auto. Qed.

Lemma Forall2_length_ {A B} (R : A -> B -> Prop) l l' : Forall2 R l l' -> length l = length l'.
Proof. intros HF. induction HF; cbn [length]; congruence. Qed.

Lemma unpack_ints_gen_spec (mk : Z -> rvalue) mn mx s bits :
  in_i64 mn = true -> in_i64 mx = true -> (mn <= mx)%Z -> 0 < spec_width mn mx ->
  bsr_holds s bits ->
  let w := N.to_nat (spec_width mn mx) in
  exists s' vs, unpack_ints_gen mk mn mx s = Ok (s', vs) /\
    Forall2 (fun u x => in_i64 (Z.of_N u + mn) = true -> x = mk (Z.of_N u + mn)%Z)
            (group_nums (length bits) w bits) vs /\
    bsr_holds s' (skipn ((length bits / w) * w) bits).
Proof.
  intros Hmn Hmx Hle Hw0 Hh w.
  destruct (spec_width_exact mn mx Hmn Hmx Hle) as (Ha & _ & Hc & Hd).
  pose proof (integer_bits_spec mn mx Hmn Hmx Hle) as Hib. unfold integer_bits in Hib.
  assert (Hlt : (mn < mx)%Z) by lia.
  destruct (0 <? mx - mn)%Z eqn:E0; [|lia].
  unfold unpack_ints_gen. destruct (mx - mn <=? 0)%Z eqn:E1; [lia|].
  cbv zeta. rewrite Hib.
  set (W := spec_width mn mx) in *.
  assert (Hpow : 2 ^ W <= 2 ^ 64) by (apply N.pow_le_mono_r; lia).
  assert (Hpos : 0 < 2 ^ W) by (apply N.neq_0_lt_0, N.pow_nonzero; lia).
  rewrite (N.mod_small (2 ^ W - 1) (2 ^ 64)) by lia.
  rewrite N.sub_1_r, <- N.ones_equiv.
  destruct (unpack_loop_gen W
              (fun uint => mk (wrap_i64 (Z.of_N (N.land uint (N.ones W)) + mn)))
              Hw0 Hc (unpack_fuel s W) s bits [] Hh (unpack_fuel_enough s bits W Hh Hw0))
    as (s' & vs & Hl & HF & Hh').
  exists s', vs. split; [exact Hl|]. split; [|exact Hh'].
  revert HF. apply Forall2_weaken. intros u x (v & Hv & Hmod & ->) Hi.
  rewrite N.land_ones, Hmod, wrap_i64_id by exact Hi. reflexivity.
Qed.

(** The general form: the shape always holds; each value agrees with the
    specification whenever the specified value lies in i64. *)
Lemma unpack_type_gen t s bits :
  type_ok t = true -> 0 < spec_bit_size t -> bsr_holds s bits ->
  let w := N.to_nat (spec_bit_size t) in
  exists s' vs, unpack_type t s = Ok (s', vs) /\
    Forall2 (fun u x => value_i64 (mk_value t u) -> x = mk_value t u)
            (group_nums (length bits) w bits) vs /\
    bsr_holds s' (skipn ((length bits / w) * w) bits).
Proof.
  intros Ht Hw0 Hh w.
  destruct t as [| |mn mx|mn mx]; cbn [unpack_type spec_bit_size type_ok mk_value value_i64] in *.
  - unfold unpack_singles.
    destruct (unpack_loop_gen 32 (fun v => VSingle (v mod 2 ^ 32)) Hw0 ltac:(lia)
                (unpack_fuel s 32) s bits [] Hh (unpack_fuel_enough s bits 32 Hh Hw0))
      as (s' & vs & Hl & HF & Hh').
    exists s', vs. split; [exact Hl|]. split; [|exact Hh'].
    revert HF. apply Forall2_weaken. intros u x (v & Hv & Hmod & ->) _. rewrite Hmod. reflexivity.
  - unfold unpack_doubles.
    destruct (unpack_loop_gen 64 VDouble Hw0 ltac:(lia)
                (unpack_fuel s 64) s bits [] Hh (unpack_fuel_enough s bits 64 Hh Hw0))
      as (s' & vs & Hl & HF & Hh').
    exists s', vs. split; [exact Hl|]. split; [|exact Hh'].
    revert HF. apply Forall2_weaken. intros u x (v & Hv & Hmod & ->) _.
    rewrite (N.mod_small v (2 ^ 64) Hv) in Hmod. rewrite Hmod. reflexivity.
  - apply type_ok_int in Ht as (H1 & H2 & H3).
    apply (unpack_ints_gen_spec VScaled mn mx s bits H1 H2 H3 Hw0 Hh).
  - apply type_ok_int in Ht as (H1 & H2 & H3).
    apply (unpack_ints_gen_spec VInteger mn mx s bits H1 H2 H3 Hw0 Hh).
Qed.

(** Shape only: no panic, the number of values, the remaining bits. *)
Theorem unpack_type_total : forall t s bits,
  type_ok t = true -> 0 < spec_bit_size t -> bsr_holds s bits ->
  let w := N.to_nat (spec_bit_size t) in
  let n := (length bits / w)%nat in
  exists s' vs, unpack_type t s = Ok (s', vs) /\ length vs = n /\
                bsr_holds s' (skipn (n * w) bits).
Proof.
  intros t s bits Ht Hw0 Hh w n.
  destruct (unpack_type_gen t s bits Ht Hw0 Hh) as (s' & vs & Hl & HF & Hh').
  exists s', vs. split; [exact Hl|]. split; [|exact Hh'].
  rewrite <- (Forall2_length_ _ _ _ HF). apply group_nums_length; subst w; lia.
Qed.

(** [unpack_type_holds] as first stated (without the i64 hypothesis below) is
    FALSE: for t = TInteger (2^63-3) (2^63-1) (width 2) and s = mkBsr [3] 0 the
    first group is u = 3, the specification decodes VInteger (2^63) while the
    model computes [wrap_i64 (3 + mn)] = VInteger (-2^63).  A decoded group
    u < 2^w may exceed max - min, so u + min can leave the i64 range.

Theorem unpack_type_holds : forall t s bits,
  type_ok t = true -> 0 < spec_bit_size t -> bsr_holds s bits ->
  let w := N.to_nat (spec_bit_size t) in
  let n := (length bits / w)%nat in
  exists s', unpack_type t s = Ok (s', decode_bits_fuel (length bits) t w bits) /\
             bsr_holds s' (skipn (n * w) bits).
*)

Theorem unpack_type_holds_i64 : forall t s bits,
  type_ok t = true -> 0 < spec_bit_size t -> bsr_holds s bits ->
  let w := N.to_nat (spec_bit_size t) in
  let n := (length bits / w)%nat in
  Forall value_i64 (decode_bits_fuel (length bits) t w bits) ->
  exists s', unpack_type t s = Ok (s', decode_bits_fuel (length bits) t w bits) /\
             bsr_holds s' (skipn (n * w) bits).
Proof.
  intros t s bits Ht Hw0 Hh w n Hall.
  destruct (unpack_type_gen t s bits Ht Hw0 Hh) as (s' & vs & Hl & HF & Hh').
  exists s'. split; [|exact Hh'].
  rewrite Hl. do 2 f_equal.
  rewrite decode_group_nums in *. apply Forall_map in Hall. fold w in HF.
  clear - HF Hall. induction HF as [|u x us xs Hux HF IH]; [reflexivity|].
  inversion Hall; subst. cbn [map]. f_equal; auto.
Qed.

(** The counterexample above, checked by computation. *)
Example unpack_type_holds_counterexample :
  let t := TInteger (2 ^ 63 - 3) (2 ^ 63 - 1) in
  let s := mkBsr [3] 0 in
  let bits := bits_of_bytes [3] in
  type_ok t = true /\ spec_bit_size t = 2 /\ bsr_holds s bits /\
  (exists s', unpack_type t s = Ok (s', VInteger (- 2 ^ 63) :: repeat (VInteger (2 ^ 63 - 3)) 3)) /\
  decode_bits_fuel (length bits) t 2 bits = VInteger (2 ^ 63) :: repeat (VInteger (2 ^ 63 - 3)) 3.
Proof.
  cbv zeta. split; [vm_compute; reflexivity|]. split; [vm_compute; reflexivity|].
  split.
  - split; [repeat constructor|]. split; [vm_compute; discriminate|reflexivity].
  - split; [eexists; vm_compute; reflexivity|vm_compute; reflexivity].
Qed.

(** Type-level sufficient condition: every w-bit group stays in i64. *)
Definition type_fits (t : dtype) : Prop :=
  match t with
  | TScaled mn mx | TInteger mn mx => (mn + 2 ^ Z.of_N (spec_width mn mx) - 1 <= I64_MAX)%Z
  | _ => True
  end.

Theorem unpack_type_holds_fits : forall t s bits,
  type_ok t = true -> 0 < spec_bit_size t -> type_fits t -> bsr_holds s bits ->
  let w := N.to_nat (spec_bit_size t) in
  let n := (length bits / w)%nat in
  exists s', unpack_type t s = Ok (s', decode_bits_fuel (length bits) t w bits) /\
             bsr_holds s' (skipn (n * w) bits).
Proof.
  intros t s bits Ht Hw0 Hfit Hh w n.
  apply unpack_type_holds_i64; try assumption.
  rewrite decode_group_nums. apply Forall_map. fold w.
  pose proof (group_nums_lt (length bits) w bits) as Hlt.
  revert Hlt. apply Forall_impl. intros u Hu.
  subst w. rewrite N2Nat.id in Hu.
  destruct t as [| |mn mx|mn mx]; cbn [mk_value value_i64 spec_bit_size type_fits type_ok] in *;
    try exact I.
  all: apply type_ok_int in Ht as (H1 & H2 & H3); apply in_i64_bounds in H1;
    unfold in_i64, I64_MIN, I64_MAX in *;
    change (2 ^ 63)%Z with 9223372036854775808%Z in *;
    apply N2Z.inj_lt in Hu; rewrite N2Z.inj_pow in Hu; change (Z.of_N 2) with 2%Z in Hu; lia.
Qed.
