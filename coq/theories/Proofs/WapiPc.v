(** Writer API, part 2: the binary side of the point cloud writer on an
    arbitrary [ls_ok] stream.  The byte-exact theorems of Proofs/PcWriter*.v
    are stated on a stream whose cursor is at its end; here they are used on a
    ghost stream of that shape, and carried over to the real one because the
    flushes only write ([wpure]).  Two invariants: [pcw_live] (between
    [add_pointcloud] and the first [finalize]) and [pcw_done] (after it). *)
From E57 Require Import Base.Prelude Spec.PageSpec Model.PagedWriter Model.Prog Model.BsWrite Model.Record
  Model.PcWriter Model.FileBin Spec.BitSpec Spec.FormatSpec Model.WriterApi.
From E57 Require Import Proofs.PagedWriterLemmas Proofs.ProgTransfer Proofs.BitLemmas Proofs.BitWidthProofs
  Proofs.BitWriteProofs Proofs.PcWriterLemmas Proofs.PcWriterStreams Proofs.PcWriterPacket
  Proofs.PcWriterProofs Proofs.WapiProg.
From Coq Require Import ZifyN ZifyNat ZifyBool.
Ltac Zify.zify_post_hook ::= Z.div_mod_to_equations.
Open Scope N_scope.

(** * Values of the Rust types *)

Definition value_wf (v : rvalue) : Prop :=
  match v with VSingle b => b < 2 ^ 32 | VDouble b => b < 2 ^ 64 | _ => True end.

Lemma values_ok_point_ok : forall proto vs,
  values_ok proto vs = true -> Forall value_wf vs -> point_ok proto vs = true.
Proof.
  assert (G : forall proto vs, values_ok proto vs = true -> Forall value_wf vs ->
            length vs = length proto /\
            forallb (fun tv => in_range (fst tv) (snd tv)) (combine proto vs) = true).
  { induction proto as [|t pr IH]; intros [|v vr] H Hwf; cbn [values_ok] in H; try discriminate.
    - split; reflexivity.
    - apply andb_prop in H as [Hv Hr]. inversion Hwf as [|? ? Hv1 Hvr]; subst.
      destruct (IH vr Hr Hvr) as [Hl Hf]. split; [cbn [length]; congruence|].
      cbn [combine forallb fst snd]. rewrite Hf, andb_true_r.
      unfold in_range, stored. destruct t, v; try discriminate; cbn [value_wf] in Hv1.
      + destruct (bits <? 2 ^ 32) eqn:E; [reflexivity|lia].
      + destruct (bits <? 2 ^ 64) eqn:E; [reflexivity|lia].
      + rewrite Hv. reflexivity.
      + rewrite Hv. reflexivity. }
  intros proto vs H Hwf. destruct (G proto vs H Hwf) as [Hl Hf].
  unfold point_ok. rewrite Hf, andb_true_r. apply Nat.eqb_eq. exact Hl.
Qed.

(** * The flushes only write *)

Lemma wpure_wbtd last w : exists r, wpure (write_buffer_to_disk last w) = Some r.
Proof.
  rewrite wbtd_unfold, wpure_bind, wpure_wlift.
  destruct (write_points _ _ _ _) as [[buffer streams]|k|]; [|eauto|eauto].
  rewrite wpure_bind, wpure_wlift.
  destruct (stream_sizes last streams) as [sizes|k|]; [|eauto|eauto].
  unfold wbtd_tail. rewrite wpure_bind.
  destruct (0 <? fold_left N.add sizes 0).
  - cbv zeta. destruct (U16_MAX <? _).
    + cbn [wfail wpure]. eauto.
    + rewrite wpure_bind, wpure_wr, wpure_bind, wpure_wr_all, wpure_bind, wpure_wlift.
      destruct (drain_streams last streams) as [[s' datas]|k|]; [|eauto|eauto].
      rewrite wpure_bind, wpure_wr_all. cbn [wret wpure].
      rewrite wpure_bind, wpure_align. cbn [wret wpure]. eauto.
  - cbn [wret wpure]. rewrite wpure_bind, wpure_align. cbn [wret wpure]. eauto.
Qed.

Lemma wpure_add_point vs w : exists r, wpure (pcw_add_point vs w) = Some r.
Proof.
  unfold pcw_add_point. destruct (negb _); [cbn; eauto|]. cbv zeta.
  destruct (_ <=? _); [apply wpure_wbtd|cbn; eauto].
Qed.

Lemma wpure_drain : forall fuel w, exists r, wpure (drain_buffer fuel w) = Some r.
Proof.
  induction fuel as [|f IH]; intros w; cbn [drain_buffer]; [cbn; eauto|].
  destruct (w_buffer w); [cbn; eauto|].
  rewrite wpure_bind. destruct (wpure_wbtd false w) as [r Hr]. rewrite Hr.
  destruct r as [w'| |]; eauto.
Qed.

(** a flush ends with [align]: afterwards the cursor is 4-aligned *)
Lemma wbtd_aligned last w l w' : ls_pos l <= len (ls_data l) ->
  snd (wrun_spec (write_buffer_to_disk last w) l) = Ok w' ->
  ls_pos (fst (wrun_spec (write_buffer_to_disk last w) l)) mod 4 = 0.
Proof.
  intros Hl. rewrite wbtd_unfold, run_bind.
  assert (L : forall A (r : res A), wrun_spec (wlift r) l = (l, r)) by (intros A r; destruct r; reflexivity).
  rewrite L. cbn [fst snd].
  destruct (write_points _ _ _ _) as [[buffer streams]|k|]; cbn [snd]; try discriminate.
  rewrite run_bind, L. cbn [fst snd].
  destruct (stream_sizes last streams) as [sizes|k|]; cbn [snd]; try discriminate.
  unfold wbtd_tail. rewrite run_bind.
  set (inner := if 0 <? fold_left N.add sizes 0 then _ else _).
  assert (Hin : exists r, wpure inner = Some r).
  { subst inner. destruct (0 <? fold_left N.add sizes 0).
    - cbv zeta. destruct (U16_MAX <? _); [cbn; eauto|].
      rewrite wpure_bind, wpure_wr, wpure_bind, wpure_wr_all, wpure_bind, wpure_wlift.
      destruct (drain_streams last streams) as [[s' datas]|k|]; [|eauto|eauto].
      rewrite wpure_bind, wpure_wr_all. cbn; eauto.
    - cbn; eauto. }
  destruct Hin as [r Hr]. destruct (wpure_sound inner r l Hr Hl) as (H1 & H2 & _).
  rewrite H1. destruct r as [w1|k|]; cbn [snd]; try discriminate.
  rewrite run_bind, run_align_gen. cbn [fst snd]. intros _.
  apply (align_pos _ H2).
Qed.

(** * Invariant between [add_pointcloud] and the first [finalize] *)

Definition pcw_live (w : pcw) (l : lstream) : Prop :=
  exists mpp d0 pts lay d,
    get_max_packet_points (w_proto w) = Ok mpp /\
    forallb type_ok (w_proto w) = true /\
    winv (w_proto w) mpp d0 pts lay w d /\
    len (w_buffer w) < mpp /\
    len d0 <= len (ls_data l).

Lemma pcw_live_mono w l l' : pcw_live w l -> ls_le l l' -> pcw_live w l'.
Proof.
  intros (mpp & d0 & pts & lay & d & H1 & H2 & H3 & H4 & H5) Hle.
  exists mpp, d0, pts, lay, d. unfold ls_le in Hle.
  split; [exact H1|]. split; [exact H2|]. split; [exact H3|]. split; [exact H4|lia].
Qed.

Lemma pcw_live_points w l : pcw_live w l ->
  exists pts : list (list rvalue), w_point_count w = len pts + len (w_buffer w) /\
              Forall (fun p => point_ok (w_proto w) p = true) (w_buffer w).
Proof.
  intros (mpp & d0 & pts & lay & d & _ & _ & Hinv & _). exists pts.
  split; [apply (wi_cnt _ _ _ _ _ _ _ Hinv)|apply (wi_buf _ _ _ _ _ _ _ Hinv)].
Qed.

Lemma len_zeros_mod4 q : q mod 4 = 0 -> len (zeros q) mod 4 = 0.
Proof. rewrite len_zeros. auto. Qed.

Lemma pcw_new_live proto mpp l :
  get_max_packet_points proto = Ok mpp -> forallb type_ok proto = true -> ls_ok l ->
  exists l' w, wrun_spec (pcw_new proto) l = (l', Ok w) /\ pcw_live w l' /\ ls_ok l' /\ ls_le l l' /\
    w_proto w = proto /\ w_buffer w = [] /\ w_point_count w = 0.
Proof.
  intros Hmpp Hty [Hl Ha].
  set (q := ls_pos l).
  destruct (pcw_new_run proto mpp (zeros q) Hmpp (len_zeros_mod4 q Ha)) as (wg & Hrun & Hinv & Hb).
  (* the ghost run, computed *)
  unfold pcw_new in Hrun. rewrite Hmpp in Hrun.
  rewrite (run_bind_ok _ _ _ _ _ (run_lift_ok _ _)) in Hrun.
  rewrite (run_bind_ok _ _ _ _ _ (run_w_position_end _)) in Hrun.
  rewrite (run_bind_ok _ _ _ _ _ (run_wr _ _)) in Hrun.
  rewrite (run_bind_ok _ _ _ _ _ (run_w_position_end _)) in Hrun.
  cbn [wret wrun_spec] in Hrun. apply (f_equal snd) in Hrun. cbn [snd] in Hrun. injection Hrun as Hwg.
  (* the real run *)
  unfold pcw_new. rewrite Hmpp.
  rewrite run_bind. cbn [wlift wrun_spec fst snd].
  rewrite run_bind, run_position. cbn [fst snd].
  rewrite run_bind, run_wr_gen. cbn [fst snd].
  rewrite run_bind, run_position. cbn [fst snd].
  cbn [wret wrun_spec].
  set (l1 := ls_write l (cv_header_bytes 32 0 0)).
  assert (Hp1 : ls_pos l1 = q + 32) by (subst l1; rewrite ls_write_pos, len_cv_header; reflexivity).
  exists l1. eexists. split; [reflexivity|].
  assert (Heq : mkPcw proto (phys_of_log (ls_pos l)) 32 (phys_of_log (ls_pos l1)) 0 [] mpp
                  (map (fun _ => bsw_new) proto) = wg).
  { rewrite <- Hwg. rewrite Hp1. rewrite pc_len_app, len_cv_header, pc_len_zeros. reflexivity. }
  rewrite Heq.
  assert (Hproto : w_proto wg = proto) by (apply (wi_proto _ _ _ _ _ _ _ Hinv)).
  split; [|split; [|split; [|split; [exact Hproto|split; [exact Hb|]]]]].
  - exists mpp, (zeros q), [], [], (zeros q ++ cv_header_bytes 32 0 0).
    rewrite Hproto. split; [exact Hmpp|]. split; [exact Hty|]. split; [exact Hinv|].
    split; [rewrite Hb, pc_len_nil; pose proof (packet_capacity proto mpp Hmpp) as (Hc & _); lia|].
    rewrite pc_len_zeros. pose proof (ls_write_len l (cv_header_bytes 32 0 0)). fold l1 in H. subst q. lia.
  - split; [apply ls_write_pos_le; exact Hl|]. rewrite Hp1. subst q. lia.
  - unfold ls_le. apply ls_write_len.
  - rewrite <- Hwg. reflexivity.
Qed.

Lemma add_point_live vs w l :
  pcw_live w l -> ls_ok l -> values_ok (w_proto w) vs = true -> Forall value_wf vs ->
  exists l' w', wrun_spec (pcw_add_point vs w) l = (l', Ok w') /\ pcw_live w' l' /\ ls_ok l' /\ ls_le l l' /\
    w_proto w' = w_proto w /\ w_section_offset w' = w_section_offset w /\
    w_point_count w' = w_point_count w + 1.
Proof.
  intros (mpp & d0 & pts & lay & d & Hmpp & Hty & Hinv & Hlen & Hd0) [Hl Ha] Hok Hwf.
  pose proof (values_ok_point_ok _ _ Hok Hwf) as Hp.
  destruct (add_point_run (w_proto w) mpp d0 pts lay w d vs Hty Hmpp Hinv Hlen Hp)
    as (pts' & lay' & w' & d' & Hrun & Hinv' & Hlen' & Heq).
  destruct (wpure_add_point vs w) as [r Hr].
  destruct (wpure_sound _ r (lend d) Hr) as (G1 & _); [unfold lend; cbn [ls_pos ls_data]; lia|].
  rewrite Hrun in G1. cbn [snd] in G1. subst r.
  destruct (wpure_sound _ _ l Hr Hl) as (R1 & R2 & R3).
  destruct (wrun_spec (pcw_add_point vs w) l) as [l' r'] eqn:Erun. cbn [fst snd] in *. subst r'.
  exists l', w'. split; [reflexivity|].
  assert (Hproto' : w_proto w' = w_proto w).
  { rewrite (wi_proto _ _ _ _ _ _ _ Hinv'). reflexivity. }
  assert (Hso' : w_section_offset w' = w_section_offset w).
  { rewrite (wi_so _ _ _ _ _ _ _ Hinv'), (wi_so _ _ _ _ _ _ _ Hinv). reflexivity. }
  split; [|split; [|split; [exact R3|split; [exact Hproto'|split; [exact Hso'|]]]]].
  - exists mpp, d0, pts', lay', d'. rewrite Hproto'. unfold ls_le in R3.
    split; [exact Hmpp|]. split; [exact Hty|]. split; [exact Hinv'|]. split; [exact Hlen'|lia].
  - split; [exact R2|].
    (* alignment: either nothing was written or the flush ended with align *)
    unfold pcw_add_point in Erun. rewrite Hok in Erun. cbn [negb] in Erun. cbv zeta in Erun.
    match type of Erun with wrun_spec (if ?c then _ else _) _ = _ => destruct c end.
    + match type of Erun with wrun_spec (write_buffer_to_disk false ?w1) _ = _ =>
        pose proof (wbtd_aligned false w1 l w' Hl) as Hal end.
      rewrite Erun in Hal. cbn [fst snd] in Hal. apply Hal. reflexivity.
    + cbn [wret wrun_spec] in Erun. inversion Erun. subst. exact Ha.
  - rewrite (wi_cnt _ _ _ _ _ _ _ Hinv'), (wi_cnt _ _ _ _ _ _ _ Hinv).
    rewrite <- !pc_len_app, Heq, !pc_len_app, pc_len_cons, pc_len_nil. lia.
Qed.

(** * Invariant after [finalize] *)

Definition pcw_done (w : pcw) (l : lstream) : Prop :=
  w_buffer w = [] /\
  length (w_streams w) = length (w_proto w) /\
  (forall i, (i < length (w_proto w))%nat -> bsw_holds (nth i (w_streams w) bsw_new) []) /\
  (exists q, w_section_offset w = phys_of_log q /\ q <= len (ls_data l)).

Lemma pcw_done_mono w l l' : pcw_done w l -> ls_le l l' -> pcw_done w l'.
Proof.
  intros (H1 & H2 & H3 & q & H4 & H5) Hle. unfold ls_le in Hle.
  split; [exact H1|]. split; [exact H2|]. split; [exact H3|]. exists q. split; [exact H4|lia].
Qed.

(** the tail of [pcw_finalize] after the two flushes: rewrite the section header *)
Lemma finalize_tail_run (w2 : pcw) l q :
  ls_ok l -> w_section_offset w2 = phys_of_log q -> q <= len (ls_data l) ->
  exists l',
    wrun_spec (end_offset <- wrelabel EWrite w_position ;;
               wrelabel EWrite (w_seek (w_section_offset w2)) ;;;
               wr (cv_header_bytes (w_section_length w2) (w_data_offset w2) 0) ;;;
               wrelabel EWrite (w_seek end_offset) ;;;
               wret (w2, w_section_offset w2, w_point_count w2))%wprog l
    = (l', Ok (w2, w_section_offset w2, w_point_count w2)) /\ ls_ok l' /\ ls_le l l'.
Proof.
  intros [Hl Ha] Hso Hq.
  rewrite run_bind.
  change (wrun_spec (wrelabel EWrite w_position) l) with (l, @Ok N (phys_of_log (ls_pos l))). cbn [fst snd].
  rewrite run_bind, Hso.
  assert (S1 : wrun_spec (wrelabel EWrite (w_seek (phys_of_log q))) l = (mkLs (ls_data l) q, Ok tt)).
  { rewrite wrun_spec_relabel, (run_seek_gen l q Hq). reflexivity. }
  rewrite S1. cbn [fst snd].
  rewrite run_bind, run_wr_gen. cbn [fst snd].
  set (l1 := ls_write (mkLs (ls_data l) q) _).
  assert (L1 : len (ls_data l) <= len (ls_data l1)) by apply (ls_write_len (mkLs (ls_data l) q)).
  rewrite run_bind.
  assert (S2 : wrun_spec (wrelabel EWrite (w_seek (phys_of_log (ls_pos l)))) l1
               = (mkLs (ls_data l1) (ls_pos l), Ok tt)).
  { rewrite wrun_spec_relabel, (run_seek_gen l1 (ls_pos l)) by lia. reflexivity. }
  rewrite S2. cbn [fst snd wret wrun_spec].
  eexists. split; [reflexivity|]. split; [split; cbn [ls_pos ls_data]; [lia|exact Ha]|].
  unfold ls_le. cbn [ls_data]. exact L1.
Qed.

Lemma bsw_holds_nil_all b : bsw_holds b [] -> bsw_all_bytes b = 0.
Proof. intros H. rewrite (all_bytes_holds _ _ H). reflexivity. Qed.

Lemma finalize_live w l :
  pcw_live w l -> ls_ok l ->
  exists l' w2, wrun_spec (pcw_finalize w) l = (l', Ok (w2, w_section_offset w, w_point_count w)) /\
    pcw_done w2 l' /\ ls_ok l' /\ ls_le l l' /\ w_proto w2 = w_proto w /\
    w_section_offset w2 = w_section_offset w /\ w_point_count w2 = w_point_count w /\
    w_max_ppp w2 = w_max_ppp w.
Proof.
  intros (mpp & d0 & pts & lay & d & Hmpp & Hty & Hinv & Hlen & Hd0) Hok.
  pose proof Hok as [Hl Ha].
  (* ghost: drain, then the last flush through flush_core *)
  destruct (drain_buffer_run (w_proto w) mpp d0 pts lay w d Hty Hmpp Hinv) as
    (lay1 & w1 & d1 & Hrun1 & Hinv1 & Hb1); [lia|].
  pose proof Hinv1 as [Hproto1 Hwmpp1 Hso1 Hdo1 Hsl1 Hcnt1 Hd1 Hal1 Hpk1 Hbuf1 Hls1 (E & P & Hs1)].
  assert (Hk : if true then 0 = 0 else 0 <= mpp) by reflexivity.
  destruct (flush_core true (w_proto w) mpp w1 d1 (pts ++ w_buffer w) lay1 0 E P [] (w_streams w1)
              Hmpp Hproto1 Hal1 Hls1 Hs1 Hk)
    as (sizes & pk & s2 & Hsz & Hrun2 & Hpk' & Hal' & Hl2 & Hpost).
  assert (Hrun2' : wrun_spec (write_buffer_to_disk true w1) (lend d1) =
                   (lend (d1 ++ section_body pk),
                    Ok (mkPcw (w_proto w1) (w_section_offset w1) (w_section_length w1 + len (section_body pk))
                              (w_data_offset w1) (w_point_count w1) [] (w_max_ppp w1) s2))).
  { rewrite (wbtd_run true w1 _ [] (w_streams w1) sizes); [exact Hrun2| |exact Hsz].
    rewrite Hb1. change (len (@nil (list rvalue))) with 0. rewrite N.min_0_r. reflexivity. }
  set (w2 := mkPcw (w_proto w1) (w_section_offset w1) (w_section_length w1 + len (section_body pk))
                   (w_data_offset w1) (w_point_count w1) [] (w_max_ppp w1) s2) in *.
  (* real run: both flushes only write *)
  destruct (wpure_drain (S (length (w_buffer w))) w) as [r1 Hr1].
  destruct (wpure_sound _ r1 (lend d) Hr1) as (G1 & _); [unfold lend; cbn [ls_pos ls_data]; lia|].
  rewrite Hrun1 in G1. cbn [snd] in G1. subst r1.
  destruct (wpure_sound _ _ l Hr1 Hl) as (R1 & R2 & R3).
  destruct (wpure_wbtd true w1) as [r2 Hr2].
  destruct (wpure_sound _ r2 (lend d1) Hr2) as (G2 & _); [unfold lend; cbn [ls_pos ls_data]; lia|].
  rewrite Hrun2' in G2. cbn [snd] in G2. subst r2.
  set (la := fst (wrun_spec (drain_buffer (S (length (w_buffer w))) w) l)) in *.
  destruct (wpure_sound _ _ la Hr2 R2) as (T1 & T2 & T3).
  set (lb := fst (wrun_spec (write_buffer_to_disk true w1) la)) in *.
  assert (Hbal : ls_pos lb mod 4 = 0) by (apply (wbtd_aligned true w1 la w2 R2 T1)).
  assert (Hso2 : w_section_offset w2 = phys_of_log (len d0)) by exact Hso1.
  assert (Hq : len d0 <= len (ls_data lb)) by (unfold ls_le in R3, T3; lia).
  destruct (finalize_tail_run w2 lb (len d0) (conj T2 Hbal) Hso2 Hq) as (l' & Htail & Hok' & Hle').
  exists l', w2. split; [|split; [|split; [exact Hok'|split; [|split; [|split; [|split]]]]]].
  - unfold pcw_finalize. rewrite run_bind. fold la. rewrite R1.
    rewrite run_bind. fold lb. rewrite T1.
    rewrite Htail. f_equal. f_equal. f_equal; [f_equal|].
    + exact (eq_trans Hso1 (eq_sym (wi_so _ _ _ _ _ _ _ Hinv))).
    + subst w2. cbn [w_point_count]. rewrite Hcnt1, Hb1, pc_len_nil, (wi_cnt _ _ _ _ _ _ _ Hinv), pc_len_app. lia.
  - split; [reflexivity|]. split; [subst w2; cbn [w_streams w_proto]; rewrite Hproto1; exact Hl2|].
    split.
    + intros i Hi. subst w2. cbn [w_streams w_proto] in *. rewrite Hproto1 in Hi.
      destruct (Hpost i Hi) as (Hh & _). rewrite rest_true in Hh. exact Hh.
    + exists (len d0). split; [exact Hso2|]. unfold ls_le in Hle'. lia.
  - eapply ls_le_trans; [exact R3|]. eapply ls_le_trans; [exact T3|exact Hle'].
  - subst w2. cbn [w_proto]. exact Hproto1.
  - rewrite Hso2. symmetry. apply (wi_so _ _ _ _ _ _ _ Hinv).
  - subst w2. cbn [w_point_count]. rewrite Hcnt1, Hb1, pc_len_nil, (wi_cnt _ _ _ _ _ _ _ Hinv), pc_len_app. lia.
  - subst w2. cbn [w_max_ppp]. rewrite Hwmpp1. symmetry. apply (wi_mpp _ _ _ _ _ _ _ Hinv).
Qed.

(** a second [finalize]: nothing is left to write, the header is rewritten with the same contents *)
Lemma stream_sizes_done : forall streams,
  (forall i, (i < length streams)%nat -> bsw_holds (nth i streams bsw_new) []) ->
  exists sizes, stream_sizes true streams = Ok sizes /\ fold_left N.add sizes 0 = 0.
Proof.
  induction streams as [|s r IH]; intros H.
  - exists []. split; reflexivity.
  - destruct IH as (sz & Hsz & Hsum); [intros i Hi; apply (H (S i)); cbn [length]; lia|].
    exists (0 :: sz). cbn [stream_sizes]. rewrite Hsz.
    rewrite (bsw_holds_nil_all s) by (apply (H 0%nat); cbn [length]; lia).
    split; [reflexivity|]. cbn [fold_left]. exact Hsum.
Qed.

Lemma finalize_done w l :
  pcw_done w l -> ls_ok l ->
  exists l', wrun_spec (pcw_finalize w) l = (l', Ok (w, w_section_offset w, w_point_count w)) /\
    pcw_done w l' /\ ls_ok l' /\ ls_le l l'.
Proof.
  intros (Hb & Hls & Hh & q & Hso & Hq) Hok. pose proof Hok as [Hl Ha].
  destruct (stream_sizes_done (w_streams w)) as (sizes & Hsz & Hsum); [rewrite Hls; exact Hh|].
  assert (Hflush : wrun_spec (write_buffer_to_disk true w) l = (l, Ok w)).
  { rewrite wbtd_unfold. rewrite Hb. change (len (@nil (list rvalue))) with 0. rewrite N.min_0_r.
    change (N.to_nat 0) with 0%nat. cbn [write_points wlift]. rewrite run_bind. cbn [wrun_spec fst snd].
    rewrite Hsz. cbn [wlift]. rewrite run_bind. cbn [wrun_spec fst snd].
    unfold wbtd_tail. rewrite Hsum. change (0 <? 0) with false. cbv iota.
    rewrite run_bind. cbn [wret wrun_spec fst snd].
    rewrite run_bind, run_align_gen. cbn [fst snd ls_step].
    replace ((4 - ls_pos l mod 4) mod 4) with 0 by lia.
    change (zeros 0) with (@nil N). cbn [ls_write wret wrun_spec].
    destruct w; cbn in *. subst. reflexivity. }
  destruct (finalize_tail_run w l q Hok Hso Hq) as (l' & Htail & Hok' & Hle').
  exists l'. split; [|split; [|split; [exact Hok'|exact Hle']]].
  - unfold pcw_finalize. rewrite Hb. cbn [length drain_buffer]. rewrite Hb.
    rewrite run_bind. cbn [wret wrun_spec fst snd].
    rewrite run_bind, Hflush. cbn [fst snd]. exact Htail.
  - apply (pcw_done_mono w l l'); [|exact Hle'].
    split; [exact Hb|]. split; [exact Hls|]. split; [exact Hh|]. exists q. auto.
Qed.
