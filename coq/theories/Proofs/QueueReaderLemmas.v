(** Generic lemmas for the section reader proofs: byte lists, little-endian
    numbers, the logical reader as a cursor over a suffix of the stream, the
    monad law of [rrun_spec] over [rbind]. *)
From E57 Require Import Base.Prelude Spec.PageSpec Model.PagedReader Model.Prog Model.BsRead
  Model.Record Model.QueueReader Spec.BitSpec Spec.FormatSpec.
From E57 Require Import Proofs.BitLemmas.
From Coq Require Import ZifyN ZifyNat ZifyBool.
Ltac Zify.zify_post_hook ::= Z.div_mod_to_equations.
Open Scope N_scope.

(** * Lists *)

Lemma qlen_nil {A} : len (@nil A) = 0.
Proof. reflexivity. Qed.

Lemma qlen_cons {A} (x : A) l : len (x :: l) = 1 + len l.
Proof. unfold len. cbn [length]. lia. Qed.

Lemma qlen_app {A} (a b : list A) : len (a ++ b) = len a + len b.
Proof. unfold len. rewrite app_length. lia. Qed.

Lemma qlen_zeros n : len (zeros n) = n.
Proof. unfold len, zeros. rewrite repeat_length. lia. Qed.

Lemma qlen_0_nil {A} (l : list A) : len l = 0 -> l = [].
Proof. destruct l; [reflexivity|]. rewrite qlen_cons. lia. Qed.

Lemma qlen_map {A B} (f : A -> B) l : len (map f l) = len l.
Proof. unfold len. rewrite map_length. reflexivity. Qed.

Lemma qlen_repeat {A} (x : A) n : len (repeat x n) = N.of_nat n.
Proof. unfold len. rewrite repeat_length. reflexivity. Qed.

Lemma qlen_le_bytes n v : len (le_bytes n v) = N.of_nat n.
Proof. unfold len. rewrite le_bytes_length. reflexivity. Qed.

Lemma zeros_add a b : zeros (a + b) = zeros a ++ zeros b.
Proof. unfold zeros. rewrite N2Nat.inj_add. apply repeat_app. Qed.

Lemma take_app_exact {A} n (a b : list A) : len a = n -> take n (a ++ b) = a.
Proof. intros H. unfold take. apply firstn_app_exact. unfold len in H. lia. Qed.

Lemma drop_app_exact {A} n (a b : list A) : len a = n -> drop n (a ++ b) = b.
Proof. intros H. unfold drop. apply skipn_app_exact. unfold len in H. lia. Qed.

Lemma drop_drop_ {A} a b (l : list A) : drop b (drop a l) = drop (a + b) l.
Proof. unfold drop. rewrite skipn_skipn_. f_equal. lia. Qed.

Lemma qlen_drop {A} n (l : list A) : len (drop n l) = len l - n.
Proof. unfold len, drop. rewrite skipn_length. lia. Qed.

Lemma drop_0_ {A} (l : list A) : drop 0 l = l.
Proof. reflexivity. Qed.

Lemma qlen_concat_le {A} (l : list (list A)) x : In x l -> len x <= len (concat l).
Proof.
  induction l as [|y r IH]; intros H; [destruct H|].
  cbn [concat]. rewrite qlen_app. destruct H as [->|H]; [lia|]. specialize (IH H). lia.
Qed.

(** * Little-endian numbers *)

Lemma le_num_le_bytes_mod : forall n v, le_num (le_bytes n v) = v mod 256 ^ N.of_nat n.
Proof.
  induction n; intros v.
  - cbn [le_bytes le_num]. change (256 ^ N.of_nat 0) with 1. rewrite N.mod_1_r. reflexivity.
  - cbn [le_bytes le_num]. rewrite IHn, Nat2N.inj_succ, N.pow_succ_r'.
    rewrite N.mod_mul_r by (try apply N.pow_nonzero; lia). reflexivity.
Qed.

Lemma le_num_le_bytes n v : v < 256 ^ N.of_nat n -> le_num (le_bytes n v) = v.
Proof. intros H. rewrite le_num_le_bytes_mod. apply N.mod_small. exact H. Qed.

Lemma le_num_le_bytes2 v : v < 65536 -> le_num (le_bytes 2 v) = v.
Proof. intros H. apply le_num_le_bytes. exact H. Qed.

Lemma le_num_le_bytes8 v : v < 2 ^ 64 -> le_num (le_bytes 8 v) = v.
Proof. intros H. apply le_num_le_bytes. exact H. Qed.

(** * [Forall3] *)

Inductive Forall3 {A B C} (R : A -> B -> C -> Prop) : list A -> list B -> list C -> Prop :=
| Forall3_nil : Forall3 R [] [] []
| Forall3_cons a b c la lb lc : R a b c -> Forall3 R la lb lc -> Forall3 R (a :: la) (b :: lb) (c :: lc).

Lemma Forall3_nth {A B C} (R : A -> B -> C -> Prop) da db dc : forall n la lb lc,
  length la = n -> length lb = n -> length lc = n ->
  (forall i, (i < n)%nat -> R (nth i la da) (nth i lb db) (nth i lc dc)) ->
  Forall3 R la lb lc.
Proof.
  induction n; intros la lb lc Ha Hb Hc H.
  - destruct la, lb, lc; try discriminate. constructor.
  - destruct la as [|a la], lb as [|b lb], lc as [|c lc]; try discriminate.
    constructor.
    + apply (H 0%nat). lia.
    + apply IHn; try (cbn [length] in *; lia).
      intros i Hi. apply (H (S i)). lia.
Qed.

Lemma Forall2_nth_ {A B} (R : A -> B -> Prop) da db : forall n la lb,
  length la = n -> length lb = n ->
  (forall i, (i < n)%nat -> R (nth i la da) (nth i lb db)) ->
  Forall2 R la lb.
Proof.
  induction n; intros la lb Ha Hb H.
  - destruct la, lb; try discriminate. constructor.
  - destruct la as [|a la], lb as [|b lb]; try discriminate.
    constructor.
    + apply (H 0%nat). lia.
    + apply IHn; try (cbn [length] in *; lia).
      intros i Hi. apply (H (S i)). lia.
Qed.

Lemma Forall_nth_ {A} (P : A -> Prop) d : forall l,
  (forall i, (i < length l)%nat -> P (nth i l d)) -> Forall P l.
Proof.
  induction l as [|a l IH]; intros H; constructor.
  - apply (H 0%nat). cbn [length]. lia.
  - apply IH. intros i Hi. apply (H (S i)). cbn [length]. lia.
Qed.

Lemma map_seq_nth {A} (l : list A) d : map (fun i => nth i l d) (seq 0 (length l)) = l.
Proof.
  apply (nth_ext _ _ d d).
  - rewrite map_length, seq_length. reflexivity.
  - intros i Hi. rewrite map_length, seq_length in Hi. rewrite nth_map_seq.
    destruct (i <? length l)%nat eqn:E; [reflexivity|lia].
Qed.

(** * The monad law *)

Lemma qr_rrun_spec_bind {A B} (log : list N) (p : rprog A) (f : A -> rprog B) : forall off,
  rrun_spec log (rbind p f) off =
  let '(off1, r) := rrun_spec log p off in
  match r with
  | Ok a => rrun_spec log (f a) off1
  | Err k => (off1, Err k)
  | Panic => (off1, Panic)
  end.
Proof.
  induction p as [a|k| |o k IH]; intros off; cbn [rbind rrun_spec]; try reflexivity.
  destruct (lr_step log o off) as [off1 r]. apply IH.
Qed.

(** [p] started at [off] succeeds with [a] and ends at [off']. *)
Definition runs {A} (log : list N) (p : rprog A) (off off' : N) (a : A) : Prop :=
  rrun_spec log p off = (off', Ok a).

Lemma runs_bind {A B} log (p : rprog A) (f : A -> rprog B) off off1 off2 a b :
  runs log p off off1 a -> runs log (f a) off1 off2 b -> runs log (rbind p f) off off2 b.
Proof. unfold runs. intros H1 H2. rewrite qr_rrun_spec_bind, H1. exact H2. Qed.

Lemma runs_ret {A} log (a : A) off : runs log (RRet a) off off a.
Proof. reflexivity. Qed.

Lemma runs_rlift {A} log (r : res A) a off : r = Ok a -> runs log (rlift r) off off a.
Proof. intros ->. reflexivity. Qed.

(** * The cursor: the unread suffix of the logical stream *)

Definition cur (log : list N) (off : N) (rest : list N) : Prop :=
  off <= len log /\ drop off log = rest.

Lemma cur_len log off rest : cur log off rest -> off + len rest = len log.
Proof. intros [H1 H2]. rewrite <- H2, qlen_drop. lia. Qed.

Lemma cur_app (a b : list N) : cur (a ++ b) (len a) b.
Proof. split; [rewrite qlen_app; lia|]. apply drop_app_exact. reflexivity. Qed.

Lemma cur_skip log off a rest : cur log off (a ++ rest) -> cur log (off + len a) rest.
Proof.
  intros H. pose proof (cur_len _ _ _ H) as HL. rewrite qlen_app in HL.
  destruct H as [H1 H2]. split; [lia|].
  rewrite <- drop_drop_, H2. apply drop_app_exact. reflexivity.
Qed.

Lemma rd_runs log off bs rest n : cur log off (bs ++ rest) -> len bs = n ->
  runs log (rd n) off (off + n) bs /\ cur log (off + n) rest.
Proof.
  intros H Hn. subst n. split; [|apply cur_skip; exact H].
  pose proof (cur_len _ _ _ H) as HL. rewrite qlen_app in HL. destruct H as [H1 H2].
  unfold runs, rd, r_read_exact. cbn [rrun_spec lr_step].
  destruct (len bs =? 0) eqn:E0.
  - apply N.eqb_eq in E0. rewrite (qlen_0_nil _ E0), qlen_nil, N.add_0_r. reflexivity.
  - destruct (off + len bs <=? len log) eqn:E1; [|lia].
    unfold slice. rewrite H2, take_app_exact by reflexivity. reflexivity.
Qed.

(** * Seeking and aligning *)

Lemma log_of_phys_of_log_ x : log_of_phys (phys_of_log x) = x.
Proof. unfold log_of_phys, phys_of_log, PAGE_SZ, PAYLOAD_SZ. lia. Qed.

Lemma phys_of_log_mono x y : x <= y -> phys_of_log x <= phys_of_log y.
Proof. unfold phys_of_log, PAYLOAD_SZ. lia. Qed.

Lemma seek_runs log x off : len log mod 1020 = 0 -> x < len log ->
  runs log (r_seek (phys_of_log x)) off x tt.
Proof.
  intros Hm Hx. unfold runs, r_seek. cbn [rrun_spec lr_step].
  rewrite log_of_phys_of_log_.
  destruct (len log / PAYLOAD_SZ * PAGE_SZ <=? phys_of_log x) eqn:E; [|reflexivity].
  exfalso. unfold phys_of_log, PAYLOAD_SZ, PAGE_SZ in *. lia.
Qed.

Definition padn (n : N) : N := (4 - n mod 4) mod 4.

Lemma align_runs log off rest : cur log off (zeros (padn off) ++ rest) ->
  runs log r_align off (off + padn off) tt /\ cur log (off + padn off) rest.
Proof.
  intros H. pose proof (cur_len _ _ _ H) as HL. rewrite qlen_app, qlen_zeros in HL.
  split.
  - unfold runs, r_align. cbn [rrun_spec lr_step]. unfold padn in *.
    destruct (off mod 4 =? 0) eqn:E0.
    + replace ((4 - off mod 4) mod 4) with 0 by lia. rewrite N.add_0_r. reflexivity.
    + destruct (len log <? off + (4 - off mod 4)) eqn:E1; [lia|].
      replace ((4 - off mod 4) mod 4) with (4 - off mod 4) by lia. reflexivity.
  - apply cur_skip in H. rewrite qlen_zeros in H. exact H.
Qed.
