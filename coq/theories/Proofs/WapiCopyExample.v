(** Non-vacuity of Proofs/WapiAccept.v and Proofs/WapiCopy.v: a decidable
    form of "acceptable" ([accb], sound for [aacc]), a concrete program without
    images (an extension, two point clouds, a free-standing blob, texts with
    XML-reserved characters) that satisfies every hypothesis of
    [api_accepts] and [copy_idempotent], and the conclusions checked once
    more by evaluation: every call of the program and of its copy returns Ok,
    the copy's metadata equals the original's up to file offsets, and the calls
    issued from the copy are the calls of the copy. *)
From Coq Require Import ZArith Lia Bool.
From E57 Require Import Base.Prelude Base.Floats Model.Device Model.PagedWriter Spec.PageSpec Model.Prog Model.Record
  Model.PcWriter Model.FileBin Model.Meta Model.MetaFile Model.XmlGen Spec.XeMetaOk Model.WriterApi Model.WriterFull.
From E57 Require Import Proofs.PagedWriterProofs Proofs.ProgTransfer Proofs.WapiProg Proofs.WapiPc Proofs.WapiRules Proofs.WapiInv Proofs.WapiMain
  Proofs.WapiFullProg Proofs.WapiFullExample Proofs.WapiAccept Proofs.WapiCopy.
Open Scope N_scope.

(** * "acceptable", decidably *)
Definition accb (a : astate) (c : wcall) : bool :=
  match c with
  | NewWriter g => match g with [] => false | _ => true end
  | RegisterExtension ns url =>
      is_ok (validate_name ns) && is_ok (validate_name_start ns) && is_ok (validate_url url) &&
      negb (ext_registered (a_exts a) ns) && negb (url_registered (a_exts a) url)
  | AddBlob _ | AddImage _ | Finalize => negb (a_fin a)
  | AddPointcloud _ proto =>
      negb (a_fin a) && is_ok (validate_prototype proto) && is_ok (ext_validate_prototype proto (a_exts a)) &&
      is_ok (get_max_packet_points (proto_dtypes proto))
  | PcAddPoint vs =>
      match a_sub a with APc p => negb (ap_fin p) && values_ok (proto_dtypes (ap_proto p)) vs | _ => true end
  | PcFinalize =>
      match a_sub a with
      | APc p => negb (ap_fin p) && custom_limits_ok (ap_cil p) (ap_ccl p) (ap_desc p)
      | _ => true
      end
  | ImAddVisualReference _ _ _ _ _ => match a_sub a with AIm im fin g => negb fin | _ => true end
  | ImAddPinhole _ _ _ _ | ImAddSpherical _ _ _ _ | ImAddCylindrical _ _ _ _ =>
      match a_sub a with
      | AIm im fin g => negb fin && match im_projection im with None => true | Some _ => false end
      | _ => true
      end
  | ImFinalize =>
      match a_sub a with
      | AIm im fin g => negb fin && (match im_visual_reference im with Some _ => true | None => false end ||
                                     match im_projection im with Some _ => true | None => false end)
      | _ => true
      end
  | _ => true
  end.
Fixpoint accb_calls (lv : xstring) (a : astate) (calls : list wcall) : bool :=
  match calls with [] => true | c :: r => accb a c && accb_calls lv (astep lv a c) r end.

Lemma is_ok_unit (r : res unit) : is_ok r = true -> r = Ok tt.
Proof. destruct r as [[]|k|]; [reflexivity|discriminate|discriminate]. Qed.

Lemma accb_sound a c : accb a c = true -> aacc a c.
Proof.
  destruct c; cbn [accb aacc]; intros H; try exact I; try (destruct (a_fin a); [discriminate|reflexivity]).
  - destruct guid; [discriminate|discriminate].
  - repeat (apply andb_prop in H as [H ?]). apply is_ok_unit in H.
    match goal with H3 : is_ok (validate_url url) = true |- _ => apply is_ok_unit in H3; rename H3 into Hu end.
    match goal with H2 : is_ok (validate_name_start ns) = true |- _ => apply is_ok_unit in H2; rename H2 into Hs end.
    split; [apply validate_name_ok; exact H|]. split; [apply validate_name_start_ok; exact Hs|].
    unfold validate_url in Hu.
    destruct (xs_eqb url URL_XML) eqn:X1; [discriminate|]. destruct (xs_eqb url URL_XMLNS) eqn:X2; [discriminate|].
    cbn [orb] in Hu. destruct url as [|u0 ur]; [discriminate|].
    destruct (xs_eqb (u0 :: ur) URL_E57) eqn:X3; [discriminate|].
    split; [intros Hq; rewrite Hq, (proj2 (xs_eqb_eq URL_XML URL_XML) eq_refl) in X1; discriminate|].
    split; [intros Hq; rewrite Hq, (proj2 (xs_eqb_eq URL_XMLNS URL_XMLNS) eq_refl) in X2; discriminate|].
    split; [discriminate|].
    split; [intros Hq; rewrite Hq, (proj2 (xs_eqb_eq URL_E57 URL_E57) eq_refl) in X3; discriminate|].
    split; [apply ext_registered_false|apply url_registered_false];
      match goal with H0 : negb ?x = true |- ?x = false => destruct x; [discriminate|reflexivity] end.
  - repeat (apply andb_prop in H as [H ?]).
    match goal with H1 : is_ok (validate_prototype proto) = true |- _ => apply is_ok_unit in H1; rename H1 into Hv end.
    match goal with H1 : is_ok (ext_validate_prototype proto _) = true |- _ => apply is_ok_unit in H1; rename H1 into He end.
    match goal with H1 : is_ok (get_max_packet_points _) = true |- _ => rename H1 into Hm end.
    split; [destruct (a_fin a); [discriminate|reflexivity]|].
    destruct (get_max_packet_points (proto_dtypes proto)) as [mpp|k|] eqn:Em; try discriminate.
    pose proof (validate_prototype_ok proto Hv) as R. unfold rules_part in R.
    destruct R as (R1 & R2 & R3 & R4 & R5 & R6 & R7 & R8 & R9 & R10 & R11 & R12 & R13 & R14 & R15 & R16 & R17 & R18 & _ & R19).
    split; [|apply packet_margin_iff; eauto].
    unfold representable_prototype. repeat (split; [assumption|]).
    split; [apply (ext_validate_prototype_ok proto _ He)|split; [apply (capacity_fits proto mpp Em)|exact R19]].
  - destruct (a_sub a) as [|p|]; try exact I. apply andb_prop in H as [H1 H2].
    split; [destruct (ap_fin p); [discriminate|reflexivity]|apply values_ok_representable; exact H2].
  - destruct (a_sub a) as [|p|]; try exact I. apply andb_prop in H as [H1 H2].
    split; [destruct (ap_fin p); [discriminate|reflexivity]|exact H2].
  - destruct (a_sub a) as [| |im fin g]; try exact I. destruct fin; [discriminate|reflexivity].
  - destruct (a_sub a) as [| |im fin g]; try exact I. apply andb_prop in H as [H1 H2].
    split; [destruct fin; [discriminate|reflexivity]|destruct (im_projection im); [discriminate|reflexivity]].
  - destruct (a_sub a) as [| |im fin g]; try exact I. apply andb_prop in H as [H1 H2].
    split; [destruct fin; [discriminate|reflexivity]|destruct (im_projection im); [discriminate|reflexivity]].
  - destruct (a_sub a) as [| |im fin g]; try exact I. apply andb_prop in H as [H1 H2].
    split; [destruct fin; [discriminate|reflexivity]|destruct (im_projection im); [discriminate|reflexivity]].
  - destruct (a_sub a) as [| |im fin g]; try exact I. apply andb_prop in H as [H1 H2].
    split; [destruct fin; [discriminate|reflexivity]|].
    destruct (im_visual_reference im); [left; discriminate|]. destruct (im_projection im); [right; discriminate|discriminate].
Qed.

Lemma accb_calls_sound lv : forall calls a, accb_calls lv a calls = true -> aacc_calls lv a calls.
Proof.
  induction calls as [|c r IH]; intros a H; [exact I|]. cbn [accb_calls] in H. apply andb_prop in H as [H1 H2].
  split; [apply accb_sound; exact H1|apply IH; exact H2].
Qed.

(** * The program *)
Definition cx_tops : list wcall :=
  [RegisterExtension s_ext s_url;
   SetCoordinateMetadata (Some s_odd);
   AddPointcloud [112; 49]
     [mkRecord CartesianX (DDouble None None); mkRecord CartesianY (DDouble None None);
      mkRecord CartesianZ (DDouble None None); mkRecord (Unknown s_ext [97; 116; 116; 114]) (DInteger 0 15)];
   PcSet (PfName (Some s_odd));
   PcAddPoint [D b1; D b2; D bh; VInteger 7];
   PcAddPoint [D bm3; D b1; D b2; VInteger 15];
   PcFinalize; PcDrop;
   AddBlob [7; 7; 7; 7; 7; 7; 7];
   AddImage [105; 109];
   ImAddVisualReference Png [1; 2; 3; 255; 0] 2 1 (Some [9; 9; 9]);
   ImSet (IfDescription s_odd);
   ImAddVisualReference Jpeg [4; 4] 1 1 None;
   ImAddPinhole Png [5; 5; 5] (mkPhp 3 1 (mkF64 b1 []) (mkF64 bh []) (mkF64 bh []) (mkF64 b2 []) (mkF64 bm3 [])) (Some [8]);
   ImFinalize; ImDrop;
   AddPointcloud [112; 50]
     [mkRecord SphericalRange (DDouble None None); mkRecord SphericalAzimuth (DDouble None None);
      mkRecord SphericalElevation (DDouble None None); mkRecord Intensity (DInteger 0 255)];
   PcAddPoint [D b2; D bh; D bm3; VInteger 200];
   PcFinalize; PcDrop].
Definition cx_guid : xstring := [103; 38; 60].
Definition cx_calls : list wcall := NewWriter cx_guid :: cx_tops ++ [Finalize].
Definition cx_version : xstring := [48; 46; 49].
Notation GX := (gen_xml_full ex_fmt64 ex_fmt32).
Notation LX := (lib_version_text cx_version).

Lemma cx_units : units cx_tops.
Proof.
  unfold cx_tops. apply un_setter; [exact I|]. apply un_setter; [exact I|].
  apply (un_pc _ _ [PcSet _; PcAddPoint _; PcAddPoint _]); [repeat constructor| |].
  { split; right; [reflexivity|]. intros l H. vm_compute in H. inversion H. }
  apply un_blob.
  apply (un_im _ [ImAddVisualReference _ _ _ _ _; ImSet _; ImAddVisualReference _ _ _ _ _; ImAddPinhole _ _ _ _]); [repeat constructor|].
  apply (un_pc _ _ [PcAddPoint _]); [repeat constructor| |apply un_nil].
  split; right; [reflexivity|]. intros l H. vm_compute in H. inversion H.
Qed.

Lemma cx_wf : Forall call_wf cx_tops.
Proof.
  unfold cx_tops. repeat constructor; cbn [call_wf]; try exact I;
    try (intros p Hp; cbn [In] in Hp; repeat (destruct Hp as [<-|Hp]; [cbn; try exact I; split; reflexivity|]); destruct Hp);
    try (repeat constructor; cbn [value_wf D]; unfold b1, b2, bh, bm3; lia).
Qed.

Lemma cx_canonical : forall g proto, In (AddPointcloud g proto) cx_tops -> scaled_canonical proto.
Proof.
  intros g proto H. unfold cx_tops in H. cbn [In] in H.
  repeat (destruct H as [H|H]; [try discriminate H; inversion H; subst; intros r Hr; cbn [In] in Hr;
                                 repeat (destruct Hr as [<-|Hr]; [cbn; try exact I; split; intros x Hx; discriminate Hx|]); destruct Hr|]).
  destruct H.
Qed.

Lemma cx_acceptable : acceptable_calls GX LX ws_init ls_init cx_calls.
Proof.
  apply (lift_acc GX LX (gen_full_ok ex_fmt64 ex_fmt32) cx_calls ws_init ls_init a_init ws_inv_init).
  - intros H; discriminate H.
  - constructor; [exact I|]. apply Forall_app. split; [exact cx_wf|constructor; [exact I|constructor]].
  - apply complete_borrow. exact cx_units.
  - exact absr_init.
  - apply accb_calls_sound. vm_compute. reflexivity.
Qed.

(** every call returns Ok: by the theorem ... *)
Example cx_accepts : exists s st rs,
  wrun (writer_run ex_fmt64 ex_fmt32 cx_version cx_calls) pw0 = (s, Ok (st, rs)) /\ Forall res_ok rs /\ snd (pw_flush s) = Ok tt.
Proof. apply api_accepts_units; [exact cx_units|exact cx_wf|exact cx_acceptable]. Qed.

(** ... and by evaluation *)
Definition cx_run := wrun (writer_run ex_fmt64 ex_fmt32 cx_version cx_calls) pw0.
Definition cx_state : wstate := match snd cx_run with Ok (st, _) => st | _ => ws_init end.
Example cx_results :
  match snd cx_run with Ok (_, rs) => forallb (fun r => match r with CrOk | CrBlob _ _ => true | _ => false end) rs = true | _ => False end.
Proof. vm_compute. reflexivity. Qed.

(** * The copy *)
Lemma ex_nan_text64 : forall b, ex_fmt64 (canon64 b) = ex_fmt64 b.
Proof.
  intros b. unfold canon64.
  destruct ((N.land b 9218868437227405312 =? 9218868437227405312) && negb (N.land b 4503599627370495 =? 0)) eqn:E; [|reflexivity].
  unfold ex_fmt64.
  destruct (b =? b1) eqn:E1; [apply N.eqb_eq in E1; subst b; vm_compute in E; discriminate|].
  destruct (b =? b2) eqn:E2; [apply N.eqb_eq in E2; subst b; vm_compute in E; discriminate|].
  destruct (b =? bh) eqn:E3; [apply N.eqb_eq in E3; subst b; vm_compute in E; discriminate|].
  destruct (b =? bm3) eqn:E4; [apply N.eqb_eq in E4; subst b; vm_compute in E; discriminate|].
  vm_compute. reflexivity.
Qed.
Lemma ex_nan_text32 : forall b, ex_fmt32 (canon32 b) = ex_fmt32 b.
Proof. reflexivity. Qed.

(** the points the reader returns: those of the program's point cloud items *)
Definition cx_points : list (list (list rvalue)) :=
  [[[D b1; D b2; D bh; VInteger 7]; [D bm3; D b1; D b2; VInteger 15]]; [[D b2; D bh; D bm3; VInteger 200]]].
Definition cx_view : file_meta := reader_view (fill_meta ex_fmt64 ex_fmt32 (ws_meta cx_state)).
Definition cx_bytes : list im_ghost := program_image_bytes LX cx_calls.
Definition cx_copy : list wcall := copy_calls cx_view cx_points cx_bytes.
Definition cx_run2 := wrun (writer_run ex_fmt64 ex_fmt32 cx_version cx_copy) pw0.
Definition cx_state2 : wstate := match snd cx_run2 with Ok (st, _) => st | _ => ws_init end.

(** by evaluation: the copy is accepted call by call, its metadata is the original's up to
    file offsets (the original has a blob before the second cloud), and the calls issued from
    the copy are the calls of the copy *)
Example cx_copy_results :
  match snd cx_run2 with Ok (_, rs) => forallb (fun r => match r with CrOk | CrBlob _ _ => true | _ => false end) rs = true | _ => False end.
Proof. vm_compute. reflexivity. Qed.
Example cx_copy_content : content_view ex_fmt64 ex_fmt32 cx_state2 = content_view ex_fmt64 ex_fmt32 cx_state.
Proof. vm_compute. reflexivity. Qed.
Example cx_copy_offsets_differ : map pc_file_offset (ws_pcs cx_state2) <> map pc_file_offset (ws_pcs cx_state).
Proof. vm_compute. discriminate. Qed.
Example cx_copy_fixpoint :
  copy_calls (reader_view (fill_meta ex_fmt64 ex_fmt32 (ws_meta cx_state2))) cx_points (program_image_bytes LX cx_copy) = cx_copy.
Proof. vm_compute. reflexivity. Qed.

(** by the theorem: every hypothesis of [copy_idempotent] holds of this program *)
Example cx_copy_theorem : exists s st rs is os bl,
  wrun (writer_run ex_fmt64 ex_fmt32 cx_version cx_calls) pw0 = (s, Ok (st, rs)) /\
  explains cx_tops is os (ws_pcs st) (ws_imgs st) bl /\
  let m' := reader_view (fill_meta ex_fmt64 ex_fmt32 (ws_meta st)) in
  let P2 := copy_calls m' (item_points is) (program_image_bytes LX cx_calls) in
  acceptable_calls GX LX ws_init ls_init P2 /\
  exists s2 st2 rs2,
    wrun (writer_run ex_fmt64 ex_fmt32 cx_version P2) pw0 = (s2, Ok (st2, rs2)) /\ Forall res_ok rs2 /\
    content_view ex_fmt64 ex_fmt32 st2 = content_view ex_fmt64 ex_fmt32 st.
Proof.
  destruct cx_accepts as (s & st & rs & Hrun & Hok & _).
  destruct (wrun_image _ (writer_run ex_fmt64 ex_fmt32 cx_version cx_calls)) as (Hres & _ & _).
  rewrite Hrun in Hres. cbn [snd] in Hres.
  destruct (wrun_spec (writer_run ex_fmt64 ex_fmt32 cx_version cx_calls) ls_init) as [l r] eqn:Espec. cbn [snd] in Hres. subst r.
  destruct (complete_prog GX LX cx_guid cx_tops l st rs cx_units cx_wf Espec Hok) as (is & os & xml & bl & st1 & Hex & _).
  destruct (copy_idempotent ex_fmt64 ex_fmt32 cx_version ex_nan_text64 ex_nan_text32 cx_guid cx_tops s st rs
              cx_units cx_wf cx_canonical cx_acceptable Hrun is os bl Hex)
    as (_ & _ & _ & _ & Hacc2 & s2 & st2 & rs2 & Hr2 & Hok2 & Hcv & _).
  exists s, st, rs, is, os, bl. split; [exact Hrun|]. split; [exact Hex|]. cbv zeta. split; [exact Hacc2|].
  exists s2, st2, rs2. auto.
Qed.

Print Assumptions cx_copy_theorem.
