(** Writer API: the float limits of an accepted prototype, as the file-level specification
    wants them (Proofs/SpecProtoValues.v: [dtype_limits_ok] on the bit patterns the XML
    generator prints).  The writer checks "numbers, minimum <= maximum" on f64 values (a Single's
    limits through [f64::from]); the specification compares Singles as f32 and wants patterns of
    the right width that survive the NaN canonicalisation of [fill_meta].  Three IEEE facts:
    a pattern that does not decode to a NaN is not changed by [canon64] / [canon32]; the
    conversion f32 -> f64 keeps the order; it maps NaN to NaN. *)
From Coq Require Import ZArith NArith Bool List Reals Lia.
From Flocq Require Import Core Binary Bits.
From E57 Require Import Base.Prelude Base.Floats Model.Meta Spec.FileSpecXml
  Proofs.SpecFloatSign Proofs.ToolsCoord Proofs.WapiFloatOrder.
Import ListNotations.
Local Open Scope N_scope.

(** * NaN canonicalisation leaves numbers alone *)
Lemma lor_disjoint_add a b : N.land a b = 0 -> N.lor a b = a + b.
Proof. intros H. rewrite (N.add_nocarry_lxor a b H). symmetry. apply N.lxor_lor. exact H. Qed.

Lemma canon64_small b : b mod 2 ^ 63 <= 0x7ff0000000000000 -> canon64 b = b.
Proof.
  intros Hm. unfold canon64.
  destruct ((N.land b 9218868437227405312 =? 9218868437227405312) && negb (N.land b 4503599627370495 =? 0)) eqn:C; [|reflexivity].
  exfalso. apply andb_prop in C as [C1 C2]. apply N.eqb_eq in C1.
  assert (C3 : N.land b 4503599627370495 <> 0) by (intros E; rewrite E in C2; discriminate C2).
  assert (E1 : b mod 2 ^ 63 = N.lor (N.land b 9218868437227405312) (N.land b 4503599627370495)).
  { rewrite <- N.land_ones, <- N.land_lor_distr_r. reflexivity. }
  rewrite C1, lor_disjoint_add in E1.
  - change (2 ^ 63) with 9223372036854775808 in *. lia.
  - rewrite N.land_assoc, (N.land_comm 9218868437227405312 b), <- N.land_assoc. change (N.land 9218868437227405312 4503599627370495) with 0.
    apply N.land_0_r.
Qed.

Lemma canon32_small b : b mod 2 ^ 31 <= 0x7f800000 -> canon32 b = b.
Proof.
  intros Hm. unfold canon32.
  destruct ((N.land b 2139095040 =? 2139095040) && negb (N.land b 8388607 =? 0)) eqn:C; [|reflexivity].
  exfalso. apply andb_prop in C as [C1 C2]. apply N.eqb_eq in C1.
  assert (C3 : N.land b 8388607 <> 0) by (intros E; rewrite E in C2; discriminate C2).
  assert (E1 : b mod 2 ^ 31 = N.lor (N.land b 2139095040) (N.land b 8388607)).
  { rewrite <- N.land_ones, <- N.land_lor_distr_r. reflexivity. }
  rewrite C1, lor_disjoint_add in E1.
  - change (2 ^ 31) with 2147483648 in *. lia.
  - rewrite N.land_assoc, (N.land_comm 2139095040 b), <- N.land_assoc. change (N.land 2139095040 8388607) with 0.
    apply N.land_0_r.
Qed.

Lemma number_canon64 b : b < 2 ^ 64 -> f64_is_nan (f64_of_bits b) = false -> canon64 b = b.
Proof.
  intros Hb Hn. apply canon64_small. pose proof (f64_of_bits_class b Hb) as Hc.
  unfold f64_is_nan in Hn. destruct (f64_of_bits b); cbn [B2FF ff_class is_nan] in Hc, Hn; try discriminate Hn; lia.
Qed.
Lemma number_canon32 b : b < 2 ^ 32 -> f32_is_nan (f32_of_bits b) = false -> canon32 b = b.
Proof.
  intros Hb Hn. apply canon32_small. pose proof (f32_of_bits_class b Hb) as Hc.
  unfold f32_is_nan in Hn. destruct (f32_of_bits b); cbn [B2FF ff_class is_nan] in Hc, Hn; try discriminate Hn; lia.
Qed.

(** the same for patterns of any size: only the low 64 / 32 bits are decoded and tested *)
Lemma number_canon64_any b : f64_is_nan (f64_of_bits b) = false -> canon64 b = b.
Proof.
  intros Hn. apply canon64_small.
  assert (Hb : b mod 2 ^ 64 < 2 ^ 64) by (apply N.mod_lt; discriminate).
  assert (E : f64_of_bits (b mod 2 ^ 64) = f64_of_bits b) by (unfold f64_of_bits; rewrite N.mod_mod by discriminate; reflexivity).
  pose proof (f64_of_bits_class _ Hb) as Hc. rewrite E in Hc.
  assert (Hm : (Z.of_N ((b mod 2 ^ 64) mod 2 ^ 63) <= 9218868437227405312)%Z).
  { unfold f64_is_nan in Hn. destruct (f64_of_bits b); cbn [B2FF ff_class is_nan] in Hc, Hn; try discriminate Hn; lia. }
  assert (Em : (b mod 2 ^ 64) mod 2 ^ 63 = b mod 2 ^ 63).
  { change (2 ^ 64) with (2 ^ 63 * 2). rewrite N.mod_mul_r by discriminate.
    rewrite N.mul_comm, N.mod_add by discriminate. apply N.mod_mod. discriminate. }
  rewrite Em in Hm. lia.
Qed.
Lemma number_canon32_any b : f32_is_nan (f32_of_bits b) = false -> canon32 b = b.
Proof.
  intros Hn. apply canon32_small.
  assert (Hb : b mod 2 ^ 32 < 2 ^ 32) by (apply N.mod_lt; discriminate).
  assert (E : f32_of_bits (b mod 2 ^ 32) = f32_of_bits b) by (unfold f32_of_bits; rewrite N.mod_mod by discriminate; reflexivity).
  pose proof (f32_of_bits_class _ Hb) as Hc. rewrite E in Hc.
  assert (Hm : (Z.of_N ((b mod 2 ^ 32) mod 2 ^ 31) <= 2139095040)%Z).
  { unfold f32_is_nan in Hn. destruct (f32_of_bits b); cbn [B2FF ff_class is_nan] in Hc, Hn; try discriminate Hn; lia. }
  assert (Em : (b mod 2 ^ 32) mod 2 ^ 31 = b mod 2 ^ 31).
  { change (2 ^ 32) with (2 ^ 31 * 2). rewrite N.mod_mul_r by discriminate.
    rewrite N.mul_comm, N.mod_add by discriminate. apply N.mod_mod. discriminate. }
  rewrite Em in Hm. lia.
Qed.

(** * f32 -> f64 keeps NaN and order *)
Lemma conv_nan (x : binary32) : f64_is_nan (f64_of_f32 x) = false -> f32_is_nan x = false.
Proof. destruct x; cbn; intros H; try reflexivity. discriminate H. Qed.

Lemma conv_compare (x y : binary32) : f32_is_nan x = false -> f32_is_nan y = false ->
  b64_compare (f64_of_f32 x) (f64_of_f32 y) = b32_compare x y.
Proof.
  intros Nx Ny. unfold b64_compare, b32_compare.
  destruct (is_finite 24 128 x) eqn:Fx, (is_finite 24 128 y) eqn:Fy.
  - destruct (f64_of_f32_exact x Fx) as (X1 & X2 & _). destruct (f64_of_f32_exact y Fy) as (Y1 & Y2 & _).
    rewrite (Bcompare_correct 53 1024 _ _ X1 Y1), (Bcompare_correct 24 128 _ _ Fx Fy), X2, Y2. reflexivity.
  - destruct (f64_of_f32_exact x Fx) as (X1 & _ & _).
    destruct y as [sy|sy|sy py Py|sy my ey Py]; try discriminate Fy; try discriminate Ny.
    cbn [f64_of_f32]. destruct x as [sx|sx|sx px Px|sx mx ex Px]; try discriminate Fx; [reflexivity|].
    destruct (f64_of_f32 (B754_finite 24 128 sx mx ex Px)) eqn:E; try discriminate X1; destruct sy; reflexivity.
  - destruct (f64_of_f32_exact y Fy) as (Y1 & _ & _).
    destruct x as [sx|sx|sx px Px|sx mx ex Px]; try discriminate Fx; try discriminate Nx.
    cbn [f64_of_f32]. destruct y as [sy|sy|sy py Py|sy my ey Py]; try discriminate Fy; [reflexivity|].
    destruct (f64_of_f32 (B754_finite 24 128 sy my ey Py)) eqn:E; try discriminate Y1; destruct sx; reflexivity.
  - destruct x as [sx|sx|sx px Px|sx mx ex Px]; try discriminate Fx; try discriminate Nx.
    destruct y as [sy|sy|sy py Py|sy my ey Py]; try discriminate Fy; try discriminate Ny. reflexivity.
Qed.

Lemma conv_le (x y : binary32) : f32_is_nan x = false -> f32_is_nan y = false ->
  f64_le (f64_of_f32 x) (f64_of_f32 y) = f32_le x y.
Proof. intros Nx Ny. unfold f64_le, f32_le. rewrite (conv_compare x y Nx Ny). reflexivity. Qed.

Lemma finite_not_nan64 (x : binary64) : is_finite 53 1024 x = true -> is_nan 53 1024 x = false.
Proof. destruct x; intros H; try reflexivity. discriminate H. Qed.

Lemma f32_le_refl (x : binary32) : f32_is_nan x = false -> f32_le x x = true.
Proof.
  intros Nx. rewrite <- (conv_le x x Nx Nx). apply f64_le_refl. unfold not_nan.
  destruct x; cbn in *; try reflexivity; try discriminate Nx.
  destruct (f64_of_f32_exact (B754_finite 24 128 s m e e0) eq_refl) as (F & _).
  unfold f64_is_nan. apply finite_not_nan64. exact F.
Qed.

(** * The prototypes the state machine holds, filled in, satisfy the specification's condition *)
From E57 Require Import Model.MetaFile Model.XmlGen Model.WriterApi Model.WriterFull Spec.XeMetaOk
  Proofs.SpecProtoValues Proofs.WapiRules Proofs.WapiFullMeta.

Section Fill.
Variables fmt64 fmt32 : N -> xstring.

Lemma limits_good_fill t : limits_good t = true -> dtype_limits_ok (fill_type fmt64 fmt32 t) = true.
Proof.
  unfold limits_good. intros H. apply andb_prop in H as [Hl Hb].
  destruct t as [mn mx|mn mx| |]; try reflexivity; cbn [float_limits_ok float_bits_ok fill_type dtype_limits_ok] in *.
  - apply float_limits_check_iff in Hl. destruct Hl as (N1 & N2 & Hle). apply andb_prop in Hb as [B1 B2].
    assert (K : forall x, f32_bits x < 2 ^ 32 -> not_nan (f64_of_t32 x) ->
              f32_bits (fill32 fmt32 x) = f32_bits x /\ le32 (f32_bits x) (f32_bits x) = true /\
              f32_is_nan (f32_of_bits (f32_bits x)) = false).
    { intros x Hx Hn. pose proof (conv_nan _ Hn) as Hn32. split; [|split; [|exact Hn32]].
      - unfold fill32. cbn [f32_bits]. apply number_canon32; assumption.
      - unfold le32. apply f32_le_refl. exact Hn32. }
    destruct mn as [a|], mx as [b|]; cbn [option_map ofo lim32_ok] in *.
    + apply N.ltb_lt in B1, B2. destruct (K a B1 (N1 _ eq_refl)) as (Ea & La & Na). destruct (K b B2 (N2 _ eq_refl)) as (Eb & Lb & Nb).
      rewrite Ea, Eb, La. apply N.ltb_lt in B1, B2. rewrite B1, B2. cbn [andb].
      unfold le32. rewrite <- (conv_le _ _ Na Nb). apply (Hle _ _ eq_refl eq_refl).
    + apply N.ltb_lt in B1. destruct (K a B1 (N1 _ eq_refl)) as (Ea & La & Na). rewrite Ea, La. apply N.ltb_lt in B1. rewrite B1. reflexivity.
    + apply N.ltb_lt in B2. destruct (K b B2 (N2 _ eq_refl)) as (Eb & Lb & Nb). rewrite Eb, Lb. apply N.ltb_lt in B2. rewrite B2. reflexivity.
    + reflexivity.
  - apply float_limits_check_iff in Hl. destruct Hl as (N1 & N2 & Hle). apply andb_prop in Hb as [B1 B2].
    assert (K : forall x, f64_bits x < 2 ^ 64 -> not_nan (f64_of_t64 x) ->
              f64_bits (fill64 fmt64 x) = f64_bits x /\ le64 (f64_bits x) (f64_bits x) = true).
    { intros x Hx Hn. split.
      - unfold fill64. cbn [f64_bits]. apply number_canon64; assumption.
      - unfold le64. apply f64_le_refl. exact Hn. }
    destruct mn as [a|], mx as [b|]; cbn [option_map ofo lim64_ok] in *.
    + apply N.ltb_lt in B1, B2. destruct (K a B1 (N1 _ eq_refl)) as (Ea & La). destruct (K b B2 (N2 _ eq_refl)) as (Eb & Lb).
      rewrite Ea, Eb, La. apply N.ltb_lt in B1, B2. rewrite B1, B2. cbn [andb]. apply (Hle _ _ eq_refl eq_refl).
    + apply N.ltb_lt in B1. destruct (K a B1 (N1 _ eq_refl)) as (Ea & La). rewrite Ea, La. apply N.ltb_lt in B1. rewrite B1. reflexivity.
    + apply N.ltb_lt in B2. destruct (K b B2 (N2 _ eq_refl)) as (Eb & Lb). rewrite Eb, Lb. apply N.ltb_lt in B2. rewrite B2. reflexivity.
    + reflexivity.
Qed.

Theorem meta_limits_ordered (m : file_meta) :
  Forall (pc_good (fm_extensions m)) (fm_pointclouds m) -> float_limits_ordered (fill_meta fmt64 fmt32 m) = true.
Proof.
  intros H. unfold float_limits_ordered, fill_meta. cbn [fm_pointclouds]. rewrite forallb_forall. intros pc Hpc.
  apply in_map_iff in Hpc as (pc0 & <- & Hin). rewrite Forall_forall in H.
  destruct (H pc0 Hin) as (_ & _ & _ & _ & _ & _ & Hl). unfold fill_pc. cbn [pc_prototype].
  rewrite forallb_forall. intros r Hr. apply in_map_iff in Hr as (r0 & <- & Hr0). cbn [fill_rec r_type].
  apply limits_good_fill. unfold proto_limits_good in Hl. rewrite forallb_forall in Hl. apply Hl. exact Hr0.
Qed.

End Fill.

Print Assumptions meta_limits_ordered.
