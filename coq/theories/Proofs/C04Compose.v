(** Composition of the three halves of the metadata round trip (property C04):
    the writer's XML bytes are a rendering of the abstract tree of the metadata
    (slice xg: gen_is_render, tree_of_wf), the XML parser model reads every
    rendering of a well-formed tree back as that tree (slice xmlp: parse_render),
    and the extractors return the metadata from that tree (slice xe:
    extract_tree_of). *)
From Coq Require Import List Bool NArith ZArith.
From E57 Require Import Base.Prelude Model.Meta Model.MetaFile Model.XmlTree Model.XmlGen Model.XmlParse
  Model.XmlExtract Spec.XmlRender Spec.MetaTree Spec.XgWriterOk Spec.XeMetaOk
  Proofs.XmlpRoundtripDoc Proofs.XgRender Proofs.XgWf Proofs.XgTotal Proofs.XeTreeMain.

(** what the reader obtains from XML bytes: parse, then extract *)
Definition read_meta (pf64 pf32 : xstr -> option N) (fdiv : N -> Z -> N) (bytes : list N) : res file_meta :=
  match xml_parse bytes with
  | ParseOk d => extract_all pf64 pf32 fdiv d
  | _ => Err EInvalid
  end.

Theorem metadata_roundtrip :
  forall (pf64 pf32 : xstr -> option N) (fdiv : N -> Z -> N) (m : file_meta) (bs : list N),
    writer_meta_ok m = true -> meta_xml_ok m = true -> meta_ok m = true ->
    float_oracle_ok pf64 pf32 m = true ->
    gen_root m = Ok bs ->
    bs = render writer_choices (tree_of m) /\
    xml_parse bs = ParseOk (tree_of m) /\
    read_meta pf64 pf32 fdiv bs = Ok (reader_view m).
Proof.
  intros pf64 pf32 fdiv m bs Hw Hx Hk Hf Hgen.
  pose proof (gen_is_render m bs Hw Hgen) as Hbs.
  pose proof (parse_render writer_choices (tree_of m) (tree_of_wf m Hw Hx)) as Hp.
  split; [exact Hbs|]. rewrite Hbs. split; [exact Hp|].
  unfold read_meta. rewrite Hp. apply extract_tree_of; assumption.
Qed.

(** the same for ANY rendering of the tree a foreign producer may choose *)
Theorem metadata_any_rendering :
  forall (pf64 pf32 : xstr -> option N) (fdiv : N -> Z -> N) (c : render_choices) (m : file_meta),
    writer_meta_ok m = true -> meta_xml_ok m = true -> meta_ok m = true ->
    float_oracle_ok pf64 pf32 m = true ->
    read_meta pf64 pf32 fdiv (render c (tree_of m)) = Ok (reader_view m).
Proof.
  intros pf64 pf32 fdiv c m Hw Hx Hk Hf.
  unfold read_meta. rewrite (parse_render c (tree_of m) (tree_of_wf m Hw Hx)).
  apply extract_tree_of; assumption.
Qed.

Print Assumptions metadata_roundtrip.
Print Assumptions metadata_any_rendering.
