(** Writer API, part 7: the theorems of C10 (total; accepts only what is
    representable; a rejected call is a no-op; the drain loop terminates) and
    C14 (bounds, limits) on the state machine, assembled from the parts. *)
From Coq Require Import ZArith Lia Bool.
From Flocq Require Import Binary Bits.
From E57 Require Import Base.Prelude Base.Floats Spec.PageSpec Model.PagedWriter Model.Prog Model.BsWrite
  Model.Record Model.PcWriter Model.FileBin Spec.BitSpec Model.Meta Model.MetaFile Model.WriterApi.
From E57 Require Import Proofs.PagedWriterLemmas Proofs.PagedWriterProofs Proofs.ProgTransfer Proofs.PcWriterLemmas
  Proofs.PcWriterProofs Proofs.WapiProg Proofs.WapiPc Proofs.WapiRules Proofs.WapiInv Proofs.WapiFloatOrder Proofs.WapiBounds.
Open Scope N_scope.

Section Main.
Variable gen_xml : file_meta -> res (list N).
Variable lib_version : xstring.
Hypothesis gen_xml_total : forall m, gen_xml m <> Panic.

Notation step := (wapi_step gen_xml lib_version).
Notation run := (wapi_run gen_xml lib_version).

(** * C10: no panic *)

(** Every call sequence runs to its end on the logical stream: every call
    returns a result ([CrOk], [CrBlob], [CrErr]; [CrNoCompile] for orders the
    borrow checker rejects), no panic, no error escapes [wtry]. *)
Theorem no_panic_stream : forall calls, Forall call_wf calls ->
  exists l st rs, wrun_spec (run ws_init calls) ls_init = (l, Ok (st, rs)) /\ length rs = length calls.
Proof.
  intros calls Hwf.
  destruct (wapi_run_ok gen_xml lib_version gen_xml_total calls ws_init ls_init ws_inv_init Hwf)
    as (l & st & rs & Hrun & _ & _ & Hlen).
  exists l, st, rs. split; [exact Hrun|exact Hlen].
Qed.

(** The same on the paged device model (page buffer, checksums, device
    operations) after [PagedWriter::new] on an empty device. *)
Theorem no_panic : forall calls, Forall call_wf calls ->
  exists st rs, snd (wrun (run ws_init calls) pw0) = Ok (st, rs) /\ length rs = length calls.
Proof.
  intros calls Hwf. destruct (no_panic_stream calls Hwf) as (l & st & rs & Hrun & Hlen).
  exists st, rs. split; [|exact Hlen].
  destruct (wrun_image _ (run ws_init calls)) as (H & _). rewrite H, Hrun. reflexivity.
Qed.

(** * C10: the drain loop of [finalize] *)

Theorem finalize_terminates : forall ps l, pc_inv ps l -> ls_ok l -> ps_finalized ps = false ->
  exists w1, snd (wrun_spec (drain_buffer (S (length (w_buffer (ps_w ps)))) (ps_w ps)) l) = Ok w1 /\
             w_buffer w1 = [].
Proof.
  intros ps l (_ & [Hf|(_ & Hlive & _)]) [Hl _] Hnf; [congruence|].
  destruct Hlive as (mpp & d0 & pts & lay & d & Hmpp & Hty & Hinv & Hlen & _).
  destruct (drain_buffer_run (w_proto (ps_w ps)) mpp d0 pts lay (ps_w ps) d Hty Hmpp Hinv) as
    (lay1 & w1 & d1 & Hrun1 & _ & Hb1); [lia|].
  destruct (wpure_drain (S (length (w_buffer (ps_w ps)))) (ps_w ps)) as [r Hr].
  destruct (wpure_sound _ r (lend d) Hr) as (G1 & _); [unfold lend; cbn [ls_pos ls_data]; lia|].
  rewrite Hrun1 in G1. cbn [snd] in G1. subst r.
  destruct (wpure_sound _ _ l Hr Hl) as (R1 & _). exists w1. split; [exact R1|exact Hb1].
Qed.

(** * C10: a call that returns [Err] is a no-op *)

Theorem err_is_noop : forall st l c l' st' k, ws_inv st l -> call_wf c ->
  wrun_spec (step st c) l = (l', Ok (st', CrErr k)) -> st' = st /\ l' = l.
Proof.
  intros st l c l' st' k Hinv Hwf Hrun.
  destruct (wapi_step_ok gen_xml lib_version gen_xml_total st l c Hinv Hwf) as (l1 & st1 & r & Hrun1 & _ & _ & Herr).
  rewrite Hrun in Hrun1. inversion Hrun1; subst. apply (Herr k eq_refl).
Qed.

(** Remark.  Before the repair 8f31314 this theorem needed the side condition that every
    record feeding an index bound is integer-typed, and was refuted without it by a
    prototype with two [RowIndex] records of which the second is a double: the rule check
    looked at the first record of a name, the bounds loop at every record, so [add_point]
    failed with [Internal] after the Cartesian bounds had been updated.  The prototype is
    now rejected; the former witness as a regression example: *)
Definition former_witness_proto : list record :=
  [mkRecord CartesianX (DDouble None None); mkRecord CartesianY (DDouble None None);
   mkRecord CartesianZ (DDouble None None); mkRecord RowIndex (DInteger 0 9);
   mkRecord RowIndex (DDouble None None)].

Example former_witness_rejected :
  exists l st, wrun_spec (run ws_init [NewWriter [103]; AddPointcloud [112] former_witness_proto]) ls_init
               = (l, Ok (st, [CrOk; CrErr EInvalid])) /\ ws_sub st = SubNone.
Proof. eexists. eexists. split; vm_compute; reflexivity. Qed.

(** * C10: an accepted call is representable *)

Lemma ext_registered_false exts ns : ext_registered exts ns = false -> ~ registered exts ns.
Proof.
  unfold ext_registered, registered. intros H (url & Hin).
  assert (existsb (fun e => xs_eqb (e_namespace e) ns) exts = true).
  { apply existsb_exists. exists (mkExtension ns url). split; [exact Hin|]. apply xs_eqb_eq. reflexivity. }
  congruence.
Qed.
Lemma url_registered_false exts url : url_registered exts url = false -> ~ exists ns, In (mkExtension ns url) exts.
Proof.
  unfold url_registered. intros H (ns & Hin).
  assert (existsb (fun e => xs_eqb (e_url e) url) exts = true).
  { apply existsb_exists. exists (mkExtension ns url). split; [exact Hin|]. apply xs_eqb_eq. reflexivity. }
  congruence.
Qed.

(** what the documentation lets a call accept, in the state it is made in *)
Definition representable_call (st : wstate) (c : wcall) : Prop :=
  match ws_sub st, c with
  | SubNone, AddPointcloud _ proto => ws_finalized st = false /\ representable_prototype (ws_exts st) proto
  | SubNone, AddBlob _ | SubNone, AddImage _ | SubNone, Finalize => ws_finalized st = false
  | SubNone, RegisterExtension ns url =>
      name_wf ns /\ name_start_ok ns /\ url <> URL_XML /\ url <> URL_XMLNS /\ url <> [] /\ url <> URL_E57 /\
      ~ registered (ws_exts st) ns /\ ~ (exists ns', In (mkExtension ns' url) (ws_exts st))
  | SubPc ps, PcAddPoint vs => ps_finalized ps = false /\ representable_point (ps_proto ps) vs
  | SubPc ps, PcFinalize =>
      ps_finalized ps = false /\ custom_limits_ok (ps_custom_il ps) (ps_custom_cl ps) (ps_desc ps) = true
  | SubIm im fin, ImAddVisualReference _ _ _ _ _ => fin = false
  | SubIm im fin, ImAddPinhole _ _ _ _ | SubIm im fin, ImAddSpherical _ _ _ _
  | SubIm im fin, ImAddCylindrical _ _ _ _ => fin = false /\ im_projection im = None
  | SubIm im fin, ImFinalize => fin = false /\ (im_visual_reference im <> None \/ im_projection im <> None)
  | _, _ => True
  end.

Lemma run_pair_inj {A} (l l' : lstream) (a a' : A) : (l, @Ok A a) = (l', Ok a') -> a = a'.
Proof. intros H. inversion H. reflexivity. Qed.

Theorem accepted_is_representable : forall st l c l' st' r, ws_inv st l -> ws_open st = true -> call_wf c ->
  wrun_spec (step st c) l = (l', Ok (st', r)) -> (forall k, r <> CrErr k) -> r <> CrNoCompile ->
  representable_call st c.
Proof.
  intros st l c l' st' r Hinv Hopen Hwf Hrun Hne Hnc. pose proof Hinv as [Hok Hs].
  assert (Bad : forall k, (l, @Ok (wstate * call_result) (st, CrErr k)) = (l', Ok (st', r)) -> False).
  { intros k H. inversion H; subst. apply (Hne k). reflexivity. }
  unfold representable_call. unfold wapi_step in Hrun. rewrite Hopen in Hrun. cbn [negb] in Hrun.
  destruct (ws_sub st) as [|ps|im fin] eqn:Esub; destruct c; try exact I.
  - (* RegisterExtension *)
    destruct (validate_name ns >> validate_name_start ns >> validate_url url) as [[]|k|] eqn:Ev;
      [|cbn [wret wrun_spec] in Hrun; exfalso; apply (Bad _ Hrun)|cbn [wrun_spec] in Hrun; inversion Hrun].
    apply seq_res_ok in Ev as [E1 Ev]. apply seq_res_ok in Ev as [E2 E3].
    destruct (url_registered (ws_exts st) url) eqn:Eu; [cbn [wret wrun_spec] in Hrun; exfalso; apply (Bad _ Hrun)|].
    destruct (ext_registered (ws_exts st) ns) eqn:En; [cbn [wret wrun_spec] in Hrun; exfalso; apply (Bad _ Hrun)|].
    split; [apply validate_name_ok; exact E1|]. split; [apply validate_name_start_ok; exact E2|].
    unfold validate_url in E3.
    destruct (xs_eqb url URL_XML) eqn:X1; [discriminate|]. destruct (xs_eqb url URL_XMLNS) eqn:X2; [discriminate|].
    cbn [orb] in E3. destruct url as [|u0 ur]; [discriminate|].
    destruct (xs_eqb (u0 :: ur) URL_E57) eqn:X3; [discriminate|].
    split; [intros Hq; rewrite Hq, (proj2 (xs_eqb_eq URL_XML URL_XML) eq_refl) in X1; discriminate|].
    split; [intros Hq; rewrite Hq, (proj2 (xs_eqb_eq URL_XMLNS URL_XMLNS) eq_refl) in X2; discriminate|].
    split; [discriminate|].
    split; [intros Hq; rewrite Hq, (proj2 (xs_eqb_eq URL_E57 URL_E57) eq_refl) in X3; discriminate|].
    split; [apply ext_registered_false; exact En|apply url_registered_false; exact Eu].
  - (* AddBlob *)
    destruct (ws_finalized st); [cbn [wret wrun_spec] in Hrun; exfalso; apply (Bad _ Hrun)|reflexivity].
  - (* AddPointcloud *)
    destruct (ws_finalized st); [cbn [wret wrun_spec] in Hrun; exfalso; apply (Bad _ Hrun)|].
    split; [reflexivity|]. rewrite run_bind in Hrun.
    destruct (pc_new_step (ws_exts st) guid proto l Hok Hwf) as [(k & H1)|(l1 & ps & H1 & _ & _ & _ & _ & He & Hv & (mpp & Hm) & _)];
      rewrite H1 in Hrun; cbn [fst snd wret wrun_spec] in Hrun; [exfalso; apply (Bad _ Hrun)|].
    pose proof (validate_prototype_ok proto Hv) as R. unfold rules_part in R.
    unfold representable_prototype.
    destruct R as (R1 & R2 & R3 & R4 & R5 & R6 & R7 & R8 & R9 & R10 & R11 & R12 & R13 & R14 & R15 & R16 & R17 & R18 & _ & R19).
    repeat (split; [assumption|]).
    split; [apply (ext_validate_prototype_ok proto (ws_exts st) He)|split; [apply (capacity_fits proto mpp Hm)|exact R19]].
  - (* AddImage *)
    destruct (ws_finalized st); [cbn [wret wrun_spec] in Hrun; exfalso; apply (Bad _ Hrun)|reflexivity].
  - (* Finalize *)
    destruct (ws_finalized st); [cbn [wret wrun_spec] in Hrun; exfalso; apply (Bad _ Hrun)|reflexivity].
  - (* PcAddPoint *)
    rewrite run_bind in Hrun.
    destruct (wrun_spec (pc_add_point values ps) l) as [l1 [[ps1 r1]|k|]] eqn:E1; cbn [fst snd wret wrun_spec] in Hrun;
      try (inversion Hrun; fail).
    assert (r1 = r) by (inversion Hrun; reflexivity). subst r1.
    assert (r = CrOk).
    { clear - E1 Hne. unfold pc_add_point in E1.
      destruct (ps_finalized ps); [cbn in E1; inversion E1; subst; exfalso; apply (Hne EInvalid); reflexivity|].
      destruct (negb _); [cbn in E1; inversion E1; subst; exfalso; apply (Hne EInvalid); reflexivity|].
      destruct (update_bounds _ _ _) as [b1 [[]|k|]]; [|cbn in E1; inversion E1; subst; exfalso; apply (Hne k); reflexivity|cbn in E1; inversion E1].
      rewrite run_bind, wrun_spec_wtry in E1.
      destruct (snd (wrun_spec (pcw_add_point values (ps_w ps)) l)); cbn [fst snd wret wrun_spec] in E1; inversion E1; subst;
        [reflexivity|exfalso; apply (Hne k); reflexivity]. }
    subst r.
    destruct (pc_add_point_ok_inv values ps l l1 ps1 E1) as (Hf & Hv & _).
    split; [exact Hf|]. destruct Hs as (Hp & _). rewrite Hp in Hv. apply values_ok_representable. exact Hv.
  - (* PcFinalize *)
    unfold pc_finalize in Hrun.
    destruct (ps_finalized ps);
      [rewrite run_bind in Hrun; cbn [wret wrun_spec fst snd] in Hrun; exfalso; inversion Hrun; subst; apply (Hne EInvalid); reflexivity|].
    destruct (custom_limits_ok (ps_custom_il ps) (ps_custom_cl ps) (ps_desc ps)); cbn [negb] in Hrun; [split; reflexivity|].
    rewrite run_bind in Hrun. cbn [wret wrun_spec fst snd] in Hrun. exfalso. inversion Hrun; subst. apply (Hne EInvalid). reflexivity.
  - (* visual reference *)
    destruct fin; [cbn [wret wrun_spec] in Hrun; exfalso; apply (Bad _ Hrun)|reflexivity].
  - unfold im_add_projection in Hrun. unfold has_projection in Hrun.
    destruct fin; [cbn [wret wrun_spec] in Hrun; exfalso; apply (Bad _ Hrun)|].
    destruct (im_projection im); [cbn [wret wrun_spec] in Hrun; exfalso; apply (Bad _ Hrun)|split; reflexivity].
  - unfold im_add_projection in Hrun. unfold has_projection in Hrun.
    destruct fin; [cbn [wret wrun_spec] in Hrun; exfalso; apply (Bad _ Hrun)|].
    destruct (im_projection im); [cbn [wret wrun_spec] in Hrun; exfalso; apply (Bad _ Hrun)|split; reflexivity].
  - unfold im_add_projection in Hrun. unfold has_projection in Hrun.
    destruct fin; [cbn [wret wrun_spec] in Hrun; exfalso; apply (Bad _ Hrun)|].
    destruct (im_projection im); [cbn [wret wrun_spec] in Hrun; exfalso; apply (Bad _ Hrun)|split; reflexivity].
  - (* ImFinalize *)
    destruct fin; [cbn [wret wrun_spec] in Hrun; exfalso; apply (Bad _ Hrun)|]. split; [reflexivity|].
    destruct (im_visual_reference im), (im_projection im); cbn [wret wrun_spec] in Hrun;
      try (left; discriminate); try (right; discriminate). exfalso. apply (Bad _ Hrun).
Qed.

(** * C14: one point cloud session *)

Definition is_pc_body (c : wcall) : Prop :=
  match c with PcSet _ | PcAddPoint _ => True | _ => False end.

Fixpoint body_points (body : list wcall) : list (list rvalue) :=
  match body with
  | [] => []
  | PcAddPoint vs :: r => vs :: body_points r
  | _ :: r => body_points r
  end.
Fixpoint body_desc (body : list wcall) (d : pointcloud) : pointcloud :=
  match body with
  | [] => d
  | PcSet f :: r => body_desc r (pc_set f d)
  | _ :: r => body_desc r d
  end.

Definition same_top (st st' : wstate) : Prop :=
  ws_open st' = ws_open st /\ ws_root st' = ws_root st /\ ws_exts st' = ws_exts st /\
  ws_pcs st' = ws_pcs st /\ ws_imgs st' = ws_imgs st.

Lemma body_run : forall body st l l' st' rs ps,
  ws_inv st l -> ws_open st = true -> ws_sub st = SubPc ps ->
  Forall call_wf body -> Forall is_pc_body body ->
  wrun_spec (run st body) l = (l', Ok (st', rs)) -> Forall (fun r => r = CrOk) rs ->
  exists ps', ws_sub st' = SubPc ps' /\ same_top st st' /\ ws_inv st' l' /\
    ps_proto ps' = ps_proto ps /\
    points_fold (ps_proto ps) (body_points body) (ps_bounds ps) (ps_bounds ps') /\
    ps_desc ps' = body_desc body (ps_desc ps) /\
    w_point_count (ps_w ps') = w_point_count (ps_w ps) + len (body_points body) /\
    w_section_offset (ps_w ps') = w_section_offset (ps_w ps) /\
    ps_finalized ps' = ps_finalized ps.
Proof.
  induction body as [|c body IH]; intros st l l' st' rs ps Hinv Hopen Hsub Hwf Hbody Hrun Hok.
  - cbn [wapi_run wret wrun_spec] in Hrun. inversion Hrun; subst.
    exists ps. split; [exact Hsub|]. split; [unfold same_top; auto|]. split; [exact Hinv|].
    split; [reflexivity|]. split; [constructor|]. split; [reflexivity|].
    cbn [body_points]. rewrite pc_len_nil. split; [lia|]. split; reflexivity.
  - inversion Hwf as [|? ? Hc Hwf']; subst. inversion Hbody as [|? ? Hb Hbody']; subst.
    cbn [wapi_run] in Hrun. rewrite run_bind in Hrun.
    destruct (wapi_step_ok gen_xml lib_version gen_xml_total st l c Hinv Hc) as (l1 & st1 & x & Hrun1 & Hinv1 & _ & _).
    rewrite Hrun1 in Hrun. cbn [fst snd] in Hrun. rewrite run_bind in Hrun.
    destruct (wrun_spec (run st1 body) l1) as [l2 [[st2 xs]|k|]] eqn:E2; cbn [fst snd wret wrun_spec] in Hrun;
      try (inversion Hrun; fail).
    inversion Hrun; subst. clear Hrun. inversion Hok as [|? ? Hx Hok']; subst.
    pose proof Hinv as [Hlok Hs]. rewrite Hsub in Hs.
    unfold wapi_step in Hrun1. rewrite Hopen, Hsub in Hrun1. cbn [negb] in Hrun1.
    destruct c; try (destruct Hb; fail).
    + (* PcSet *)
      cbn [wret wrun_spec] in Hrun1. inversion Hrun1; subst. clear Hrun1.
      destruct (IH _ _ _ _ _ _ Hinv1 Hopen eq_refl Hwf' Hbody' E2 Hok') as (ps' & H1 & H2 & H3 & H4 & H5 & H6 & H7 & H8 & H9).
      exists ps'. split; [exact H1|]. split; [exact H2|]. split; [exact H3|]. split; [exact H4|].
      split; [exact H5|]. split; [exact H6|]. split; [exact H7|]. split; [exact H8|exact H9].
    + (* PcAddPoint *)
      rewrite run_bind in Hrun1.
      destruct (wrun_spec (pc_add_point values ps) l) as [la [[ps1 r1]|k|]] eqn:E1; cbn [fst snd wret wrun_spec] in Hrun1;
        try (inversion Hrun1; fail).
      inversion Hrun1; subst. clear Hrun1.
      destruct (pc_add_point_ok_inv values ps l l1 ps1 E1) as (Hfin & Hv & b1 & w' & Hub & Hps1 & Hrunw).
      destruct Hs as (Hp & Hmode).
      assert (Hlen : length values = length (ps_proto ps)).
      { rewrite (values_ok_length _ _ Hv), Hp. unfold proto_dtypes. apply map_length. }
      assert (Hcnt : w_point_count w' = w_point_count (ps_w ps) + 1 /\ w_section_offset w' = w_section_offset (ps_w ps)).
      { destruct Hmode as [Hf|(_ & Hlive & _)]; [congruence|].
        destruct (add_point_live values (ps_w ps) l Hlive Hlok Hv Hc) as (lx & wx & Hrx & _ & _ & _ & _ & Hso & Hcn).
        rewrite Hrunw in Hrx. inversion Hrx; subst. split; [exact Hcn|exact Hso]. }
      destruct Hcnt as [Hcnt Hso].
      assert (Hsub1 : ws_sub (set_sub st (SubPc ps1)) = SubPc ps1) by reflexivity.
      destruct (IH _ _ _ _ _ _ Hinv1 Hopen Hsub1 Hwf' Hbody' E2 Hok') as (ps' & H1 & H2 & H3 & H4 & H5 & H6 & H7 & H8 & H9).
      subst ps1. cbn [ps_proto ps_bounds ps_desc ps_w ps_finalized] in *.
      exists ps'. split; [exact H1|]. split; [exact H2|]. split; [exact H3|]. split; [exact H4|].
      split; [econstructor; [exact Hlen|exact Hub|exact H5]|]. split; [exact H6|].
      cbn [body_points]. rewrite pc_len_cons. split; [lia|]. split; congruence.
Qed.

(** The descriptor pushed by [finalize] after [add_pointcloud guid proto],
    any accepted sequence of setter and [add_point] calls, and [finalize]. *)
Theorem session : forall st l guid proto body l' st' rs,
  ws_inv st l -> ws_open st = true -> ws_sub st = SubNone ->
  proto_i64 proto -> Forall call_wf body -> Forall is_pc_body body ->
  wrun_spec (run st (AddPointcloud guid proto :: body ++ [PcFinalize])) l = (l', Ok (st', rs)) ->
  Forall (fun r => r = CrOk) rs ->
  exists pc b cl off,
    ws_pcs st' = ws_pcs st ++ [pc] /\
    validate_prototype proto = Ok tt /\
    default_color_limits proto = Ok cl /\
    points_fold proto (body_points body) (bounds_new proto) b /\
    pc = desc_finish (body_desc body (desc_new guid proto (default_intensity_limits proto) cl)) b off
                     (len (body_points body)).
Proof.
  intros st l guid proto body l' st' rs Hinv Hopen Hsub Hi64 Hwf Hbody Hrun Hok.
  pose proof Hinv as [Hlok _].
  cbn [wapi_run] in Hrun. rewrite run_bind in Hrun.
  assert (Hfirst : forall k l1, wrun_spec (step st (AddPointcloud guid proto)) l = (l1, Ok (st, CrErr k)) -> False).
  { intros k l1 H1. rewrite H1 in Hrun. cbn [fst snd] in Hrun. rewrite run_bind in Hrun.
    destruct (wrun_spec (run st (body ++ [PcFinalize])) l1) as [l2 [[st2 xs]|k2|]]; cbn [fst snd wret wrun_spec] in Hrun;
      try (inversion Hrun; fail).
    inversion Hrun; subst. inversion Hok as [|? ? Hx _]. discriminate. }
  assert (Hstep : exists l1 ps, wrun_spec (step st (AddPointcloud guid proto)) l = (l1, Ok (set_sub st (SubPc ps), CrOk)) /\
            pc_inv ps l1 /\ ls_ok l1 /\ ps_proto ps = proto /\ validate_prototype proto = Ok tt /\
            ps_bounds ps = bounds_new proto /\
            (exists cl, default_color_limits proto = Ok cl /\
                        ps_desc ps = desc_new guid proto (default_intensity_limits proto) cl) /\
            w_point_count (ps_w ps) = 0 /\ ps_finalized ps = false).
  { unfold wapi_step in Hfirst |- *. rewrite Hopen, Hsub in Hfirst |- *. cbn [negb] in Hfirst |- *.
    destruct (ws_finalized st); [exfalso; apply (Hfirst EInvalid l); reflexivity|].
    rewrite run_bind in Hfirst |- *.
    destruct (pc_new_step (ws_exts st) guid proto l Hlok Hi64)
      as [(k & H1)|(l1 & ps & H1 & Hpi & Hok1 & _ & Hpp & _ & Hv & _ & Hb & Hd & Hc & Hf)].
    - exfalso. apply (Hfirst k l). rewrite H1. reflexivity.
    - rewrite H1. cbn [fst snd wret wrun_spec]. exists l1, ps. split; [reflexivity|].
      repeat (split; [assumption|]). exact Hf. }
  destruct Hstep as (l1 & ps & Hs1 & Hpi & Hok1 & Hpp & Hv & Hb0 & (cl & Hcl & Hd0) & Hc0 & Hf0).
  rewrite Hs1 in Hrun. cbn [fst snd] in Hrun. rewrite run_bind in Hrun.
  set (st1 := set_sub st (SubPc ps)) in *.
  assert (Hinv1 : ws_inv st1 l1) by (split; [exact Hok1|exact Hpi]).
  (* split the run over body ++ [PcFinalize] *)
  assert (Happ : forall cs1 cs2 s l0,
            wrun_spec (run s (cs1 ++ cs2)) l0 =
            match wrun_spec (run s cs1) l0 with
            | (la, Ok (sa, ra)) =>
                match wrun_spec (run sa cs2) la with
                | (lb, Ok (sb, rb)) => (lb, Ok (sb, ra ++ rb))
                | (lb, Err k) => (lb, Err k)
                | (lb, Panic) => (lb, Panic)
                end
            | (la, Err k) => (la, Err k)
            | (la, Panic) => (la, Panic)
            end).
  { induction cs1 as [|c cs1 IHc]; intros cs2 s l0.
    - cbn [app wapi_run wret wrun_spec]. destruct (wrun_spec (run s cs2) l0) as [lb [[sb rb]|k|]]; reflexivity.
    - cbn [app wapi_run]. rewrite !run_bind.
      destruct (wrun_spec (step s c) l0) as [lx [[sx rx]|k|]]; cbn [fst snd]; try reflexivity.
      rewrite !run_bind, IHc.
      destruct (wrun_spec (run sx cs1) lx) as [la [[sa ra]|k|]]; cbn [fst snd wret wrun_spec]; try reflexivity.
      destruct (wrun_spec (run sa cs2) la) as [lb [[sb rb]|k|]]; cbn [fst snd wret wrun_spec]; reflexivity. }
  rewrite Happ in Hrun.
  destruct (wrun_spec (run st1 body) l1) as [l2 [[st2 rs2]|k|]] eqn:E2; cbn [fst snd] in Hrun;
    try (inversion Hrun; fail).
  destruct (wrun_spec (run st2 [PcFinalize]) l2) as [l3 [[st3 rs3]|k|]] eqn:E3; cbn [fst snd wret wrun_spec] in Hrun;
    try (inversion Hrun; fail).
  inversion Hrun; subst l' st' rs. clear Hrun.
  apply Forall_inv_tail in Hok. apply Forall_app in Hok as [Hok2 Hok3].
  destruct (body_run body st1 l1 l2 st2 rs2 ps Hinv1 Hopen eq_refl Hwf Hbody E2 Hok2)
    as (ps2 & Hsub2 & (Ho2 & _ & _ & Hpcs2 & _) & Hinv2 & Hp2 & Hfold & Hd2 & Hc2 & _ & Hf2).
  (* the finalize step *)
  cbn [wapi_run] in E3. rewrite run_bind in E3.
  unfold wapi_step in E3. rewrite Ho2 in E3. unfold st1 in E3. cbn [set_sub ws_open] in E3.
  rewrite Hopen, Hsub2 in E3. cbn [negb] in E3.
  destruct Hinv2 as [Hok2' Hpi2]. rewrite Hsub2 in Hpi2.
  destruct (pc_finalize_step ps2 l2 Hpi2 Hok2') as [(_ & Hrf)|(_ & _ & l4 & ps4 & d & Hrf & _ & _ & _ & Hd)].
  { exfalso. rewrite run_bind, Hrf in E3. cbn [fst snd wret wrun_spec] in E3. inversion E3; subst.
    inversion Hok3 as [|? ? Hx _]. discriminate. }
  rewrite run_bind, Hrf in E3. cbn [fst snd wret wrun_spec] in E3. inversion E3; subst l3 st3 rs3. clear E3.
  cbn [ws_pcs]. exists d, (ps_bounds ps2), cl, (w_section_offset (ps_w ps2)).
  split; [rewrite Hpcs2; reflexivity|]. split; [exact Hv|]. split; [exact Hcl|].
  split; [rewrite <- Hb0, <- Hpp; exact Hfold|].
  rewrite Hd, Hd2, Hd0, Hc2, Hc0. f_equal; try lia.
Qed.

(** * C14: the bounds of the descriptor *)

Definition blo (a : faxis) (proto : list record) (pts : list (list rvalue)) : option f64t :=
  option_map f64t_of (fold_min (attr_f a proto pts) None).
Definition bhi (a : faxis) (proto : list record) (pts : list (list rvalue)) : option f64t :=
  option_map f64t_of (fold_max (attr_f a proto pts) None).

Lemma desc_finish_bounds d b off n :
  pc_cartesian_bounds (desc_finish d b off n) = option_map cart_bounds_of (rb_cart b) /\
  pc_spherical_bounds (desc_finish d b off n) = option_map sph_bounds_of (rb_sph b) /\
  pc_index_bounds (desc_finish d b off n) = option_map idx_bounds_of (rb_idx b) /\
  pc_records (desc_finish d b off n) = n /\
  pc_intensity_limits (desc_finish d b off n) = pc_intensity_limits d /\
  pc_color_limits (desc_finish d b off n) = pc_color_limits d /\
  pc_prototype (desc_finish d b off n) = pc_prototype d.
Proof. destruct d. cbn. repeat split; reflexivity. Qed.

Theorem bounds_of_fold : forall proto pts b, points_fold proto pts (bounds_new proto) b ->
  option_map cart_bounds_of (rb_cart b) =
    (if contains proto CartesianX
     then Some (mkCb (blo FX proto pts) (bhi FX proto pts) (blo FY proto pts) (bhi FY proto pts)
                     (blo FZ proto pts) (bhi FZ proto pts)) else None) /\
  option_map sph_bounds_of (rb_sph b) =
    (if contains proto SphericalAzimuth
     then Some (mkSb (blo FRg proto pts) (bhi FRg proto pts) (blo FEl proto pts) (bhi FEl proto pts)
                     (blo FAz proto pts) (bhi FAz proto pts)) else None) /\
  option_map idx_bounds_of (rb_idx b) =
    (if contains proto ReturnIndex || contains proto ColumnIndex || contains proto RowIndex
     then Some (mkIb (zmin_list (attr_i IRow proto pts)) (zmax_list (attr_i IRow proto pts))
                     (zmin_list (attr_i ICol proto pts)) (zmax_list (attr_i ICol proto pts))
                     (zmin_list (attr_i IRet proto pts)) (zmax_list (attr_i IRet proto pts))) else None).
Proof.
  intros proto pts b Hf.
  pose proof (fun a => points_fold_f a proto pts _ _ Hf) as Ff.
  pose proof (fun a => points_fold_i a proto pts _ _ Hf) as Fi.
  unfold blo, bhi.
  split; [|split].
  - pose proof (Ff FX) as Hx. pose proof (Ff FY) as Hy. pose proof (Ff FZ) as Hz.
    cbn [fget bounds_new rb_cart] in Hx, Hy, Hz.
    destruct (contains proto CartesianX); cbn [option_map] in *.
    + destruct (rb_cart b) as [c|]; cbn [option_map] in *; [|discriminate].
      inversion Hx as [Hx']. inversion Hy as [Hy']. inversion Hz as [Hz']. cbn [cr_x cr_y cr_z] in *.
      unfold cart_bounds_of, mmf. cbn [fst snd]. rewrite Hx', Hy', Hz', !mm_fold_f_lo, !mm_fold_f_hi. reflexivity.
    + destruct (rb_cart b); [discriminate|reflexivity].
  - pose proof (Ff FAz) as Ha. pose proof (Ff FEl) as He. pose proof (Ff FRg) as Hr.
    cbn [fget bounds_new rb_sph] in Ha, He, Hr.
    destruct (contains proto SphericalAzimuth); cbn [option_map] in *.
    + destruct (rb_sph b) as [s|]; cbn [option_map] in *; [|discriminate].
      inversion Ha as [Ha']. inversion He as [He']. inversion Hr as [Hr']. cbn [sr_az sr_el sr_rg] in *.
      unfold sph_bounds_of, mmf. cbn [fst snd]. rewrite Ha', He', Hr', !mm_fold_f_lo, !mm_fold_f_hi. reflexivity.
    + destruct (rb_sph b); [discriminate|reflexivity].
  - pose proof (Fi IRow) as Hr. pose proof (Fi ICol) as Hc. pose proof (Fi IRet) as Ht.
    cbn [iget bounds_new rb_idx] in Hr, Hc, Ht.
    destruct (contains proto ReturnIndex || contains proto ColumnIndex || contains proto RowIndex); cbn [option_map] in *.
    + destruct (rb_idx b) as [i|]; cbn [option_map] in *; [|discriminate].
      inversion Hr as [Hr']. inversion Hc as [Hc']. inversion Ht as [Ht']. cbn [ir_row ir_col ir_ret] in *.
      unfold idx_bounds_of. rewrite Hr', Hc', Ht', !mm_fold_i_empty. reflexivity.
    + destruct (rb_idx b); [discriminate|reflexivity].
Qed.

Lemma body_desc_proto : forall body d, pc_prototype (body_desc body d) = pc_prototype d.
Proof.
  induction body as [|c r IH]; intros d; [reflexivity|].
  destruct c; cbn [body_desc]; try apply IH. rewrite IH. destruct d, f; reflexivity.
Qed.

(** C14, bounds: after [add_pointcloud guid proto], accepted setter / [add_point]
    calls and [finalize], the descriptor's bounds exist exactly for the
    attribute groups of the prototype and are the folds of minimum / maximum
    over the accepted points, the record count is their number. *)
Theorem session_bounds : forall st l guid proto body l' st' rs,
  ws_inv st l -> ws_open st = true -> ws_sub st = SubNone ->
  proto_i64 proto -> Forall call_wf body -> Forall is_pc_body body ->
  wrun_spec (run st (AddPointcloud guid proto :: body ++ [PcFinalize])) l = (l', Ok (st', rs)) ->
  Forall (fun r => r = CrOk) rs ->
  let pts := body_points body in
  exists pc, ws_pcs st' = ws_pcs st ++ [pc] /\
    pc_prototype pc = proto /\ pc_records pc = len pts /\
    pc_cartesian_bounds pc =
      (if contains proto CartesianX
       then Some (mkCb (blo FX proto pts) (bhi FX proto pts) (blo FY proto pts) (bhi FY proto pts)
                       (blo FZ proto pts) (bhi FZ proto pts)) else None) /\
    pc_spherical_bounds pc =
      (if contains proto SphericalAzimuth
       then Some (mkSb (blo FRg proto pts) (bhi FRg proto pts) (blo FEl proto pts) (bhi FEl proto pts)
                       (blo FAz proto pts) (bhi FAz proto pts)) else None) /\
    pc_index_bounds pc =
      (if contains proto ReturnIndex || contains proto ColumnIndex || contains proto RowIndex
       then Some (mkIb (zmin_list (attr_i IRow proto pts)) (zmax_list (attr_i IRow proto pts))
                       (zmin_list (attr_i ICol proto pts)) (zmax_list (attr_i ICol proto pts))
                       (zmin_list (attr_i IRet proto pts)) (zmax_list (attr_i IRet proto pts))) else None).
Proof.
  intros st l guid proto body l' st' rs Hinv Hopen Hsub Hi64 Hwf Hbody Hrun Hok pts.
  destruct (session st l guid proto body l' st' rs Hinv Hopen Hsub Hi64 Hwf Hbody Hrun Hok)
    as (pc & b & cl & off & Hpcs & _ & _ & Hfold & Hpc).
  exists pc. split; [exact Hpcs|].
  destruct (desc_finish_bounds (body_desc body (desc_new guid proto (default_intensity_limits proto) cl)) b off (len pts))
    as (D1 & D2 & D3 & D4 & _ & _ & D7).
  destruct (bounds_of_fold proto pts b Hfold) as (B1 & B2 & B3).
  subst pc. fold pts. rewrite D1, D2, D3, D4, D7, B1, B2, B3.
  split; [|split; [reflexivity|split; [reflexivity|split; reflexivity]]].
  rewrite body_desc_proto. reflexivity.
Qed.

(** C14, within: on NaN-free data every value that feeds an axis lies between
    the stored minimum and maximum ([<=] of Rust's f64, -0 = +0). *)
Theorem values_within : forall a proto pts lo hi,
  Forall not_nan (attr_f a proto pts) ->
  fold_min (attr_f a proto pts) None = Some lo -> fold_max (attr_f a proto pts) None = Some hi ->
  forall vs x, In vs pts -> In x (point_f a proto vs) -> f64_le lo x = true /\ f64_le x hi = true.
Proof.
  intros a proto pts lo hi Hn Hlo Hhi vs x Hvs Hx.
  assert (Hin : In x (attr_f a proto pts)) by (unfold attr_f; apply in_flat_map; exists vs; auto).
  pose proof (fold_min_spec _ Hn) as Smin. pose proof (fold_max_spec _ Hn) as Smax.
  destruct (attr_f a proto pts) as [|y r] eqn:E; [destruct Hin|].
  destruct Smin as (m & Hm & Hfm). destruct Smax as (M & HM & HfM).
  rewrite Hlo in Hm. rewrite Hhi in HM. inversion Hm; inversion HM; subst.
  destruct (first_min_lower _ _ Hn Hfm) as (_ & Hl). destruct (first_max_upper _ _ Hn HfM) as (_ & Hu).
  rewrite Forall_forall in Hl, Hu. split; [apply Hl|apply Hu]; exact Hin.
Qed.

(** C14, limits *)
Fixpoint body_ilim (body : list wcall) (cur : option intensity_limits) : option intensity_limits :=
  match body with
  | [] => cur
  | PcSet (PfIntensityLimits v) :: r => body_ilim r v
  | _ :: r => body_ilim r cur
  end.
Fixpoint body_clim (body : list wcall) (cur : option color_limits) : option color_limits :=
  match body with
  | [] => cur
  | PcSet (PfColorLimits v) :: r => body_clim r v
  | _ :: r => body_clim r cur
  end.

Lemma body_desc_limits : forall body d,
  pc_intensity_limits (body_desc body d) = body_ilim body (pc_intensity_limits d) /\
  pc_color_limits (body_desc body d) = body_clim body (pc_color_limits d).
Proof.
  induction body as [|c r IH]; intros d; [split; reflexivity|].
  destruct c; cbn [body_desc body_ilim body_clim]; try apply IH.
  destruct (IH (pc_set f d)) as [H1 H2]. rewrite H1, H2.
  destruct d, f; cbn; split; reflexivity.
Qed.

(** the declared range of a data type, as [RecordDataType::limits()] gives it *)
Definition declared_range (t : data_type) : option limit_value * option limit_value :=
  match t with
  | DSingle mn mx => (option_map LSingle mn, option_map LSingle mx)
  | DDouble mn mx => (option_map LDouble mn, option_map LDouble mx)
  | DScaledInteger mn mx _ _ => (Some (LScaledInteger mn), Some (LScaledInteger mx))
  | DInteger mn mx => (Some (LInteger mn), Some (LInteger mx))
  end.

Theorem session_limits : forall st l guid proto body l' st' rs,
  ws_inv st l -> ws_open st = true -> ws_sub st = SubNone ->
  proto_i64 proto -> Forall call_wf body -> Forall is_pc_body body ->
  wrun_spec (run st (AddPointcloud guid proto :: body ++ [PcFinalize])) l = (l', Ok (st', rs)) ->
  Forall (fun r => r = CrOk) rs ->
  exists pc, ws_pcs st' = ws_pcs st ++ [pc] /\
    pc_intensity_limits pc =
      body_ilim body (match get_rec proto Intensity with
                      | Some r => Some (mkIl (fst (declared_range (r_type r))) (snd (declared_range (r_type r))))
                      | None => None
                      end) /\
    pc_color_limits pc =
      body_clim body (match get_rec proto ColorRed, get_rec proto ColorGreen, get_rec proto ColorBlue with
                      | Some r, Some g, Some b =>
                          Some (mkCl (fst (declared_range (r_type r))) (snd (declared_range (r_type r)))
                                     (fst (declared_range (r_type g))) (snd (declared_range (r_type g)))
                                     (fst (declared_range (r_type b))) (snd (declared_range (r_type b))))
                      | _, _, _ => None
                      end).
Proof.
  intros st l guid proto body l' st' rs Hinv Hopen Hsub Hi64 Hwf Hbody Hrun Hok.
  destruct (session st l guid proto body l' st' rs Hinv Hopen Hsub Hi64 Hwf Hbody Hrun Hok)
    as (pc & b & cl & off & Hpcs & Hv & Hcl & _ & Hpc).
  exists pc. split; [exact Hpcs|].
  destruct (desc_finish_bounds (body_desc body (desc_new guid proto (default_intensity_limits proto) cl)) b off
              (len (body_points body))) as (_ & _ & _ & _ & D5 & D6 & _).
  destruct (body_desc_limits body (desc_new guid proto (default_intensity_limits proto) cl)) as (L1 & L2).
  subst pc. rewrite D5, D6, L1, L2. cbn [desc_new pc_intensity_limits pc_color_limits].
  split.
  - f_equal. unfold default_intensity_limits. destruct (get_rec proto Intensity) as [r|]; [|reflexivity].
    cbn [option_map]. unfold intensity_limits_of. destruct (r_type r); reflexivity.
  - f_equal. unfold default_color_limits in Hcl.
    apply validate_prototype_ok in Hv as (_ & _ & Hk & _).
    destruct (contains proto ColorRed) eqn:Ec.
    + destruct (get_rec proto ColorRed) as [r|]; [|discriminate].
      destruct (get_rec proto ColorGreen) as [g|]; [|discriminate].
      destruct (get_rec proto ColorBlue) as [bb|]; [|discriminate].
      inversion Hcl; subst. unfold color_limits_of.
      destruct (r_type r), (r_type g), (r_type bb); reflexivity.
    + inversion Hcl; subst. apply contains_false in Ec. apply get_rec_none in Ec. rewrite Ec. reflexivity.
Qed.

End Main.

(** * Examples: the hypotheses are satisfiable, the functions compute *)

Definition ex_gen (m : file_meta) : res (list N) := Ok [60; 120; 47; 62].
Definition D1 := VDouble 0x3ff0000000000000.   (* 1.0 *)
Definition D2 := VDouble 0x4000000000000000.   (* 2.0 *)
Definition Dm3 := VDouble 0xc008000000000000.  (* -3.0 *)
Definition ex_proto : list record :=
  [mkRecord CartesianX (DDouble None None); mkRecord CartesianY (DDouble None None);
   mkRecord CartesianZ (DScaledInteger (-10) 10 (mkF64 0xbfe0000000000000 []) (mkF64 0x3ff0000000000000 []));
   mkRecord RowIndex (DInteger 0 100); mkRecord ColumnIndex (DInteger (-5) 5);
   mkRecord Intensity (DInteger 0 255)].
Definition ex_calls : list wcall :=
  [NewWriter [103]; AddPointcloud [112] ex_proto;
   PcAddPoint [D1; D2; VScaled 4; VInteger 7; VInteger (-5); VInteger 200];
   PcAddPoint [D1; D2; VScaled 4; VInteger 700; VInteger 0; VInteger 2];      (* row out of range: rejected *)
   PcAddPoint [Dm3; D1; VScaled (-10); VInteger 3; VInteger 5; VInteger 0];
   PcAddPoint [D2; Dm3; VSingle 0; VInteger 3; VInteger 5; VInteger 0];        (* mistyped z: rejected *)
   PcFinalize; PcDrop; Finalize; Finalize].                                    (* second finalize: rejected *)

Example ex_results :
  exists l st, wrun_spec (wapi_run ex_gen [] ws_init ex_calls) ls_init =
    (l, Ok (st, [CrOk; CrOk; CrOk; CrErr EInvalid; CrOk; CrErr EInvalid; CrOk; CrOk; CrOk; CrErr EInvalid])) /\
    match ws_pcs st with
    | [pc] =>
        pc_records pc = 2 /\
        pc_cartesian_bounds pc =
          Some (mkCb (Some (mkF64 0xc008000000000000 [])) (Some (mkF64 0x3ff0000000000000 []))     (* x: -3 .. 1 *)
                     (Some (mkF64 0x3ff0000000000000 [])) (Some (mkF64 0x4000000000000000 []))     (* y: 1 .. 2 *)
                     (Some (mkF64 0xbff0000000000000 [])) (Some (mkF64 0x4018000000000000 []))) /\ (* z: 4*-0.5+1 = -1 .. -10*-0.5+1 = 6 *)
        pc_spherical_bounds pc = None /\
        pc_index_bounds pc = Some (mkIb (Some 3%Z) (Some 7%Z) (Some (-5)%Z) (Some 5%Z) None None) /\
        pc_intensity_limits pc = Some (mkIl (Some (LInteger 0)) (Some (LInteger 255))) /\
        pc_color_limits pc = None
    | _ => False
    end.
Proof. eexists. eexists. split; [vm_compute; reflexivity|]. vm_compute. repeat split; reflexivity. Qed.

(** C14, limits, second half (repair e77b8fe): limits set by the caller that are not complete
    make [finalize] fail with Invalid; nothing is pushed, the writer is unchanged. *)
Theorem incomplete_override_rejected : forall gen_xml lib_version st l ps,
  ws_open st = true -> ws_sub st = SubPc ps -> ps_finalized ps = false ->
  custom_limits_ok (ps_custom_il ps) (ps_custom_cl ps) (ps_desc ps) = false ->
  wrun_spec (wapi_step gen_xml lib_version st PcFinalize) l = (l, Ok (st, CrErr EInvalid)).
Proof.
  intros gen_xml lib_version st l ps Ho Hs Hf Hc. unfold wapi_step. rewrite Ho, Hs. cbn [negb].
  rewrite run_bind. unfold pc_finalize. rewrite Hf, Hc. cbn [negb wret wrun_spec fst snd].
  destruct st; cbn in *. subst. reflexivity.
Qed.

(** when the check fails: a setter was called and what it stored lacks a member *)
Lemma custom_limits_ok_false cil ccl d : custom_limits_ok cil ccl d = false ->
  (cil = true /\ exists l, pc_intensity_limits d = Some l /\ il_complete l = false) \/
  (ccl = true /\ exists l, pc_color_limits d = Some l /\ cl_complete l = false).
Proof.
  unfold custom_limits_ok. intros H. apply andb_false_iff in H as [H|H].
  - left. destruct cil; [|discriminate]. split; [reflexivity|].
    destruct (pc_intensity_limits d) as [l|]; [|discriminate]. eauto.
  - right. destruct ccl; [|discriminate]. split; [reflexivity|].
    destruct (pc_color_limits d) as [l|]; [|discriminate]. eauto.
Qed.
