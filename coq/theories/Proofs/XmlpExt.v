(** Extension lemmas for the XML parser model (Model/XmlParse.v): a successful parse of an
    element (attribute list, content, comment, ...) does not depend on what follows the bytes
    it consumed.  [x] is an arbitrary byte list appended to the input; the fuel is the same on
    both sides.  The scanners need side conditions (the unconditional statements are false:
    [scan_name_run] and [xml_char_ok] look ahead, [scan_text] stops at the end of input);
    the callers establish them from the success of what follows. *)
From Coq Require Import Lia ZifyN ZifyNat ZifyBool.
From E57 Require Import Base.Prelude Model.XmlTree Model.XmlParse Proofs.XmlpFuel.

(** * [strip_prefix] / [starts_with] *)

Lemma strip_prefix_ext : forall p s r x,
  strip_prefix p s = Some r -> strip_prefix p (s ++ x) = Some (r ++ x).
Proof.
  induction p as [|a p IH]; intros s r x H; cbn [strip_prefix] in H |- *.
  - inversion H; subst. reflexivity.
  - destruct s as [|y s']; [discriminate|]. cbn [app].
    destruct (a =? y); [|discriminate]. apply IH. exact H.
Qed.

Lemma strip_prefix_none_ext : forall p s x,
  strip_prefix p s = None -> (length p <= length s)%nat -> strip_prefix p (s ++ x) = None.
Proof.
  induction p as [|a p IH]; intros s x H Hl; cbn [strip_prefix] in H |- *.
  - discriminate.
  - destruct s as [|y s']; cbn [length] in Hl; [lia|]. cbn [app].
    destruct (a =? y); [|reflexivity]. apply IH; [exact H|lia].
Qed.

Lemma starts_with_true_ext : forall p s x,
  starts_with p s = true -> starts_with p (s ++ x) = true.
Proof.
  intros p s x H. unfold starts_with in *.
  destruct (strip_prefix p s) as [r|] eqn:E; [|discriminate].
  rewrite (strip_prefix_ext _ _ _ x E). reflexivity.
Qed.

Lemma starts_with_false_ext : forall p s x,
  starts_with p s = false -> (length p <= length s)%nat -> starts_with p (s ++ x) = false.
Proof.
  intros p s x H Hl. unfold starts_with in *.
  destruct (strip_prefix p s) as [r|] eqn:E; [discriminate|].
  rewrite (strip_prefix_none_ext _ _ x E Hl). reflexivity.
Qed.

(** * Blanks *)

Lemma is_space_lt : forall b, is_space b = true -> b < 128.
Proof. intros b H. unfold is_space in H. lia. Qed.

Lemma skip_spaces_ext : forall s x,
  skip_spaces s <> [] -> skip_spaces (s ++ x) = skip_spaces s ++ x.
Proof.
  induction s as [|b r IH]; intros x H; cbn [skip_spaces] in H; [congruence|].
  change ((b :: r) ++ x) with (b :: (r ++ x)). cbn [skip_spaces].
  destruct (is_space b); [apply IH; exact H|reflexivity].
Qed.

Lemma skip_spaces_cons_ext : forall s b r x,
  skip_spaces s = b :: r -> skip_spaces (s ++ x) = b :: r ++ x.
Proof.
  intros s b r x H. rewrite skip_spaces_ext; [rewrite H; reflexivity|].
  rewrite H. discriminate.
Qed.

Lemma starts_with_space_ext : forall s x,
  s <> [] -> starts_with_space (s ++ x) = starts_with_space s.
Proof. intros [|b r] x H; [congruence|reflexivity]. Qed.

(** a string whose first non-blank byte is ASCII starts with an ASCII byte *)
Lemma skip_spaces_head : forall s c r,
  skip_spaces s = c :: r -> c < 128 -> exists b s', s = b :: s' /\ b < 128.
Proof.
  intros [|b s'] c r H Hc; cbn [skip_spaces] in H; [discriminate|].
  exists b, s'. split; [reflexivity|].
  destruct (is_space b) eqn:E; [apply is_space_lt; exact E|].
  inversion H; subst. exact Hc.
Qed.

(** * [xml_char_ok] looks at two bytes *)

Lemma xml_char_ok_ext : forall b c r x,
  c < 128 \/ r <> [] -> xml_char_ok b ((c :: r) ++ x) = xml_char_ok b (c :: r).
Proof.
  intros b c r x H. unfold xml_char_ok.
  destruct (b <? 32); [reflexivity|].
  destruct (b =? 0xEF); [|reflexivity].
  destruct r as [|d r']; cbn [app]; [|reflexivity].
  destruct H as [H|H]; [|congruence].
  destruct x as [|b3 x']; [reflexivity|].
  assert (E : (c =? 0xBF) = false) by lia. rewrite E. reflexivity.
Qed.

(** * Scanning up to a terminator *)

Lemma scan_until_ext : forall pat s t r x,
  (2 <= length pat)%nat ->
  scan_until pat s = Some (t, r) -> scan_until pat (s ++ x) = Some (t, r ++ x).
Proof.
  intros pat s. induction s as [|b s' IH]; intros t r x Hp H; cbn [scan_until] in H; [discriminate|].
  change ((b :: s') ++ x) with (b :: (s' ++ x)). cbn [scan_until].
  change (b :: (s' ++ x)) with ((b :: s') ++ x).
  destruct (strip_prefix pat (b :: s')) as [rest|] eqn:Ep.
  - inversion H; subst. rewrite (strip_prefix_ext _ _ _ x Ep). reflexivity.
  - destruct (xml_char_ok b s') eqn:Ex; [|discriminate].
    destruct (scan_until pat s') as [[t' rest]|] eqn:Es; [|discriminate].
    inversion H; subst. clear H.
    pose proof (scan_until_length _ _ _ _ Es) as Hl.
    rewrite (strip_prefix_none_ext _ _ x Ep) by (cbn [length]; lia).
    rewrite (IH _ _ x Hp eq_refl).
    destruct s' as [|c s'']; [cbn [length] in Hl; lia|].
    rewrite xml_char_ok_ext.
    + rewrite Ex. reflexivity.
    + right. destruct s''; [cbn [length] in Hl; lia|discriminate].
Qed.

Lemma scan_attr_value_ext : forall q s v r x,
  q < 128 ->
  scan_attr_value q s = Some (v, r) -> scan_attr_value q (s ++ x) = Some (v, r ++ x).
Proof.
  intros q s. induction s as [|b s' IH]; intros v r x Hq H; cbn [scan_attr_value] in H; [discriminate|].
  change ((b :: s') ++ x) with (b :: (s' ++ x)). cbn [scan_attr_value].
  destruct (b =? q) eqn:Ebq.
  - inversion H; subst. reflexivity.
  - destruct (b =? 60); [discriminate|].
    destruct (xml_char_ok b s') eqn:Ex; [|discriminate].
    destruct (scan_attr_value q s') as [[v' rest]|] eqn:Es; [|discriminate].
    inversion H; subst. clear H.
    rewrite (IH _ _ x Hq eq_refl).
    destruct s' as [|c s'']; [discriminate Es|].
    rewrite xml_char_ok_ext.
    + rewrite Ex. reflexivity.
    + destruct s'' as [|d s3]; [left|right; discriminate].
      cbn [scan_attr_value] in Es.
      destruct (c =? q) eqn:Ecq; [lia|].
      destruct (c =? 60); [discriminate|].
      destruct (xml_char_ok c []); discriminate.
Qed.

(** [r <> []]: the scan stopped at a '<', not at the end of the input *)
Lemma scan_text_ext : forall s t r x,
  scan_text s = Some (t, r) -> r <> [] -> scan_text (s ++ x) = Some (t, r ++ x).
Proof.
  induction s as [|b s' IH]; intros t r x H Hr; cbn [scan_text] in H.
  - inversion H; subst. congruence.
  - change ((b :: s') ++ x) with (b :: (s' ++ x)). cbn [scan_text].
    destruct (b =? 60) eqn:Eb.
    + inversion H; subst. reflexivity.
    + destruct (xml_char_ok b s') eqn:Ex; [|discriminate].
      destruct (scan_text s') as [[t' rest]|] eqn:Es; [|discriminate].
      inversion H; subst. clear H.
      rewrite (IH _ _ x eq_refl Hr).
      destruct s' as [|c s'']; [cbn [scan_text] in Es; inversion Es; subst; congruence|].
      rewrite xml_char_ok_ext.
      * rewrite Ex. reflexivity.
      * destruct s'' as [|d s3]; [left|right; discriminate].
        cbn [scan_text] in Es.
        destruct (c =? 60) eqn:Ec; [lia|].
        destruct (xml_char_ok c []); [|discriminate].
        inversion Es; subst. congruence.
Qed.

(** * Names *)

(** where [scan_name_run] stops for a reason that more input cannot change: at an ASCII byte, or
    at a multi-byte character that is completely there (the decision reads at most 4 bytes) *)
Definition stable_stop (r : list N) : Prop :=
  match r with [] => False | b :: _ => b < 128 \/ (4 <= length r)%nat end.

Lemma stable_stop_lt : forall b r, b < 128 -> stable_stop (b :: r).
Proof. intros b r H. left. exact H. Qed.

Lemma stable_stop_len : forall r, (4 <= length r)%nat -> stable_stop r.
Proof. intros [|b r] H; cbn [length] in H; [lia|]. right. exact H. Qed.

Lemma stable_stop_nonnil : forall r, stable_stop r -> r <> [].
Proof. intros [|b r] H; [exact (False_ind _ H)|discriminate]. Qed.

Lemma scan_name_run_ext_aux : forall k s n r x,
  (length s <= k)%nat -> scan_name_run s = (n, r) -> stable_stop r ->
  scan_name_run (s ++ x) = (n, r ++ x).
Proof.
  induction k as [|k IH]; intros s n r x Hk H Hst.
  - destruct s; [|cbn [length] in Hk; lia].
    cbn [scan_name_run] in H. inversion H; subst. exact (False_ind _ Hst).
  - destruct s as [|b s']; cbn [scan_name_run] in H.
    + inversion H; subst. exact (False_ind _ Hst).
    + cbn [length] in Hk.
      change ((b :: s') ++ x) with (b :: (s' ++ x)). cbn [scan_name_run].
      assert (Hstop : forall n0 r0 : list N, (@nil N, b :: s') = (n0, r0) -> stable_stop r0 ->
                (@nil N, b :: s' ++ x) = (n0, r0 ++ x)).
      { intros n0 r0 E _. inversion E; subst. reflexivity. }
      assert (Hrec : forall pre y n0 r0 : list N,
                (length y <= k)%nat ->
                (let '(n1, r') := scan_name_run y in (pre ++ n1, r')) = (n0, r0) ->
                stable_stop r0 ->
                (let '(n1, r') := scan_name_run (y ++ x) in (pre ++ n1, r')) = (n0, r0 ++ x)).
      { intros pre y n0 r0 Hy E Hs0.
        destruct (scan_name_run y) as [n1 r1] eqn:Ey. inversion E; subst.
        rewrite (IH _ _ _ x Hy Ey Hs0). reflexivity. }
      destruct (b <? 128) eqn:E1.
      { destruct (is_name_ascii b).
        - apply (Hrec [b] s'); [lia|exact H|exact Hst].
        - apply Hstop; assumption. }
      destruct (b <? 224) eqn:E2.
      { destruct s' as [|b2 r2].
        - inversion H; subst. unfold stable_stop in Hst. cbn [length] in Hst. lia.
        - cbn [app]. cbn [length] in Hk. destruct (is_name_cp (cp2 b b2)).
          + apply (Hrec [b; b2] r2); [lia|exact H|exact Hst].
          + apply (Hstop _ _ H Hst). }
      destruct (b <? 240) eqn:E3.
      { destruct s' as [|b2 [|b3 r3]];
          try (inversion H; subst; unfold stable_stop in Hst; cbn [length] in Hst; lia).
        cbn [app]. cbn [length] in Hk. destruct (is_name_cp (cp3 b b2 b3)).
        + apply (Hrec [b; b2; b3] r3); [lia|exact H|exact Hst].
        + apply (Hstop _ _ H Hst). }
      destruct s' as [|b2 [|b3 [|b4 r4]]];
        try (inversion H; subst; unfold stable_stop in Hst; cbn [length] in Hst; lia).
      cbn [app]. cbn [length] in Hk. destruct (is_name_cp (cp4 b b2 b3 b4)).
      * apply (Hrec [b; b2; b3; b4] r4); [lia|exact H|exact Hst].
      * apply (Hstop _ _ H Hst).
Qed.

Lemma scan_name_run_ext : forall s n r x,
  scan_name_run s = (n, r) -> stable_stop r -> scan_name_run (s ++ x) = (n, r ++ x).
Proof. intros s n r x. apply (scan_name_run_ext_aux (length s)). lia. Qed.

Lemma scan_qname_ext : forall s p l r x,
  scan_qname s = Some (p, l, r) -> stable_stop r -> scan_qname (s ++ x) = Some (p, l, r ++ x).
Proof.
  intros s p l r x H Hst. unfold scan_qname in *.
  destruct (scan_name_run s) as [run rest] eqn:E.
  assert (Hr : rest = r).
  { destruct (split_colon run) as [a [l'|]].
    - destruct (has_colon l'); [discriminate|].
      destruct ((is_nil a || first_name_start a) && first_name_start l'); [|discriminate].
      inversion H; reflexivity.
    - destruct (first_name_start a); [|discriminate]. inversion H; reflexivity. }
  subst rest. rewrite (scan_name_run_ext _ _ _ x E Hst).
  destruct (split_colon run) as [a [l'|]].
  - destruct (has_colon l'); [discriminate|].
    destruct ((is_nil a || first_name_start a) && first_name_start l'); [|discriminate].
    inversion H; subst. reflexivity.
  - destruct (first_name_start a); [|discriminate]. inversion H; subst. reflexivity.
Qed.

Lemma scan_name_ext : forall s n r x,
  scan_name s = Some (n, r) -> stable_stop r -> scan_name (s ++ x) = Some (n, r ++ x).
Proof.
  intros s n r x H Hst. unfold scan_name in *.
  destruct (scan_name_run s) as [run rest] eqn:E.
  destruct (first_name_start run) eqn:Ef; [|discriminate].
  inversion H; subst. rewrite (scan_name_run_ext _ _ _ x E Hst). rewrite Ef. reflexivity.
Qed.

(** * Attributes *)

Lemma consume_eq_inv : forall s r,
  consume_eq s = Some r -> exists r1, skip_spaces s = 61 :: r1 /\ r = skip_spaces r1.
Proof.
  intros s r H. unfold consume_eq in H.
  destruct (skip_spaces s) as [|c r0]; [discriminate|].
  num_cases H c. inversion H; subst. exists r0. split; reflexivity.
Qed.

Lemma consume_eq_ext : forall s r x,
  consume_eq s = Some r -> r <> [] -> consume_eq (s ++ x) = Some (r ++ x).
Proof.
  intros s r x H Hr. apply consume_eq_inv in H. destruct H as [r1 [H1 H2]]. subst r.
  unfold consume_eq. rewrite (skip_spaces_cons_ext _ _ _ x H1).
  rewrite (skip_spaces_ext _ x Hr). reflexivity.
Qed.

(** what [consume_eq] accepts starts with an ASCII byte *)
Lemma consume_eq_head : forall s r, consume_eq s = Some r -> stable_stop s.
Proof.
  intros s r H. apply consume_eq_inv in H. destruct H as [r1 [H1 _]].
  apply skip_spaces_head in H1; [|lia]. destruct H1 as [b [s' [-> Hb]]].
  apply stable_stop_lt. exact Hb.
Qed.

Lemma scan_attribute_ext : forall s p l v r x,
  scan_attribute s = Some (p, l, v, r) -> scan_attribute (s ++ x) = Some (p, l, v, r ++ x).
Proof.
  intros s p l v r x H. unfold scan_attribute in *.
  destruct (scan_qname s) as [[[p0 l0] r0]|] eqn:Eq; [|discriminate].
  destruct (consume_eq r0) as [[|q r1]|] eqn:Ec; try discriminate.
  rewrite (scan_qname_ext _ _ _ _ x Eq (consume_eq_head _ _ Ec)).
  rewrite (consume_eq_ext _ _ x Ec) by discriminate.
  cbn [app].
  destruct ((q =? 34) || (q =? 39)) eqn:Eqq; [|discriminate].
  destruct (scan_attr_value q r1) as [[v0 rest]|] eqn:Ev; [|discriminate].
  inversion H; subst.
  assert (Hq : q < 128) by lia.
  rewrite (scan_attr_value_ext _ _ _ _ x Hq Ev). reflexivity.
Qed.

(** * Comments and processing instructions *)

Lemma parse_comment_ext : forall s n r x,
  parse_comment s = Some (n, r) -> parse_comment (s ++ x) = Some (n, r ++ x).
Proof.
  intros s n r x H. unfold parse_comment in *.
  destruct (scan_until s_comment_end s) as [[t rest]|] eqn:E; [|discriminate].
  assert (Hp : (2 <= length s_comment_end)%nat) by (cbn [length s_comment_end]; lia).
  rewrite (scan_until_ext _ _ _ _ x Hp E).
  destruct (contains s_dashdash t || ends_with_dash t); [discriminate|].
  inversion H; subst. reflexivity.
Qed.

(** [rest <> []]: when the target is followed directly by a non-ASCII byte, the decision that
    the target ends there needs the whole character *)
Lemma parse_pi_ext : forall s n rest x,
  parse_pi s = Some (n, rest) -> rest <> [] -> parse_pi (s ++ x) = Some (n, rest ++ x).
Proof.
  intros s n rest x H Hr. unfold parse_pi in *.
  destruct (starts_with s_xml_sp s) eqn:Esw; [discriminate|].
  destruct (scan_name s) as [[target r]|] eqn:En; [|discriminate].
  destruct (scan_until s_pi_end (skip_spaces r)) as [[c rest0]|] eqn:Eu; [|discriminate].
  inversion H; subst. clear H.
  pose proof (scan_until_length _ _ _ _ Eu) as Hl.
  change (length s_pi_end) with 2%nat in Hl.
  pose proof (skip_spaces_length r) as Hsl.
  pose proof (scan_name_rest _ _ _ En) as Hn.
  assert (Hrl : (1 <= length rest)%nat).
  { destruct rest; [congruence|cbn [length]; lia]. }
  assert (Hss : skip_spaces r <> []).
  { intro E. rewrite E in Hl. cbn [length] in Hl. lia. }
  assert (Hst : stable_stop r).
  { destruct r as [|b r']; [exfalso; apply Hss; reflexivity|].
    unfold stable_stop. destruct (b <? 128) eqn:Eb; [left; lia|]. right.
    assert (Hsp : is_space b = false) by (unfold is_space; lia).
    cbn [skip_spaces] in Eu, Hl. rewrite Hsp in Eu, Hl.
    destruct c as [|c0 c'].
    - exfalso. cbn [scan_until] in Eu. unfold s_pi_end in Eu. cbn [strip_prefix] in Eu.
      assert (E63 : (63 =? b) = false) by lia. rewrite E63 in Eu.
      destruct (xml_char_ok b r'); [|discriminate].
      destruct (scan_until [63; 62] r') as [[t0 r0]|]; discriminate.
    - cbn [length] in Hl |- *. lia. }
  rewrite (starts_with_false_ext _ _ x Esw) by (change (length s_xml_sp) with 4%nat; lia).
  rewrite (scan_name_ext _ _ _ x En Hst).
  rewrite (skip_spaces_ext _ x Hss).
  assert (Hp : (2 <= length s_pi_end)%nat) by (cbn [length s_pi_end]; lia).
  rewrite (scan_until_ext _ _ _ _ x Hp Eu).
  reflexivity.
Qed.

(** * The attribute loop *)

(** what [parse_attrs] accepts starts with an ASCII byte: a blank, '/' or '>' *)
Lemma parse_attrs_head : forall f s v, parse_attrs f s = POk v -> stable_stop s.
Proof.
  intros [|f] s v H; cbn [parse_attrs] in H; [discriminate|].
  destruct s as [|b0 s']; [discriminate|].
  apply stable_stop_lt.
  unfold starts_with_space in H. cbn [skip_spaces] in H.
  destruct (is_space b0) eqn:Esp; [apply is_space_lt; exact Esp|].
  destruct (b0 =? 47) eqn:E47; [lia|].
  destruct (b0 =? 62) eqn:E62; [lia|].
  cbn [negb] in H. discriminate.
Qed.

Lemma parse_attrs_ext : forall f s l e r x,
  parse_attrs f s = POk (l, e, r) -> parse_attrs f (s ++ x) = POk (l, e, r ++ x).
Proof.
  induction f as [|f IH]; intros s l e r x H; cbn [parse_attrs] in H |- *; [discriminate|].
  destruct (skip_spaces s) as [|b r0] eqn:Es; [discriminate|].
  assert (Hs : s <> []) by (intro; subst; discriminate).
  rewrite (skip_spaces_cons_ext _ _ _ x Es). rewrite (starts_with_space_ext _ x Hs).
  destruct (b =? 47).
  { destruct r0 as [|c r1]; [discriminate|].
    num_cases H c. inversion H; subst. reflexivity. }
  destruct (b =? 62).
  { inversion H; subst. reflexivity. }
  destruct (negb (starts_with_space s)); [discriminate|].
  destruct (scan_attribute (b :: r0)) as [[[[p l0] v] rest]|] eqn:Ea;
    cbn [of_opt pbind] in H; [|discriminate].
  change (b :: r0 ++ x) with ((b :: r0) ++ x).
  rewrite (scan_attribute_ext _ _ _ _ _ x Ea). cbn [of_opt pbind].
  destruct (normalize_attr v) as [v'|]; cbn [of_opt pbind] in H |- *; [|discriminate].
  destruct (parse_attrs f rest) as [[[l' e'] rest']| |] eqn:Ep; cbn [pbind] in H; try discriminate.
  inversion H; subst. rewrite (IH _ _ _ _ x Ep). reflexivity.
Qed.

(** * Elements *)

Lemma parse_element_with_ext : forall fa content ps s n cnt r x,
  (forall sc p l s' ch c r', content sc p l s' = POk (ch, c, r') ->
                             content sc p l (s' ++ x) = POk (ch, c, r' ++ x)) ->
  parse_element_with fa content ps s = POk (n, cnt, r) ->
  parse_element_with fa content ps (s ++ x) = POk (n, cnt, r ++ x).
Proof.
  intros fa content ps s n cnt r x Hc H. unfold parse_element_with in *.
  destruct (scan_qname s) as [[[prefix local] r0]|] eqn:Eq; cbn [of_opt pbind] in H; [|discriminate].
  destruct (xstr_eqb prefix s_xmlns) eqn:Ex; [discriminate|].
  destruct (parse_attrs fa r0) as [[[raw e] rest]| |] eqn:Ea; cbn [pbind] in H; try discriminate.
  rewrite (scan_qname_ext _ _ _ _ x Eq (parse_attrs_head _ _ _ Ea)). cbn [of_opt pbind].
  rewrite Ex. rewrite (parse_attrs_ext _ _ _ _ _ x Ea). cbn [pbind].
  destruct (split_attrs raw [] []) as [[own plain]|]; cbn [of_opt pbind] in H |- *; [|discriminate].
  destruct (resolve_attrs (resolve_scope ps own) plain []) as [attrs|];
    cbn [of_opt pbind] in H |- *; [|discriminate].
  destruct (ns_by_prefix prefix (resolve_scope ps own)) as [ns|];
    cbn [of_opt pbind] in H |- *; [|discriminate].
  destruct e.
  - inversion H; subst. reflexivity.
  - destruct (content (resolve_scope ps own) prefix local rest) as [[[ch c] rest']| |] eqn:Ec;
      cbn [pbind] in H; try discriminate.
    inversion H; subst. rewrite (Hc _ _ _ _ _ _ _ Ec). reflexivity.
Qed.

Lemma parse_content_nonnil : forall f sc pp pl v, parse_content f sc pp pl [] <> POk v.
Proof. intros [|f] sc pp pl v; cbn [parse_content]; discriminate. Qed.

Lemma parse_content_ok_nonnil : forall f sc pp pl s v,
  parse_content f sc pp pl s = POk v -> s <> [].
Proof. intros f sc pp pl s v H E. subst s. exact (parse_content_nonnil _ _ _ _ _ H). Qed.

Lemma parse_content_ext : forall f sc pp pl s ch cnt r x,
  parse_content f sc pp pl s = POk (ch, cnt, r) ->
  parse_content f sc pp pl (s ++ x) = POk (ch, cnt, r ++ x).
Proof.
  induction f as [|f IH]; intros sc pp pl s ch cnt r x H; cbn [parse_content] in H; [discriminate|].
  destruct s as [|b s']; [discriminate|].
  change ((b :: s') ++ x) with (b :: (s' ++ x)). cbn [parse_content].
  destruct (b =? 60) eqn:Eb.
  - destruct s' as [|c r2]; [discriminate|]. cbn [app].
    destruct (c =? 33).
    { destruct (strip_prefix s_dashdash r2) as [r3|] eqn:E1.
      - rewrite (strip_prefix_ext _ _ _ x E1).
        destruct (parse_comment r3) as [[n rest]|] eqn:Ec; cbn [of_opt pbind] in H; [|discriminate].
        rewrite (parse_comment_ext _ _ _ x Ec). cbn [of_opt pbind].
        destruct (parse_content f sc pp pl rest) as [[[ch' cnt'] rest']| |] eqn:Ep;
          cbn [pbind] in H; try discriminate.
        inversion H; subst. rewrite (IH _ _ _ _ _ _ _ x Ep). reflexivity.
      - destruct (strip_prefix s_cdata_open r2) as [r3|] eqn:E2; [|discriminate].
        pose proof (strip_prefix_length _ _ _ E2) as Hl2.
        change (length s_cdata_open) with 7%nat in Hl2.
        rewrite (strip_prefix_none_ext _ _ x E1)
          by (change (length s_dashdash) with 2%nat; lia).
        rewrite (strip_prefix_ext _ _ _ x E2).
        destruct (scan_until s_cdata_end r3) as [[t rest]|] eqn:Ec;
          cbn [of_opt pbind] in H; [|discriminate].
        assert (Hp : (2 <= length s_cdata_end)%nat) by (cbn [length s_cdata_end]; lia).
        rewrite (scan_until_ext _ _ _ _ x Hp Ec).
        cbn [of_opt pbind].
        destruct (parse_content f sc pp pl rest) as [[[ch' cnt'] rest']| |] eqn:Ep;
          cbn [pbind] in H; try discriminate.
        inversion H; subst. rewrite (IH _ _ _ _ _ _ _ x Ep). reflexivity. }
    destruct (c =? 63).
    { destruct (parse_pi r2) as [[n rest]|] eqn:Ec; cbn [of_opt pbind] in H; [|discriminate].
      destruct (parse_content f sc pp pl rest) as [[[ch' cnt'] rest']| |] eqn:Ep;
        cbn [pbind] in H; try discriminate.
      rewrite (parse_pi_ext _ _ _ x Ec (parse_content_ok_nonnil _ _ _ _ _ _ Ep)).
      cbn [of_opt pbind].
      inversion H; subst. rewrite (IH _ _ _ _ _ _ _ x Ep). reflexivity. }
    destruct (c =? 47).
    { destruct (scan_qname r2) as [[[p l] r3]|] eqn:Eq; cbn [of_opt pbind] in H; [|discriminate].
      destruct (skip_spaces r3) as [|d rest] eqn:Es; [discriminate|].
      num_cases H d.
      assert (Hst : stable_stop r3).
      { apply skip_spaces_head in Es; [|lia]. destruct Es as [b0 [s0 [-> Hb0]]].
        apply stable_stop_lt. exact Hb0. }
      rewrite (scan_qname_ext _ _ _ _ x Eq Hst). cbn [of_opt pbind].
      rewrite (skip_spaces_cons_ext _ _ _ x Es).
      destruct (xstr_eqb p pp && xstr_eqb l pl); [|discriminate].
      inversion H; subst. reflexivity. }
    destruct (parse_element_with f (parse_content f) (Some sc) (c :: r2)) as [[[n c1] rest]| |] eqn:Ee;
      cbn [pbind] in H; try discriminate.
    change (c :: r2 ++ x) with ((c :: r2) ++ x).
    rewrite (parse_element_with_ext _ _ _ _ _ _ _ x
               (fun sc0 p0 l0 s0 ch0 c0 r0 H0 => IH sc0 p0 l0 s0 ch0 c0 r0 x H0) Ee).
    cbn [pbind].
    destruct (parse_content f sc pp pl rest) as [[[ch' cnt'] rest']| |] eqn:Ep;
      cbn [pbind] in H; try discriminate.
    inversion H; subst. rewrite (IH _ _ _ _ _ _ _ x Ep). reflexivity.
  - destruct (scan_text (b :: s')) as [[t rest]|] eqn:Et; cbn [of_opt pbind] in H; [|discriminate].
    destruct (contains s_cdata_end t) eqn:Ect; [discriminate|].
    destruct (process_text t) as [t'|] eqn:Ept; cbn [of_opt pbind] in H; [|discriminate].
    destruct (parse_content f sc pp pl rest) as [[[ch' cnt'] rest']| |] eqn:Ep;
      cbn [pbind] in H; try discriminate.
    change (b :: s' ++ x) with ((b :: s') ++ x).
    rewrite (scan_text_ext _ _ _ x Et (parse_content_ok_nonnil _ _ _ _ _ _ Ep)).
    cbn [of_opt pbind]. rewrite Ect, Ept. cbn [of_opt pbind].
    inversion H; subst. rewrite (IH _ _ _ _ _ _ _ x Ep). reflexivity.
Qed.

Lemma parse_element_ext : forall f ps s n cnt r x,
  parse_element f ps s = POk (n, cnt, r) -> parse_element f ps (s ++ x) = POk (n, cnt, r ++ x).
Proof.
  intros f ps s n cnt r x H. unfold parse_element in *.
  apply parse_element_with_ext; [|exact H].
  intros sc p l s' ch c r' H0. apply parse_content_ext. exact H0.
Qed.

(** * Miscellaneous nodes before / after the root *)

Lemma strip_prefix_pi_open_inv : forall s r,
  strip_prefix s_pi_open s = Some r -> s = 60 :: 63 :: r.
Proof.
  intros s r H. unfold s_pi_open in H. cbn [strip_prefix] in H.
  destruct s as [|a [|b s']]; try discriminate.
  - destruct (60 =? a); discriminate.
  - destruct (60 =? a) eqn:Ea; [|discriminate].
    destruct (63 =? b) eqn:Eb; [|discriminate].
    inversion H; subst. f_equal; [lia|]. f_equal. lia.
Qed.

(** the rest [60 :: b :: r] with [b] neither '!' nor '?': [parse_misc] stopped at the root's
    start tag (or at an end tag), not at the end of the input *)
Lemma parse_misc_ext : forall f s l b r x,
  parse_misc f s = POk (l, 60 :: b :: r) -> b <> 33 -> b <> 63 ->
  parse_misc f (s ++ x) = POk (l, 60 :: b :: r ++ x).
Proof.
  induction f as [|f IH]; intros s l b r x H Hb1 Hb2; cbn [parse_misc] in H |- *; [discriminate|].
  destruct (strip_prefix s_comment_open (skip_spaces s)) as [r0|] eqn:E1.
  { assert (Hss : skip_spaces s <> []) by (intro E; rewrite E in E1; discriminate).
    rewrite (skip_spaces_ext _ x Hss). rewrite (strip_prefix_ext _ _ _ x E1).
    destruct (parse_comment r0) as [[c rest]|] eqn:Ec; cbn [of_opt pbind] in H; [|discriminate].
    rewrite (parse_comment_ext _ _ _ x Ec). cbn [of_opt pbind].
    destruct (parse_misc f rest) as [[l' rest']| |] eqn:Ep; cbn [pbind] in H; try discriminate.
    inversion H; subst. rewrite (IH _ _ _ _ x Ep Hb1 Hb2). reflexivity. }
  destruct (strip_prefix s_pi_open (skip_spaces s)) as [r0|] eqn:E2.
  { apply strip_prefix_pi_open_inv in E2.
    rewrite (skip_spaces_cons_ext _ _ _ x E2). cbn [app].
    replace (strip_prefix s_comment_open (60 :: 63 :: r0 ++ x)) with (@None (list N)) by reflexivity.
    replace (strip_prefix s_pi_open (60 :: 63 :: r0 ++ x)) with (Some (r0 ++ x)) by reflexivity.
    destruct (parse_pi r0) as [[c rest]|] eqn:Ec; cbn [of_opt pbind] in H; [|discriminate].
    destruct (parse_misc f rest) as [[l' rest']| |] eqn:Ep; cbn [pbind] in H; try discriminate.
    inversion H; subst.
    assert (Hr : rest <> []).
    { apply parse_misc_rest in Ep. intro E. subst rest. cbn [length] in Ep. lia. }
    rewrite (parse_pi_ext _ _ _ x Ec Hr). cbn [of_opt pbind].
    rewrite (IH _ _ _ _ x Ep Hb1 Hb2). reflexivity. }
  inversion H as [[Hl Hs1]]. subst l.
  rewrite (skip_spaces_cons_ext _ _ _ x Hs1). cbn [app].
  unfold s_comment_open, s_pi_open. cbn [strip_prefix].
  change (60 =? 60) with true. cbn iota.
  destruct (N.eqb_spec 33 b) as [E|_]; [congruence|].
  destruct (N.eqb_spec 63 b) as [E|_]; [congruence|].
  reflexivity.
Qed.
