(** The reader statements of the page layer (C11, and the page-level core of
    C07/C17): the cache of the paged reader model is transparent and never
    serves a page with a bad checksum (R1); on a well-formed image the
    validating reader returns the logical stream (R2); facts about [paginate]. *)
From E57 Require Import Base.Prelude Model.Crc Model.Device Model.PagedReader Spec.PageSpec Spec.PageReadSpec.
From E57 Require Import Proofs.PageSpecLemmas Proofs.PagedReaderCache Proofs.PagedReaderLogical.
From Coq Require Import ZifyN ZifyNat ZifyBool.
Ltac Zify.zify_post_hook ::= Z.div_mod_to_equations.

(* R1: the cache is transparent and a page with a bad checksum is never served:
   for ANY device contents (valid or corrupted, any page size the constructor accepts), ANY history of
   operations (including failed ones), the reader model returns exactly what the cache-less validating
   reader returns. *)
Theorem pr_run_equiv : forall (ps : N) (phys : list N) (d1 : dev) (s0 : pr) (ops : list pr_op),
  pr_new ps (dev_init phys None) = (d1, Ok s0) ->
  snd (pr_run ops s0) = gr_run ps phys ops 0.
Proof.
  intros ps phys d1 s0 ops H.
  destruct (pr_new_inv ps phys d1 s0 H) as [I Ho].
  rewrite (pr_run_spec ps phys ops s0 I), Ho. reflexivity.
Qed.

(* R2: on a well-formed image the validating reader returns the logical stream. *)
Theorem gr_run_paginate : forall (log : list N) (ops : list pr_op),
  log <> [] -> len log mod 1020 = 0 ->
  gr_run 1024 (paginate log) ops 0 = lr_run log ops 0.
Proof.
  intros log ops _ Hmod. apply gr_run_log. exact Hmod.
Qed.

(* paginate facts *)
Lemma paginate_length : forall data, len (paginate data) = pages_for (len data) * 1024.
Proof. exact len_paginate. Qed.

Lemma paginate_all_valid : forall data, all_pages_valid (paginate data) = true.
Proof.
  intros data. unfold all_pages_valid.
  rewrite len_paginate. unfold PAGE_SZ.
  apply andb_true_intro. split.
  - apply N.eqb_eq. lia.
  - apply forallb_forall. intros p Hp. apply in_seq in Hp.
    assert (Hp' : N.of_nat p < pages_for (len data)) by lia.
    change (page_of (paginate data) (N.of_nat p)) with (page_at 1024 (paginate data) (N.of_nat p)).
    rewrite page_at_paginate by assumption.
    assert (Hl : len (slice (N.of_nat p * 1020) 1020 (pad_payload data)) = 1020).
    { rewrite len_slice, len_pad_payload. lia. }
    pose proof (page_ok_sealed _ Hl) as Hok.
    unfold page_ok in Hok. unfold page_valid, PAYLOAD_SZ.
    exact Hok.
Qed.

Lemma strip_paginate : forall data, strip_crc (paginate data) = pad_payload data.
Proof.
  intros data. unfold strip_crc. rewrite len_paginate. unfold PAGE_SZ.
  replace (pages_for (len data) * 1024 / 1024) with (pages_for (len data)) by lia.
  unfold paginate. apply strip_paginate_n.
  rewrite len_pad_payload. lia.
Qed.

Lemma paginate_pad : forall data, paginate (pad_payload data) = paginate data.
Proof.
  intros data. unfold paginate at 1.
  rewrite len_pad_payload, pages_for_mult.
  rewrite (pad_payload_divisible (pad_payload data)) by (rewrite len_pad_payload; lia).
  reflexivity.
Qed.

(* C11 reader statement, a corollary of the above *)
Theorem pr_run_logical : forall (log : list N) (d1 : dev) (s0 : pr) (ops : list pr_op),
  log <> [] -> len log mod 1020 = 0 ->
  pr_new 1024 (dev_init (paginate log) None) = (d1, Ok s0) ->
  snd (pr_run ops s0) = lr_run log ops 0.
Proof.
  intros log d1 s0 ops Hnz Hmod H.
  rewrite (pr_run_equiv 1024 (paginate log) d1 s0 ops H).
  apply gr_run_paginate; assumption.
Qed.

Print Assumptions pr_run_equiv.
Print Assumptions gr_run_paginate.
Print Assumptions pr_run_logical.
