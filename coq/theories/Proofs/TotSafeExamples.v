(** C08, concrete inputs: non-vacuity of the no-panic theorems on a complete
    one-page file image, and the witness that the hypothesis [proto_i64]
    (integer limits are i64 values) cannot be dropped: with a limit outside
    i64 the model reaches the [16 <? data_len] slice panic of [bsr_extract]. *)
From E57 Require Import Base.Prelude Model.Crc Model.Device Model.PagedReader Model.BsRead Model.Record
  Model.Prog Model.QueueReader Model.FileBin Model.ReaderOpen.
From E57 Require Import Proofs.TotWp Proofs.ReaderSessions Proofs.TotSafeBits Proofs.TotSafeProg.

(** * A one-page file: header, compressed-vector section header at 48, one packet at 80 *)
Definition ex_header : list N :=
  SIGNATURE ++ le_bytes 4 1 ++ le_bytes 4 0 ++ le_bytes 8 1024 ++ le_bytes 8 48 ++ le_bytes 8 0 ++ le_bytes 8 1024.
Definition ex_cv_header (section_length : N) : list N :=
  [1] ++ zeros 7 ++ le_bytes 8 section_length ++ le_bytes 8 80 ++ le_bytes 8 0.
Definition ex_image (packet : list N) : list N :=
  let body := ex_header ++ ex_cv_header (32 + len packet) ++ packet in
  let payload := body ++ zeros (1020 - len body) in
  payload ++ crc_bytes payload.

(** open the file, then iterate the point cloud at offset 48 to its end *)
Definition ex_run (d : dev) (recs : N) (proto : list dtype) : option (res (list (list rvalue))) :=
  match ReaderOpen.reader_open d with
  | (_, Ok (s, _, _)) => Some (snd (rrun (op_raw_all 10 (pr_log_size s) 48 recs proto) s))
  | _ => None
  end.

(** * Non-vacuity: a prototype within i64 (one 8-bit record, one zero-width record), three points *)
Definition good_proto : list dtype := [TInteger 0 255; TInteger 5 5].
Definition good_packet : list N :=
  [1; 0] ++ le_bytes 2 15 ++ le_bytes 2 2 ++ le_bytes 2 3 ++ le_bytes 2 0 ++ [10; 20; 30] ++ zeros 3.
Definition good_dev : dev := dev_init (ex_image good_packet) None.

Example good_image_len : len (ex_image good_packet) = 1024.
Proof. vm_compute. reflexivity. Qed.

Example good_proto_i64 : proto_i64 good_proto.
Proof. repeat constructor. Qed.

Example good_run_ok :
  ex_run good_dev 3 good_proto =
  Some (Ok [[VInteger 10; VInteger 5]; [VInteger 20; VInteger 5]; [VInteger 30; VInteger 5]]).
Proof. vm_compute. reflexivity. Qed.

(** the same through the statement of [no_panic_file_raw]: the [Ok] branch is the one taken *)
Example good_open_ok : is_ok (snd (ReaderOpen.reader_open good_dev)) = true.
Proof. vm_compute. reflexivity. Qed.

(** more points announced than the file holds: an error, not a panic *)
Example good_run_short : ex_run good_dev 4 good_proto = Some (Err EInvalid).
Proof. vm_compute. reflexivity. Qed.

(** an injected device fault during open: an error, not a panic *)
Example good_open_fault : snd (ReaderOpen.reader_open (dev_init (ex_image good_packet) (Some 3))) = Err ERead.
Proof. vm_compute. reflexivity. Qed.

(** a damaged byte in the page: the CRC layer refuses, not a panic *)
Example good_open_damaged :
  snd (ReaderOpen.reader_open (dev_init (take 100 (ex_image good_packet) ++ [77] ++ drop 101 (ex_image good_packet)) None))
  = Err ERead.
Proof. vm_compute. reflexivity. Qed.

(** a blob read that lands on the section header (id byte 1): refused *)
Example good_blob :
  match ReaderOpen.reader_open good_dev with
  | (_, Ok (s, _, _)) => snd (rrun (blob_read (pr_log_size s) 48 (2 ^ 64 + 5)) s) = Err EInvalid
  | _ => False
  end.
Proof. vm_compute. reflexivity. Qed.

(** degenerate prototypes are covered by the theorems: min > max, empty *)
Example weird_proto_i64 : proto_i64 [TInteger 7 (-7); TScaled 3 3] /\ proto_i64 [].
Proof. split; repeat constructor. Qed.
Example weird_run : ex_run good_dev 3 [TInteger 7 (-7); TScaled 3 3] = Some (Err ENotImpl).
Proof. vm_compute. reflexivity. Qed.
Example empty_run : ex_run good_dev 3 [] = Some (Err EInvalid).
Proof. vm_compute. reflexivity. Qed.

(** * Without [proto_i64]: a 201-bit integer record *)
Definition wide_proto : list dtype := [TInteger 0 (2 ^ 200)].
Definition wide_packet : list N :=
  [1; 0] ++ le_bytes 2 39 ++ le_bytes 2 1 ++ le_bytes 2 32 ++ repeat 255 32.
Definition wide_dev : dev := dev_init (ex_image wide_packet) None.

Example wide_not_i64 : ~ proto_i64 wide_proto.
Proof.
  intros H. inversion H as [|? ? H1 _]; subst. destruct H1 as [_ H1]. vm_compute in H1. discriminate.
Qed.

Example wide_bits : bit_size (TInteger 0 (2 ^ 200)) = 201%N.
Proof. vm_compute. reflexivity. Qed.

(** function level: 26 bytes would have to be copied into the 16-byte window *)
Example wide_extract_panics : bsr_extract (mkBsr (repeat 255 32) 0) 201 = Panic.
Proof. vm_compute. reflexivity. Qed.
Example wide_unpack_panics : unpack_type (TInteger 0 (2 ^ 200)) (mkBsr (repeat 255 32) 0) = Panic.
Proof. vm_compute. reflexivity. Qed.
Example wide_parse_panics : parse_streams wide_proto [mkBsr (repeat 255 32) 0] [[]] = Panic.
Proof. vm_compute. reflexivity. Qed.
(** the bound is not tight at 64: widths up to 121 bits cannot panic, 129 always can *)
Example wide_65_no_panic : unpack_type (TInteger 0 (2 ^ 64)) (mkBsr (repeat 255 32) 7) <> Panic.
Proof. vm_compute. discriminate. Qed.

(** file level: the file opens, the iteration panics *)
Lemma wide_run_panics : ex_run wide_dev 1 wide_proto = Some Panic.
Proof. vm_compute. reflexivity. Qed.

Lemma ex_run_inv d recs proto r : ex_run d recs proto = Some r ->
  exists d' s h xml,
    ReaderOpen.reader_open d = (d', Ok (s, h, xml)) /\
    snd (rrun (op_raw_all 10 (pr_log_size s) 48 recs proto) s) = r.
Proof.
  unfold ex_run. intros H.
  destruct (ReaderOpen.reader_open d) as [d' [[[s h] xml]|k|]]; try discriminate.
  exists d', s, h, xml. split; [reflexivity|]. injection H as H. exact H.
Qed.

Theorem no_panic_raw_wide_refuted :
  ~ proto_i64 wide_proto /\
  (exists d' s h xml,
     ReaderOpen.reader_open wide_dev = (d', Ok (s, h, xml)) /\
     snd (rrun (op_raw_all 10 (pr_log_size s) 48 1 wide_proto) s) = Panic) /\
  ~ (forall (s : pr) fuel ls fo recs proto, snd (rrun (op_raw_all fuel ls fo recs proto) s) <> Panic).
Proof.
  pose proof (ex_run_inv wide_dev 1 wide_proto Panic wide_run_panics) as W.
  split; [exact wide_not_i64|]. split; [exact W|].
  intros F. destruct W as (d' & s & h & xml & _ & Hp).
  exact (F s 10%nat (pr_log_size s) 48 1 wide_proto Hp).
Qed.

Print Assumptions no_panic_raw_wide_refuted.
