(** C16, part B: short transfers change nothing.

    For every schedule of chunk sizes, on a fault-free device, the loops of
    std and of the crate over single short [read] / [write] calls
    (Model/DeviceChunked.v) have the same effect on device bytes and cursor and
    return the same result as the one-shot primitives of Model/Device.v that
    the models of the paged writer and reader use.  Operation counts and the
    shape of the write log differ; the log replays to the same bytes. *)
From E57 Require Import Base.Prelude Model.Crc Model.Device Model.PagedWriter Model.PagedReader
  Model.DeviceChunked.
From E57 Require Import Proofs.PagedWriterLemmas.
From Coq Require Import ZArith Lia ZifyN ZifyNat ZifyBool.
Local Open Scope monad_scope.

Local Arguments overwrite : simpl never.
Local Arguments take : simpl never.
Local Arguments drop : simpl never.
Local Arguments slice : simpl never.
Local Arguments zeros : simpl never.
Local Arguments len : simpl never.
Local Arguments crc_bytes : simpl never.

Ltac ncmp :=
  repeat match goal with
  | |- context [?a <? ?b] => destruct (N.ltb_spec a b)
  | |- context [?a <=? ?b] => destruct (N.leb_spec a b)
  | |- context [?a =? ?b] => destruct (N.eqb_spec a b)
  end.

(** * List facts *)

Lemma take_0 {A} (l : list A) : take 0 l = [].
Proof. reflexivity. Qed.

Lemma slice_n0 (c : N) (b : list N) : slice c 0 b = [].
Proof. reflexivity. Qed.

Lemma take_slice t n c (b : list N) : t <= n -> take t (slice c n b) = slice c t b.
Proof.
  intros H. apply list_ext.
  - rewrite len_take, !len_slice. lia.
  - intros i _. rewrite nthN_take, !nthN_slice. ncmp; try lia; reflexivity.
Qed.

Lemma slice_split c t n (b : list N) : t <= n ->
  slice c t b ++ slice (c + t) (n - t) b = slice c n b.
Proof.
  intros H. apply list_ext.
  - rewrite len_app, !len_slice. lia.
  - intros i Hi. rewrite len_app, !len_slice in Hi.
    rewrite nthN_app, !nthN_slice, len_slice. ncmp; try lia; try reflexivity.
    f_equal. lia.
Qed.

(** the page-buffer update of [pr_fill_loop] *)
Definition splice (buf : list N) (done : N) (g : list N) : list N :=
  take done buf ++ g ++ drop (done + len g) buf.

Lemma len_splice buf done g :
  len (splice buf done g) = N.min done (len buf) + len g + (len buf - (done + len g)).
Proof. unfold splice. rewrite !len_app, len_take, len_drop. lia. Qed.

Lemma nthN_splice i buf done g :
  nthN i (splice buf done g) =
  if i <? N.min done (len buf) then nthN i buf
  else if i - N.min done (len buf) <? len g then nthN (i - N.min done (len buf)) g
  else nthN (done + len g + (i - N.min done (len buf) - len g)) buf.
Proof.
  unfold splice. rewrite !nthN_app, len_take, nthN_take, nthN_drop.
  ncmp; try lia; reflexivity.
Qed.

Lemma splice_nil buf done : splice buf done [] = buf.
Proof.
  unfold splice. rewrite len_nil. replace (done + 0) with done by lia. cbn [app]. apply take_drop_id.
Qed.

Lemma splice_splice buf done g1 g2 :
  splice (splice buf done g1) (done + len g1) g2 = splice buf done (g1 ++ g2).
Proof.
  apply list_ext.
  - rewrite !len_splice, len_app. lia.
  - intros i Hi. rewrite !len_splice in Hi.
    rewrite !nthN_splice, !len_splice, nthN_app, len_app.
    ncmp; try lia; try reflexivity; f_equal; lia.
Qed.

(** replay of a list of writes, most recent first, on an image *)
Definition replay (ws : list (N * list N)) (base : list N) : list N :=
  fold_right (fun w a => overwrite a (fst w) (snd w)) base ws.

Lemma replay_app ws1 ws2 base : replay (ws1 ++ ws2) base = replay ws1 (replay ws2 base).
Proof. unfold replay. apply fold_right_app. Qed.

Lemma apply_writes_rev ws : apply_writes (rev ws) = replay ws [].
Proof.
  unfold apply_writes, replay. rewrite <- (rev_involutive ws) at 2.
  rewrite fold_left_rev_right. reflexivity.
Qed.

(** * Single calls on a fault-free device *)

Notation Cs b c o lg pl k := (mkCdev (mkDev b c o None lg) pl k).

Lemma cd_read_view n b c o lg pl k :
  cd_read n (Cs b c o lg pl k) =
  let av := slice c n b in
  let t := if len av =? 0 then 0 else N.min (len av) (N.max 1 (pl k)) in
  (Cs b (c + len (take t av)) (o + 1) lg pl (if len av =? 0 then k else S k), Ok (take t av)).
Proof.
  unfold cd_read, bind, cd_lift, tick, next_chunk, set_cur.
  cbn [c_dev c_plan c_k d_bytes d_cur d_ops d_fault d_log].
  destruct (len (slice c n b) =? 0); reflexivity.
Qed.

(* what one short read returns: [t] bytes with [1 <= t] whenever something is wanted and available *)
Lemma cd_read_some n b c o lg pl k : 0 < n -> c < len b ->
  exists t, 1 <= t /\ t <= n /\ t <= len b - c /\
    cd_read n (Cs b c o lg pl k) = (Cs b (c + t) (o + 1) lg pl (S k), Ok (slice c t b)).
Proof.
  intros Hn Hc. rewrite cd_read_view. cbv zeta.
  assert (L : len (slice c n b) = N.min n (len b - c)) by apply len_slice.
  destruct (N.eqb_spec (len (slice c n b)) 0) as [E|E]; [lia|].
  set (t := N.min (len (slice c n b)) (N.max 1 (pl k))).
  exists t. split; [lia|]. split; [lia|]. split; [lia|].
  rewrite take_slice by lia. rewrite len_slice. replace (N.min t (len b - c)) with t by lia. reflexivity.
Qed.

Lemma cd_read_none n b c o lg pl k : len b <= c ->
  exists c', c' = c /\ cd_read n (Cs b c o lg pl k) = (Cs b c' (o + 1) lg pl k, Ok []).
Proof.
  intros Hc. rewrite cd_read_view. cbv zeta.
  assert (L : len (slice c n b) = N.min n (len b - c)) by apply len_slice.
  destruct (N.eqb_spec (len (slice c n b)) 0) as [E|E]; [|lia].
  rewrite take_0. eexists. split; [|reflexivity]. rewrite len_nil. lia.
Qed.

Lemma cd_write_view bs b c o lg pl k : bs <> [] ->
  exists t, 1 <= t /\ t <= len bs /\ t = N.min (len bs) (N.max 1 (pl k)) /\
    cd_write bs (Cs b c o lg pl k) =
    (Cs (overwrite b c (take t bs)) (c + t) (o + 1) ((c, take t bs) :: lg) pl (S k), Ok t).
Proof.
  intros Hne. pose proof (len_pos_ne bs Hne) as Hl.
  exists (N.min (len bs) (N.max 1 (pl k))). split; [lia|]. split; [lia|]. split; [reflexivity|].
  unfold cd_write, bind, cd_lift, tick, next_chunk.
  cbn [c_dev c_plan c_k d_bytes d_cur d_ops d_fault d_log].
  destruct (N.eqb_spec (len bs) 0) as [E|_]; [lia|].
  cbn [c_dev c_plan c_k d_bytes d_cur d_ops d_fault d_log].
  rewrite len_take. replace (N.min (N.min (len bs) (N.max 1 (pl k))) (len bs))
    with (N.min (len bs) (N.max 1 (pl k))) by lia.
  reflexivity.
Qed.

(** * The loops, for every schedule *)

Definition ow (base : list N) (c : N) (bs : list N) : list N :=
  match bs with [] => base | _ => overwrite base c bs end.

Lemma cd_write_all_loop_spec : forall fuel bs b c o lg pl k, (length bs < fuel)%nat ->
  exists o' k' c' ws,
    cd_write_all_loop fuel bs (Cs b c o lg pl k) = (Cs (replay ws b) c' o' (ws ++ lg) pl k', Ok tt) /\
    c' = c + len bs /\ forall base, replay ws base = ow base c bs.
Proof.
  induction fuel as [|f IH]; intros bs b c o lg pl k Hf; [lia|].
  destruct bs as [|x r].
  - exists o, k, c, []. cbn [cd_write_all_loop app replay fold_right]. split; [reflexivity|].
    split; [rewrite len_nil; lia|]. intros base. reflexivity.
  - set (bs := x :: r) in *. assert (Hne : bs <> []) by (unfold bs; discriminate).
    change (cd_write_all_loop (S f) bs) with
      (bind (cd_write bs) (fun n => if n =? 0 then fail EIo else cd_write_all_loop f (drop n bs))).
    destruct (cd_write_view bs b c o lg pl k Hne) as (t & Ht1 & Ht2 & _ & V).
    unfold bind. rewrite V. destruct (N.eqb_spec t 0) as [E|_]; [lia|].
    assert (Hfd : (length (drop t bs) < f)%nat).
    { pose proof (len_drop t bs) as L. unfold len in L, Ht2. cbn [length] in *. lia. }
    destruct (IH (drop t bs) (overwrite b c (take t bs)) (c + t) (o + 1) ((c, take t bs) :: lg) pl (S k) Hfd)
      as (o' & k' & c' & ws & E & Hc' & Hws).
    exists o', k', c', (ws ++ [(c, take t bs)]).
    split; [|split].
    + rewrite E, replay_app. cbn [replay fold_right fst snd]. rewrite <- app_assoc. reflexivity.
    + rewrite Hc', len_drop. lia.
    + intros base. rewrite replay_app. cbn [replay fold_right fst snd]. fold (replay ws).
      rewrite Hws. unfold ow.
      destruct (drop t bs) as [|y d] eqn:Ed.
      * assert (len bs <= t) by (pose proof (len_drop t bs) as L; rewrite Ed, len_nil in L; lia).
        rewrite take_all by assumption. reflexivity.
      * rewrite <- Ed.
        replace (c + t) with (c + len (take t bs)) by (rewrite len_take; lia).
        rewrite overwrite_overwrite, take_drop_id. reflexivity.
Qed.

Lemma cd_read_exact_loop_spec : forall fuel want acc b c o lg pl k, (N.to_nat want < fuel)%nat ->
  exists o' k' c',
    cd_read_exact_loop fuel want acc (Cs b c o lg pl k) =
      (Cs b c' o' lg pl k', if want <=? len b - c then Ok (acc ++ slice c want b) else Err EIo) /\
    c' = c + N.min want (len b - c).
Proof.
  induction fuel as [|f IH]; intros want acc b c o lg pl k Hf; [lia|].
  cbn [cd_read_exact_loop]. destruct (N.eqb_spec want 0) as [->|Hw].
  - exists o, k, c. rewrite slice_n0, app_nil_r. destruct (N.leb_spec 0 (len b - c)); [|lia].
    split; [reflexivity|lia].
  - unfold bind. destruct (N.le_gt_cases (len b) c) as [Hc|Hc].
    + destruct (cd_read_none want b c o lg pl k Hc) as (c' & -> & V). rewrite V.
      exists (o + 1), k, c. destruct (N.leb_spec want (len b - c)); [lia|]. split; [reflexivity|lia].
    + destruct (cd_read_some want b c o lg pl k ltac:(lia) Hc) as (t & Ht1 & Ht2 & Ht3 & V). rewrite V.
      assert (Lg : len (slice c t b) = t) by (rewrite len_slice; lia).
      destruct (slice c t b) as [|x got] eqn:Eg; [rewrite len_nil in Lg; lia|]. rewrite <- Eg in Lg |- *. rewrite Lg.
      destruct (IH (want - t) (acc ++ slice c t b) b (c + t) (o + 1) lg pl (S k) ltac:(lia))
        as (o' & k' & c' & E & Hc').
      exists o', k', c'. rewrite E. split; [|lia].
      replace (want - t <=? len b - (c + t)) with (want <=? len b - c) by (ncmp; lia).
      destruct (want <=? len b - c); [|reflexivity].
      rewrite <- app_assoc, slice_split by lia. reflexivity.
Qed.

Lemma cd_read_fill_loop_spec : forall fuel want acc b c o lg pl k, (N.to_nat want < fuel)%nat ->
  exists o' k' c',
    cd_read_fill_loop fuel want acc (Cs b c o lg pl k) = (Cs b c' o' lg pl k', Ok (acc ++ slice c want b)) /\
    c' = c + N.min want (len b - c).
Proof.
  induction fuel as [|f IH]; intros want acc b c o lg pl k Hf; [lia|].
  cbn [cd_read_fill_loop]. destruct (N.eqb_spec want 0) as [->|Hw].
  - exists o, k, c. rewrite slice_n0, app_nil_r. split; [reflexivity|lia].
  - unfold bind. destruct (N.le_gt_cases (len b) c) as [Hc|Hc].
    + destruct (cd_read_none want b c o lg pl k Hc) as (c' & -> & V). rewrite V.
      exists (o + 1), k, c. split; [|lia].
      assert (E : slice c want b = []) by (apply len_0_nil; rewrite len_slice; lia).
      rewrite E, app_nil_r. reflexivity.
    + destruct (cd_read_some want b c o lg pl k ltac:(lia) Hc) as (t & Ht1 & Ht2 & Ht3 & V). rewrite V.
      assert (Lg : len (slice c t b) = t) by (rewrite len_slice; lia).
      destruct (slice c t b) as [|x got] eqn:Eg; [rewrite len_nil in Lg; lia|]. rewrite <- Eg in Lg |- *. rewrite Lg.
      destruct (IH (want - t) (acc ++ slice c t b) b (c + t) (o + 1) lg pl (S k) ltac:(lia))
        as (o' & k' & c' & E & Hc').
      exists o', k', c'. rewrite E. split; [|lia].
      rewrite <- app_assoc, slice_split by lia. reflexivity.
Qed.

(** * The one-shot device is the chunked device under a generous schedule *)

Lemma cd_read_generous n W d k : n <= W ->
  exists k', cd_read n (mkCdev d (fun _ => W) k) =
             (mkCdev (fst (d_read n d)) (fun _ => W) k', snd (d_read n d)).
Proof.
  intros H. unfold cd_read, d_read, bind, cd_lift. cbn [c_dev c_plan c_k].
  destruct (tick d) as [d1 [u|e|]]; cbn [fst snd]; try (eexists; reflexivity).
  unfold next_chunk. cbn [c_dev c_plan c_k].
  set (av := slice (d_cur d1) n (d_bytes d1)).
  assert (L : len av = N.min n (len (d_bytes d1) - d_cur d1)) by apply len_slice.
  destruct (N.eqb_spec (len av) 0) as [E|E].
  - cbn [c_dev c_plan c_k]. rewrite take_0, (len_0_nil _ E). eexists. reflexivity.
  - cbn [c_dev c_plan c_k]. rewrite take_all by lia. eexists. reflexivity.
Qed.

Lemma d_read_exact_loop_generous W : forall fuel want acc d k, want <= W ->
  exists k', cd_read_exact_loop fuel want acc (mkCdev d (fun _ => W) k) =
             (mkCdev (fst (d_read_exact_loop fuel want acc d)) (fun _ => W) k',
              snd (d_read_exact_loop fuel want acc d)).
Proof.
  induction fuel as [|f IH]; intros want acc d k H; cbn [cd_read_exact_loop d_read_exact_loop].
  - eexists. reflexivity.
  - destruct (want =? 0); [eexists; reflexivity|].
    unfold bind. destruct (cd_read_generous want W d k H) as (k1 & ->).
    destruct (d_read want d) as [d1 [got|e|]]; cbn [fst snd]; try (eexists; reflexivity).
    destruct got as [|x got]; [eexists; reflexivity|]. apply IH. lia.
Qed.

Lemma d_read_fill_generous W : forall fuel want acc d k, want <= W ->
  exists k', cd_read_fill_loop fuel want acc (mkCdev d (fun _ => W) k) =
             (mkCdev (fst (d_read_fill fuel want acc d)) (fun _ => W) k',
              snd (d_read_fill fuel want acc d)).
Proof.
  induction fuel as [|f IH]; intros want acc d k H; cbn [cd_read_fill_loop d_read_fill].
  - eexists. reflexivity.
  - destruct (want =? 0); [eexists; reflexivity|].
    unfold bind. destruct (cd_read_generous want W d k H) as (k1 & ->).
    destruct (d_read want d) as [d1 [got|e|]]; cbn [fst snd]; try (eexists; reflexivity).
    destruct got as [|x got]; [eexists; reflexivity|]. apply IH. lia.
Qed.

(** * Equivalence with the one-shot primitives *)

Lemma d_write_all_view bs b c o lg :
  d_write_all bs (mkDev b c o None lg) =
  match bs with
  | [] => (mkDev b c o None lg, Ok tt)
  | _ => (mkDev (overwrite b c bs) (c + len bs) (o + 1) None ((c, bs) :: lg), Ok tt)
  end.
Proof. destruct bs; reflexivity. Qed.

Ltac cdev_elim c Hf :=
  let b := fresh "b" in let cur := fresh "cur" in let o := fresh "o" in let f := fresh "f" in
  let lg := fresh "lg" in let pl := fresh "pl" in let k := fresh "k" in
  destruct c as [[b cur o f lg] pl k]; cbn [c_dev d_fault] in Hf; subst f.

Theorem cd_write_all_equiv : forall c bs, d_fault (c_dev c) = None ->
  let '(c1, r) := cd_write_all bs c in let '(d1, r') := d_write_all bs (c_dev c) in
  r = r' /\ d_bytes (c_dev c1) = d_bytes d1 /\ d_cur (c_dev c1) = d_cur d1 /\ d_fault (c_dev c1) = None.
Proof.
  intros c bs Hf. cdev_elim c Hf. cbn [c_dev]. unfold cd_write_all.
  destruct (cd_write_all_loop_spec (S (length bs)) bs b cur o lg pl k ltac:(lia))
    as (o' & k' & c' & ws & E & Hc' & Hws).
  rewrite E, d_write_all_view, Hws. unfold ow.
  destruct bs as [|x r]; cbn [c_dev d_bytes d_cur d_fault].
  - rewrite len_nil in Hc'. repeat split; try reflexivity. lia.
  - repeat split; try reflexivity. lia.
Qed.

(* the chunked write log replays to the same image *)
Theorem cd_write_all_log_equiv : forall c bs, d_fault (c_dev c) = None ->
  apply_writes (rev (d_log (c_dev (fst (cd_write_all bs c))))) =
  apply_writes (rev (d_log (fst (d_write_all bs (c_dev c))))).
Proof.
  intros c bs Hf. cdev_elim c Hf. cbn [c_dev]. unfold cd_write_all.
  destruct (cd_write_all_loop_spec (S (length bs)) bs b cur o lg pl k ltac:(lia))
    as (o' & k' & c' & ws & E & Hc' & Hws).
  rewrite E, d_write_all_view, !apply_writes_rev. cbn [fst c_dev d_log].
  rewrite replay_app, Hws. unfold ow. destruct bs; reflexivity.
Qed.

Theorem cd_read_exact_equiv : forall c n, d_fault (c_dev c) = None ->
  let '(c1, r) := cd_read_exact n c in let '(d1, r') := d_read_exact n (c_dev c) in
  r = r' /\ d_bytes (c_dev c1) = d_bytes d1 /\ d_cur (c_dev c1) = d_cur d1 /\ d_fault (c_dev c1) = None.
Proof.
  intros c n Hf. cdev_elim c Hf. cbn [c_dev]. unfold cd_read_exact, d_read_exact.
  destruct (cd_read_exact_loop_spec (S (N.to_nat n)) n [] b cur o lg pl k ltac:(lia)) as (o1 & k1 & c1 & E1 & Hc1).
  destruct (cd_read_exact_loop_spec (S (N.to_nat n)) n [] b cur o lg (fun _ => n) 0%nat ltac:(lia))
    as (o2 & k2 & c2 & E2 & Hc2).
  destruct (d_read_exact_loop_generous n (S (N.to_nat n)) n [] (mkDev b cur o None lg) 0%nat ltac:(lia))
    as (k3 & E3).
  rewrite E3 in E2. rewrite E1.
  destruct (d_read_exact_loop (S (N.to_nat n)) n [] (mkDev b cur o None lg)) as [d1 r'].
  cbn [fst snd] in E2. injection E2 as Ed Ek Er. subst d1 r'. cbn [c_dev d_bytes d_cur d_fault].
  repeat split; try reflexivity. lia.
Qed.

Theorem cd_read_fill_equiv : forall c want, d_fault (c_dev c) = None ->
  let '(c1, r) := cd_read_fill want c in
  let '(d1, r') := d_read_fill (S (N.to_nat want)) want [] (c_dev c) in
  r = r' /\ d_bytes (c_dev c1) = d_bytes d1 /\ d_cur (c_dev c1) = d_cur d1 /\ d_fault (c_dev c1) = None.
Proof.
  intros c n Hf. cdev_elim c Hf. cbn [c_dev]. unfold cd_read_fill.
  destruct (cd_read_fill_loop_spec (S (N.to_nat n)) n [] b cur o lg pl k ltac:(lia)) as (o1 & k1 & c1 & E1 & Hc1).
  destruct (cd_read_fill_loop_spec (S (N.to_nat n)) n [] b cur o lg (fun _ => n) 0%nat ltac:(lia))
    as (o2 & k2 & c2 & E2 & Hc2).
  destruct (d_read_fill_generous n (S (N.to_nat n)) n [] (mkDev b cur o None lg) 0%nat ltac:(lia))
    as (k3 & E3).
  rewrite E3 in E2. rewrite E1.
  destruct (d_read_fill (S (N.to_nat n)) n [] (mkDev b cur o None lg)) as [d1 r'].
  cbn [fst snd] in E2. injection E2 as Ed Ek Er. subst d1 r'. cbn [c_dev d_bytes d_cur d_fault].
  repeat split; try reflexivity. lia.
Qed.

(** * The page-buffer fill of the paged reader *)

Notation Ps b c o lg ps phy lsz pgs off pn buf pl k :=
  (mkCpr (mkPr (mkDev b c o None lg) ps phy lsz pgs off pn buf) pl k).

Lemma cpr_lift_read_view n b c o lg ps phy lsz pgs off pn buf pl k c1 o1 k1 r :
  cd_read n (Cs b c o lg pl k) = (Cs b c1 o1 lg pl k1, r) ->
  cpr_lift (cd_read n) (Ps b c o lg ps phy lsz pgs off pn buf pl k) =
  (Ps b c1 o1 lg ps phy lsz pgs off pn buf pl k1, r).
Proof.
  intros E. unfold cpr_lift.
  cbn [cp_pr cp_plan cp_k pr_dev]. rewrite E. reflexivity.
Qed.

Lemma cpr_fill_loop_spec : forall fuel done want b c o lg ps phy lsz pgs off pn buf pl k,
  (N.to_nat want < fuel)%nat ->
  exists o' k' c',
    cpr_fill_loop fuel done want (Ps b c o lg ps phy lsz pgs off pn buf pl k) =
      (Ps b c' o' lg ps phy lsz pgs off pn (splice buf done (slice c want b)) pl k',
       if want <=? len b - c then Ok tt else Err EIo) /\
    c' = c + N.min want (len b - c).
Proof.
  induction fuel as [|f IH]; intros done want b c o lg ps phy lsz pgs off pn buf pl k Hf; [lia|].
  cbn [cpr_fill_loop]. destruct (N.eqb_spec want 0) as [->|Hw].
  - exists o, k, c. rewrite slice_n0, splice_nil. destruct (N.leb_spec 0 (len b - c)); [|lia].
    split; [reflexivity|lia].
  - unfold bind at 1. destruct (N.le_gt_cases (len b) c) as [Hc|Hc].
    + destruct (cd_read_none want b c o lg pl k Hc) as (c' & -> & V).
      rewrite (cpr_lift_read_view _ _ _ _ _ ps phy lsz pgs off pn buf _ _ _ _ _ _ V).
      exists (o + 1), k, c. destruct (N.leb_spec want (len b - c)); [lia|].
      assert (E : slice c want b = []) by (apply len_0_nil; rewrite len_slice; lia).
      rewrite E, splice_nil. split; [reflexivity|lia].
    + destruct (cd_read_some want b c o lg pl k ltac:(lia) Hc) as (t & Ht1 & Ht2 & Ht3 & V).
      rewrite (cpr_lift_read_view _ _ _ _ _ ps phy lsz pgs off pn buf _ _ _ _ _ _ V).
      assert (Lg : len (slice c t b) = t) by (rewrite len_slice; lia).
      destruct (slice c t b) as [|x got] eqn:Eg; [rewrite len_nil in Lg; lia|]. rewrite <- Eg in Lg |- *. rewrite Lg.
      unfold bind, cpr_pure, pr_set_buf.
      cbn [cp_pr cp_plan cp_k pr_dev pr_page_size pr_phy_size pr_log_size pr_pages pr_off pr_page_num pr_buf].
      fold (splice buf done (slice c t b)) in *.
      replace (take done buf ++ slice c t b ++ drop (done + t) buf) with (splice buf done (slice c t b))
        by (unfold splice; rewrite Lg; reflexivity).
      destruct (IH (done + t) (want - t) b (c + t) (o + 1) lg ps phy lsz pgs off pn
                   (splice buf done (slice c t b)) pl (S k) ltac:(lia)) as (o' & k' & c' & E & Hc').
      exists o', k', c'. rewrite E. split; [|lia].
      replace (want - t <=? len b - (c + t)) with (want <=? len b - c) by (ncmp; lia).
      replace (done + t) with (done + len (slice c t b)) by lia.
      rewrite splice_splice, slice_split by lia. reflexivity.
Qed.

(* [pr_fill_loop] is [cpr_fill_loop] under a generous schedule *)
Lemma pr_fill_loop_generous W : forall fuel done want p k, want <= W ->
  exists k', cpr_fill_loop fuel done want (mkCpr p (fun _ => W) k) =
             (mkCpr (fst (pr_fill_loop fuel done want p)) (fun _ => W) k',
              snd (pr_fill_loop fuel done want p)).
Proof.
  induction fuel as [|f IH]; intros done want p k H; cbn [cpr_fill_loop pr_fill_loop].
  - eexists. reflexivity.
  - destruct (want =? 0); [eexists; reflexivity|].
    unfold bind.
    assert (El : exists k1, cpr_lift (cd_read want) (mkCpr p (fun _ => W) k) =
                   (mkCpr (fst (pr_lift (d_read want) p)) (fun _ => W) k1, snd (pr_lift (d_read want) p))).
    { unfold cpr_lift, pr_lift. cbn [cp_pr cp_plan cp_k].
      destruct (cd_read_generous want W (pr_dev p) k H) as (k1 & ->).
      destruct (d_read want (pr_dev p)) as [d1 r]. cbn [fst snd c_dev c_plan c_k]. exists k1.
      destruct p; reflexivity. }
    destruct El as (k1 & ->).
    destruct (pr_lift (d_read want) p) as [p1 [got|e|]]; cbn [fst snd]; try (eexists; reflexivity).
    destruct got as [|x got]; [eexists; reflexivity|].
    unfold cpr_pure, pr_set_buf. cbn [cp_pr cp_plan cp_k]. apply IH. lia.
Qed.

Theorem cpr_fill_loop_equiv : forall s fuel done want,
  d_fault (pr_dev (cp_pr s)) = None -> (N.to_nat want < fuel)%nat ->
  let '(s1, r) := cpr_fill_loop fuel done want s in
  let '(p1, r') := pr_fill_loop fuel done want (cp_pr s) in
  r = r' /\ pr_buf (cp_pr s1) = pr_buf p1 /\
  d_bytes (pr_dev (cp_pr s1)) = d_bytes (pr_dev p1) /\ d_cur (pr_dev (cp_pr s1)) = d_cur (pr_dev p1) /\
  d_fault (pr_dev (cp_pr s1)) = None /\
  pr_with_dev (cp_pr s1) (pr_dev p1) = p1.
Proof.
  intros s fuel done want Hf Hfuel.
  destruct s as [[[b c o f lg] ps phy lsz pgs off pn buf] pl k]. cbn [cp_pr pr_dev d_fault] in Hf. subst f.
  cbn [cp_pr].
  destruct (cpr_fill_loop_spec fuel done want b c o lg ps phy lsz pgs off pn buf pl k Hfuel)
    as (o1 & k1 & c1 & E1 & Hc1).
  destruct (cpr_fill_loop_spec fuel done want b c o lg ps phy lsz pgs off pn buf (fun _ => want) 0%nat Hfuel)
    as (o2 & k2 & c2 & E2 & Hc2).
  destruct (pr_fill_loop_generous want fuel done want
              (mkPr (mkDev b c o None lg) ps phy lsz pgs off pn buf) 0%nat ltac:(lia)) as (k3 & E3).
  rewrite E3 in E2. rewrite E1.
  destruct (pr_fill_loop fuel done want (mkPr (mkDev b c o None lg) ps phy lsz pgs off pn buf)) as [p1 r'].
  cbn [fst snd] in E2. injection E2 as Ed Ek Er. subst p1 r'.
  cbn [cp_pr pr_dev pr_buf d_bytes d_cur d_fault]. unfold pr_with_dev.
  cbn [pr_dev pr_page_size pr_phy_size pr_log_size pr_pages pr_off pr_page_num pr_buf].
  repeat split; try reflexivity. lia.
Qed.

Lemma bind_eq {S A B} (m : M S A) (k : A -> M S B) s s1 a : m s = (s1, Ok a) -> bind m k s = k a s1.
Proof. intros E. unfold bind. rewrite E. reflexivity. Qed.

(** ** The whole [read_page] *)

Theorem cpr_read_page_equiv : forall s page, d_fault (pr_dev (cp_pr s)) = None ->
  let '(s1, r) := cpr_read_page page s in
  let '(p1, r') := pr_read_page page (cp_pr s) in
  r = r' /\ d_bytes (pr_dev (cp_pr s1)) = d_bytes (pr_dev p1) /\ d_cur (pr_dev (cp_pr s1)) = d_cur (pr_dev p1) /\
  d_fault (pr_dev (cp_pr s1)) = None /\ pr_with_dev (cp_pr s1) (pr_dev p1) = p1.
Proof.
  intros s page Hf.
  destruct s as [[[b c o f lg] ps phy lsz pgs off pn buf] pl k]. cbn [cp_pr pr_dev d_fault] in Hf. subst f.
  unfold cpr_read_page, pr_read_page.
  cbn [cp_pr pr_dev pr_page_size pr_phy_size pr_log_size pr_pages pr_off pr_page_num pr_buf].
  destruct (pgs <=? page).
  { destruct (pgs =? 0); cbn [cp_pr pr_dev d_bytes d_cur d_fault]; repeat split; reflexivity. }
  rewrite (bind_eq (cpr_lift (cd_seek_start (page * ps))) _ (Ps b c o lg ps phy lsz pgs off pn buf pl k)
             (Ps b (page * ps) (o + 1) lg ps phy lsz pgs off pn buf pl k) (page * ps) eq_refl).
  rewrite (bind_eq (pr_lift (d_seek_start (page * ps))) _ (mkPr (mkDev b c o None lg) ps phy lsz pgs off pn buf)
             (mkPr (mkDev b (page * ps) (o + 1) None lg) ps phy lsz pgs off pn buf) (page * ps) eq_refl).
  unfold bind.
  pose proof (cpr_fill_loop_equiv (Ps b (page * ps) (o + 1) lg ps phy lsz pgs off pn buf pl k)
                (S (N.to_nat ps)) 0 ps eq_refl ltac:(lia)) as Hfill.
  cbn [cp_pr] in Hfill.
  destruct (cpr_fill_loop (S (N.to_nat ps)) 0 ps (Ps b (page * ps) (o + 1) lg ps phy lsz pgs off pn buf pl k))
    as [s1 r1].
  destruct (pr_fill_loop (S (N.to_nat ps)) 0 ps (mkPr (mkDev b (page * ps) (o + 1) None lg) ps phy lsz pgs off pn buf))
    as [p1 r1'].
  destruct Hfill as (-> & Hbuf & Hb & Hcur & Hfl & Hp).
  destruct s1 as [[d1 ps1 phy1 lsz1 pgs1 off1 pn1 buf1] pl1 k1].
  destruct p1 as [d1' ps1' phy1' lsz1' pgs1' off1' pn1' buf1'].
  unfold pr_with_dev in Hp.
  cbn [cp_pr pr_dev pr_page_size pr_phy_size pr_log_size pr_pages pr_off pr_page_num pr_buf] in *.
  injection Hp; intros; subst.
  destruct r1' as [u|e|]; cbn [cp_pr pr_dev]; try (repeat split; assumption || reflexivity).
  unfold cpr_pure. cbn [cp_pr cp_plan cp_k pr_page_size pr_buf].
  destruct (list_eq_dec N.eq_dec _ _).
  - cbn. unfold pr_with_dev. cbn. repeat split; assumption || reflexivity.
  - cbn. unfold pr_with_dev. cbn. repeat split; assumption || reflexivity.
Qed.

(** * Examples *)

(* a 2500-byte write at position 100 of a 300-byte device, under the schedule 1,3,1000,2,1,3,... *)
Example chunked_write_example :
  let bs := map (fun i => N.of_nat i mod 251) (seq 0 2500) in
  let d := mkDev (zeros 300) 100 0 None [] in
  let c := mkCdev d (cyclic_plan [1; 3; 1000; 2]) 0 in
  let '(c1, r) := cd_write_all bs c in
  let '(d1, r') := d_write_all bs d in
  r = Ok tt /\ r' = Ok tt /\ d_bytes (c_dev c1) = d_bytes d1 /\ d_cur (c_dev c1) = 2600 /\ d_cur d1 = 2600 /\
  d_ops (c_dev c1) = 11 /\ d_ops d1 = 1 /\ length (d_log (c_dev c1)) = 11%nat /\
  apply_writes (rev (d_log (c_dev c1))) = apply_writes (rev (d_log d1)).
Proof. vm_compute. repeat split. Qed.

(* one valid page *)
Definition ex_page (seed : N) : list N :=
  let payload := map (fun i => (N.of_nat i * 7 + seed) mod 256) (seq 0 1020) in
  payload ++ crc_bytes payload.

Definition ex_reader (f : list N) (fault : option N) (plan : list N) : cpr :=
  mkCpr (mkPr (mkDev f 0 1 fault []) 1024 (len f) (len f / 1024 * 1020) (len f / 1024) 0 None (zeros 1024))
        (cyclic_plan plan) 0.

(* a page read under the same schedule: same result, buffer and cache tag as the one-shot model *)
Example chunked_read_page_example :
  let f := ex_page 1 ++ ex_page 2 in
  let s := ex_reader f None [1; 3; 1000; 2] in
  let '(s1, r) := cpr_read_page 1 s in
  let '(p1, r') := pr_read_page 1 (cp_pr s) in
  r = Ok tt /\ r' = Ok tt /\ pr_buf (cp_pr s1) = ex_page 2 /\ pr_buf p1 = ex_page 2 /\
  pr_page_num (cp_pr s1) = Some 1 /\ pr_page_num p1 = Some 1 /\
  d_cur (pr_dev (cp_pr s1)) = 2048 /\ d_cur (pr_dev p1) = 2048 /\
  d_ops (pr_dev p1) = 3 /\ d_ops (pr_dev (cp_pr s1)) = 9.
Proof. vm_compute. repeat split. Qed.

(** Observation outside the quantifier of the property (DESIGN section 7, C16): after an I/O error
    inside [read_page] the cache tag [page_num] still names the old page while the buffer is
    already partly overwritten.  Page 0 is read, then page 1 with chunks of 100 bytes and a fault
    on the second transfer. *)
Example stale_cache_after_fault :
  let f := ex_page 1 ++ ex_page 2 in
  (* operation 0 was the seek of PagedReader::new; 1 seek, 2 read of page 0 in one chunk of 1024;
     3 seek, 4 read of 100 bytes, 5 read: the fault *)
  let s := ex_reader f (Some 5) [1024; 100; 100] in
  let '(s1, r1) := cpr_read_page 0 s in
  let '(s2, r2) := cpr_read_page 1 s1 in
  r1 = Ok tt /\ pr_page_num (cp_pr s1) = Some 0 /\ pr_buf (cp_pr s1) = ex_page 1 /\
  r2 = Err EIo /\ pr_page_num (cp_pr s2) = Some 0 /\ pr_buf (cp_pr s2) <> ex_page 1 /\
  pr_buf (cp_pr s2) = take 100 (ex_page 2) ++ drop 100 (ex_page 1).
Proof.
  vm_compute. repeat split. intros H. discriminate H.
Qed.

Print Assumptions cd_write_all_equiv.
Print Assumptions cd_write_all_log_equiv.
Print Assumptions cd_read_exact_equiv.
Print Assumptions cd_read_fill_equiv.
Print Assumptions cpr_fill_loop_equiv.
Print Assumptions cpr_read_page_equiv.

(** * Where the models touch the device

    Every access of the page layer and of the file level to the device goes through one of
    d_write_all, d_read_exact, d_read_fill, pr_fill_loop (over d_read), d_seek_end, d_seek_start,
    d_pos, d_flush - the primitives whose chunked counterparts are proved equivalent above
    (seeks, position and flush transfer no data and are lifted unchanged: cd_seek_end,
    cd_seek_start, cd_pos, cd_flush).

    Model/PagedWriter.v
      pw_new                 : d_seek_end
      pw_read_current_page   : d_read_fill (S (N.to_nat PAGE)) PAGE []        (cd_read_fill_equiv)
      pw_write               : d_write_all (seal buf), d_pos, pw_read_current_page, d_seek_start
      pw_write_all(_loop)    : pw_write only
      pw_flush               : d_pos, d_write_all (seal buf), d_seek_start, d_flush
      pw_physical_position   : d_pos
      pw_physical_size       : pw_flush, d_pos, d_seek_end, d_seek_start
      pw_physical_seek       : pw_physical_size, d_seek_start, pw_read_current_page, d_seek_start
      pw_align               : pw_write_all
      pw_drop                : pw_flush
      pw_step, pw_run        : the above only
    Model/PagedReader.v
      pr_new                 : d_seek_end
      pr_fill_loop           : d_read (the read_exact loop into the page buffer; cpr_fill_loop_equiv)
      pr_read_page           : d_seek_start, pr_fill_loop                     (cpr_read_page_equiv)
      pr_read                : pr_read_page
      pr_read_exact(_loop)   : pr_read
      pr_seek_physical, pr_align : no device access
      pr_step, pr_run        : the above only
    Model/FileBin.v
      header_read            : d_read_exact 48                                (cd_read_exact_equiv)
      get_u64                : d_seek_start, d_read_exact 8
      reader_open (old), validate_crc, raw_xml (old) : header_read / get_u64, pr_new, then rprog
                               programs (rrun: pr_step only)
      header_write, blob_write, item_write, items_write, writer_init, writer_finalize : wprog
                               programs (wrun: pw_step only)
    Model/ReaderOpen.v
      reader_open            : header_read, pr_new, rrun open_paged
      raw_xml                : get_u64 40, pr_new, rrun raw_xml_paged
    Model/PcWriter.v, Model/QueueReader.v : wprog / rprog programs only.

    [d_read] is used directly only inside d_read_fill, d_read_exact_loop and pr_fill_loop. *)
