(** What the insertion of foreign content ([fins], Spec/XeForeign.v) preserves of the accessors the
    extractors use: [is_tag], [attribute], [xml::text] ([elem_text]), [lookup_prefix], first-match
    child lookups, filtered child lists, the root element. *)
From Coq Require Import Strings.String.
From Coq Require Import List Bool NArith Lia.
From E57 Require Import Base.Prelude Model.Meta Model.XmlTree Model.XmlExtract Spec.XeForeign.
Import ListNotations.

Local Notation "'B' s" := (ltac:(let v := eval vm_compute in (bytes_of_string s%string) in exact v))
  (at level 0, s at level 0, only parsing).

Inductive orel {A} (R : A -> A -> Prop) : option A -> option A -> Prop :=
| orel_none : orel R None None
| orel_some a b : R a b -> orel R (Some a) (Some b).

Lemma xstr_eqb_refl a : xstr_eqb a a = true.
Proof. induction a as [|x a IH]; cbn; [reflexivity|]. rewrite N.eqb_refl, IH. reflexivity. Qed.

Lemma xstr_eqb_eq a b : xstr_eqb a b = true -> a = b.
Proof.
  revert b. induction a as [|x a IH]; intros [|y b] H; cbn in H; try discriminate; [reflexivity|].
  apply andb_true_iff in H. destruct H as [H1 H2]. apply N.eqb_eq in H1. subst. f_equal. auto.
Qed.

Lemma find_app {A} (p : A -> bool) l1 l2 :
  find p (l1 ++ l2) = match find p l1 with Some x => Some x | None => find p l2 end.
Proof. induction l1 as [|x l IH]; cbn; [reflexivity|]. destruct (p x); auto. Qed.

Scheme ins_gen_mind := Minimality for ins_gen Sort Prop
  with ins_list_mind := Minimality for ins_list Sort Prop.
Combined Scheme ins_gen_mutind from ins_gen_mind, ins_list_mind.

Notation ins := fins (only parsing).
Notation ins_doc := fins_doc (only parsing).

(** * Monotonicity: adding only attributes is a special case *)
Lemma ins_gen_mono_both (P Q : xnode -> bool) :
  (forall f, P f = true -> Q f = true) ->
  (forall n n', ins_gen P n n' -> ins_gen Q n n') /\
  (forall b l l', ins_list P b l l' -> ins_list Q b l l').
Proof.
  intros HPQ. apply ins_gen_mutind; intros; try (constructor; auto; fail); try (apply il_ins; auto).
Qed.

Lemma fattr_ins n n' : fattr n n' -> fins n n'.
Proof. apply (proj1 (ins_gen_mono_both _ _ (fun f (H : false = true) => match Bool.diff_false_true H with end))). Qed.

Lemma fattr_doc_ins_doc d d' : fattr_doc d d' -> fins_doc d d'.
Proof. apply (proj2 (ins_gen_mono_both _ _ (fun f (H : false = true) => match Bool.diff_false_true H with end))). Qed.

(** * Attributes *)
Lemma attrs_ext_find (p : xattr -> bool) a a' :
  (forall x, namespaced x = true -> p x = false) ->
  attrs_ext a a' -> find p a' = find p a.
Proof.
  intros Hp H. induction H as [|x l l' H IH|x l l' Hx H IH]; cbn; auto.
  - rewrite IH. reflexivity.
  - rewrite (Hp x Hx). exact IH.
Qed.

Lemma ins_attribute a n n' : fins n n' -> attribute a n' = attribute a n.
Proof.
  intros H. inversion H; subst; try reflexivity. cbn.
  rewrite (attrs_ext_find _ a0 a'); auto.
  intros x Hx. unfold namespaced in Hx. destruct (xn_ns (xa_name x)); [reflexivity|discriminate].
Qed.

Lemma ins_attr_is a v n n' : fins n n' -> attr_is a v n' = attr_is a v n.
Proof. intros H. unfold attr_is. rewrite (ins_attribute a _ _ H). reflexivity. Qed.

(** * Shape *)
Lemma ins_is_tag nm n n' : fins n n' -> is_tag nm n' = is_tag nm n.
Proof. intros H. inversion H; reflexivity. Qed.

Lemma ins_is_element n n' : fins n n' -> is_element n' = is_element n.
Proof. intros H. inversion H; reflexivity. Qed.

Lemma ins_children n n' :
  fins n n' -> ins_list insertable (xstr_eqb (local_name n) PROTOTYPE) (children n) (children n').
Proof.
  intros H. inversion H as [| | |nm a a' sc ch ch' Ha Hl]; subst; cbn; [constructor..|exact Hl].
Qed.

(** inserted nodes are never standard elements and never text *)
Lemma insertable_not_tag nm f : insertable f = true -> is_tag nm f = false.
Proof.
  destruct f as [xn a sc ch|t|t|t v]; cbn [insertable]; intros H; try reflexivity; try discriminate.
  unfold is_tag, std_ns. unfold foreign_elem in H. destruct (xn_ns xn) as [u|]; [|discriminate].
  apply andb_true_iff in H. destruct H as [H1 H2]. apply negb_true_iff in H1. apply negb_true_iff in H2.
  change E57_NAMESPACE with E57_NS. unfold is_empty. rewrite H1, H2. apply andb_false_r.
Qed.

Lemma insertable_not_text f : insertable f = true -> is_text_node f = false.
Proof. destruct f; cbn; intros H; try reflexivity. discriminate. Qed.

(** * [xml::text]: the concatenated text and whether there is a text child *)
Lemma ins_list_texts b ch ch' :
  ins_list insertable b ch ch' ->
  cat_texts ch' = cat_texts ch /\ existsb is_text_node ch' = existsb is_text_node ch.
Proof.
  intros H. induction H as [b|b c c' r r' Hc Hr [IH1 IH2]|b f r r' Hf Ht Hb Hr [IH1 IH2]|b t1 t2 r r' Hr [IH1 IH2]].
  - split; reflexivity.
  - inversion Hc; subst; cbn [cat_texts existsb is_text_node]; rewrite ?IH1, ?IH2; split; reflexivity.
  - pose proof (insertable_not_text f Hf) as Hn. destruct f; cbn [cat_texts existsb] in *; try discriminate;
      cbn [is_text_node orb]; split; assumption.
  - cbn [cat_texts existsb is_text_node orb] in *. rewrite IH1. split; [rewrite app_assoc; reflexivity|reflexivity].
Qed.

Lemma ins_elem_text n n' : fins n n' -> elem_text n' = elem_text n.
Proof.
  intros H. unfold elem_text. destruct (ins_list_texts _ _ _ (ins_children _ _ H)) as [E1 E2].
  rewrite E1, E2. reflexivity.
Qed.

Lemma ins_opt_text d n n' : fins n n' -> opt_text d n' = opt_text d n.
Proof. intros H. unfold opt_text. rewrite (ins_elem_text _ _ H). reflexivity. Qed.

(** * First-match lookups and filters over children *)
Section Lists.
Variable p : xnode -> bool.
Hypothesis p_ins : forall c c', fins c c' -> p c' = p c.
Hypothesis p_inert : forall f, insertable f = true -> p f = false.
Hypothesis p_text : forall t, p (XText t) = false.

Lemma ins_list_find b ch ch' :
  ins_list insertable b ch ch' -> orel fins (find p ch) (find p ch').
Proof.
  intros H. induction H as [b|b c c' r r' Hc Hr IH|b f r r' Hf Ht Hb Hr IH|b t1 t2 r r' Hr IH]; cbn [find].
  - constructor.
  - rewrite (p_ins _ _ Hc). destruct (p c); [constructor; assumption|assumption].
  - rewrite (p_inert f Hf). assumption.
  - rewrite !p_text. cbn [find] in IH. rewrite p_text in IH. exact IH.
Qed.

Lemma ins_list_filter b ch ch' :
  ins_list insertable b ch ch' -> Forall2 fins (filter p ch) (filter p ch').
Proof.
  intros H. induction H as [b|b c c' r r' Hc Hr IH|b f r r' Hf Ht Hb Hr IH|b t1 t2 r r' Hr IH]; cbn [filter].
  - constructor.
  - rewrite (p_ins _ _ Hc). destruct (p c); [constructor; assumption|assumption].
  - rewrite (p_inert f Hf). assumption.
  - rewrite !p_text. cbn [filter] in IH. rewrite p_text in IH. exact IH.
Qed.
End Lists.

(** where only non-elements are inserted the elements correspond one to one *)
Lemma ins_list_elements_gen b ch ch' :
  ins_list insertable b ch ch' -> b = true -> Forall2 fins (filter is_element ch) (filter is_element ch').
Proof.
  intros H. induction H as [b|b c c' r r' Hc Hr IH|b f r r' Hf Ht Hb Hr IH|b t1 t2 r r' Hr IH]; intros Eb; cbn [filter].
  - constructor.
  - rewrite (ins_is_element _ _ Hc). destruct (is_element c); [constructor; auto|auto].
  - destruct Hb as [Hb|Hb]; [congruence|]. rewrite Hb. auto.
  - cbn [is_element]. cbn [filter is_element] in IH. auto.
Qed.

Lemma ins_find_child nm n n' : fins n n' -> orel fins (find_child nm n) (find_child nm n').
Proof.
  intros H. unfold find_child. eapply ins_list_find; [| | |apply ins_children; exact H].
  - intros c c' Hc. apply ins_is_tag; assumption.
  - intros f Hf. apply insertable_not_tag; assumption.
  - reflexivity.
Qed.

Lemma ins_find_child_typed nm ty n n' :
  fins n n' -> orel fins (find_child_typed nm ty n) (find_child_typed nm ty n').
Proof.
  intros H. unfold find_child_typed. eapply ins_list_find; [| | |apply ins_children; exact H].
  - intros c c' Hc. rewrite (ins_is_tag _ _ _ Hc), (ins_attr_is _ _ _ _ Hc). reflexivity.
  - intros f Hf. rewrite (insertable_not_tag nm f Hf). reflexivity.
  - reflexivity.
Qed.

Lemma ins_filter_vector_child ty n n' :
  fins n n' ->
  Forall2 fins (filter (is_vector_child ty) (children n)) (filter (is_vector_child ty) (children n')).
Proof.
  intros H. eapply ins_list_filter; [| | |apply ins_children; exact H].
  - intros c c' Hc. unfold is_vector_child. rewrite (ins_is_tag _ _ _ Hc), (ins_attr_is _ _ _ _ Hc). reflexivity.
  - intros f Hf. unfold is_vector_child. rewrite (insertable_not_tag _ f Hf). reflexivity.
  - reflexivity.
Qed.

Lemma ins_filter_elem_vector_child ty n n' :
  fins n n' ->
  Forall2 fins (filter (fun c => is_element c && is_vector_child ty c) (children n))
               (filter (fun c => is_element c && is_vector_child ty c) (children n')).
Proof.
  intros H. eapply ins_list_filter; [| | |apply ins_children; exact H].
  - intros c c' Hc. unfold is_vector_child.
    rewrite (ins_is_element _ _ Hc), (ins_is_tag _ _ _ Hc), (ins_attr_is _ _ _ _ Hc). reflexivity.
  - intros f Hf. unfold is_vector_child. rewrite (insertable_not_tag _ f Hf). rewrite andb_false_r. reflexivity.
  - reflexivity.
Qed.

(** * Prototype children and the root element *)
Lemma is_tag_local nm n : is_tag nm n = true -> xstr_eqb (local_name n) nm = true.
Proof. unfold is_tag. intros H. apply andb_true_iff in H. destruct H as [H _]. destruct n; try discriminate. exact H. Qed.

Lemma ins_prototype_children n n' :
  fins n n' -> is_tag PROTOTYPE n = true ->
  Forall2 fins (filter is_element (children n)) (filter is_element (children n')).
Proof.
  intros H Hp. pose proof (ins_children _ _ H) as Hc. rewrite (is_tag_local _ _ Hp) in Hc.
  eapply ins_list_elements_gen; [exact Hc|reflexivity].
Qed.

Lemma ins_doc_root d d' : fins_doc d d' -> orel fins (root_element d) (root_element d').
Proof.
  unfold fins_doc, ins_doc_gen, root_element. intros H.
  remember true as b eqn:Eb.
  induction H as [b|b c c' r r' Hc Hr IH|b f r r' Hf Ht Hb Hr IH|b t1 t2 r r' Hr IH]; cbn [find].
  - constructor.
  - rewrite (ins_is_element _ _ Hc). destruct (is_element c); [constructor; assumption|auto].
  - destruct Hb as [Hb|Hb]; [congruence|]. rewrite Hb. auto.
  - cbn [is_element]. cbn [find is_element] in IH. auto.
Qed.

(** * Combinators of the model *)
Lemma opt_case_ins {A} o o' (f : xnode -> A) d :
  orel fins o o' -> (forall c c', fins c c' -> f c' = f c) -> opt_case o' f d = opt_case o f d.
Proof. intros H Hf. destruct H; cbn; auto. Qed.

Lemma opt_case_ins2 {A} o o' (f f' : xnode -> A) d d' :
  orel fins o o' -> (forall c c', fins c c' -> f' c' = f c) -> d' = d ->
  opt_case o' f' d' = opt_case o f d.
Proof. intros H Hf Hd. destruct H; cbn; auto. Qed.

Lemma res_bind_cong {A C} (x x' : res A) (k k' : A -> res C) :
  x' = x -> (forall a, k' a = k a) -> res_bind x' k' = res_bind x k.
Proof. intros -> Hk. destruct x; cbn; auto. Qed.

Lemma map_res_ins {C} (f f' : xnode -> res C) l l' :
  Forall2 fins l l' -> (forall c c', fins c c' -> f' c' = f c) -> map_res f' l' = map_res f l.
Proof.
  intros H Hf. induction H as [|c c' r r' Hc Hr IH]; cbn; [reflexivity|].
  rewrite (Hf _ _ Hc), IH. reflexivity.
Qed.

Lemma map_ins {C} (f : xnode -> C) l l' :
  Forall2 fins l l' -> (forall c c', fins c c' -> f c' = f c) -> map f l' = map f l.
Proof.
  intros H Hf. induction H as [|c c' r r' Hc Hr IH]; cbn; [reflexivity|].
  rewrite (Hf _ _ Hc), IH. reflexivity.
Qed.

Lemma descendants_elem nm a sc ch :
  descendants (XElem nm a sc ch) = XElem nm a sc ch :: flat_map descendants ch.
Proof. reflexivity. Qed.
