(** What the restricted insertion [ins] (Spec/XeForeign.v) preserves of the accessors the
    extractors use: tag name tests, [attribute], [node_text], [lookup_prefix], first-match child
    and descendant lookups of looked-up names, filtered child lists. *)
From Coq Require Import Strings.String.
From Coq Require Import List Bool NArith Lia.
From E57 Require Import Base.Prelude Model.Meta Model.XmlTree Model.XmlExtract Spec.XeForeign.
Import ListNotations.

Local Notation "'B' s" := (ltac:(let v := eval vm_compute in (bytes_of_string s%string) in exact v))
  (at level 0, s at level 0, only parsing).

Inductive orel {A} (R : A -> A -> Prop) : option A -> option A -> Prop :=
| orel_none : orel R None None
| orel_some a b : R a b -> orel R (Some a) (Some b).

Lemma xstr_eqb_refl a : xstr_eqb a a = true.
Proof. induction a as [|x a IH]; cbn; [reflexivity|]. rewrite N.eqb_refl, IH. reflexivity. Qed.

Lemma xstr_eqb_eq a b : xstr_eqb a b = true -> a = b.
Proof.
  revert b. induction a as [|x a IH]; intros [|y b] H; cbn in H; try discriminate; [reflexivity|].
  apply andb_true_iff in H. destruct H as [H1 H2]. apply N.eqb_eq in H1. subst. f_equal. auto.
Qed.

Scheme ins_gen_mind := Minimality for ins_gen Sort Prop
  with ins_list_mind := Minimality for ins_list Sort Prop.
Combined Scheme ins_gen_mutind from ins_gen_mind, ins_list_mind.

(** * Monotonicity of the generic relation, and the special cases *)
Section Mono.
Variables (P Q : xnode -> Prop) (Hd Hd' : list xnode -> list xnode -> Prop).
Hypothesis HPQ : forall f, P f -> Q f.
Hypothesis HHd : forall b ch ch', ins_list P Hd b ch ch' -> Hd ch ch' -> Hd' ch ch'.

Lemma ins_gen_mono_both :
  (forall n n', ins_gen P Hd n n' -> ins_gen Q Hd' n n') /\
  (forall b l l', ins_list P Hd b l l' -> ins_list Q Hd' b l l').
Proof.
  apply ins_gen_mutind; intros; try (constructor; auto; fail).
  constructor; eauto.
Qed.
End Mono.

Lemma fins_inert_ins n n' : fins_inert n n' -> ins n n'.
Proof.
  apply (proj1 (ins_gen_mono_both _ _ _ _ (fun f (H : foreign_elem f = true /\ inert_subtree f = true) => proj2 H)
                  (fun _ _ _ _ H => H))).
Qed.

Lemma fins_inert_doc_ins_doc d d' : fins_inert_doc d d' -> ins_doc d d'.
Proof.
  unfold fins_inert_doc, ins_doc, ins_doc_gen. intros H.
  induction H; constructor; auto. apply fins_inert_ins; assumption.
Qed.

(** a tree with added namespaced attributes only is a restricted insertion *)
Lemma fattr_list_head b ch ch' :
  ins_list (fun _ => False) (fun _ _ => True) b ch ch' -> True -> head_text_kept ch ch'.
Proof.
  intros H _. destruct H as [b|b c c' r r' Hc Hr|f r r' _ []]; cbn; auto.
  destruct c; auto. inversion Hc; subst. exact I.
Qed.

Lemma fattr_ins n n' : fattr n n' -> ins n n'.
Proof.
  apply (proj1 (ins_gen_mono_both _ _ _ _ (fun f (H : False) => match H with end) fattr_list_head)).
Qed.

Lemma fattr_doc_ins_doc d d' : fattr_doc d d' -> ins_doc d d'.
Proof.
  unfold fattr_doc, ins_doc, ins_doc_gen. intros H.
  induction H; constructor; auto. apply fattr_ins; assumption.
Qed.

(** * Attributes *)
Lemma attrs_ext_find (p : xattr -> bool) a a' :
  (forall x, namespaced x = true -> p x = false) ->
  attrs_ext a a' -> find p a' = find p a.
Proof.
  intros Hp H. induction H as [|x l l' H IH|x l l' Hx H IH]; cbn; auto.
  - rewrite IH. reflexivity.
  - rewrite (Hp x Hx). exact IH.
Qed.

Lemma ins_attribute a n n' : ins n n' -> attribute a n' = attribute a n.
Proof.
  intros H. inversion H; subst; try reflexivity. cbn.
  rewrite (attrs_ext_find _ a0 a'); auto.
  intros x Hx. unfold namespaced in Hx. destruct (xn_ns (xa_name x)); [reflexivity|discriminate].
Qed.

Lemma ins_attr_is a v n n' : ins n n' -> attr_is a v n' = attr_is a v n.
Proof. intros H. unfold attr_is. rewrite (ins_attribute a _ _ H). reflexivity. Qed.

(** * Shape *)
Lemma ins_has_tag_name nm n n' : ins n n' -> has_tag_name nm n' = has_tag_name nm n.
Proof. intros H. inversion H; reflexivity. Qed.

Lemma ins_is_element n n' : ins n n' -> is_element n' = is_element n.
Proof. intros H. inversion H; reflexivity. Qed.

Lemma ins_children n n' :
  ins n n' ->
  ins_list (fun f => inert_subtree f = true) head_text_kept
           (xstr_eqb (local_name n) PROTOTYPE) (children n) (children n').
Proof.
  intros H. inversion H as [| | |nm a a' sc ch ch' Ha Hl Hh]; subst; cbn; [constructor..|exact Hl].
Qed.

Lemma ins_node_text n n' : ins n n' -> node_text n' = node_text n.
Proof.
  intros H. inversion H as [| | |nm a a' sc ch ch' Ha Hl Hh]; subst; try reflexivity. cbn.
  destruct Hl as [b|b c c' r r' Hc Hr|f r r' Hf Hi Hr].
  - reflexivity.
  - inversion Hc; reflexivity.
  - destruct f; try discriminate. destruct r as [|[] r]; cbn in Hh; try reflexivity. contradiction.
Qed.

Lemma ins_opt_text d n n' : ins n n' -> opt_text d n' = opt_text d n.
Proof. intros H. unfold opt_text. rewrite (ins_node_text _ _ H). reflexivity. Qed.

(** * Inserted subtrees never match a looked-up name *)
Lemma descendants_elem nm a sc ch :
  descendants (XElem nm a sc ch) = XElem nm a sc ch :: flat_map descendants ch.
Proof.
  reflexivity.
Qed.

Lemma inert_node_no_match nm n :
  is_lookup_name nm = true -> inert_node n = true -> has_tag_name nm n = false.
Proof.
  intros Hn Hi. destruct n as [name a sc ch|t|t|t v]; try reflexivity. cbn in *.
  destruct (xstr_eqb (xn_local name) nm) eqn:E; [|reflexivity].
  apply xstr_eqb_eq in E. rewrite E, Hn in Hi. discriminate.
Qed.

Lemma inert_subtree_root nm f :
  is_lookup_name nm = true -> inert_subtree f = true -> has_tag_name nm f = false.
Proof.
  intros Hn Hf. unfold inert_subtree in Hf. apply andb_true_iff in Hf. destruct Hf as [_ Hf].
  destruct f; try reflexivity. rewrite descendants_elem in Hf. cbn [forallb] in Hf.
  apply andb_true_iff in Hf. destruct Hf as [Hf _]. apply inert_node_no_match; assumption.
Qed.

Lemma inert_subtree_find_desc nm f :
  is_lookup_name nm = true -> inert_subtree f = true -> find (has_tag_name nm) (descendants f) = None.
Proof.
  intros Hn Hf. unfold inert_subtree in Hf. apply andb_true_iff in Hf. destruct Hf as [_ Hf].
  induction (descendants f) as [|x l IH]; cbn in *; [reflexivity|].
  apply andb_true_iff in Hf. destruct Hf as [Hx Hl].
  rewrite (inert_node_no_match nm x Hn Hx). auto.
Qed.

(** * First-match lookups and filters over children *)
Section Lists.
Variable p : xnode -> bool.
Hypothesis p_ins : forall c c', ins c c' -> p c' = p c.
Hypothesis p_inert : forall f, is_element f = true -> inert_subtree f = true -> p f = false.

Lemma ins_list_find b ch ch' :
  ins_list (fun f => inert_subtree f = true) head_text_kept b ch ch' ->
  orel ins (find p ch) (find p ch').
Proof.
  intros H. induction H as [b|b c c' r r' Hc Hr IH|f r r' Hf Hi Hr IH]; cbn.
  - constructor.
  - rewrite (p_ins _ _ Hc). destruct (p c); [constructor; assumption|assumption].
  - rewrite (p_inert f Hf Hi). assumption.
Qed.

Lemma ins_list_filter b ch ch' :
  ins_list (fun f => inert_subtree f = true) head_text_kept b ch ch' ->
  Forall2 ins (filter p ch) (filter p ch').
Proof.
  intros H. induction H as [b|b c c' r r' Hc Hr IH|f r r' Hf Hi Hr IH]; cbn.
  - constructor.
  - rewrite (p_ins _ _ Hc). destruct (p c); [constructor; assumption|assumption].
  - rewrite (p_inert f Hf Hi). assumption.
Qed.
End Lists.

Lemma ins_list_proto_gen b ch ch' :
  ins_list (fun f => inert_subtree f = true) head_text_kept b ch ch' -> b = true -> Forall2 ins ch ch'.
Proof.
  intros H. induction H as [b|b c c' r r' Hc Hr IH|f r r' Hf Hi Hr IH]; intros Eb; try discriminate.
  - constructor.
  - constructor; auto.
Qed.

Lemma ins_list_proto ch ch' :
  ins_list (fun f => inert_subtree f = true) head_text_kept true ch ch' -> Forall2 ins ch ch'.
Proof. intros H. eapply ins_list_proto_gen; [exact H|reflexivity]. Qed.

Lemma ins_find_child nm n n' :
  ins n n' -> is_lookup_name nm = true -> orel ins (find_child nm n) (find_child nm n').
Proof.
  intros H Hn. unfold find_child. eapply ins_list_find; [| |apply ins_children; exact H].
  - intros c c' Hc. apply ins_has_tag_name; assumption.
  - intros f _ Hf. apply inert_subtree_root; assumption.
Qed.

Lemma ins_find_child_typed nm ty n n' :
  ins n n' -> is_lookup_name nm = true ->
  orel ins (find_child_typed nm ty n) (find_child_typed nm ty n').
Proof.
  intros H Hn. unfold find_child_typed. eapply ins_list_find; [| |apply ins_children; exact H].
  - intros c c' Hc. rewrite (ins_has_tag_name _ _ _ Hc), (ins_attr_is _ _ _ _ Hc). reflexivity.
  - intros f _ Hf. rewrite (inert_subtree_root nm f Hn Hf). reflexivity.
Qed.

Lemma ins_filter_vector_child ty n n' :
  ins n n' ->
  Forall2 ins (filter (is_vector_child ty) (children n)) (filter (is_vector_child ty) (children n')).
Proof.
  intros H. eapply ins_list_filter; [| |apply ins_children; exact H].
  - intros c c' Hc. unfold is_vector_child.
    rewrite (ins_has_tag_name _ _ _ Hc), (ins_attr_is _ _ _ _ Hc). reflexivity.
  - intros f _ Hf. unfold is_vector_child.
    rewrite (inert_subtree_root (B"vectorChild") f eq_refl Hf). reflexivity.
Qed.

Lemma ins_filter_elem_vector_child ty n n' :
  ins n n' ->
  Forall2 ins (filter (fun c => is_element c && is_vector_child ty c) (children n))
              (filter (fun c => is_element c && is_vector_child ty c) (children n')).
Proof.
  intros H. eapply ins_list_filter; [| |apply ins_children; exact H].
  - intros c c' Hc. unfold is_vector_child.
    rewrite (ins_is_element _ _ Hc), (ins_has_tag_name _ _ _ Hc), (ins_attr_is _ _ _ _ Hc). reflexivity.
  - intros f _ Hf. unfold is_vector_child.
    rewrite (inert_subtree_root (B"vectorChild") f eq_refl Hf). rewrite andb_false_r. reflexivity.
Qed.

(** * Descendant lookups *)
Lemma find_app {A} (p : A -> bool) l1 l2 :
  find p (l1 ++ l2) = match find p l1 with Some x => Some x | None => find p l2 end.
Proof. induction l1 as [|x l IH]; cbn; [reflexivity|]. destruct (p x); auto. Qed.

Lemma ins_find_desc_both nm :
  is_lookup_name nm = true ->
  (forall n n', ins n n' ->
     orel ins (find (has_tag_name nm) (descendants n)) (find (has_tag_name nm) (descendants n'))) /\
  (forall b l l', ins_list (fun f => inert_subtree f = true) head_text_kept b l l' ->
     orel ins (find (has_tag_name nm) (flat_map descendants l))
              (find (has_tag_name nm) (flat_map descendants l'))).
Proof.
  intros Hn. apply ins_gen_mutind.
  - intros t. cbn. constructor.
  - intros t. cbn. constructor.
  - intros t v. cbn. constructor.
  - intros name a a' sc ch ch' Ha Hl IH Hh. rewrite !descendants_elem. cbn [find].
    cbn [has_tag_name]. destruct (xstr_eqb (xn_local name) nm).
    + constructor. constructor; assumption.
    + exact IH.
  - intros b. cbn. constructor.
  - intros b c c' r r' Hc IHc Hr IHr. cbn [flat_map]. rewrite !find_app.
    destruct IHc as [|x y Hxy]; [exact IHr|constructor; assumption].
  - intros f r r' Hf Hi Hr IHr. cbn [flat_map]. rewrite find_app.
    rewrite (inert_subtree_find_desc nm f Hn Hi). exact IHr.
Qed.

Lemma ins_find_desc nm n n' :
  ins n n' -> is_lookup_name nm = true -> orel ins (find_desc nm n) (find_desc nm n').
Proof. intros H Hn. apply (proj1 (ins_find_desc_both nm Hn)); assumption. Qed.

Lemma ins_find_doc_desc nm d d' :
  ins_doc d d' -> is_lookup_name nm = true -> orel ins (find_doc_desc nm d) (find_doc_desc nm d').
Proof.
  intros H Hn. unfold find_doc_desc, doc_descendants. unfold ins_doc, ins_doc_gen in H.
  induction H as [|c c' r r' Hc Hr IH]; cbn [flat_map].
  - constructor.
  - rewrite !find_app. pose proof (ins_find_desc nm c c' Hc Hn) as Hd. unfold find_desc in Hd.
    destruct Hd as [|x y Hxy]; [exact IH|constructor; assumption].
Qed.

(** * Prototype children and [lookup_prefix] *)
Lemma Forall2_ins_filter_elem l l' :
  Forall2 ins l l' -> Forall2 ins (filter is_element l) (filter is_element l').
Proof.
  intros H. induction H as [|c c' r r' Hcc Hr IH]; cbn; [constructor|].
  rewrite (ins_is_element _ _ Hcc). destruct (is_element c); [constructor; assumption|assumption].
Qed.

Lemma ins_prototype_children n n' :
  ins n n' -> has_tag_name PROTOTYPE n = true ->
  Forall2 ins (filter is_element (children n)) (filter is_element (children n')).
Proof.
  intros H Hp. pose proof (ins_children _ _ H) as Hc.
  destruct n as [nm a sc ch|t|t|t v]; try discriminate. cbn in Hp. cbn [local_name] in Hc. rewrite Hp in Hc.
  apply ins_list_proto in Hc. apply Forall2_ins_filter_elem. exact Hc.
Qed.

(** * Combinators of the model *)
Lemma opt_case_ins {A} o o' (f : xnode -> A) d :
  orel ins o o' -> (forall c c', ins c c' -> f c' = f c) -> opt_case o' f d = opt_case o f d.
Proof. intros H Hf. destruct H; cbn; auto. Qed.

Lemma opt_case_ins2 {A} o o' (f f' : xnode -> A) d d' :
  orel ins o o' -> (forall c c', ins c c' -> f' c' = f c) -> d' = d ->
  opt_case o' f' d' = opt_case o f d.
Proof. intros H Hf Hd. destruct H; cbn; auto. Qed.

Lemma res_bind_cong {A C} (x x' : res A) (k k' : A -> res C) :
  x' = x -> (forall a, k' a = k a) -> res_bind x' k' = res_bind x k.
Proof. intros -> Hk. destruct x; cbn; auto. Qed.

Lemma map_res_ins {C} (f f' : xnode -> res C) l l' :
  Forall2 ins l l' -> (forall c c', ins c c' -> f' c' = f c) -> map_res f' l' = map_res f l.
Proof.
  intros H Hf. induction H as [|c c' r r' Hc Hr IH]; cbn; [reflexivity|].
  rewrite (Hf _ _ Hc), IH. reflexivity.
Qed.

Lemma map_ins {C} (f : xnode -> C) l l' :
  Forall2 ins l l' -> (forall c c', ins c c' -> f c' = f c) -> map f l' = map f l.
Proof.
  intros H Hf. induction H as [|c c' r r' Hc Hr IH]; cbn; [reflexivity|].
  rewrite (Hf _ _ Hc), IH. reflexivity.
Qed.
