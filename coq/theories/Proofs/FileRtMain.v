(** File-level round trip of the binary side: what [file_prog] (header, any
    list of blobs and point clouds, XML bytes, final header) leaves on the
    device is a file of whole, sealed pages that [reader_open] accepts, handing
    back exactly the XML bytes and the header values, and from which every
    blob and every point cloud is read back exactly, from any reachable state
    of the opened reader. *)
From E57 Require Import Base.Prelude Model.Crc Model.Device Model.PagedWriter Model.PagedReader
  Spec.PageSpec Spec.PageReadSpec Model.Prog Model.Record Model.QueueReader Model.PcWriter
  Model.FileBin Model.ReaderOpen Spec.FormatSpec.
From E57 Require Import Proofs.PageSpecLemmas Proofs.PagedWriterProofs Proofs.PagedReaderCache
  Proofs.PagedReaderProofs Proofs.ProgTransfer Proofs.ReaderProgSem Proofs.BlobProofs
  Proofs.FileRtWriter Proofs.FileRtReader.
From Coq Require Import ZifyN ZifyNat ZifyBool.
Ltac Zify.zify_post_hook ::= Z.div_mod_to_equations.
Open Scope N_scope.

(** * The device image is stable under further flushes and under [Drop] *)

Lemma image_stable A (p : wprog A) :
  let s1 := fst (pw_flush (fst (wrun p pw0))) in
  snd (pw_flush s1) = Ok tt /\ d_bytes (pw_dev (fst (pw_flush s1))) = d_bytes (pw_dev s1) /\
  snd (pw_drop s1) = Ok tt /\ d_bytes (pw_dev (fst (pw_drop s1))) = d_bytes (pw_dev s1).
Proof.
  cbv zeta.
  destruct (wrun_R A p pw0 ls_init R_init) as (_ & ops' & H1 & _).
  destruct (R_run ops' pw0 ls_init R_init) as (_ & HR).
  rewrite H1.
  destruct (R_flush _ _ HR) as (s' & V & HR' & Hb). rewrite V. cbn [fst].
  destruct (R_flush _ _ HR') as (s'' & V' & _ & Hb').
  unfold pw_drop, ignore_err. rewrite V'. cbn [fst snd]. rewrite Hb, Hb'. auto.
Qed.

(** * Writer side: the device image *)

(** the logical stream the writer program leaves *)
Definition final_stream (is : list item) (xml : list N) : lstream :=
  fst (wrun_spec (file_prog is xml) ls_init).

(** the file: the device bytes after the program and the flush of [Drop] *)
Definition file_of (is : list item) (xml : list N) : list N :=
  d_bytes (pw_dev (fst (pw_flush (fst (wrun (file_prog is xml) pw0))))).

Lemma file_image : forall (is : list item) (xml : list N),
  forallb item_wf is = true ->
  exists outs secs log,
    let body := concat secs in
    let L := ls_data (final_stream is xml) in
    snd (wrun (file_prog is xml) pw0) = Ok outs /\
    snd (pw_flush (fst (wrun (file_prog is xml) pw0))) = Ok tt /\
    d_bytes (pw_dev (fst (pw_flush (fst (wrun (file_prog is xml) pw0))))) = paginate log /\
    laid 48 is outs secs /\ (48 + len body) mod 4 = 0 /\
    len L = 48 + len body + len xml /\
    ls_phys_size (final_stream is xml) = pages_for (len L) * 1024 /\
    len log = pages_for (len L) * 1020 /\
    log = hdr (pages_for (len L) * 1024) (phys_of_log (48 + len body)) (len xml)
            ++ body ++ xml ++ zeros (pages_for (len L) * 1020 - len L).
Proof.
  intros is xml Hwf. unfold final_stream.
  destruct (file_prog_spec is xml Hwf) as (outs & secs & Hspec & Hlaid & Hal).
  destruct (wrun_image _ (file_prog is xml)) as (Hres & Hfl & Himg).
  rewrite Hspec in Hres, Himg |- *. cbn [fst snd ls_data] in Hres, Himg |- *.
  set (body := concat secs) in *.
  set (L := hdr (pages_for (48 + len body + len xml) * 1024) (phys_of_log (48 + len body)) (len xml)
            ++ body ++ xml) in *.
  assert (HlenL : len L = 48 + len body + len xml).
  { subst L. rewrite !len_app, len_hdr. lia. }
  exists outs, secs, (pad_payload L). cbv zeta.
  split; [exact Hres|]. split; [exact Hfl|].
  split; [rewrite Himg; symmetry; apply paginate_pad|].
  split; [exact Hlaid|]. split; [exact Hal|]. split; [exact HlenL|].
  split; [reflexivity|]. split; [apply len_pad_payload|].
  unfold pad_payload, PAYLOAD_SZ. subst L. rewrite <- HlenL, <- !app_assoc. reflexivity.
Qed.

(** * The theorem *)

(** the logical stream a file image stands for: its payload, checksums stripped *)
Definition payload_of (f : list N) : list N := strip_crc f.

Definition roundtrip_ok (is : list item) (xml : list N) : Prop :=
  exists outs s,
    wrun (file_prog is xml) pw0 = (s, Ok outs) /\
    snd (pw_flush s) = Ok tt /\
    let f := d_bytes (pw_dev (fst (pw_flush s))) in
    len f = ls_phys_size (final_stream is xml) /\
    len f mod 1024 = 0 /\ all_pages_valid f = true /\
    exists rs h d',
      reader_open (dev_init f None) = (d', Ok (rs, h, xml)) /\
      pr_inv 1024 f rs /\
      h_major h = 1 /\ h_minor h = 0 /\ h_page_size h = 1024 /\
      h_phys_length h = len f /\ h_xml_length h = len xml /\
      (exists xo, h_xml_offset h = phys_of_log xo /\ xo mod 4 = 0 /\
                  slice xo (len xml) (payload_of f) = xml) /\
      Forall2 (fun i o =>
        match i, o with
        | IBlob data, OBlob off l =>
            l = len data /\
            forall ops, snd (rrun (blob_read (pr_log_size rs) off l) (fst (pr_run ops rs))) = Ok data
        | IPc proto points, OPc off n =>
            n = len points /\
            forall ops fuel, (length points < fuel)%nat ->
              snd (rrun (rbind (raw_new off n proto)
                               (fun it => raw_collect fuel (pr_log_size rs) it []))
                        (fst (pr_run ops rs))) = Ok points
        | _, _ => False
        end) is outs.

Theorem file_roundtrip : forall (is : list item) (xml : list N),
  forallb item_wf is = true ->
  (xml <> [] \/ len (ls_data (final_stream is xml)) mod 1020 <> 0) ->
  len xml <= MAX_XML_SIZE ->
  ls_phys_size (final_stream is xml) < 2 ^ 64 ->
  roundtrip_ok is xml.
Proof.
  intros is xml Hwf Hxml Hxl Hsize.
  destruct (file_image is xml Hwf)
    as (outs & secs & log & Hres & Hfl & Hfile & Hlaid & Hal & HlenL & Hphys & Hlenlog & Hlog).
  cbv zeta in *. unfold roundtrip_ok.
  (* the state of the paged writer after the program: from here on a variable *)
  revert Hres Hfl Hfile. generalize (wrun (file_prog is xml) pw0). intros [s r] Hres Hfl Hfile.
  cbn [fst snd] in Hres, Hfl, Hfile. subst r.
  (* likewise the final logical stream: all that matters is in the hypotheses *)
  revert Hxml Hsize HlenL Hphys Hlenlog Hlog. generalize (final_stream is xml).
  intros fs Hxml Hsize HlenL Hphys Hlenlog Hlog.
  set (body := concat secs) in *. set (LL := len (ls_data fs)) in *.
  set (PL := pages_for LL * 1024) in *. set (XO := phys_of_log (48 + len body)) in *.
  rewrite Hphys in Hsize |- *.
  assert (Hmod : len log mod 1020 = 0) by lia.
  assert (Hpf : LL <= pages_for LL * 1020) by apply pages_for_ge.
  assert (Hxne : 0 < len xml \/ LL < pages_for LL * 1020).
  { destruct Hxml as [Hx|Hx]; [left; apply len_nonnil in Hx; lia|right].
    unfold pages_for, PAYLOAD_SZ in *. lia. }
  exists outs, s. split; [reflexivity|].
  split; [exact Hfl|]. cbv zeta. rewrite Hfile.
  assert (Hlenf : len (paginate log) = PL).
  { rewrite len_paginate, (pages_for_divisible _ Hmod), Hlenlog. subst PL. lia. }
  split; [exact Hlenf|]. split; [rewrite Hlenf; subst PL; lia|].
  split; [apply paginate_all_valid|].
  (* opening *)
  assert (Hslice : slice (48 + len body) (len xml) log = xml).
  { rewrite Hlog, app_assoc. replace (48 + len body) with (len (hdr PL XO (len xml) ++ body))
      by (rewrite len_app, len_hdr; reflexivity).
    apply slice_app_exact. reflexivity. }
  assert (HXO : XO < 2 ^ 64) by (subst XO PL; unfold phys_of_log, PAYLOAD_SZ; lia).
  assert (Hopen : snd (rrun_spec log open_paged 0) = Ok (mkHeader 1 0 PL XO (len xml) 1024, xml)).
  { apply (open_paged_spec log Hmod PL (48 + len body) _ xml Hlog Hsize HXO Hxl); try lia.
    exact Hslice. }
  destruct (reader_open_paginate log PL XO (len xml) _ Hlog Hmod) as (s0 & I0 & Hoff0 & Hro).
  pose proof (rrun_inv log Hmod _ open_paged s0 I0) as Hrun. rewrite Hoff0, Hopen in Hrun.
  pose proof (rrun_preserves_inv _ _ _ open_paged s0 I0) as I1.
  destruct (rrun open_paged s0) as [rs r3] eqn:Er. cbn [fst snd] in Hrun, I1. subst r3.
  exists rs, (mkHeader 1 0 PL XO (len xml) 1024), (pr_dev rs).
  split; [exact Hro|]. split; [exact I1|].
  cbn [h_major h_minor h_page_size h_phys_length h_xml_length h_xml_offset]. rewrite Hlenf.
  do 5 (split; [reflexivity|]).
  split.
  { exists (48 + len body). split; [reflexivity|]. split; [exact Hal|].
    unfold payload_of. rewrite strip_paginate, (pad_payload_divisible _ Hmod). exact Hslice. }
  (* the items *)
  assert (Hrb : Forall2 (reads_back_spec log) is outs).
  { apply (laid_reads_back log Hmod) with (secs := secs) (pre := hdr PL XO (len xml))
      (post := xml ++ zeros (pages_for LL * 1020 - LL)).
    - rewrite Hlenlog. unfold phys_of_log, PAYLOAD_SZ. subst PL. lia.
    - exact Hwf.
    - rewrite len_hdr. exact Hlaid.
    - exact Hlog.
    - intros E. apply (f_equal len) in E. rewrite len_app, len_zeros, len_nil in E. lia. }
  clear - Hrb I1 Hmod.
  induction Hrb as [|i o is' outs' Hio _ IH]; constructor; [|exact IH].
  exact (reads_back_of_spec log Hmod rs i o I1 Hio).
Qed.

Print Assumptions file_roundtrip.

(** The common case: a non-empty XML text. *)
Corollary file_roundtrip_xml : forall (is : list item) (xml : list N),
  forallb item_wf is = true -> xml <> [] -> len xml <= MAX_XML_SIZE ->
  ls_phys_size (final_stream is xml) < 2 ^ 64 ->
  roundtrip_ok is xml.
Proof. intros is xml Hwf Hxml. apply file_roundtrip; [exact Hwf|left; exact Hxml]. Qed.

(** The statement with the input conditions as first proposed (blob and XML bytes below 256 in
    addition): these play no role in the round trip. *)
Corollary file_roundtrip_as_proposed : forall (is : list item) (xml : list N),
  forallb item_ok is = true -> bytes_ok xml -> xml <> [] -> len xml <= MAX_XML_SIZE ->
  ls_phys_size (final_stream is xml) < 2 ^ 64 ->
  roundtrip_ok is xml.
Proof.
  intros is xml Hok _ Hxml. apply file_roundtrip_xml; [apply items_ok_wf; exact Hok|exact Hxml].
Qed.

(** the size hypothesis is a bound on the size of the produced file *)
Lemma file_size_is_phys_size : forall is xml, forallb item_wf is = true ->
  len (file_of is xml) = ls_phys_size (final_stream is xml).
Proof.
  intros is xml Hwf.
  destruct (file_image is xml Hwf) as (_ & _ & log & _ & _ & Hfile & _ & _ & _ & Hphys & Hlenlog & _).
  cbv zeta in *. unfold file_of. rewrite Hfile, Hphys, len_paginate.
  rewrite pages_for_divisible by lia. lia.
Qed.

(** * The hypothesis on the XML is needed

    With an empty XML text whose position is the very end of the last payload the reader
    refuses the file: [extract_xml] seeks to the physical size of the file. *)
Theorem file_open_fails_empty_xml_at_page_end : forall (is : list item),
  forallb item_wf is = true ->
  len (ls_data (final_stream is [])) mod 1020 = 0 ->
  ls_phys_size (final_stream is []) < 2 ^ 64 ->
  snd (reader_open (dev_init (file_of is []) None)) = Err ERead.
Proof.
  intros is Hwf Hend Hsize.
  destruct (file_image is [] Hwf)
    as (outs & secs & log & _ & _ & Hfile & _ & _ & HlenL & Hphys & Hlenlog & Hlog).
  cbv zeta in *. unfold file_of. rewrite Hfile.
  set (body := concat secs) in *. set (LL := len (ls_data (final_stream is []))) in *.
  set (PL := pages_for LL * 1024) in *. set (XO := phys_of_log (48 + len body)) in *.
  rewrite Hphys in Hsize. change (len (@nil N)) with 0 in *.
  assert (Hmod : len log mod 1020 = 0) by lia.
  assert (Hpg : pages_for LL * 1020 = LL) by (unfold pages_for, PAYLOAD_SZ; lia).
  assert (HL48 : 48 <= len log) by (rewrite Hlog, len_app, len_hdr; lia).
  assert (Hopen : snd (rrun_spec log open_paged 0) = Err ERead).
  { unfold open_paged.
    change 0 with (phys_of_log 0) at 1.
    erewrite rrun_spec_bind_ok by (apply rrun_seek; [lia|exact Hmod]).
    unfold header_read_paged. rewrite rrun_spec_bind.
    erewrite rrun_spec_bind_ok by (apply rrun_rd_any; lia).
    assert (Hh : slice 0 48 log = hdr PL XO 0).
    { rewrite slice_0, Hlog, take_app_le by (rewrite len_hdr; lia).
      apply take_all. rewrite len_hdr. lia. }
    rewrite Hh, header_parse_hdr.
    rewrite !N.mod_small by (subst XO PL; unfold phys_of_log, PAYLOAD_SZ; lia).
    cbn [rlift rrun_spec h_xml_offset h_xml_length].
    unfold extract_xml. change (MAX_XML_SIZE <? 0) with false. cbv iota.
    unfold r_seek. cbn [rbind rrun_spec lr_step].
    replace (len log / PAYLOAD_SZ * PAGE_SZ <=? XO) with true
      by (subst XO; unfold phys_of_log, PAYLOAD_SZ, PAGE_SZ; lia).
    reflexivity. }
  destruct (reader_open_paginate log PL XO 0 _ Hlog Hmod) as (s0 & I0 & Hoff0 & Hro).
  pose proof (rrun_inv log Hmod _ open_paged s0 I0) as Hrun. rewrite Hoff0, Hopen in Hrun.
  rewrite Hro. destruct (rrun open_paged s0) as [rs r3]. cbn [snd] in Hrun. subst r3. reflexivity.
Qed.

Print Assumptions file_open_fails_empty_xml_at_page_end.
