(** Point-cloud writer, part 2: the byte stream buffers of the writer hold the
    not yet emitted suffix of each record's bit stream; effect of writing
    points into them and of measuring / draining them. *)
From E57 Require Import Base.Prelude Spec.PageSpec Model.Prog Model.BsWrite Model.Record
  Model.PcWriter Model.FileBin Spec.BitSpec Spec.FormatSpec.
From E57 Require Import Proofs.BitLemmas Proofs.BitWidthProofs Proofs.BitWriteProofs.
From E57 Require Import Proofs.PcWriterLemmas.
From Coq Require Import ZifyN ZifyNat ZifyBool.
Ltac Zify.zify_post_hook ::= Z.div_mod_to_equations.
Open Scope N_scope.

(** * One buffer: sizes and draining *)

(** number of bits a flush takes out of a buffer holding [p] *)
Definition cut (last : bool) (p : list bool) : nat :=
  if last then length p else (8 * (length p / 8))%nat.
Definition chunk (last : bool) (p : list bool) : list N := bytes_of_bits (firstn (cut last p) p).
Definition rest (last : bool) (p : list bool) : list bool := skipn (cut last p) p.

Lemma len_bob l : len (bytes_of_bits l) = (N.of_nat (length l) + 7) / 8.
Proof. unfold len. rewrite bob_length. lia. Qed.

Lemma cut_le last p : (cut last p <= length p)%nat.
Proof. unfold cut. destruct last; lia. Qed.

Lemma cut_mod8 p : (cut false p mod 8 = 0)%nat.
Proof. unfold cut. lia. Qed.

Lemma len_chunk_false p : len (chunk false p) = N.of_nat (length p / 8).
Proof.
  unfold chunk. rewrite len_bob, firstn_length_le by apply cut_le. unfold cut. lia.
Qed.

Lemma chunk_true p : chunk true p = bytes_of_bits p.
Proof. unfold chunk, cut. rewrite firstn_all. reflexivity. Qed.

Lemma rest_true p : rest true p = [].
Proof. unfold rest, cut. apply skipn_all. Qed.

Lemma rest_false_short p : (length (rest false p) < 8)%nat.
Proof. unfold rest, cut. rewrite skipn_length. lia. Qed.

Lemma chunk_rest last p : firstn (cut last p) p ++ rest last p = p.
Proof. apply firstn_skipn. Qed.

Lemma full_bytes_holds b bits : bsw_holds b bits ->
  bsw_full_bytes b = Ok (N.of_nat (length bits / 8)).
Proof.
  intros Hh. pose proof (bsw_holds_rev _ _ Hh) as Hr. destruct Hh as [Hb Hl].
  assert (Hlen : len (bw_rev b) = (N.of_nat (length bits) + 7) / 8).
  { rewrite Hr. unfold len. rewrite rev_length, bob_length. lia. }
  unfold bsw_full_bytes, bsw_all_bytes.
  destruct (bw_lbb b =? 0) eqn:E; cbn [negb].
  - f_equal. lia.
  - destruct (len (bw_rev b) =? 0) eqn:E2; [lia|]. f_equal. lia.
Qed.

Lemma all_bytes_holds b bits : bsw_holds b bits -> bsw_all_bytes b = len (bytes_of_bits bits).
Proof.
  intros Hh. unfold bsw_all_bytes. rewrite (bsw_holds_rev _ _ Hh).
  unfold len. rewrite rev_length. reflexivity.
Qed.

Lemma size_holds (last : bool) b bits : bsw_holds b bits ->
  (if last then Ok (bsw_all_bytes b) else bsw_full_bytes b) = Ok (len (chunk last bits)).
Proof.
  intros Hh. destruct last.
  - rewrite chunk_true, (all_bytes_holds _ _ Hh). reflexivity.
  - rewrite len_chunk_false. apply full_bytes_holds. exact Hh.
Qed.

Lemma drain_holds (last : bool) b bits : bsw_holds b bits ->
  exists b', (if last then Ok (bsw_get_all_bytes b) else bsw_get_full_bytes b) = Ok (b', chunk last bits) /\
             bsw_holds b' (rest last bits).
Proof.
  intros Hh. destruct last.
  - exists bsw_new. rewrite chunk_true, rest_true, (get_all_bytes_holds _ _ Hh).
    split; [reflexivity|apply bsw_new_holds].
  - apply (get_full_bytes_holds b bits Hh).
Qed.

Lemma bob_bytes_okb l : bytes_okb (bytes_of_bits l) = true.
Proof.
  rewrite bob_num. unfold bytes_okb. apply forallb_forall. intros x Hx.
  pose proof (le_bytes_ok ((length l + 7) / 8) (num_of_bits l)) as H.
  unfold bytes_ok in H. rewrite Forall_forall in H. specialize (H x Hx).
  unfold byte_ok in H. unfold byte_okb. lia.
Qed.

Lemma bob_app_mod8 e p : (length e mod 8 = 0)%nat ->
  bytes_of_bits (e ++ p) = bytes_of_bits e ++ bytes_of_bits p.
Proof. intros H. apply (bob_app_aligned (length e / 8)). lia. Qed.

(** * All buffers: [stream_sizes], [drain_streams] *)

Lemma stream_sizes_spec (last : bool) : forall streams (P : nat -> list bool),
  (forall i, (i < length streams)%nat -> bsw_holds (nth i streams bsw_new) (P i)) ->
  stream_sizes last streams = Ok (map (fun i => len (chunk last (P i))) (seq 0 (length streams))).
Proof.
  induction streams as [|s r IH]; intros P H; [reflexivity|].
  cbn [stream_sizes length seq map].
  rewrite (size_holds last s (P 0%nat)) by (apply (H 0%nat); cbn [length]; lia).
  rewrite (IH (fun i => P (S i))) by (intros i Hi; apply (H (S i)); cbn [length]; lia).
  rewrite <- seq_shift, map_map. reflexivity.
Qed.

Lemma drain_streams_spec (last : bool) : forall streams (P : nat -> list bool),
  (forall i, (i < length streams)%nat -> bsw_holds (nth i streams bsw_new) (P i)) ->
  exists ss, drain_streams last streams
               = Ok (ss, map (fun i => chunk last (P i)) (seq 0 (length streams))) /\
    length ss = length streams /\
    forall i, (i < length streams)%nat -> bsw_holds (nth i ss bsw_new) (rest last (P i)).
Proof.
  induction streams as [|s r IH]; intros P H.
  - exists []. split; [reflexivity|]. split; [reflexivity|]. cbn [length]. intros; lia.
  - destruct (drain_holds last s (P 0%nat)) as (s' & Hd & Hs'); [apply (H 0%nat); cbn [length]; lia|].
    destruct (IH (fun i => P (S i))) as (ss & Hss & Hlen & Hnth);
      [intros i Hi; apply (H (S i)); cbn [length]; lia|].
    exists (s' :: ss). split; [|split].
    + cbn [drain_streams length seq map]. rewrite Hd, Hss.
      rewrite <- seq_shift, map_map. reflexivity.
    + cbn [length]. rewrite Hlen. reflexivity.
    + intros i Hi. destruct i as [|i]; cbn [nth]; [exact Hs'|].
      apply Hnth. cbn [length] in Hi. lia.
Qed.

(** * One point into all buffers *)

Lemma write_point_nth (dv : rvalue) : forall proto p streams,
  length p = length proto -> length streams = length proto ->
  (forall i, (i < length proto)%nat ->
     exists b', dtype_write (nth i proto TSingle) (nth i p dv) (nth i streams bsw_new) = Ok b') ->
  exists streams', write_point proto p streams = Ok streams' /\ length streams' = length proto /\
    forall i, (i < length proto)%nat ->
      dtype_write (nth i proto TSingle) (nth i p dv) (nth i streams bsw_new) = Ok (nth i streams' bsw_new).
Proof.
  induction proto as [|t pr IH]; intros p streams Hp Hs H.
  - exists []. destruct streams; [|discriminate]. split; [reflexivity|]. split; [reflexivity|].
    cbn [length]. intros; lia.
  - destruct p as [|v vr]; [discriminate|]. destruct streams as [|s sr]; [discriminate|].
    cbn [length] in Hp, Hs.
    destruct (H 0%nat) as (b' & Hb'); [cbn [length]; lia|]. cbn [nth] in Hb'.
    destruct (IH vr sr) as (sr' & Hw & Hl & Hn); [lia|lia| |].
    { intros i Hi. apply (H (S i)). cbn [length]. lia. }
    exists (b' :: sr'). split; [|split].
    + cbn [write_point]. rewrite Hb', Hw. reflexivity.
    + cbn [length]. rewrite Hl. reflexivity.
    + intros i Hi. destruct i as [|i]; cbn [nth]; [exact Hb'|].
      apply Hn. cbn [length] in Hi. lia.
Qed.

(** * What [point_ok] gives *)

Lemma point_ok_nth proto p : point_ok proto p = true ->
  length p = length proto /\
  forall i, (i < length proto)%nat -> in_range (nth i proto TSingle) (nth i p (VInteger 0)) = true.
Proof.
  unfold point_ok. intros H. apply andb_prop in H as [H1 H2].
  apply Nat.eqb_eq in H1. split; [exact H1|].
  intros i Hi. rewrite forallb_forall in H2.
  specialize (H2 (nth i (combine proto p) (TSingle, VInteger 0))).
  rewrite combine_nth in H2 by (symmetry; exact H1). apply H2.
  rewrite <- combine_nth by (symmetry; exact H1).
  apply nth_In. rewrite combine_length. lia.
Qed.

Lemma in_range_value_ok t v : in_range t v = true ->
  match t, v with
  | TSingle, VSingle _ | TDouble, VDouble _ => true
  | TScaled mn mx, VScaled i | TInteger mn mx, VInteger i => ((mn <=? i) && (i <=? mx))%Z
  | _, _ => false
  end = true.
Proof.
  unfold in_range. destruct t as [| |mn mx|mn mx], v as [x|x|i|i]; cbn [stored];
    try discriminate; try reflexivity;
    destruct ((mn <=? i)%Z && (i <=? mx)%Z); (reflexivity || discriminate).
Qed.

Lemma values_ok_nth : forall proto p,
  length p = length proto ->
  (forall i, (i < length proto)%nat -> in_range (nth i proto TSingle) (nth i p (VInteger 0)) = true) ->
  values_ok proto p = true.
Proof.
  induction proto as [|t pr IH]; intros p Hl H.
  - destruct p; [reflexivity|discriminate].
  - destruct p as [|v vr]; [discriminate|]. cbn [length] in Hl.
    cbn [values_ok].
    rewrite (in_range_value_ok t v) by (apply (H 0%nat); cbn [length]; lia).
    rewrite IH; [reflexivity|lia|].
    intros i Hi. apply (H (S i)). cbn [length]. lia.
Qed.

Lemma point_ok_values_ok proto p : point_ok proto p = true -> values_ok proto p = true.
Proof. intros H. apply point_ok_nth in H as [H1 H2]. apply values_ok_nth; assumption. Qed.

Lemma type_ok_nth proto i : forallb type_ok proto = true -> (i < length proto)%nat ->
  type_ok (nth i proto TSingle) = true.
Proof. intros H Hi. rewrite forallb_forall in H. apply H. apply nth_In. exact Hi. Qed.

Lemma value_bits_length t v : in_range t v = true ->
  length (value_bits t v) = N.to_nat (spec_bit_size t).
Proof.
  unfold in_range, value_bits. destruct (stored t v); [|discriminate].
  intros _. apply bits_lsb_length.
Qed.

Lemma column_snoc i pts p : column i (pts ++ [p]) = column i pts ++ [nth i p (VInteger 0)].
Proof. unfold column. rewrite map_app. reflexivity. Qed.

Lemma stream_bits_snoc t vs v : stream_bits t (vs ++ [v]) = stream_bits t vs ++ value_bits t v.
Proof.
  unfold stream_bits. rewrite map_app, concat_app. cbn [map concat]. rewrite app_nil_r. reflexivity.
Qed.

(** * The stream invariant *)

(** For every record [i]: [E i] are the bits already emitted into packets (a
    whole number of bytes), [P i] the bits held by the buffer; together they
    are the record's bit stream over the points consumed so far. *)
Definition sinv (proto : list dtype) (pts : list (list rvalue)) (lay : layout)
    (streams : list bsw) (k : N) (E P : nat -> list bool) : Prop :=
  forall i, (i < length proto)%nat ->
    bsw_holds (nth i streams bsw_new) (P i) /\
    (length (E i) mod 8 = 0)%nat /\
    E i ++ P i = stream_bits (nth i proto TSingle) (column i pts) /\
    concat (record_chunks i lay) = bytes_of_bits (E i) /\
    N.of_nat (length (P i)) <= 7 + k * bit_size (nth i proto TSingle).

Lemma write_point_sinv proto pts lay streams k E P pt :
  forallb type_ok proto = true -> point_ok proto pt = true -> length streams = length proto ->
  sinv proto pts lay streams k E P ->
  exists streams', write_point proto pt streams = Ok streams' /\ length streams' = length proto /\
    sinv proto (pts ++ [pt]) lay streams' (k + 1) E
         (fun i => P i ++ value_bits (nth i proto TSingle) (nth i pt (VInteger 0))).
Proof.
  intros Hty Hpt Hls Hinv. apply point_ok_nth in Hpt as [Hlp Hr].
  assert (Hstep : forall i, (i < length proto)%nat ->
    exists b', dtype_write (nth i proto TSingle) (nth i pt (VInteger 0)) (nth i streams bsw_new) = Ok b' /\
      bsw_holds b' (P i ++ value_bits (nth i proto TSingle) (nth i pt (VInteger 0)))).
  { intros i Hi. destruct (Hinv i Hi) as (Hh & _).
    apply dtype_write_holds; [apply type_ok_nth; assumption|apply Hr; assumption|exact Hh]. }
  destruct (write_point_nth (VInteger 0) proto pt streams Hlp Hls) as (streams' & Hw & Hl & Hn).
  { intros i Hi. destruct (Hstep i Hi) as (b' & Hb' & _). exists b'. exact Hb'. }
  exists streams'. split; [exact Hw|]. split; [exact Hl|].
  intros i Hi. destruct (Hinv i Hi) as (Hh & He & Hep & Hc & Hk).
  destruct (Hstep i Hi) as (b' & Hb' & Hh'). rewrite (Hn i Hi) in Hb'.
  inversion Hb' as [Hb'']. clear Hb'. subst b'.
  split; [exact Hh'|]. split; [exact He|]. split; [|split; [exact Hc|]].
  - rewrite column_snoc, stream_bits_snoc, app_assoc, Hep. reflexivity.
  - rewrite app_length, value_bits_length by (apply Hr; assumption).
    rewrite <- bit_size_spec by (apply type_ok_nth; assumption). lia.
Qed.

Lemma write_points_sinv proto lay E : forallb type_ok proto = true ->
  forall taken rst pts streams k P,
  Forall (fun p => point_ok proto p = true) taken -> length streams = length proto ->
  sinv proto pts lay streams k E P ->
  exists streams' P', write_points (length taken) proto (taken ++ rst) streams = Ok (rst, streams') /\
    length streams' = length proto /\ sinv proto (pts ++ taken) lay streams' (k + len taken) E P'.
Proof.
  intros Hty. induction taken as [|pt t IH]; intros rst pts streams k P Hok Hls Hinv.
  - exists streams, P. split; [reflexivity|]. split; [exact Hls|].
    rewrite app_nil_r, pc_len_nil, N.add_0_r. exact Hinv.
  - inversion Hok as [|? ? Hpt Hok']; subst.
    destruct (write_point_sinv proto pts lay streams k E P pt Hty Hpt Hls Hinv) as (s1 & Hw & Hl1 & Hinv1).
    destruct (IH rst (pts ++ [pt]) s1 (k + 1) _ Hok' Hl1 Hinv1) as (s2 & P2 & Hw2 & Hl2 & Hinv2).
    exists s2, P2. split; [|split; [exact Hl2|]].
    + cbn [length app write_points]. rewrite Hw. exact Hw2.
    + rewrite <- app_assoc in Hinv2. cbn [app] in Hinv2.
      replace (k + len (pt :: t)) with (k + 1 + len t) by (rewrite pc_len_cons; lia).
      exact Hinv2.
Qed.
