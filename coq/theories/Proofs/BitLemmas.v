(** Generic lemmas about the bit-level specification: [num_of_bits],
    [bits_lsb], [bytes_of_bits], [bits_of_bytes], [le_bytes], [le_num]. *)
From E57 Require Import Base.Prelude Model.BsWrite Model.BsRead Model.Record Spec.BitSpec.
From Coq Require Import ZifyN ZifyNat ZifyBool.
Ltac Zify.zify_post_hook ::= Z.div_mod_to_equations.
Open Scope N_scope.

(** * List helpers missing from the 8.16 standard library *)

Lemma nth_skipn_ {A} : forall (k i : nat) (l : list A) d,
  nth i (skipn k l) d = nth (k + i) l d.
Proof.
  induction k; intros i l d; [reflexivity|].
  destruct l as [|x l]; cbn [skipn].
  - destruct i; reflexivity.
  - cbn [Nat.add nth]. apply IHk.
Qed.

Lemma nth_firstn_ {A} : forall (k i : nat) (l : list A) d,
  nth i (firstn k l) d = if (i <? k)%nat then nth i l d else d.
Proof.
  induction k; intros i l d.
  - cbn [firstn]. destruct i; reflexivity.
  - destruct l as [|x l].
    + cbn [firstn]. destruct i; destruct (_ <? _)%nat; reflexivity.
    + destruct i; cbn [firstn nth]; [reflexivity|].
      rewrite IHk. reflexivity.
Qed.

Lemma skipn_skipn_ {A} : forall (b a : nat) (l : list A),
  skipn a (skipn b l) = skipn (b + a) l.
Proof.
  induction b; intros a l; [reflexivity|].
  destruct l as [|x l]; cbn [skipn Nat.add].
  - destruct a; reflexivity.
  - apply IHb.
Qed.

Lemma firstn_app_exact {A} (l1 l2 : list A) n : length l1 = n -> firstn n (l1 ++ l2) = l1.
Proof. intros <-. rewrite firstn_app, Nat.sub_diag, firstn_O, app_nil_r. apply firstn_all. Qed.

Lemma skipn_app_exact {A} (l1 l2 : list A) n : length l1 = n -> skipn n (l1 ++ l2) = l2.
Proof. intros <-. rewrite skipn_app, skipn_all, Nat.sub_diag, skipn_O. reflexivity. Qed.

Lemma Forall_firstn_ {A} (P : A -> Prop) : forall k l, Forall P l -> Forall P (firstn k l).
Proof.
  induction k; intros l H; [constructor|].
  destruct H; cbn [firstn]; constructor; auto.
Qed.

Lemma Forall_skipn_ {A} (P : A -> Prop) : forall k l, Forall P l -> Forall P (skipn k l).
Proof.
  induction k; intros l H; [exact H|].
  destruct H; cbn [skipn]; [constructor|auto].
Qed.

Lemma nth_map_seq {B} (f : nat -> B) (d : B) : forall n i,
  nth i (map f (seq 0 n)) d = if (i <? n)%nat then f i else d.
Proof.
  intros n i. destruct (i <? n)%nat eqn:E.
  - rewrite (nth_indep _ d (f 0%nat)) by (rewrite map_length, seq_length; lia).
    rewrite map_nth, seq_nth by lia. reflexivity.
  - apply nth_overflow. rewrite map_length, seq_length. lia.
Qed.

(** * [num_of_bits] *)

Lemma num_of_bits_b2n b r : num_of_bits (b :: r) = 2 * num_of_bits r + N.b2n b.
Proof. cbn [num_of_bits]. destruct b; cbn [N.b2n]; lia. Qed.

Lemma num_of_bits_testbit : forall l i,
  N.testbit (num_of_bits l) i = nth (N.to_nat i) l false.
Proof.
  induction l as [|b r IH]; intros i.
  - cbn [num_of_bits]. rewrite N.bits_0. destruct (N.to_nat i); reflexivity.
  - rewrite num_of_bits_b2n. destruct (N.eq_dec i 0) as [->|Hi].
    + rewrite N.testbit_0_r. reflexivity.
    + replace i with (N.succ (N.pred i)) by lia.
      rewrite N.testbit_succ_r, IH, N2Nat.inj_succ. reflexivity.
Qed.

Lemma num_of_bits_lt : forall l, num_of_bits l < 2 ^ len l.
Proof.
  induction l as [|b r IH]; unfold len in *.
  - cbn. lia.
  - cbn [length num_of_bits]. rewrite Nat2N.inj_succ, N.pow_succ_r'.
    destruct b; lia.
Qed.

Lemma num_of_bits_lt_le l k : len l <= k -> num_of_bits l < 2 ^ k.
Proof.
  intros H. eapply N.lt_le_trans; [apply num_of_bits_lt|].
  apply N.pow_le_mono_r; lia.
Qed.

Lemma num_of_bits_app : forall l1 l2,
  num_of_bits (l1 ++ l2) = num_of_bits l1 + 2 ^ len l1 * num_of_bits l2.
Proof.
  induction l1 as [|b r IH]; intros l2; unfold len in *.
  - cbn [app length num_of_bits]. change (2 ^ N.of_nat 0) with 1. lia.
  - cbn [app length num_of_bits]. rewrite IH, Nat2N.inj_succ, N.pow_succ_r'. lia.
Qed.

Lemma num_of_bits_split k l :
  num_of_bits l = num_of_bits (firstn k l) + 2 ^ N.of_nat k * num_of_bits (skipn k l).
Proof.
  rewrite <- (firstn_skipn k l) at 1. rewrite num_of_bits_app.
  destruct (le_lt_dec k (length l)) as [H|H].
  - unfold len. rewrite firstn_length_le by lia. reflexivity.
  - rewrite (skipn_all2 l) by lia. cbn [num_of_bits]. lia.
Qed.

Lemma num_of_bits_repeat_false n : num_of_bits (repeat false n) = 0.
Proof. induction n; cbn [repeat num_of_bits]; lia. Qed.

(** * [bits_lsb] *)

Lemma bits_lsb_length w v : length (bits_lsb w v) = N.to_nat w.
Proof. unfold bits_lsb. rewrite map_length, seq_length. reflexivity. Qed.

Lemma bits_lsb_nth w v i :
  nth i (bits_lsb w v) false = if N.of_nat i <? w then N.testbit v (N.of_nat i) else false.
Proof.
  unfold bits_lsb. rewrite nth_map_seq.
  destruct (i <? N.to_nat w)%nat eqn:E1; destruct (N.of_nat i <? w) eqn:E2; try reflexivity; lia.
Qed.

Lemma bits_lsb_0 v : bits_lsb 0 v = [].
Proof. reflexivity. Qed.

Lemma num_of_bits_bits_lsb w v : num_of_bits (bits_lsb w v) = v mod 2 ^ w.
Proof.
  apply N.bits_inj; intro i.
  rewrite num_of_bits_testbit, bits_lsb_nth, N2Nat.id.
  destruct (i <? w) eqn:E.
  - rewrite N.mod_pow2_bits_low by lia. reflexivity.
  - rewrite N.mod_pow2_bits_high by lia. reflexivity.
Qed.

Lemma bits_lsb_app a b v : bits_lsb (a + b) v = bits_lsb a v ++ bits_lsb b (v / 2 ^ a).
Proof.
  apply (nth_ext _ _ false false).
  - rewrite app_length, !bits_lsb_length. lia.
  - intros n _. destruct (lt_dec n (N.to_nat a)) as [H|H].
    + rewrite app_nth1 by (rewrite bits_lsb_length; lia).
      rewrite !bits_lsb_nth.
      destruct (N.of_nat n <? a + b) eqn:E1; destruct (N.of_nat n <? a) eqn:E2; try reflexivity; lia.
    + rewrite app_nth2 by (rewrite bits_lsb_length; lia).
      rewrite !bits_lsb_nth, bits_lsb_length, N.div_pow2_bits.
      replace (N.of_nat (n - N.to_nat a) + a) with (N.of_nat n) by lia.
      destruct (N.of_nat n <? a + b) eqn:E1; destruct (N.of_nat (n - N.to_nat a) <? b) eqn:E2;
        try reflexivity; lia.
Qed.

Lemma bits_lsb_mod w k v : w <= k -> bits_lsb w (v mod 2 ^ k) = bits_lsb w v.
Proof.
  intros H. apply (nth_ext _ _ false false).
  - rewrite !bits_lsb_length. reflexivity.
  - intros n _. rewrite !bits_lsb_nth.
    destruct (N.of_nat n <? w) eqn:E; [|reflexivity].
    apply N.mod_pow2_bits_low. lia.
Qed.

Lemma bits_lsb_num c w : len c <= w ->
  bits_lsb w (num_of_bits c) = c ++ repeat false (N.to_nat w - length c).
Proof.
  intros H. unfold len in H. apply (nth_ext _ _ false false).
  - rewrite app_length, bits_lsb_length, repeat_length. lia.
  - intros n _. rewrite bits_lsb_nth, num_of_bits_testbit, Nat2N.id.
    destruct (lt_dec n (length c)) as [Hn|Hn].
    + rewrite app_nth1 by lia.
      destruct (N.of_nat n <? w) eqn:E; [reflexivity|lia].
    + rewrite app_nth2 by lia. rewrite nth_repeat.
      rewrite (nth_overflow c) by lia. destruct (_ <? _); reflexivity.
Qed.

(** * [bytes_of_bits] *)

Lemma bob_fuel_indep : forall f1 f2 l,
  (length l <= f1)%nat -> (length l <= f2)%nat ->
  bytes_of_bits_fuel f1 l = bytes_of_bits_fuel f2 l.
Proof.
  induction f1; intros f2 l H1 H2.
  - destruct l; [|cbn [length] in H1; lia]. destruct f2; reflexivity.
  - destruct f2.
    + destruct l; [reflexivity|cbn [length] in H2; lia].
    + destruct l as [|b l]; [reflexivity|].
      cbn [bytes_of_bits_fuel]. f_equal.
      apply IHf1; rewrite skipn_length; cbn [length] in *; lia.
Qed.

Lemma bob_nil : bytes_of_bits [] = [].
Proof. reflexivity. Qed.

Lemma bob_cons_eq l : l <> [] ->
  bytes_of_bits l = num_of_bits (firstn 8 l) :: bytes_of_bits (skipn 8 l).
Proof.
  intros H. unfold bytes_of_bits. destruct l as [|b l]; [congruence|].
  cbn [length bytes_of_bits_fuel]. f_equal.
  apply bob_fuel_indep; rewrite skipn_length; cbn [length]; lia.
Qed.

Lemma bob_app_aligned : forall k l1 l2, length l1 = (8 * k)%nat ->
  bytes_of_bits (l1 ++ l2) = bytes_of_bits l1 ++ bytes_of_bits l2.
Proof.
  induction k; intros l1 l2 H.
  - destruct l1; [reflexivity|cbn [length] in H; lia].
  - assert (Hne : l1 <> []) by (intros ->; cbn [length] in H; lia).
    assert (Hne2 : l1 ++ l2 <> []) by (destruct l1; [congruence|discriminate]).
    rewrite (bob_cons_eq _ Hne2), (bob_cons_eq _ Hne).
    rewrite firstn_app, skipn_app.
    replace (8 - length l1)%nat with 0%nat by lia.
    rewrite firstn_O, skipn_O, app_nil_r.
    rewrite (IHk (skipn 8 l1) l2) by (rewrite skipn_length; lia).
    reflexivity.
Qed.

Lemma bob_small l : l <> [] -> (length l <= 8)%nat -> bytes_of_bits l = [num_of_bits l].
Proof.
  intros H1 H2. rewrite (bob_cons_eq _ H1), firstn_all2, skipn_all2 by lia. reflexivity.
Qed.

Lemma bob_length_bound : forall k l, (length l <= 8 * k)%nat ->
  length (bytes_of_bits l) = ((length l + 7) / 8)%nat.
Proof.
  induction k; intros l H.
  - destruct l; [reflexivity|cbn [length] in H; lia].
  - destruct l as [|b l]; [reflexivity|].
    rewrite bob_cons_eq by discriminate. cbn [length].
    rewrite IHk by (rewrite skipn_length; cbn [length] in *; lia).
    rewrite skipn_length. cbn [length]. lia.
Qed.

Lemma bob_length l : length (bytes_of_bits l) = ((length l + 7) / 8)%nat.
Proof. apply (bob_length_bound (length l)). lia. Qed.

Lemma bob_split l :
  bytes_of_bits l =
    bytes_of_bits (firstn (8 * (length l / 8)) l) ++ bytes_of_bits (skipn (8 * (length l / 8)) l).
Proof.
  rewrite <- (firstn_skipn (8 * (length l / 8)) l) at 1.
  apply (bob_app_aligned (length l / 8)).
  rewrite firstn_length_le; lia.
Qed.

Lemma num_of_bits_split8 l :
  num_of_bits l = num_of_bits (firstn 8 l) + 256 * num_of_bits (skipn 8 l).
Proof. apply (num_of_bits_split 8 l). Qed.

Lemma bob_num_bound : forall k l, (length l <= 8 * k)%nat ->
  bytes_of_bits l = le_bytes ((length l + 7) / 8) (num_of_bits l).
Proof.
  induction k; intros l H.
  - destruct l; [reflexivity|cbn [length] in H; lia].
  - destruct l as [|b l]; [reflexivity|].
    set (l0 := b :: l) in *.
    assert (Hl0 : (1 <= length l0)%nat) by (subst l0; cbn [length]; lia).
    rewrite bob_cons_eq by (subst l0; discriminate).
    rewrite IHk by (rewrite skipn_length; lia).
    rewrite skipn_length.
    replace ((length l0 + 7) / 8)%nat with (S ((length l0 - 8 + 7) / 8)) by lia.
    cbn [le_bytes].
    pose proof (num_of_bits_split8 l0) as Hs.
    assert (Ha : num_of_bits (firstn 8 l0) < 256).
    { change 256 with (2 ^ 8). apply num_of_bits_lt_le. unfold len. rewrite firstn_length. lia. }
    f_equal; [|f_equal]; lia.
Qed.

Lemma bob_num l : bytes_of_bits l = le_bytes ((length l + 7) / 8) (num_of_bits l).
Proof. apply (bob_num_bound (length l)). lia. Qed.

(** * [le_bytes] *)

Lemma le_bytes_length : forall n v, length (le_bytes n v) = n.
Proof. induction n; intros v; cbn [le_bytes length]; [reflexivity|]. rewrite IHn. reflexivity. Qed.

Lemma firstn_le_bytes : forall m n v, (m <= n)%nat -> firstn m (le_bytes n v) = le_bytes m v.
Proof.
  induction m; intros n v H; [reflexivity|].
  destruct n; [lia|]. cbn [le_bytes firstn]. rewrite IHm by lia. reflexivity.
Qed.

Lemma le_bytes_ok : forall n v, bytes_ok (le_bytes n v).
Proof.
  induction n; intros v; cbn [le_bytes]; constructor; [unfold byte_ok; lia|apply IHn].
Qed.

(** * [bits_of_bytes] *)

Lemma bits_of_bytes_cons x r : bits_of_bytes (x :: r) = bits_lsb 8 x ++ bits_of_bytes r.
Proof. reflexivity. Qed.

Lemma bits_of_bytes_length : forall l, length (bits_of_bytes l) = (8 * length l)%nat.
Proof.
  induction l as [|x r IH]; [reflexivity|].
  rewrite bits_of_bytes_cons, app_length, bits_lsb_length, IH. cbn [length].
  change (N.to_nat 8) with 8%nat. lia.
Qed.

Lemma bits_of_bytes_app a b : bits_of_bytes (a ++ b) = bits_of_bytes a ++ bits_of_bytes b.
Proof. apply flat_map_app. Qed.

Lemma bits_of_bytes_skipn : forall k l,
  skipn (8 * k) (bits_of_bytes l) = bits_of_bytes (skipn k l).
Proof.
  induction k; intros l; [reflexivity|].
  destruct l as [|x r].
  - cbn [skipn bits_of_bytes flat_map]. apply skipn_nil.
  - cbn [skipn]. rewrite bits_of_bytes_cons, skipn_app, bits_lsb_length.
    change (N.to_nat 8) with 8%nat.
    rewrite skipn_all2 by (rewrite bits_lsb_length; change (N.to_nat 8) with 8%nat; lia).
    replace (8 * S k - 8)%nat with (8 * k)%nat by lia. apply IHk.
Qed.

Lemma bits_of_bytes_firstn : forall k l,
  firstn (8 * k) (bits_of_bytes l) = bits_of_bytes (firstn k l).
Proof.
  induction k; intros l; [reflexivity|].
  destruct l as [|x r].
  - cbn [firstn bits_of_bytes flat_map]. apply firstn_nil.
  - cbn [firstn]. rewrite !bits_of_bytes_cons, firstn_app, bits_lsb_length.
    change (N.to_nat 8) with 8%nat.
    rewrite firstn_all2 by (rewrite bits_lsb_length; change (N.to_nat 8) with 8%nat; lia).
    replace (8 * S k - 8)%nat with (8 * k)%nat by lia. rewrite IHk. reflexivity.
Qed.

Lemma bits_of_bytes_testbit : forall buf i, bytes_ok buf ->
  nth i (bits_of_bytes buf) false = N.testbit (le_num buf) (N.of_nat i).
Proof.
  induction buf as [|x r IH]; intros i Hok.
  - cbn [bits_of_bytes flat_map le_num]. rewrite N.bits_0. destruct i; reflexivity.
  - inversion Hok as [|? ? Hx Hr]; subst. unfold byte_ok in Hx.
    rewrite bits_of_bytes_cons. cbn [le_num].
    destruct (lt_dec i 8) as [Hi|Hi].
    + rewrite app_nth1 by (rewrite bits_lsb_length; change (N.to_nat 8) with 8%nat; lia).
      rewrite bits_lsb_nth.
      destruct (N.of_nat i <? 8) eqn:E; [|lia].
      rewrite <- (N.mod_pow2_bits_low (x + 256 * le_num r) 8 (N.of_nat i)) by lia.
      change (2 ^ 8) with 256. f_equal. lia.
    + rewrite app_nth2 by (rewrite bits_lsb_length; change (N.to_nat 8) with 8%nat; lia).
      rewrite bits_lsb_length. change (N.to_nat 8) with 8%nat.
      rewrite IH by assumption.
      replace (N.of_nat i) with (N.of_nat (i - 8) + 8) by lia.
      rewrite <- N.div_pow2_bits. change (2 ^ 8) with 256. f_equal.
      replace (N.of_nat (i - 8) + 8) with (N.of_nat i) by lia. lia.
Qed.

Lemma bits_of_bytes_le_bytes : forall n v,
  bits_of_bytes (le_bytes n v) = bits_lsb (8 * N.of_nat n) v.
Proof.
  induction n; intros v; [reflexivity|].
  cbn [le_bytes]. rewrite bits_of_bytes_cons, IHn.
  replace (8 * N.of_nat (S n)) with (8 + 8 * N.of_nat n) by lia.
  rewrite bits_lsb_app. change (2 ^ 8) with 256. f_equal.
  apply (bits_lsb_mod 8 8 v). lia.
Qed.

Lemma bits_of_bytes_nth_byte : forall data b,
  nth (N.to_nat b) (bits_of_bytes data) false =
  N.testbit (nth (N.to_nat (b / 8)) data 0) (b mod 8).
Proof.
  induction data as [|x r IH]; intros b.
  - cbn [bits_of_bytes flat_map]. destruct (N.to_nat b), (N.to_nat (b / 8)); cbn [nth]; rewrite N.bits_0; reflexivity.
  - rewrite bits_of_bytes_cons. destruct (N.ltb_spec b 8) as [Hb|Hb].
    + rewrite app_nth1 by (rewrite bits_lsb_length; lia).
      rewrite bits_lsb_nth, N2Nat.id.
      destruct (b <? 8) eqn:E; [|lia].
      replace (N.to_nat (b / 8)) with 0%nat by lia. cbn [nth].
      rewrite N.mod_small by lia. reflexivity.
    + rewrite app_nth2 by (rewrite bits_lsb_length; lia).
      rewrite bits_lsb_length.
      replace (N.to_nat b - N.to_nat 8)%nat with (N.to_nat (b - 8)) by lia.
      rewrite IH.
      replace (N.to_nat (b / 8)) with (S (N.to_nat ((b - 8) / 8))) by lia. cbn [nth].
      replace ((b - 8) mod 8) with (b mod 8) by lia. reflexivity.
Qed.

(** Unpacking packed bits gives the bits back, followed by zero padding. *)
Lemma bits_of_bytes_bob_bound : forall k l, (length l <= 8 * k)%nat ->
  exists p, bits_of_bytes (bytes_of_bits l) = l ++ repeat false p.
Proof.
  induction k; intros l H.
  - destruct l; [exists 0%nat; reflexivity|cbn [length] in H; lia].
  - destruct l as [|b l]; [exists 0%nat; reflexivity|].
    set (l0 := b :: l) in *.
    assert (Hne : l0 <> []) by (subst l0; discriminate).
    destruct (le_lt_dec 8 (length l0)) as [H8|H8].
    + rewrite (bob_cons_eq _ Hne), bits_of_bytes_cons.
      destruct (IHk (skipn 8 l0)) as [p Hp]; [rewrite skipn_length; lia|].
      exists p. rewrite Hp, bits_lsb_num by (unfold len; rewrite firstn_length; lia).
      rewrite firstn_length. change (N.to_nat 8) with 8%nat.
      replace (8 - Nat.min 8 (length l0))%nat with 0%nat by lia.
      cbn [repeat]. rewrite app_nil_r, app_assoc, firstn_skipn. reflexivity.
    + rewrite bob_small by (assumption || lia).
      cbn [bits_of_bytes flat_map]. rewrite app_nil_r.
      exists (N.to_nat 8 - length l0)%nat. apply bits_lsb_num. unfold len. lia.
Qed.

Lemma bits_of_bytes_bob l : exists p, bits_of_bytes (bytes_of_bits l) = l ++ repeat false p.
Proof. apply (bits_of_bytes_bob_bound (length l)). lia. Qed.
