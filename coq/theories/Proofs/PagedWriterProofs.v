(** Refinement proof: the paged-writer model against the logical-stream
    specification, for every history of operations. *)
From E57 Require Import Base.Prelude Model.Crc Model.Device Model.PagedWriter Spec.PageSpec.
From E57 Require Import Proofs.PagedWriterLemmas.
From Coq Require Import ZifyN ZifyNat ZifyBool.
Ltac Zify.zify_post_hook ::= Z.div_mod_to_equations.
Local Open Scope monad_scope.

Local Arguments overwrite : simpl never.
Local Arguments seal : simpl never.
Local Arguments take : simpl never.
Local Arguments drop : simpl never.
Local Arguments slice : simpl never.
Local Arguments zeros : simpl never.
Local Arguments len : simpl never.
Local Arguments paginate_n : simpl never.
Local Arguments crc_bytes : simpl never.

(* state right after PagedWriter::new on an empty fault-free device *)
Definition pw0 : pw := mkPw (mkDev [] 0 1 None []) 0 (zeros PAGE).

Lemma pw_new_fresh : pw_new (dev_init [] None) = (pw_dev pw0, Ok pw0).
Proof. reflexivity. Qed.

(** * Effect of each operation on a fault-free state *)

Notation St b c o lg off buf := (mkPw (mkDev b c o None lg) off buf).

Lemma d_read_view n b c o lg :
  d_read n (mkDev b c o None lg) =
  (mkDev b (c + len (slice c n b)) (o + 1) None lg, Ok (slice c n b)).
Proof. reflexivity. Qed.

Lemma d_read_fill_full f b c o lg : c + 1024 <= len b ->
  d_read_fill (S (S f)) 1024 [] (mkDev b c o None lg) =
  (mkDev b (c + 1024) (o + 1) None lg, Ok (slice c 1024 b)).
Proof.
  intros H. cbn [d_read_fill]. change (1024 =? 0) with false. cbv iota.
  unfold bind at 1. rewrite d_read_view.
  assert (L : len (slice c 1024 b) = 1024) by (rewrite len_slice; lia).
  destruct (slice c 1024 b) as [|x got] eqn:E; [rewrite len_nil in L; lia|].
  rewrite L. change (1024 - 1024 =? 0) with true. cbv iota. reflexivity.
Qed.

Lemma d_read_fill_eof f b c o lg : len b <= c ->
  d_read_fill (S f) 1024 [] (mkDev b c o None lg) =
  (mkDev b (c + 0) (o + 1) None lg, Ok []).
Proof.
  intros H. cbn [d_read_fill]. change (1024 =? 0) with false. cbv iota.
  unfold bind at 1. rewrite d_read_view.
  assert (L : len (slice c 1024 b) = 0) by (rewrite len_slice; lia).
  rewrite (len_0_nil _ L). reflexivity.
Qed.

Section Views.
  Variables (b : list N) (c o : N) (lg : list (N * list N)) (off : N) (buf : list N).

  Lemma v_pos : pw_lift d_pos (St b c o lg off buf) = (St b c (o + 1) lg off buf, Ok c).
  Proof. reflexivity. Qed.

  Lemma v_seek_start p :
    pw_lift (d_seek_start p) (St b c o lg off buf) = (St b p (o + 1) lg off buf, Ok p).
  Proof. reflexivity. Qed.

  Lemma v_seek_end :
    pw_lift d_seek_end (St b c o lg off buf) = (St b (len b) (o + 1) lg off buf, Ok (len b)).
  Proof. reflexivity. Qed.

  Lemma v_dflush : pw_lift d_flush (St b c o lg off buf) = (St b c (o + 1) lg off buf, Ok tt).
  Proof. reflexivity. Qed.

  Lemma v_write_all bs : bs <> [] ->
    pw_lift (d_write_all bs) (St b c o lg off buf) =
    (St (overwrite b c bs) (c + len bs) (o + 1) ((c, bs) :: lg) off buf, Ok tt).
  Proof. destruct bs; [congruence|reflexivity]. Qed.

  Lemma fuel_page : exists f, N.to_nat PAGE = S (S f).
  Proof. exists 1022%nat. reflexivity. Qed.

  Lemma v_read_page_full : c + 1024 <= len b ->
    pw_read_current_page (St b c o lg off buf) =
    (St b (c + 1024) (o + 1) lg off (slice c 1024 b), Ok tt).
  Proof.
    intros H. unfold pw_read_current_page, bind, pw_lift.
    destruct fuel_page as [f ->]. cbn [pw_dev].
    change PAGE with 1024.
    rewrite d_read_fill_full by assumption.
    unfold pw_set_buf. cbn [pw_dev pw_off pw_buf].
    replace (1024 - len (slice c 1024 b)) with 0 by (rewrite len_slice; lia).
    rewrite zeros_0, app_nil_r. reflexivity.
  Qed.

  Lemma v_read_page_eof : len b <= c ->
    pw_read_current_page (St b c o lg off buf) =
    (St b (c + 0) (o + 1) lg off (zeros 1024), Ok tt).
  Proof.
    intros H. unfold pw_read_current_page, bind, pw_lift.
    cbn [pw_dev]. change PAGE with 1024.
    rewrite d_read_fill_eof by assumption.
    unfold pw_set_buf. cbn [pw_dev pw_off pw_buf]. reflexivity.
  Qed.
End Views.

Local Arguments pw_lift : simpl never.
Local Arguments pw_read_current_page : simpl never.

Lemma seal_ne buf : seal buf <> [].
Proof. rewrite seal_sealp. apply sealp_ne. Qed.

Lemma v_flush b c o lg off buf :
  exists o' lg', pw_flush (St b c o lg off buf) =
    (St (if 0 <? off then overwrite b c (seal buf) else b) c o' lg' off
        (if 0 <? off then seal buf else buf), Ok tt).
Proof.
  unfold pw_flush, bind, pw_get_off, pw_get_buf, pw_set_buf, ret. cbn.
  destruct (0 <? off).
  - rewrite v_pos. cbn. rewrite v_write_all by apply seal_ne. rewrite v_seek_start. cbn.
    rewrite v_dflush. eauto.
  - rewrite v_dflush. eauto.
Qed.

Lemma v_write_part b c o lg off buf data :
  off <= 1020 ->
  let n := N.min (len data) (1020 - off) in
  off + n <> 1020 ->
  pw_write data (St b c o lg off buf) =
  (St b c o lg (off + n) (take off buf ++ take n data ++ drop (off + n) buf), Ok n).
Proof.
  intros Hoff n Hn.
  unfold pw_write, bind, pw_get_off, pw_get_buf, pw_set_buf, pw_set_off, ret. cbn.
  change PAYLOAD with 1020. fold n.
  destruct (N.ltb_spec 1020 off); [lia|].
  destruct (N.eqb_spec (off + n) 1020); [lia|].
  reflexivity.
Qed.

Lemma v_write_fill b c o lg off buf data :
  off <= 1020 ->
  let n := N.min (len data) (1020 - off) in
  let buf1 := take off buf ++ take n data ++ drop (off + n) buf in
  let b' := overwrite b c (seal buf1) in
  off + n = 1020 ->
  len (seal buf1) = 1024 ->
  (c + 2048 <= len b' \/ len b' <= c + 1024) ->
  exists o' lg', pw_write data (St b c o lg off buf) =
  (St b' (c + 1024) o' lg' 0
      (if c + 2048 <=? len b' then slice (c + 1024) 1024 b' else zeros 1024), Ok n).
Proof.
  intros Hoff n buf1 b' Hn Hs Hb.
  unfold pw_write, bind, pw_get_off, pw_get_buf, pw_set_buf, pw_set_off, ret. cbn.
  change PAYLOAD with 1020. fold n. fold buf1.
  destruct (N.ltb_spec 1020 off); [lia|].
  destruct (N.eqb_spec (off + n) 1020); [|lia].
  cbn [pw_dev pw_off pw_buf]. fold n. fold buf1.
  rewrite v_write_all by apply seal_ne. fold b'. rewrite Hs.
  rewrite v_pos. cbn.
  destruct (N.leb_spec (c + 2048) (len b')).
  - rewrite v_read_page_full by lia. rewrite v_seek_start. eauto.
  - rewrite v_read_page_eof by lia. rewrite v_seek_start. eauto.
Qed.

Lemma v_size b c o lg off buf :
  exists o' lg', pw_physical_size (St b c o lg off buf) =
    (St (if 0 <? off then overwrite b c (seal buf) else b) c o' lg' off
        (if 0 <? off then seal buf else buf),
     Ok (len (if 0 <? off then overwrite b c (seal buf) else b))).
Proof.
  destruct (v_flush b c o lg off buf) as (o1 & lg1 & E).
  unfold pw_physical_size, bind, relabel, ret. rewrite E. cbn.
  rewrite v_pos. cbn. rewrite v_seek_end. cbn. rewrite v_seek_start. cbn. eauto.
Qed.

Local Arguments pw_physical_size : simpl never.

Lemma v_seek_rej b c o lg off buf p :
  let bf := if 0 <? off then overwrite b c (seal buf) else b in
  (len bf <? p) || (1020 <=? p mod 1024) = true ->
  exists o' lg', pw_physical_seek p (St b c o lg off buf) =
    (St bf c o' lg' off (if 0 <? off then seal buf else buf), Err EInvalid).
Proof.
  intros bf H.
  destruct (v_size b c o lg off buf) as (o1 & lg1 & E).
  unfold pw_physical_seek, bind, fail. rewrite E. fold bf.
  change PAYLOAD with 1020. change PAGE with 1024.
  destruct (len bf <? p); [eauto|].
  destruct (1020 <=? p mod 1024); [eauto|]. discriminate.
Qed.

Lemma v_seek_acc b c o lg off buf p :
  let bf := if 0 <? off then overwrite b c (seal buf) else b in
  let c' := p / 1024 * 1024 in
  len bf <? p = false -> 1020 <=? p mod 1024 = false ->
  (c' + 1024 <= len bf \/ len bf <= c') ->
  exists o' lg', pw_physical_seek p (St b c o lg off buf) =
    (St bf c' o' lg' (p mod 1024)
        (if c' + 1024 <=? len bf then slice c' 1024 bf else zeros 1024), Ok tt).
Proof.
  intros bf c' H1 H2 Hc.
  destruct (v_size b c o lg off buf) as (o1 & lg1 & E).
  unfold pw_physical_seek, bind, fail, relabel. rewrite E. fold bf.
  change PAYLOAD with 1020. change PAGE with 1024. rewrite H1, H2. fold c'.
  rewrite v_seek_start. cbn.
  destruct (N.leb_spec (c' + 1024) (len bf)).
  - rewrite v_read_page_full by lia. cbn. rewrite v_seek_start. cbn.
    unfold pw_set_off. cbn. eauto.
  - rewrite v_read_page_eof by lia. cbn. rewrite v_seek_start. cbn.
    unfold pw_set_off. cbn. eauto.
Qed.

Lemma v_position b c o lg off buf :
  pw_physical_position (St b c o lg off buf) = (St b c (o + 1) lg off buf, Ok (c + off)).
Proof. reflexivity. Qed.

(** * The simulation invariant *)

Ltac nsimp :=
  repeat first
    [ rewrite nthN_overwrite | rewrite nthN_app | rewrite nthN_take | rewrite nthN_drop
    | rewrite nthN_slice | rewrite nthN_zeros | rewrite nthN_nil
    | rewrite len_overwrite | rewrite len_app | rewrite len_take | rewrite len_drop
    | rewrite len_slice | rewrite len_zeros | rewrite len_sealp | rewrite len_crc_bytes
    | rewrite len_nil ].

Ltac dcmp :=
  repeat match goal with
  | |- context [?a <? ?b] => destruct (N.ltb_spec a b)
  | |- context [?a <=? ?b] => destruct (N.leb_spec a b)
  | |- context [?a =? ?b] => destruct (N.eqb_spec a b)
  end.

Record Inv (np pg : N) (dl b : list N) (c off : N) (buf data : list N) (pos : N) : Prop := mkInv {
  I_bytes : b = paginate_n (N.to_nat np) dl;
  I_dl : len dl = 1020 * np;
  I_cur : c = 1024 * pg;
  I_pg : pg <= np;
  I_off : off < 1020;
  I_buf : len buf = 1024;
  I_pos : pos = 1020 * pg + off;
  I_bufdata : forall j, j < 1020 -> nthN j buf = nthN (1020 * pg + j) data;
  I_dldata : forall i, i < 1020 * np -> (i < 1020 * pg \/ 1020 * pg + off <= i) ->
                       nthN i dl = nthN i data;
  I_pages : (pg = np /\ 0 < off /\ pages_for (len data) = np + 1) \/
            ((pg < np \/ off = 0) /\ pages_for (len data) = np)
}.

Lemma pages_for_spec x k : pages_for x = k <-> (1020 * k < x + 1020 /\ x <= 1020 * k).
Proof. unfold pages_for, PAYLOAD_SZ. lia. Qed.

Lemma Inv_flush np pg dl b c off buf data pos :
  Inv np pg dl b c off buf data pos ->
  let bf := if 0 <? off then overwrite b c (seal buf) else b in
  let buff := if 0 <? off then seal buf else buf in
  exists np' dl', Inv np' pg dl' bf c off buff data pos /\
    (forall i, i < 1020 * np' -> nthN i dl' = nthN i data) /\
    pages_for (len data) = np' /\ len bf = 1024 * np'.
Proof.
  intros [Hb Hdl Hc Hpg Hoff Hbuf Hpos Hbd Hdd Hpages] bf buff.
  subst bf buff. destruct (N.ltb_spec 0 off) as [Hlt|Hge].
  - rewrite seal_sealp. set (P := take 1020 buf).
    assert (HP : len P = 1020) by (unfold P; rewrite len_take; lia).
    assert (HPn : forall j, j < 1020 -> nthN j P = nthN (1020 * pg + j) data).
    { intros j Hj. unfold P. rewrite nthN_take. dcmp; [auto|lia]. }
    subst b c.
    assert (Hdd' : forall np', np' = N.max np (pg + 1) -> forall i, i < 1020 * np' ->
               nthN i (overwrite dl (1020 * pg) P) = nthN i data).
    { intros np' -> i Hi. rewrite nthN_overwrite. dcmp.
      - apply Hdd; lia.
      - rewrite HPn by lia. f_equal. lia.
      - apply Hdd; lia. }
    destruct (N.eq_dec pg np) as [->|Hne].
    + exists (np + 1), (overwrite dl (1020 * np) P).
      rewrite pag_overwrite_end by assumption.
      split; [|split; [|split]].
      * constructor; try lia; try reflexivity.
        -- rewrite len_overwrite. lia.
        -- rewrite len_sealp. lia.
        -- intros j Hj. unfold sealp. rewrite nthN_app. dcmp; [auto|lia].
        -- intros i Hi _. apply Hdd' with (np' := np + 1); lia.
      * apply Hdd'. lia.
      * destruct Hpages as [(_ & _ & H)|([H|H] & _)]; [assumption|lia|lia].
      * rewrite pag_len; [lia|]. rewrite len_overwrite. lia.
    + exists np, (overwrite dl (1020 * pg) P).
      rewrite pag_overwrite_in by (assumption || lia).
      split; [|split; [|split]].
      * constructor; try lia; try reflexivity.
        -- rewrite len_overwrite. lia.
        -- rewrite len_sealp. lia.
        -- intros j Hj. unfold sealp. rewrite nthN_app. dcmp; [auto|lia].
        -- intros i Hi _. apply Hdd' with (np' := np); lia.
      * apply Hdd'. lia.
      * destruct Hpages as [(H & _)|(_ & H)]; [lia|assumption].
      * rewrite pag_len; [lia|]. rewrite len_overwrite. lia.
  - assert (off = 0) by lia. subst off.
    exists np, dl. split; [|split; [|split]].
    + constructor; assumption.
    + intros i Hi. apply Hdd; lia.
    + destruct Hpages as [(_ & H & _)|(_ & H)]; [lia|assumption].
    + subst b. apply pag_len. assumption.
Qed.

Lemma pag_overwrite np pg dl P :
  len dl = 1020 * np -> pg <= np -> len P = 1020 ->
  overwrite (paginate_n (N.to_nat np) dl) (1024 * pg) (sealp P) =
  paginate_n (N.to_nat (N.max np (pg + 1))) (overwrite dl (1020 * pg) P).
Proof.
  intros Hdl Hpg HP. destruct (N.eq_dec pg np) as [->|Hne].
  - replace (N.max np (np + 1)) with (np + 1) by lia. apply pag_overwrite_end; assumption.
  - replace (N.max np (pg + 1)) with np by lia. apply pag_overwrite_in; (assumption || lia).
Qed.

Section Buf1.
  Variables (buf wr : list N) (off n : N).
  Hypothesis Hbuf : len buf = 1024.
  Hypothesis Hn : off + n <= 1020.
  Hypothesis Hwr : n <= len wr.
  Let buf1 := take off buf ++ take n wr ++ drop (off + n) buf.

  Lemma buf1_len : len buf1 = 1024.
  Proof. unfold buf1. nsimp. lia. Qed.

  Lemma buf1_nth j :
    nthN j buf1 = if j <? off then nthN j buf
                  else if j <? off + n then nthN (j - off) wr else nthN j buf.
  Proof.
    unfold buf1. nsimp. dcmp; try lia; try reflexivity; f_equal; lia.
  Qed.

End Buf1.

Lemma chunk_nth (wr : list N) n : n <= len wr -> forall data pos i,
  nthN i (overwrite data pos (take n wr)) =
  if i <? pos then nthN i data
  else if i <? pos + n then nthN (i - pos) wr else nthN i data.
Proof.
  intros Hwr data pos i. nsimp. dcmp; try lia; try reflexivity.
Qed.

Lemma chunk_len (wr : list N) n : n <= len wr -> forall data pos,
  len (overwrite data pos (take n wr)) = N.max (len data) (pos + n).
Proof. intros Hwr data pos. nsimp. lia. Qed.

Lemma Inv_write np pg dl b c o lg off buf data pos wr :
  Inv np pg dl b c off buf data pos -> wr <> [] ->
  let n := N.min (len wr) (1020 - off) in
  exists b' c' o' lg' off' buf' np' pg' dl',
    pw_write wr (St b c o lg off buf) = (St b' c' o' lg' off' buf', Ok n) /\
    Inv np' pg' dl' b' c' off' buf' (overwrite data pos (take n wr)) (pos + n).
Proof.
  intros [Hb Hdl Hc Hpg Hoff Hbuf Hpos Hbd Hdd Hpages] Hne n.
  pose proof (len_pos_ne wr Hne) as Hwr.
  assert (Hn0 : 0 < n) by (unfold n; lia).
  assert (Hn1 : n <= len wr) by (unfold n; lia).
  assert (Hn2 : off + n <= 1020) by (unfold n; lia).
  pose proof (buf1_len buf wr off n Hbuf Hn2 Hn1) as Hl1.
  pose proof (buf1_nth buf wr off n Hbuf Hn2 Hn1) as Hn1th.
  pose proof (chunk_nth wr n Hn1 data pos) as Hcn.
  pose proof (chunk_len wr n Hn1 data pos) as Hcl.
  set (data' := overwrite data pos (take n wr)) in *.
  destruct (N.eq_dec (off + n) 1020) as [Hfull|Hpart].
  - (* the page is filled and written *)
    pose proof (v_write_fill b c o lg off buf wr ltac:(lia)) as V. cbv zeta in V. fold n in V.
    set (buf1 := take off buf ++ take n wr ++ drop (off + n) buf) in *.
    rewrite seal_sealp in V. set (P := take 1020 buf1) in *.
    assert (HP : len P = 1020) by (unfold P; rewrite len_take; lia).
    assert (HPn : forall j, j < 1020 -> nthN j P = nthN (1020 * pg + j) data').
    { intros j Hj. unfold P. rewrite nthN_take, Hn1th, Hcn. subst pos. dcmp; try lia.
      - apply Hbd. lia.
      - f_equal. lia. }
    subst b c. rewrite pag_overwrite in V by assumption.
    set (np' := N.max np (pg + 1)) in *.
    set (dl' := overwrite dl (1020 * pg) P) in *.
    assert (Hdl' : len dl' = 1020 * np') by (unfold dl'; rewrite len_overwrite; lia).
    rewrite (pag_len np' dl' Hdl') in V.
    specialize (V Hfull ltac:(rewrite len_sealp; lia) ltac:(lia)).
    destruct V as (o' & lg' & V).
    assert (Hdd' : forall i, i < 1020 * np' -> nthN i dl' = nthN i data').
    { intros i Hi. unfold dl'. rewrite nthN_overwrite. dcmp.
      - rewrite Hcn. subst pos. dcmp; try lia. apply Hdd; lia.
      - rewrite HPn by lia. f_equal. lia.
      - rewrite Hcn. subst pos. dcmp; try lia. apply Hdd; lia. }
    do 6 eexists. exists np', (pg + 1), dl'. split; [exact V|].
    constructor; try lia; try reflexivity.
    + dcmp; [|rewrite len_zeros; reflexivity].
      replace (1024 * pg + 1024) with (1024 * (pg + 1)) by lia.
      rewrite (pag_slice np' (pg + 1) dl' Hdl') by lia. rewrite len_sealp, len_slice. lia.
    + intros j Hj. dcmp.
      * replace (1024 * pg + 1024) with (1024 * (pg + 1)) by lia.
        rewrite (pag_slice np' (pg + 1) dl' Hdl') by lia. unfold sealp. rewrite nthN_app, len_slice, nthN_slice.
        dcmp; try lia. apply Hdd'. lia.
      * rewrite nthN_zeros. symmetry. apply nthN_default. rewrite Hcl.
        rewrite !pages_for_spec in Hpages. lia.
    + intros i Hi _. apply Hdd'. assumption.
    + right. split; [lia|]. rewrite Hcl. rewrite !pages_for_spec in *. lia.
  - (* the chunk stays inside the page *)
    pose proof (v_write_part b c o lg off buf wr ltac:(lia)) as V. cbv zeta in V. fold n in V.
    specialize (V Hpart).
    do 6 eexists. exists np, pg, dl. split; [exact V|].
    constructor; try assumption; try lia.
    + intros j Hj. rewrite Hn1th, Hcn. subst pos. dcmp; try lia.
      * apply Hbd. lia.
      * f_equal. lia.
      * apply Hbd. lia.
    + intros i Hi Hr. rewrite Hcn. subst pos. dcmp; try lia; apply Hdd; lia.
    + rewrite Hcl. rewrite !pages_for_spec in *. lia.
Qed.

(** * The simulation relation on whole states *)

Definition R (s : pw) (l : lstream) : Prop :=
  d_fault (pw_dev s) = None /\
  exists np pg dl,
    Inv np pg dl (d_bytes (pw_dev s)) (d_cur (pw_dev s)) (pw_off s) (pw_buf s)
        (ls_data l) (ls_pos l).

Lemma R_intro np pg dl b c o lg off buf data pos :
  Inv np pg dl b c off buf data pos -> R (St b c o lg off buf) (mkLs data pos).
Proof. intros H. split; [reflexivity|]. exists np, pg, dl. exact H. Qed.

Ltac R_elim H s l :=
  let b := fresh "b" in let c := fresh "c" in let o := fresh "o" in
  let f := fresh "f" in let lg := fresh "lg" in let off := fresh "off" in
  let buf := fresh "buf" in let data := fresh "data" in let pos := fresh "pos" in
  let np := fresh "np" in let pg := fresh "pg" in let dl := fresh "dl" in
  let Hf := fresh "Hf" in
  destruct s as [[b c o f lg] off buf]; destruct l as [data pos];
  destruct H as (Hf & np & pg & dl & H);
  cbn [pw_dev d_fault d_bytes d_cur pw_off pw_buf ls_data ls_pos] in Hf, H; subst f.

Lemma ls_write_ne l bs : bs <> [] ->
  ls_write l bs = mkLs (overwrite (ls_data l) (ls_pos l) bs) (ls_pos l + len bs).
Proof. destruct bs; [congruence|reflexivity]. Qed.

Lemma ls_write_split l wr n : 0 < n -> wr <> [] ->
  ls_write (ls_write l (take n wr)) (drop n wr) = ls_write l wr.
Proof.
  intros Hn Hne. pose proof (len_pos_ne wr Hne) as Hwr.
  assert (Ht : take n wr <> []).
  { intros E. pose proof (len_take n wr) as L. rewrite E, len_nil in L. lia. }
  rewrite (ls_write_ne l (take n wr) Ht).
  destruct (drop n wr) as [|y r] eqn:E.
  - cbn [ls_write]. pose proof (len_drop n wr) as L. rewrite E, len_nil in L.
    rewrite take_all by lia. symmetry. apply ls_write_ne, Hne.
  - rewrite <- E. assert (Hd : drop n wr <> []) by (rewrite E; discriminate).
    rewrite (ls_write_ne _ _ Hd), (ls_write_ne _ _ Hne). cbn [ls_data ls_pos].
    rewrite overwrite_overwrite, take_drop_id. f_equal.
    rewrite len_take, len_drop. lia.
Qed.

Lemma R_write_all_loop fuel : forall wr s l,
  R s l -> (length wr < fuel)%nat ->
  exists s', pw_write_all_loop fuel wr s = (s', Ok tt) /\ R s' (ls_write l wr).
Proof.
  induction fuel as [|f IH]; intros wr s l HR Hfuel; [lia|].
  destruct wr as [|x wr'].
  - exists s. split; [reflexivity|exact HR].
  - change (pw_write_all_loop (S f) (x :: wr') s) with
      (bind (pw_write (x :: wr'))
            (fun n => if n =? 0 then fail EIo else pw_write_all_loop f (drop n (x :: wr'))) s).
    set (wr := x :: wr') in *.
    assert (Hne : wr <> []) by (unfold wr; discriminate).
    R_elim HR s l.
    destruct (Inv_write _ _ _ _ _ o lg _ _ _ _ wr HR Hne)
      as (b' & c' & o' & lg' & off' & buf' & np' & pg' & dl' & V & HI).
    set (n := N.min (len wr) (1020 - off)) in *.
    pose proof (len_pos_ne wr Hne) as Hwr.
    pose proof (I_off _ _ _ _ _ _ _ _ _ HR) as Hoff.
    assert (Hn0 : 0 < n) by (unfold n; lia).
    unfold bind. rewrite V.
    destruct (N.eqb_spec n 0) as [E|_]; [lia|].
    rewrite <- (ls_write_split (mkLs data pos) wr n Hn0 Hne).
    apply IH.
    + rewrite ls_write_ne.
      * cbn [ls_data ls_pos]. replace (len (take n wr)) with n by (rewrite len_take; lia).
        eapply R_intro, HI.
      * intros E. pose proof (len_take n wr) as L. rewrite E, len_nil in L. lia.
    + pose proof (len_drop n wr) as L. unfold len in L, Hwr. lia.
Qed.

Lemma R_write_all wr s l :
  R s l -> exists s', pw_write_all wr s = (s', Ok tt) /\ R s' (ls_write l wr).
Proof. intros HR. apply R_write_all_loop; [assumption|lia]. Qed.

Lemma R_flush s l :
  R s l -> exists s', pw_flush s = (s', Ok tt) /\ R s' l /\
                      d_bytes (pw_dev s') = paginate (ls_data l).
Proof.
  intros HR. R_elim HR s l.
  destruct (v_flush b c o lg off buf) as (o' & lg' & V).
  destruct (Inv_flush _ _ _ _ _ _ _ _ _ HR) as (np' & dl' & HI & Hall & Hpages & Hlen).
  eexists. split; [exact V|]. split; [eapply R_intro, HI|].
  cbn [pw_dev d_bytes ls_data].
  rewrite (I_bytes _ _ _ _ _ _ _ _ _ HI). unfold paginate. rewrite Hpages.
  f_equal. apply pad_payload_ext.
  - rewrite (I_dl _ _ _ _ _ _ _ _ _ HI). lia.
  - intros i Hi. apply Hall. rewrite (I_dl _ _ _ _ _ _ _ _ _ HI) in Hi. exact Hi.
Qed.

Lemma R_size s l :
  R s l -> exists s', pw_physical_size s = (s', Ok (ls_phys_size l)) /\ R s' l.
Proof.
  intros HR. R_elim HR s l.
  destruct (v_size b c o lg off buf) as (o' & lg' & V).
  destruct (Inv_flush _ _ _ _ _ _ _ _ _ HR) as (np' & dl' & HI & Hall & Hpages & Hlen).
  eexists. split; [|eapply R_intro, HI].
  rewrite V. do 2 f_equal. rewrite Hlen.
  unfold ls_phys_size, PAGE_SZ. cbn [ls_data]. rewrite Hpages. lia.
Qed.

Lemma R_seek p s l :
  R s l -> exists s', pw_physical_seek p s = (s', res_map (fun _ => tt) (snd (ls_step (PwSeek p) l))) /\
                      R s' (fst (ls_step (PwSeek p) l)).
Proof.
  intros HR. R_elim HR s l.
  destruct (Inv_flush _ _ _ _ _ _ _ _ _ HR) as (np' & dl' & HI & Hall & Hpages & Hlen).
  cbn [ls_step]. unfold ls_phys_size, PAGE_SZ, PAYLOAD_SZ. cbn [ls_data].
  rewrite Hpages.
  set (bf := if 0 <? off then overwrite b c (seal buf) else b) in *.
  replace (np' * 1024) with (len bf) by lia.
  destruct (len bf <? p) eqn:E1.
  { destruct (v_seek_rej b c o lg off buf p) as (o' & lg' & V).
    - fold bf. rewrite E1. reflexivity.
    - eexists. split; [exact V|]. eapply R_intro, HI. }
  destruct (1020 <=? p mod 1024) eqn:E2.
  { destruct (v_seek_rej b c o lg off buf p) as (o' & lg' & V).
    - fold bf. rewrite E1, E2. reflexivity.
    - eexists. split; [exact V|]. eapply R_intro, HI. }
  destruct HI as [Hb Hdl Hc Hpg Hoff Hbuf Hpos Hbd Hdd _].
  destruct (v_seek_acc b c o lg off buf p) as (o' & lg' & V); try (fold bf; assumption).
  { fold bf. lia. }
  fold bf in V. eexists. split; [exact V|]. cbn [fst].
  apply R_intro with (np := np') (pg := p / 1024) (dl := dl').
  replace (p / 1024 * 1024) with (1024 * (p / 1024)) by lia.
  apply N.ltb_ge in E1. apply N.leb_gt in E2.
  constructor; try assumption; try lia.
  - dcmp; [|rewrite len_zeros; reflexivity].
    rewrite Hb, (pag_slice np' (p / 1024) dl' Hdl) by lia. rewrite len_sealp, len_slice. lia.
  - unfold log_of_phys, PAGE_SZ. lia.
  - intros j Hj. dcmp.
    + rewrite Hb, (pag_slice np' (p / 1024) dl' Hdl) by lia.
      unfold sealp. rewrite nthN_app, len_slice, nthN_slice. dcmp; try lia.
      apply Hall. lia.
    + rewrite nthN_zeros. symmetry. apply nthN_default.
      rewrite pages_for_spec in Hpages. lia.
  - intros i Hi _. apply Hall, Hi.
Qed.

Lemma R_position s l :
  R s l -> exists s', pw_physical_position s = (s', Ok (phys_of_log (ls_pos l))) /\ R s' l.
Proof.
  intros HR. R_elim HR s l. rewrite v_position.
  eexists. split; [|eapply R_intro, HR]. do 2 f_equal.
  destruct HR as [_ _ Hc _ Hoff _ Hpos _ _ _]. cbn [ls_pos].
  unfold phys_of_log, PAYLOAD_SZ. lia.
Qed.

Lemma R_align s l :
  R s l -> exists s', pw_align s = (s', Ok tt) /\ R s' (fst (ls_step PwAlign l)).
Proof.
  intros HR. cbn [ls_step fst].
  assert (Hm : ls_pos l mod 4 = pw_off s mod 4).
  { destruct HR as (_ & np & pg & dl & HI). rewrite (I_pos _ _ _ _ _ _ _ _ _ HI). lia. }
  unfold pw_align, bind, pw_get_off, ret. rewrite Hm.
  destruct (N.eqb_spec (pw_off s mod 4) 0) as [E|E].
  - rewrite E. change ((4 - 0) mod 4) with 0. change (zeros 0) with (@nil N).
    exists s. split; [reflexivity|exact HR].
  - replace ((4 - pw_off s mod 4) mod 4) with (4 - pw_off s mod 4) by lia.
    destruct (R_write_all (zeros (4 - pw_off s mod 4)) s l HR) as (s' & V & HR').
    exists s'. split; [|exact HR']. unfold relabel. rewrite V. reflexivity.
Qed.

(** * One step, a whole history, and the final image *)

Lemma R_step o s l :
  R s l -> exists s', pw_step o s = (s', snd (ls_step o l)) /\ R s' (fst (ls_step o l)).
Proof.
  intros HR. destruct o as [wr|p| | | | ]; cbn [pw_step].
  - destruct (R_write_all wr s l HR) as (s' & V & HR').
    exists s'. split; [|exact HR']. unfold bind, relabel, ret. rewrite V. reflexivity.
  - destruct (R_seek p s l HR) as (s' & V & HR').
    exists s'. split; [|exact HR']. unfold bind, ret. rewrite V.
    destruct (snd (ls_step (PwSeek p) l)) eqn:E; cbn [res_map]; try reflexivity.
    revert E. cbn [ls_step]. repeat match goal with |- context [if ?x then _ else _] => destruct x end;
      cbn [snd]; congruence.
  - destruct (R_flush s l HR) as (s' & V & HR' & _).
    exists s'. split; [|exact HR']. unfold bind, relabel, ret. rewrite V. reflexivity.
  - destruct (R_align s l HR) as (s' & V & HR').
    exists s'. split; [|exact HR']. unfold bind, ret. rewrite V. reflexivity.
  - destruct (R_position s l HR) as (s' & V & HR'). exists s'. split; assumption.
  - destruct (R_size s l HR) as (s' & V & HR'). exists s'. split; assumption.
Qed.

Lemma R_run ops : forall s l,
  R s l -> snd (pw_run ops s) = snd (ls_run ops l) /\
           R (fst (pw_run ops s)) (fst (ls_run ops l)).
Proof.
  induction ops as [|o r IH]; intros s l HR.
  - split; [reflexivity|exact HR].
  - cbn [pw_run ls_run].
    destruct (R_step o s l HR) as (s1 & V & HR1). rewrite V.
    destruct (ls_step o l) as [l1 x] eqn:E. cbn [fst snd] in *.
    destruct (IH s1 l1 HR1) as (Hres & HR2).
    destruct (pw_run r s1) as [s2 xs]. destruct (ls_run r l1) as [l2 ys].
    cbn [fst snd] in *. split; [congruence|exact HR2].
Qed.

Lemma R_init : R pw0 ls_init.
Proof.
  apply R_intro with (np := 0) (pg := 0) (dl := []).
  constructor; try reflexivity; try lia.
  - intros j Hj. rewrite nthN_zeros, nthN_nil. reflexivity.
  - right. split; [lia|reflexivity].
Qed.

(* For EVERY history of operations, the writer model returns exactly the
   results of the logical-stream specification, and after a flush the device
   holds exactly paginate(logical stream). *)
Theorem pw_run_refines : forall ops : list pw_op,
  snd (pw_run ops pw0) = snd (ls_run ops ls_init) /\
  snd (pw_flush (fst (pw_run ops pw0))) = Ok tt /\
  d_bytes (pw_dev (fst (pw_flush (fst (pw_run ops pw0))))) = paginate (ls_data (fst (ls_run ops ls_init))).
Proof.
  intros ops. destruct (R_run ops pw0 ls_init R_init) as (Hres & HR).
  destruct (R_flush _ _ HR) as (s' & V & _ & Hbytes).
  rewrite V. cbn [fst snd]. auto.
Qed.

Print Assumptions pw_new_fresh.
Print Assumptions pw_run_refines.
