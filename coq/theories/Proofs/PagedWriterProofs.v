(** Refinement proof: the paged-writer model against the logical-stream
    specification, for every history of operations. *)
From E57 Require Import Base.Prelude Model.Crc Model.Device Model.PagedWriter Spec.PageSpec.
From E57 Require Import Proofs.PagedWriterLemmas.
From Coq Require Import ZifyN ZifyNat ZifyBool.
Ltac Zify.zify_post_hook ::= Z.div_mod_to_equations.
Local Open Scope monad_scope.

Local Arguments overwrite : simpl never.
Local Arguments seal : simpl never.
Local Arguments take : simpl never.
Local Arguments drop : simpl never.
Local Arguments slice : simpl never.
Local Arguments zeros : simpl never.
Local Arguments len : simpl never.
Local Arguments paginate_n : simpl never.
Local Arguments crc_bytes : simpl never.

(* state right after PagedWriter::new on an empty fault-free device *)
Definition pw0 : pw := mkPw (mkDev [] 0 1 None []) 0 (zeros PAGE).

Lemma pw_new_fresh : pw_new (dev_init [] None) = (pw_dev pw0, Ok pw0).
Proof. reflexivity. Qed.

(** * Effect of each operation on a fault-free state *)

Notation St b c o lg off buf := (mkPw (mkDev b c o None lg) off buf).

Lemma d_read_view n b c o lg :
  d_read n (mkDev b c o None lg) =
  (mkDev b (c + len (slice c n b)) (o + 1) None lg, Ok (slice c n b)).
Proof. reflexivity. Qed.

Lemma d_read_fill_full f b c o lg : c + 1024 <= len b ->
  d_read_fill (S (S f)) 1024 [] (mkDev b c o None lg) =
  (mkDev b (c + 1024) (o + 1) None lg, Ok (slice c 1024 b)).
Proof.
  intros H. cbn [d_read_fill]. change (1024 =? 0) with false. cbv iota.
  unfold bind at 1. rewrite d_read_view.
  assert (L : len (slice c 1024 b) = 1024) by (rewrite len_slice; lia).
  destruct (slice c 1024 b) as [|x got] eqn:E; [rewrite len_nil in L; lia|].
  rewrite L. change (1024 - 1024 =? 0) with true. cbv iota. reflexivity.
Qed.

Lemma d_read_fill_eof f b c o lg : len b <= c ->
  d_read_fill (S f) 1024 [] (mkDev b c o None lg) =
  (mkDev b (c + 0) (o + 1) None lg, Ok []).
Proof.
  intros H. cbn [d_read_fill]. change (1024 =? 0) with false. cbv iota.
  unfold bind at 1. rewrite d_read_view.
  assert (L : len (slice c 1024 b) = 0) by (rewrite len_slice; lia).
  rewrite (len_0_nil _ L). reflexivity.
Qed.

Section Views.
  Variables (b : list N) (c o : N) (lg : list (N * list N)) (off : N) (buf : list N).

  Lemma v_pos : pw_lift d_pos (St b c o lg off buf) = (St b c (o + 1) lg off buf, Ok c).
  Proof. reflexivity. Qed.

  Lemma v_seek_start p :
    pw_lift (d_seek_start p) (St b c o lg off buf) = (St b p (o + 1) lg off buf, Ok p).
  Proof. reflexivity. Qed.

  Lemma v_seek_end :
    pw_lift d_seek_end (St b c o lg off buf) = (St b (len b) (o + 1) lg off buf, Ok (len b)).
  Proof. reflexivity. Qed.

  Lemma v_dflush : pw_lift d_flush (St b c o lg off buf) = (St b c (o + 1) lg off buf, Ok tt).
  Proof. reflexivity. Qed.

  Lemma v_write_all bs : bs <> [] ->
    pw_lift (d_write_all bs) (St b c o lg off buf) =
    (St (overwrite b c bs) (c + len bs) (o + 1) ((c, bs) :: lg) off buf, Ok tt).
  Proof. destruct bs; [congruence|reflexivity]. Qed.

  Lemma fuel_page : exists f, N.to_nat PAGE = S (S f).
  Proof. exists 1022%nat. reflexivity. Qed.

  Lemma v_read_page_full : c + 1024 <= len b ->
    pw_read_current_page (St b c o lg off buf) =
    (St b (c + 1024) (o + 1) lg off (slice c 1024 b), Ok tt).
  Proof.
    intros H. unfold pw_read_current_page, bind, pw_lift.
    destruct fuel_page as [f ->]. cbn [pw_dev].
    change PAGE with 1024.
    rewrite d_read_fill_full by assumption.
    unfold pw_set_buf. cbn [pw_dev pw_off pw_buf].
    replace (1024 - len (slice c 1024 b)) with 0 by (rewrite len_slice; lia).
    rewrite zeros_0, app_nil_r. reflexivity.
  Qed.

  Lemma v_read_page_eof : len b <= c ->
    pw_read_current_page (St b c o lg off buf) =
    (St b (c + 0) (o + 1) lg off (zeros 1024), Ok tt).
  Proof.
    intros H. unfold pw_read_current_page, bind, pw_lift.
    cbn [pw_dev]. change PAGE with 1024.
    rewrite d_read_fill_eof by assumption.
    unfold pw_set_buf. cbn [pw_dev pw_off pw_buf]. reflexivity.
  Qed.
End Views.

Local Arguments pw_lift : simpl never.
Local Arguments pw_read_current_page : simpl never.

Lemma seal_ne buf : seal buf <> [].
Proof. rewrite seal_sealp. apply sealp_ne. Qed.

Lemma v_flush b c o lg off buf :
  exists o' lg', pw_flush (St b c o lg off buf) =
    (St (if 0 <? off then overwrite b c (seal buf) else b) c o' lg' off
        (if 0 <? off then seal buf else buf), Ok tt).
Proof.
  unfold pw_flush, bind, pw_get_off, pw_get_buf, pw_set_buf, ret. cbn.
  destruct (0 <? off).
  - rewrite v_pos. cbn. rewrite v_write_all by apply seal_ne. rewrite v_seek_start. cbn.
    rewrite v_dflush. eauto.
  - rewrite v_dflush. eauto.
Qed.

Lemma v_write_part b c o lg off buf data :
  off <= 1020 ->
  let n := N.min (len data) (1020 - off) in
  off + n <> 1020 ->
  pw_write data (St b c o lg off buf) =
  (St b c o lg (off + n) (take off buf ++ take n data ++ drop (off + n) buf), Ok n).
Proof.
  intros Hoff n Hn.
  unfold pw_write, bind, pw_get_off, pw_get_buf, pw_set_buf, pw_set_off, ret. cbn.
  change PAYLOAD with 1020. fold n.
  destruct (N.ltb_spec 1020 off); [lia|].
  destruct (N.eqb_spec (off + n) 1020); [lia|].
  reflexivity.
Qed.

Lemma v_write_fill b c o lg off buf data :
  off <= 1020 ->
  let n := N.min (len data) (1020 - off) in
  let buf1 := take off buf ++ take n data ++ drop (off + n) buf in
  let b' := overwrite b c (seal buf1) in
  off + n = 1020 ->
  len (seal buf1) = 1024 ->
  (c + 2048 <= len b' \/ len b' <= c + 1024) ->
  exists o' lg', pw_write data (St b c o lg off buf) =
  (St b' (c + 1024) o' lg' 0
      (if c + 2048 <=? len b' then slice (c + 1024) 1024 b' else zeros 1024), Ok n).
Proof.
  intros Hoff n buf1 b' Hn Hs Hb.
  unfold pw_write, bind, pw_get_off, pw_get_buf, pw_set_buf, pw_set_off, ret. cbn.
  change PAYLOAD with 1020. fold n. fold buf1.
  destruct (N.ltb_spec 1020 off); [lia|].
  destruct (N.eqb_spec (off + n) 1020); [|lia].
  cbn [pw_dev pw_off pw_buf]. fold n. fold buf1.
  rewrite v_write_all by apply seal_ne. fold b'. rewrite Hs.
  rewrite v_pos. cbn.
  destruct (N.leb_spec (c + 2048) (len b')).
  - rewrite v_read_page_full by lia. rewrite v_seek_start. eauto.
  - rewrite v_read_page_eof by lia. rewrite v_seek_start. eauto.
Qed.

Lemma v_size b c o lg off buf :
  exists o' lg', pw_physical_size (St b c o lg off buf) =
    (St (if 0 <? off then overwrite b c (seal buf) else b) c o' lg' off
        (if 0 <? off then seal buf else buf),
     Ok (len (if 0 <? off then overwrite b c (seal buf) else b))).
Proof.
  destruct (v_flush b c o lg off buf) as (o1 & lg1 & E).
  unfold pw_physical_size, bind, relabel, ret. rewrite E. cbn.
  rewrite v_pos. cbn. rewrite v_seek_end. cbn. rewrite v_seek_start. cbn. eauto.
Qed.

Local Arguments pw_physical_size : simpl never.

Lemma v_seek_rej b c o lg off buf p :
  let bf := if 0 <? off then overwrite b c (seal buf) else b in
  (len bf <? p) || (1020 <=? p mod 1024) = true ->
  exists o' lg', pw_physical_seek p (St b c o lg off buf) =
    (St bf c o' lg' off (if 0 <? off then seal buf else buf), Err EInvalid).
Proof.
  intros bf H.
  destruct (v_size b c o lg off buf) as (o1 & lg1 & E).
  unfold pw_physical_seek, bind, fail. rewrite E. fold bf.
  change PAYLOAD with 1020. change PAGE with 1024.
  destruct (len bf <? p); [eauto|].
  destruct (1020 <=? p mod 1024); [eauto|]. discriminate.
Qed.

Lemma v_seek_acc b c o lg off buf p :
  let bf := if 0 <? off then overwrite b c (seal buf) else b in
  let c' := p / 1024 * 1024 in
  len bf <? p = false -> 1020 <=? p mod 1024 = false ->
  (c' + 1024 <= len bf \/ len bf <= c') ->
  exists o' lg', pw_physical_seek p (St b c o lg off buf) =
    (St bf c' o' lg' (p mod 1024)
        (if c' + 1024 <=? len bf then slice c' 1024 bf else zeros 1024), Ok tt).
Proof.
  intros bf c' H1 H2 Hc.
  destruct (v_size b c o lg off buf) as (o1 & lg1 & E).
  unfold pw_physical_seek, bind, fail, relabel. rewrite E. fold bf.
  change PAYLOAD with 1020. change PAGE with 1024. rewrite H1, H2. fold c'.
  rewrite v_seek_start. cbn.
  destruct (N.leb_spec (c' + 1024) (len bf)).
  - rewrite v_read_page_full by lia. cbn. rewrite v_seek_start. cbn.
    unfold pw_set_off. cbn. eauto.
  - rewrite v_read_page_eof by lia. cbn. rewrite v_seek_start. cbn.
    unfold pw_set_off. cbn. eauto.
Qed.

Lemma v_position b c o lg off buf :
  pw_physical_position (St b c o lg off buf) = (St b c (o + 1) lg off buf, Ok (c + off)).
Proof. reflexivity. Qed.

(** * The simulation invariant *)

Ltac nsimp :=
  repeat first
    [ rewrite nthN_overwrite | rewrite nthN_app | rewrite nthN_take | rewrite nthN_drop
    | rewrite nthN_slice | rewrite nthN_zeros | rewrite nthN_nil
    | rewrite len_overwrite | rewrite len_app | rewrite len_take | rewrite len_drop
    | rewrite len_slice | rewrite len_zeros | rewrite len_sealp | rewrite len_crc_bytes
    | rewrite len_nil ].

Ltac dcmp :=
  repeat match goal with
  | |- context [?a <? ?b] => destruct (N.ltb_spec a b)
  | |- context [?a <=? ?b] => destruct (N.leb_spec a b)
  | |- context [?a =? ?b] => destruct (N.eqb_spec a b)
  end.

Record Inv (np pg : N) (dl b : list N) (c off : N) (buf data : list N) (pos : N) : Prop := mkInv {
  I_bytes : b = paginate_n (N.to_nat np) dl;
  I_dl : len dl = 1020 * np;
  I_cur : c = 1024 * pg;
  I_pg : pg <= np;
  I_off : off < 1020;
  I_buf : len buf = 1024;
  I_pos : pos = 1020 * pg + off;
  I_bufdata : forall j, j < 1020 -> nthN j buf = nthN (1020 * pg + j) data;
  I_dldata : forall i, i < 1020 * np -> (i < 1020 * pg \/ 1020 * pg + off <= i) ->
                       nthN i dl = nthN i data;
  I_pages : (pg = np /\ 0 < off /\ pages_for (len data) = np + 1) \/
            ((pg < np \/ off = 0) /\ pages_for (len data) = np)
}.

Lemma pages_for_spec x k : pages_for x = k <-> (1020 * k < x + 1020 /\ x <= 1020 * k).
Proof. unfold pages_for, PAYLOAD_SZ. lia. Qed.

Lemma Inv_flush np pg dl b c off buf data pos :
  Inv np pg dl b c off buf data pos ->
  let bf := if 0 <? off then overwrite b c (seal buf) else b in
  let buff := if 0 <? off then seal buf else buf in
  exists np' dl', Inv np' pg dl' bf c off buff data pos /\
    (forall i, i < 1020 * np' -> nthN i dl' = nthN i data) /\
    pages_for (len data) = np' /\ len bf = 1024 * np'.
Proof.
  intros [Hb Hdl Hc Hpg Hoff Hbuf Hpos Hbd Hdd Hpages] bf buff.
  subst bf buff. destruct (N.ltb_spec 0 off) as [Hlt|Hge].
  - rewrite seal_sealp. set (P := take 1020 buf).
    assert (HP : len P = 1020) by (unfold P; rewrite len_take; lia).
    assert (HPn : forall j, j < 1020 -> nthN j P = nthN (1020 * pg + j) data).
    { intros j Hj. unfold P. rewrite nthN_take. dcmp; [auto|lia]. }
    subst b c.
    assert (Hdd' : forall np', np' = N.max np (pg + 1) -> forall i, i < 1020 * np' ->
               nthN i (overwrite dl (1020 * pg) P) = nthN i data).
    { intros np' -> i Hi. rewrite nthN_overwrite. dcmp.
      - apply Hdd; lia.
      - rewrite HPn by lia. f_equal. lia.
      - apply Hdd; lia. }
    destruct (N.eq_dec pg np) as [->|Hne].
    + exists (np + 1), (overwrite dl (1020 * np) P).
      rewrite pag_overwrite_end by assumption.
      split; [|split; [|split]].
      * constructor; try lia; try reflexivity.
        -- rewrite len_overwrite. lia.
        -- rewrite len_sealp. lia.
        -- intros j Hj. unfold sealp. rewrite nthN_app. dcmp; [auto|lia].
        -- intros i Hi _. apply Hdd' with (np' := np + 1); lia.
      * apply Hdd'. lia.
      * destruct Hpages as [(_ & _ & H)|([H|H] & _)]; [assumption|lia|lia].
      * rewrite pag_len; [lia|]. rewrite len_overwrite. lia.
    + exists np, (overwrite dl (1020 * pg) P).
      rewrite pag_overwrite_in by (assumption || lia).
      split; [|split; [|split]].
      * constructor; try lia; try reflexivity.
        -- rewrite len_overwrite. lia.
        -- rewrite len_sealp. lia.
        -- intros j Hj. unfold sealp. rewrite nthN_app. dcmp; [auto|lia].
        -- intros i Hi _. apply Hdd' with (np' := np); lia.
      * apply Hdd'. lia.
      * destruct Hpages as [(H & _)|(_ & H)]; [lia|assumption].
      * rewrite pag_len; [lia|]. rewrite len_overwrite. lia.
  - assert (off = 0) by lia. subst off.
    exists np, dl. split; [|split; [|split]].
    + constructor; assumption.
    + intros i Hi. apply Hdd; lia.
    + destruct Hpages as [(_ & H & _)|(_ & H)]; [lia|assumption].
    + subst b. apply pag_len. assumption.
Qed.

Lemma pag_overwrite np pg dl P :
  len dl = 1020 * np -> pg <= np -> len P = 1020 ->
  overwrite (paginate_n (N.to_nat np) dl) (1024 * pg) (sealp P) =
  paginate_n (N.to_nat (N.max np (pg + 1))) (overwrite dl (1020 * pg) P).
Proof.
  intros Hdl Hpg HP. destruct (N.eq_dec pg np) as [->|Hne].
  - replace (N.max np (np + 1)) with (np + 1) by lia. apply pag_overwrite_end; assumption.
  - replace (N.max np (pg + 1)) with np by lia. apply pag_overwrite_in; (assumption || lia).
Qed.

Section Buf1.
  Variables (buf wr : list N) (off n : N).
  Hypothesis Hbuf : len buf = 1024.
  Hypothesis Hn : off + n <= 1020.
  Hypothesis Hwr : n <= len wr.
  Let buf1 := take off buf ++ take n wr ++ drop (off + n) buf.

  Lemma buf1_len : len buf1 = 1024.
  Proof. unfold buf1. nsimp. lia. Qed.

  Lemma buf1_nth j :
    nthN j buf1 = if j <? off then nthN j buf
                  else if j <? off + n then nthN (j - off) wr else nthN j buf.
  Proof.
    unfold buf1. nsimp. dcmp; try lia; try reflexivity; f_equal; lia.
  Qed.

  Lemma chunk_nth data pos i :
    nthN i (overwrite data pos (take n wr)) =
    if i <? pos then nthN i data
    else if i <? pos + n then nthN (i - pos) wr else nthN i data.
  Proof.
    nsimp. dcmp; try lia; try reflexivity.
  Qed.

  Lemma chunk_len data pos :
    len (overwrite data pos (take n wr)) = N.max (len data) (pos + n).
  Proof. nsimp. lia. Qed.
End Buf1.
