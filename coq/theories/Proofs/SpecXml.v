(** The XML layer plugged into the binary-side results of C02 and C03
    (Spec/FileSpecXml.v): the descriptors are what parsing and extracting the
    XML text yields.  The decoder's verdict and contents do not depend on the
    order in which the descriptors are listed, so the corollaries ask only that
    the extracted descriptors are a permutation of the published ones (the XML
    lists point clouds first and image blobs second, the file interleaves them). *)
From Coq Require Import Permutation.
From E57 Require Import Base.Prelude Model.Device Model.PagedWriter Model.PagedReader Model.Record Model.Prog
  Model.QueueReader Model.PcWriter Model.FileBin Model.ReaderOpen Model.Meta Model.MetaFile Model.XmlTree
  Model.XmlParse Model.XmlExtract Spec.BitSpec Spec.PageSpec Spec.FormatSpec Spec.FileSpec Spec.FileSpecXml
  Spec.XmlRender Spec.MetaTree.
From E57 Require Import Proofs.PagedWriterProofs Proofs.PagedReaderCache Proofs.FileRtWriter Proofs.XmlpRoundtripDoc
  Proofs.SpecLayout Proofs.SpecSection Proofs.SpecDecode Proofs.SpecReader Proofs.SpecWriter Proofs.SpecWriterOk Proofs.SpecC02.
From Coq Require Import ZifyN ZifyNat ZifyBool.
Ltac Zify.zify_post_hook ::= Z.div_mod_to_equations.
Open Scope N_scope.

(** * The decoder does not depend on the order of the descriptors *)

Lemma ext_disjoint_sym a b : ext_disjoint a b = ext_disjoint b a.
Proof. unfold ext_disjoint. apply orb_comm. Qed.

Lemma forallb_perm {A} (f : A -> bool) l l' : Permutation l l' -> forallb f l = forallb f l'.
Proof.
  induction 1 as [|x l l' _ IH|x y l|l l' l'' _ IH1 _ IH2]; cbn [forallb].
  - reflexivity.
  - rewrite IH. reflexivity.
  - rewrite !andb_assoc, (andb_comm (f y)). reflexivity.
  - congruence.
Qed.

Lemma pairwise_disjoint_perm l l' : Permutation l l' -> pairwise_disjoint l = pairwise_disjoint l'.
Proof.
  induction 1 as [|x l l' Hp IH|x y l|l l' l'' _ IH1 _ IH2]; cbn [pairwise_disjoint forallb].
  - reflexivity.
  - rewrite IH, (forallb_perm _ _ _ Hp). reflexivity.
  - rewrite (ext_disjoint_sym y x).
    destruct (ext_disjoint x y), (forallb (ext_disjoint y) l), (forallb (ext_disjoint x) l); reflexivity.
  - congruence.
Qed.

Lemma sections_ok_perm log ds ds' : Permutation ds ds' -> sections_ok log ds = sections_ok log ds'.
Proof.
  intros Hp. unfold sections_ok. rewrite (forallb_perm _ _ _ Hp). f_equal.
  apply pairwise_disjoint_perm. do 2 apply perm_skip. apply Permutation_map. exact Hp.
Qed.

Lemma spec_wellformed_perm f dx dx' :
  Permutation (dx (file_xml f)) (dx' (file_xml f)) -> spec_wellformed f dx = spec_wellformed f dx'.
Proof. intros Hp. unfold spec_wellformed. rewrite (sections_ok_perm _ _ _ Hp). reflexivity. Qed.

(** ... and a file that is well formed with a list of sections is well formed with fewer *)
Lemma pairwise_disjoint_app_l : forall l1 l2, pairwise_disjoint (l1 ++ l2) = true -> pairwise_disjoint l1 = true.
Proof.
  induction l1 as [|a l1 IH]; intros l2 H; [reflexivity|].
  cbn [app pairwise_disjoint] in *. apply andb_prop in H as [H1 H2].
  rewrite forallb_app in H1. apply andb_prop in H1 as [H1 _]. rewrite H1, (IH l2 H2). reflexivity.
Qed.

Lemma sections_ok_app_l log a b : sections_ok log (a ++ b) = true -> sections_ok log a = true.
Proof.
  unfold sections_ok. intros H. apply andb_prop in H as [H1 H2].
  rewrite forallb_app in H1. apply andb_prop in H1 as [H1 _]. rewrite H1. cbn [andb].
  rewrite map_app in H2.
  change ((0, 48) :: (log_of_phys (u64_at 24 log), u64_at 32 log) :: map (desc_extent log) a ++ map (desc_extent log) b)
    with (((0, 48) :: (log_of_phys (u64_at 24 log), u64_at 32 log) :: map (desc_extent log) a) ++ map (desc_extent log) b) in H2.
  exact (pairwise_disjoint_app_l _ _ H2).
Qed.

(** decoding goes descriptor by descriptor *)
Definition content_of (log : list N) (d : descriptor) : content :=
  match decode_desc log d with Some c => c | None => CBlob [] end.

Lemma sequence_opt_Some_inv {A} : forall (l : list (option A)) r, sequence_opt l = Some r ->
  forall o, In o l -> exists a, o = Some a.
Proof.
  induction l as [|[a|] l IH]; intros r H o Hin; cbn [sequence_opt] in H; try discriminate; [destruct Hin|].
  destruct (sequence_opt l) as [t|] eqn:E; [|discriminate].
  destruct Hin as [<-|Hin]; [eexists; reflexivity|]. exact (IH t eq_refl o Hin).
Qed.

Lemma sequence_opt_all {A C} (g : A -> option C) (h : A -> C) : forall l,
  (forall a, In a l -> g a = Some (h a)) -> sequence_opt (map g l) = Some (map h l).
Proof.
  induction l as [|a l IH]; intros H; [reflexivity|]. cbn [map sequence_opt].
  rewrite (H a (or_introl eq_refl)), IH; [reflexivity|]. intros b Hb. apply H. right. exact Hb.
Qed.

Lemma combine_map_r {A C} (h : A -> C) l : combine l (map h l) = map (fun a => (a, h a)) l.
Proof. induction l as [|a l IH]; [reflexivity|]. cbn [map combine]. rewrite IH. reflexivity. Qed.

(** if a file decodes under one listing of its sections it decodes under every permutation of
    it, each descriptor to the same content *)
Lemma spec_decode_file_perm f dx dx' d :
  Permutation (dx' (file_xml f)) (dx (file_xml f)) ->
  spec_decode_file f dx = Some d ->
  exists cs, spec_decode_file f dx' = Some (mkDecoded (dec_xml d) cs) /\
             Permutation (combine (dx' (file_xml f)) cs) (combine (dx (file_xml f)) (dec_items d)).
Proof.
  intros Hp H. unfold spec_decode_file in *.
  rewrite (spec_wellformed_perm f dx' dx Hp).
  destruct (spec_wellformed f dx); [|discriminate].
  set (log := strip_crc f) in *. set (x := file_xml f) in *.
  destruct (sequence_opt (map (decode_desc log) (dx x))) as [items|] eqn:E; [|discriminate].
  injection H as <-. cbn [dec_xml dec_items].
  assert (Hall : forall a, In a (dx x) -> decode_desc log a = Some (content_of log a)).
  { intros a Ha. destruct (sequence_opt_Some_inv _ _ E (decode_desc log a) (in_map _ _ _ Ha)) as [c Hc].
    unfold content_of. rewrite Hc. reflexivity. }
  assert (Hitems : items = map (content_of log) (dx x)).
  { rewrite (sequence_opt_all _ _ _ Hall) in E. congruence. }
  exists (map (content_of log) (dx' x)). split.
  - rewrite (sequence_opt_all _ (content_of log)); [reflexivity|].
    intros a Ha. apply Hall. exact (Permutation_in _ Hp Ha).
  - rewrite Hitems, !combine_map_r. apply Permutation_map. exact Hp.
Qed.

(** fewer sections: what decodes, decodes to the same contents *)
Lemma spec_decode_file_sub f dx dx' d :
  spec_decode_file f dx = Some d ->
  spec_wellformed f dx' = true ->
  (forall a, In a (dx' (file_xml f)) -> In a (dx (file_xml f))) ->
  let log := strip_crc f in
  dec_items d = map (content_of log) (dx (file_xml f)) /\
  spec_decode_file f dx' = Some (mkDecoded (dec_xml d) (map (content_of log) (dx' (file_xml f)))).
Proof.
  intros H Hw' Hincl log. unfold spec_decode_file in *. rewrite Hw'.
  destruct (spec_wellformed f dx); [|discriminate].
  fold log in H |- *. set (x := file_xml f) in *.
  destruct (sequence_opt (map (decode_desc log) (dx x))) as [items|] eqn:E; [|discriminate].
  injection H as <-. cbn [dec_xml dec_items].
  assert (Hall : forall a, In a (dx x) -> decode_desc log a = Some (content_of log a)).
  { intros a Ha. destruct (sequence_opt_Some_inv _ _ E (decode_desc log a) (in_map _ _ _ Ha)) as [c Hc].
    unfold content_of. rewrite Hc. reflexivity. }
  split.
  - rewrite (sequence_opt_all _ _ _ Hall) in E. congruence.
  - rewrite (sequence_opt_all _ (content_of log)); [reflexivity|]. intros a Ha. apply Hall, Hincl, Ha.
Qed.

(** * C02 with the XML plugged in *)

Section WithOracles.
Variable pf64 pf32 : xstr -> option N.
Variable fdiv : N -> Z -> N.

Lemma xml_parse_nil : xml_parse [] = ParseErr.
Proof. vm_compute. reflexivity. Qed.

Lemma dx_of_render c t m : wf_doc t = true -> extract_all pf64 pf32 fdiv t = Ok m ->
  xml_meta pf64 pf32 fdiv (render c t) = Some m /\
  dx_of pf64 pf32 fdiv (render c t) = Some (meta_descriptors m) /\
  dx_total pf64 pf32 fdiv (render c t) = meta_descriptors m /\ render c t <> [].
Proof.
  intros Hwf Hex. pose proof (parse_render c t Hwf) as Hp.
  unfold dx_total, dx_of, xml_meta. rewrite Hp, Hex. repeat split; try reflexivity.
  intros E. rewrite E, xml_parse_nil in Hp. discriminate.
Qed.

(** The writer model's file with an XML text that is ANY rendering of the tree of a metadata
    value whose extraction lists sections the items published.  The three named hypotheses
    are what the XML slices prove in general: [Hwf] (the metadata tree is renderable), [Hext]
    (extraction inverts [tree_of]) and [Hdesc] (the metadata handed to the XML generator
    states the offsets, counts and types the binary writer published; [rest] = the sections the
    XML does not mention: blobs added with [add_blob] that no image refers to) and [Hproto] (the
    sample value of every prototype element lies within the element's limits:
    [tree_of_proto_values_ok] of Proofs/SpecProtoFinal.v derives it from conditions on [m]). *)
Theorem writer_file_wellformed_xml : forall (is : list FileBin.item) (outs : list item_out) (s : pw)
    (m m' : file_meta) (c : render_choices) (rest : list descriptor),
  forallb item_typed is = true ->
  let xml := render c (tree_of m) in
  forall (Hwf : wf_doc (tree_of m) = true)
         (Hext : extract_all pf64 pf32 fdiv (tree_of m) = Ok m')
         (Hdesc : Permutation (meta_descriptors m' ++ rest) (item_descriptors is outs))
         (Hproto : proto_values_ok pf64 pf32 (tree_of m) = true),
  wrun (file_prog is xml) pw0 = (s, Ok outs) ->
  let f := d_bytes (pw_dev (fst (pw_flush s))) in
  len f < 2 ^ 64 ->
  spec_wellformed_xml pf64 pf32 fdiv f = true /\
  exists cs,
    spec_decode_file_xml pf64 pf32 fdiv f = Some (m', mkDecoded xml cs) /\
    length cs = length (meta_descriptors m') /\
    forall d cnt, In (d, cnt) (combine (meta_descriptors m') cs) ->
                  In (d, cnt) (combine (item_descriptors is outs) (map item_content is)).
Proof.
  intros is outs s m m' c rest Hty xml Hwf Hext Hdesc Hproto Hrun f Hsize.
  destruct (dx_of_render c (tree_of m) m' Hwf Hext) as (Hmeta & Hdx & Hdt & Hne). fold xml in Hmeta, Hdx, Hdt, Hne.
  set (dx0 := fun _ : list N => item_descriptors is outs).
  destruct (writer_ok_file_wellformed is xml outs s dx0 Hty Hne Hrun Hsize eq_refl) as [Hw Hd].
  fold f in Hw, Hd.
  assert (Hx : file_xml f = xml).
  { unfold spec_decode_file in Hd. rewrite Hw in Hd.
    destruct (sequence_opt _) in Hd; [|discriminate]. injection Hd as Hd _. exact Hd. }
  set (dxx := dx_total pf64 pf32 fdiv).
  assert (Hdxx : dxx (file_xml f) = meta_descriptors m') by (unfold dxx; rewrite Hx; exact Hdt).
  assert (Hwx : spec_wellformed f dxx = true).
  { unfold spec_wellformed in *. apply andb_prop in Hw as [Hc Hs]. rewrite Hc. cbn [andb].
    rewrite Hdxx. apply (sections_ok_app_l _ _ rest).
    rewrite (sections_ok_perm _ _ _ Hdesc). exact Hs. }
  assert (Hincl : forall a, In a (dxx (file_xml f)) -> In a (dx0 (file_xml f))).
  { intros a Ha. rewrite Hdxx in Ha. unfold dx0. apply (Permutation_in _ Hdesc). apply in_or_app. left. exact Ha. }
  destruct (spec_decode_file_sub f dx0 dxx _ Hd Hwx Hincl) as [Hitems Hdec].
  cbn [dec_xml dec_items] in Hitems, Hdec. rewrite Hdxx in Hdec.
  split.
  - unfold spec_wellformed_xml, xml_proto_values_ok. rewrite Hx, Hdx. fold dxx. rewrite Hwx.
    unfold xml. rewrite (parse_render c (tree_of m) Hwf). exact Hproto.
  - exists (map (content_of (strip_crc f)) (meta_descriptors m')). split; [|split].
    + unfold spec_decode_file_xml. rewrite Hx, Hmeta. fold dxx. rewrite Hdec. reflexivity.
    + apply map_length.
    + intros d cnt Hin. rewrite combine_map_r in Hin. apply in_map_iff in Hin as (a & E & Ha).
      injection E as <- <-. rewrite Hitems. unfold dx0. rewrite combine_map_r.
      apply in_map_iff. exists a. split; [reflexivity|].
      apply (Permutation_in _ Hdesc). apply in_or_app. left. exact Ha.
Qed.

(** * C03 with the XML plugged in *)

(** what the reader model returns for a descriptor: the content [c] *)
Definition desc_reads (rs : pr) (d : descriptor) (c : content) : Prop :=
  match d, c with
  | DPc off n proto, CPoints points =>
      n = len points /\
      forall ops fuel, (length points < fuel)%nat ->
        snd (rrun (rbind (raw_new off n proto) (fun it => raw_collect fuel (pr_log_size rs) it []))
                  (fst (pr_run ops rs))) = Ok points
  | DBlob off l, CBlob data =>
      l = len data /\
      forall ops, snd (rrun (blob_read (pr_log_size rs) off l) (fst (pr_run ops rs))) = Ok data
  | _, _ => False
  end.

Lemma layout_reads_descs rs xo : forall fl base xl,
  Forall2 (reads_fsection rs xo) fl (map phys_of_log (layout_starts base fl xl)) ->
  forall d c, In (d, c) (combine (layout_descriptors base fl xl) (layout_contents fl)) -> desc_reads rs d c.
Proof.
  induction fl as [|s r IH]; intros base xl HF d c Hin; [destruct Hin|].
  cbn [layout_starts map] in HF. inversion HF as [|? ? ? ? Hs Hr]; subst.
  specialize (IH _ _ Hr).
  destruct s as [data pad|proto points lay pad|]; cbn [layout_descriptors layout_contents combine] in Hin.
  - destruct Hin as [E|Hin]; [|exact (IH d c Hin)]. injection E as <- <-.
    cbn [desc_reads reads_fsection] in *. split; [reflexivity|exact Hs].
  - destruct Hin as [E|Hin]; [|exact (IH d c Hin)]. injection E as <- <-.
    cbn [desc_reads reads_fsection] in *. split; [reflexivity|exact Hs].
  - exact (IH d c Hin).
Qed.

(** Reading a file of the independent encoder whose XML text is ANY rendering [c] of a
    well-formed tree [t] that states the placements of the layout: the reader model returns
    the XML bytes, parsing them gives [t] back, extraction gives the metadata of [t], and
    every descriptor extracted from it reads exactly the content the encoder placed there. *)
Theorem spec_file_read_any_rendering : forall (fl : file_layout) (t : xdoc) (m : file_meta) (c : render_choices),
  file_layout_ok fl = true ->
  wf_doc t = true ->
  extract_all pf64 pf32 fdiv t = Ok m ->
  let x := render c t in
  Permutation (meta_descriptors m) (layout_descriptors 48 fl (len x)) ->
  len x <= MAX_XML_SIZE ->
  len (spec_encode_file fl x) < 2 ^ 64 ->
  let f := spec_encode_file fl x in
  exists rs d',
    reader_open (dev_init f None)
    = (d', Ok (rs, mkHeader 1 0 (len f) (phys_of_log (xml_start 48 fl (len x))) (len x) 1024, x)) /\
    pr_inv 1024 f rs /\
    xml_parse x = ParseOk t /\
    xml_meta pf64 pf32 fdiv x = Some m /\
    forall d, In d (meta_descriptors m) ->
      exists cnt, In (d, cnt) (combine (layout_descriptors 48 fl (len x)) (layout_contents fl)) /\
                  desc_reads rs d cnt.
Proof.
  intros fl t m c Hok Hwf Hext x Hperm Hxl Hsize f.
  destruct (dx_of_render c t m Hwf Hext) as (Hmeta & _ & _ & Hne). fold x in Hmeta, Hne.
  destruct (spec_file_read_by_model fl x Hok Hne Hxl Hsize) as (rs & d' & Hopen & Hinv & HF).
  exists rs, d'. split; [exact Hopen|]. split; [exact Hinv|].
  split; [exact (parse_render c t Hwf)|]. split; [exact Hmeta|].
  intros d Hd. pose proof (Permutation_in _ Hperm Hd) as Hd'.
  assert (Hlen : length (layout_descriptors 48 fl (len x)) = length (layout_contents fl)).
  { clear. generalize 48. induction fl as [|s r IH]; intros b; [reflexivity|].
    destruct s; cbn [layout_descriptors layout_contents length]; rewrite ?IH; reflexivity. }
  destruct (In_nth _ _ d Hd') as (k & Hk & Hnth).
  exists (nth k (layout_contents fl) (CBlob [])).
  assert (Hin : In (d, nth k (layout_contents fl) (CBlob []))
                   (combine (layout_descriptors 48 fl (len x)) (layout_contents fl))).
  { rewrite <- Hnth, <- combine_nth by exact Hlen. apply nth_In. rewrite combine_length, <- Hlen. lia. }
  split; [exact Hin|]. exact (layout_reads_descs rs _ fl 48 (len x) HF d _ Hin).
Qed.

(** Independence of the rendering: two renderings of the same tree parse to the same tree, give
    the same metadata and the same descriptors; and when the XML is the last entry of the layout
    (no placement depends on its length) the hypothesis of [spec_file_read_any_rendering] about
    the placements is the same for both, so both files read back to the same contents. *)
Lemma fsec_len_xl_irrelevant s xl xl' : is_xml s = false -> fsec_len s xl = fsec_len s xl'.
Proof. destruct s; [reflexivity|reflexivity|discriminate]. Qed.

Lemma layout_descriptors_xml_last : forall l1 base xl xl', filter is_xml l1 = [] ->
  layout_descriptors base (l1 ++ [FXml]) xl = layout_descriptors base (l1 ++ [FXml]) xl'.
Proof.
  induction l1 as [|s r IH]; intros base xl xl' H; [reflexivity|].
  assert (Hs : is_xml s = false /\ filter is_xml r = []).
  { cbn [filter] in H. destruct (is_xml s); [discriminate|]. auto. }
  destruct Hs as [Hs Hr]. cbn [app layout_descriptors].
  rewrite (fsec_len_xl_irrelevant s xl xl' Hs), (IH _ xl xl' Hr). reflexivity.
Qed.

Theorem spec_file_read_rendering_independent : forall (fl : file_layout) (t : xdoc) (m : file_meta)
    (c1 c2 : render_choices),
  wf_doc t = true -> extract_all pf64 pf32 fdiv t = Ok m ->
  xml_parse (render c1 t) = xml_parse (render c2 t) /\
  xml_meta pf64 pf32 fdiv (render c1 t) = xml_meta pf64 pf32 fdiv (render c2 t) /\
  dx_of pf64 pf32 fdiv (render c1 t) = dx_of pf64 pf32 fdiv (render c2 t) /\
  (forall l1, fl = l1 ++ [FXml] -> filter is_xml l1 = [] ->
     layout_descriptors 48 fl (len (render c1 t)) = layout_descriptors 48 fl (len (render c2 t))).
Proof.
  intros fl t m c1 c2 Hwf Hext.
  destruct (dx_of_render c1 t m Hwf Hext) as (M1 & D1 & _ & _).
  destruct (dx_of_render c2 t m Hwf Hext) as (M2 & D2 & _ & _).
  rewrite !(parse_render _ t Hwf), M1, M2, D1, D2. repeat split.
  intros l1 -> Hl1. apply layout_descriptors_xml_last. exact Hl1.
Qed.

End WithOracles.

Print Assumptions writer_file_wellformed_xml.
Print Assumptions spec_file_read_any_rendering.
Print Assumptions spec_file_read_rendering_independent.
