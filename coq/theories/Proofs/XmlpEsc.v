(** Escaping on the specification side (Spec/XmlRender.v: [render_byte], [esc_bytes]) against
    scanning and decoding in the parser model (Model/XmlParse.v: [parse_ref], [scan_text],
    [scan_attr_value], [process_text], [normalize_attr]).  Everything is Qed-closed. *)
From Coq Require Import Lia ZifyN ZifyNat ZifyBool.
From E57 Require Import Base.Prelude Model.XmlTree Model.XmlParse Spec.XmlRender.

(** * Vocabulary *)

(** the byte is an XML Char as far as one byte below 32 can tell *)
Definition valid_b (b : N) : bool := if b <? 32 then (b =? 9) || (b =? 10) || (b =? 13) else true.

(** bytes that occur in a reference: '&' '#' ';' 'x' digits lower-case letters *)
Definition ref_byteb (x : N) : bool :=
  (x =? 38) || (x =? 35) || (x =? 59) || (x =? 120)
  || ((48 <=? x) && (x <=? 57)) || ((97 <=? x) && (x <=? 122)).
Definition ref_byte (x : N) : Prop :=
  x = 38 \/ x = 35 \/ x = 59 \/ x = 120 \/ (48 <= x <= 57) \/ (97 <= x <= 122).

Lemma ref_byteb_spec : forall x, ref_byteb x = true <-> ref_byte x.
Proof. intro x. unfold ref_byteb, ref_byte. lia. Qed.

Lemma ref_byte_facts : forall x, ref_byte x ->
  32 <= x < 128 /\ x <> 60 /\ x <> 62 /\ x <> 34 /\ x <> 39 /\ x <> 93 /\ x <> 13 /\ x <> 0xEF.
Proof. intros x H. unfold ref_byte in H. lia. Qed.

(** the first byte of the list, when there is one, is ASCII *)
Definition hd_lt128 (l : xstr) : Prop := match l with x :: _ => x < 128 | [] => True end.

(** the two bytes that make EF the start of U+FFFE / U+FFFF *)
Definition bad2 (r : xstr) : bool :=
  match r with
  | b2 :: b3 :: _ => (b2 =? 0xBF) && ((b3 =? 0xBE) || (b3 =? 0xBF))
  | _ => false
  end.

(** * References *)

Lemma below128 : forall (P : N -> Prop),
  (forall n, (n < 128)%nat -> P (N.of_nat n)) -> forall b, b < 128 -> P b.
Proof. intros P H b Hb. rewrite <- (N2Nat.id b). apply H. lia. Qed.

Lemma render_byte_high : forall st must b, 128 <= b -> render_byte st must b = [b].
Proof.
  intros st must b H. unfold render_byte.
  destruct (128 <=? b) eqn:E; [reflexivity | lia].
Qed.

Local Ltac rb_case :=
  first
    [ left; vm_compute; reflexivity
    | right;
      match goal with
      | |- exists body, render_byte ?st ?must ?b = _ /\ _ =>
        exists (tl (render_byte st must b));
        split; [ vm_compute; reflexivity
               | split; [ vm_compute; reflexivity
                        | let Hv := fresh "Hv" in
                          intros Hv rest;
                          first [ vm_compute in Hv; discriminate Hv
                                | vm_compute; reflexivity ] ] ]
      end ].

Lemma render_byte_enum : forall st must b, b < 128 ->
  render_byte st must b = [b] \/
  exists body, render_byte st must b = 38 :: body /\ forallb ref_byteb body = true /\
    (valid_b b = true -> forall rest, parse_ref (body ++ rest) = Some ([b], length body)).
Proof.
  intros st must b Hb. revert st must. pattern b. apply below128; [ | exact Hb ].
  clear b Hb. intros n Hn.
  do 128 (destruct n as [ | n ]; [ intros [ | | | ] [ | ]; rb_case | ]).
  exfalso. lia.
Qed.

Lemma render_byte_shape : forall st must b,
  render_byte st must b = [b] \/
  (b < 128 /\ exists body, render_byte st must b = 38 :: body /\ forallb ref_byteb body = true /\
    (valid_b b = true -> forall rest, parse_ref (body ++ rest) = Some ([b], length body))).
Proof.
  intros st must b. destruct (128 <=? b) eqn:E.
  - left. apply render_byte_high. lia.
  - assert (Hb : b < 128) by lia.
    destruct (render_byte_enum st must b Hb) as [H | H]; [ left; exact H | right; split; assumption ].
Qed.

Lemma render_byte_cases : forall st must b,
  (if b <? 32 then (b =? 9) || (b =? 10) || (b =? 13) else true) = true ->
  render_byte st must b = [b] \/
  exists body, render_byte st must b = 38 :: body /\ b < 128 /\
    forall rest, parse_ref (body ++ rest) = Some ([b], length body).
Proof.
  intros st must b Hv.
  destruct (render_byte_shape st must b) as [H | (Hb & body & E & _ & Hp)].
  - left. exact H.
  - right. exists body. split; [ exact E | split; [ exact Hb | ] ]. apply Hp. exact Hv.
Qed.

Lemma named_ref_long : forall b r, named_ref b = Some r -> exists x y z l, r = x :: y :: z :: l.
Proof.
  intros b r. unfold named_ref.
  destruct (b =? 60); [ intro H; inversion H; eauto | ].
  destruct (b =? 62); [ intro H; inversion H; eauto | ].
  destruct (b =? 38); [ intro H; inversion H; eauto | ].
  destruct (b =? 34); [ intro H; inversion H; eauto | ].
  destruct (b =? 39); [ intro H; inversion H; eauto | ].
  discriminate.
Qed.

Lemma render_byte_raw_must : forall st b, render_byte st true b = [b] -> 128 <= b.
Proof.
  intros st b H. unfold render_byte in H.
  destruct (128 <=? b) eqn:E; [ lia | exfalso ].
  destruct st.
  - destruct (named_ref b) as [r | ] eqn:En.
    + destruct (named_ref_long _ _ En) as (x & y & z & l & ->). discriminate H.
    + unfold dec_ref in H. cbn [app] in H. discriminate H.
  - destruct (named_ref b) as [r | ] eqn:En.
    + destruct (named_ref_long _ _ En) as (x & y & z & l & ->). discriminate H.
    + unfold dec_ref in H. cbn [app] in H. discriminate H.
  - unfold dec_ref in H. cbn [app] in H. discriminate H.
  - unfold hex_ref in H. cbn [app] in H. discriminate H.
Qed.

Lemma render_byte_raw_must' : forall st must b,
  render_byte st must b = [b] -> must = true -> 128 <= b.
Proof. intros st must b H ->. eapply render_byte_raw_must; eauto. Qed.

Lemma render_byte_bytes : forall st must b body x,
  render_byte st must b = 38 :: body -> In x (38 :: body) ->
  x = 38 \/ x = 35 \/ x = 59 \/ x = 120 \/ (48 <= x <= 57) \/ (97 <= x <= 122).
Proof.
  intros st must b body x E Hin. fold (ref_byte x).
  destruct (render_byte_shape st must b) as [H | (_ & body' & E' & Hf & _)].
  - rewrite H in E. inversion E; subst. destruct Hin as [<- | []]. unfold ref_byte. lia.
  - rewrite E' in E. inversion E; subst.
    destruct Hin as [<- | Hin]; [ unfold ref_byte; lia | ].
    apply ref_byteb_spec. rewrite forallb_forall in Hf. apply Hf. exact Hin.
Qed.

Lemma render_byte_nonempty : forall st must b, render_byte st must b <> [].
Proof.
  intros st must b.
  destruct (render_byte_shape st must b) as [H | (_ & body & E & _)]; [ rewrite H | rewrite E ]; discriminate.
Qed.

(** * Bytes that never occur in escaped output *)

Lemma esc_not_in : forall must c st, must c = true -> c < 128 -> ref_byteb c = false ->
  forall t i, ~ In c (esc_bytes must st i t).
Proof.
  intros must c st Hm Hc Hr t. induction t as [ | a r IH ]; intros i Hin; cbn [esc_bytes] in Hin.
  - destruct Hin.
  - apply in_app_or in Hin. destruct Hin as [Hin | Hin]; [ | eapply IH; eauto ].
    destruct (render_byte_shape (st i a) (must a) a) as [E | (Hlt & body & E & Hf & _)]; rewrite E in Hin.
    + destruct Hin as [<- | []].
      pose proof (render_byte_raw_must' _ _ _ E Hm) as Hge. lia.
    + assert (Hall : forallb ref_byteb (38 :: body) = true) by (cbn [forallb]; rewrite Hf; reflexivity).
      rewrite forallb_forall in Hall. apply Hall in Hin. congruence.
Qed.

Lemma esc_text_no_gt : forall t st i, ~ In 62 (esc_bytes text_must st i t).
Proof. intros t st i. apply esc_not_in; [ reflexivity | lia | reflexivity ]. Qed.

Lemma esc_text_no_lt : forall t st i, ~ In 60 (esc_bytes text_must st i t).
Proof. intros t st i. apply esc_not_in; [ reflexivity | lia | reflexivity ]. Qed.

Lemma esc_attr_no_lt : forall q v st i, ~ In 60 (esc_bytes (attr_must q) st i v).
Proof. intros q v st i. apply esc_not_in; [ reflexivity | lia | reflexivity ]. Qed.

Lemma esc_attr_no_quote : forall q v st i, q = 34 \/ q = 39 -> ~ In q (esc_bytes (attr_must q) st i v).
Proof.
  intros q v st i [-> | ->]; apply esc_not_in; first [ reflexivity | lia ].
Qed.

Lemma no_gt_no_cdata_end : forall s, ~ In 62 s -> contains s_cdata_end s = false.
Proof.
  induction s as [ | a r IH ]; intro Hn.
  - reflexivity.
  - cbn [contains]. rewrite IH by (intro; apply Hn; right; assumption).
    rewrite orb_false_r. unfold starts_with, s_cdata_end. cbn [strip_prefix].
    destruct (93 =? a); [ | reflexivity ].
    destruct r as [ | b r ]; [ reflexivity | ].
    destruct (93 =? b); [ | reflexivity ].
    destruct r as [ | c r ]; [ reflexivity | ].
    destruct (62 =? c) eqn:E; [ | reflexivity ].
    exfalso. apply Hn. right. right. left. lia.
Qed.

Lemma text_no_cdata_end : forall t st i, contains s_cdata_end (esc_bytes text_must st i t) = false.
Proof. intros t st i. apply no_gt_no_cdata_end. apply esc_text_no_gt. Qed.

Lemma esc_nonempty : forall must t st i, t <> [] -> esc_bytes must st i t <> [].
Proof.
  intros must t st i Ht. destruct t as [ | b r ]; [ congruence | ].
  cbn [esc_bytes]. intro H. apply app_eq_nil in H. destruct H as [H _].
  exact (render_byte_nonempty _ _ _ H).
Qed.

(** * [xml_char_ok] along escaped output *)

Lemma xml_char_ok_bad2 : forall b r,
  xml_char_ok b r =
  if b <? 32 then (b =? 9) || (b =? 10) || (b =? 13) else if b =? 0xEF then negb (bad2 r) else true.
Proof. intros b r. destruct r as [ | ? [ | ? ? ] ]; reflexivity. Qed.

Lemma chars_ok_cons : forall b r, chars_ok (b :: r) = (b <? 256) && xml_char_ok b r && chars_ok r.
Proof. reflexivity. Qed.

Lemma bad2_cons : forall b l,
  bad2 (b :: l) = (b =? 0xBF) && match l with c :: _ => (c =? 0xBE) || (c =? 0xBF) | [] => false end.
Proof. intros b l. destruct l; cbn [bad2]; [ rewrite andb_false_r | ]; reflexivity. Qed.

Lemma bad2_esc : forall must st r i tail, hd_lt128 tail ->
  bad2 (esc_bytes must st i r ++ tail) = true -> bad2 r = true.
Proof.
  intros must st r i tail Ht H.
  destruct r as [ | b r1 ].
  - cbn [esc_bytes app] in H. destruct tail as [ | b2 l ]; [ discriminate H | ].
    rewrite bad2_cons in H. cbn [hd_lt128] in Ht. lia.
  - cbn [esc_bytes] in H. rewrite <- app_assoc in H.
    destruct (render_byte_shape (st i b) (must b) b) as [E | (Hlt & body & E & _)]; rewrite E in H.
    2:{ cbn [app] in H. rewrite bad2_cons in H. lia. }
    cbn [app] in H. rewrite bad2_cons in H. rewrite bad2_cons.
    apply andb_true_iff in H. destruct H as [Hb H]. rewrite Hb. cbn [andb].
    destruct r1 as [ | c r2 ].
    + cbn [esc_bytes app] in H. destruct tail as [ | x l ]; [ discriminate H | ].
      cbn [hd_lt128] in Ht. lia.
    + cbn [esc_bytes] in H. rewrite <- app_assoc in H.
      destruct (render_byte_shape (st (S i) c) (must c) c) as [E' | (Hlt' & body' & E' & _)]; rewrite E' in H;
        cbn [app] in H; [ exact H | lia ].
Qed.

Lemma xml_char_ok_app : forall b r tail, chars_ok (b :: r) = true ->
  (match tail with x :: _ => x < 128 | [] => True end) -> xml_char_ok b (r ++ tail) = true.
Proof.
  intros b r tail Hc Ht. rewrite chars_ok_cons in Hc.
  apply andb_true_iff in Hc. destruct Hc as [Hc _]. apply andb_true_iff in Hc. destruct Hc as [_ Hx].
  rewrite xml_char_ok_bad2 in *.
  destruct (b <? 32); [ exact Hx | ]. destruct (b =? 0xEF); [ | reflexivity ].
  destruct (bad2 (r ++ tail)) eqn:Eb; [ | reflexivity ].
  assert (Hr : bad2 r = true).
  { destruct r as [ | b2 [ | b3 r3 ] ].
    - cbn [app] in Eb. destruct tail as [ | x l ]; [ discriminate Eb | ]. rewrite bad2_cons in Eb. lia.
    - cbn [app] in Eb. rewrite bad2_cons in Eb. destruct tail as [ | x l ]; lia.
    - exact Eb. }
  rewrite Hr in Hx. discriminate Hx.
Qed.

(** every byte of [x], followed by the rest of [x] and then [tail], passes [xml_char_ok] *)
Fixpoint scan_ok (x tail : xstr) : bool :=
  match x with
  | [] => true
  | b :: r => xml_char_ok b (r ++ tail) && scan_ok r tail
  end.

Lemma scan_ok_app : forall x y tail, scan_ok (x ++ y) tail = scan_ok x (y ++ tail) && scan_ok y tail.
Proof.
  induction x as [ | a x IH ]; intros y tail; cbn [app scan_ok].
  - reflexivity.
  - rewrite IH, <- app_assoc, andb_assoc. reflexivity.
Qed.

Lemma scan_ok_ref : forall x tail, forallb ref_byteb x = true -> scan_ok x tail = true.
Proof.
  induction x as [ | a x IH ]; intros tail H; cbn [forallb scan_ok] in *.
  - reflexivity.
  - apply andb_true_iff in H. destruct H as [Ha H]. rewrite (IH _ H), andb_true_r.
    apply ref_byteb_spec in Ha. apply ref_byte_facts in Ha.
    rewrite xml_char_ok_bad2.
    destruct (a <? 32) eqn:E1; [ lia | ]. destruct (a =? 0xEF) eqn:E2; [ lia | reflexivity ].
Qed.

Lemma scan_ok_esc : forall must st t i tail, chars_ok t = true -> hd_lt128 tail ->
  scan_ok (esc_bytes must st i t) tail = true.
Proof.
  intros must st t. induction t as [ | b r IH ]; intros i tail Hc Ht.
  - reflexivity.
  - rewrite chars_ok_cons in Hc.
    apply andb_true_iff in Hc. destruct Hc as [Hc Hr]. apply andb_true_iff in Hc. destruct Hc as [_ Hx].
    cbn [esc_bytes]. rewrite scan_ok_app. rewrite (IH _ _ Hr Ht), andb_true_r.
    destruct (render_byte_shape (st i b) (must b) b) as [E | (Hlt & body & E & Hf & _)]; rewrite E.
    + cbn [scan_ok app]. rewrite andb_true_r. rewrite xml_char_ok_bad2 in *.
      destruct (b <? 32); [ exact Hx | ]. destruct (b =? 0xEF); [ | reflexivity ].
      destruct (bad2 (esc_bytes must st (S i) r ++ tail)) eqn:Eb; [ | reflexivity ].
      apply bad2_esc in Eb; [ | exact Ht ]. rewrite Eb in Hx. discriminate Hx.
    + apply scan_ok_ref. cbn [forallb]. rewrite Hf. reflexivity.
Qed.

(** * Scanning *)

Lemma scan_text_gen : forall x rest, ~ In 60 x -> scan_ok x (60 :: rest) = true ->
  scan_text (x ++ 60 :: rest) = Some (x, 60 :: rest).
Proof.
  induction x as [ | b r IH ]; intros rest Hn Hs.
  - cbn [app scan_text]. rewrite N.eqb_refl. reflexivity.
  - cbn [app scan_text]. cbn [scan_ok] in Hs.
    apply andb_true_iff in Hs. destruct Hs as [Hx Hs].
    destruct (b =? 60) eqn:E.
    { exfalso. apply Hn. left. lia. }
    rewrite Hx. rewrite IH; [ reflexivity | intro; apply Hn; right; assumption | exact Hs ].
Qed.

Lemma scan_attr_gen : forall q x rest, ~ In q x -> ~ In 60 x -> scan_ok x (q :: rest) = true ->
  scan_attr_value q (x ++ q :: rest) = Some (x, rest).
Proof.
  intros q. induction x as [ | b r IH ]; intros rest Hq Hn Hs.
  - cbn [app scan_attr_value]. rewrite N.eqb_refl. reflexivity.
  - cbn [app scan_attr_value]. cbn [scan_ok] in Hs.
    apply andb_true_iff in Hs. destruct Hs as [Hx Hs].
    destruct (b =? q) eqn:E1.
    { exfalso. apply Hq. left. lia. }
    destruct (b =? 60) eqn:E2.
    { exfalso. apply Hn. left. lia. }
    rewrite Hx. rewrite IH; [ reflexivity | intro; apply Hq; right; assumption
                             | intro; apply Hn; right; assumption | exact Hs ].
Qed.

Lemma scan_text_render : forall t st i rest, chars_ok t = true ->
  scan_text (esc_bytes text_must st i t ++ 60 :: rest) = Some (esc_bytes text_must st i t, 60 :: rest).
Proof.
  intros t st i rest Hc. apply scan_text_gen.
  - apply esc_text_no_lt.
  - apply scan_ok_esc; [ exact Hc | cbn [hd_lt128]; lia ].
Qed.

Lemma scan_attr_value_render : forall q v st i rest, q = 34 \/ q = 39 -> chars_ok v = true ->
  scan_attr_value q (esc_bytes (attr_must q) st i v ++ q :: rest) = Some (esc_bytes (attr_must q) st i v, rest).
Proof.
  intros q v st i rest Hq Hc. apply scan_attr_gen.
  - apply esc_attr_no_quote. exact Hq.
  - apply esc_attr_no_lt.
  - apply scan_ok_esc; [ exact Hc | cbn [hd_lt128]; lia ].
Qed.

(** * Decoding *)

Lemma chars_ok_valid : forall t, chars_ok t = true -> forallb valid_b t = true.
Proof.
  induction t as [ | b r IH ]; intro Hc.
  - reflexivity.
  - rewrite chars_ok_cons in Hc.
    apply andb_true_iff in Hc. destruct Hc as [Hc Hr]. apply andb_true_iff in Hc. destruct Hc as [_ Hx].
    cbn [forallb]. rewrite (IH Hr), andb_true_r.
    unfold xml_char_ok in Hx. unfold valid_b. destruct (b <? 32); [ exact Hx | reflexivity ].
Qed.

Lemma text_loop_skip : forall x s rbuf a, text_loop (x ++ s) (length x) rbuf a = text_loop s O rbuf a.
Proof.
  induction x as [ | c x IH ]; intros s rbuf a; cbn [app length text_loop].
  - reflexivity.
  - apply IH.
Qed.

Lemma attr_loop_skip : forall x s rbuf, attr_loop (x ++ s) (length x) rbuf = attr_loop s O rbuf.
Proof.
  induction x as [ | c x IH ]; intros s rbuf; cbn [app length attr_loop].
  - reflexivity.
  - apply IH.
Qed.

Lemma push_from_text_plain : forall rbuf b e, hd 0 rbuf <> 13 -> b <> 13 -> push_from_text rbuf b e = b :: rbuf.
Proof.
  intros rbuf b e Hh Hb. unfold push_from_text.
  assert (E : (b =? 13) = false) by lia. rewrite E, andb_false_r.
  destruct rbuf as [ | l rb ]; [ reflexivity | ].
  cbn [hd] in Hh. assert (E' : (l =? 13) = false) by lia. rewrite E'. reflexivity.
Qed.

Lemma push_from_attr_plain : forall rbuf b nx, b <> 13 -> b <> 10 -> b <> 9 -> push_from_attr rbuf b nx = b :: rbuf.
Proof.
  intros rbuf b nx H13 H10 H9. unfold push_from_attr.
  assert (E13 : (b =? 13) = false) by lia. assert (E10 : (b =? 10) = false) by lia.
  assert (E9 : (b =? 9) = false) by lia. rewrite E13, E10, E9. reflexivity.
Qed.

Lemma text_loop_esc : forall st t i rbuf a,
  forallb valid_b t = true -> ~ In 13 t -> hd 0 rbuf <> 13 ->
  text_loop (esc_bytes text_must st i t) O rbuf a = Some (rev rbuf ++ t).
Proof.
  intros st t. induction t as [ | b r IH ]; intros i rbuf a Hv Hn Hh.
  - cbn [esc_bytes text_loop]. rewrite app_nil_r. unfold lrev. rewrite <- rev_alt. reflexivity.
  - cbn [forallb] in Hv. apply andb_true_iff in Hv. destruct Hv as [Hb Hv].
    assert (Hb13 : b <> 13) by (intro; apply Hn; left; congruence).
    assert (Hn' : ~ In 13 r) by (intro; apply Hn; right; assumption).
    assert (Hres : rev (b :: rbuf) ++ r = rev rbuf ++ b :: r)
      by (cbn [rev]; rewrite <- app_assoc; reflexivity).
    cbn [esc_bytes].
    destruct (render_byte_shape (st i b) (text_must b) b) as [E | (Hlt & body & E & _ & Hp)]; rewrite E.
    + assert (H38 : (b =? 38) = false).
      { destruct (text_must b) eqn:Em.
        - pose proof (render_byte_raw_must' _ _ _ E eq_refl). lia.
        - unfold text_must in Em. lia. }
      cbn [app text_loop]. rewrite H38.
      destruct a.
      * rewrite IH; [ rewrite Hres; reflexivity | exact Hv | exact Hn' | cbn [hd]; exact Hb13 ].
      * rewrite push_from_text_plain by assumption.
        rewrite IH; [ rewrite Hres; reflexivity | exact Hv | exact Hn' | cbn [hd]; exact Hb13 ].
    + cbn [app text_loop]. rewrite N.eqb_refl. rewrite (Hp Hb). cbn [rev_append].
      rewrite text_loop_skip.
      rewrite IH; [ rewrite Hres; reflexivity | exact Hv | exact Hn' | cbn [hd]; exact Hb13 ].
Qed.

Lemma process_text_render : forall t st i, text_ok t = true -> process_text (esc_bytes text_must st i t) = Some t.
Proof.
  intros t st i H. unfold text_ok in H. apply andb_true_iff in H. destruct H as [Hc H13].
  unfold process_text. rewrite text_loop_esc.
  - reflexivity.
  - apply chars_ok_valid. exact Hc.
  - intro Hin. apply negb_true_iff in H13.
    assert (Hex : existsb (N.eqb 13) t = true).
    { apply existsb_exists. exists 13. split; [ exact Hin | apply N.eqb_refl ]. }
    congruence.
  - cbn [hd]. lia.
Qed.

Lemma attr_loop_esc : forall q st v i rbuf,
  forallb valid_b v = true ->
  attr_loop (esc_bytes (attr_must q) st i v) O rbuf = Some (rev rbuf ++ v).
Proof.
  intros q st v. induction v as [ | b r IH ]; intros i rbuf Hv.
  - cbn [esc_bytes attr_loop]. rewrite app_nil_r. unfold lrev. rewrite <- rev_alt. reflexivity.
  - cbn [forallb] in Hv. apply andb_true_iff in Hv. destruct Hv as [Hb Hv].
    assert (Hres : rev (b :: rbuf) ++ r = rev rbuf ++ b :: r)
      by (cbn [rev]; rewrite <- app_assoc; reflexivity).
    cbn [esc_bytes].
    destruct (render_byte_shape (st i b) (attr_must q b) b) as [E | (Hlt & body & E & _ & Hp)]; rewrite E.
    + assert (H : b <> 38 /\ b <> 13 /\ b <> 10 /\ b <> 9).
      { destruct (attr_must q b) eqn:Em.
        - pose proof (render_byte_raw_must' _ _ _ E eq_refl). lia.
        - unfold attr_must in Em. lia. }
      destruct H as (H38 & H13 & H10 & H9).
      assert (E38 : (b =? 38) = false) by lia.
      cbn [app attr_loop]. rewrite E38.
      rewrite push_from_attr_plain by assumption.
      rewrite IH; [ rewrite Hres; reflexivity | exact Hv ].
    + cbn [app attr_loop]. rewrite N.eqb_refl. rewrite (Hp Hb). cbn [rev_append].
      rewrite attr_loop_skip.
      rewrite IH; [ rewrite Hres; reflexivity | exact Hv ].
Qed.

Lemma normalize_attr_render : forall q v st i, q = 34 \/ q = 39 -> chars_ok v = true ->
  normalize_attr (esc_bytes (attr_must q) st i v) = Some v.
Proof.
  intros q v st i _ Hc. unfold normalize_attr. rewrite attr_loop_esc.
  - reflexivity.
  - apply chars_ok_valid. exact Hc.
Qed.
