(** The "halved" path of [Range::normalize]: when [max - min] overflows
    binary64 the code works with [x * 0.5].  Real-number facts: the halved
    limits stay distinct, their difference does not overflow, halving is
    monotone. *)
From Coq Require Import ZArith Reals Lra Lia.
From Flocq Require Import Core Binary Bits.
From E57 Require Import Base.Prelude Base.Floats Proofs.FltLemmas Proofs.NormalizeCore.
Local Open Scope R_scope.

Definition u970 : R := bpow radix2 970.
Lemma u970_pos : 0 < u970.
Proof. apply bpow_gt_0. Qed.
Lemma bpow_971 : bpow radix2 971 = 2 * u970.
Proof. change 971%Z with (1 + 970)%Z. rewrite bpow_plus. reflexivity. Qed.
Lemma bpow_1022 : bpow radix2 1022 = 4503599627370496 * u970.
Proof.
  change 1022%Z with (52 + 970)%Z. rewrite bpow_plus. simpl (bpow radix2 52).
  replace (Z.pow_pos 2 52) with 4503599627370496%Z by reflexivity. reflexivity.
Qed.
Lemma bpow_1023 : bpow radix2 1023 = 9007199254740992 * u970.
Proof.
  change 1023%Z with (53 + 970)%Z. rewrite bpow_plus. simpl (bpow radix2 53).
  replace (Z.pow_pos 2 53) with 9007199254740992%Z by reflexivity. reflexivity.
Qed.
Lemma bpow_1024 : bpow radix2 1024 = 18014398509481984 * u970.
Proof.
  change 1024%Z with (54 + 970)%Z. rewrite bpow_plus. simpl (bpow radix2 54).
  replace (Z.pow_pos 2 54) with 18014398509481984%Z by reflexivity. reflexivity.
Qed.

(** f64::MAX and half of it are binary64 numbers *)
Lemma fmt64_max : fmt64 (18014398509481982 * u970).
Proof.
  apply generic_format_FLT. exists (Float radix2 9007199254740991 971).
  - unfold F2R. cbn [Fnum Fexp]. rewrite bpow_971. lra.
  - simpl. lia.
  - simpl. lia.
Qed.
Lemma fmt64_halfmax : fmt64 (9007199254740991 * u970).
Proof.
  apply generic_format_FLT. exists (Float radix2 9007199254740991 970).
  - unfold F2R. cbn [Fnum Fexp]. reflexivity.
  - simpl. lia.
  - simpl. lia.
Qed.

Lemma B2R64_abs_le_max : forall x : binary64, Rabs (B2R64 x) <= 18014398509481982 * u970.
Proof.
  intros x. pose proof (abs_B2R_le_emax_minus_prec 53 1024 Hprec64 x) as H.
  change (1024 - 53)%Z with 971%Z in H. rewrite bpow_1024, bpow_971 in H. lra.
Qed.

(** Rounding error of a number below 2^1023 *)
Lemma R64_err_big : forall x, Rabs x <= bpow radix2 1023 -> Rabs (R64 x - x) <= u970.
Proof.
  intros x Hx. unfold R64. eapply Rle_trans. apply error_le_half_ulp; auto with typeclass_instances.
  assert (Hu : ulp radix2 fexp64 x <= bpow radix2 971).
  { eapply Rle_trans. apply ulp_le; auto with typeclass_instances.
    rewrite (Rabs_pos_eq (bpow radix2 1023)) by apply bpow_ge_0. exact Hx.
    rewrite ulp_bpow. apply bpow_le. unfold FLT_exp. lia. }
  rewrite bpow_971 in Hu. lra.
Qed.

(** Halving never overflows *)
Lemma R64_half_bound : forall x, Rabs x <= 18014398509481982 * u970 ->
  Rabs (R64 (x * / 2)) <= 9007199254740991 * u970.
Proof.
  intros x Hx. apply R64_abs_le. apply fmt64_halfmax.
  unfold Rdiv. rewrite Rabs_mult. rewrite (Rabs_pos_eq (/ 2)) by lra. lra.
Qed.

Lemma R64_half_mono : forall x y, x <= y -> R64 (x * / 2) <= R64 (y * / 2).
Proof. intros x y H. apply R64_le. lra. Qed.

Section Halved.
Variables L H : R.
Hypothesis BL : Rabs L <= 18014398509481982 * u970.
Hypothesis BH : Rabs H <= 18014398509481982 * u970.
Hypothesis Hovf : ~ R64 (H - L) < bpow radix2 1024.

Lemma halved_wide : bpow radix2 1023 < H - L.
Proof.
  destruct (Rlt_le_dec (bpow radix2 1023) (H - L)) as [A|A]; [exact A|]. exfalso. apply Hovf.
  apply Rle_lt_trans with (bpow radix2 1023).
  - rewrite <- (R64_id (bpow radix2 1023)) by (apply fmt64_bpow; lia). apply R64_le. exact A.
  - apply bpow_lt. lia.
Qed.

Lemma halved_distinct : R64 (L * / 2) < R64 (H * / 2).
Proof.
  pose proof halved_wide as W. pose proof u970_pos as U. rewrite bpow_1023 in W.
  assert (EL : Rabs (R64 (L * / 2) - L * / 2) <= u970).
  { apply R64_err_big. rewrite bpow_1023, Rabs_mult, (Rabs_pos_eq (/ 2)) by lra. lra. }
  assert (EH : Rabs (R64 (H * / 2) - H * / 2) <= u970).
  { apply R64_err_big. rewrite bpow_1023, Rabs_mult, (Rabs_pos_eq (/ 2)) by lra. lra. }
  apply Rabs_le_inv in EL. apply Rabs_le_inv in EH. lra.
Qed.

Lemma halved_width_finite : Rabs (R64 (R64 (H * / 2) - R64 (L * / 2))) < bpow radix2 1024.
Proof.
  pose proof (R64_half_bound L BL) as A. pose proof (R64_half_bound H BH) as B.
  pose proof u970_pos as U.
  apply Rabs_le_inv in A. apply Rabs_le_inv in B.
  apply Rle_lt_trans with (18014398509481982 * u970).
  - apply R64_abs_le. apply fmt64_max. apply Rabs_le. lra.
  - rewrite bpow_1024. lra.
Qed.

End Halved.
