(** Writer API, part 4: the state invariant of the call-by-call state machine
    and the step theorem: from a state that satisfies the invariant every call
    (with arguments that are values of their Rust types, [call_wf]) runs to
    completion on the logical stream without a panic and without an uncaught
    error, re-establishes the invariant, never shrinks the data, and - if it
    returns [Err] - leaves the state and the stream as they were.  (Before the
    repair 8f31314 this needed a side condition for [add_point]: a prototype
    with a duplicated index attribute of non-integer type made the bounds loop
    fail after it had updated the Cartesian bounds.  Duplicate names are now
    rejected, [accepted_idx_typed].) *)
From Flocq Require Import Binary Bits.
From E57 Require Import Base.Prelude Base.Floats Spec.PageSpec Model.PagedWriter Model.Prog Model.BsWrite
  Model.Record Model.PcWriter Model.FileBin Spec.BitSpec Spec.FormatSpec Model.Meta Model.MetaFile Model.WriterApi.
From E57 Require Import Proofs.PagedWriterLemmas Proofs.ProgTransfer Proofs.PcWriterLemmas Proofs.PcWriterStreams
  Proofs.WapiProg Proofs.WapiPc Proofs.WapiRules.
From Coq Require Import ZifyN ZifyNat ZifyBool.
Ltac Zify.zify_post_hook ::= Z.div_mod_to_equations.
Open Scope N_scope.

(** * Arguments that are values of their Rust types *)

Definition call_wf (c : wcall) : Prop :=
  match c with
  | AddPointcloud _ proto => proto_i64 proto          (* i64 minima and maxima *)
  | PcAddPoint vs => Forall value_wf vs               (* f32 / f64 bit patterns *)
  | _ => True
  end.

(** * The bounds loop *)

Definition none3 : run_bounds := mkRb None None None.

Definition same_shape (b b' : run_bounds) : Prop :=
  (rb_cart b = None <-> rb_cart b' = None) /\ (rb_sph b = None <-> rb_sph b' = None) /\
  (rb_idx b = None <-> rb_idx b' = None).

Lemma same_shape_refl b : same_shape b b.
Proof. unfold same_shape. tauto. Qed.
Lemma same_shape_trans a b c : same_shape a b -> same_shape b c -> same_shape a c.
Proof. unfold same_shape. tauto. Qed.

Lemma fset_shape a m b : same_shape b (fset a m b).
Proof.
  unfold same_shape, fset. destruct a; cbn [rb_cart rb_sph rb_idx];
    destruct (rb_cart b), (rb_sph b); cbn [option_map]; repeat split; intros; try discriminate; auto.
Qed.
Lemma iset_shape a m b : same_shape b (iset a m b).
Proof.
  unfold same_shape, iset. cbn [rb_cart rb_sph rb_idx].
  destruct (rb_idx b); cbn [option_map]; repeat split; intros; try discriminate; auto.
Qed.

Lemma fget_none_shape a b b' : same_shape b b' -> fget a b <> None -> fget a b' <> None.
Proof.
  intros (H1 & H2 & _). destruct a; cbn [fget];
    destruct (rb_cart b), (rb_cart b'), (rb_sph b), (rb_sph b'); cbn [option_map];
    intros H; try discriminate; try (exfalso; apply H; reflexivity);
    try (destruct H1 as [_ H1]; discriminate (H1 eq_refl));
    try (destruct H2 as [_ H2]; discriminate (H2 eq_refl)).
Qed.
Lemma iget_none_shape a b b' : same_shape b b' -> iget a b <> None -> iget a b' <> None.
Proof.
  intros (_ & _ & H3). destruct a; cbn [iget];
    destruct (rb_idx b), (rb_idx b'); cbn [option_map];
    intros H; try discriminate; try (exfalso; apply H; reflexivity);
    destruct H3 as [_ H3]; discriminate (H3 eq_refl).
Qed.

Lemma cover_shape proto b b' : same_shape b b' -> bounds_cover proto b -> bounds_cover proto b'.
Proof.
  intros Hs Hc p Hin. specialize (Hc p Hin). destruct (axis_of (r_name p)) as [[a|a]|]; [| |exact I].
  - apply (fget_none_shape a b b' Hs Hc).
  - apply (iget_none_shape a b b' Hs Hc).
Qed.

Lemma update_one_shape p v b : same_shape b (fst (update_one p v b)).
Proof.
  unfold update_one. destruct (axis_of (r_name p)) as [[a|a]|]; [| |apply same_shape_refl].
  - destruct (to_f64 v (r_type p)); cbn [fst]; try apply same_shape_refl.
    destruct (fget a b); cbn [fst]; [apply fset_shape|apply same_shape_refl].
  - destruct (to_i64 v (r_type p)); cbn [fst]; try apply same_shape_refl.
    destruct (iget a b); cbn [fst]; [apply iset_shape|apply same_shape_refl].
Qed.

Lemma update_bounds_shape : forall proto vs b, same_shape b (fst (update_bounds proto vs b)).
Proof.
  induction proto as [|p pr IH]; intros vs b; cbn [update_bounds]; [apply same_shape_refl|].
  destruct vs as [|v vr]; [apply same_shape_refl|].
  pose proof (update_one_shape p v b) as H1.
  destruct (update_one p v b) as [b1 r]. cbn [fst] in H1.
  destruct r as [[]|k|]; cbn [fst]; try exact H1.
  apply (same_shape_trans _ _ _ H1 (IH vr b1)).
Qed.

Lemma to_f64_no_panic v t : to_f64 v t <> Panic.
Proof. destruct v; cbn [to_f64]; try discriminate. destruct t; discriminate. Qed.
Lemma to_i64_no_panic v t : to_i64 v t <> Panic.
Proof. destruct v, t; discriminate. Qed.

Lemma update_one_no_panic p v b : snd (update_one p v b) <> Panic.
Proof.
  unfold update_one. destruct (axis_of (r_name p)) as [[a|a]|]; [| |discriminate].
  - pose proof (to_f64_no_panic v (r_type p)). destruct (to_f64 v (r_type p)); cbn [snd]; try discriminate; try contradiction.
    destruct (fget a b); discriminate.
  - pose proof (to_i64_no_panic v (r_type p)). destruct (to_i64 v (r_type p)); cbn [snd]; try discriminate; try contradiction.
    destruct (iget a b); discriminate.
Qed.

Lemma update_bounds_no_panic : forall proto vs b, length vs = length proto ->
  snd (update_bounds proto vs b) <> Panic.
Proof.
  induction proto as [|p pr IH]; intros vs b Hl; cbn [update_bounds]; [discriminate|].
  destruct vs as [|v vr]; [discriminate|]. cbn [length] in Hl.
  pose proof (update_one_no_panic p v b) as H1.
  destruct (update_one p v b) as [b1 r]. cbn [snd] in H1.
  destruct r as [[]|k|]; cbn [snd]; try discriminate; try contradiction.
  apply IH. lia.
Qed.

Lemma values_ok_length : forall proto vs, values_ok proto vs = true -> length vs = length proto.
Proof.
  induction proto as [|t pr IH]; intros [|v vr] H; cbn [values_ok] in H; try discriminate; [reflexivity|].
  apply andb_prop in H as [_ H]. cbn [length]. f_equal. apply IH. exact H.
Qed.

(** after [finalize] every bounds structure is gone: the first record that feeds a bound fails *)
Lemma update_bounds_done : forall proto vs, length vs = length proto ->
  (exists p, In p proto /\ axis_of (r_name p) <> None) ->
  update_bounds proto vs none3 = (none3, Err EInternal).
Proof.
  induction proto as [|p pr IH]; intros vs Hl (q & Hin & Hax); [destruct Hin|].
  destruct vs as [|v vr]; [discriminate|]. cbn [length] in Hl. cbn [update_bounds].
  unfold update_one. destruct (axis_of (r_name p)) as [[a|a]|] eqn:Ea.
  - destruct (to_f64 v (r_type p)) as [x|k|] eqn:Et.
    + replace (fget a none3) with (@None (mm binary64)) by (destruct a; reflexivity). reflexivity.
    + destruct v; cbn [to_f64] in Et; try discriminate. destruct (r_type p); inversion Et; reflexivity.
    + exfalso. apply (to_f64_no_panic _ _ Et).
  - destruct (to_i64 v (r_type p)) as [x|k|] eqn:Et.
    + replace (iget a none3) with (@None (mm Z)) by (destruct a; reflexivity). reflexivity.
    + destruct v, (r_type p); inversion Et; reflexivity.
    + exfalso. apply (to_i64_no_panic _ _ Et).
  - apply IH; [lia|]. destruct Hin as [Hp|Hin]; [subst q; congruence|]. exists q. auto.
Qed.

Lemma coordinates_axis proto :
  contains proto CartesianX = true \/ contains proto SphericalAzimuth = true ->
  exists p, In p proto /\ axis_of (r_name p) <> None.
Proof.
  intros [H|H]; apply contains_has in H as (t & Hin); eexists; (split; [exact Hin|]); cbn; discriminate.
Qed.

(** with all structures in place and matching types the loop succeeds *)
Lemma update_bounds_ok : forall proto vs b,
  values_ok (proto_dtypes proto) vs = true -> bounds_cover proto b -> idx_typed proto ->
  snd (update_bounds proto vs b) = Ok tt.
Proof.
  induction proto as [|p pr IH]; intros vs b Hok Hc Hi; cbn [update_bounds]; [reflexivity|].
  destruct vs as [|v vr]; [discriminate|].
  cbn [proto_dtypes map values_ok] in Hok. apply andb_prop in Hok as [Hv Hr].
  assert (H1 : exists b1, update_one p v b = (b1, Ok tt) /\ same_shape b b1).
  { pose proof (update_one_shape p v b) as Hs. unfold update_one in *.
    pose proof (Hc p (or_introl eq_refl)) as Hcp. pose proof (Hi p (or_introl eq_refl)) as Hip.
    destruct (axis_of (r_name p)) as [[a|a]|].
    - assert (exists x, to_f64 v (r_type p) = Ok x) as (x & Hx).
      { unfold rec_dtype in Hv. destruct (r_type p), v; cbn [dtype_of] in Hv; try discriminate; cbn [to_f64]; eauto. }
      rewrite Hx in *. destruct (fget a b); [|contradiction]. cbn [fst] in Hs. eauto.
    - destruct Hip as (mn & mx & Ht). unfold rec_dtype in Hv. rewrite Ht in *. cbn [dtype_of] in Hv.
      destruct v; try discriminate. cbn [to_i64] in *. destruct (iget a b); [|contradiction]. cbn [fst] in Hs. eauto.
    - eauto. }
  destruct H1 as (b1 & H1 & Hs). rewrite H1.
  apply IH; [exact Hr| |].
  - apply (cover_shape pr b b1 Hs). intros q Hq. apply Hc. right. exact Hq.
  - intros q Hq. apply Hi. right. exact Hq.
Qed.

(** * The invariant *)

(** a finalized point cloud writer refuses [add_point] and [finalize]: nothing is required of it *)
Definition pc_inv (ps : pcstate) (l : lstream) : Prop :=
  w_proto (ps_w ps) = proto_dtypes (ps_proto ps) /\
  (ps_finalized ps = true \/
   (ps_finalized ps = false /\ pcw_live (ps_w ps) l /\ bounds_cover (ps_proto ps) (ps_bounds ps) /\
    idx_typed (ps_proto ps))).

Definition ws_inv (st : wstate) (l : lstream) : Prop :=
  ls_ok l /\ match ws_sub st with SubPc ps => pc_inv ps l | _ => True end.

Lemma ws_inv_init : ws_inv ws_init ls_init.
Proof. split; [apply ls_init_ok|exact I]. Qed.

Lemma pc_inv_mono ps l l' : pc_inv ps l -> ls_le l l' -> pc_inv ps l'.
Proof.
  intros (H1 & [H2|(H2 & H3 & H4 & H5)]) Hle; (split; [exact H1|]).
  - left. exact H2.
  - right. split; [exact H2|]. split; [apply (pcw_live_mono _ l l' H3 Hle)|]. split; [exact H4|exact H5].
Qed.

(** * The sub-steps *)

Lemma run_wlift {A} (r : res A) l : wrun_spec (wlift r) l = (l, r).
Proof. destruct r; reflexivity. Qed.

Lemma seq_res_no_panic a b : a <> Panic -> b <> Panic -> (a >> b) <> Panic.
Proof. destruct a as [[]|k|]; cbn [seq_res]; auto; discriminate. Qed.

Lemma if_err_no_panic (c : bool) : (if c then @Err unit EInvalid else Ok tt) <> Panic.
Proof. destruct c; discriminate. Qed.

Lemma if_ok_no_panic (c : bool) : (if c then Ok tt else @Err unit EInvalid) <> Panic.
Proof. destruct c; discriminate. Qed.

Lemma validate_flag_no_panic proto f c h : validate_flag proto f c h <> Panic.
Proof.
  unfold validate_flag. destruct (get_rec proto f) as [r0|]; [|discriminate].
  destruct (contains proto c); cbn [negb]; [|discriminate].
  destruct (is_integer_range (r_type r0) 0 h); discriminate.
Qed.
Lemma integer_if_present_no_panic proto n : integer_if_present proto n <> Panic.
Proof.
  unfold integer_if_present. destruct (get_rec proto n) as [r0|]; [|discriminate].
  destruct (is_integer_type (r_type r0)); discriminate.
Qed.
Lemma not_integer_if_present_no_panic proto n : not_integer_if_present proto n <> Panic.
Proof.
  unfold not_integer_if_present. destruct (get_rec proto n) as [r0|]; [|discriminate].
  destruct (is_integer_type (r_type r0)); discriminate.
Qed.

Lemma validate_prototype_no_panic proto : validate_prototype proto <> Panic.
Proof.
  unfold validate_prototype, validate_cartesian, validate_spherical, validate_color, validate_return.
  cbv zeta.
  repeat (apply seq_res_no_panic);
    try apply validate_flag_no_panic; try apply integer_if_present_no_panic;
    try apply not_integer_if_present_no_panic; try apply if_err_no_panic; try apply if_ok_no_panic.
  destruct (_ && _); [discriminate|apply validate_flag_no_panic].
Qed.

Lemma validate_name_no_panic s : validate_name s <> Panic.
Proof.
  unfold validate_name. destruct s as [|c r]; [discriminate|].
  destruct (starts_with_xml (c :: r)); [discriminate|]. destruct (forallb name_char (c :: r)); discriminate.
Qed.
Lemma validate_name_start_no_panic s : validate_name_start s <> Panic.
Proof. unfold validate_name_start. destruct s as [|c r]; [discriminate|]. destruct (_ || _); discriminate. Qed.
Lemma validate_url_no_panic s : validate_url s <> Panic.
Proof.
  unfold validate_url. destruct (_ || _); [discriminate|]. destruct s as [|c r]; [discriminate|].
  destruct (xs_eqb (c :: r) URL_E57); discriminate.
Qed.

Lemma ext_validate_prototype_no_panic exts : forall proto, ext_validate_prototype proto exts <> Panic.
Proof.
  induction proto as [|p pr IH]; cbn [ext_validate_prototype]; [discriminate|].
  destruct (r_name p); try exact IH.
  pose proof (validate_name_no_panic namespace). pose proof (validate_name_no_panic name).
  pose proof (validate_name_start_no_panic name).
  destruct (validate_name namespace) as [[]|k|]; try discriminate; try contradiction.
  destruct (validate_name name) as [[]|k|]; try discriminate; try contradiction.
  destruct (validate_name_start name) as [[]|k|]; try discriminate; try contradiction.
  destruct (ext_registered exts namespace); [exact IH|discriminate].
Qed.

Lemma get_max_no_panic proto : get_max_packet_points proto <> Panic.
Proof.
  unfold get_max_packet_points. cbv zeta. destruct (_ =? 0); [discriminate|].
  destruct (_ =? 0); discriminate.
Qed.

Lemma pc_new_step exts guid proto l : ls_ok l -> proto_i64 proto ->
  (exists k, wrun_spec (wtry (pc_new exts guid proto)) l = (l, Ok (Err k))) \/
  (exists l' ps, wrun_spec (wtry (pc_new exts guid proto)) l = (l', Ok (Ok ps)) /\
     pc_inv ps l' /\ ls_ok l' /\ ls_le l l' /\ ps_proto ps = proto /\
     ext_validate_prototype proto exts = Ok tt /\ validate_prototype proto = Ok tt /\
     (exists mpp, get_max_packet_points (proto_dtypes proto) = Ok mpp) /\
     ps_bounds ps = bounds_new proto /\
     (exists cl, default_color_limits proto = Ok cl /\
                 ps_desc ps = desc_new guid proto (default_intensity_limits proto) cl) /\
     w_point_count (ps_w ps) = 0 /\ ps_finalized ps = false).
Proof.
  intros Hok Hi64. rewrite wrun_spec_wtry. unfold pc_new.
  rewrite run_bind, run_wlift. cbn [fst snd].
  destruct (ext_validate_prototype proto exts) as [[]|k|] eqn:E1; cbn [fst snd];
    [|left; eauto|exfalso; apply (ext_validate_prototype_no_panic exts proto E1)].
  rewrite run_bind, run_wlift. cbn [fst snd].
  destruct (validate_prototype proto) as [[]|k|] eqn:E2; cbn [fst snd]; [|left; eauto|].
  2:{ exfalso. apply (validate_prototype_no_panic proto E2). }
  rewrite run_bind.
  destruct (get_max_packet_points (proto_dtypes proto)) as [mpp|k|] eqn:E3.
  - pose proof (accepted_type_ok proto E2 Hi64) as Hty.
    destruct (pcw_new_live (proto_dtypes proto) mpp l E3 Hty Hok) as (l' & w & Hrun & Hlive & Hok' & Hle & Hp & Hb & Hc).
    rewrite Hrun. cbn [fst snd].
    rewrite run_bind, run_wlift. cbn [fst snd].
    destruct (accepted_color_limits proto E2) as (cl & Hcl). rewrite Hcl. cbn [wret wrun_spec fst snd].
    right. eexists l', _. split; [reflexivity|].
    split.
    { split; [exact Hp|]. right. split; [reflexivity|]. split; [exact Hlive|].
      split; [apply bounds_new_cover; exact E2|apply accepted_idx_typed; exact E2]. }
    split; [exact Hok'|]. split; [exact Hle|]. split; [reflexivity|]. split; [reflexivity|].
    split; [reflexivity|]. split; [eauto|]. split; [reflexivity|]. split; [eauto|]. split; [exact Hc|reflexivity].
  - unfold pcw_new. rewrite E3. cbn [wlift wbind wrun_spec fst snd]. left. eauto.
  - exfalso. apply (get_max_no_panic _ E3).
Qed.

(** [add_point], definitionally: what an accepted call did *)
Lemma pc_add_point_ok_inv vs ps l l' ps' :
  wrun_spec (pc_add_point vs ps) l = (l', Ok (ps', CrOk)) ->
  ps_finalized ps = false /\ values_ok (w_proto (ps_w ps)) vs = true /\
  exists b1 w', update_bounds (ps_proto ps) vs (ps_bounds ps) = (b1, Ok tt) /\
    ps' = mkPcs w' (ps_proto ps) b1 (ps_desc ps) false (ps_custom_il ps) (ps_custom_cl ps) /\
    wrun_spec (pcw_add_point vs (ps_w ps)) l = (l', Ok w').
Proof.
  unfold pc_add_point. destruct (ps_finalized ps) eqn:Ef.
  { cbn [wret wrun_spec]. intros H. inversion H. }
  destruct (values_ok (w_proto (ps_w ps)) vs) eqn:Ev; cbn [negb].
  2:{ cbn [wret wrun_spec]. intros H. inversion H. }
  destruct (update_bounds (ps_proto ps) vs (ps_bounds ps)) as [b1 [[]|k|]] eqn:Eb.
  - rewrite run_bind, wrun_spec_wtry. cbn [fst snd].
    destruct (wrun_spec (pcw_add_point vs (ps_w ps)) l) as [l1 [w'|k|]] eqn:Er; cbn [fst snd wret wrun_spec];
      intros H; inversion H; subst.
    split; [reflexivity|]. split; [reflexivity|]. exists b1, w'. auto.
  - cbn [wret wrun_spec]. intros H. inversion H.
  - cbn [wrun_spec]. intros H. inversion H.
Qed.

Lemma pc_add_point_step vs ps l : pc_inv ps l -> ls_ok l -> Forall value_wf vs ->
  exists l' ps' r, wrun_spec (pc_add_point vs ps) l = (l', Ok (ps', r)) /\
    pc_inv ps' l' /\ ls_ok l' /\ ls_le l l' /\
    (forall k, r = CrErr k -> ps' = ps /\ l' = l).
Proof.
  intros (Hp & Hmode) Hok Hwf. unfold pc_add_point.
  assert (Same : exists l' ps' r, (l, Ok (ps, CrErr EInvalid)) = (l', @Ok (pcstate * call_result) (ps', r)) /\
            pc_inv ps' l' /\ ls_ok l' /\ ls_le l l' /\ (forall k, r = CrErr k -> ps' = ps /\ l' = l)).
  { exists l, ps, (CrErr EInvalid). split; [reflexivity|]. split; [split; [exact Hp|exact Hmode]|].
    split; [exact Hok|]. split; [apply ls_le_refl|]. auto. }
  destruct Hmode as [Hfin|(Hfin & Hlive & Hcov & Hit)]; rewrite Hfin; [cbn [wret wrun_spec]; exact Same|].
  destruct (values_ok (w_proto (ps_w ps)) vs) eqn:Ev; cbn [negb]; [|cbn [wret wrun_spec]; exact Same].
  pose proof (update_bounds_shape (ps_proto ps) vs (ps_bounds ps)) as Hsh.
  assert (Hb : snd (update_bounds (ps_proto ps) vs (ps_bounds ps)) = Ok tt).
  { apply update_bounds_ok; [rewrite <- Hp; exact Ev|exact Hcov|exact Hit]. }
  destruct (update_bounds (ps_proto ps) vs (ps_bounds ps)) as [b1 r] eqn:Eb. cbn [fst snd] in *. subst r.
  rewrite run_bind, wrun_spec_wtry.
  destruct (add_point_live vs (ps_w ps) l Hlive Hok Ev Hwf) as (l' & w' & Hrun & Hlive' & Hok' & Hle & Hp' & _).
  rewrite Hrun. cbn [fst snd wret wrun_spec].
  exists l'. eexists. exists CrOk. split; [reflexivity|].
  split.
  { split; [cbn [ps_w ps_proto]; congruence|]. right. split; [reflexivity|]. split; [exact Hlive'|].
    cbn [ps_proto ps_bounds]. split; [apply (cover_shape _ _ _ Hsh Hcov)|exact Hit]. }
  split; [exact Hok'|]. split; [exact Hle|]. intros k Hk. discriminate.
Qed.

Lemma pc_finalize_step ps l : pc_inv ps l -> ls_ok l ->
  ((ps_finalized ps = true \/ custom_limits_ok (ps_custom_il ps) (ps_custom_cl ps) (ps_desc ps) = false) /\
   wrun_spec (pc_finalize ps) l = (l, Ok (ps, None, CrErr EInvalid))) \/
  (ps_finalized ps = false /\ custom_limits_ok (ps_custom_il ps) (ps_custom_cl ps) (ps_desc ps) = true /\
   exists l' ps' d, wrun_spec (pc_finalize ps) l = (l', Ok (ps', Some d, CrOk)) /\
    pc_inv ps' l' /\ ls_ok l' /\ ls_le l l' /\
    d = desc_finish (ps_desc ps) (ps_bounds ps) (w_section_offset (ps_w ps)) (w_point_count (ps_w ps))).
Proof.
  intros (Hp & Hmode) Hok. unfold pc_finalize.
  destruct Hmode as [Hfin|(Hfin & Hlive & Hcov & Hit)]; rewrite Hfin.
  - left. split; [left|]; reflexivity.
  - destruct (custom_limits_ok (ps_custom_il ps) (ps_custom_cl ps) (ps_desc ps)) eqn:Ec; cbn [negb].
    2:{ left. split; [right|]; reflexivity. }
    right. split; [reflexivity|]. split; [reflexivity|]. rewrite run_bind, wrun_spec_wtry.
    destruct (finalize_live (ps_w ps) l Hlive Hok) as (l' & w2 & Hrun & Hdone & Hok' & Hle & Hp2 & _).
    rewrite Hrun. cbn [fst snd wret wrun_spec].
    exists l'. eexists. eexists. split; [reflexivity|].
    split; [|split; [exact Hok'|split; [exact Hle|reflexivity]]].
    split; [cbn [ps_w ps_proto]; congruence|]. left. reflexivity.
Qed.

Lemma im_blobs_run data mask l : ls_ok l ->
  exists l' b m, wrun_spec (im_blobs data mask) l = (l', Ok (b, m)) /\ ls_ok l' /\ ls_le l l'.
Proof.
  intros Hok. unfold im_blobs.
  destruct (blob_write_run data l Hok) as (l1 & H1 & Hok1 & Hle1).
  rewrite run_bind, H1. cbn [fst snd].
  destruct mask as [md|].
  - destruct (blob_write_run md l1 Hok1) as (l2 & H2 & Hok2 & Hle2).
    rewrite run_bind, run_bind, H2. cbn [fst snd wret wrun_spec].
    eexists l2, _, _. split; [reflexivity|]. split; [exact Hok2|apply (ls_le_trans _ _ _ Hle1 Hle2)].
  - rewrite run_bind. cbn [wret wrun_spec fst snd].
    eexists l1, _, _. split; [reflexivity|]. split; [exact Hok1|exact Hle1].
Qed.

(** * The step theorem *)

Section Step.
Variable gen_xml : file_meta -> res (list N).
Variable lib_version : xstring.
Hypothesis gen_xml_total : forall m, gen_xml m <> Panic.

Lemma im_add_projection_step st im fin data mask mk l :
  ws_sub st = SubIm im fin -> ws_inv st l ->
  exists l' st' r, wrun_spec (im_add_projection st im fin data mask mk) l = (l', Ok (st', r)) /\
    ws_inv st' l' /\ ls_le l l' /\ (forall k, r = CrErr k -> st' = st /\ l' = l) /\
    (r = CrOk -> fin = false /\ has_projection im = false).
Proof.
  intros Hsub [Hok Hs]. unfold im_add_projection.
  assert (Same : exists l' st' r, (l, Ok (st, CrErr EInvalid)) = (l', @Ok (wstate * call_result) (st', r)) /\
            ws_inv st' l' /\ ls_le l l' /\ (forall k, r = CrErr k -> st' = st /\ l' = l) /\
            (r = CrOk -> fin = false /\ has_projection im = false)).
  { exists l, st, (CrErr EInvalid). split; [reflexivity|].
    split; [split; [exact Hok|exact Hs]|]. split; [apply ls_le_refl|]. split; [auto|discriminate]. }
  destruct fin; [cbn [wret wrun_spec]; exact Same|].
  destruct (has_projection im) eqn:Ep; [cbn [wret wrun_spec]; exact Same|].
  rewrite run_bind, wrun_spec_wtry.
  destruct (im_blobs_run data mask l Hok) as (l' & b & m & Hrun & Hok' & Hle).
  rewrite Hrun. cbn [fst snd wret wrun_spec].
  eexists l', _, CrOk. split; [reflexivity|].
  split; [split; [exact Hok'|cbn [set_sub ws_sub]; exact I]|]. split; [exact Hle|].
  split; [discriminate|auto].
Qed.

Theorem wapi_step_ok : forall st l c, ws_inv st l -> call_wf c ->
  exists l' st' r, wrun_spec (wapi_step gen_xml lib_version st c) l = (l', Ok (st', r)) /\
    ws_inv st' l' /\ ls_le l l' /\
    (forall k, r = CrErr k -> st' = st /\ l' = l).
Proof.
  intros st l c Hinv Hwf. pose proof Hinv as [Hok Hs].
  assert (Same : forall r,
            exists l' st' r', (l, Ok (st, r)) = (l', @Ok (wstate * call_result) (st', r')) /\
              ws_inv st' l' /\ ls_le l l' /\ (forall k, r' = CrErr k -> st' = st /\ l' = l)).
  { intros r. exists l, st, r. split; [reflexivity|]. split; [exact Hinv|]. split; [apply ls_le_refl|]. auto. }
  unfold wapi_step. destruct (ws_open st) eqn:Eo; cbn [negb].
  2:{ destruct c; try (cbn [wret wrun_spec]; apply Same).
      rewrite run_bind, wrun_spec_wtry.
      destruct (writer_init_run l Hok) as (H1 & H2 & H3).
      rewrite H1. cbn [fst snd wret wrun_spec].
      eexists _, _, CrOk. split; [reflexivity|]. split; [split; [exact H2|exact I]|]. split; [exact H3|discriminate]. }
  destruct (ws_sub st) as [|ps|im fin] eqn:Esub.
  - (* top level *)
    destruct c; try (cbn [wret wrun_spec]; apply Same).
    + destruct (ws_root st). cbn [wret wrun_spec]. eexists l, _, CrOk. split; [reflexivity|].
      split; [split; [exact Hok|exact I]|]. split; [apply ls_le_refl|discriminate].
    + destruct (ws_root st). cbn [wret wrun_spec]. eexists l, _, CrOk. split; [reflexivity|].
      split; [split; [exact Hok|exact I]|]. split; [apply ls_le_refl|discriminate].
    + (* RegisterExtension *)
      destruct (validate_name ns >> validate_name_start ns >> validate_url url) as [[]|k|] eqn:Ev.
      * destruct (url_registered (ws_exts st) url); [cbn [wret wrun_spec]; apply Same|].
        destruct (ext_registered (ws_exts st) ns); [cbn [wret wrun_spec]; apply Same|].
        cbn [wret wrun_spec]. eexists l, _, CrOk. split; [reflexivity|].
        split; [split; [exact Hok|exact I]|]. split; [apply ls_le_refl|discriminate].
      * cbn [wret wrun_spec]. apply Same.
      * exfalso. revert Ev. apply seq_res_no_panic; [apply validate_name_no_panic|].
        apply seq_res_no_panic; [apply validate_name_start_no_panic|apply validate_url_no_panic].
    + (* AddBlob *)
      destruct (ws_finalized st); [cbn [wret wrun_spec]; apply Same|].
      rewrite run_bind, wrun_spec_wtry.
      destruct (blob_write_run data l Hok) as (l' & Hrun & Hok' & Hle).
      rewrite Hrun. cbn [fst snd wret wrun_spec].
      eexists l', st, _. split; [reflexivity|]. split; [split; [exact Hok'|rewrite Esub; exact I]|].
      split; [exact Hle|discriminate].
    + (* AddPointcloud *)
      destruct (ws_finalized st); [cbn [wret wrun_spec]; apply Same|].
      rewrite run_bind.
      destruct (pc_new_step (ws_exts st) guid proto l Hok Hwf) as [(k & Hrun)|(l' & ps & Hrun & Hpi & Hok' & Hle & _)].
      * rewrite Hrun. cbn [fst snd wret wrun_spec]. apply Same.
      * rewrite Hrun. cbn [fst snd wret wrun_spec]. eexists l', _, CrOk. split; [reflexivity|].
        split; [split; [exact Hok'|cbn [set_sub ws_sub]; exact Hpi]|]. split; [exact Hle|discriminate].
    + (* AddImage *)
      destruct (ws_finalized st); [cbn [wret wrun_spec]; apply Same|].
      cbn [wret wrun_spec]. eexists l, _, CrOk. split; [reflexivity|].
      split; [split; [exact Hok|exact I]|]. split; [apply ls_le_refl|discriminate].
    + (* Finalize *)
      destruct (ws_finalized st); [cbn [wret wrun_spec]; apply Same|].
      pose proof (gen_xml_total (ws_meta st)) as Hg.
      destruct (gen_xml (ws_meta st)) as [xml|k|]; [| |contradiction].
      * rewrite run_bind, wrun_spec_wtry.
        destruct (writer_finalize_run xml l Hok) as (l' & Hrun & Hok' & Hle).
        rewrite Hrun. cbn [fst snd wret wrun_spec].
        eexists l', _, CrOk. split; [reflexivity|]. split; [split; [exact Hok'|exact I]|].
        split; [exact Hle|discriminate].
      * cbn [wret wrun_spec]. apply Same.
  - (* point cloud writer *)
    destruct c; try (cbn [wret wrun_spec]; apply Same).
    + (* PcSet *)
      cbn [wret wrun_spec]. eexists l, _, CrOk. split; [reflexivity|].
      split; [split; [exact Hok|cbn [set_sub ws_sub]; exact Hs]|]. split; [apply ls_le_refl|discriminate].
    + (* PcAddPoint *)
      destruct (pc_add_point_step values ps l Hs Hok Hwf) as (l' & ps' & r & Hrun & Hpi & Hok' & Hle & Herr).
      rewrite run_bind, Hrun. cbn [fst snd wret wrun_spec].
      eexists l', _, r. split; [reflexivity|]. split; [split; [exact Hok'|cbn [set_sub ws_sub]; exact Hpi]|].
      split; [exact Hle|]. intros k Hk.
      destruct (Herr k Hk) as [-> ->]. split; [|reflexivity].
      destruct st; cbn in *. subst. reflexivity.
    + (* PcFinalize *)
      destruct (pc_finalize_step ps l Hs Hok) as [(Hfin & Hrun)|(Hfin & _ & l' & ps' & d & Hrun & Hpi & Hok' & Hle & _)].
      * rewrite run_bind, Hrun. cbn [fst snd wret wrun_spec].
        eexists l, _, (CrErr EInvalid). split; [reflexivity|].
        split; [split; [exact Hok|cbn [ws_sub]; exact Hs]|]. split; [apply ls_le_refl|].
        intros k _. split; [|reflexivity]. destruct st; cbn in *. subst. reflexivity.
      * rewrite run_bind, Hrun. cbn [fst snd wret wrun_spec].
        eexists l', _, CrOk. split; [reflexivity|]. split; [split; [exact Hok'|cbn [ws_sub]; exact Hpi]|].
        split; [exact Hle|discriminate].
    + (* PcDrop *)
      cbn [wret wrun_spec]. eexists l, _, CrOk. split; [reflexivity|].
      split; [split; [exact Hok|exact I]|]. split; [apply ls_le_refl|discriminate].
  - (* image writer *)
    destruct c; try (cbn [wret wrun_spec]; apply Same).
    + cbn [wret wrun_spec]. eexists l, _, CrOk. split; [reflexivity|].
      split; [split; [exact Hok|exact I]|]. split; [apply ls_le_refl|discriminate].
    + (* visual reference *)
      destruct fin; [cbn [wret wrun_spec]; apply Same|].
      rewrite run_bind, wrun_spec_wtry.
      destruct (im_blobs_run data mask l Hok) as (l' & b & m & Hrun & Hok' & Hle).
      rewrite Hrun. cbn [fst snd wret wrun_spec].
      eexists l', _, CrOk. split; [reflexivity|]. split; [split; [exact Hok'|exact I]|]. split; [exact Hle|discriminate].
    + destruct (im_add_projection_step st im fin data mask
                  (fun b m => PPinhole (mkPinhole (mkImageBlob b fmt) m (php_width props) (php_height props)
                     (php_focal_length props) (php_pixel_width props) (php_pixel_height props)
                     (php_principal_x props) (php_principal_y props))) l Esub Hinv)
        as (l' & st' & r & Hrun & Hi' & Hle & Herr & _).
      exists l', st', r. split; [exact Hrun|]. split; [exact Hi'|]. split; [exact Hle|exact Herr].
    + destruct (im_add_projection_step st im fin data mask
                  (fun b m => PSpherical (mkSphImg (mkImageBlob b fmt) m (spp_width props) (spp_height props)
                     (spp_pixel_width props) (spp_pixel_height props))) l Esub Hinv)
        as (l' & st' & r & Hrun & Hi' & Hle & Herr & _).
      exists l', st', r. split; [exact Hrun|]. split; [exact Hi'|]. split; [exact Hle|exact Herr].
    + destruct (im_add_projection_step st im fin data mask
                  (fun b m => PCylindrical (mkCylImg (mkImageBlob b fmt) m (cyp_width props) (cyp_height props)
                     (cyp_radius props) (cyp_principal_y props) (cyp_pixel_width props) (cyp_pixel_height props))) l Esub Hinv)
        as (l' & st' & r & Hrun & Hi' & Hle & Herr & _).
      exists l', st', r. split; [exact Hrun|]. split; [exact Hi'|]. split; [exact Hle|exact Herr].
    + (* ImFinalize *)
      destruct fin; [cbn [wret wrun_spec]; apply Same|].
      destruct (im_visual_reference im), (im_projection im); cbn [wret wrun_spec];
        try (eexists l, _, CrOk; split; [reflexivity|]; split; [split; [exact Hok|exact I]|];
             split; [apply ls_le_refl|discriminate]).
      apply Same.
    + cbn [wret wrun_spec]. eexists l, _, CrOk. split; [reflexivity|].
      split; [split; [exact Hok|exact I]|]. split; [apply ls_le_refl|discriminate].
Qed.

(** * Call sequences *)

Theorem wapi_run_ok : forall calls st l, ws_inv st l -> Forall call_wf calls ->
  exists l' st' rs, wrun_spec (wapi_run gen_xml lib_version st calls) l = (l', Ok (st', rs)) /\
    ws_inv st' l' /\ ls_le l l' /\ length rs = length calls.
Proof.
  induction calls as [|c r IH]; intros st l Hinv Hwf.
  - cbn [wapi_run wret wrun_spec]. exists l, st, []. split; [reflexivity|]. split; [exact Hinv|].
    split; [apply ls_le_refl|reflexivity].
  - inversion Hwf as [|? ? Hc Hr]; subst.
    destruct (wapi_step_ok st l c Hinv Hc) as (l1 & st1 & x & Hrun1 & Hinv1 & Hle1 & _).
    destruct (IH st1 l1 Hinv1 Hr) as (l2 & st2 & xs & Hrun2 & Hinv2 & Hle2 & Hlen).
    cbn [wapi_run]. rewrite run_bind, Hrun1. cbn [fst snd].
    rewrite run_bind, Hrun2. cbn [fst snd wret wrun_spec].
    exists l2, st2, (x :: xs). split; [reflexivity|]. split; [exact Hinv2|].
    split; [apply (ls_le_trans _ _ _ Hle1 Hle2)|cbn [length]; congruence].
Qed.

End Step.
