(** C15 / C16 at the level of the public writer API (Model/WriterApi.v): tools shared by
    Proofs/CrashApi.v and Proofs/FaultApi.v.
    - [wtry] on the paged writer: the device effects of the program, its error as a value;
    - [wpost]: a property of every value a program can return, whatever the page layer answers;
    - the API state machine: a call on a finalized writer issues no page-layer operation; the
      only call that sets [ws_finalized] is the top-level [Finalize], by running
      [writer_finalize] on the XML of the current metadata. *)
From E57 Require Import Base.Prelude Model.Device Model.PagedWriter Spec.PageSpec Model.Prog Model.Record
  Model.PcWriter Model.FileBin Model.Meta Model.MetaFile Model.WriterApi.
From E57 Require Import Proofs.ProgTransfer.

(** * [wtry] *)

Lemma wrun_wtry A (p : wprog A) : forall s,
  wrun (wtry p) s =
  (fst (wrun p s), match snd (wrun p s) with Ok a => Ok (Ok a) | Err k => Ok (Err k) | Panic => Panic end).
Proof.
  induction p as [a|k| |o k IH]; intros s; cbn [wtry wrun fst snd]; try reflexivity.
  destruct (pw_step o s) as [s1 r]. apply IH.
Qed.

(** programs without page-layer operations *)
Definition wconst {A} (p : wprog A) (r : res A) : Prop := forall s, wrun p s = (s, r).

Lemma wconst_ret A (a : A) : wconst (wret a) (Ok a).
Proof. intros s. reflexivity. Qed.

(** * Postconditions that do not depend on the page layer *)

Fixpoint wpost {A} (p : wprog A) (Q : A -> Prop) : Prop :=
  match p with
  | WRet a => Q a
  | WErr _ => True
  | WPanic => True
  | WOp o k => forall r, wpost (k r) Q
  end.

Lemma wpost_run A (p : wprog A) (Q : A -> Prop) : wpost p Q -> forall s a, snd (wrun p s) = Ok a -> Q a.
Proof.
  induction p as [a|k| |o k IH]; intros H s a' E; cbn [wrun snd wpost] in *.
  - injection E as <-. exact H.
  - discriminate.
  - discriminate.
  - destruct (pw_step o s) as [s1 r]. eapply IH; [apply H|exact E].
Qed.

Lemma wpost_bind A C (p : wprog A) (f : A -> wprog C) (Q : C -> Prop) :
  wpost p (fun a => wpost (f a) Q) -> wpost (wbind p f) Q.
Proof.
  induction p as [a|k| |o k IH]; intros H; cbn [wbind wpost] in *; try exact H.
  intros r. apply IH, H.
Qed.

Lemma wpost_weaken A (p : wprog A) (Q Q' : A -> Prop) : (forall a, Q a -> Q' a) -> wpost p Q -> wpost p Q'.
Proof.
  intros HQ. induction p as [a|k| |o k IH]; intros H; cbn [wpost] in *; auto.
Qed.

Lemma wpost_any A (p : wprog A) (Q : A -> Prop) : (forall a, Q a) -> wpost p Q.
Proof. intros HQ. induction p as [a|k| |o k IH]; cbn [wpost]; auto. Qed.

Lemma wpost_wtry A (p : wprog A) (Q : res A -> Prop) : (forall r, Q r) -> wpost (wtry p) Q.
Proof. intros HQ. apply wpost_any, HQ. Qed.

(** * The API state machine *)

Section Api.
Variable gen_xml : file_meta -> res (list N).
Variable lib_version : xstring.

Notation step := (wapi_step gen_xml lib_version).
Notation run := (wapi_run gen_xml lib_version).

Ltac post_go :=
  repeat first
    [ apply wpost_bind, wpost_wtry; intros [?|?|]
    | match goal with
      | |- wpost (if ?c then _ else _) _ => destruct c
      | |- wpost (match ?x with _ => _ end) _ => destruct x
      | |- wpost (let '_ := ?x in _) _ => destruct x
      end
    | exact I
    | progress cbn [wpost wret fst snd ws_finalized ws_open ws_sub set_sub] ].

(** a finalized writer: no call reaches the page layer, and the writer stays as it is *)
Definition finalized (st : wstate) : Prop :=
  ws_open st = true /\ ws_sub st = SubNone /\ ws_finalized st = true.

Lemma finalized_step st c : finalized st ->
  exists r, wconst (step st c) r /\ forall st1 cr, r = Ok (st1, cr) -> finalized st1 /\ ws_pcs st1 = ws_pcs st /\ ws_imgs st1 = ws_imgs st.
Proof.
  intros (Ho & Hs & Hf). unfold wapi_step. rewrite Ho, Hs, Hf. cbn [negb].
  destruct c; try (eexists; split; [intros s; reflexivity|];
                   intros st1 cr E; injection E as <- <-; unfold finalized; cbn; rewrite ?Ho, ?Hs, ?Hf; auto; fail).
  - destruct (ws_root st). eexists; split; [intros s; reflexivity|].
    intros st1 cr E; injection E as <- <-; unfold finalized; cbn; rewrite ?Hf; auto.
  - destruct (ws_root st). eexists; split; [intros s; reflexivity|].
    intros st1 cr E; injection E as <- <-; unfold finalized; cbn; rewrite ?Hf; auto.
  - destruct (_ >> _) as [[]|k|].
    + destruct (url_registered _ _); [|destruct (ext_registered _ _)];
        (eexists; split; [intros s; reflexivity|]);
        intros st1 cr E; injection E as <- <-; unfold finalized; cbn; rewrite ?Ho, ?Hs, ?Hf; auto.
    + eexists; split; [intros s; reflexivity|].
      intros st1 cr E; injection E as <- <-; unfold finalized; cbn; rewrite ?Ho, ?Hs, ?Hf; auto.
    + eexists; split; [intros s; reflexivity|]. intros st1 cr E. discriminate.
Qed.

Lemma finalized_run : forall calls st s, finalized st -> fst (wrun (run st calls) s) = s.
Proof.
  induction calls as [|c r IH]; intros st s Hf; cbn [wapi_run]; [reflexivity|].
  rewrite wrun_bind. destruct (finalized_step st c Hf) as (x & Hc & Hx). rewrite Hc.
  destruct x as [[st1 cr]|k|]; try reflexivity.
  destruct (Hx st1 cr eq_refl) as (Hf1 & _).
  rewrite wrun_bind. pose proof (IH st1 s Hf1) as E.
  destruct (wrun (run st1 r) s) as [s2 [[st2 xs]|k|]]; cbn [fst] in *; exact E.
Qed.

(** the top-level finalize of an open, unfinalized writer without a sub-writer *)
Definition at_finalize (st : wstate) (c : wcall) : Prop :=
  c = Finalize /\ ws_open st = true /\ ws_sub st = SubNone /\ ws_finalized st = false.

Lemma finalize_step st : ws_open st = true -> ws_sub st = SubNone -> ws_finalized st = false ->
  step st Finalize =
  match gen_xml (ws_meta st) with
  | Ok xml =>
      wbind (wtry (writer_finalize xml)) (fun r =>
        match r with
        | Ok _ => wret (mkWs true (ws_root st) (ws_exts st) (ws_pcs st) (ws_imgs st) SubNone true, CrOk)
        | Err k => wret (st, CrErr k)
        | Panic => WPanic
        end)
  | Err k => wret (st, CrErr k)
  | Panic => WPanic
  end.
Proof. intros Ho Hs Hf. unfold wapi_step. rewrite Ho, Hs, Hf. reflexivity. Qed.

(** every other call of an open writer leaves it open and unfinalized *)
Lemma other_step_post st c : ws_open st = true -> ws_finalized st = false -> ~ at_finalize st c ->
  wpost (step st c) (fun x => ws_open (fst x) = true /\ ws_finalized (fst x) = false).
Proof.
  intros Ho Hf Hn. unfold wapi_step. rewrite Ho. cbn [negb].
  destruct (ws_sub st) as [|ps|im fin] eqn:Hs; destruct c;
    try (cbn [wpost wret fst ws_open ws_finalized set_sub]; rewrite ?Ho, ?Hf; auto; fail).
  - destruct (ws_root st). cbn. rewrite ?Hf. auto.
  - destruct (ws_root st). cbn. rewrite ?Hf. auto.
  - destruct (_ >> _) as [[]|k|]; [|cbn; auto|exact I].
    destruct (url_registered _ _); [cbn; auto|]. destruct (ext_registered _ _); cbn; rewrite ?Hf; auto.
  - rewrite Hf. apply wpost_bind, wpost_wtry. intros [[o l]|k|]; cbn; auto.
  - rewrite Hf. apply wpost_bind, wpost_wtry. intros [ps|k|]; cbn; rewrite ?Ho, ?Hf; auto.
  - rewrite Hf. cbn. rewrite ?Ho, ?Hf. auto.
  - exfalso. apply Hn. unfold at_finalize. auto.
  - apply wpost_bind. unfold pc_add_point.
    destruct (ps_finalized ps); [cbn; rewrite ?Ho, ?Hf; auto|].
    destruct (negb _); [cbn; rewrite ?Ho, ?Hf; auto|].
    destruct (update_bounds _ _ _) as [b1 [u|k|]]; [|cbn; rewrite ?Ho, ?Hf; auto|exact I].
    apply wpost_bind, wpost_wtry. intros [w'|k|]; cbn; rewrite ?Ho, ?Hf; auto.
  - apply wpost_bind. unfold pc_finalize.
    destruct (ps_finalized ps); [cbn; rewrite ?Hf; auto|].
    destruct (negb _); [cbn; rewrite ?Hf; auto|].
    apply wpost_bind, wpost_wtry. intros [[[w2 off] cnt]|k|]; cbn; rewrite ?Hf; auto.
  - destruct fin; [cbn; auto|]. apply wpost_bind, wpost_wtry. intros [[b m]|k|]; cbn; rewrite ?Ho, ?Hf; auto.
  - unfold im_add_projection. destruct fin; [cbn; auto|]. destruct (has_projection im); [cbn; auto|].
    apply wpost_bind, wpost_wtry. intros [[b m]|k|]; cbn; rewrite ?Ho, ?Hf; auto.
  - unfold im_add_projection. destruct fin; [cbn; auto|]. destruct (has_projection im); [cbn; auto|].
    apply wpost_bind, wpost_wtry. intros [[b m]|k|]; cbn; rewrite ?Ho, ?Hf; auto.
  - unfold im_add_projection. destruct fin; [cbn; auto|]. destruct (has_projection im); [cbn; auto|].
    apply wpost_bind, wpost_wtry. intros [[b m]|k|]; cbn; rewrite ?Ho, ?Hf; auto.
  - destruct fin; [cbn; auto|].
    destruct (im_visual_reference im), (im_projection im); cbn; rewrite ?Hf; auto.
Qed.

(** a closed writer is the initial one; only [NewWriter] opens it, by writing the placeholder header *)
Lemma closed_step c : (forall guid, c <> NewWriter guid) -> wconst (step ws_init c) (Ok (ws_init, CrNoCompile)).
Proof. intros Hn s. destruct c; try reflexivity. exfalso. eapply Hn. reflexivity. Qed.

Lemma new_writer_step guid :
  step ws_init (NewWriter guid) =
  wbind (wtry writer_init) (fun r =>
    match r with
    | Ok _ => wret (mkWs true (mkRoot (rt_format root_default) guid 1 0 (Some lib_version) None None) [] [] [] SubNone false, CrOk)
    | Err k => wret (ws_init, CrErr k)
    | Panic => WPanic
    end).
Proof. reflexivity. Qed.

End Api.
