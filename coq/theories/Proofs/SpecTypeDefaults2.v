(** The integer-range defaults of Proofs/SpecTypeDefaults.v for both integer types at once. *)
From E57 Require Import Base.Prelude Model.Meta Model.XmlTree Model.XmlExtract Proofs.SpecTypeDefaults.

Lemma default_minimum : forall (pf64 pf32 : xstr -> option N) (n : xnode),
  attribute TYPE n = Some s_Integer \/ attribute TYPE n = Some s_ScaledInteger ->
  attribute s_minimum n = None ->
  data_type_from_node pf64 pf32 (add_attr s_minimum s_i64_min n) = data_type_from_node pf64 pf32 n.
Proof.
  intros pf64 pf32 n [H|H] Hn; [apply default_minimum_integer|apply default_minimum_scaled]; assumption.
Qed.

Lemma default_maximum : forall (pf64 pf32 : xstr -> option N) (n : xnode),
  attribute TYPE n = Some s_Integer \/ attribute TYPE n = Some s_ScaledInteger ->
  attribute s_maximum n = None ->
  data_type_from_node pf64 pf32 (add_attr s_maximum s_i64_max n) = data_type_from_node pf64 pf32 n.
Proof.
  intros pf64 pf32 n [H|H] Hn; [apply default_maximum_integer|apply default_maximum_scaled]; assumption.
Qed.
