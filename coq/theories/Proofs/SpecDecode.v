(** The independent file-level decoder of Spec/FileSpec.v accepts and inverts
    the independent encoder, for every legal file layout.  Nothing here
    mentions the model of the crate: both sides are specification. *)
From Coq Require Import ZArith Lia ZifyN ZifyNat ZifyBool.
From E57 Require Import Base.Prelude Model.Record Spec.BitSpec Spec.PageSpec Spec.FormatSpec Spec.FileSpec.
From E57 Require Import Proofs.PageSpecLemmas Proofs.PagedReaderProofs Proofs.QueueReaderLemmas
  Proofs.BlobProofs Proofs.SpecLayout Proofs.SpecSection.
Ltac Zify.zify_post_hook ::= Z.div_mod_to_equations.
Open Scope N_scope.

(** * Small facts *)

Lemma slice_at {A} (a b c : list A) s n : s = len a -> n = len b -> slice s n (a ++ b ++ c) = b.
Proof. intros -> ->. apply slice_app_exact. reflexivity. Qed.

Lemma len_le_phys_of_log l : l <= phys_of_log l.
Proof. unfold phys_of_log, PAYLOAD_SZ. lia. Qed.

(** * The fields of the file header, read back *)

Lemma spec_header_fields a b c rest :
  a < 2 ^ 64 -> b < 2 ^ 64 -> c < 2 ^ 64 ->
  take 8 (spec_header a b c ++ rest) = [65; 83; 84; 77; 45; 69; 53; 55] /\
  u32_at 8 (spec_header a b c ++ rest) = 1 /\
  u32_at 12 (spec_header a b c ++ rest) = 0 /\
  u64_at 16 (spec_header a b c ++ rest) = a /\
  u64_at 24 (spec_header a b c ++ rest) = b /\
  u64_at 32 (spec_header a b c ++ rest) = c /\
  u64_at 40 (spec_header a b c ++ rest) = 1024.
Proof.
  intros Ha Hb Hc. unfold u32_at, u64_at.
  rewrite !slice_app_l by (rewrite len_spec_header; lia).
  rewrite PageSpecLemmas.take_app_le by (rewrite len_spec_header; lia).
  change (take 8 (spec_header a b c)) with [65; 83; 84; 77; 45; 69; 53; 55].
  change (slice 8 4 (spec_header a b c)) with (le_bytes 4 1).
  change (slice 12 4 (spec_header a b c)) with (le_bytes 4 0).
  change (slice 16 8 (spec_header a b c)) with (le_bytes 8 a).
  change (slice 24 8 (spec_header a b c)) with (le_bytes 8 b).
  change (slice 32 8 (spec_header a b c)) with (le_bytes 8 c).
  change (slice 40 8 (spec_header a b c)) with (le_bytes 8 1024).
  rewrite !le_num_le_bytes8 by (assumption || lia).
  repeat split; reflexivity.
Qed.

(** * The sections of a layout, seen by the decoder *)

(** Logical extent (start, length as the section header states it) of every non-XML entry
    of a layout whose first entry starts at [base]: what [desc_extent] must return. *)
Fixpoint layout_extents (base : N) (fl : file_layout) (xl : N) : list (N * N) :=
  match fl with
  | [] => []
  | s :: r =>
      let rest := layout_extents (base + fsec_len s xl) r xl in
      match s with
      | FBlob data _ => (base, 16 + len data + pad4n (len data)) :: rest
      | FPc _ _ lay _ => (base, 32 + len (section_body lay)) :: rest
      | FXml => rest
      end
  end.

(** One induction over the layout, the bytes before it generalised: every descriptor of the
    layout passes [desc_ok], decodes to the content of its entry, and has the expected extent. *)
Lemma sections_decode : forall fl x LOG pre post,
  forallb fsection_ok fl = true ->
  LOG = pre ++ encode_fsections (len pre) fl x ++ post ->
  len pre mod 4 = 0 ->
  phys_of_log (len LOG) < 2 ^ 64 ->
  forallb (desc_ok LOG) (layout_descriptors (len pre) fl (len x)) = true /\
  map (decode_desc LOG) (layout_descriptors (len pre) fl (len x)) = map Some (layout_contents fl) /\
  map (desc_extent LOG) (layout_descriptors (len pre) fl (len x)) = layout_extents (len pre) fl (len x).
Proof.
  induction fl as [|s r IH]; intros x LOG pre post Hok HLOG Hpre Hsz.
  - cbn [layout_descriptors layout_contents layout_extents forallb map]. auto.
  - cbn [forallb] in Hok. apply andb_prop in Hok as [Hs Hr].
    cbn [encode_fsections] in HLOG. rewrite <- app_assoc in HLOG.
    pose proof (len_encode_fsection (len pre) s x) as HlenE.
    assert (Hpre' : len (pre ++ encode_fsection (len pre) s x) = len pre + fsec_len s (len x))
      by (rewrite qlen_app, HlenE; reflexivity).
    destruct (IH x LOG (pre ++ encode_fsection (len pre) s x) post Hr) as (IH1 & IH2 & IH3).
    { rewrite Hpre', <- app_assoc. exact HLOG. }
    { rewrite Hpre'. pose proof (fsec_len_mod4 s (len x) Hs). lia. }
    { exact Hsz. }
    rewrite Hpre' in IH1, IH2, IH3.
    assert (Hdrop : drop (len pre) LOG =
                    encode_fsection (len pre) s x ++ encode_fsections (len pre + fsec_len s (len x)) r x ++ post).
    { rewrite HLOG. apply drop_app_exact. reflexivity. }
    assert (HlenLOG : len pre + fsec_len s (len x) <= len LOG).
    { rewrite HLOG, !qlen_app, HlenE. lia. }
    pose proof (len_le_phys_of_log (len LOG)) as HLp.
    clear IH Hpre' HlenE.
    destruct s as [data pad|proto points lay pad|];
      cbn [layout_descriptors layout_contents layout_extents forallb map];
      cbn [encode_fsection fsec_len] in *.
    + (* a blob section *)
      rewrite <- app_assoc in Hdrop, HLOG.
      assert (Hb : ((16 + len data + 3) / 4) * 4 < 2 ^ 64) by (unfold pad4n in *; lia).
      split; [|split].
      * rewrite IH1, andb_true_r. unfold desc_ok. cbv zeta. cbn [desc_offset].
        rewrite log_of_phys_of_log_, in_payload_phys_of_log, Hdrop.
        rewrite blob_section_ok_encode by exact Hb.
        replace (len pre mod 4 =? 0) with true by lia. reflexivity.
      * f_equal; [|exact IH2]. unfold decode_desc. cbv zeta. cbn [desc_offset].
        rewrite log_of_phys_of_log_. do 2 f_equal.
        rewrite HLOG. apply blob_section_data.
      * f_equal; [|exact IH3]. unfold desc_extent. cbv zeta. cbn [desc_offset].
        rewrite log_of_phys_of_log_, Hdrop, blob_section_length_field by exact Hb. reflexivity.
    + (* a compressed-vector section *)
      rewrite <- app_assoc in Hdrop.
      apply fsection_ok_pc in Hs as (Hp & Hscene & Hlegal).
      assert (Hsz1 : 32 + len (section_body lay) < 2 ^ 64) by lia.
      assert (Hsz2 : phys_of_log (len pre + 32) < 2 ^ 64).
      { pose proof (phys_of_log_mono (len pre + 32) (len LOG)). lia. }
      split; [|split].
      * rewrite IH1, andb_true_r. unfold desc_ok. cbv zeta. cbn [desc_offset].
        rewrite log_of_phys_of_log_, in_payload_phys_of_log, Hdrop.
        rewrite (pc_section_ok_encode proto points) by assumption.
        replace (len pre mod 4 =? 0) with true by lia. reflexivity.
      * f_equal; [|exact IH2]. unfold decode_desc. cbv zeta. cbn [desc_offset].
        rewrite log_of_phys_of_log_, Hdrop.
        replace (N.to_nat (len points)) with (length points) by (unfold len; lia).
        rewrite decode_section_encode by assumption. reflexivity.
      * f_equal; [|exact IH3]. unfold desc_extent. cbv zeta. cbn [desc_offset].
        rewrite log_of_phys_of_log_, Hdrop, encode_section_length_field by exact Hsz1. reflexivity.
    + (* the XML text: no descriptor *)
      auto.
Qed.

(** * The extents of a layout are in file order *)

Lemma layout_extents_app : forall a b base xl,
  layout_extents base (a ++ b) xl
  = layout_extents base a xl ++ layout_extents (base + fsecs_len a xl) b xl.
Proof.
  induction a as [|s r IH]; intros b base xl; cbn [app layout_extents fsecs_len].
  - rewrite N.add_0_r. reflexivity.
  - rewrite IH. replace (base + fsec_len s xl + fsecs_len r xl) with (base + (fsec_len s xl + fsecs_len r xl)) by lia.
    destruct s; reflexivity.
Qed.

Lemma layout_extents_bounds : forall fl base xl e, In e (layout_extents base fl xl) ->
  base <= fst e /\ fst e + snd e <= base + fsecs_len fl xl.
Proof.
  induction fl as [|s r IH]; intros base xl e H; [destruct H|].
  cbn [fsecs_len].
  assert (HR : In e (layout_extents (base + fsec_len s xl) r xl) ->
               base <= fst e /\ fst e + snd e <= base + (fsec_len s xl + fsecs_len r xl)).
  { intros H'. apply IH in H'. lia. }
  destruct s as [data pad|proto points lay pad|]; cbn [layout_extents] in H.
  - destruct H as [<-|H]; [|exact (HR H)]. cbn [fst snd fsec_len]. lia.
  - destruct H as [<-|H]; [|exact (HR H)]. cbn [fst snd fsec_len]. lia.
  - exact (HR H).
Qed.

Lemma layout_extents_disjoint : forall fl base xl, pairwise_disjoint (layout_extents base fl xl) = true.
Proof.
  induction fl as [|s r IH]; intros base xl; [reflexivity|].
  destruct s as [data pad|proto points lay pad|]; cbn [layout_extents pairwise_disjoint]; rewrite ?IH; [| |reflexivity];
    rewrite andb_true_r; apply forallb_forall; intros e He; apply layout_extents_bounds in He;
    unfold ext_disjoint; cbn [fst snd fsec_len] in *; lia.
Qed.

(** * The theorem *)

(* The independent decoder accepts and inverts the independent encoder, for every legal file layout.
   x <> []: spec_wellformed demands a non-empty XML text.  Size: header fields, section lengths and offsets are u64. *)
Theorem spec_decode_encode : forall (fl : file_layout) (x : list N) (dx : list N -> list descriptor),
  file_layout_ok fl = true -> x <> [] ->
  len (spec_encode_file fl x) < 2 ^ 64 ->
  dx x = layout_descriptors 48 fl (len x) ->
  let f := spec_encode_file fl x in
  container_ok f = true /\ file_xml f = x /\
  spec_wellformed f dx = true /\
  spec_decode_file f dx = Some (mkDecoded x (layout_contents fl)).
Proof.
  intros fl x dx Hok Hx Hsz Hdx f.
  destruct (file_layout_ok_spec fl Hok) as [Hsecs Hone].
  destruct (one_xml_split fl Hone) as (l1 & l2 & Hfl & Hf1 & Hf2).
  pose proof (strip_spec_encode_file fl x) as Hstrip. fold f in Hstrip.
  pose proof (len_spec_encode_file fl x) as Hlenf. fold f in Hlenf, Hsz.
  pose proof (len_spec_file_stream fl x) as HlenL.
  pose proof (spec_file_stream_eq fl x) as HL.
  pose proof (pages_for_ge (48 + fsecs_len fl (len x))) as HP.
  assert (HXS : xml_start 48 fl (len x) = 48 + fsecs_len l1 (len x)).
  { rewrite Hfl. apply xml_start_split. exact Hf1. }
  assert (Hfs : fsecs_len fl (len x)
                = fsecs_len l1 (len x) + (len x + pad4n (len x)) + fsecs_len l2 (len x)).
  { rewrite Hfl, fsecs_len_app. cbn [fsecs_len fsec_len]. lia. }
  set (LOG := spec_file_stream fl x) in *.
  set (P := pages_for (48 + fsecs_len fl (len x))) in *.
  set (XS := xml_start 48 fl (len x)) in *.
  set (FILL := spec_file_filler fl x) in *.
  assert (Hxl : 0 < len x). { pose proof (len_nonnil x Hx). lia. }
  assert (HszL : phys_of_log (len LOG) < 2 ^ 64). { rewrite HlenL, phys_of_log_pages. lia. }
  pose proof (len_le_phys_of_log (len LOG)) as HLp.
  assert (HXO : phys_of_log XS < 2 ^ 64). { pose proof (phys_of_log_mono XS (len LOG)). lia. }
  destruct (spec_header_fields (P * 1024) (phys_of_log XS) (len x) (encode_fsections 48 fl x ++ zeros FILL))
    as (F0 & F8 & F12 & F16 & F24 & F32 & F40); [lia|exact HXO|lia|].
  rewrite <- HL in F0, F8, F12, F16, F24, F32, F40.
  (* (1) the container *)
  assert (Hcont : container_ok f = true).
  { unfold container_ok. cbv zeta. rewrite Hstrip, F0, F8, F12, F16, F24, F32, F40.
    change (all_pages_valid f) with (all_pages_valid (paginate (spec_file_log fl x))).
    rewrite paginate_all_valid, log_of_phys_of_log_, in_payload_phys_of_log, Hlenf, HlenL.
    unfold bytes_eqb.
    destruct (list_eq_dec N.eq_dec [65; 83; 84; 77; 45; 69; 53; 55] [65; 83; 84; 77; 45; 69; 53; 55])
      as [_|Hn]; [|exfalso; apply Hn; reflexivity].
    lia. }
  (* (2) the XML text *)
  assert (Hfx : file_xml f = x).
  { unfold file_xml. cbv zeta. rewrite Hstrip, F24, F32, log_of_phys_of_log_.
    rewrite HL, Hfl, encode_fsections_app. cbn [encode_fsections encode_fsection].
    rewrite <- !app_assoc. rewrite (app_assoc (spec_header _ _ _)).
    apply slice_at; [|reflexivity].
    rewrite qlen_app, len_spec_header, len_encode_fsections. exact HXS. }
  (* (3) the sections *)
  destruct (sections_decode fl x LOG (spec_header (P * 1024) (phys_of_log XS) (len x)) (zeros FILL) Hsecs)
    as (HS1 & HS2 & HS3); [exact HL|reflexivity|exact HszL|].
  rewrite len_spec_header in HS1, HS2, HS3.
  (* (4) the extents *)
  assert (Hdisj : pairwise_disjoint ((0, 48) :: (XS, len x) :: layout_extents 48 fl (len x)) = true).
  { cbn [pairwise_disjoint forallb]. rewrite layout_extents_disjoint, andb_true_r.
    apply andb_true_intro. split; [apply andb_true_intro; split|].
    - unfold ext_disjoint. cbn [fst snd]. lia.
    - apply forallb_forall. intros e He. apply layout_extents_bounds in He.
      unfold ext_disjoint. cbn [fst snd]. lia.
    - rewrite Hfl, layout_extents_app. cbn [layout_extents fsec_len].
      rewrite forallb_app. apply andb_true_intro.
      split; apply forallb_forall; intros e He; apply layout_extents_bounds in He;
        unfold ext_disjoint; cbn [fst snd]; lia. }
  assert (Hwf : spec_wellformed f dx = true).
  { unfold spec_wellformed. rewrite Hcont, Hstrip, Hfx, Hdx. cbn [andb].
    unfold sections_ok. rewrite HS1, HS3, F24, F32, log_of_phys_of_log_. cbn [andb]. exact Hdisj. }
  split; [exact Hcont|]. split; [exact Hfx|]. split; [exact Hwf|].
  unfold spec_decode_file. rewrite Hwf, Hstrip, Hfx, Hdx, HS2, sequence_opt_map_Some. reflexivity.
Qed.

(** * The hypotheses are satisfiable *)

Module SpecDecodeInstance.
  Definition proto : list dtype := [TInteger 5 5; TInteger 0 2047; TInteger (- 2 ^ 63) (2 ^ 63 - 1); TDouble].
  Definition pts : list (list rvalue) :=
    [[VInteger 5; VInteger 0; VInteger (- 2 ^ 63); VDouble 77];
     [VInteger 5; VInteger 2047; VInteger (2 ^ 63 - 1); VDouble (2 ^ 64 - 1)];
     [VInteger 5; VInteger 1234; VInteger (-1); VDouble 0]].
  Definition s (i : nat) : list N := spec_stream_bytes (nth i proto TSingle) (column i pts).
  Definition lay : layout :=
    [SIndex 16; SData [[]; take 2 (s 1); take 9 (s 2); []]; SIgnored 8; SData [[]; []; []; []];
     SData [[]; drop 2 (s 1); drop 9 (s 2); s 3]; SIndex 20].
  Definition blob : list N := map (fun i => N.of_nat i mod 256) (seq 0 1019).
  Definition fl : file_layout := [FBlob blob 8; FXml; FPc proto pts lay 8; FPc proto [] [] 0].
  Definition xml : list N := [60; 101; 53; 55; 47; 62].
  Definition dx (_ : list N) : list descriptor := layout_descriptors 48 fl (len xml).
End SpecDecodeInstance.

(** A blob that needs a byte of padding and straddles the first page boundary, extra padding
    after it, the XML between the sections, a compressed vector with index and ignored packets, empty chunks, a zero-width
    record and values straddling packets, an empty compressed vector at the very end; two pages. *)
Example spec_decode_encode_instance :
  let f := spec_encode_file SpecDecodeInstance.fl SpecDecodeInstance.xml in
  container_ok f = true /\ file_xml f = SpecDecodeInstance.xml /\
  spec_wellformed f SpecDecodeInstance.dx = true /\
  spec_decode_file f SpecDecodeInstance.dx
  = Some (mkDecoded SpecDecodeInstance.xml (layout_contents SpecDecodeInstance.fl)).
Proof.
  apply spec_decode_encode.
  - vm_compute. reflexivity.
  - discriminate.
  - vm_compute. reflexivity.
  - reflexivity.
Qed.

(** The same, computed: the decoder run on the bytes of the file. *)
Example spec_decode_encode_computed :
  len (spec_encode_file SpecDecodeInstance.fl SpecDecodeInstance.xml) = 2048 /\
  spec_decode_file (spec_encode_file SpecDecodeInstance.fl SpecDecodeInstance.xml) SpecDecodeInstance.dx
  = Some (mkDecoded SpecDecodeInstance.xml (layout_contents SpecDecodeInstance.fl)).
Proof. vm_compute. split; reflexivity. Qed.

Print Assumptions spec_decode_encode.
