(** Blob sections: [blob_write] on the logical stream appends exactly a blob
    section; [blob_read] on a logical byte stream returns exactly the data;
    a successful [blob_read] has exactly the descriptor's length. *)
From E57 Require Import Base.Prelude Spec.PageSpec Model.PagedReader Model.Prog Model.QueueReader Model.PcWriter Model.FileBin.
From E57 Require Import Proofs.PagedWriterLemmas Proofs.ProgTransfer.
From Coq Require Import ZifyN ZifyNat ZifyBool.
Ltac Zify.zify_post_hook ::= Z.div_mod_to_equations.

(* a blob section as the format lays it out: 16-byte header (id 0, 7 reserved bytes, section length =
   16 + data length rounded up to 4), the data, zero padding to a multiple of 4 *)
Definition blob_section (data : list N) : list N :=
  zeros 8 ++ le_bytes 8 (((16 + len data + 3) / 4) * 4) ++ data ++ zeros ((4 - len data mod 4) mod 4).

(** * Lists *)

Lemma len_le_bytes n v : len (le_bytes n v) = N.of_nat n.
Proof.
  revert v. induction n as [|n IH]; intros v; [reflexivity|].
  cbn [le_bytes]. rewrite len_cons, IH. lia.
Qed.

Lemma le_num_le_bytes n v : le_num (le_bytes n v) = v mod 256 ^ N.of_nat n.
Proof.
  revert v. induction n as [|n IH]; intros v.
  - cbn [le_bytes le_num]. change (256 ^ N.of_nat 0) with 1. rewrite N.mod_1_r. reflexivity.
  - cbn [le_bytes le_num]. rewrite IH.
    replace (N.of_nat (S n)) with (N.succ (N.of_nat n)) by lia.
    rewrite N.pow_succ_r'.
    assert (Hp : 256 ^ N.of_nat n <> 0) by (apply N.pow_nonzero; lia).
    rewrite (N.mul_comm 256), N.mod_mul_r by lia. lia.
Qed.

Lemma le_num_le_bytes_8 v : v < 2 ^ 64 -> le_num (le_bytes 8 v) = v.
Proof.
  intros H. rewrite le_num_le_bytes. change (256 ^ N.of_nat 8) with (2 ^ 64).
  apply N.mod_small. exact H.
Qed.

Lemma slice_app_exact {A} (a b c : list A) n : n = len b -> slice (len a) n (a ++ b ++ c) = b.
Proof.
  intros ->. unfold slice. rewrite drop_app_exact by reflexivity.
  apply take_app_exact. reflexivity.
Qed.

Lemma take_split' {A} a b (l : list A) : take (a + b) l = take a l ++ take b (drop a l).
Proof.
  unfold take, drop. rewrite N2Nat.inj_add.
  generalize (N.to_nat a) as x. generalize (N.to_nat b) as y. clear a b.
  intros y x. revert l. induction x as [|x IH]; intros l; [reflexivity|].
  destruct l as [|h t].
  - cbn. rewrite firstn_nil. reflexivity.
  - cbn [Nat.add firstn skipn app]. rewrite IH. reflexivity.
Qed.

Lemma slice_split' {A} s a b (l : list A) : slice s (a + b) l = slice s a l ++ slice (s + a) b l.
Proof. unfold slice. rewrite take_split', drop_drop. reflexivity. Qed.

(** * Writer steps on the logical stream *)

Lemma wrun_spec_bind_ok : forall A B (p : wprog A) (f : A -> wprog B) l l1 a,
  wrun_spec p l = (l1, Ok a) -> wrun_spec (wbind p f) l = wrun_spec (f a) l1.
Proof. intros A B p f l l1 a H. rewrite wrun_spec_bind, H. reflexivity. Qed.

Lemma ls_write_ne s bs : bs <> [] ->
  ls_write s bs = mkLs (overwrite (ls_data s) (ls_pos s) bs) (ls_pos s + len bs).
Proof. intros H. destruct bs; [congruence|reflexivity]. Qed.

Lemma ls_write_end s bs : ls_pos s = len (ls_data s) ->
  ls_write s bs = mkLs (ls_data s ++ bs) (len (ls_data s) + len bs).
Proof.
  intros H. destruct bs as [|b bs].
  - cbn [ls_write]. destruct s as [d p]. cbn [ls_data ls_pos] in *. subst p.
    rewrite app_nil_r, len_nil, N.add_0_r. reflexivity.
  - rewrite ls_write_ne by discriminate. rewrite H, overwrite_end. reflexivity.
Qed.

Lemma wrun_position l : wrun_spec w_position l = (l, Ok (phys_of_log (ls_pos l))).
Proof. reflexivity. Qed.

Lemma wrun_wr bs l : wrun_spec (wr bs) l = (ls_write l bs, Ok tt).
Proof. reflexivity. Qed.

Lemma wrun_seek x l : x <= len (ls_data l) ->
  wrun_spec (w_seek (phys_of_log x)) l = (mkLs (ls_data l) x, Ok tt).
Proof.
  intros H. unfold w_seek, wop_. cbn [wrun_spec ls_step].
  unfold ls_phys_size, pages_for, phys_of_log, log_of_phys, PAYLOAD_SZ, PAGE_SZ.
  set (L := len (ls_data l)) in *.
  destruct (_ <? _) eqn:E1; [exfalso; lia|].
  destruct (1020 <=? _) eqn:E2; [exfalso; lia|].
  cbn [res_map wlift wrun_spec]. f_equal. f_equal. lia.
Qed.

Lemma wrun_align l :
  wrun_spec (wrelabel EWrite w_align) l = (ls_write l (zeros ((4 - ls_pos l mod 4) mod 4)), Ok tt).
Proof. reflexivity. Qed.

(* W *)
Theorem blob_write_spec : forall (data : list N) (l0 : lstream),
  ls_pos l0 = len (ls_data l0) -> len (ls_data l0) mod 4 = 0 ->
  exists l1,
    wrun_spec (blob_write data) l0 = (l1, Ok (phys_of_log (len (ls_data l0)), len data)) /\
    ls_data l1 = ls_data l0 ++ blob_section data /\
    ls_pos l1 = len (ls_data l1) /\ len (ls_data l1) mod 4 = 0.
Proof.
  intros data [D p] Hpos Hal. cbn [ls_data ls_pos] in *. subst p.
  set (n := len D) in *.
  set (X := ((16 + len data + 3) / 4) * 4).
  set (k := (4 - len data mod 4) mod 4).
  exists (mkLs (D ++ blob_section data) (n + 16 + len data + k)).
  assert (Hlen : len (D ++ blob_section data) = n + 16 + len data + k).
  { unfold blob_section. rewrite !len_app, !len_zeros, len_le_bytes. fold n k. lia. }
  cbn [ls_data ls_pos]. split; [|split; [reflexivity|split; [symmetry; exact Hlen|rewrite Hlen; subst k; lia]]].
  unfold blob_write, BLOB_HEADER_SIZE. fold X.
  (* position *)
  rewrite (wrun_spec_bind_ok _ _ _ _ _ _ _ (wrun_position _)). cbn [ls_pos]. fold n.
  (* placeholder header *)
  rewrite (wrun_spec_bind_ok _ _ _ _ _ _ _ (wrun_wr _ _)).
  rewrite ls_write_end by reflexivity. cbn [ls_data]. fold n. rewrite len_zeros.
  (* data *)
  rewrite (wrun_spec_bind_ok _ _ _ _ _ _ _ (wrun_wr _ _)).
  rewrite ls_write_end by (cbn [ls_data ls_pos]; rewrite len_app, len_zeros; reflexivity).
  cbn [ls_data]. rewrite len_app, len_zeros. fold n.
  (* position *)
  rewrite (wrun_spec_bind_ok _ _ _ _ _ _ _ (wrun_position _)). cbn [ls_pos].
  (* seek back *)
  erewrite wrun_spec_bind_ok by (apply wrun_seek; cbn [ls_data]; rewrite !len_app; fold n; lia).
  cbn [ls_data].
  (* header *)
  rewrite (wrun_spec_bind_ok _ _ _ _ _ _ _ (wrun_wr _ _)).
  assert (Hh : len (zeros 8 ++ le_bytes 8 X) = 16) by (rewrite len_app, len_zeros, len_le_bytes; reflexivity).
  rewrite ls_write_ne by (intros E; apply (f_equal len) in E; rewrite Hh, len_nil in E; lia).
  cbn [ls_data ls_pos]. rewrite <- app_assoc. subst n.
  rewrite overwrite_mid by (rewrite Hh, len_zeros; reflexivity).
  set (n := len D) in *. rewrite Hh.
  (* seek to the end *)
  erewrite wrun_spec_bind_ok
    by (apply wrun_seek; cbn [ls_data]; rewrite !len_app, len_zeros, len_le_bytes; fold n; lia).
  cbn [ls_data].
  (* align *)
  rewrite (wrun_spec_bind_ok _ _ _ _ _ _ _ (wrun_align _)). cbn [ls_pos].
  rewrite ls_write_end by (cbn [ls_data ls_pos]; rewrite !len_app, len_zeros, len_le_bytes; fold n; lia).
  cbn [ls_data]. rewrite !len_app, !len_zeros, len_le_bytes. fold n.
  replace ((4 - (n + 16 + len data) mod 4) mod 4) with k by (subst k; lia).
  cbn [wret wrun_spec]. f_equal.
  f_equal; [|lia].
  unfold blob_section. fold X k. rewrite <- !app_assoc. reflexivity.
Qed.

(** * Reader steps on a logical byte stream *)

Lemma rrun_spec_bind_ok : forall A B log (p : rprog A) (f : A -> rprog B) off off1 a,
  rrun_spec log p off = (off1, Ok a) -> rrun_spec log (rbind p f) off = rrun_spec log (f a) off1.
Proof. intros A B log p f off off1 a H. rewrite rrun_spec_bind, H. reflexivity. Qed.

Lemma rrun_seek log x off : x < len log -> len log mod 1020 = 0 ->
  rrun_spec log (r_seek (phys_of_log x)) off = (x, Ok tt).
Proof.
  intros H Hm. unfold r_seek. cbn [rrun_spec lr_step].
  unfold phys_of_log, log_of_phys, PAYLOAD_SZ, PAGE_SZ.
  set (L := len log) in *.
  destruct (_ <=? _) eqn:E1; [exfalso; lia|].
  cbn [rrun_spec]. f_equal. lia.
Qed.

Lemma rrun_rd log n off : n <> 0 -> off + n <= len log ->
  rrun_spec log (rd n) off = (off + n, Ok (slice off n log)).
Proof.
  intros Hn H. unfold rd, r_read_exact. cbn [rrun_spec lr_step].
  destruct (n =? 0) eqn:E0; [exfalso; lia|].
  destruct (off + n <=? len log) eqn:E1; [|exfalso; lia].
  reflexivity.
Qed.

(* the copy loop accumulates exactly the wanted bytes when they are there and the fuel suffices *)
Lemma copy_loop_spec log : forall (fuel : nat) (want : N) (acc : list N) (off : N),
  off + want <= len log -> want < N.of_nat fuel ->
  rrun_spec log (copy_loop fuel want acc) off = (off + want, Ok (acc ++ slice off want log)).
Proof.
  induction fuel as [|f IH]; intros want acc off Hin Hfuel; [exfalso; lia|].
  cbn [copy_loop]. destruct (want =? 0) eqn:E0.
  - assert (want = 0) by lia. subst want. cbn [rret rrun_spec].
    rewrite N.add_0_r. unfold slice, take. cbn [N.to_nat firstn]. rewrite app_nil_r. reflexivity.
  - unfold r_read. cbn [rbind rrun_spec lr_step].
    destruct (len log <=? off) eqn:E1; [exfalso; lia|].
    unfold PAYLOAD_SZ.
    set (k := N.min (N.min want 8192) (1020 - off mod 1020)).
    assert (Hk : 0 < k /\ k <= want) by (subst k; lia).
    assert (Hl : len (slice off k log) = k) by (rewrite len_slice; lia).
    destruct (slice off k log) as [|g gs] eqn:Eg.
    { exfalso. rewrite len_nil in Hl. lia. }
    cbn [rbind]. rewrite Hl.
    rewrite IH by lia. f_equal; [lia|]. f_equal.
    rewrite <- app_assoc. f_equal. rewrite <- Eg.
    replace want with (k + (want - k)) at 2 by lia.
    apply eq_sym, slice_split'.
Qed.

Lemma blob_section_split data :
  blob_section data =
  (zeros 8 ++ le_bytes 8 (((16 + len data + 3) / 4) * 4)) ++ data ++ zeros ((4 - len data mod 4) mod 4).
Proof. unfold blob_section. rewrite <- app_assoc. reflexivity. Qed.

(** the run of [blob_read] up to the section-length check, on a stream that holds a blob section
    with an arbitrary 8-byte length field value [X] *)
Lemma blob_read_prefix : forall (X : N) (data pad pre post log : list N) (length log_size : N),
  log = pre ++ ((zeros 8 ++ le_bytes 8 X) ++ data ++ pad) ++ post ->
  len log mod 1020 = 0 ->
  rrun_spec log (blob_read log_size (phys_of_log (len pre)) length) 0 =
  rrun_spec log
    (if N.min (X mod 2 ^ 64 + 16) U64_MAX <? length then rfail EInvalid else
     data <- copy_loop (S (N.to_nat (N.min length log_size))) length [] ;;
     if negb (len data =? length) then rfail EInvalid else rret data)%rprog
    (len pre + 16).
Proof.
  intros X data pad pre post log length log_size Hlog Hm.
  assert (Hh : len (zeros 8 ++ le_bytes 8 X) = 16) by (rewrite len_app, len_zeros, len_le_bytes; reflexivity).
  assert (HL : len log = len pre + 16 + len data + len pad + len post).
  { rewrite Hlog. rewrite !len_app, len_zeros, len_le_bytes. lia. }
  unfold blob_read.
  erewrite rrun_spec_bind_ok by (apply rrun_seek; [lia|exact Hm]).
  erewrite rrun_spec_bind_ok by (apply rrun_rd; lia).
  assert (Hb : slice (len pre) 16 log = zeros 8 ++ le_bytes 8 X).
  { rewrite Hlog. set (H := zeros 8 ++ le_bytes 8 X) in *. rewrite <- !app_assoc.
    apply slice_app_exact. symmetry. exact Hh. }
  rewrite Hb.
  replace (byte_at (zeros 8 ++ le_bytes 8 X) 0) with 0 by reflexivity.
  change (negb (0 =? 0)) with false. cbv iota.
  replace (slice 8 8 (zeros 8 ++ le_bytes 8 X)) with (le_bytes 8 X).
  2:{ symmetry. change 8 with (len (zeros 8)) at 1. rewrite <- (app_nil_r (le_bytes 8 X)) at 1.
      apply slice_app_exact. rewrite len_le_bytes. reflexivity. }
  rewrite le_num_le_bytes. change (256 ^ N.of_nat 8) with (2 ^ 64).
  reflexivity.
Qed.

Lemma len_blob_section data :
  len (blob_section data) = 16 + len data + (4 - len data mod 4) mod 4.
Proof. unfold blob_section. rewrite !len_app, !len_zeros, len_le_bytes. lia. Qed.

(** The section length field is a u64: the statement of R needs the section length
    (16 + data length, rounded up to 4) to fit, which [len data < 2 ^ 64] alone does not give
    (see [blob_read_spec_as_stated_false] below). *)
Definition blob_section_length_fits_u64 (data : list N) : Prop :=
  ((16 + len data + 3) / 4) * 4 < 2 ^ 64.

(* R: reading it back returns exactly the data, wherever the section lies *)
Theorem blob_read_spec : forall (data pre post log : list N),
  log = pre ++ blob_section data ++ post ->
  len log mod 1020 = 0 -> len data < 2 ^ 64 ->
  blob_section_length_fits_u64 data ->
  snd (rrun_spec log (blob_read (len log) (phys_of_log (len pre)) (len data)) 0) = Ok data.
Proof.
  intros data pre post log Hlog Hm Hd Hfit. unfold blob_section_length_fits_u64 in Hfit.
  rewrite blob_section_split in Hlog.
  set (X := ((16 + len data + 3) / 4) * 4) in *.
  set (pad := zeros ((4 - len data mod 4) mod 4)) in *.
  rewrite (blob_read_prefix X data pad pre post log _ _ Hlog Hm).
  assert (HL : len log = len pre + 16 + len data + len pad + len post).
  { rewrite Hlog. rewrite !len_app, len_zeros, len_le_bytes. lia. }
  rewrite (N.mod_small X) by exact Hfit.
  unfold U64_MAX.
  destruct (_ <? _) eqn:E1; [exfalso; subst X; lia|].
  erewrite rrun_spec_bind_ok by (apply copy_loop_spec; lia).
  cbn [app].
  assert (Hs : slice (len pre + 16) (len data) log = data).
  { rewrite Hlog. set (H := zeros 8 ++ le_bytes 8 X) in *.
    assert (Hh : len H = 16) by (subst H; rewrite len_app, len_zeros, len_le_bytes; reflexivity).
    rewrite <- !app_assoc. rewrite (app_assoc pre H).
    replace (len pre + 16) with (len (pre ++ H)) by (rewrite len_app; lia).
    apply slice_app_exact. reflexivity. }
  rewrite Hs, N.eqb_refl. reflexivity.
Qed.

(** Without the extra hypothesis the header's length field wraps and the length check rejects. *)
Lemma blob_read_overflow : forall (data pre post log : list N),
  log = pre ++ blob_section data ++ post ->
  len log mod 1020 = 0 -> len data < 2 ^ 64 ->
  2 ^ 64 <= ((16 + len data + 3) / 4) * 4 ->
  snd (rrun_spec log (blob_read (len log) (phys_of_log (len pre)) (len data)) 0) = Err EInvalid.
Proof.
  intros data pre post log Hlog Hm Hd Hbig.
  rewrite blob_section_split in Hlog.
  set (X := ((16 + len data + 3) / 4) * 4) in *.
  set (pad := zeros ((4 - len data mod 4) mod 4)) in *.
  rewrite (blob_read_prefix X data pad pre post log _ _ Hlog Hm).
  unfold U64_MAX.
  destruct (_ <? _) eqn:E1; [reflexivity|].
  exfalso. subst X. lia.
Qed.

(* the statement of R with only [len data < 2 ^ 64] is false: data of 2^64 - 4 zero bytes at the
   start of the stream, followed by 752 bytes to fill the last payload *)
Theorem blob_read_spec_as_stated_false :
  ~ (forall (data pre post log : list N),
       log = pre ++ blob_section data ++ post ->
       len log mod 1020 = 0 -> len data < 2 ^ 64 ->
       snd (rrun_spec log (blob_read (len log) (phys_of_log (len pre)) (len data)) 0) = Ok data).
Proof.
  intros H.
  assert (Hd : len (zeros (2 ^ 64 - 4)) = 2 ^ 64 - 4) by apply len_zeros.
  assert (Hp : len (zeros 752) = 752) by apply len_zeros.
  revert Hd Hp. generalize (zeros (2 ^ 64 - 4)) as data. generalize (zeros 752) as post.
  intros post data Hd Hp.
  assert (Hm : len ([] ++ blob_section data ++ post) mod 1020 = 0).
  { rewrite !len_app, len_nil, len_blob_section, Hd, Hp. lia. }
  assert (Hlt : len data < 2 ^ 64) by lia.
  specialize (H data [] post _ eq_refl Hm Hlt).
  rewrite (blob_read_overflow data [] post _ eq_refl Hm Hlt) in H by (rewrite Hd; lia).
  discriminate H.
Qed.

(** * A successful read has the descriptor's length *)

Lemma rrun_spec_bind_inv : forall A B log (p : rprog A) (f : A -> rprog B) off b,
  snd (rrun_spec log (rbind p f) off) = Ok b ->
  exists off1 a, rrun_spec log p off = (off1, Ok a) /\ snd (rrun_spec log (f a) off1) = Ok b.
Proof.
  intros A B log p f off b H. rewrite rrun_spec_bind in H.
  destruct (rrun_spec log p off) as [off1 [a|k|]]; cbn [snd] in H; try discriminate H.
  exists off1, a. split; [reflexivity|exact H].
Qed.

Theorem blob_read_exact_or_err : forall (log : list N) (log_size offset length off0 : N) (bs : list N),
  snd (rrun_spec log (blob_read log_size offset length) off0) = Ok bs -> len bs = length.
Proof.
  intros log log_size offset length off0 bs H. unfold blob_read in H.
  apply rrun_spec_bind_inv in H as (o1 & u & _ & H).
  apply rrun_spec_bind_inv in H as (o2 & b & _ & H).
  destruct (negb (byte_at b 0 =? 0)) eqn:E0; [cbn in H; discriminate H|].
  cbv zeta in H.
  destruct (N.min (le_num (slice 8 8 b) + 16) U64_MAX <? length) eqn:E1; [cbn in H; discriminate H|].
  apply rrun_spec_bind_inv in H as (o3 & d & _ & H).
  destruct (len d =? length) eqn:E2; cbn [negb rret rfail rrun_spec snd] in H; [|discriminate H].
  injection H as <-. lia.
Qed.

Print Assumptions blob_read_spec_as_stated_false.
Print Assumptions blob_write_spec.
Print Assumptions blob_read_spec.
Print Assumptions blob_read_exact_or_err.
