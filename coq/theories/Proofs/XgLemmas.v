(** Slice "xg": lexical lemmas shared by the proofs about Model/XmlGen.v -
    the writer's rendering choices applied to single strings (attribute values,
    character data, CDATA) and the decimal printing of integers. *)
From Coq Require Import Decimal DecimalPos DecimalN DecimalZ ZArith Lia.
From E57 Require Import Base.Prelude Model.Meta Model.MetaFile Model.XmlTree Model.XmlGen
  Spec.XmlRender Spec.MetaTree Spec.XgWriterOk.
Require Import Coq.Strings.String.
Local Open Scope N_scope.

Local Notation "'B' s" := ltac:(let v := eval vm_compute in (bytes_of_string s%string) in exact v)
  (at level 0, s at level 0, only parsing).

(** * escaping with a position-independent style *)
Lemma esc_bytes_const : forall must f i t,
  esc_bytes must (fun _ b => f b) i t = flat_map (fun b => render_byte (f b) (must b) b) t.
Proof.
  intros must f i t. revert i. induction t as [|b r IH]; intro i; cbn [esc_bytes flat_map]; [reflexivity|].
  now rewrite IH.
Qed.

(** the writer's attribute-value escaping *)
Definition wesc (v : list N) : list N := esc_bytes (attr_must 34) (fun _ b => writer_ref b) 0%nat v.

Definition wesc_byte (b : N) : list N := render_byte (writer_ref b) (attr_must 34 b) b.

Lemma wesc_flat : forall v, wesc v = flat_map wesc_byte v.
Proof. intro v. unfold wesc. now rewrite esc_bytes_const. Qed.

Lemma eqb_cases : forall (b c : N), (b =? c) = true \/ (b =? c) = false.
Proof. intros b c. destruct (b =? c); auto. Qed.

(** one byte: what serialize_root's chain of replacements does to it *)
Definition url_byte (b : N) : list N :=
  if b =? 38 then B "&amp;" else if b =? 60 then B "&lt;" else if b =? 62 then B "&gt;"
  else if b =? 34 then B "&quot;" else if b =? 9 then B "&#9;" else if b =? 10 then B "&#10;"
  else if b =? 13 then B "&#13;" else [b].

Lemma replace1_app : forall c r a b, replace1 c r (a ++ b) = replace1 c r a ++ replace1 c r b.
Proof. intros. unfold replace1. apply flat_map_app. Qed.

Lemma replace1_cons : forall c r b s, replace1 c r (b :: s) = (if b =? c then r else [b]) ++ replace1 c r s.
Proof. reflexivity. Qed.

Lemma replace1_single_ne : forall c r b, b <> c -> replace1 c r [b] = [b].
Proof.
  intros c r b H. unfold replace1. cbn [flat_map]. apply N.eqb_neq in H. rewrite H. reflexivity.
Qed.

Lemma url_escape_cons : forall b s, url_escape (b :: s) = url_byte b ++ url_escape s.
Proof.
  intros b s. unfold url_escape.
  rewrite replace1_cons. rewrite !replace1_app. f_equal.
  unfold url_byte.
  destruct (N.eqb_spec b 38) as [->|H38]; [reflexivity|].
  destruct (N.eqb_spec b 60) as [->|H60]; [reflexivity|].
  destruct (N.eqb_spec b 62) as [->|H62]; [reflexivity|].
  destruct (N.eqb_spec b 34) as [->|H34]; [reflexivity|].
  destruct (N.eqb_spec b 9) as [->|H9]; [reflexivity|].
  destruct (N.eqb_spec b 10) as [->|H10]; [reflexivity|].
  destruct (N.eqb_spec b 13) as [->|H13]; [reflexivity|].
  rewrite !replace1_single_ne by assumption. reflexivity.
Qed.

Lemma url_escape_flat : forall s, url_escape s = flat_map url_byte s.
Proof.
  induction s as [|b r IH]; [reflexivity|].
  rewrite url_escape_cons, IH. reflexivity.
Qed.

Lemma wesc_byte_url : forall b, wesc_byte b = url_byte b.
Proof.
  intro b. unfold wesc_byte, url_byte, render_byte, writer_ref, attr_must, named_ref, dec_ref.
  destruct (N.eqb_spec b 38) as [->|H38]; [reflexivity|].
  destruct (N.eqb_spec b 60) as [->|H60]; [reflexivity|].
  destruct (N.eqb_spec b 62) as [->|H62]; [reflexivity|].
  destruct (N.eqb_spec b 34) as [->|H34]; [reflexivity|].
  destruct (N.eqb_spec b 9) as [->|H9]; [reflexivity|].
  destruct (N.eqb_spec b 10) as [->|H10]; [reflexivity|].
  destruct (N.eqb_spec b 13) as [->|H13]; [reflexivity|].
  cbn [orb].
  destruct (N.eqb_spec b 39) as [->|H39]; [reflexivity|].
  destruct (128 <=? b); reflexivity.
Qed.

(** [attr_escape]: the renderer's escaping of an attribute value under the
    writer's choices is serialize_root's replacement chain *)
Lemma wesc_url : forall v, wesc v = url_escape v.
Proof.
  intro v. rewrite wesc_flat, url_escape_flat.
  induction v as [|b r IH]; [reflexivity|].
  cbn [flat_map]. now rewrite wesc_byte_url, IH.
Qed.

Lemma plain_byte_spec : forall b, plain_byte b = true ->
  32 <= b /\ b < 127 /\ b <> 38 /\ b <> 60 /\ b <> 62 /\ b <> 34.
Proof.
  intros b H. unfold plain_byte in H.
  apply andb_prop in H. destruct H as [H Hm]. apply andb_prop in H. destruct H as [Hlo Hhi].
  apply N.leb_le in Hlo. apply N.ltb_lt in Hhi. apply negb_true_iff in Hm.
  repeat (apply orb_false_iff in Hm; destruct Hm as [Hm ?]).
  repeat match goal with H : (_ =? _) = false |- _ => apply N.eqb_neq in H end.
  repeat split; assumption.
Qed.

Lemma url_byte_plain : forall b, plain_byte b = true -> url_byte b = [b].
Proof.
  intros b H. apply plain_byte_spec in H. destruct H as (Hlo & Hhi & H38 & H60 & H62 & H34).
  unfold url_byte.
  repeat match goal with |- context [?x =? ?y] => destruct (N.eqb_spec x y); [lia|] end.
  reflexivity.
Qed.

Lemma wesc_plain : forall v, forallb plain_byte v = true -> wesc v = v.
Proof.
  intros v H. rewrite wesc_url, url_escape_flat.
  induction v as [|b r IH]; [reflexivity|].
  cbn [forallb] in H. apply andb_prop in H. destruct H as [Hb Hr].
  cbn [flat_map]. rewrite url_byte_plain by exact Hb. cbn [app]. now rewrite IH.
Qed.

(** * character data *)
Definition raw_choice : text_choice := TcEscaped (fun _ _ => RsRaw).

Lemma text_raw_plain : forall t, plain_text t = true -> render_text raw_choice t = t.
Proof.
  intros t H. unfold plain_text in H. destruct t as [|b0 r0]; [discriminate|].
  unfold render_text, raw_choice. rewrite esc_bytes_const.
  remember (b0 :: r0) as t eqn:E. clear E b0 r0.
  induction t as [|b r IH]; [reflexivity|].
  cbn [forallb] in H. apply andb_prop in H. destruct H as [Hb Hr].
  cbn [flat_map]. rewrite IH by exact Hr.
  apply plain_byte_spec in Hb. destruct Hb as (Hlo & Hhi & H38 & H60 & H62 & H34).
  unfold render_byte, text_must.
  repeat match goal with |- context [?x =? ?y] => destruct (N.eqb_spec x y); [lia|] end.
  cbn [orb]. destruct (N.leb_spec 128 b); [lia|reflexivity].
Qed.

Lemma cdata_body_escape : forall t, cdata_body t = cdata_escape t.
Proof. reflexivity. Qed.

Lemma text_cdata : forall t, render_text TcCData t = B "<![CDATA[" ++ cdata_escape t ++ B "]]>".
Proof.
  intro t. unfold render_text, render_cdata. destruct t; reflexivity.
Qed.

(** * decimal digits *)
Lemma dec_uint_bytes : forall d, dec_uint d = uint_bytes d.
Proof. induction d; cbn [dec_uint uint_bytes digit_byte]; congruence. Qed.

Lemma dec_n_display : forall n, dec_n n = display_u n.
Proof. intro n. unfold dec_n, display_u. apply dec_uint_bytes. Qed.

Lemma dec_z_display : forall z, dec_z z = display_i z.
Proof.
  intro z. unfold dec_z, display_i. destruct z; cbn [Z.to_int]; rewrite ?dec_uint_bytes; reflexivity.
Qed.

Definition digit_b (b : N) : bool := (48 <=? b) && (b <=? 57).

Lemma uint_bytes_digits : forall d, forallb digit_b (uint_bytes d) = true.
Proof. induction d; cbn [uint_bytes forallb]; rewrite ?IHd; reflexivity. Qed.

Lemma digit_plain : forall b, digit_b b = true -> plain_byte b = true.
Proof.
  intros b H. unfold digit_b in H. apply andb_prop in H. destruct H as [H1 H2].
  apply N.leb_le in H1. apply N.leb_le in H2. unfold plain_byte.
  apply andb_true_intro; split; [apply andb_true_intro; split; [apply N.leb_le|apply N.ltb_lt]; lia|].
  apply negb_true_iff.
  repeat (apply orb_false_iff; split); apply N.eqb_neq; lia.
Qed.

Lemma forallb_impl : forall {A} (p q : A -> bool) l, (forall x, p x = true -> q x = true) ->
  forallb p l = true -> forallb q l = true.
Proof.
  intros A p q l Hi. induction l as [|x r IH]; [reflexivity|].
  cbn [forallb]. intro H. apply andb_prop in H. destruct H as [Hx Hr].
  now rewrite (Hi x Hx), IH.
Qed.

Lemma pos_to_uint_nonnil : forall p, Pos.to_uint p <> Nil.
Proof.
  intros p H.
  pose proof (DecimalPos.Unsigned.of_to p) as Hp. rewrite H in Hp. discriminate.
Qed.

Lemma uint_bytes_nonempty : forall d, d <> Nil -> uint_bytes d <> [].
Proof. intros d H. destruct d; cbn [uint_bytes]; congruence. Qed.

Lemma display_u_plain : forall n, plain_text (display_u n) = true.
Proof.
  intro n. unfold plain_text, display_u.
  assert (Hne : uint_bytes (N.to_uint n) <> []).
  { destruct n; cbn [N.to_uint]; [discriminate|]. apply uint_bytes_nonempty, pos_to_uint_nonnil. }
  destruct (uint_bytes (N.to_uint n)) eqn:E; [congruence|]. rewrite <- E.
  apply (forallb_impl digit_b); [apply digit_plain|apply uint_bytes_digits].
Qed.

Lemma display_i_plain : forall z, plain_text (display_i z) = true.
Proof.
  intro z. unfold plain_text, display_i. destruct z as [|p|p]; [reflexivity| |].
  - pose proof (uint_bytes_nonempty _ (pos_to_uint_nonnil p)) as Hne.
    destruct (uint_bytes (Pos.to_uint p)) eqn:E; [congruence|]. rewrite <- E.
    apply (forallb_impl digit_b); [apply digit_plain|apply uint_bytes_digits].
  - cbn [forallb]. rewrite (forallb_impl digit_b plain_byte _ digit_plain (uint_bytes_digits _)). reflexivity.
Qed.

Lemma plain_text_forall : forall t, plain_text t = true -> forallb plain_byte t = true.
Proof. intros t H. unfold plain_text in H. destruct t; [discriminate|exact H]. Qed.
