(** The fuel of the XML parser model (Model/XmlParse.v) is only a termination device:
    every recursive call is made on a strictly shorter input, so fuel above the length of the
    input is never exhausted ([parse_document_fuel], [xml_parse_fuel]), and more fuel never
    changes a result ([*_mono]). *)
From E57 Require Import Base.Prelude Model.XmlTree Model.XmlParse.

Local Open Scope nat_scope.

(** * [pbind] / [of_opt] *)

Lemma pbind_nofuel_l : forall A B (m : pres A) (k : A -> pres B),
  pbind m k <> PFuel -> m <> PFuel.
Proof. intros A B m k H E. apply H. rewrite E. reflexivity. Qed.

Lemma pbind_nofuel_r : forall A B (m : pres A) (k : A -> pres B) a,
  pbind m k <> PFuel -> m = POk a -> k a <> PFuel.
Proof. intros A B m k a H E. rewrite E in H. exact H. Qed.

Lemma pbind_fuel_last : forall A B (m : pres A) (k : A -> pres B),
  (forall a, k a <> PFuel) -> pbind m k = PFuel -> m = PFuel.
Proof.
  intros A B m k Hk H. destruct m as [a| |]; cbn [pbind] in H.
  - exfalso. exact (Hk a H).
  - discriminate.
  - reflexivity.
Qed.

Lemma pbind_ok : forall A B (m : pres A) (k : A -> pres B) b,
  pbind m k = POk b -> exists a, m = POk a /\ k a = POk b.
Proof.
  intros A B m k b H. destruct m as [a| |]; cbn [pbind] in H; try discriminate.
  exists a. split; [reflexivity|exact H].
Qed.

Lemma of_opt_nofuel : forall A (o : option A), of_opt o <> PFuel.
Proof. intros A [a|]; discriminate. Qed.

Lemma of_opt_ok : forall A (o : option A) a, of_opt o = POk a -> o = Some a.
Proof. intros A [x|] a H; cbn [of_opt] in H; [inversion H; reflexivity|discriminate]. Qed.

(** a [match] on a numeric literal is a nest of matches on [positive]: take it apart *)
Ltac num_cases H c :=
  destruct c;
  [ try discriminate H
  | repeat (match type of H with
            | context [match ?p with xI _ => _ | xO _ => _ | xH => _ end] => destruct p
            end; try discriminate H) ].

(** * Scanners: the rest is a suffix, and how long it is *)

Lemma strip_prefix_length : forall p s r,
  strip_prefix p s = Some r -> length s = length p + length r.
Proof.
  induction p as [|x p IH]; intros s r H; cbn [strip_prefix] in H.
  - inversion H; subst. reflexivity.
  - destruct s as [|y s']; [discriminate|].
    destruct (x =? y)%N; [|discriminate].
    apply IH in H. cbn [length]. lia.
Qed.

Lemma strip_prefix_le : forall p s r, strip_prefix p s = Some r -> length r <= length s.
Proof. intros p s r H. apply strip_prefix_length in H. lia. Qed.

Lemma strip_prefix_sub : forall p s r,
  strip_prefix p s = Some r -> length r = length s - length p.
Proof. intros p s r H. apply strip_prefix_length in H. lia. Qed.

Lemma skip_spaces_length : forall s, length (skip_spaces s) <= length s.
Proof.
  induction s as [|b r IH]; cbn [skip_spaces]; [lia|].
  destruct (is_space b); cbn [length] in *; lia.
Qed.

Lemma scan_name_run_length_aux : forall k s n r,
  length s <= k -> scan_name_run s = (n, r) -> length s = length n + length r.
Proof.
  induction k as [|k IH]; intros s n r Hk H.
  - destruct s; [|cbn [length] in Hk; lia].
    cbn [scan_name_run] in H. inversion H; subst. reflexivity.
  - destruct s as [|b s']; cbn [scan_name_run] in H.
    + inversion H; subst. reflexivity.
    + cbn [length] in Hk.
      repeat match goal with
      | H : (if ?c then _ else _) = (_, _) |- _ => destruct c
      | H : match ?l with [] => _ | _ :: _ => _ end = (_, _) |- _ => destruct l
      | H : (_, _) = (_, _) |- _ => inversion H; subst; clear H
      | H : context [scan_name_run ?x] |- _ =>
          let E := fresh "E" in
          destruct (scan_name_run x) as [? ?] eqn:E;
          apply IH in E; [|cbn [length] in *; lia]
      end; cbn [length] in *; lia.
Qed.

Lemma scan_name_run_length : forall s n r,
  scan_name_run s = (n, r) -> length s = length n + length r.
Proof. intros s n r. apply (scan_name_run_length_aux (length s)). lia. Qed.

Lemma scan_name_run_rest : forall s n r, scan_name_run s = (n, r) -> length r <= length s.
Proof. intros s n r H. apply scan_name_run_length in H. lia. Qed.

Lemma scan_qname_rest : forall s p l r,
  scan_qname s = Some (p, l, r) -> length r < length s.
Proof.
  intros s p l r H. unfold scan_qname in H.
  destruct (scan_name_run s) as [run rest] eqn:E. apply scan_name_run_length in E.
  destruct run as [|x run'].
  - cbn [split_colon first_name_start] in H. discriminate.
  - destruct (split_colon (x :: run')) as [a [l'|]].
    + destruct (has_colon l'); [discriminate|].
      destruct ((is_nil a || first_name_start a) && first_name_start l'); [|discriminate].
      inversion H; subst. cbn [length] in E. lia.
    + destruct (first_name_start a); [|discriminate].
      inversion H; subst. cbn [length] in E. lia.
Qed.

Lemma scan_name_rest : forall s n r, scan_name s = Some (n, r) -> length r < length s.
Proof.
  intros s n r H. unfold scan_name in H.
  destruct (scan_name_run s) as [run rest] eqn:E. apply scan_name_run_length in E.
  destruct run as [|x run'].
  - cbn [first_name_start] in H. discriminate.
  - destruct (first_name_start (x :: run')); [|discriminate].
    inversion H; subst. cbn [length] in E. lia.
Qed.

Lemma scan_until_length : forall pat s t r,
  scan_until pat s = Some (t, r) -> length s = length t + length pat + length r.
Proof.
  intros pat. induction s as [|b s' IH]; intros t r H; cbn [scan_until] in H; [discriminate|].
  destruct (strip_prefix pat (b :: s')) as [rest|] eqn:Ep.
  - inversion H; subst. apply strip_prefix_length in Ep. cbn [length] in *. lia.
  - destruct (xml_char_ok b s'); [|discriminate].
    destruct (scan_until pat s') as [[t' rest]|] eqn:Es; [|discriminate].
    inversion H; subst. specialize (IH _ _ eq_refl). cbn [length]. lia.
Qed.

Lemma scan_until_le : forall pat s t r, scan_until pat s = Some (t, r) -> length r <= length s.
Proof. intros pat s t r H. apply scan_until_length in H. lia. Qed.

Lemma scan_until_rest : forall pat s t r,
  pat <> [] -> scan_until pat s = Some (t, r) -> length r < length s.
Proof.
  intros pat s t r Hp H. apply scan_until_length in H.
  destruct pat; [congruence|]. cbn [length] in H. lia.
Qed.

Lemma scan_attr_value_length : forall q s v r,
  scan_attr_value q s = Some (v, r) -> length s = length v + 1 + length r.
Proof.
  intros q. induction s as [|b s' IH]; intros v r H; cbn [scan_attr_value] in H; [discriminate|].
  destruct (b =? q)%N.
  - inversion H; subst. cbn [length]. lia.
  - destruct (b =? 60)%N; [discriminate|].
    destruct (xml_char_ok b s'); [|discriminate].
    destruct (scan_attr_value q s') as [[v' rest]|] eqn:Es; [|discriminate].
    inversion H; subst. specialize (IH _ _ eq_refl). cbn [length]. lia.
Qed.

Lemma scan_attr_value_rest : forall q s v r,
  scan_attr_value q s = Some (v, r) -> length r < length s.
Proof. intros q s v r H. apply scan_attr_value_length in H. lia. Qed.

Lemma scan_text_length : forall s t r,
  scan_text s = Some (t, r) -> length s = length t + length r.
Proof.
  induction s as [|b s' IH]; intros t r H; cbn [scan_text] in H.
  - inversion H; subst. reflexivity.
  - destruct (b =? 60)%N.
    + inversion H; subst. reflexivity.
    + destruct (xml_char_ok b s'); [|discriminate].
      destruct (scan_text s') as [[t' rest]|] eqn:Es; [|discriminate].
      inversion H; subst. specialize (IH _ _ eq_refl). cbn [length]. lia.
Qed.

Lemma scan_text_le : forall s t r, scan_text s = Some (t, r) -> length r <= length s.
Proof. intros s t r H. apply scan_text_length in H. lia. Qed.

Lemma scan_text_rest : forall b s t r,
  (b =? 60)%N = false -> scan_text (b :: s) = Some (t, r) -> length r < length (b :: s).
Proof.
  intros b s t r Hb H. cbn [scan_text] in H. rewrite Hb in H.
  destruct (xml_char_ok b s); [|discriminate].
  destruct (scan_text s) as [[t' rest]|] eqn:Es; [|discriminate].
  inversion H; subst. apply scan_text_le in Es. cbn [length]. lia.
Qed.

Lemma consume_eq_rest : forall s r, consume_eq s = Some r -> length r < length s.
Proof.
  intros s r H. unfold consume_eq in H.
  pose proof (skip_spaces_length s) as Hs.
  destruct (skip_spaces s) as [|c r0]; [discriminate|].
  num_cases H c.
  inversion H; subst. pose proof (skip_spaces_length r0). cbn [length] in Hs. lia.
Qed.

Lemma scan_attribute_rest : forall s p l v r,
  scan_attribute s = Some (p, l, v, r) -> length r < length s.
Proof.
  intros s p l v r H. unfold scan_attribute in H.
  destruct (scan_qname s) as [[[p0 l0] r0]|] eqn:Eq; [|discriminate].
  apply scan_qname_rest in Eq.
  destruct (consume_eq r0) as [[|q r1]|] eqn:Ec; try discriminate.
  apply consume_eq_rest in Ec.
  destruct ((q =? 34)%N || (q =? 39)%N); [|discriminate].
  destruct (scan_attr_value q r1) as [[v0 rest]|] eqn:Ev; [|discriminate].
  apply scan_attr_value_rest in Ev. inversion H; subst. cbn [length] in Ec. lia.
Qed.

Lemma parse_comment_rest : forall s n r, parse_comment s = Some (n, r) -> length r < length s.
Proof.
  intros s n r H. unfold parse_comment in H.
  destruct (scan_until s_comment_end s) as [[t rest]|] eqn:E; [|discriminate].
  destruct (contains s_dashdash t || ends_with_dash t); [discriminate|].
  inversion H; subst. apply scan_until_length in E.
  unfold s_comment_end in E. cbn [length] in E. lia.
Qed.

Lemma parse_pi_rest : forall s n r, parse_pi s = Some (n, r) -> length r < length s.
Proof.
  intros s n r H. unfold parse_pi in H.
  destruct (starts_with s_xml_sp s); [discriminate|].
  destruct (scan_name s) as [[target r0]|] eqn:En; [|discriminate].
  apply scan_name_rest in En.
  destruct (scan_until s_pi_end (skip_spaces r0)) as [[c rest]|] eqn:E; [|discriminate].
  inversion H; subst. apply scan_until_le in E.
  pose proof (skip_spaces_length r0). lia.
Qed.

Lemma decl_spaces_length : forall s r, decl_spaces s = Some r -> length r <= length s.
Proof.
  intros s r H. unfold decl_spaces in H.
  destruct (starts_with_space s).
  - inversion H; subst. apply skip_spaces_length.
  - destruct (starts_with s_pi_end s || is_nil s); [|discriminate].
    inversion H; subst. lia.
Qed.

Lemma parse_declaration_length : forall s r,
  parse_declaration s = Some r -> length r <= length s.
Proof.
  intros s r H. unfold parse_declaration in H.
  destruct (decl_spaces s) as [s1|] eqn:E1; [|discriminate]. apply decl_spaces_length in E1.
  destruct (negb (starts_with s_version s1)); [discriminate|].
  destruct (scan_attribute s1) as [[[[p1 l1] v1] s2]|] eqn:E2; [|discriminate].
  apply scan_attribute_rest in E2.
  destruct (decl_spaces s2) as [s3|] eqn:E3; [|discriminate]. apply decl_spaces_length in E3.
  assert (Henc : forall s5,
    (if starts_with s_encoding s3
     then match scan_attribute s3 with
          | Some (_, _, _, s4) => decl_spaces s4
          | None => None
          end
     else Some s3) = Some s5 -> length s5 <= length s3).
  { intros s5 H5. destruct (starts_with s_encoding s3).
    - destruct (scan_attribute s3) as [[[[p4 l4] v4] s4]|] eqn:E4; [|discriminate].
      apply scan_attribute_rest in E4. apply decl_spaces_length in H5. lia.
    - inversion H5; subst. lia. }
  destruct (if starts_with s_encoding s3
            then match scan_attribute s3 with
                 | Some (_, _, _, s4) => decl_spaces s4
                 | None => None
                 end
            else Some s3) as [s5|] eqn:E5; [|discriminate].
  specialize (Henc _ eq_refl). clear E5.
  assert (Hsa : forall s7,
    (if starts_with s_standalone s5
     then match scan_attribute s5 with
          | Some (_, _, _, s6) => Some s6
          | None => None
          end
     else Some s5) = Some s7 -> length s7 <= length s5).
  { intros s7 H7. destruct (starts_with s_standalone s5).
    - destruct (scan_attribute s5) as [[[[p6 l6] v6] s6]|] eqn:E6; [|discriminate].
      apply scan_attribute_rest in E6. inversion H7; subst. lia.
    - inversion H7; subst. lia. }
  destruct (if starts_with s_standalone s5
            then match scan_attribute s5 with
                 | Some (_, _, _, s6) => Some s6
                 | None => None
                 end
            else Some s5) as [s7|] eqn:E7; [|discriminate].
  specialize (Hsa _ eq_refl). clear E7.
  apply strip_prefix_le in H. pose proof (skip_spaces_length s7). lia.
Qed.
