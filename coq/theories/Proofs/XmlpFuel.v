(** The fuel of the XML parser model (Model/XmlParse.v) is only a termination device:
    every recursive call is made on a strictly shorter input, so fuel above the length of the
    input is never exhausted ([parse_document_fuel], [xml_parse_fuel]), and more fuel never
    changes a result ([*_mono]). *)
From E57 Require Import Base.Prelude Model.XmlTree Model.XmlParse.

Local Open Scope nat_scope.

(** * [pbind] / [of_opt] *)

Lemma pbind_nofuel_l : forall A B (m : pres A) (k : A -> pres B),
  pbind m k <> PFuel -> m <> PFuel.
Proof. intros A B m k H E. apply H. rewrite E. reflexivity. Qed.

Lemma pbind_nofuel_r : forall A B (m : pres A) (k : A -> pres B) a,
  pbind m k <> PFuel -> m = POk a -> k a <> PFuel.
Proof. intros A B m k a H E. rewrite E in H. exact H. Qed.

Lemma pbind_fuel_last : forall A B (m : pres A) (k : A -> pres B),
  (forall a, k a <> PFuel) -> pbind m k = PFuel -> m = PFuel.
Proof.
  intros A B m k Hk H. destruct m as [a| |]; cbn [pbind] in H.
  - exfalso. exact (Hk a H).
  - discriminate.
  - reflexivity.
Qed.

Lemma pbind_ok : forall A B (m : pres A) (k : A -> pres B) b,
  pbind m k = POk b -> exists a, m = POk a /\ k a = POk b.
Proof.
  intros A B m k b H. destruct m as [a| |]; cbn [pbind] in H; try discriminate.
  exists a. split; [reflexivity|exact H].
Qed.

Lemma of_opt_nofuel : forall A (o : option A), of_opt o <> PFuel.
Proof. intros A [a|]; discriminate. Qed.

Lemma of_opt_ok : forall A (o : option A) a, of_opt o = POk a -> o = Some a.
Proof. intros A [x|] a H; cbn [of_opt] in H; [inversion H; reflexivity|discriminate]. Qed.

(** a [match] on a numeric literal is a nest of matches on [positive]: take it apart *)
Ltac num_cases H c :=
  destruct c;
  [ try discriminate H
  | repeat (match type of H with
            | context [match ?p with xI _ => _ | xO _ => _ | xH => _ end] => destruct p
            end; try discriminate H) ].

(** * Scanners: the rest is a suffix, and how long it is *)

Lemma strip_prefix_length : forall p s r,
  strip_prefix p s = Some r -> length s = length p + length r.
Proof.
  induction p as [|x p IH]; intros s r H; cbn [strip_prefix] in H.
  - inversion H; subst. reflexivity.
  - destruct s as [|y s']; [discriminate|].
    destruct (x =? y)%N; [|discriminate].
    apply IH in H. cbn [length]. lia.
Qed.

Lemma strip_prefix_le : forall p s r, strip_prefix p s = Some r -> length r <= length s.
Proof. intros p s r H. apply strip_prefix_length in H. lia. Qed.

Lemma strip_prefix_sub : forall p s r,
  strip_prefix p s = Some r -> length r = length s - length p.
Proof. intros p s r H. apply strip_prefix_length in H. lia. Qed.

Lemma skip_spaces_length : forall s, length (skip_spaces s) <= length s.
Proof.
  induction s as [|b r IH]; cbn [skip_spaces]; [lia|].
  destruct (is_space b); cbn [length] in *; lia.
Qed.

Lemma scan_name_run_length_aux : forall k s n r,
  length s <= k -> scan_name_run s = (n, r) -> length s = length n + length r.
Proof.
  induction k as [|k IH]; intros s n r Hk H.
  - destruct s; [|cbn [length] in Hk; lia].
    cbn [scan_name_run] in H. inversion H; subst. reflexivity.
  - destruct s as [|b s']; cbn [scan_name_run] in H.
    + inversion H; subst. reflexivity.
    + cbn [length] in Hk.
      repeat match goal with
      | H : (if ?c then _ else _) = (_, _) |- _ => destruct c
      | H : match ?l with [] => _ | _ :: _ => _ end = (_, _) |- _ => destruct l
      | H : (_, _) = (_, _) |- _ => inversion H; subst; clear H
      | H : context [scan_name_run ?x] |- _ =>
          let E := fresh "E" in
          destruct (scan_name_run x) as [? ?] eqn:E;
          apply IH in E; [|cbn [length] in *; lia]
      end; cbn [length] in *; lia.
Qed.

Lemma scan_name_run_length : forall s n r,
  scan_name_run s = (n, r) -> length s = length n + length r.
Proof. intros s n r. apply (scan_name_run_length_aux (length s)). lia. Qed.

Lemma scan_name_run_rest : forall s n r, scan_name_run s = (n, r) -> length r <= length s.
Proof. intros s n r H. apply scan_name_run_length in H. lia. Qed.

Lemma scan_qname_rest : forall s p l r,
  scan_qname s = Some (p, l, r) -> length r < length s.
Proof.
  intros s p l r H. unfold scan_qname in H.
  destruct (scan_name_run s) as [run rest] eqn:E. apply scan_name_run_length in E.
  destruct run as [|x run'].
  - cbn [split_colon first_name_start] in H. discriminate.
  - destruct (split_colon (x :: run')) as [a [l'|]].
    + destruct (has_colon l'); [discriminate|].
      destruct ((is_nil a || first_name_start a) && first_name_start l'); [|discriminate].
      inversion H; subst. cbn [length] in E. lia.
    + destruct (first_name_start a); [|discriminate].
      inversion H; subst. cbn [length] in E. lia.
Qed.

Lemma scan_name_rest : forall s n r, scan_name s = Some (n, r) -> length r < length s.
Proof.
  intros s n r H. unfold scan_name in H.
  destruct (scan_name_run s) as [run rest] eqn:E. apply scan_name_run_length in E.
  destruct run as [|x run'].
  - cbn [first_name_start] in H. discriminate.
  - destruct (first_name_start (x :: run')); [|discriminate].
    inversion H; subst. cbn [length] in E. lia.
Qed.

Lemma scan_until_length : forall pat s t r,
  scan_until pat s = Some (t, r) -> length s = length t + length pat + length r.
Proof.
  intros pat. induction s as [|b s' IH]; intros t r H; cbn [scan_until] in H; [discriminate|].
  destruct (strip_prefix pat (b :: s')) as [rest|] eqn:Ep.
  - inversion H; subst. apply strip_prefix_length in Ep. cbn [length] in *. lia.
  - destruct (xml_char_ok b s'); [|discriminate].
    destruct (scan_until pat s') as [[t' rest]|] eqn:Es; [|discriminate].
    inversion H; subst. specialize (IH _ _ eq_refl). cbn [length]. lia.
Qed.

Lemma scan_until_le : forall pat s t r, scan_until pat s = Some (t, r) -> length r <= length s.
Proof. intros pat s t r H. apply scan_until_length in H. lia. Qed.

Lemma scan_until_rest : forall pat s t r,
  pat <> [] -> scan_until pat s = Some (t, r) -> length r < length s.
Proof.
  intros pat s t r Hp H. apply scan_until_length in H.
  destruct pat; [congruence|]. cbn [length] in H. lia.
Qed.

Lemma scan_attr_value_length : forall q s v r,
  scan_attr_value q s = Some (v, r) -> length s = length v + 1 + length r.
Proof.
  intros q. induction s as [|b s' IH]; intros v r H; cbn [scan_attr_value] in H; [discriminate|].
  destruct (b =? q)%N.
  - inversion H; subst. cbn [length]. lia.
  - destruct (b =? 60)%N; [discriminate|].
    destruct (xml_char_ok b s'); [|discriminate].
    destruct (scan_attr_value q s') as [[v' rest]|] eqn:Es; [|discriminate].
    inversion H; subst. specialize (IH _ _ eq_refl). cbn [length]. lia.
Qed.

Lemma scan_attr_value_rest : forall q s v r,
  scan_attr_value q s = Some (v, r) -> length r < length s.
Proof. intros q s v r H. apply scan_attr_value_length in H. lia. Qed.

Lemma scan_text_length : forall s t r,
  scan_text s = Some (t, r) -> length s = length t + length r.
Proof.
  induction s as [|b s' IH]; intros t r H; cbn [scan_text] in H.
  - inversion H; subst. reflexivity.
  - destruct (b =? 60)%N.
    + inversion H; subst. reflexivity.
    + destruct (xml_char_ok b s'); [|discriminate].
      destruct (scan_text s') as [[t' rest]|] eqn:Es; [|discriminate].
      inversion H; subst. specialize (IH _ _ eq_refl). cbn [length]. lia.
Qed.

Lemma scan_text_le : forall s t r, scan_text s = Some (t, r) -> length r <= length s.
Proof. intros s t r H. apply scan_text_length in H. lia. Qed.

Lemma scan_text_rest : forall b s t r,
  (b =? 60)%N = false -> scan_text (b :: s) = Some (t, r) -> length r < length (b :: s).
Proof.
  intros b s t r Hb H. cbn [scan_text] in H. rewrite Hb in H.
  destruct (xml_char_ok b s); [|discriminate].
  destruct (scan_text s) as [[t' rest]|] eqn:Es; [|discriminate].
  inversion H; subst. apply scan_text_le in Es. cbn [length]. lia.
Qed.

Lemma consume_eq_rest : forall s r, consume_eq s = Some r -> length r < length s.
Proof.
  intros s r H. unfold consume_eq in H.
  pose proof (skip_spaces_length s) as Hs.
  destruct (skip_spaces s) as [|c r0]; [discriminate|].
  num_cases H c.
  inversion H; subst. pose proof (skip_spaces_length r0). cbn [length] in Hs. lia.
Qed.

Lemma scan_attribute_rest : forall s p l v r,
  scan_attribute s = Some (p, l, v, r) -> length r < length s.
Proof.
  intros s p l v r H. unfold scan_attribute in H.
  destruct (scan_qname s) as [[[p0 l0] r0]|] eqn:Eq; [|discriminate].
  apply scan_qname_rest in Eq.
  destruct (consume_eq r0) as [[|q r1]|] eqn:Ec; try discriminate.
  apply consume_eq_rest in Ec.
  destruct ((q =? 34)%N || (q =? 39)%N); [|discriminate].
  destruct (scan_attr_value q r1) as [[v0 rest]|] eqn:Ev; [|discriminate].
  apply scan_attr_value_rest in Ev. inversion H; subst. cbn [length] in Ec. lia.
Qed.

Lemma parse_comment_rest : forall s n r, parse_comment s = Some (n, r) -> length r < length s.
Proof.
  intros s n r H. unfold parse_comment in H.
  destruct (scan_until s_comment_end s) as [[t rest]|] eqn:E; [|discriminate].
  destruct (contains s_dashdash t || ends_with_dash t); [discriminate|].
  inversion H; subst. apply scan_until_length in E.
  unfold s_comment_end in E. cbn [length] in E. lia.
Qed.

Lemma parse_pi_rest : forall s n r, parse_pi s = Some (n, r) -> length r < length s.
Proof.
  intros s n r H. unfold parse_pi in H.
  destruct (starts_with s_xml_sp s); [discriminate|].
  destruct (scan_name s) as [[target r0]|] eqn:En; [|discriminate].
  apply scan_name_rest in En.
  destruct (scan_until s_pi_end (skip_spaces r0)) as [[c rest]|] eqn:E; [|discriminate].
  inversion H; subst. apply scan_until_le in E.
  pose proof (skip_spaces_length r0). lia.
Qed.

Lemma decl_spaces_length : forall s r, decl_spaces s = Some r -> length r <= length s.
Proof.
  intros s r H. unfold decl_spaces in H.
  destruct (starts_with_space s).
  - inversion H; subst. apply skip_spaces_length.
  - destruct (starts_with s_pi_end s || is_nil s); [|discriminate].
    inversion H; subst. lia.
Qed.

Lemma parse_declaration_length : forall s r,
  parse_declaration s = Some r -> length r <= length s.
Proof.
  intros s r H. unfold parse_declaration in H.
  destruct (decl_spaces s) as [s1|] eqn:E1; [|discriminate]. apply decl_spaces_length in E1.
  destruct (negb (starts_with s_version s1)); [discriminate|].
  destruct (scan_attribute s1) as [[[[p1 l1] v1] s2]|] eqn:E2; [|discriminate].
  apply scan_attribute_rest in E2.
  destruct (decl_spaces s2) as [s3|] eqn:E3; [|discriminate]. apply decl_spaces_length in E3.
  assert (Henc : forall s5,
    (if starts_with s_encoding s3
     then match scan_attribute s3 with
          | Some (_, _, _, s4) => decl_spaces s4
          | None => None
          end
     else Some s3) = Some s5 -> length s5 <= length s3).
  { intros s5 H5. destruct (starts_with s_encoding s3).
    - destruct (scan_attribute s3) as [[[[p4 l4] v4] s4]|] eqn:E4; [|discriminate].
      apply scan_attribute_rest in E4. apply decl_spaces_length in H5. lia.
    - inversion H5; subst. lia. }
  destruct (if starts_with s_encoding s3
            then match scan_attribute s3 with
                 | Some (_, _, _, s4) => decl_spaces s4
                 | None => None
                 end
            else Some s3) as [s5|] eqn:E5; [|discriminate].
  specialize (Henc _ eq_refl). clear E5.
  assert (Hsa : forall s7,
    (if starts_with s_standalone s5
     then match scan_attribute s5 with
          | Some (_, _, _, s6) => Some s6
          | None => None
          end
     else Some s5) = Some s7 -> length s7 <= length s5).
  { intros s7 H7. destruct (starts_with s_standalone s5).
    - destruct (scan_attribute s5) as [[[[p6 l6] v6] s6]|] eqn:E6; [|discriminate].
      apply scan_attribute_rest in E6. inversion H7; subst. lia.
    - inversion H7; subst. lia. }
  destruct (if starts_with s_standalone s5
            then match scan_attribute s5 with
                 | Some (_, _, _, s6) => Some s6
                 | None => None
                 end
            else Some s5) as [s7|] eqn:E7; [|discriminate].
  specialize (Hsa _ eq_refl). clear E7.
  apply strip_prefix_le in H. pose proof (skip_spaces_length s7). lia.
Qed.

(** * The recursive functions return a shorter rest *)

Lemma parse_attrs_rest : forall f s l e r,
  parse_attrs f s = POk (l, e, r) -> length r < length s.
Proof.
  induction f as [|f IH]; intros s l e r H; cbn [parse_attrs] in H; [discriminate|].
  pose proof (skip_spaces_length s) as Hs.
  destruct (skip_spaces s) as [|b r0]; [discriminate|]. cbn [length] in Hs.
  destruct (b =? 47)%N.
  { destruct r0 as [|c r1]; [discriminate|].
    num_cases H c. inversion H; subst. cbn [length] in Hs. lia. }
  destruct (b =? 62)%N.
  { inversion H; subst. lia. }
  destruct (negb (starts_with_space s)); [discriminate|].
  destruct (scan_attribute (b :: r0)) as [[[[p l0] v] rest]|] eqn:Ea;
    cbn [of_opt pbind] in H; [|discriminate].
  apply scan_attribute_rest in Ea. cbn [length] in Ea.
  destruct (normalize_attr v) as [v'|]; cbn [of_opt pbind] in H; [|discriminate].
  destruct (parse_attrs f rest) as [[[l' e'] rest']| |] eqn:Ep; cbn [pbind] in H; try discriminate.
  inversion H; subst. apply IH in Ep. lia.
Qed.

Lemma parse_misc_rest : forall f s l r,
  parse_misc f s = POk (l, r) -> length r <= length s.
Proof.
  induction f as [|f IH]; intros s l r H; cbn [parse_misc] in H; [discriminate|].
  pose proof (skip_spaces_length s) as Hs.
  destruct (strip_prefix s_comment_open (skip_spaces s)) as [r0|] eqn:E1.
  { apply strip_prefix_le in E1.
    destruct (parse_comment r0) as [[c rest]|] eqn:Ec; cbn [of_opt pbind] in H; [|discriminate].
    apply parse_comment_rest in Ec.
    destruct (parse_misc f rest) as [[l' rest']| |] eqn:Ep; cbn [pbind] in H; try discriminate.
    inversion H; subst. apply IH in Ep. lia. }
  destruct (strip_prefix s_pi_open (skip_spaces s)) as [r0|] eqn:E2.
  { apply strip_prefix_le in E2.
    destruct (parse_pi r0) as [[c rest]|] eqn:Ec; cbn [of_opt pbind] in H; [|discriminate].
    apply parse_pi_rest in Ec.
    destruct (parse_misc f rest) as [[l' rest']| |] eqn:Ep; cbn [pbind] in H; try discriminate.
    inversion H; subst. apply IH in Ep. lia. }
  inversion H; subst. exact Hs.
Qed.

(** [parse_element_with]: the rest is shorter when [content] does not lengthen *)
Lemma parse_element_with_rest_gen : forall fa content ps s n cnt r,
  (forall sc p l s' ch c r', content sc p l s' = POk (ch, c, r') -> length r' <= length s') ->
  parse_element_with fa content ps s = POk (n, cnt, r) -> length r < length s.
Proof.
  intros fa content ps s n cnt r Hc H. unfold parse_element_with in H.
  destruct (scan_qname s) as [[[prefix local] r0]|] eqn:Eq; cbn [of_opt pbind] in H; [|discriminate].
  apply scan_qname_rest in Eq.
  destruct (xstr_eqb prefix s_xmlns); [discriminate|].
  destruct (parse_attrs fa r0) as [[[raw e] rest]| |] eqn:Ea;
    cbn [pbind] in H; try discriminate.
  apply parse_attrs_rest in Ea.
  destruct (split_attrs raw [] []) as [[own plain]|]; cbn [of_opt pbind] in H; [|discriminate].
  destruct (resolve_attrs (resolve_scope ps own) plain []) as [attrs|];
    cbn [of_opt pbind] in H; [|discriminate].
  destruct (ns_by_prefix prefix (resolve_scope ps own)) as [ns|];
    cbn [of_opt pbind] in H; [|discriminate].
  destruct e.
  - inversion H; subst. lia.
  - destruct (content (resolve_scope ps own) prefix local rest) as [[[ch c] rest']| |] eqn:Ec;
      cbn [pbind] in H; try discriminate.
    inversion H; subst. apply Hc in Ec. lia.
Qed.

Lemma parse_content_rest : forall f sc pp pl s ch cnt r,
  parse_content f sc pp pl s = POk (ch, cnt, r) -> length r < length s.
Proof.
  induction f as [|f IH]; intros sc pp pl s ch cnt r H; cbn [parse_content] in H; [discriminate|].
  destruct s as [|b s']; [discriminate|].
  destruct (b =? 60)%N eqn:Eb.
  - destruct s' as [|c r2]; [discriminate|].
    destruct (c =? 33)%N.
    { destruct (strip_prefix s_dashdash r2) as [r3|] eqn:E1.
      - apply strip_prefix_le in E1.
        destruct (parse_comment r3) as [[n rest]|] eqn:Ec; cbn [of_opt pbind] in H; [|discriminate].
        apply parse_comment_rest in Ec.
        destruct (parse_content f sc pp pl rest) as [[[ch' cnt'] rest']| |] eqn:Ep;
          cbn [pbind] in H; try discriminate.
        inversion H; subst. apply IH in Ep. cbn [length]. lia.
      - destruct (strip_prefix s_cdata_open r2) as [r3|] eqn:E2; [|discriminate].
        apply strip_prefix_le in E2.
        destruct (scan_until s_cdata_end r3) as [[t rest]|] eqn:Ec;
          cbn [of_opt pbind] in H; [|discriminate].
        apply scan_until_le in Ec.
        destruct (parse_content f sc pp pl rest) as [[[ch' cnt'] rest']| |] eqn:Ep;
          cbn [pbind] in H; try discriminate.
        inversion H; subst. apply IH in Ep. cbn [length]. lia. }
    destruct (c =? 63)%N.
    { destruct (parse_pi r2) as [[n rest]|] eqn:Ec; cbn [of_opt pbind] in H; [|discriminate].
      apply parse_pi_rest in Ec.
      destruct (parse_content f sc pp pl rest) as [[[ch' cnt'] rest']| |] eqn:Ep;
        cbn [pbind] in H; try discriminate.
      inversion H; subst. apply IH in Ep. cbn [length]. lia. }
    destruct (c =? 47)%N.
    { destruct (scan_qname r2) as [[[p l] r3]|] eqn:Eq; cbn [of_opt pbind] in H; [|discriminate].
      apply scan_qname_rest in Eq.
      pose proof (skip_spaces_length r3) as Hs.
      destruct (skip_spaces r3) as [|d rest]; [discriminate|].
      num_cases H d.
      destruct (xstr_eqb p pp && xstr_eqb l pl); [|discriminate].
      inversion H; subst. cbn [length] in *. lia. }
    destruct (parse_element_with f (parse_content f) (Some sc) (c :: r2)) as [[[n c1] rest]| |] eqn:Ee;
      cbn [pbind] in H; try discriminate.
    apply parse_element_with_rest_gen in Ee;
      [|intros sc0 p0 l0 s0 ch0 c0 r0 H0; apply IH in H0; lia].
    destruct (parse_content f sc pp pl rest) as [[[ch' cnt'] rest']| |] eqn:Ep;
      cbn [pbind] in H; try discriminate.
    inversion H; subst. apply IH in Ep. cbn [length] in *. lia.
  - destruct (scan_text (b :: s')) as [[t rest]|] eqn:Et; cbn [of_opt pbind] in H; [|discriminate].
    apply scan_text_le in Et.
    destruct (contains s_cdata_end t); [discriminate|].
    destruct (process_text t) as [t'|]; cbn [of_opt pbind] in H; [|discriminate].
    destruct (parse_content f sc pp pl rest) as [[[ch' cnt'] rest']| |] eqn:Ep;
      cbn [pbind] in H; try discriminate.
    inversion H; subst. apply IH in Ep. lia.
Qed.

Lemma parse_element_with_rest : forall fa f ps s n cnt r,
  parse_element_with fa (parse_content f) ps s = POk (n, cnt, r) -> length r < length s.
Proof.
  intros fa f ps s n cnt r H. apply parse_element_with_rest_gen in H; [exact H|].
  intros sc p l s' ch c r' H0. apply parse_content_rest in H0. lia.
Qed.

Lemma parse_element_rest : forall f ps s n cnt r,
  parse_element f ps s = POk (n, cnt, r) -> length r < length s.
Proof. intros f ps s n cnt r. unfold parse_element. apply parse_element_with_rest. Qed.

(** * Fuel above the length of the input is never exhausted *)

Lemma parse_attrs_fuel : forall f s, length s < f -> parse_attrs f s <> PFuel.
Proof.
  induction f as [|f IH]; intros s Hlt H; [lia|]. cbn [parse_attrs] in H.
  pose proof (skip_spaces_length s) as Hs.
  destruct (skip_spaces s) as [|b r0]; [discriminate|]. cbn [length] in Hs.
  destruct (b =? 47)%N.
  { destruct r0 as [|c r1]; [discriminate|]. num_cases H c. }
  destruct (b =? 62)%N; [discriminate|].
  destruct (negb (starts_with_space s)); [discriminate|].
  destruct (scan_attribute (b :: r0)) as [[[[p l0] v] rest]|] eqn:Ea;
    cbn [of_opt pbind] in H; [|discriminate].
  apply scan_attribute_rest in Ea. cbn [length] in Ea.
  destruct (normalize_attr v) as [v'|]; cbn [of_opt pbind] in H; [|discriminate].
  apply pbind_fuel_last in H; [|intros [[l' e'] rest']; discriminate].
  revert H. apply IH. lia.
Qed.

Lemma parse_misc_fuel : forall f s, length s < f -> parse_misc f s <> PFuel.
Proof.
  induction f as [|f IH]; intros s Hlt H; [lia|]. cbn [parse_misc] in H.
  pose proof (skip_spaces_length s) as Hs.
  destruct (strip_prefix s_comment_open (skip_spaces s)) as [r0|] eqn:E1.
  { apply strip_prefix_le in E1.
    destruct (parse_comment r0) as [[c rest]|] eqn:Ec; cbn [of_opt pbind] in H; [|discriminate].
    apply parse_comment_rest in Ec.
    apply pbind_fuel_last in H; [|intros [l' rest']; discriminate].
    revert H. apply IH. lia. }
  destruct (strip_prefix s_pi_open (skip_spaces s)) as [r0|] eqn:E2; [|discriminate].
  apply strip_prefix_le in E2.
  destruct (parse_pi r0) as [[c rest]|] eqn:Ec; cbn [of_opt pbind] in H; [|discriminate].
  apply parse_pi_rest in Ec.
  apply pbind_fuel_last in H; [|intros [l' rest']; discriminate].
  revert H. apply IH. lia.
Qed.

Lemma parse_element_with_fuel : forall fa content ps s,
  length s <= fa ->
  (forall sc p l s', length s' < length s -> content sc p l s' <> PFuel) ->
  parse_element_with fa content ps s <> PFuel.
Proof.
  intros fa content ps s Hfa Hc H. unfold parse_element_with in H.
  destruct (scan_qname s) as [[[prefix local] r0]|] eqn:Eq; cbn [of_opt pbind] in H; [|discriminate].
  apply scan_qname_rest in Eq.
  destruct (xstr_eqb prefix s_xmlns); [discriminate|].
  destruct (parse_attrs fa r0) as [[[raw e] rest]| |] eqn:Ea;
    cbn [pbind] in H; [|discriminate|].
  2:{ revert Ea. apply parse_attrs_fuel. lia. }
  apply parse_attrs_rest in Ea.
  destruct (split_attrs raw [] []) as [[own plain]|]; cbn [of_opt pbind] in H; [|discriminate].
  destruct (resolve_attrs (resolve_scope ps own) plain []) as [attrs|];
    cbn [of_opt pbind] in H; [|discriminate].
  destruct (ns_by_prefix prefix (resolve_scope ps own)) as [ns|];
    cbn [of_opt pbind] in H; [|discriminate].
  destruct e; [discriminate|].
  apply pbind_fuel_last in H; [|intros [[ch c] rest']; discriminate].
  revert H. apply Hc. lia.
Qed.

Lemma parse_content_fuel : forall f sc pp pl s,
  length s < f -> parse_content f sc pp pl s <> PFuel.
Proof.
  induction f as [|f IH]; intros sc pp pl s Hlt H; [lia|]. cbn [parse_content] in H.
  destruct s as [|b s']; [discriminate|]. cbn [length] in Hlt.
  destruct (b =? 60)%N eqn:Eb.
  - destruct s' as [|c r2]; [discriminate|]. cbn [length] in Hlt.
    destruct (c =? 33)%N.
    { destruct (strip_prefix s_dashdash r2) as [r3|] eqn:E1.
      - apply strip_prefix_le in E1.
        destruct (parse_comment r3) as [[n rest]|] eqn:Ec; cbn [of_opt pbind] in H; [|discriminate].
        apply parse_comment_rest in Ec.
        apply pbind_fuel_last in H; [|intros [[ch' cnt'] rest']; discriminate].
        revert H. apply IH. lia.
      - destruct (strip_prefix s_cdata_open r2) as [r3|] eqn:E2; [|discriminate].
        apply strip_prefix_le in E2.
        destruct (scan_until s_cdata_end r3) as [[t rest]|] eqn:Ec;
          cbn [of_opt pbind] in H; [|discriminate].
        apply scan_until_le in Ec.
        apply pbind_fuel_last in H; [|intros [[ch' cnt'] rest']; discriminate].
        revert H. apply IH. lia. }
    destruct (c =? 63)%N.
    { destruct (parse_pi r2) as [[n rest]|] eqn:Ec; cbn [of_opt pbind] in H; [|discriminate].
      apply parse_pi_rest in Ec.
      apply pbind_fuel_last in H; [|intros [[ch' cnt'] rest']; discriminate].
      revert H. apply IH. lia. }
    destruct (c =? 47)%N.
    { destruct (scan_qname r2) as [[[p l] r3]|] eqn:Eq; cbn [of_opt pbind] in H; [|discriminate].
      destruct (skip_spaces r3) as [|d rest]; [discriminate|].
      num_cases H d.
      destruct (xstr_eqb p pp && xstr_eqb l pl); discriminate. }
    destruct (parse_element_with f (parse_content f) (Some sc) (c :: r2)) as [[[n c1] rest]| |] eqn:Ee;
      cbn [pbind] in H; [|discriminate|].
    + apply parse_element_with_rest in Ee. cbn [length] in Ee.
      apply pbind_fuel_last in H; [|intros [[ch' cnt'] rest']; discriminate].
      revert H. apply IH. lia.
    + revert Ee. apply parse_element_with_fuel; [cbn [length]; lia|].
      intros sc0 p0 l0 s0 H0. apply IH. cbn [length] in H0. lia.
  - destruct (scan_text (b :: s')) as [[t rest]|] eqn:Et; cbn [of_opt pbind] in H; [|discriminate].
    apply scan_text_rest in Et; [|exact Eb]. cbn [length] in Et.
    destruct (contains s_cdata_end t); [discriminate|].
    destruct (process_text t) as [t'|]; cbn [of_opt pbind] in H; [|discriminate].
    apply pbind_fuel_last in H; [|intros [[ch' cnt'] rest']; discriminate].
    revert H. apply IH. lia.
Qed.

Lemma parse_element_fuel : forall f ps s, length s <= f -> parse_element f ps s <> PFuel.
Proof.
  intros f ps s Hle. unfold parse_element. apply parse_element_with_fuel; [exact Hle|].
  intros sc p l s' Hlt. apply parse_content_fuel. lia.
Qed.

Theorem parse_document_fuel : forall bytes, parse_document (S (length bytes)) bytes <> PFuel.
Proof.
  intros bytes H. unfold parse_document in H.
  set (s0 := match strip_prefix s_bom bytes with Some r => r | None => bytes end) in H.
  assert (Hs0 : length s0 <= length bytes).
  { subst s0. destruct (strip_prefix s_bom bytes) as [r|] eqn:E; [|lia].
    apply strip_prefix_le in E. exact E. }
  destruct (if starts_with s_decl_open s0
            then of_opt (parse_declaration (skipn 5 s0)) else POk s0) as [s1| |] eqn:E1;
    cbn [pbind] in H; [|discriminate|].
  2:{ destruct (starts_with s_decl_open s0); [|discriminate].
      revert E1. apply of_opt_nofuel. }
  assert (Hs1 : length s1 <= length s0).
  { destruct (starts_with s_decl_open s0).
    - apply of_opt_ok in E1. apply parse_declaration_length in E1.
      rewrite skipn_length in E1. lia.
    - inversion E1; subst. lia. }
  clear E1.
  destruct (parse_misc (S (length bytes)) s1) as [[pre s2]| |] eqn:Em;
    cbn [pbind] in H; [|discriminate|].
  2:{ revert Em. apply parse_misc_fuel. lia. }
  apply parse_misc_rest in Em.
  destruct (starts_with s_doctype s2); [discriminate|].
  destruct s2 as [|c r]; [discriminate|]. cbn [length] in Em.
  num_cases H c.
  destruct (parse_element (S (length bytes)) None r) as [[[root cnt] s3]| |] eqn:Ee;
    cbn [pbind] in H; [|discriminate|].
  2:{ revert Ee. apply parse_element_fuel. lia. }
  apply parse_element_rest in Ee.
  destruct (parse_misc (S (length bytes)) s3) as [[post s4]| |] eqn:Em2;
    cbn [pbind] in H; [|discriminate|].
  - destruct (is_nil s4); discriminate.
  - revert Em2. apply parse_misc_fuel. lia.
Qed.

Corollary xml_parse_fuel : forall bytes,
  xml_parse bytes = Unsupported ->
  exists d cnt, parse_document (S (length bytes)) bytes = POk (d, cnt) /\
                (cnt <=? NS_LIMIT)%N = false.
Proof.
  intros bytes H. unfold xml_parse in H.
  pose proof (parse_document_fuel bytes) as Hf.
  destruct (parse_document (S (length bytes)) bytes) as [[d cnt]| |]; [|discriminate|congruence].
  exists d, cnt. split; [reflexivity|].
  destruct (cnt <=? NS_LIMIT)%N; [discriminate|reflexivity].
Qed.

(** * More fuel never changes a result that is not [PFuel] *)

(** the recursive call is the first action of the rest of a [pbind] chain *)
Ltac mono_step IH :=
  rewrite IH; [reflexivity | lia | eapply pbind_nofuel_l; eassumption].

Lemma parse_attrs_mono : forall f f' s,
  f <= f' -> parse_attrs f s <> PFuel -> parse_attrs f' s = parse_attrs f s.
Proof.
  induction f as [|f IH]; intros f' s Hle H.
  { cbn [parse_attrs] in H. congruence. }
  destruct f' as [|f']; [lia|]. cbn [parse_attrs] in *.
  destruct (skip_spaces s) as [|b r0]; [reflexivity|].
  destruct (b =? 47)%N; [reflexivity|].
  destruct (b =? 62)%N; [reflexivity|].
  destruct (negb (starts_with_space s)); [reflexivity|].
  destruct (scan_attribute (b :: r0)) as [[[[p l0] v] rest]|];
    cbn [of_opt pbind] in *; [|reflexivity].
  destruct (normalize_attr v) as [v'|]; cbn [of_opt pbind] in *; [|reflexivity].
  mono_step IH.
Qed.

Lemma parse_misc_mono : forall f f' s,
  f <= f' -> parse_misc f s <> PFuel -> parse_misc f' s = parse_misc f s.
Proof.
  induction f as [|f IH]; intros f' s Hle H.
  { cbn [parse_misc] in H. congruence. }
  destruct f' as [|f']; [lia|]. cbn [parse_misc] in *.
  destruct (strip_prefix s_comment_open (skip_spaces s)) as [r0|].
  { destruct (parse_comment r0) as [[c rest]|]; cbn [of_opt pbind] in *; [|reflexivity].
    mono_step IH. }
  destruct (strip_prefix s_pi_open (skip_spaces s)) as [r0|]; [|reflexivity].
  destruct (parse_pi r0) as [[c rest]|]; cbn [of_opt pbind] in *; [|reflexivity].
  mono_step IH.
Qed.

Lemma parse_element_with_mono : forall fa fa' c1 c2 ps s,
  fa <= fa' ->
  (forall sc p l s', c1 sc p l s' <> PFuel -> c2 sc p l s' = c1 sc p l s') ->
  parse_element_with fa c1 ps s <> PFuel ->
  parse_element_with fa' c2 ps s = parse_element_with fa c1 ps s.
Proof.
  intros fa fa' c1 c2 ps s Hfa Hc H. unfold parse_element_with in *.
  destruct (scan_qname s) as [[[prefix local] r0]|]; cbn [of_opt pbind] in *; [|reflexivity].
  destruct (xstr_eqb prefix s_xmlns); [reflexivity|].
  rewrite (parse_attrs_mono fa fa' r0 Hfa); [|eapply pbind_nofuel_l; eassumption].
  destruct (parse_attrs fa r0) as [[[raw e] rest]| |];
    cbn [pbind] in *; try reflexivity.
  destruct (split_attrs raw [] []) as [[own plain]|]; cbn [of_opt pbind] in *; [|reflexivity].
  destruct (resolve_attrs (resolve_scope ps own) plain []) as [attrs|];
    cbn [of_opt pbind] in *; [|reflexivity].
  destruct (ns_by_prefix prefix (resolve_scope ps own)) as [ns|];
    cbn [of_opt pbind] in *; [|reflexivity].
  destruct e; [reflexivity|].
  rewrite Hc; [reflexivity|]. eapply pbind_nofuel_l; eassumption.
Qed.

Lemma parse_content_mono : forall f f' sc pp pl s,
  f <= f' -> parse_content f sc pp pl s <> PFuel ->
  parse_content f' sc pp pl s = parse_content f sc pp pl s.
Proof.
  induction f as [|f IH]; intros f' sc pp pl s Hle H.
  { cbn [parse_content] in H. congruence. }
  destruct f' as [|f']; [lia|]. cbn [parse_content] in *.
  destruct s as [|b s']; [reflexivity|].
  destruct (b =? 60)%N.
  - destruct s' as [|c r2]; [reflexivity|].
    destruct (c =? 33)%N.
    { destruct (strip_prefix s_dashdash r2) as [r3|].
      - destruct (parse_comment r3) as [[n rest]|]; cbn [of_opt pbind] in *; [|reflexivity].
        mono_step IH.
      - destruct (strip_prefix s_cdata_open r2) as [r3|]; [|reflexivity].
        destruct (scan_until s_cdata_end r3) as [[t rest]|]; cbn [of_opt pbind] in *; [|reflexivity].
        mono_step IH. }
    destruct (c =? 63)%N.
    { destruct (parse_pi r2) as [[n rest]|]; cbn [of_opt pbind] in *; [|reflexivity].
      mono_step IH. }
    destruct (c =? 47)%N; [reflexivity|].
    assert (Ee : parse_element_with f' (parse_content f') (Some sc) (c :: r2)
                 = parse_element_with f (parse_content f) (Some sc) (c :: r2)).
    { apply parse_element_with_mono.
      - lia.
      - intros sc0 p0 l0 s0 H0. apply IH; [lia|exact H0].
      - eapply pbind_nofuel_l; eassumption. }
    rewrite Ee. clear Ee.
    destruct (parse_element_with f (parse_content f) (Some sc) (c :: r2)) as [[[n c1] rest]| |];
      cbn [pbind] in *; try reflexivity.
    mono_step IH.
  - destruct (scan_text (b :: s')) as [[t rest]|]; cbn [of_opt pbind] in *; [|reflexivity].
    destruct (contains s_cdata_end t); [reflexivity|].
    destruct (process_text t) as [t'|]; cbn [of_opt pbind] in *; [|reflexivity].
    mono_step IH.
Qed.

Lemma parse_element_mono : forall f f' ps s,
  f <= f' -> parse_element f ps s <> PFuel -> parse_element f' ps s = parse_element f ps s.
Proof.
  intros f f' ps s Hle H. unfold parse_element in *. apply parse_element_with_mono; [exact Hle| |exact H].
  intros sc p l s' H0. apply parse_content_mono; [exact Hle|exact H0].
Qed.

Lemma parse_attrs_ok_mono : forall f f' s x,
  parse_attrs f s = POk x -> f <= f' -> parse_attrs f' s = POk x.
Proof.
  intros f f' s x H Hle. rewrite (parse_attrs_mono f f' s Hle); [exact H|].
  rewrite H. discriminate.
Qed.

Lemma parse_misc_ok_mono : forall f f' s x,
  parse_misc f s = POk x -> f <= f' -> parse_misc f' s = POk x.
Proof.
  intros f f' s x H Hle. rewrite (parse_misc_mono f f' s Hle); [exact H|].
  rewrite H. discriminate.
Qed.

Lemma parse_content_ok_mono : forall f f' sc pp pl s x,
  parse_content f sc pp pl s = POk x -> f <= f' -> parse_content f' sc pp pl s = POk x.
Proof.
  intros f f' sc pp pl s x H Hle. rewrite (parse_content_mono f f' sc pp pl s Hle); [exact H|].
  rewrite H. discriminate.
Qed.

Lemma parse_element_ok_mono : forall f f' ps s x,
  parse_element f ps s = POk x -> f <= f' -> parse_element f' ps s = POk x.
Proof.
  intros f f' ps s x H Hle. rewrite (parse_element_mono f f' ps s Hle); [exact H|].
  rewrite H. discriminate.
Qed.

(** errors are stable as well *)
Lemma parse_content_err_mono : forall f f' sc pp pl s,
  parse_content f sc pp pl s = PErr -> f <= f' -> parse_content f' sc pp pl s = PErr.
Proof.
  intros f f' sc pp pl s H Hle. rewrite (parse_content_mono f f' sc pp pl s Hle); [exact H|].
  rewrite H. discriminate.
Qed.

Lemma parse_element_err_mono : forall f f' ps s,
  parse_element f ps s = PErr -> f <= f' -> parse_element f' ps s = PErr.
Proof.
  intros f f' ps s H Hle. rewrite (parse_element_mono f f' ps s Hle); [exact H|].
  rewrite H. discriminate.
Qed.

(** * The document: any fuel above the length of the input gives the same result *)

Lemma parse_document_mono : forall f f' bytes,
  f <= f' -> parse_document f bytes <> PFuel -> parse_document f' bytes = parse_document f bytes.
Proof.
  intros f f' bytes Hle H. unfold parse_document in *.
  set (s0 := match strip_prefix s_bom bytes with Some r => r | None => bytes end) in *.
  destruct (if starts_with s_decl_open s0
            then of_opt (parse_declaration (skipn 5 s0)) else POk s0) as [s1| |];
    cbn [pbind] in *; try reflexivity.
  rewrite (parse_misc_mono f f' s1 Hle); [|eapply pbind_nofuel_l; eassumption].
  destruct (parse_misc f s1) as [[pre s2]| |]; cbn [pbind] in *; try reflexivity.
  destruct (starts_with s_doctype s2); [reflexivity|].
  destruct s2 as [|c r]; [reflexivity|].
  destruct (N.eq_dec c 60) as [->|Hc].
  - rewrite (parse_element_mono f f' None r Hle); [|eapply pbind_nofuel_l; eassumption].
    destruct (parse_element f None r) as [[[root cnt] s3]| |]; cbn [pbind] in *; try reflexivity.
    rewrite (parse_misc_mono f f' s3 Hle); [reflexivity|eapply pbind_nofuel_l; eassumption].
  - clear H. destruct c as [|q]; [reflexivity|].
    do 6 (destruct q as [q|q|]; try reflexivity). congruence.
Qed.

Corollary parse_document_any_fuel : forall f bytes,
  length bytes < f -> parse_document f bytes = parse_document (S (length bytes)) bytes.
Proof.
  intros f bytes Hlt. apply parse_document_mono; [lia|]. apply parse_document_fuel.
Qed.
