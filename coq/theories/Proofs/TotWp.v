(** Totality / cost slice (C08, C09): a weakest-precondition calculus for reader
    programs.  [wp spec p Q off] says: whatever results the page-layer
    operations of [p] deliver - as long as every result is one that [spec]
    allows at the logical offset where the operation is issued - the program
    never reaches [RPanic], and when it returns [a] at offset [off'] then
    [Q a off'].  Two instances of [spec] are proved sound here:
    - [shape_spec]: only the shape of a result (no [Panic]; bytes for reads,
      a number for seek, unit for align).  Sound for [rrun] on EVERY reader
      state and EVERY device (any contents, any size, with or without an
      injected fault): [pr_step_shape].
    - [gspec ps ls]: additionally what happens to the logical offset and how
      many bytes come back.  Sound for the cache-less validating reader
      [gr_step] over any physical image ([gr_step_gspec]) and hence, through
      [rrun_g_equiv], for [rrun] on every reader state that satisfies [pr_inv]
      (every state reachable on a fault-free device). *)
From E57 Require Import Base.Prelude Model.Crc Model.Device Model.PagedReader Spec.PageReadSpec Model.Prog.
From E57 Require Import Proofs.PageSpecLemmas Proofs.PagedReaderCache Proofs.ReaderProgSem.
From Coq Require Import ZifyN ZifyNat ZifyBool.
Ltac Zify.zify_post_hook ::= Z.div_mod_to_equations.

Definition opspec := pr_op -> N -> res pr_out -> N -> Prop.

Fixpoint wp {A} (spec : opspec) (p : rprog A) (Q : A -> N -> Prop) (off : N) : Prop :=
  match p with
  | RRet a => Q a off
  | RErr _ => True
  | RPanic => False
  | ROp o k => forall r off', spec o off r off' -> wp spec (k r) Q off'
  end.

(** the verdict on a final (offset, result) pair *)
Definition post {A} (Q : A -> N -> Prop) (off : N) (r : res A) : Prop :=
  match r with Ok a => Q a off | Err _ => True | Panic => False end.

Lemma post_no_panic {A} (Q : A -> N -> Prop) off r : post Q off r -> r <> Panic.
Proof. destruct r; cbn; congruence. Qed.

Lemma wp_mono {A} spec (p : rprog A) (Q Q' : A -> N -> Prop) :
  (forall a off, Q a off -> Q' a off) -> forall off, wp spec p Q off -> wp spec p Q' off.
Proof.
  intros HQ. induction p as [a|e| |o k IH]; cbn; intros off H; [auto|auto|auto|].
  intros r off' Hs. apply IH. apply H. exact Hs.
Qed.

Lemma wp_spec_mono {A} (spec spec' : opspec) (p : rprog A) Q :
  (forall o off r off', spec' o off r off' -> spec o off r off') ->
  forall off, wp spec p Q off -> wp spec' p Q off.
Proof.
  intros Hs. induction p as [a|e| |o k IH]; cbn; intros off H; [auto|auto|auto|].
  intros r off' Hs'. apply IH. apply H. apply Hs. exact Hs'.
Qed.

Lemma wp_conj {A} spec (p : rprog A) (Q1 Q2 : A -> N -> Prop) :
  forall off, wp spec p Q1 off -> wp spec p Q2 off -> wp spec p (fun a o => Q1 a o /\ Q2 a o) off.
Proof.
  induction p as [a|e| |o k IH]; cbn; intros off H1 H2; [auto|auto|auto|].
  intros r off' Hs. apply IH; auto.
Qed.

Lemma wp_bind {A B} spec (p : rprog A) (f : A -> rprog B) (Q : B -> N -> Prop) :
  forall off, wp spec p (fun a off1 => wp spec (f a) Q off1) off -> wp spec (rbind p f) Q off.
Proof.
  induction p as [a|e| |o k IH]; cbn; intros off H; [auto|auto|auto|].
  intros r off' Hs. apply IH. apply H. exact Hs.
Qed.

(** the usual way to use [wp_bind]: an intermediate assertion *)
Lemma wp_bind_with {A B} spec (p : rprog A) (f : A -> rprog B) (R : A -> N -> Prop) (Q : B -> N -> Prop) off :
  wp spec p R off -> (forall a off1, R a off1 -> wp spec (f a) Q off1) -> wp spec (rbind p f) Q off.
Proof.
  intros H1 H2. apply wp_bind. eapply wp_mono; [|exact H1]. exact H2.
Qed.

Lemma wp_rlift {A} spec (r : res A) (Q : A -> N -> Prop) off :
  post Q off r -> wp spec (rlift r) Q off.
Proof. destruct r; cbn; auto. Qed.


(** * The partial variant: [RPanic] leaves are not judged.  Quantitative facts
    (offsets, queue sizes) are proved with [wpp], freedom from panics with
    [wp]; [wp_conj_partial] puts them together. *)
Fixpoint wpp {A} (spec : opspec) (p : rprog A) (Q : A -> N -> Prop) (off : N) : Prop :=
  match p with
  | RRet a => Q a off
  | RErr _ => True
  | RPanic => True
  | ROp o k => forall r off', spec o off r off' -> wpp spec (k r) Q off'
  end.

Definition postp {A} (Q : A -> N -> Prop) (off : N) (r : res A) : Prop :=
  match r with Ok a => Q a off | Err _ => True | Panic => True end.

Lemma wp_wpp {A} spec (p : rprog A) Q : forall off, wp spec p Q off -> wpp spec p Q off.
Proof.
  induction p as [a|e| |o k IH]; cbn; intros off H; [auto|auto|auto|].
  intros r off' Hs. apply IH. apply H. exact Hs.
Qed.

Lemma wpp_mono {A} spec (p : rprog A) (Q Q' : A -> N -> Prop) :
  (forall a off, Q a off -> Q' a off) -> forall off, wpp spec p Q off -> wpp spec p Q' off.
Proof.
  intros HQ. induction p as [a|e| |o k IH]; cbn; intros off H; [auto|auto|auto|].
  intros r off' Hs. apply IH. apply H. exact Hs.
Qed.

Lemma wpp_spec_mono {A} (spec spec' : opspec) (p : rprog A) Q :
  (forall o off r off', spec' o off r off' -> spec o off r off') ->
  forall off, wpp spec p Q off -> wpp spec' p Q off.
Proof.
  intros Hs. induction p as [a|e| |o k IH]; cbn; intros off H; [auto|auto|auto|].
  intros r off' Hs'. apply IH. apply H. apply Hs. exact Hs'.
Qed.

Lemma wpp_bind {A B} spec (p : rprog A) (f : A -> rprog B) (Q : B -> N -> Prop) :
  forall off, wpp spec p (fun a off1 => wpp spec (f a) Q off1) off -> wpp spec (rbind p f) Q off.
Proof.
  induction p as [a|e| |o k IH]; cbn; intros off H; [auto|auto|auto|].
  intros r off' Hs. apply IH. apply H. exact Hs.
Qed.

Lemma wpp_bind_with {A B} spec (p : rprog A) (f : A -> rprog B) (R : A -> N -> Prop) (Q : B -> N -> Prop) off :
  wpp spec p R off -> (forall a off1, R a off1 -> wpp spec (f a) Q off1) -> wpp spec (rbind p f) Q off.
Proof.
  intros H1 H2. apply wpp_bind. eapply wpp_mono; [|exact H1]. exact H2.
Qed.

Lemma wpp_rlift {A} spec (r : res A) (Q : A -> N -> Prop) off :
  postp Q off r -> wpp spec (rlift r) Q off.
Proof. destruct r; cbn; auto. Qed.

Lemma wpp_conj {A} spec (p : rprog A) (Q1 Q2 : A -> N -> Prop) :
  forall off, wpp spec p Q1 off -> wpp spec p Q2 off -> wpp spec p (fun a o => Q1 a o /\ Q2 a o) off.
Proof.
  induction p as [a|e| |o k IH]; cbn; intros off H1 H2; [auto|auto|auto|].
  intros r off' Hs. apply IH; auto.
Qed.

Lemma wp_conj_partial {A} spec (p : rprog A) (Q1 Q2 : A -> N -> Prop) :
  forall off, wp spec p Q1 off -> wpp spec p Q2 off -> wp spec p (fun a o => Q1 a o /\ Q2 a o) off.
Proof.
  induction p as [a|e| |o k IH]; cbn; intros off H1 H2; [auto|auto|auto|].
  intros r off' Hs. apply IH; auto.
Qed.

(** a [wpp] fact may use what a [wp] fact established for the intermediate value *)
Lemma wpp_bind_using {A B} spec (p : rprog A) (f : A -> rprog B) (R R' : A -> N -> Prop) (Q : B -> N -> Prop) off :
  wp spec p R off -> wpp spec p R' off ->
  (forall a off1, R a off1 -> R' a off1 -> wpp spec (f a) Q off1) -> wpp spec (rbind p f) Q off.
Proof.
  intros H1 H2 H3. apply wpp_bind.
  eapply wpp_mono; [|apply wp_wpp; apply (wp_conj_partial spec p R R' off H1 H2)].
  intros a off1 [Ha Hb]. apply H3; assumption.
Qed.

(** * Soundness *)

(** on any state type with any step function that respects [spec] *)
Section Sound.
  Context {St : Type} (step : pr_op -> St -> St * res pr_out) (offs : St -> N) (spec : opspec).
  Fixpoint grun {A} (p : rprog A) (s : St) : St * res A :=
    match p with
    | RRet a => (s, Ok a)
    | RErr k => (s, Err k)
    | RPanic => (s, Panic)
    | ROp o k => let '(s1, r) := step o s in grun (k r) s1
    end.
  Hypothesis step_ok : forall o s, spec o (offs s) (snd (step o s)) (offs (fst (step o s))).
  Lemma wp_sound_grun {A} (p : rprog A) Q : forall s,
    wp spec p Q (offs s) -> post Q (offs (fst (grun p s))) (snd (grun p s)).
  Proof.
    induction p as [a|e| |o k IH]; cbn [grun wp]; intros s H.
    - exact H.
    - exact I.
    - contradiction.
    - specialize (step_ok o s). destruct (step o s) as [s1 r]. cbn [fst snd] in *.
      apply IH. apply H. exact step_ok.
  Qed.
  Lemma wpp_sound_grun {A} (p : rprog A) Q : forall s,
    wpp spec p Q (offs s) -> postp Q (offs (fst (grun p s))) (snd (grun p s)).
  Proof.
    induction p as [a|e| |o k IH]; cbn [grun wpp]; intros s H.
    - exact H.
    - exact I.
    - exact I.
    - specialize (step_ok o s). destruct (step o s) as [s1 r]. cbn [fst snd] in *.
      apply IH. apply H. exact step_ok.
  Qed.
End Sound.

Lemma rrun_is_grun {A} (p : rprog A) : forall s, rrun p s = grun pr_step p s.
Proof. induction p as [a|e| |o k IH]; cbn; intros s; auto; try (destruct (pr_step o s); apply IH). Qed.

Lemma rrun_g_is_grun {A} ps phys (p : rprog A) : forall off, rrun_g ps phys p off = grun (gr_step ps phys) p off.
Proof. induction p as [a|e| |o k IH]; cbn; intros off; auto; try (destruct (gr_step ps phys o off); apply IH). Qed.

(** * Instance 1: shapes only, every reader state *)

Definition shape_ok (o : pr_op) (r : res pr_out) : Prop :=
  match r with
  | Panic => False
  | Err _ => True
  | Ok out =>
      match o, out with
      | PrSeek _, PoNum _ => True
      | PrRead _, PoBytes _ => True
      | PrReadExact _, PoBytes _ => True
      | PrAlign, PoUnit => True
      | _, _ => False
      end
  end.

Definition shape_spec : opspec := fun o _ r _ => shape_ok o r.

Lemma tick_no_panic d : snd (tick d) <> Panic.
Proof. unfold tick. destruct (d_fault d) as [k|]; [destruct (k =? d_ops d)|]; cbn; congruence. Qed.

Lemma d_read_no_panic n d : snd (d_read n d) <> Panic.
Proof.
  unfold d_read, bind. pose proof (tick_no_panic d) as H. destruct (tick d) as [d1 [[]|k|]]; cbn in *; congruence.
Qed.

Lemma d_seek_start_no_panic p d : snd (d_seek_start p d) <> Panic.
Proof.
  unfold d_seek_start, bind. pose proof (tick_no_panic d) as H. destruct (tick d) as [d1 [[]|k|]]; cbn in *; congruence.
Qed.

Lemma d_seek_end_no_panic d : snd (d_seek_end d) <> Panic.
Proof.
  unfold d_seek_end, bind. pose proof (tick_no_panic d) as H. destruct (tick d) as [d1 [[]|k|]]; cbn in *; congruence.
Qed.

Lemma pr_lift_no_panic {A} (m : M dev A) s : snd (m (pr_dev s)) <> Panic -> snd (pr_lift m s) <> Panic.
Proof. unfold pr_lift. destruct (m (pr_dev s)) as [d r]. cbn. auto. Qed.

Lemma pr_fill_loop_no_panic : forall fuel done want s, snd (pr_fill_loop fuel done want s) <> Panic.
Proof.
  induction fuel as [|f IH]; intros done want s; cbn [pr_fill_loop]; [cbn; congruence|].
  destruct (want =? 0); [cbn; congruence|].
  unfold bind at 1.
  pose proof (pr_lift_no_panic (d_read want) s (d_read_no_panic want (pr_dev s))) as H.
  destruct (pr_lift (d_read want) s) as [s1 [got|k|]]; cbn [snd] in *; try congruence.
  destruct got as [|b got]; [cbn; congruence|].
  unfold bind. cbn [pr_set_buf]. apply IH.
Qed.

Lemma pr_read_page_no_panic page s : page < pr_pages s -> snd (pr_read_page page s) <> Panic.
Proof.
  intros Hp. unfold pr_read_page.
  destruct (pr_pages s <=? page) eqn:E; [lia|].
  unfold bind at 1.
  pose proof (pr_lift_no_panic (d_seek_start (page * pr_page_size s)) s (d_seek_start_no_panic _ _)) as H.
  destruct (pr_lift (d_seek_start (page * pr_page_size s)) s) as [s1 [x|k|]]; cbn [snd] in *; try congruence.
  unfold bind at 1.
  match goal with |- context [pr_fill_loop ?f ?d ?w ?st] =>
    pose proof (pr_fill_loop_no_panic f d w st) as H2; destruct (pr_fill_loop f d w st) as [s2 [x2|k|]] end;
    cbn [snd] in *; try congruence.
  match goal with |- context [list_eq_dec ?a ?b ?c] => destruct (list_eq_dec a b c) end; cbn; congruence.
Qed.

Lemma pr_read_shape n s : exists s' r, pr_read n s = (s', r) /\
  match r with Ok _ | Err _ => True | Panic => False end.
Proof.
  unfold pr_read. cbv zeta.
  destruct (pr_pages s <=? pr_off s / (pr_page_size s - CHECKSUM_SIZE)) eqn:E.
  - do 2 eexists. split; [reflexivity|exact I].
  - assert (Hp : pr_off s / (pr_page_size s - CHECKSUM_SIZE) < pr_pages s) by lia.
    pose proof (pr_read_page_no_panic _ s Hp) as Hrp.
    unfold bind at 1.
    destruct (pr_page_num s) as [p|].
    + destruct (p =? pr_off s / (pr_page_size s - CHECKSUM_SIZE)).
      * cbn. do 2 eexists. split; [reflexivity|exact I].
      * destruct (pr_read_page _ s) as [s1 [x|k|]]; cbn [snd] in *; try congruence;
          cbn; do 2 eexists; (split; [reflexivity|exact I]).
    + destruct (pr_read_page _ s) as [s1 [x|k|]]; cbn [snd] in *; try congruence;
        cbn; do 2 eexists; (split; [reflexivity|exact I]).
Qed.

Lemma pr_read_no_panic n s : snd (pr_read n s) <> Panic.
Proof. destruct (pr_read_shape n s) as (s' & r & H & Hr). rewrite H. destruct r; cbn; congruence. Qed.

Lemma pr_read_exact_loop_no_panic : forall fuel want acc s, snd (pr_read_exact_loop fuel want acc s) <> Panic.
Proof.
  induction fuel as [|f IH]; intros want acc s; cbn [pr_read_exact_loop]; [cbn; congruence|].
  destruct (want =? 0); [cbn; congruence|].
  unfold bind. pose proof (pr_read_no_panic want s) as H.
  destruct (pr_read want s) as [s1 [got|k|]]; cbn [snd] in *; try congruence.
  destruct got; [cbn; congruence|apply IH].
Qed.

(** every page-layer operation, on every reader state and device: never [Panic], right shape *)
Lemma pr_step_shape : forall o s, shape_ok o (snd (pr_step o s)).
Proof.
  intros o s. destruct o as [p|n|n|]; unfold pr_step.
  - unfold bind, pr_seek_physical.
    destruct (pr_phy_size s <=? p); cbn; auto.
  - unfold bind. pose proof (pr_read_no_panic n s) as H.
    destruct (pr_read n s) as [s1 [l|k|]]; cbn in *; auto.
  - unfold bind, pr_read_exact.
    pose proof (pr_read_exact_loop_no_panic (S (N.to_nat (N.min n (pr_log_size s)))) n [] s) as H.
    destruct (pr_read_exact_loop _ n [] s) as [s1 [l|k|]]; cbn in *; auto.
  - unfold bind, pr_align.
    destruct (pr_off s mod 4 =? 0); cbn; auto.
    destruct (pr_log_size s <? _); cbn; auto.
Qed.

Theorem wp_sound_rrun_shape {A} (p : rprog A) (Q : A -> N -> Prop) : forall s,
  wp shape_spec p Q (pr_off s) -> post Q (pr_off (fst (rrun p s))) (snd (rrun p s)).
Proof.
  intros s H. rewrite rrun_is_grun.
  apply (wp_sound_grun pr_step pr_off shape_spec); [|exact H].
  intros o s0. apply pr_step_shape.
Qed.

(** a postcondition that ignores the offset can be established at any offset *)
Lemma wp_shape_any_off {A} (p : rprog A) (Q : A -> Prop) :
  forall off off', wp shape_spec p (fun a _ => Q a) off -> wp shape_spec p (fun a _ => Q a) off'.
Proof.
  induction p as [a|e| |o k IH]; cbn; intros off off' H; [auto|auto|auto|].
  intros r o1 Hs. apply (IH r o1 o1). apply (H r o1). exact Hs.
Qed.

(** * Instance 2: offsets and lengths, the cache-less validating reader *)

(** [ps]: page size, [ls]: logical size of the file (pages * (ps - 4)) *)
Definition gspec (ps ls : N) : opspec := fun o off r off' =>
  match r with
  | Panic => False
  | Err _ => off <= off' /\ (match o with PrReadExact _ => True | _ => off' = off end)
  | Ok out =>
      match o, out with
      | PrSeek p, PoNum n => off' = n /\ n <= ls + 3
      | PrRead n, PoBytes l =>
          off' = off + len l /\ len l <= n /\
          (l = [] -> n = 0 \/ ls <= off) /\
          (l <> [] -> off' <= ls /\ len l = N.min n ((ps - 4) - off mod (ps - 4)))
      | PrReadExact n, PoBytes l => len l = n /\ off' = off + n /\ (n <> 0 -> off' <= ls)
      | PrAlign, PoUnit => off <= off' /\ off' < off + 4 /\ off' mod 4 = 0 /\ (off' <> off -> off' <= ls)
      | _, _ => False
      end
  end.

Lemma gspec_shape ps ls o off r off' : gspec ps ls o off r off' -> shape_spec o off r off'.
Proof.
  unfold gspec, shape_spec, shape_ok. destruct r as [out|k|]; auto.
  destruct o, out; auto.
Qed.

Lemma page_room a b P : 0 < b -> a / b < P -> a + (b - a mod b) <= P * b.
Proof.
  intros Hb Hq.
  pose proof (N.div_mod a b ltac:(lia)) as E. pose proof (N.mod_lt a b ltac:(lia)) as Hr.
  set (q := a / b) in *. set (r := a mod b) in *. clearbody q r.
  assert (b * (q + 1) <= P * b) by nia. nia.
Qed.

Lemma page_full a b P : 0 < b -> P <= a / b -> P * b <= a.
Proof.
  intros Hb Hq.
  pose proof (N.div_mod a b ltac:(lia)) as E.
  set (q := a / b) in *. set (r := a mod b) in *. clearbody q r. nia.
Qed.

Lemma fuel_step want L ls off off1 f :
  off1 = off + L -> L <= want -> off1 <= ls -> L <> 0 ->
  (N.to_nat (N.min want (ls - off)) < S f)%nat -> (N.to_nat (N.min (want - L) (ls - off1)) < f)%nat.
Proof. intros. lia. Qed.

Lemma seek_bound p ps L : 4 < ps -> L mod ps = 0 -> p < L -> p - p / ps * 4 <= L / ps * (ps - 4) + 3.
Proof.
  intros H4 Hm Hp.
  pose proof (N.div_mod p ps ltac:(lia)) as E. pose proof (N.mod_lt p ps ltac:(lia)) as Hr.
  pose proof (N.div_mod L ps ltac:(lia)) as EL. rewrite Hm in EL.
  set (q := p / ps) in *. set (r := p mod ps) in *. set (P := L / ps) in *. clearbody q r P. clear Hm.
  assert (q < P) by nia.
  assert (q * (ps - 4) + (ps - 4) <= P * (ps - 4)) by nia.
  nia.
Qed.

Section G.
  Variables (ps : N) (phys : list N).
  Hypothesis ps4 : 4 < ps.
  Hypothesis Hmod : len phys mod ps = 0.
  Let ls := len phys / ps * (ps - 4).

  Lemma gr_read_spec n off : forall off' r, gr_read ps phys n off = (off', r) ->
    match r with
    | Ok l => off' = off + len l /\ len l <= n /\ (l = [] -> n = 0 \/ ls <= off) /\
              (l <> [] -> off' <= ls /\ len l = N.min n ((ps - 4) - off mod (ps - 4)))
    | Err _ => off' = off
    | Panic => False
    end.
  Proof.
    intros off' r. unfold gr_read. cbv zeta.
    destruct (len phys / ps <=? off / (ps - 4)) eqn:E1.
    - intros H. injection H as <- <-. rewrite len_nil.
      split; [lia|]. split; [lia|]. split.
      + intros _. right. subst ls. apply page_full; lia.
      + congruence.
    - destruct (page_ok ps (page_at ps phys (off / (ps - 4)))); intros H; injection H as <- <-; [|reflexivity].
      assert (Hp : off / (ps - 4) < len phys / ps) by lia.
      pose proof (len_page_at ps phys _ Hp) as Hl.
      pose proof (page_room off (ps - 4) (len phys / ps) ltac:(lia) Hp) as Hroom. fold ls in Hroom.
      pose proof (N.mod_lt off (ps - 4) ltac:(lia)) as Hm.
      rewrite len_slice, Hl.
      set (m := off mod (ps - 4)) in *. clearbody m. clear E1 Hp.
      generalize dependent ls. intros ls0 Hroom.
      split; [lia|]. split; [lia|]. split.
      + intros Hnil. apply (f_equal len) in Hnil. rewrite len_slice, len_nil in Hnil.
        rewrite Hl in Hnil. left. lia.
      + intros _. split; lia.
  Qed.

  Lemma gr_read_exact_loop_spec : forall fuel want acc off off' r,
    (N.to_nat (N.min want (ls - off)) < fuel)%nat ->
    gr_read_exact_loop ps phys fuel want acc off = (off', r) ->
    match r with
    | Ok l => len l = len acc + want /\ off' = off + want /\ (want <> 0 -> off' <= ls)
    | Err _ => off <= off'
    | Panic => False
    end.
  Proof.
    induction fuel as [|f IH]; intros want acc off off' r Hf; [lia|].
    cbn [gr_read_exact_loop].
    destruct (want =? 0) eqn:E0.
    - intros H. injection H as <- <-. repeat split; lia.
    - destruct (gr_read ps phys want off) as [off1 r1] eqn:Eg.
      pose proof (gr_read_spec want off off1 r1 Eg) as Hs.
      destruct r1 as [got|k|]; [|intros H; injection H as <- <-; lia|contradiction].
      destruct Hs as (Ho1 & Hle & Hnil & Hne).
      destruct got as [|b got].
      + intros H. injection H as <- <-. lia.
      + intros H.
        assert (Hne' : b :: got <> []) by discriminate.
        destruct (Hne Hne') as [Hls _].
        assert (Hpos : len (b :: got) <> 0) by (apply len_nonnil; exact Hne').
        pose proof (fuel_step want (len (b :: got)) ls off off1 f Ho1 Hle Hls Hpos Hf) as Hf'.
        specialize (IH (want - len (b :: got)) (acc ++ b :: got) off1 off' r Hf' H).
        destruct r as [l|k|]; [|clear - IH Ho1; lia|contradiction].
        rewrite len_app in IH. destruct IH as (A1 & A2 & A3).
        clear - A1 A2 A3 Ho1 Hle Hls Hpos.
        set (L := len (b :: got)) in *. clearbody L.
        repeat split; lia.
  Qed.

  Lemma gr_step_gspec o off : gspec ps ls o off (snd (gr_step ps phys o off)) (fst (gr_step ps phys o off)).
  Proof.
    destruct o as [p|n|n|]; unfold gr_step; cbv zeta.
    - destruct (len phys <=? p) eqn:E; cbn; [lia|].
      split; [reflexivity|]. subst ls. apply seek_bound; [exact ps4|exact Hmod|lia].
    - destruct (gr_read ps phys n off) as [off1 r] eqn:Eg.
      pose proof (gr_read_spec n off off1 r Eg) as Hs.
      destruct r as [l|k|]; cbn in *; [exact Hs|lia|contradiction].
    - destruct (gr_read_exact_loop ps phys (S (N.to_nat (N.min n (len phys / ps * (ps - 4))))) n [] off) as [off1 r] eqn:Eg.
      apply gr_read_exact_loop_spec in Eg; [|fold ls; lia].
      destruct r as [l|k|]; cbn in *; [|lia|contradiction].
      rewrite len_nil in Eg. destruct Eg as (A1 & A2 & A3). repeat split; lia.
    - destruct (off mod 4 =? 0) eqn:E1; cbn.
      + repeat split; lia.
      + fold ls. destruct (ls <? off + (4 - off mod 4)) eqn:E2; cbn; [lia|].
        repeat split; try lia.
  Qed.

  Theorem wp_sound_g {A} (p : rprog A) (Q : A -> N -> Prop) : forall off,
    wp (gspec ps ls) p Q off -> post Q (fst (rrun_g ps phys p off)) (snd (rrun_g ps phys p off)).
  Proof.
    intros off H. rewrite rrun_g_is_grun.
    apply (wp_sound_grun (gr_step ps phys) (fun o => o) (gspec ps ls)); [|exact H].
    intros o s0. apply gr_step_gspec.
  Qed.
  Theorem wpp_sound_g {A} (p : rprog A) (Q : A -> N -> Prop) : forall off,
    wpp (gspec ps ls) p Q off -> postp Q (fst (rrun_g ps phys p off)) (snd (rrun_g ps phys p off)).
  Proof.
    intros off H. rewrite rrun_g_is_grun.
    apply (wpp_sound_grun (gr_step ps phys) (fun o => o) (gspec ps ls)); [|exact H].
    intros o s0. apply gr_step_gspec.
  Qed.
End G.

(** on the paged reader model, for every state satisfying the invariant *)
Theorem wp_sound_rrun {A} ps phys (p : rprog A) (Q : A -> N -> Prop) : forall s,
  pr_inv ps phys s ->
  wp (gspec ps (pr_log_size s)) p Q (pr_off s) ->
  post Q (pr_off (fst (rrun p s))) (snd (rrun p s)) /\ pr_inv ps phys (fst (rrun p s)).
Proof.
  intros s I H.
  destruct (rrun_g_equiv ps phys A p s I) as (E1 & I1 & E2).
  split; [|exact I1]. rewrite E1, E2.
  rewrite (inv_log _ _ _ I) in H.
  apply wp_sound_g; [exact (inv_ps4 _ _ _ I)|exact (inv_mod _ _ _ I)|exact H].
Qed.

Theorem wpp_sound_rrun {A} ps phys (p : rprog A) (Q : A -> N -> Prop) : forall s,
  pr_inv ps phys s ->
  wpp (gspec ps (pr_log_size s)) p Q (pr_off s) ->
  postp Q (pr_off (fst (rrun p s))) (snd (rrun p s)).
Proof.
  intros s I H.
  destruct (rrun_g_equiv ps phys A p s I) as (E1 & I1 & E2).
  rewrite E1, E2. rewrite (inv_log _ _ _ I) in H.
  apply wpp_sound_g; [exact (inv_ps4 _ _ _ I)|exact (inv_mod _ _ _ I)|exact H].
Qed.

(** the logical size and the other constants of a reader never change *)
Lemma rrun_log_size {A} ps phys (p : rprog A) s : pr_inv ps phys s -> pr_log_size (fst (rrun p s)) = pr_log_size s.
Proof.
  intros I. pose proof (rrun_preserves_inv ps phys A p s I) as I1.
  rewrite (inv_log _ _ _ I), (inv_log _ _ _ I1). reflexivity.
Qed.

(** * The four primitives under any [spec] that at least fixes shapes *)
Section Prims.
  Variable spec : opspec.
  Hypothesis spec_shape : forall o off r off', spec o off r off' -> shape_ok o r.

  Lemma wp_r_read_exact n (Q : list N -> N -> Prop) off :
    (forall l off', spec (PrReadExact n) off (Ok (PoBytes l)) off' -> Q l off') -> wp spec (r_read_exact n) Q off.
  Proof.
    intros H. cbn. intros r off' Hs. pose proof (spec_shape _ _ _ _ Hs) as Hsh.
    destruct r as [[x|l|]|k|]; cbn in *; try contradiction; auto.
  Qed.

  Lemma wp_r_read e n (Q : list N -> N -> Prop) off :
    (forall l off', spec (PrRead n) off (Ok (PoBytes l)) off' -> Q l off') -> wp spec (r_read e n) Q off.
  Proof.
    intros H. cbn. intros r off' Hs. pose proof (spec_shape _ _ _ _ Hs) as Hsh.
    destruct r as [[x|l|]|k|]; cbn in *; try contradiction; auto.
  Qed.

  Lemma wp_r_seek p (Q : unit -> N -> Prop) off :
    (forall n off', spec (PrSeek p) off (Ok (PoNum n)) off' -> Q tt off') -> wp spec (r_seek p) Q off.
  Proof.
    intros H. cbn. intros r off' Hs. pose proof (spec_shape _ _ _ _ Hs) as Hsh.
    destruct r as [[x|l|]|k|]; cbn in *; try contradiction; eauto.
  Qed.

  Lemma wp_r_align (Q : unit -> N -> Prop) off :
    (forall off', spec PrAlign off (Ok PoUnit) off' -> Q tt off') -> wp spec r_align Q off.
  Proof.
    intros H. cbn. intros r off' Hs. pose proof (spec_shape _ _ _ _ Hs) as Hsh.
    destruct r as [[x|l|]|k|]; cbn in *; try contradiction; eauto.
  Qed.
End Prims.

Lemma shape_spec_shape : forall o off r off', shape_spec o off r off' -> shape_ok o r.
Proof. intros o off r off' H. exact H. Qed.

Lemma gspec_shape_ok ps ls : forall o off r off', gspec ps ls o off r off' -> shape_ok o r.
Proof. intros o off r off' H. exact (gspec_shape ps ls o off r off' H). Qed.
