(** Section-level facts about the format specification alone (Spec/FormatSpec.v
    and the section checkers of Spec/FileSpec.v): the independent decoder
    [decode_section] inverts [encode_section] for every legal layout, the
    packet walker and the section checker accept every encoded legal layout,
    and the corresponding facts about blob sections.  Nothing here mentions
    the model of the crate. *)
From Coq Require Import ZArith Lia ZifyN ZifyNat ZifyBool.
From E57 Require Import Base.Prelude Model.Record Spec.BitSpec Spec.PageSpec Spec.FormatSpec Spec.FileSpec.
From E57 Require Import Proofs.QueueReaderLemmas Proofs.QueueReaderPacket Proofs.QueueReaderDecode
  Proofs.QueueReaderProofs Proofs.SpecLayout.
Ltac Zify.zify_post_hook ::= Z.div_mod_to_equations.
Open Scope N_scope.

(** * Small list facts *)

Lemma le2_at_2 x y a b (r : list N) : le_num (slice 2 2 (x :: y :: a :: b :: r)) = a + 256 * b.
Proof. change (slice 2 2 (x :: y :: a :: b :: r)) with [a; b]. cbn [le_num]. lia. Qed.

Lemma le2_at_4 x y z w a b (r : list N) :
  le_num (slice 4 2 (x :: y :: z :: w :: a :: b :: r)) = a + 256 * b.
Proof. change (slice 4 2 (x :: y :: z :: w :: a :: b :: r)) with [a; b]. cbn [le_num]. lia. Qed.

Lemma drop6 {A} (a b c d e f : A) r : drop 6 (a :: b :: c :: d :: e :: f :: r) = r.
Proof. reflexivity. Qed.

Lemma sequence_opt_map_Some {A} (l : list A) : sequence_opt (map Some l) = Some l.
Proof. induction l as [|a l IH]; [reflexivity|]. cbn [map sequence_opt]. rewrite IH. reflexivity. Qed.

(** * Shape of an encoded packet *)

Definition pid (p : spec_packet) : N :=
  match p with SData _ => 1 | SIndex _ => 0 | SIgnored _ => 2 end.
Definition plen (p : spec_packet) : N :=
  match p with SData c => data_packet_len c | SIndex t => t | SIgnored t => t end.
Definition pkind_of (p : spec_packet) : pkind :=
  match p with SData _ => KData | SIndex _ => KIndex | SIgnored _ => KIgnored end.

Lemma packet_shape n p : packet_ok n p = true ->
  len (encode_packet p) = plen p /\ 4 <= plen p /\ plen p <= 65536 /\ plen p mod 4 = 0 /\
  exists tl, encode_packet p = pid p :: 0 :: (plen p - 1) mod 256 :: (plen p - 1) / 256 mod 256 :: tl.
Proof.
  intros H. destruct p as [chunks|total|total]; cbn [pid plen].
  - destruct (packet_ok_data _ _ H) as (_ & _ & Hd & _ & _).
    pose proof (data_packet_len_mod4 chunks) as Hm.
    split; [apply qlen_encode_data|].
    split; [rewrite data_packet_len_eq; unfold raw_len; lia|].
    split; [exact Hd|]. split; [exact Hm|].
    rewrite encode_data_eq. cbn [app]. eexists. reflexivity.
  - destruct (packet_ok_index _ _ H) as (H1 & H2 & H3).
    split; [apply qlen_encode_index; lia|]. split; [lia|]. split; [exact H2|]. split; [exact H3|].
    rewrite encode_index_eq by exact H1. cbn [app]. eexists. reflexivity.
  - destruct (packet_ok_ignored _ _ H) as (H1 & H2 & H3).
    split; [apply qlen_encode_ignored; lia|]. split; [exact H1|]. split; [exact H2|]. split; [exact H3|].
    rewrite encode_ignored_eq. cbn [app]. eexists. reflexivity.
Qed.

(** What a reader sees at the front of [encode_packet p ++ rest]. *)
Lemma packet_front n p rest : packet_ok n p = true ->
  encode_packet p ++ rest <> [] /\
  nth 0 (encode_packet p ++ rest) 0 = pid p /\
  le_num (slice 2 2 (encode_packet p ++ rest)) + 1 = plen p /\
  len (encode_packet p ++ rest) = plen p + len rest /\
  take (plen p) (encode_packet p ++ rest) = encode_packet p /\
  drop (plen p) (encode_packet p ++ rest) = rest.
Proof.
  intros H. destruct (packet_shape n p H) as (Hl & H4 & H5 & Hm & tl & E).
  split. { rewrite E. cbn [app]. discriminate. }
  split. { rewrite E. reflexivity. }
  split. { rewrite E. cbn [app]. rewrite le2_at_2. lia. }
  split. { rewrite qlen_app. lia. }
  split; [apply take_app_exact|apply drop_app_exact]; exact Hl.
Qed.

(** * Size table and chunks of a data packet *)

Lemma u16s_size_table : forall chunks X, Forall (fun c => len c < 65536) chunks ->
  u16s (length chunks) (size_table chunks ++ X) = map (@len N) chunks.
Proof.
  induction chunks as [|c r IH]; intros X HF; [reflexivity|].
  inversion HF as [|? ? Hc Hr]; subst.
  unfold size_table. cbn [map concat length u16s]. fold (size_table r).
  rewrite <- app_assoc. cbn [le_bytes app firstn skipn le_num].
  rewrite IH by exact Hr. f_equal. lia.
Qed.

Lemma split_sizes_concat : forall chunks R,
  split_sizes (map (@len N) chunks) (concat chunks ++ R) = Some (chunks, R).
Proof.
  induction chunks as [|c r IH]; intros R; [reflexivity|].
  cbn [map concat split_sizes]. rewrite <- app_assoc.
  destruct (len (c ++ concat r ++ R) <? len c) eqn:E; [rewrite qlen_app in E; lia|].
  rewrite (drop_app_exact (len c)) by reflexivity. rewrite IH.
  rewrite (take_app_exact (len c)) by reflexivity. reflexivity.
Qed.

Lemma sum_list_lens (chunks : list (list N)) : sum_list (map (@len N) chunks) = len (concat chunks).
Proof.
  unfold sum_list. induction chunks as [|c r IH]; [reflexivity|].
  cbn [map fold_right concat]. rewrite IH, qlen_app. reflexivity.
Qed.

Lemma data_packet_fields n chunks X : packet_ok n (SData chunks) = true ->
  le_num (slice 4 2 (encode_packet (SData chunks) ++ X)) = N.of_nat n /\
  u16s n (drop 6 (encode_packet (SData chunks) ++ X)) = map (@len N) chunks /\
  drop (6 + 2 * N.of_nat n) (encode_packet (SData chunks) ++ X) =
    concat chunks ++ zeros (padn (raw_len chunks)) ++ X.
Proof.
  intros H. destruct (packet_ok_data _ _ H) as (Hn & H0 & Hd & Hlt & _). subst n.
  assert (Hsmall : len chunks < 65536).
  { rewrite data_packet_len_eq in Hd. unfold raw_len in Hd. lia. }
  assert (E : encode_packet (SData chunks) ++ X =
              1 :: 0 :: (data_packet_len chunks - 1) mod 256 :: (data_packet_len chunks - 1) / 256 mod 256
              :: len chunks mod 256 :: len chunks / 256 mod 256
              :: size_table chunks ++ concat chunks ++ zeros (padn (raw_len chunks)) ++ X).
  { rewrite encode_data_eq. cbn [app]. rewrite <- !app_assoc. reflexivity. }
  rewrite E. split; [|split].
  - rewrite le2_at_4. fold (len chunks). lia.
  - rewrite drop6. apply u16s_size_table. exact Hlt.
  - fold (len chunks).
    replace (6 + 2 * len chunks) with (6 + len (size_table chunks)) by (rewrite qlen_size_table; lia).
    rewrite <- drop_drop_, drop6. apply drop_app_exact. reflexivity.
Qed.

(** * The packet parser of the spec decoder on an encoded body *)

Definition data_chunks (lay : layout) : list (list (list N)) :=
  flat_map (fun p => match p with SData c => [c] | _ => [] end) lay.

Lemma parse_packets_unfold f n body : body <> [] ->
  parse_packets (S f) n body =
  (let id := nth 0 body 0 in
   let total := le_num (slice 2 2 body) + 1 in
   if negb (total mod 4 =? 0) || (len body <? total) then None else
   let pkt := take total body in
   let rest := drop total body in
   if id =? 1 then
     let count := le_num (slice 4 2 pkt) in
     if negb (count =? N.of_nat n) then None else
     let sizes := u16s n (drop 6 pkt) in
     match split_sizes sizes (drop (6 + 2 * N.of_nat n) pkt) with
     | Some (chunks, _) =>
         match parse_packets f n rest with
         | Some r => Some (chunks :: r)
         | None => None
         end
     | None => None
     end
   else if (id =? 0) || (id =? 2) then parse_packets f n rest
   else None).
Proof. destruct body; [congruence|reflexivity]. Qed.

Lemma parse_packets_step f n p rest : packet_ok n p = true ->
  parse_packets (S f) n (encode_packet p ++ rest) =
  match p with
  | SData chunks => match parse_packets f n rest with Some r => Some (chunks :: r) | None => None end
  | _ => parse_packets f n rest
  end.
Proof.
  intros H. destruct (packet_front n p rest H) as (Hne & Hid & Htot & Hlen & Htake & Hdrop).
  destruct (packet_shape n p H) as (_ & H4 & H5 & Hm & _).
  rewrite parse_packets_unfold by exact Hne. cbv zeta.
  rewrite Hid, Htot, Htake, Hdrop, Hm. change (0 =? 0) with true. cbn [negb orb].
  destruct (len (encode_packet p ++ rest) <? plen p) eqn:E; [lia|].
  destruct p as [chunks|total|total]; cbn [pid].
  - change (1 =? 1) with true. cbv iota.
    destruct (data_packet_fields n chunks [] H) as (Hc & Hu & Hd).
    rewrite !app_nil_r in Hc, Hu, Hd.
    rewrite Hc, N.eqb_refl. cbn [negb]. rewrite Hu, Hd, split_sizes_concat. reflexivity.
  - change (0 =? 1) with false. change (0 =? 0) with true. reflexivity.
  - change (2 =? 1) with false. change (2 =? 0) with false. change (2 =? 2) with true. reflexivity.
Qed.

Lemma parse_packets_encode n lay : Forall (fun p => packet_ok n p = true) lay ->
  forall fuel, (length (section_body lay) < fuel)%nat ->
  parse_packets fuel n (section_body lay) = Some (data_chunks lay).
Proof.
  induction 1 as [|p l Hp Hl IH]; intros fuel Hf.
  - destruct fuel; [lia|]. reflexivity.
  - destruct fuel as [|f]; [lia|].
    rewrite section_body_cons, parse_packets_step by exact Hp.
    destruct (packet_shape n p Hp) as (Hlen & H4 & _).
    rewrite section_body_cons, app_length in Hf.
    assert (Hf' : (length (section_body l) < f)%nat) by (unfold len in Hlen; lia).
    rewrite (IH f Hf'). destruct p; reflexivity.
Qed.

Lemma data_chunks_record i lay :
  map (fun chunks : list (list N) => nth i chunks []) (data_chunks lay) = record_chunks i lay.
Proof.
  induction lay as [|p l IH]; [reflexivity|].
  unfold data_chunks, record_chunks in *. cbn [flat_map].
  destruct p; cbn [app map]; rewrite IH; reflexivity.
Qed.

(** * Columns *)

Lemma zero_width_column t col : type_ok t = true -> sized t = false ->
  Forall (fun v => in_range t v = true) col -> col = repeat (zval t) (length col).
Proof.
  intros Ht Hs. induction 1 as [|v r Hv Hr IH]; [reflexivity|].
  cbn [length repeat]. rewrite <- IH. f_equal. apply zero_width_value; assumption.
Qed.

(** The decoder of one byte stream inverts [spec_stream_bytes]. *)
Lemma decode_column_stream t col n : type_ok t = true ->
  Forall (fun v => in_range t v = true) col -> length col = n ->
  decode_column t n (spec_stream_bytes t col) = Some col.
Proof.
  intros Ht Hc Hn. subst n. unfold decode_column. cbv zeta.
  destruct (spec_bit_size t =? 0) eqn:E.
  - assert (Hs : sized t = false) by (unfold sized; lia).
    pose proof (zero_width_column t col Ht Hs Hc) as Hz.
    destruct t as [| |mn mx|mn mx]; cbn [spec_bit_size] in E; try lia;
      cbn [zval] in Hz; rewrite <- Hz; reflexivity.
  - assert (Hs : sized t = true) by (unfold sized; lia).
    destruct (full_decode t col Ht Hs Hc) as (extra & _ & Hd).
    change (spec_decode_stream t (spec_stream_bytes t col))
      with (dec t (bits_of_bytes (spec_stream_bytes t col))).
    rewrite Hd.
    destruct (length (col ++ extra) <? length col)%nat eqn:E2.
    { apply Nat.ltb_lt in E2. rewrite app_length in E2. lia. }
    rewrite firstn_app, Nat.sub_diag, firstn_all. cbn [firstn]. rewrite app_nil_r. reflexivity.
Qed.

Lemma transpose_columns n : forall points, Forall (fun p : list rvalue => length p = n) points ->
  transpose (length points) (map (fun i => column i points) (seq 0 n)) = points.
Proof.
  induction points as [|p ps IH]; intros HF; [reflexivity|].
  inversion HF as [|? ? Hp Hps]; subst.
  cbn [length transpose]. rewrite !map_map. f_equal.
  - transitivity (map (fun i => nth i p (VInteger 0)) (seq 0 (length p))); [reflexivity|].
    apply map_seq_nth.
  - exact (IH Hps).
Qed.

(** * The header of an encoded section *)

Lemma section_fields off lay rest :
  nth 0 (encode_section off lay ++ rest) 0 = 1 /\
  slice 1 7 (encode_section off lay ++ rest) = [0; 0; 0; 0; 0; 0; 0] /\
  slice 8 8 (encode_section off lay ++ rest) = le_bytes 8 (32 + len (section_body lay)) /\
  slice 16 8 (encode_section off lay ++ rest) = le_bytes 8 off /\
  slice 24 8 (encode_section off lay ++ rest) = le_bytes 8 0 /\
  slice 32 (len (section_body lay)) (encode_section off lay ++ rest) = section_body lay /\
  len (encode_section off lay ++ rest) = 32 + len (section_body lay) + len rest.
Proof.
  unfold encode_section. set (L := 32 + len (section_body lay)). set (h8 := [1; 0; 0; 0; 0; 0; 0; 0]).
  rewrite <- !app_assoc.
  split; [reflexivity|]. split; [reflexivity|].
  split. { apply slice_mid; [reflexivity|apply qlen_le_bytes]. }
  split.
  { rewrite (app_assoc h8). apply slice_mid; [|apply qlen_le_bytes].
    rewrite qlen_app, qlen_le_bytes. reflexivity. }
  split.
  { rewrite (app_assoc h8), (app_assoc (h8 ++ _)). apply slice_mid; [|apply qlen_le_bytes].
    rewrite !qlen_app, !qlen_le_bytes. reflexivity. }
  split.
  { rewrite (app_assoc h8), (app_assoc (h8 ++ _)), (app_assoc ((h8 ++ _) ++ _)).
    apply slice_mid; [|reflexivity]. rewrite !qlen_app, !qlen_le_bytes. reflexivity. }
  rewrite !qlen_app, !qlen_le_bytes. subst L. change (len h8) with 8. lia.
Qed.

Lemma encode_section_length_field : forall off lay rest, 32 + len (section_body lay) < 2 ^ 64 ->
  u64_at 8 (encode_section off lay ++ rest) = 32 + len (section_body lay).
Proof.
  intros off lay rest H. destruct (section_fields off lay rest) as (_ & _ & F8 & _).
  unfold u64_at. rewrite F8. apply le_num_le_bytes8. exact H.
Qed.

(** * T1: the spec decoder inverts the spec encoder *)

Theorem decode_section_encode : forall proto points lay off rest,
  scene_ok proto points = true -> legal proto points lay = true ->
  32 + len (section_body lay) < 2 ^ 64 ->
  decode_section proto (length points) (encode_section off lay ++ rest) = Some points.
Proof.
  intros proto points lay off rest Hscene Hlegal Hsz.
  destruct (scene_ok_spec _ _ Hscene) as (Hty & Hpts & _).
  destruct (legal_spec _ _ _ Hlegal) as (Hok & Hstreams).
  destruct (qlen_section_body _ _ Hok) as [_ Hb4].
  destruct (section_fields off lay rest) as (F0 & _ & F8 & _ & _ & F32 & Flen).
  unfold decode_section. cbv zeta.
  rewrite F0, F8, (le_num_le_bytes8 _ Hsz). change (1 =? 1) with true. cbn [negb].
  match goal with |- (if ?c then _ else _) = _ => destruct c eqn:E end; [lia|].
  replace (32 + len (section_body lay) - 32) with (len (section_body lay)) by lia.
  rewrite F32.
  rewrite (parse_packets_encode _ _ Hok) by lia.
  rewrite (map_ext_in _ (fun i => Some (column i points))).
  2:{ intros i Hi. apply in_seq in Hi. rewrite data_chunks_record. rewrite Hstreams by lia.
      apply decode_column_stream.
      - rewrite Forall_forall in Hty. apply Hty, nth_In. lia.
      - unfold column. apply Forall_map. revert Hpts. apply Forall_impl. intros p Hp.
        apply point_ok_spec in Hp as [_ Hp]. apply Hp. lia.
      - unfold column. apply map_length. }
  rewrite <- (map_map (fun i => column i points) Some), sequence_opt_map_Some.
  cbv beta iota. f_equal. apply transpose_columns.
  revert Hpts. apply Forall_impl. intros p Hp. apply point_ok_spec in Hp as [Hp _]. exact Hp.
Qed.

(** The hypotheses are satisfiable: the layout of Proofs/QueueReaderProofs.v (index and ignored
    packets between data packets, empty chunks, a zero-width record, values straddling packets). *)
Example decode_section_encode_instance :
  decode_section QrInstance.proto (length QrInstance.points)
    (encode_section 1234 QrInstance.lay ++ [7; 7; 7]) = Some QrInstance.points.
Proof. apply decode_section_encode; vm_compute; reflexivity. Qed.

(** * The packet walker of the file-level checker *)

Lemma walk_packets_unfold f n pos body : body <> [] ->
  walk_packets (S f) n pos body =
  (let id := nth 0 body 0 in
   let total := u16_at 2 body + 1 in
   if negb (total mod 4 =? 0) || (len body <? total) then None else
   let kind :=
     if id =? 1 then
       let raw := 6 + 2 * N.of_nat n + sum_list (u16s n (drop 6 body)) in
       if (u16_at 4 body =? N.of_nat n) && (0 <? N.of_nat n) && (raw <=? total) && (total - raw <? 4)
       then Some KData else None
     else if id =? 0 then (if 16 <=? total then Some KIndex else None)
     else if id =? 2 then Some KIgnored
     else None in
   match kind with
   | None => None
   | Some k =>
       match walk_packets f n (pos + total) (drop total body) with
       | Some r => Some ((pos, k) :: r)
       | None => None
       end
   end).
Proof. destruct body; [congruence|reflexivity]. Qed.

Lemma walk_packets_step f n pos p rest : packet_ok n p = true ->
  walk_packets (S f) n pos (encode_packet p ++ rest) =
  match walk_packets f n (pos + plen p) rest with
  | Some r => Some ((pos, pkind_of p) :: r)
  | None => None
  end.
Proof.
  intros H. destruct (packet_front n p rest H) as (Hne & Hid & Htot & Hlen & _ & Hdrop).
  destruct (packet_shape n p H) as (_ & H4 & H5 & Hm & _).
  rewrite walk_packets_unfold by exact Hne. cbv zeta. unfold u16_at.
  rewrite Hid, Htot, Hdrop, Hm. change (0 =? 0) with true. cbn [negb orb].
  destruct (len (encode_packet p ++ rest) <? plen p) eqn:E; [lia|].
  destruct p as [chunks|total|total]; cbn [pid plen pkind_of] in *.
  - change (1 =? 1) with true. cbv iota.
    destruct (data_packet_fields n chunks rest H) as (Hc & Hu & _).
    rewrite Hc, Hu, sum_list_lens.
    destruct (packet_ok_data _ _ H) as (Hn & H0 & _).
    match goal with |- context [if ?c then Some KData else None] => destruct c eqn:E2 end;
      [reflexivity|].
    exfalso. rewrite data_packet_len_eq in E2. unfold raw_len, padn, len in *. lia.
  - change (0 =? 1) with false. change (0 =? 0) with true. cbv iota.
    destruct (packet_ok_index _ _ H) as (H1 & _).
    destruct (16 <=? total) eqn:E2; [reflexivity|lia].
  - change (2 =? 1) with false. change (2 =? 0) with false. change (2 =? 2) with true. reflexivity.
Qed.

Lemma walk_packets_encode : forall n lay, Forall (fun p => packet_ok n p = true) lay ->
  forall fuel pos, (length (section_body lay) < fuel)%nat ->
  exists pk, walk_packets fuel n pos (section_body lay) = Some pk.
Proof.
  intros n lay HF. induction HF as [|p l Hp Hl IH]; intros fuel pos Hf.
  - destruct fuel; [lia|]. exists []. reflexivity.
  - destruct fuel as [|f]; [lia|].
    rewrite section_body_cons, walk_packets_step by exact Hp.
    destruct (packet_shape n p Hp) as (Hlen & H4 & _).
    rewrite section_body_cons, app_length in Hf.
    destruct (IH f (pos + plen p)) as [pk Hpk]; [unfold len in Hlen; lia|].
    rewrite Hpk. eexists. reflexivity.
Qed.

(** * The section checker accepts an encoded section placed at logical offset [lo] *)

Theorem pc_section_ok_encode : forall proto points lay lo rest,
  legal proto points lay = true ->
  32 + len (section_body lay) < 2 ^ 64 -> phys_of_log (lo + 32) < 2 ^ 64 ->
  pc_section_ok (length proto) lo (encode_section (phys_of_log (lo + 32)) lay ++ rest) = true.
Proof.
  intros proto points lay lo rest Hlegal Hsz Hoff.
  destruct (legal_spec _ _ _ Hlegal) as (Hok & _).
  destruct (qlen_section_body _ _ Hok) as [_ Hb4].
  destruct (section_fields (phys_of_log (lo + 32)) lay rest) as (F0 & F1 & F8 & F16 & F24 & F32 & Flen).
  unfold pc_section_ok, u64_at. cbv zeta.
  rewrite F0, F1, F8, F16, F24, (le_num_le_bytes8 _ Hsz), (le_num_le_bytes8 _ Hoff),
    (le_num_le_bytes8 0) by lia.
  replace (32 + len (section_body lay) - 32) with (len (section_body lay)) by lia.
  rewrite F32.
  destruct (walk_packets_encode _ _ Hok (S (N.to_nat (32 + len (section_body lay)))) 32)
    as [pk Hpk]; [unfold len; lia|].
  rewrite Hpk, log_of_phys_of_log_, in_payload_phys_of_log.
  replace (lo + 32 - lo) with 32 by lia.
  change (1 =? 1) with true. change (32 =? 32) with true. change (0 =? 0) with true.
  change (forallb (N.eqb 0) [0; 0; 0; 0; 0; 0; 0]) with true.
  replace (lo <=? lo + 32) with true by lia.
  cbn [andb orb]. rewrite orb_true_r, andb_true_r. lia.
Qed.

Example pc_section_ok_encode_instance :
  pc_section_ok (length QrInstance.proto) 1000
    (encode_section (phys_of_log (1000 + 32)) QrInstance.lay ++ [7; 7; 7]) = true.
Proof. apply (pc_section_ok_encode _ QrInstance.points); vm_compute; reflexivity. Qed.

(** * Blob sections *)

Lemma blob_fields data rest :
  nth 0 (spec_blob_section data ++ rest) 1 = 0 /\
  slice 1 7 (spec_blob_section data ++ rest) = [0; 0; 0; 0; 0; 0; 0] /\
  slice 8 8 (spec_blob_section data ++ rest) = le_bytes 8 (((16 + len data + 3) / 4) * 4).
Proof.
  unfold spec_blob_section. rewrite <- !app_assoc.
  split; [reflexivity|]. split; [reflexivity|].
  apply slice_mid; [reflexivity|apply qlen_le_bytes].
Qed.

Lemma blob_section_length_field : forall data rest, ((16 + len data + 3) / 4) * 4 < 2 ^ 64 ->
  u64_at 8 (spec_blob_section data ++ rest) = 16 + len data + pad4n (len data).
Proof.
  intros data rest H. destruct (blob_fields data rest) as (_ & _ & F8).
  unfold u64_at. rewrite F8, le_num_le_bytes8 by exact H. unfold pad4n. lia.
Qed.

Lemma blob_section_ok_encode : forall data rest, ((16 + len data + 3) / 4) * 4 < 2 ^ 64 ->
  blob_section_ok (len data) (spec_blob_section data ++ rest) = true.
Proof.
  intros data rest H. destruct (blob_fields data rest) as (F0 & F1 & F8).
  unfold blob_section_ok, u64_at. cbv zeta.
  rewrite F0, F1, F8, le_num_le_bytes8 by exact H.
  rewrite N.eqb_refl, qlen_app, len_spec_blob_section.
  change (0 =? 0) with true. change (forallb (N.eqb 0) [0; 0; 0; 0; 0; 0; 0]) with true.
  cbn [andb]. unfold pad4n. lia.
Qed.

Lemma blob_section_data : forall data rest pre,
  slice (len pre + 16) (len data) (pre ++ spec_blob_section data ++ rest) = data.
Proof.
  intros data rest pre. unfold spec_blob_section. rewrite <- !app_assoc.
  rewrite (app_assoc pre), (app_assoc (pre ++ _)).
  apply slice_mid; [|reflexivity].
  rewrite !qlen_app, qlen_le_bytes. change (len [0; 0; 0; 0; 0; 0; 0; 0]) with 8. lia.
Qed.

Print Assumptions decode_section_encode.
Print Assumptions pc_section_ok_encode.
