(** Facts about the queues of the queue reader used by the simple iterator
    proof: popping complete points, how [available] changes, and that every
    value in a queue has the constructor of its prototype record - for every
    interpretation of the page-layer operations ([grun]). *)
From Coq Require Import ZArith NArith Bool List Lia ZifyN ZifyNat ZifyBool.
From E57 Require Import Base.Prelude Model.PagedReader Model.BsRead Model.Record Model.Prog Model.QueueReader
  Model.SimpleIter Proofs.SimpleRun.
Open Scope N_scope.

(** * [available]: the shortest queue among the records of non-zero bit size *)
Definition avail (proto : list dtype) (qs : list (list rvalue)) : N :=
  match avail_sized proto qs None with Some m => m | None => 0 end.

Lemma qr_available_avail q : qr_available q = avail (q_proto q) (q_queues q).
Proof. reflexivity. Qed.

Lemma len_cons {X} (x : X) l : len (x :: l) = 1 + len l.
Proof. unfold len. cbn [length]. lia. Qed.

(** both [None], or both [Some] with a difference of one *)
Definition optrel (a b : option N) : Prop :=
  match a, b with
  | Some x, Some y => x = 1 + y
  | None, None => True
  | _, _ => False
  end.

Lemma avail_sized_pop : forall proto qs vs qs' acc acc',
  pop_fronts proto qs = Ok (vs, qs') -> optrel acc acc' ->
  optrel (avail_sized proto qs acc) (avail_sized proto qs' acc').
Proof.
  induction proto as [|t proto IH]; intros qs vs qs' acc acc' H Hacc.
  - destruct qs; cbn [pop_fronts] in H; injection H as <- <-; exact Hacc.
  - destruct qs as [|q r]; [cbn [pop_fronts] in H; injection H as <- <-; exact Hacc|].
    cbn [pop_fronts] in H.
    match type of H with
    | match ?one with _ => _ end = _ => destruct one as [[v q']| |] eqn:E1; try discriminate
    end.
    destruct (pop_fronts proto r) as [[vs1 r1]| |] eqn:E2; try discriminate.
    injection H as <- <-. cbn [avail_sized].
    destruct (bit_size t =? 0) eqn:Eb.
    + assert (q' = q) as ->.
      { destruct t; try (vm_compute in Eb; discriminate); rewrite Eb in E1; injection E1 as _ <-; reflexivity. }
      eapply IH; eassumption.
    + assert (Hq : len q = 1 + len q').
      { destruct t; try rewrite Eb in E1; (destruct q as [|v0 q0]; [discriminate|]); injection E1 as _ <-; apply len_cons. }
      eapply IH; [exact E2|]. destruct acc as [a|], acc' as [a'|]; cbn [optrel] in *; try contradiction; lia.
Qed.

Lemma avail_pop_fronts proto qs vs qs' : 1 <= avail proto qs -> pop_fronts proto qs = Ok (vs, qs') ->
  avail proto qs = 1 + avail proto qs'.
Proof.
  intros H E. unfold avail in *. pose proof (avail_sized_pop proto qs vs qs' None None E I) as R.
  destruct (avail_sized proto qs None) as [m|], (avail_sized proto qs' None) as [m'|]; cbn [optrel] in R;
    try contradiction; lia.
Qed.

Lemma avail_sized_le : forall proto qs acc m, avail_sized proto qs acc = Some m ->
  forall a, acc = Some a -> m <= a.
Proof.
  induction proto as [|t proto IH]; intros qs acc m H a Ha.
  - destruct qs; cbn [avail_sized] in H; rewrite Ha in H; injection H as <-; lia.
  - destruct qs as [|q r]; [cbn [avail_sized] in H; rewrite Ha in H; injection H as <-; lia|].
    cbn [avail_sized] in H. destruct (bit_size t =? 0).
    + eapply IH; eassumption.
    + subst acc. pose proof (IH _ _ _ H _ eq_refl). lia.
Qed.

Lemma pop_fronts_ok : forall proto qs acc m, avail_sized proto qs acc = Some m -> 1 <= m ->
  exists vs qs', pop_fronts proto qs = Ok (vs, qs').
Proof.
  induction proto as [|t proto IH]; intros qs acc m H Hm.
  - destruct qs; eexists _, _; reflexivity.
  - destruct qs as [|q r]; [eexists _, _; reflexivity|].
    cbn [avail_sized] in H. cbn [pop_fronts].
    destruct (bit_size t =? 0) eqn:Eb.
    + destruct (IH _ _ _ H Hm) as (vs & qs' & E). rewrite E.
      destruct t; try (vm_compute in Eb; discriminate); rewrite Eb; eexists _, _; reflexivity.
    + pose proof (avail_sized_le _ _ _ _ H _ eq_refl) as Hle.
      assert (Hq : 1 <= len q) by (destruct acc; lia).
      destruct q as [|v q']; [unfold len in Hq; cbn [length] in Hq; lia|].
      destruct (IH _ _ _ H Hm) as (vs & qs' & E). rewrite E.
      destruct t; try rewrite Eb; eexists _, _; reflexivity.
Qed.

Lemma pop_fronts_avail proto qs : 1 <= avail proto qs -> exists vs qs', pop_fronts proto qs = Ok (vs, qs').
Proof.
  unfold avail. destruct (avail_sized proto qs None) as [m|] eqn:E; [|lia].
  intros H. eapply pop_fronts_ok; eassumption.
Qed.

(** * [pop_raws] *)

Lemma pop_raws_avail : forall n proto qs, N.of_nat n <= avail proto qs ->
  exists P qs', pop_raws n proto qs = Ok (P, qs') /\ length P = n /\ avail proto qs = N.of_nat n + avail proto qs'.
Proof.
  induction n as [|n IH]; intros proto qs H; cbn [pop_raws].
  - eexists _, _. split; [reflexivity|]. split; [reflexivity|]. lia.
  - destruct (pop_fronts_avail proto qs ltac:(lia)) as (vs & qs1 & E). rewrite E.
    pose proof (avail_pop_fronts proto qs vs qs1 ltac:(lia) E) as Ha.
    destruct (IH proto qs1 ltac:(lia)) as (P & qs' & E' & HL & Ha'). rewrite E'.
    eexists _, _. split; [reflexivity|]. cbn [length]. split; [congruence|]. lia.
Qed.

Lemma pop_raws_length : forall n proto qs P qs', pop_raws n proto qs = Ok (P, qs') -> length P = n.
Proof.
  induction n as [|n IH]; intros proto qs P qs' H; cbn [pop_raws] in H.
  - injection H as <- <-. reflexivity.
  - destruct (pop_fronts proto qs) as [[vs qs1]| |]; try discriminate.
    destruct (pop_raws n proto qs1) as [[P1 q1]| |] eqn:E; try discriminate.
    injection H as <- <-. cbn [length]. f_equal. eapply IH. exact E.
Qed.

(** * Typed queues *)
Definition queue_typed (t : dtype) (qu : list rvalue) : Prop := Forall (fun v => value_matches t v = true) qu.
Definition qr_wf (q : qr) : Prop :=
  length (q_streams q) = length (q_proto q) /\ Forall2 queue_typed (q_proto q) (q_queues q).

Lemma unpack_loop_typed (P : rvalue -> Prop) bits mk : (forall v, P (mk v)) ->
  forall fuel s acc s' out, unpack_loop fuel bits mk s acc = Ok (s', out) -> Forall P acc -> Forall P out.
Proof.
  intros Hmk. induction fuel as [|f IH]; intros s acc s' out H Hacc; cbn [unpack_loop] in H.
  - injection H as <- <-. exact Hacc.
  - destruct (bsr_extract s bits) as [[s1 [v|]]| |]; try discriminate.
    + eapply IH; [exact H|]. apply Forall_app. split; [exact Hacc|]. constructor; [apply Hmk|constructor].
    + injection H as <- <-. exact Hacc.
Qed.

Lemma unpack_type_typed t s s' vs : unpack_type t s = Ok (s', vs) -> queue_typed t vs.
Proof.
  unfold queue_typed. destruct t as [| |mn mx|mn mx]; cbn [unpack_type].
  - unfold unpack_singles. intros H. eapply unpack_loop_typed; [|exact H|constructor]. reflexivity.
  - unfold unpack_doubles. intros H. eapply unpack_loop_typed; [|exact H|constructor]. reflexivity.
  - unfold unpack_scaled_ints, unpack_ints_gen. destruct (mx - mn <=? 0)%Z; [discriminate|].
    intros H. eapply unpack_loop_typed; [|exact H|constructor]. reflexivity.
  - unfold unpack_ints, unpack_ints_gen. destruct (mx - mn <=? 0)%Z; [discriminate|].
    intros H. eapply unpack_loop_typed; [|exact H|constructor]. reflexivity.
Qed.

Lemma parse_streams_typed : forall proto streams queues ss qs,
  length streams = length proto -> Forall2 queue_typed proto queues ->
  parse_streams proto streams queues = Ok (ss, qs) ->
  length ss = length proto /\ Forall2 queue_typed proto qs.
Proof.
  induction proto as [|t proto IH]; intros streams queues ss qs Hlen HF H.
  - destruct streams; cbn [parse_streams] in H; injection H as <- <-; (split; [reflexivity|constructor]).
  - destruct streams as [|s streams]; [discriminate|]. inversion HF as [|? qu ? queues' Hq HF']; subst.
    cbn [length] in Hlen. injection Hlen as Hlen. cbn [parse_streams] in H.
    match type of H with
    | match ?one with _ => _ end = _ => destruct one as [[s1 q1]| |] eqn:E1; try discriminate
    end.
    destruct (parse_streams proto streams queues') as [[ss1 qs1]| |] eqn:E2; try discriminate.
    injection H as <- <-. destruct (IH _ _ _ _ Hlen HF' E2) as [HL HT].
    split; [cbn [length]; congruence|]. constructor; [|exact HT].
    destruct (bit_size t =? 0).
    + injection E1 as _ <-. exact Hq.
    + destruct (unpack_type t s) as [[s0 vs]| |] eqn:Eu; cbn [res_map] in E1; try discriminate.
      injection E1 as _ <-. unfold queue_typed. apply Forall_app. split; [exact Hq|].
      eapply unpack_type_typed. exact Eu.
Qed.

Lemma pop_fronts_typed : forall proto qs vs qs', Forall2 queue_typed proto qs -> pop_fronts proto qs = Ok (vs, qs') ->
  Forall2 (fun t v => value_matches t v = true) proto vs /\ Forall2 queue_typed proto qs'.
Proof.
  induction proto as [|t proto IH]; intros qs vs qs' HF H; inversion HF as [|? q ? r Hq HF']; subst;
    cbn [pop_fronts] in H.
  - injection H as <- <-. split; constructor.
  - match type of H with
    | match ?one with _ => _ end = _ => destruct one as [[v q']| |] eqn:E1; try discriminate
    end.
    destruct (pop_fronts proto r) as [[vs1 r1]| |] eqn:E; try discriminate. injection H as <- <-.
    destruct (IH _ _ _ HF' E) as [H1 H2].
    assert (Hv : value_matches t v = true /\ queue_typed t q').
    { destruct t as [| |mn mx|mn mx]; try destruct (bit_size _ =? 0);
        try (injection E1 as <- <-; split; [reflexivity|exact Hq]);
        (destruct q as [|v0 q0]; [discriminate|]); injection E1 as <- <-; inversion Hq; subst; split; assumption. }
    destruct Hv. split; constructor; assumption.
Qed.

Lemma pop_raws_typed : forall n proto qs P qs', Forall2 queue_typed proto qs -> pop_raws n proto qs = Ok (P, qs') ->
  Forall (fun vs => Forall2 (fun t v => value_matches t v = true) proto vs) P /\ Forall2 queue_typed proto qs'.
Proof.
  induction n as [|n IH]; intros proto qs P qs' HF H; cbn [pop_raws] in H.
  - injection H as <- <-. split; [constructor|exact HF].
  - destruct (pop_fronts proto qs) as [[vs qs1]| |] eqn:E; try discriminate.
    destruct (pop_raws n proto qs1) as [[P1 q1]| |] eqn:E1; try discriminate. injection H as <- <-.
    destruct (pop_fronts_typed _ _ _ _ HF E) as [Hv HF1]. destruct (IH _ _ _ _ HF1 E1) as [HP HF2].
    split; [constructor; assumption|exact HF2].
Qed.

(** * Through [advance] and the refill loop, under any interpretation *)
Section Run.
  Context {S : Type} (step : pr_op -> S -> S * res pr_out).

  Lemma read_sizes_length : forall n s s' l, grun step (read_sizes n) s = (s', Ok l) -> length l = n.
  Proof.
    induction n as [|n IH]; intros s s' l H; cbn [read_sizes] in H.
    - cbn [rret grun] in H. injection H as _ <-. reflexivity.
    - apply grun_bind_ok in H. destruct H as (s1 & b & _ & H).
      apply grun_bind_ok in H. destruct H as (s2 & r & Hr & H).
      cbn [rret grun] in H. injection H as _ <-. cbn [length]. f_equal. eapply IH. exact Hr.
  Qed.

  Lemma read_streams_length : forall proto sizes streams s s' l,
    grun step (read_streams proto sizes streams) s = (s', Ok l) -> length sizes = length streams ->
    length proto = length streams ->
    length l = length streams.
  Proof.
    induction proto as [|t proto IH]; intros sizes streams s s' l H Hlen Hlp;
      destruct sizes as [|sz sizes]; destruct streams as [|st streams];
      try discriminate; cbn [read_streams] in H.
    - cbn [rret grun] in H. injection H as _ <-. reflexivity.
    - apply grun_bind_ok in H. destruct H as (s1 & data & _ & H).
      apply grun_bind_ok in H. destruct H as (s2 & st' & _ & H).
      apply grun_bind_ok in H. destruct H as (s3 & r & Hr & H).
      cbn [rret grun] in H. injection H as _ <-. cbn [length] in *. f_equal. eapply IH; [exact Hr|lia|lia].
  Qed.

  Lemma advance_wf q s s' q' : grun step (qr_advance q) s = (s', Ok q') -> qr_wf q ->
    qr_wf q' /\ q_proto q' = q_proto q.
  Proof.
    intros H [Hlen HF]. unfold qr_advance in H.
    apply grun_bind_ok in H. destruct H as (s1 & h & _ & H).
    apply grun_bind_ok in H. destruct H as (s2 & q2 & H2 & H).
    apply grun_bind_ok in H. destruct H as (s3 & u & _ & H).
    cbn [rret grun] in H. injection H as _ <-.
    destruct h as [pl|flag pl count|pl].
    - destruct (pl <? INDEX_HEADER_SIZE); [discriminate|].
      apply grun_bind_ok in H2. destruct H2 as (s4 & b & _ & H2). cbn [rret grun] in H2. injection H2 as _ <-.
      split; [split; assumption|reflexivity].
    - destruct (negb (count =? len (q_streams q))); [discriminate|].
      apply grun_bind_ok in H2. destruct H2 as (s4 & sizes & Hs & H2).
      apply grun_bind_ok in H2. destruct H2 as (s5 & streams & Hst & H2).
      destruct (negb (has_sized (q_proto q))); [discriminate|].
      apply grun_bind_ok in H2. destruct H2 as (s7 & [ss qs] & Hp & H2).
      cbn [rret grun] in H2. injection H2 as _ <-. cbn [q_proto q_streams q_queues].
      rewrite grun_rlift in Hp. injection Hp as _ Hp.
      pose proof (read_sizes_length _ _ _ _ Hs) as HL1.
      pose proof (read_streams_length _ _ _ _ _ _ Hst ltac:(lia) ltac:(lia)) as HL2.
      assert (HL4 : length streams = length (q_proto q)) by lia.
      destruct (parse_streams_typed _ _ _ _ _ HL4 HF Hp) as [HL3 HT].
      split; [split; assumption|reflexivity].
    - destruct (pl <? IGNORED_HEADER_SIZE); [discriminate|].
      apply grun_bind_ok in H2. destruct H2 as (s4 & b & _ & H2). cbn [rret grun] in H2. injection H2 as _ <-.
      split; [split; assumption|reflexivity].
  Qed.

  Lemma refill_wf : forall fuel q s s' q', grun step (refill fuel q) s = (s', Ok q') -> qr_wf q ->
    qr_wf q' /\ q_proto q' = q_proto q /\ 1 <= qr_available q'.
  Proof.
    induction fuel as [|f IH]; intros q s s' q' H Hwf; cbn [refill] in H; [discriminate|].
    destruct (qr_available q <? 1) eqn:E.
    - apply grun_bind_ok in H. destruct H as (s1 & q1 & H1 & H).
      destruct (advance_wf _ _ _ _ H1 Hwf) as [Hwf1 Hp1].
      destruct (IH _ _ _ _ H Hwf1) as (Hwf' & Hp' & Hav). split; [exact Hwf'|]. split; [congruence|exact Hav].
    - cbn [rret grun] in H. injection H as _ <-. split; [exact Hwf|]. split; [reflexivity|lia].
  Qed.

  Lemma qr_new_wf fo recs proto s s' q : grun step (qr_new fo recs proto) s = (s', Ok q) ->
    qr_wf q /\ q_proto q = proto /\ q_queues q = map (fun _ => []) proto.
  Proof.
    unfold qr_new. intros H.
    apply grun_bind_ok in H. destruct H as (s1 & u & _ & H).
    apply grun_bind_ok in H. destruct H as (s2 & h & _ & H).
    apply grun_bind_ok in H. destruct H as (s3 & u' & _ & H).
    cbn [rret grun] in H. injection H as _ <-. cbn [q_proto q_queues].
    split; [|split; reflexivity]. split; cbn [q_streams q_proto q_queues]; [apply map_length|].
    induction proto as [|t proto IH]; cbn [map]; constructor; [constructor|exact IH].
  Qed.
End Run.
