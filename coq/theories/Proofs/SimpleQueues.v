(** Facts about the queues of the queue reader used by the simple iterator
    proof: popping complete points, how [available] changes, and that every
    value in a queue has the constructor of its prototype record - for every
    interpretation of the page-layer operations ([grun]). *)
From Coq Require Import ZArith NArith Bool List Lia ZifyN ZifyNat ZifyBool.
From E57 Require Import Base.Prelude Model.PagedReader Model.BsRead Model.Record Model.Prog Model.QueueReader
  Model.SimpleIter Proofs.SimpleRun.
Open Scope N_scope.

(** * [available] over a list of queues *)
Definition avail (qs : list (list rvalue)) : N :=
  match qs with
  | [] => 0
  | x :: r => fold_left (fun m y => N.min m (len y)) r (len x)
  end.

Lemma qr_available_avail q : qr_available q = avail (q_queues q).
Proof. reflexivity. Qed.

Definition shorter (q q' : list rvalue) : Prop := len q = 1 + len q'.

Lemma len_cons {X} (x : X) l : len (x :: l) = 1 + len l.
Proof. unfold len. cbn [length]. lia. Qed.

Lemma fmin_pop : forall r r' a a', Forall2 shorter r r' -> a = 1 + a' ->
  fold_left (fun m y => N.min m (len y)) r a = 1 + fold_left (fun m y => N.min m (len y)) r' a'.
Proof.
  intros r r' a a' HF. revert a a'. induction HF as [|y y' r r' Hy HF IH]; intros a a' Ha; cbn [fold_left].
  - exact Ha.
  - apply IH. unfold shorter in Hy. lia.
Qed.

Lemma avail_pop qs qs' : qs <> [] -> Forall2 shorter qs qs' -> avail qs = 1 + avail qs'.
Proof.
  intros Hne HF. destruct HF as [|x x' r r' Hx HF]; [congruence|]. cbn [avail].
  apply fmin_pop; assumption.
Qed.

Lemma fmin_le_all : forall (r : list (list rvalue)) a, fold_left (fun m y => N.min m (len y)) r a <= a /\
  forall y, In y r -> fold_left (fun m y => N.min m (len y)) r a <= len y.
Proof.
  induction r as [|x r IH]; intros a; cbn [fold_left].
  - split; [lia|]. intros y [].
  - destruct (IH (N.min a (len x))) as [H1 H2]. split; [lia|].
    intros y [<-|Hy]; [lia|]. apply H2. exact Hy.
Qed.

Lemma avail_le_all qs y : In y qs -> avail qs <= len y.
Proof.
  destruct qs as [|x r]; [intros []|]. cbn [avail]. destruct (fmin_le_all r (len x)) as [H1 H2].
  intros [<-|Hy]; [exact H1|]. apply H2. exact Hy.
Qed.

(** * [pop_fronts] *)

Lemma pop_fronts_shorter : forall qs vs qs', pop_fronts qs = Ok (vs, qs') -> Forall2 shorter qs qs'.
Proof.
  induction qs as [|q r IH]; intros vs qs' H; cbn [pop_fronts] in H.
  - injection H as <- <-. constructor.
  - destruct q as [|v q]; [discriminate|].
    destruct (pop_fronts r) as [[vs1 r1]| |] eqn:E; try discriminate.
    injection H as <- <-. constructor; [|eapply IH; reflexivity].
    unfold shorter. apply len_cons.
Qed.

Lemma pop_fronts_nonempty : forall qs, Forall (fun q => q <> []) qs -> exists vs qs', pop_fronts qs = Ok (vs, qs').
Proof.
  induction qs as [|q r IH]; intros HF.
  - eexists _, _. reflexivity.
  - inversion HF as [|? ? Hq Hr]; subst. destruct q as [|v q]; [congruence|].
    destruct (IH Hr) as (vs & qs' & E). cbn [pop_fronts]. rewrite E. eexists _, _. reflexivity.
Qed.

Lemma pop_fronts_avail qs : 1 <= avail qs -> exists vs qs', pop_fronts qs = Ok (vs, qs').
Proof.
  intros H. apply pop_fronts_nonempty. apply Forall_forall. intros y Hy ->.
  pose proof (avail_le_all qs [] Hy) as H1. unfold len in H1. cbn [length] in H1. lia.
Qed.

Lemma avail_pop_fronts qs vs qs' : 1 <= avail qs -> pop_fronts qs = Ok (vs, qs') -> avail qs = 1 + avail qs'.
Proof.
  intros H E. apply avail_pop; [|eapply pop_fronts_shorter; exact E].
  intros ->. cbn [avail] in H. lia.
Qed.

(** * [pop_raws] *)

Lemma pop_raws_avail : forall n qs, N.of_nat n <= avail qs ->
  exists P qs', pop_raws n qs = Ok (P, qs') /\ length P = n /\ avail qs = N.of_nat n + avail qs'.
Proof.
  induction n as [|n IH]; intros qs H; cbn [pop_raws].
  - eexists _, _. split; [reflexivity|]. split; [reflexivity|]. lia.
  - destruct (pop_fronts_avail qs ltac:(lia)) as (vs & qs1 & E). rewrite E.
    pose proof (avail_pop_fronts qs vs qs1 ltac:(lia) E) as Ha.
    destruct (IH qs1 ltac:(lia)) as (P & qs' & E' & HL & Ha'). rewrite E'.
    eexists _, _. split; [reflexivity|]. cbn [length]. split; [congruence|]. lia.
Qed.

Lemma pop_raws_app : forall a b qs Pa qa Pb qb,
  pop_raws a qs = Ok (Pa, qa) -> pop_raws b qa = Ok (Pb, qb) -> pop_raws (a + b) qs = Ok (Pa ++ Pb, qb).
Proof.
  induction a as [|a IH]; intros b qs Pa qa Pb qb Ha Hb; cbn [pop_raws Nat.add] in *.
  - injection Ha as <- <-. exact Hb.
  - destruct (pop_fronts qs) as [[vs qs1]| |]; try discriminate.
    destruct (pop_raws a qs1) as [[P1 q1]| |] eqn:E; try discriminate.
    injection Ha as <- <-. rewrite (IH b qs1 P1 q1 Pb qb E Hb). reflexivity.
Qed.

Lemma pop_raws_length : forall n qs P qs', pop_raws n qs = Ok (P, qs') -> length P = n.
Proof.
  induction n as [|n IH]; intros qs P qs' H; cbn [pop_raws] in H.
  - injection H as <- <-. reflexivity.
  - destruct (pop_fronts qs) as [[vs qs1]| |]; try discriminate.
    destruct (pop_raws n qs1) as [[P1 q1]| |] eqn:E; try discriminate.
    injection H as <- <-. cbn [length]. f_equal. eapply IH. exact E.
Qed.

(** what is pending is a prefix of what is left over *)
Lemma pending_leftover q records read P qsP :
  pop_raws (length P) (q_queues q) = Ok (P, qsP) -> N.of_nat (length P) <= qr_available q ->
  exists tail, leftover (mkRaw q records read) = P ++ tail.
Proof.
  intros HP Hle. unfold leftover. cbn [ri_q]. rewrite qr_available_avail in *.
  destruct (pop_raws_avail (length P) (q_queues q) Hle) as (P' & qs' & E & _ & Ha).
  rewrite HP in E. injection E as <- <-.
  destruct (pop_raws_avail (N.to_nat (avail qsP)) qsP ltac:(lia)) as (T & qt & ET & _ & _).
  pose proof (pop_raws_app _ _ _ _ _ _ _ HP ET) as H.
  replace (length P + N.to_nat (avail qsP))%nat with (N.to_nat (avail (q_queues q))) in H by lia.
  rewrite H. exists T. reflexivity.
Qed.

(** * Typed queues *)
Definition queue_typed (t : dtype) (qu : list rvalue) : Prop := Forall (fun v => value_matches t v = true) qu.
Definition qr_wf (q : qr) : Prop :=
  length (q_streams q) = length (q_proto q) /\ Forall2 queue_typed (q_proto q) (q_queues q).

Lemma unpack_loop_typed (P : rvalue -> Prop) bits mk : (forall v, P (mk v)) ->
  forall fuel s acc s' out, unpack_loop fuel bits mk s acc = Ok (s', out) -> Forall P acc -> Forall P out.
Proof.
  intros Hmk. induction fuel as [|f IH]; intros s acc s' out H Hacc; cbn [unpack_loop] in H.
  - injection H as <- <-. exact Hacc.
  - destruct (bsr_extract s bits) as [[s1 [v|]]| |]; try discriminate.
    + eapply IH; [exact H|]. apply Forall_app. split; [exact Hacc|]. constructor; [apply Hmk|constructor].
    + injection H as <- <-. exact Hacc.
Qed.

Lemma unpack_type_typed t s s' vs : unpack_type t s = Ok (s', vs) -> queue_typed t vs.
Proof.
  unfold queue_typed. destruct t as [| |mn mx|mn mx]; cbn [unpack_type].
  - unfold unpack_singles. intros H. eapply unpack_loop_typed; [|exact H|constructor]. reflexivity.
  - unfold unpack_doubles. intros H. eapply unpack_loop_typed; [|exact H|constructor]. reflexivity.
  - unfold unpack_scaled_ints, unpack_ints_gen. destruct (mx - mn <=? 0)%Z; [discriminate|].
    intros H. eapply unpack_loop_typed; [|exact H|constructor]. reflexivity.
  - unfold unpack_ints, unpack_ints_gen. destruct (mx - mn <=? 0)%Z; [discriminate|].
    intros H. eapply unpack_loop_typed; [|exact H|constructor]. reflexivity.
Qed.

Lemma repeat_typed t v n : value_matches t v = true -> queue_typed t (repeat v n).
Proof. intros H. unfold queue_typed. apply Forall_forall. intros x Hx. apply repeat_spec in Hx. subst. exact H. Qed.

Lemma parse_streams_typed : forall proto streams queues m ss qs,
  length streams = length proto -> Forall2 queue_typed proto queues ->
  parse_streams proto streams queues m = Ok (ss, qs) ->
  length ss = length proto /\ Forall2 queue_typed proto qs.
Proof.
  induction proto as [|t proto IH]; intros streams queues m ss qs Hlen HF H.
  - destruct streams; cbn [parse_streams] in H; injection H as <- <-; (split; [reflexivity|constructor]).
  - destruct streams as [|s streams]; [discriminate|]. inversion HF as [|? qu ? queues' Hq HF']; subst.
    cbn [length] in Hlen. injection Hlen as Hlen. cbn [parse_streams] in H.
    match type of H with
    | match ?one with _ => _ end = _ => destruct one as [[s1 q1]| |] eqn:E1; try discriminate
    end.
    destruct (parse_streams proto streams queues' m) as [[ss1 qs1]| |] eqn:E2; try discriminate.
    injection H as <- <-. destruct (IH _ _ _ _ _ Hlen HF' E2) as [HL HT].
    split; [cbn [length]; congruence|]. constructor; [|exact HT].
    assert (Happ : forall s0 vs, unpack_type t s = Ok (s0, vs) -> queue_typed t (qu ++ vs)).
    { intros s0 vs Hu. unfold queue_typed. apply Forall_app. split; [exact Hq|].
      eapply unpack_type_typed. exact Hu. }
    assert (Hmap : res_map (fun '(s', vs) => (s', qu ++ vs)) (unpack_type t s) = Ok (s1, q1) -> queue_typed t q1).
    { destruct (unpack_type t s) as [[s0 vs]| |] eqn:Eu; cbn [res_map]; try discriminate.
      intros H0. injection H0 as <- <-. eapply Happ. reflexivity. }
    destruct t as [| |mn mx|mn mx].
    + apply Hmap. exact E1.
    + apply Hmap. exact E1.
    + destruct (bit_size (TScaled mn mx) =? 0); [|apply Hmap; exact E1].
      injection E1 as <- <-. unfold queue_typed. apply Forall_app. split; [exact Hq|].
      apply repeat_typed. reflexivity.
    + destruct (bit_size (TInteger mn mx) =? 0); [|apply Hmap; exact E1].
      injection E1 as <- <-. unfold queue_typed. apply Forall_app. split; [exact Hq|].
      apply repeat_typed. reflexivity.
Qed.

Lemma pop_fronts_typed : forall proto qs vs qs', Forall2 queue_typed proto qs -> pop_fronts qs = Ok (vs, qs') ->
  Forall2 (fun t v => value_matches t v = true) proto vs /\ Forall2 queue_typed proto qs'.
Proof.
  induction proto as [|t proto IH]; intros qs vs qs' HF H; inversion HF as [|? q ? r Hq HF']; subst;
    cbn [pop_fronts] in H.
  - injection H as <- <-. split; constructor.
  - destruct q as [|v q]; [discriminate|].
    destruct (pop_fronts r) as [[vs1 r1]| |] eqn:E; try discriminate. injection H as <- <-.
    destruct (IH _ _ _ HF' E) as [H1 H2]. inversion Hq; subst. split; constructor; assumption.
Qed.

Lemma pop_raws_typed : forall n proto qs P qs', Forall2 queue_typed proto qs -> pop_raws n qs = Ok (P, qs') ->
  Forall (fun vs => Forall2 (fun t v => value_matches t v = true) proto vs) P /\ Forall2 queue_typed proto qs'.
Proof.
  induction n as [|n IH]; intros proto qs P qs' HF H; cbn [pop_raws] in H.
  - injection H as <- <-. split; [constructor|exact HF].
  - destruct (pop_fronts qs) as [[vs qs1]| |] eqn:E; try discriminate.
    destruct (pop_raws n qs1) as [[P1 q1]| |] eqn:E1; try discriminate. injection H as <- <-.
    destruct (pop_fronts_typed _ _ _ _ HF E) as [Hv HF1]. destruct (IH _ _ _ _ HF1 E1) as [HP HF2].
    split; [constructor; assumption|exact HF2].
Qed.

(** * Through [advance] and the refill loop, under any interpretation *)
Section Run.
  Context {S : Type} (step : pr_op -> S -> S * res pr_out).

  Lemma read_sizes_length : forall n s s' l, grun step (read_sizes n) s = (s', Ok l) -> length l = n.
  Proof.
    induction n as [|n IH]; intros s s' l H; cbn [read_sizes] in H.
    - cbn [rret grun] in H. injection H as _ <-. reflexivity.
    - apply grun_bind_ok in H. destruct H as (s1 & b & _ & H).
      apply grun_bind_ok in H. destruct H as (s2 & r & Hr & H).
      cbn [rret grun] in H. injection H as _ <-. cbn [length]. f_equal. eapply IH. exact Hr.
  Qed.

  Lemma read_streams_length : forall sizes streams s s' l,
    grun step (read_streams sizes streams) s = (s', Ok l) -> length sizes = length streams ->
    length l = length streams.
  Proof.
    induction sizes as [|sz sizes IH]; intros streams s s' l H Hlen; destruct streams as [|st streams];
      try discriminate; cbn [read_streams] in H.
    - cbn [rret grun] in H. injection H as _ <-. reflexivity.
    - apply grun_bind_ok in H. destruct H as (s1 & data & _ & H).
      apply grun_bind_ok in H. destruct H as (s2 & st' & _ & H).
      apply grun_bind_ok in H. destruct H as (s3 & r & Hr & H).
      cbn [rret grun] in H. injection H as _ <-. cbn [length] in *. f_equal. eapply IH; [exact Hr|lia].
  Qed.

  Lemma advance_wf q s s' q' : grun step (qr_advance q) s = (s', Ok q') -> qr_wf q ->
    qr_wf q' /\ q_proto q' = q_proto q.
  Proof.
    intros H [Hlen HF]. unfold qr_advance in H.
    apply grun_bind_ok in H. destruct H as (s1 & h & _ & H).
    apply grun_bind_ok in H. destruct H as (s2 & q2 & H2 & H).
    apply grun_bind_ok in H. destruct H as (s3 & u & _ & H).
    cbn [rret grun] in H. injection H as _ <-.
    destruct h as [pl|flag pl count|pl].
    - destruct (pl <? INDEX_HEADER_SIZE); [discriminate|].
      apply grun_bind_ok in H2. destruct H2 as (s4 & b & _ & H2). cbn [rret grun] in H2. injection H2 as _ <-.
      split; [split; assumption|reflexivity].
    - destruct (negb (count =? len (q_streams q))); [discriminate|].
      apply grun_bind_ok in H2. destruct H2 as (s4 & sizes & Hs & H2).
      apply grun_bind_ok in H2. destruct H2 as (s5 & streams & Hst & H2).
      apply grun_bind_ok in H2. destruct H2 as (s6 & mqs & _ & H2).
      destruct mqs as [m|]; [|discriminate].
      apply grun_bind_ok in H2. destruct H2 as (s7 & [ss qs] & Hp & H2).
      cbn [rret grun] in H2. injection H2 as _ <-. cbn [q_proto q_streams q_queues].
      rewrite grun_rlift in Hp. injection Hp as _ Hp.
      pose proof (read_sizes_length _ _ _ _ Hs) as HL1.
      pose proof (read_streams_length _ _ _ _ _ Hst ltac:(lia)) as HL2.
      assert (HL4 : length streams = length (q_proto q)) by lia.
      destruct (parse_streams_typed _ _ _ _ _ _ HL4 HF Hp) as [HL3 HT].
      split; [split; assumption|reflexivity].
    - destruct (pl <? IGNORED_HEADER_SIZE); [discriminate|].
      apply grun_bind_ok in H2. destruct H2 as (s4 & b & _ & H2). cbn [rret grun] in H2. injection H2 as _ <-.
      split; [split; assumption|reflexivity].
  Qed.

  Lemma refill_wf : forall fuel q s s' q', grun step (refill fuel q) s = (s', Ok q') -> qr_wf q ->
    qr_wf q' /\ q_proto q' = q_proto q /\ 1 <= qr_available q'.
  Proof.
    induction fuel as [|f IH]; intros q s s' q' H Hwf; cbn [refill] in H; [discriminate|].
    destruct (qr_available q <? 1) eqn:E.
    - apply grun_bind_ok in H. destruct H as (s1 & q1 & H1 & H).
      destruct (advance_wf _ _ _ _ H1 Hwf) as [Hwf1 Hp1].
      destruct (IH _ _ _ _ H Hwf1) as (Hwf' & Hp' & Hav). split; [exact Hwf'|]. split; [congruence|exact Hav].
    - cbn [rret grun] in H. injection H as _ <-. split; [exact Hwf|]. split; [reflexivity|lia].
  Qed.

  Lemma qr_new_wf fo proto s s' q : grun step (qr_new fo proto) s = (s', Ok q) ->
    qr_wf q /\ q_proto q = proto /\ q_queues q = map (fun _ => []) proto.
  Proof.
    unfold qr_new. intros H.
    apply grun_bind_ok in H. destruct H as (s1 & u & _ & H).
    apply grun_bind_ok in H. destruct H as (s2 & h & _ & H).
    apply grun_bind_ok in H. destruct H as (s3 & u' & _ & H).
    cbn [rret grun] in H. injection H as _ <-. cbn [q_proto q_queues].
    split; [|split; reflexivity]. split; cbn [q_streams q_proto q_queues]; [apply map_length|].
    induction proto as [|t proto IH]; cbn [map]; constructor; [constructor|exact IH].
  Qed.
End Run.
