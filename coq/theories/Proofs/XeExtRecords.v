(** Property C18, second sentence: prototype records in an extension namespace.
    A record element whose namespace has a prefix in scope and which is in a foreign namespace
    (any local name, also a standard one) or has a local name that is not one of the twenty
    standard names is reported as [Unknown prefix name] with its data type; adding such an
    element to a prototype leaves the other records as they were, in the same order. *)
From Coq Require Import Strings.String.
From Coq Require Import List Bool NArith ZArith.
From E57 Require Import Base.Prelude Model.Meta Model.MetaFile Model.XmlTree Model.XmlExtract
  Spec.XeForeign Proofs.XeLemmas Proofs.XeRefute.
Import ListNotations.

Local Notation "'B' s" := (ltac:(let v := eval vm_compute in (bytes_of_string s%string) in exact v))
  (at level 0, s at level 0, only parsing).

Definition std_record_name (local : xstr) : bool :=
  existsb (fun p => xstr_eqb (fst p) local) record_name_table.

Lemma record_name_of_unknown prefix local :
  std_record_name local = false ->
  record_name_of prefix local = Unknown (match prefix with Some p => p | None => [] end) local.
Proof.
  unfold std_record_name, record_name_of. intros H.
  destruct (find (fun p => xstr_eqb (fst p) local) record_name_table) as [p|] eqn:E; [|reflexivity].
  apply find_some in E. destruct E as [Hin Hp].
  assert (existsb (fun p => xstr_eqb (fst p) local) record_name_table = true) as Hc
    by (apply existsb_exists; exists p; split; assumption).
  rewrite H in Hc. discriminate.
Qed.

Section Ext.
Variables pf64 pf32 : xstr -> option N.

(** a namespace that is neither empty nor the E57 namespace *)
Definition foreign_uri (uri : xstr) : bool := negb (is_empty uri) && negb (xstr_eqb uri E57_NAMESPACE).

(** an element in namespace [uri], for which a prefix [p] is in scope, in a foreign namespace or
    with a non-standard local name *)
Theorem record_unknown uri p local attrs sc ch :
  lookup_prefix uri (XElem (mkXName (Some uri) local) attrs sc ch) = Some p ->
  foreign_uri uri = true \/ std_record_name local = false ->
  record_from_node pf64 pf32 (XElem (mkXName (Some uri) local) attrs sc ch) =
  res_map (mkRecord (Unknown p local))
          (data_type_from_node pf64 pf32 (XElem (mkXName (Some uri) local) attrs sc ch)).
Proof.
  intros Hp Hs. unfold record_from_node. cbn [xn_ns xn_local]. rewrite Hp.
  assert ((if is_empty uri || xstr_eqb uri E57_NAMESPACE
           then record_name_of (Some p) local else Unknown p local) = Unknown p local) as ->.
  { destruct Hs as [Hf|Hs].
    - unfold foreign_uri in Hf. apply andb_true_iff in Hf. destruct Hf as [H1 H2].
      apply negb_true_iff in H1. apply negb_true_iff in H2. rewrite H1, H2. reflexivity.
    - rewrite (record_name_of_unknown _ _ Hs). destruct (is_empty uri || xstr_eqb uri E57_NAMESPACE); reflexivity. }
  destruct (data_type_from_node pf64 pf32 _); reflexivity.
Qed.

Lemma map_res_app {A C} (f : A -> res C) l1 l2 r1 r2 :
  map_res f l1 = Ok r1 -> map_res f l2 = Ok r2 -> map_res f (l1 ++ l2) = Ok (r1 ++ r2).
Proof.
  revert r1. induction l1 as [|x l IH]; intros r1 H1 H2; cbn in *.
  - inversion H1; subst. exact H2.
  - destruct (f x) as [y| |]; cbn in *; try discriminate.
    destruct (map_res f l) as [ys| |]; cbn in *; try discriminate.
    inversion H1; subst. rewrite (IH ys eq_refl H2). reflexivity.
Qed.

(** adding one record element to a prototype: the other records are unchanged, in the same order *)
Theorem prototype_insert nm a sc ch1 e ch2 r1 r2 re :
  is_element e = true ->
  map_res (record_from_node pf64 pf32) (filter is_element ch1) = Ok r1 ->
  map_res (record_from_node pf64 pf32) (filter is_element ch2) = Ok r2 ->
  record_from_node pf64 pf32 e = Ok re ->
  prototype_records pf64 pf32 (XElem nm a sc (ch1 ++ ch2)) = Ok (r1 ++ r2) /\
  prototype_records pf64 pf32 (XElem nm a sc (ch1 ++ e :: ch2)) = Ok (r1 ++ re :: r2).
Proof.
  intros He H1 H2 Hr. unfold prototype_records. cbn [children]. rewrite !filter_app. split.
  - apply map_res_app; assumption.
  - apply map_res_app; [assumption|]. cbn [filter]. rewrite He. cbn [map_res]. rewrite Hr, H2. reflexivity.
Qed.

(** the two together *)
Theorem extension_records nm a sc ch1 ch2 r1 r2 uri p local attrs esc ech dt :
  let e := XElem (mkXName (Some uri) local) attrs esc ech in
  lookup_prefix uri e = Some p ->
  foreign_uri uri = true \/ std_record_name local = false ->
  data_type_from_node pf64 pf32 e = Ok dt ->
  map_res (record_from_node pf64 pf32) (filter is_element ch1) = Ok r1 ->
  map_res (record_from_node pf64 pf32) (filter is_element ch2) = Ok r2 ->
  prototype_records pf64 pf32 (XElem nm a sc (ch1 ++ ch2)) = Ok (r1 ++ r2) /\
  prototype_records pf64 pf32 (XElem nm a sc (ch1 ++ e :: ch2)) =
    Ok (r1 ++ mkRecord (Unknown p local) dt :: r2).
Proof.
  intros e Hp Hs Hd H1 H2. apply prototype_insert; try assumption; [reflexivity|].
  unfold e. rewrite (record_unknown _ _ _ _ _ _ Hp Hs). fold e. rewrite Hd. reflexivity.
Qed.

End Ext.

(** * A whole document: a registered extension record among standard ones *)
Definition rec_std (local : xstr) : xnode :=
  stdr local [tattr (B"Integer"); pattr (B"minimum") (B"0"); pattr (B"maximum") (B"255")] [].
Definition rec_ext (local : xstr) : xnode :=
  XElem (mkXName (Some EXT_NS) local)
        [tattr (B"Integer"); pattr (B"minimum") (B"-5"); pattr (B"maximum") (B"5")] sc_reg [].

Definition doc_with_proto (records : list xnode) : xdoc :=
  mkXDoc [stdr (B"e57Root") [tattr (B"Structure")]
    [stdr (B"formatName") [tattr (B"String")] [XText (B"F")];
     stdr (B"guid") [tattr (B"String")] [XText (B"g")];
     stdr (B"versionMajor") [tattr (B"Integer")] [XText (B"1")];
     stdr (B"data3D") [tattr (B"Vector")]
       [stdr (B"vectorChild") [tattr (B"Structure")]
          [stdr (B"points") [tattr (B"CompressedVector"); pattr (B"fileOffset") (B"48"); pattr (B"recordCount") (B"3")]
             [stdr (B"prototype") [tattr (B"Structure")] records]]]]].

Definition d_proto_std : xdoc := doc_with_proto [rec_std (B"colorRed"); rec_std (B"colorBlue")].
Definition d_proto_ext : xdoc := doc_with_proto [rec_std (B"colorRed"); rec_ext (B"quality"); rec_std (B"colorBlue")].
Definition d_proto_ext_std_name : xdoc := doc_with_proto [rec_ext (B"cartesianX"); rec_std (B"cartesianX")].

Definition first_prototype (r : res file_meta) : option (list record) :=
  match r with
  | Ok m => match fm_pointclouds m with pc :: _ => Some (pc_prototype pc) | [] => None end
  | _ => None
  end.

Definition extensions_of (r : res file_meta) : option (list extension) :=
  match r with Ok m => Some (fm_extensions m) | _ => None end.

Example extension_record_document :
  forall pf64 pf32 fdiv,
    first_prototype (extract_all pf64 pf32 fdiv (doc_with_proto [rec_std (B"colorRed"); rec_std (B"colorBlue")])) =
      Some [mkRecord ColorRed (DInteger 0 255); mkRecord ColorBlue (DInteger 0 255)] /\
    first_prototype (extract_all pf64 pf32 fdiv
                       (doc_with_proto [rec_std (B"colorRed"); rec_ext (B"quality"); rec_std (B"colorBlue")])) =
      Some [mkRecord ColorRed (DInteger 0 255);
            mkRecord (Unknown (B"ext") (B"quality")) (DInteger (-5) 5);
            mkRecord ColorBlue (DInteger 0 255)] /\
    extensions_of (extract_all pf64 pf32 fdiv (doc_with_proto [])) = Some [mkExtension (B"ext") EXT_NS].
Proof. intros pf64 pf32 fdiv. repeat split; vm_compute; reflexivity. Qed.

(** * An extension record whose local name is a standard name keeps its namespace
    (this was a defect of the pinned tree, repaired in /repo by 6545e7e) *)
Theorem extension_std_name_kept :
  forall pf64 pf32 fdiv,
    std_record_name (B"cartesianX") = true /\
    lookup_prefix EXT_NS (rec_ext (B"cartesianX")) = Some (B"ext") /\
    record_from_node pf64 pf32 (rec_ext (B"cartesianX")) =
      Ok (mkRecord (Unknown (B"ext") (B"cartesianX")) (DInteger (-5) 5)) /\
    first_prototype (extract_all pf64 pf32 fdiv (doc_with_proto [rec_ext (B"cartesianX"); rec_std (B"cartesianX")])) =
      Some [mkRecord (Unknown (B"ext") (B"cartesianX")) (DInteger (-5) 5); mkRecord CartesianX (DInteger 0 255)].
Proof. intros pf64 pf32 fdiv. repeat split; vm_compute; reflexivity. Qed.
