(** C20, e57-from-xyz followed by e57-to-xyz on one point: finite f32
    coordinates and 8-bit colours come back numerically unchanged.
    Composition of ToolsCoord (identity pose, exact conversions), ToolsColor
    (the 256 colour values) and ToolsLines (which lines become points). *)
From Coq Require Import ZArith NArith Bool List Reals Lia ZifyN ZifyNat ZifyBool.
From Flocq Require Import Core Binary Bits.
From E57 Require Import Base.Prelude Base.Floats Model.Normalize Model.Tools
  Proofs.ToolsCoord Proofs.ToolsColor Proofs.ToolsLines.

(** what the f64 delivered for a stored f32 bit pattern is *)
Definition coord_out (b : N) : binary64 := pz64 (f64_of_f32 (f32_of_bits b)).

Theorem xyz_view_finite : forall bx by_ bz r g b,
  f32_is_finite (f32_of_bits bx) = true -> f32_is_finite (f32_of_bits by_) = true ->
  f32_is_finite (f32_of_bits bz) = true -> r < 256 -> g < 256 -> b < 256 ->
  exists cr cg cb,
    xyz_view (mkP6 bx by_ bz r g b) =
      Ok (mkSp (CValid (coord_out bx) (coord_out by_) (coord_out bz)) (Some (cr, cg, cb))) /\
    to_u8_color cr = Z.of_N r /\ to_u8_color cg = Z.of_N g /\ to_u8_color cb = Z.of_N b.
Proof.
  intros bx by_ bz r g b Fx Fy Fz Hr Hg Hb.
  destruct (color_value_u8 r Hr) as (cr & Er & Ur).
  destruct (color_value_u8 g Hg) as (cg & Eg & Ug).
  destruct (color_value_u8 b Hb) as (cb & Eb & Ub).
  exists cr, cg, cb. split; [|auto].
  unfold xyz_view. cbn [p_x p_y p_z p_r p_g p_b]. rewrite Er, Eg, Eb. cbn [res_bind].
  unfold transform_cart. rewrite transform_identity; [reflexivity| | |];
    apply f64_of_f32_exact; assumption.
Qed.

(** the delivered coordinate has the real value of the stored f32, is finite,
    and converts back to the stored f32 (a zero comes back as +0) *)
Theorem coord_out_exact : forall b, f32_is_finite (f32_of_bits b) = true ->
  is_finite 53 1024 (coord_out b) = true /\
  B2R 53 1024 (coord_out b) = B2R 24 128 (f32_of_bits b) /\
  f32_of_f64 (coord_out b) = pz32 (f32_of_bits b).
Proof. intros b H. apply pz64_f64_of_f32. exact H. Qed.

(** -0 is the one finite value whose bit pattern is not preserved *)
Example coord_out_neg_zero :
  bits_of_f64 (coord_out 0x80000000) = 0 /\ bits_of_f64 (f64_of_f32 (f32_of_bits 0x80000000)) = 0x8000000000000000.
Proof. vm_compute. split; reflexivity. Qed.

(** outside "finite coordinates": one infinite coordinate turns the finite
    ones of the same point into NaN (0 * inf in the identity rotation) *)
Example coord_nonfinite_neighbour :
  match transform_cart pose_default
          (CValid (f64_of_f32 (f32_of_bits 0x3f800000))        (* 1.0 *)
                  (f64_of_f32 (f32_of_bits 0x7f800000))        (* inf *)
                  (f64_of_f32 (f32_of_bits 0x40000000))) with  (* 2.0 *)
  | CValid x y z => (bits_of_f64c x, bits_of_f64c y, bits_of_f64c z)
  | _ => (0, 0, 0)
  end = (nan64_bits, 0x7ff0000000000000, nan64_bits).
Proof. vm_compute. reflexivity. Qed.

Section Roundtrip.

Variable parse_f32 : list N -> option N.
Variable fmt_f64_ryu : N -> list N.
(** [str::parse::<f64>], only used to state what is assumed about ryu *)
Variable parse_f64 : list N -> option N.

(** H2: the text ryu prints for the f64 image of a finite f32 parses back to
    that f64, and as f32 to that f32 (validated by the tie on every value
    that occurs; ryu and core::num::dec2flt are in the trusted base) *)
Hypothesis ryu_parse_f64 : forall b, f32_is_finite (f32_of_bits b) = true ->
  parse_f64 (fmt_f64_ryu (bits_of_f64c (coord_out b))) = Some (bits_of_f64c (coord_out b)).
Hypothesis ryu_parse_f32 : forall b, f32_is_finite (f32_of_bits b) = true ->
  parse_f32 (fmt_f64_ryu (bits_of_f64c (coord_out b))) = Some (bits_of_f32 (f32_of_f64 (coord_out b))).

Notation from_xyz_line := (from_xyz_line parse_f32).
Notation to_xyz_point := (to_xyz_point fmt_f64_ryu).

Definition coord_text (b : N) : list N := fmt_f64_ryu (bits_of_f64c (coord_out b)).

(** One input line with at least six columns whose first three parse (H1) to
    finite f32 values and whose next three are 8-bit integers: the line
    written by e57-to-xyz consists of the three coordinate texts and the same
    three colour values; each coordinate text denotes (as f64) exactly the
    real value of the input's f32 and reads back as that f32 (zero: as +0). *)
Theorem xyz_line_roundtrip : forall line tx ty tz tr tg tb rest bx by_ bz r g b,
  utf8_valid line = true ->
  split_sp (trim line) = tx :: ty :: tz :: tr :: tg :: tb :: rest ->
  parse_f32 tx = Some bx -> parse_f32 ty = Some by_ -> parse_f32 tz = Some bz ->
  parse_u8 tr = Some r -> parse_u8 tg = Some g -> parse_u8 tb = Some b ->
  f32_is_finite (f32_of_bits bx) = true -> f32_is_finite (f32_of_bits by_) = true ->
  f32_is_finite (f32_of_bits bz) = true ->
  from_xyz_line line = Ok (Some (mkP6 bx by_ bz r g b)) /\
  exists sp, xyz_view (mkP6 bx by_ bz r g b) = Ok sp /\
    to_xyz_point sp =
      coord_text bx ++ [32] ++ coord_text by_ ++ [32] ++ coord_text bz ++
      [32] ++ dec_N r ++ [32] ++ dec_N g ++ [32] ++ dec_N b ++ [10] /\
    (forall c, In c [bx; by_; bz] ->
       B2R 53 1024 (coord_out c) = B2R 24 128 (f32_of_bits c) /\
       parse_f64 (coord_text c) = Some (bits_of_f64c (coord_out c)) /\
       parse_f32 (coord_text c) = Some (bits_of_f32 (pz32 (f32_of_bits c)))) /\
    parse_u8 (dec_N r) = Some r /\ parse_u8 (dec_N g) = Some g /\ parse_u8 (dec_N b) = Some b.
Proof.
  intros line tx ty tz tr tg tb rest bx by_ bz r g b Hu Hs Px Py Pz Pr Pg Pb Fx Fy Fz.
  pose proof (parse_u8_lt _ _ Pr) as Hr. pose proof (parse_u8_lt _ _ Pg) as Hg.
  pose proof (parse_u8_lt _ _ Pb) as Hb.
  split.
  { rewrite (from_xyz_line_six parse_f32 line tx ty tz tr tg tb rest Hu Hs).
    unfold parse6. rewrite Px, Py, Pz, Pr, Pg, Pb. reflexivity. }
  destruct (xyz_view_finite bx by_ bz r g b Fx Fy Fz Hr Hg Hb) as (cr & cg & cb & Ev & Ur & Ug & Ub).
  eexists. split; [exact Ev|]. split; [|split].
  - unfold Tools.to_xyz_point. cbn [sp_cart sp_color]. unfold u8_text. rewrite Ur, Ug, Ub, !N2Z.id.
    unfold coord_text. rewrite <- !app_assoc. reflexivity.
  - intros c Hc.
    assert (Fc : f32_is_finite (f32_of_bits c) = true).
    { destruct Hc as [<-|[<-|[<-|[]]]]; assumption. }
    destruct (coord_out_exact c Fc) as (_ & HR & H32).
    split; [exact HR|]. split; [apply ryu_parse_f64; exact Fc|].
    unfold coord_text. rewrite ryu_parse_f32 by exact Fc. rewrite H32. reflexivity.
  - repeat split; apply dec_parse_u8; assumption.
Qed.

End Roundtrip.

(** * The whole file *)
Section File.
Variable parse_f32 : list N -> option N.
Variable fmt_f64_ryu : N -> list N.

Definition finite_pt (p : point6) : Prop :=
  f32_is_finite (f32_of_bits (p_x p)) = true /\ f32_is_finite (f32_of_bits (p_y p)) = true /\
  f32_is_finite (f32_of_bits (p_z p)) = true.

(** the line e57-to-xyz writes for a point e57-from-xyz stored *)
Definition canonical_line (p : point6) : list N :=
  coord_text fmt_f64_ryu (p_x p) ++ [32] ++ coord_text fmt_f64_ryu (p_y p) ++ [32] ++
  coord_text fmt_f64_ryu (p_z p) ++ [32] ++ dec_N (p_r p) ++ [32] ++ dec_N (p_g p) ++ [32] ++
  dec_N (p_b p) ++ [10].

Lemma from_xyz_line_colors : forall line p, from_xyz_line parse_f32 line = Ok (Some p) ->
  p_r p < 256 /\ p_g p < 256 /\ p_b p < 256.
Proof.
  intros line p. unfold from_xyz_line. destruct (utf8_valid line); cbn [negb]; [|discriminate].
  destruct (split_sp (trim line)) as [|p0 [|p1 [|p2 [|p3 [|p4 [|p5 rest]]]]]]; try discriminate.
  unfold parse6.
  destruct (parse_f32 p0); [|discriminate]. destruct (parse_f32 p1); [|discriminate].
  destruct (parse_f32 p2); [|discriminate].
  destruct (parse_u8 p3) eqn:E3; [|discriminate]. destruct (parse_u8 p4) eqn:E4; [|discriminate].
  destruct (parse_u8 p5) eqn:E5; [|discriminate].
  intros H. injection H as <-. cbn [p_r p_g p_b].
  repeat split; eapply parse_u8_lt; eassumption.
Qed.

Lemma from_xyz_colors : forall lines pts, from_xyz parse_f32 lines = Ok pts ->
  Forall (fun p => p_r p < 256 /\ p_g p < 256 /\ p_b p < 256) pts.
Proof.
  intros lines pts H. apply from_xyz_ok_iff in H. destruct H as (_ & ->).
  induction lines as [|l r IH]; cbn [flat_map]; [constructor|].
  apply Forall_app. split; [|exact IH]. unfold line_points.
  destruct (from_xyz_line parse_f32 l) as [[p|]|k|] eqn:E; try constructor; [|constructor].
  eapply from_xyz_line_colors. exact E.
Qed.

Lemma view_all : forall pts, Forall finite_pt pts ->
  Forall (fun p => p_r p < 256 /\ p_g p < 256 /\ p_b p < 256) pts ->
  exists sps, map_res xyz_view pts = Ok sps /\ to_xyz fmt_f64_ryu sps = flat_map canonical_line pts.
Proof.
  induction pts as [|p r IH]; intros Hf Hc.
  - exists []. split; reflexivity.
  - inversion Hf as [|? ? (Fx & Fy & Fz) Hfr]; subst. inversion Hc as [|? ? (Cr & Cg & Cb) Hcr]; subst.
    destruct (IH Hfr Hcr) as (sps & E1 & E2).
    destruct p as [bx by_ bz cr cg cb]. cbn [p_x p_y p_z p_r p_g p_b] in *.
    destruct (xyz_view_finite bx by_ bz cr cg cb Fx Fy Fz Cr Cg Cb) as (vr & vg & vb & Ev & Ur & Ug & Ub).
    eexists. split.
    + cbn [map_res]. rewrite Ev. cbn [res_bind]. rewrite E1. cbn [res_map]. reflexivity.
    + unfold to_xyz in *. cbn [flat_map]. rewrite E2. f_equal.
      unfold to_xyz_point, canonical_line, coord_text, u8_text. cbn [sp_cart sp_color p_x p_y p_z p_r p_g p_b].
      rewrite Ur, Ug, Ub, !N2Z.id. rewrite <- !app_assoc. reflexivity.
Qed.

(** e57-from-xyz then e57-to-xyz: if the input parses to points with finite
    coordinates, the output is one canonical line per point, in input order
    (which lines give points: [from_xyz_ok_iff], [from_xyz_line_skip_iff]) *)
Theorem xyz_roundtrip_file : forall input pts,
  from_xyz parse_f32 (xyz_lines input) = Ok pts -> Forall finite_pt pts ->
  xyz_roundtrip parse_f32 fmt_f64_ryu input = Ok (flat_map canonical_line pts).
Proof.
  intros input pts H Hf. unfold xyz_roundtrip. rewrite H. cbn [res_bind].
  destruct (view_all pts Hf (from_xyz_colors _ _ H)) as (sps & E1 & E2).
  rewrite E1. cbn [res_map]. rewrite E2. reflexivity.
Qed.

(** and it fails exactly when from-xyz fails *)
Theorem xyz_roundtrip_err : forall input k,
  from_xyz parse_f32 (xyz_lines input) = Err k -> xyz_roundtrip parse_f32 fmt_f64_ryu input = Err k.
Proof. intros input k H. unfold xyz_roundtrip. rewrite H. reflexivity. Qed.

End File.

(** * A run of the whole text-to-text model on a concrete file, with the
    oracles given by finite tables (what Rust's functions return on these texts) *)
Definition ex_parse_f32 (t : list N) : option N :=
  if list_eq_dec N.eq_dec t [49; 46; 53] then Some 0x3fc00000            (* "1.5" *)
  else if list_eq_dec N.eq_dec t [45; 48] then Some 0x80000000           (* "-0" *)
  else if list_eq_dec N.eq_dec t [51; 101; 45; 52; 53] then Some 2       (* "3e-45": 2 ulp of the smallest subnormal *)
  else None.
Definition ex_fmt_ryu (b : N) : list N :=
  if b =? 0x3ff8000000000000 then [49; 46; 53]                            (* 1.5 *)
  else if b =? 0 then [48; 46; 48]                                        (* 0.0 *)
  else if b =? 0x36b0000000000000 then [50; 46; 56; 101; 45; 52; 53]      (* "2.8e-45", abbreviated stand-in *)
  else [63].

(** "1.5 -0 3e-45 0 128 255 extra\n" ++ "1 2 3\n" ++ "\n" ++ "  -0 -0 -0 +7 08 255  \r\n" (last line kept, CRLF and blanks trimmed) *)
Definition ex_input : list N :=
  [49;46;53;32;45;48;32;51;101;45;52;53;32;48;32;49;50;56;32;50;53;53;32;101;120;116;114;97;10] ++
  [49;32;50;32;51;10] ++ [10] ++
  [32;32;45;48;32;45;48;32;45;48;32;43;55;32;48;56;32;50;53;53;32;32;13;10].

Example ex_roundtrip :
  xyz_roundtrip ex_parse_f32 ex_fmt_ryu ex_input =
  Ok ([49;46;53;32;48;46;48;32;50;46;56;101;45;52;53;32;48;32;49;50;56;32;50;53;53;10] ++   (* 1.5 0.0 2.8e-45 0 128 255 *)
      [48;46;48;32;48;46;48;32;48;46;48;32;55;32;56;32;50;53;53;10]).                      (* 0.0 0.0 0.0 7 8 255 *)
Proof. vm_compute. reflexivity. Qed.

(** a bad number in one of the first six columns of a six-column line aborts the run *)
Example ex_abort :
  xyz_roundtrip ex_parse_f32 ex_fmt_ryu ([49;46;53;32;45;48;32;45;48;32;48;32;48;32;50;53;54;10]) = Err EInvalid   (* 256 *)
  /\ xyz_roundtrip ex_parse_f32 ex_fmt_ryu ([49;46;53;32;32;45;48;32;45;48;32;48;32;48;32;48;10]) = Err EInvalid (* double space: empty part *)
  /\ xyz_roundtrip ex_parse_f32 ex_fmt_ryu ([49;46;53;9;45;48;9;45;48;9;48;9;48;9;48;10]) = Ok [].              (* tabs: one part, dropped *)
Proof. vm_compute. repeat split. Qed.
