(** The integer parsers of Model/XmlExtract.v invert the decimal texts of Spec/MetaTree.v
    ([dec_z], [dec_n]: the digits of the standard library's [Z.to_int] / [N.to_uint]). *)
From Coq Require Import List Bool NArith ZArith Lia Decimal DecimalPos DecimalN DecimalZ.
From E57 Require Import Base.Prelude Model.XmlTree Model.XmlExtract Spec.MetaTree.
Import ListNotations.
Local Open Scope Z_scope.

Definition dval (d : uint) : Z :=
  match d with
  | Nil => 0 | D0 _ => 0 | D1 _ => 1 | D2 _ => 2 | D3 _ => 3 | D4 _ => 4
  | D5 _ => 5 | D6 _ => 6 | D7 _ => 7 | D8 _ => 8 | D9 _ => 9
  end.
Definition dtail (d : uint) : uint :=
  match d with
  | Nil => Nil
  | D0 r | D1 r | D2 r | D3 r | D4 r | D5 r | D6 r | D7 r | D8 r | D9 r => r
  end.

(** value of a digit string read left to right from an accumulator *)
Fixpoint uval (acc : Z) (d : uint) : Z :=
  match d with
  | Nil => acc
  | D0 r | D1 r | D2 r | D3 r | D4 r | D5 r | D6 r | D7 r | D8 r | D9 r => uval (acc * 10 + dval d) r
  end.

Lemma uval_ge acc d : 0 <= acc -> acc <= uval acc d.
Proof.
  revert acc. induction d; intros acc H; cbn [uval dval]; try lia;
    (etransitivity; [|apply IHd; lia]; lia).
Qed.

Lemma uval_neg acc d : uval acc d = acc * 10 ^ Z.of_nat (Decimal.nb_digits d) + uval 0 d.
Proof.
  revert acc. induction d; intros acc; cbn [uval dval Decimal.nb_digits]; try (cbn; lia);
    rewrite IHd, (IHd (0 * 10 + _)); rewrite Nat2Z.inj_succ, Z.pow_succ_r by lia; lia.
Qed.

Lemma digit_val_byte d : d <> Nil -> digit_val (digit_byte d) = Some (dval d).
Proof. destruct d; intros H; try reflexivity. congruence. Qed.

Lemma parse_digits_pos lo hi d acc :
  lo <= 0 -> 0 <= acc -> uval acc d <= hi ->
  parse_digits false lo hi acc (dec_uint d) = Some (uval acc d).
Proof.
  intros Hlo. revert acc.
  induction d; intros acc Ha Hh; cbn [dec_uint uval parse_digits]; try reflexivity;
    (rewrite digit_val_byte by discriminate; cbn [dval uval] in *;
     match goal with |- context[uval ?a d] => pose proof (uval_ge a d ltac:(lia)) as Hg end;
     match goal with |- context[if ?c then _ else _] => replace c with true by (symmetry; apply andb_true_iff; split; apply Z.leb_le; lia) end;
     apply IHd; lia).
Qed.

(** the same digits read with the accumulator counting downwards *)
Fixpoint nval (acc : Z) (d : uint) : Z :=
  match d with
  | Nil => acc
  | D0 r | D1 r | D2 r | D3 r | D4 r | D5 r | D6 r | D7 r | D8 r | D9 r => nval (acc * 10 - dval d) r
  end.

Lemma nval_le acc d : acc <= 0 -> nval acc d <= acc.
Proof.
  revert acc. induction d; intros acc H; cbn [nval dval]; try lia;
    (etransitivity; [apply IHd; lia|]; lia).
Qed.

Lemma nval_uval acc d : nval acc d = - uval (- acc) d.
Proof.
  revert acc. induction d; intros acc; cbn [nval uval dval]; try lia;
    (rewrite IHd; f_equal; f_equal; lia).
Qed.

Lemma parse_digits_neg lo hi d acc :
  0 <= hi -> acc <= 0 -> lo <= nval acc d ->
  parse_digits true lo hi acc (dec_uint d) = Some (nval acc d).
Proof.
  intros Hhi. revert acc.
  induction d; intros acc Ha Hl; cbn [dec_uint nval parse_digits]; try reflexivity;
    (rewrite digit_val_byte by discriminate; cbn [dval nval] in *;
     match goal with |- context[nval ?a d] => pose proof (nval_le a d ltac:(lia)) as Hg end;
     match goal with |- context[if ?c then _ else _] => replace c with true by (symmetry; apply andb_true_iff; split; apply Z.leb_le; lia) end;
     apply IHd; lia).
Qed.

(** * The standard library's conversions *)
Lemma of_uint_acc_uval d acc : Zpos (Pos.of_uint_acc d acc) = uval (Zpos acc) d.
Proof.
  revert acc. induction d; intros acc; cbn [Pos.of_uint_acc uval dval]; try reflexivity;
    (rewrite IHd; f_equal; lia).
Qed.

Lemma of_uint_uval d : Z.of_N (Pos.of_uint d) = uval 0 d.
Proof.
  induction d; cbn [Pos.of_uint uval dval]; try reflexivity; try exact IHd;
    (unfold Z.of_N; rewrite of_uint_acc_uval; reflexivity).
Qed.

Lemma uval_to_uint n : uval 0 (N.to_uint n) = Z.of_N n.
Proof. rewrite <- of_uint_uval. change (Pos.of_uint (N.to_uint n)) with (N.of_uint (N.to_uint n)). rewrite DecimalN.Unsigned.of_to. reflexivity. Qed.

Lemma dec_uint_head d : d <> Nil -> exists b r, dec_uint d = b :: r /\ (48 <= b <= 57)%N.
Proof. destruct d; intros H; try congruence; eexists; eexists; (split; [reflexivity|cbn; lia]). Qed.

Lemma to_uint_nonnil n : N.to_uint n <> Nil.
Proof. destruct n; [discriminate|apply DecimalPos.Unsigned.to_uint_nonnil]. Qed.

(** parsing an unsigned decimal text with any of the parsers *)
Lemma parse_int_dec_n signed lo hi n :
  lo <= 0 -> Z.of_N n <= hi -> parse_int signed lo hi (dec_n n) = Some (Z.of_N n).
Proof.
  intros Hlo Hhi. unfold dec_n.
  destruct (dec_uint_head (N.to_uint n) (to_uint_nonnil n)) as (b & r & E & Hb).
  assert (parse_int signed lo hi (dec_uint (N.to_uint n)) = parse_digits false lo hi 0 (dec_uint (N.to_uint n))) as ->.
  { rewrite E. unfold parse_int.
    destruct b as [|p]; [lia|].
    do 6 (destruct p as [p|p|]; try lia; try reflexivity). }
  rewrite parse_digits_pos; rewrite ?uval_to_uint; try lia. reflexivity.
Qed.

Lemma parse_u64_dec_n n : (n < 2 ^ 64)%N -> parse_u64 (dec_n n) = Some (Z.of_N n).
Proof. intros H. apply parse_int_dec_n; lia. Qed.
Lemma parse_u32_dec_n n : (n < 2 ^ 32)%N -> parse_u32 (dec_n n) = Some (Z.of_N n).
Proof. intros H. apply parse_int_dec_n; lia. Qed.

Lemma parse_i64_dec_z z : - 2 ^ 63 <= z <= 2 ^ 63 - 1 -> parse_i64 (dec_z z) = Some z.
Proof.
  intros H. destruct z as [|p|p].
  - reflexivity.
  - change (dec_z (Zpos p)) with (dec_n (Npos p)). unfold parse_i64. rewrite parse_int_dec_n; try reflexivity; lia.
  - unfold dec_z. cbn [Z.to_int].
    pose proof (DecimalPos.Unsigned.to_uint_nonnil p) as Hn.
    destruct (dec_uint_head _ Hn) as (b & r & E & Hb).
    unfold parse_i64, parse_int. rewrite E. rewrite <- E.
    rewrite parse_digits_neg; rewrite ?nval_uval; cbn [Z.opp];
      change (Pos.to_uint p) with (N.to_uint (Npos p)); rewrite ?uval_to_uint; try lia.
    reflexivity.
Qed.
