(** G3 and G4: bursts.

    - [crc_detects_burst_lsb]: G3 holds in the CRC's own bit order ([msb = false]).
    - [crc_detects_burst_checksum]: bursts inside the checksum field are detected in either order.
    - [crc_detects_burst_msb31]: in most-significant-bit-first order, bursts of span <= 31 are detected.
    - [crc_detects_burst_refuted], [crc_detects_burst_false]: G3 *as stated* (both orders, span 32)
      is false: with [msb = true] a 32-position window at byte phase 1 or 7 covers 40 bits of the
      CRC's bit order with a gap, and there the 32 unit syndromes are linearly dependent.
    - [crc_burst_straddle_refuted] (G4): a burst of span 32 straddling the payload/checksum
      boundary can go undetected, in both bit orders.

    Method for the positive results: the zero-byte step is linear and injective on 32-bit values, so
    the syndromes of a window are linearly independent iff those of the window translated by whole
    bytes to the end of the payload are.  For the finitely many windows at the end of the payload
    (start 8120 .. 8160 - span) independence is checked from a dual certificate: masks [m_p] with
    [parity (m_p land v_q) = (p =? q)], computed outside Coq and checked here by [vm_compute]. *)
From Coq Require Import ZifyN ZifyNat ZifyBool.
From E57 Require Import Base.Prelude Model.Crc Spec.CrcSpec.
From E57 Require Import Proofs.CrcLinear Proofs.CrcSyndrome Proofs.CrcSynTable.
Ltac Zify.zify_post_hook ::= Z.div_mod_to_equations.

(** * Independence of a window from a certificate *)

Definition indep (msb : bool) (w n : N) : Prop :=
  forall l, l <> [] -> NoDup l -> Forall (fun i => w <= i < w + n) l ->
  xors (map (synd msb) l) <> 0.

Definition cert_ok (msb : bool) (w : N) (n : nat) (M : list N) : bool :=
  forallb (fun p => forallb (fun q =>
    Bool.eqb (parity (N.land (nth p M 0) (synd_fast msb (w + N.of_nat q)))) (Nat.eqb p q))
    (seq 0 n)) (seq 0 n).

Lemma cert_indep msb w n M : cert_ok msb w n M = true -> indep msb w (N.of_nat n).
Proof.
  intros C l Hne Hnd Hl. rewrite Forall_forall in Hl.
  set (f := fun q : nat => synd msb (w + N.of_nat q)).
  assert (map (synd msb) l = map f (map (fun i => N.to_nat (i - w)) l)) as ->.
  { rewrite map_map. apply map_ext_in. intros i Hi. unfold f. f_equal.
    specialize (Hl i Hi). lia. }
  apply (dual_indep f M n).
  - intros p q Hp Hq. unfold cert_ok in C. rewrite forallb_forall in C.
    specialize (C p). rewrite forallb_forall in C.
    specialize (C ltac:(apply in_seq; lia) q ltac:(apply in_seq; lia)).
    apply eqb_prop in C. unfold f. rewrite <- synd_fast_ok. exact C.
  - destruct l; [ congruence | discriminate ].
  - apply NoDup_map_inj_in; [ | exact Hnd ].
    intros x y Hx Hy E. pose proof (Hl x Hx). pose proof (Hl y Hy). lia.
  - apply Forall_forall. intros q Hq. apply in_map_iff in Hq.
    destruct Hq as (i & <- & Hi). specialize (Hl i Hi). lia.
Qed.

(** * Translation by whole bytes *)

Lemma synd_shift msb i t :
  i + 8 * N.of_nat t < 8160 ->
  synd msb i = iterE t (synd msb (i + 8 * N.of_nat t)).
Proof.
  intro H. unfold synd.
  replace (i <? 8160) with true by (symmetry; apply N.ltb_lt; lia).
  replace (i + 8 * N.of_nat t <? 8160) with true by (symmetry; apply N.ltb_lt; lia).
  replace (bit_in_byte msb (i + 8 * N.of_nat t)) with (bit_in_byte msb i)
    by (unfold bit_in_byte; destruct msb; lia).
  rewrite <- iterE_add. f_equal. lia.
Qed.

(** Every payload burst of span [n] is detected as soon as the windows of
    span [n] at the end of the payload are independent. *)
Lemma burst_payload_indep msb n :
  n <= 32 ->
  (forall w, 8120 <= w <= 8160 - n -> indep msb w n) ->
  forall l, burst n l -> within_payload l -> xors (map (synd msb) l) <> 0.
Proof.
  intros Hn HI l (Hne & (Hnd & Hlt) & a & Ha) Hpay.
  unfold within_payload in Hpay. rewrite Forall_forall in Ha, Hpay, Hlt.
  destruct (N.lt_ge_cases a 8120) as [Hlow | Hhigh].
  - set (t := (1015 - N.to_nat (a / 8))%nat).
    set (sh := fun i => i + 8 * N.of_nat t).
    assert (map (synd msb) l = map (iterE t) (map (synd msb) (map sh l))) as ->.
    { rewrite !map_map. apply map_ext_in. intros i Hi. apply synd_shift.
      specialize (Ha i Hi). unfold t. lia. }
    rewrite xors_iterE. intro E. apply iterE_eq0 in E.
    + revert E. apply (HI (a + 8 * N.of_nat t)).
      * unfold t. lia.
      * destruct l; [ congruence | discriminate ].
      * apply NoDup_map_inj_in; [ | exact Hnd ]. unfold sh. intros; lia.
      * apply Forall_forall. intros i' Hi'. apply in_map_iff in Hi'.
        destruct Hi' as (i & <- & Hi). specialize (Ha i Hi). unfold sh. lia.
    + apply xors_lt. apply Forall_forall. intros v Hv.
      apply in_map_iff in Hv. destruct Hv as (i' & <- & Hi').
      apply in_map_iff in Hi'. destruct Hi' as (i & <- & Hi).
      apply synd_lt. specialize (Ha i Hi). unfold sh, t. lia.
  - destruct (N.le_gt_cases a (8160 - n)) as [Hle | Hgt].
    + apply (HI a); [ lia | assumption | assumption | apply Forall_forall; exact Ha ].
    + apply (HI (8160 - n)); [ lia | assumption | assumption | ].
      apply Forall_forall. intros i Hi.
      specialize (Ha i Hi). specialize (Hpay i Hi). lia.
Qed.

(** * Certificates *)

Definition certs_lsb : list (list N) :=
  [ [2876980607; 1458993918; 2917987837; 1541008378; 482929291; 2464868457; 2393828780; 3056002598; 1817037900; 1944102374; 1287288499; 2574576999; 2576541617; 2556359196; 2613500231; 932033166; 1864066333; 3728132667; 387361032; 2237034351; 179101406; 3189932227; 3611180280; 84362382; 2708845666; 1122724037; 783150325; 1566300651; 3132601303; 1970235311; 3940470623; 3585973951];
    [1458993918; 2917987837; 1541008378; 3082016756; 965858582; 634769619; 492690265; 1817037900; 3634075801; 3888204748; 2574576999; 854186702; 858115939; 817751096; 932033166; 1864066333; 3728132667; 3161298039; 774722064; 179101406; 358202812; 2084897159; 2927393265; 168724765; 1122724037; 2245448074; 1566300651; 3132601303; 1970235311; 3940470623; 3585973951; 2876980607];
    [2917987837; 1541008378; 3082016756; 1869066216; 1931717165; 1269539239; 985380530; 3634075801; 2973184306; 3481442201; 854186702; 1708373405; 1716231878; 1635502192; 1864066333; 3728132667; 3161298039; 2027628782; 1549444128; 358202812; 716405625; 4169794319; 1559819235; 337449531; 2245448074; 195928853; 3132601303; 1970235311; 3940470623; 3585973951; 2876980607; 1458993918];
    [1541008378; 3082016756; 1869066216; 3738132432; 3863434330; 2539078479; 1970761060; 2973184306; 1651401316; 2667917107; 1708373405; 3416746811; 3432463757; 3271004384; 3728132667; 3161298039; 2027628782; 4055257565; 3098888257; 716405625; 1432811250; 4044621342; 3119638470; 674899063; 195928853; 391857706; 1970235311; 3940470623; 3585973951; 2876980607; 1458993918; 2917987837];
    [3082016756; 1869066216; 3738132432; 3181297568; 3431901365; 783189662; 3941522120; 1651401316; 3302802633; 1040866919; 3416746811; 2538526327; 2569960218; 2247041473; 3161298039; 2027628782; 4055257565; 3815547835; 1902809219; 1432811250; 2865622500; 3794275388; 1944309645; 1349798127; 391857706; 783715413; 3940470623; 3585973951; 2876980607; 1458993918; 2917987837; 1541008378];
    [1869066216; 3738132432; 3181297568; 2067627841; 2568835434; 1566379324; 3588076944; 3302802633; 2310637971; 2081733839; 2538526327; 782085358; 844953141; 199115651; 2027628782; 4055257565; 3815547835; 3336128375; 3805618438; 2865622500; 1436277704; 3293583481; 3888619291; 2699596254; 783715413; 1567430827; 3585973951; 2876980607; 1458993918; 2917987837; 1541008378; 3082016756];
    [3738132432; 3181297568; 2067627841; 4135255682; 842703572; 3132758648; 2881186593; 2310637971; 326308647; 4163467679; 782085358; 1564170717; 1689906283; 398231302; 4055257565; 3815547835; 3336128375; 2377289454; 3316269580; 1436277704; 2872555409; 2292199667; 3482271286; 1104225213; 1567430827; 3134861655; 2876980607; 1458993918; 2917987837; 1541008378; 3082016756; 1869066216];
    [3181297568; 2067627841; 4135255682; 3975544068; 1685407144; 1970550001; 1467405891; 326308647; 652617295; 4031968062; 1564170717; 3128341435; 3379812566; 796462605; 3815547835; 3336128375; 2377289454; 459611612; 2337571864; 2872555409; 1450143523; 289432038; 2669575277; 2208450427; 3134861655; 1974756015; 1458993918; 2917987837; 1541008378; 3082016756; 1869066216; 3738132432];
    [2067627841; 4135255682; 3975544068; 3656120840; 3370814289; 3941100003; 2934811783; 652617295; 1305234590; 3768968829; 3128341435; 1961715574; 2464657837; 1592925211; 3336128375; 2377289454; 459611612; 919223224; 380176433; 1450143523; 2900287046; 578864077; 1044183259; 121933559; 1974756015; 3949512030; 2917987837; 1541008378; 3082016756; 1869066216; 3738132432; 3181297568] ].

Definition certs_msb : list (list N) :=
  [ [391336516; 2393828780; 2464868457; 3183304425; 4205600664; 2917987837; 4152610460; 168724765; 2532837100; 984837413; 2556359196; 2576541617; 939612421; 3989816017; 3532984708; 1817037900; 2758996204; 3611180280; 525808801; 2883152572; 606329613; 387361032; 2135129689; 1864066333; 1959275229; 1269529405; 3558527949; 465700789; 4230901129; 783150325; 1122724037];
    [2393828780; 2464868457; 2867727533; 3992915420; 2917987837; 3771768024; 492690265; 2175489192; 769671009; 2556359196; 2576541617; 793905985; 4204564629; 3318105024; 1817037900; 3005325992; 3611180280; 134506213; 3163175160; 863013193; 387361032; 1745890333; 1864066333; 1671133337; 1559767417; 3276374409; 210851313; 3950854093; 783150325; 1122724037; 391336516];
    [474219973; 2867727533; 3992915420; 2917987837; 1853780340; 492690265; 252033284; 769671009; 2556359196; 389810717; 793905985; 1949465913; 3318105024; 3806536160; 1032802052; 1502662996; 2259323721; 3163175160; 863013193; 387361032; 3871261105; 3786770609; 3979711797; 3528901845; 1307012133; 2185214045; 1708380769; 2684551513; 1122724037; 2583543784; 2393828780];
    [9236302; 1541008378; 126752286; 3629684562; 3074373818; 252033284; 2273500290; 2556359196; 3177114110; 2234575010; 1752594684; 3318105024; 3806536160; 1032802052; 4021696370; 751331498; 3163175160; 791973004; 387361032; 4210738292; 4260466036; 4050751728; 2016683830; 3884289990; 677206974; 3484496258; 3158770844; 1588555008; 802904526; 2393828780; 3056002598];
    [1541008378; 117635408; 3629684562; 3082016756; 260658762; 2273500290; 2556359196; 3177114110; 2234575010; 1752594684; 3310005390; 3806536160; 1023647818; 4021696370; 742688740; 3163175160; 791973004; 395986502; 4210738292; 4252852794; 4050751728; 2025375864; 3884289990; 677206974; 3484496258; 3158770844; 1579385422; 794277504; 2393828780; 3056002598; 9236302];
    [2917987837; 2206301352; 492690265; 4273910045; 1991588821; 850460337; 3867607556; 1946619893; 3264771153; 2660452212; 1208823117; 1725582256; 511823909; 2259323721; 3163175160; 791973004; 1279503804; 1343539417; 2795801024; 4050751728; 2025375864; 3160171580; 3647651049; 1049024213; 380176433; 100297140; 2243541549; 2393828780; 3992915420; 4055566361; 2867727533];
    [3629684562; 3949512030; 1397900512; 3680095784; 2673609548; 3177114110; 3656120840; 883780182; 3310005390; 3856783536; 1725582256; 3010274776; 726040244; 3881030402; 1961715574; 395986502; 2787235550; 2795801024; 2863168266; 2025375864; 3160171580; 1954957588; 3367225554; 3141926348; 100297140; 676679632; 2393828780; 3992915420; 1549270500; 1557861034; 1541008378];
    [3949512030; 1397900512; 3680095784; 2673609548; 3177114110; 3656120840; 3975544068; 487734236; 3856783536; 1725582256; 3010274776; 726040244; 3881030402; 1961715574; 3485651220; 2121875852; 2795801024; 1928391768; 2699058986; 3160171580; 2900287046; 3367225554; 1662872222; 3718446822; 4027439234; 1458993918; 900176526; 2215602870; 1557861034; 1541008378; 3629684562];
    [1397900512; 3680095784; 2673609548; 3177114110; 3656120840; 3975544068; 4135255682; 243867118; 2377289454; 3010274776; 726040244; 3881030402; 1961715574; 3485651220; 2500953298; 1305234590; 1928391768; 1267243636; 1463066978; 2900287046; 601558412; 1662872222; 919223224; 459611612; 3181297568; 3738132432; 1869066216; 3082016756; 1541008378; 3629684562; 3949512030];
    [2282457800; 3423489964; 3993808158; 3656120840; 3975544068; 4135255682; 1574656270; 2377289454; 3762250040; 2014591572; 3020003298; 1961715574; 2626721268; 3326328882; 1305234590; 564308152; 416997012; 73852290; 2900287046; 1888045420; 810495614; 919223224; 459611612; 3181297568; 3738132432; 1869066216; 3082016756; 1541008378; 2332742578; 3949512030; 1397900512] ].

Lemma certs_lsb_ok :
  forallb (fun k => cert_ok false (8120 + N.of_nat k) 32 (nth k certs_lsb [])) (seq 0 9) = true.
Proof. vm_compute. reflexivity. Qed.

Lemma certs_msb_ok :
  forallb (fun k => cert_ok true (8120 + N.of_nat k) 31 (nth k certs_msb [])) (seq 0 10) = true.
Proof. vm_compute. reflexivity. Qed.

Lemma indep_lsb w : 8120 <= w <= 8160 - 32 -> indep false w 32.
Proof.
  intro H. pose proof certs_lsb_ok as C. rewrite forallb_forall in C.
  specialize (C (N.to_nat (w - 8120)) ltac:(apply in_seq; lia)).
  replace (8120 + N.of_nat (N.to_nat (w - 8120))) with w in C by lia.
  apply cert_indep in C. exact C.
Qed.

Lemma indep_msb w : 8120 <= w <= 8160 - 31 -> indep true w 31.
Proof.
  intro H. pose proof certs_msb_ok as C. rewrite forallb_forall in C.
  specialize (C (N.to_nat (w - 8120)) ltac:(apply in_seq; lia)).
  replace (8120 + N.of_nat (N.to_nat (w - 8120))) with w in C by lia.
  apply cert_indep in C. exact C.
Qed.

(** The 32 checksum bits: their syndromes are the 32 distinct single bits, which are their own dual. *)
Definition cert_ck (msb : bool) : list N :=
  map (fun q => synd_fast msb (8160 + N.of_nat q)) (seq 0 32).

Lemma cert_ck_ok msb : cert_ok msb 8160 32 (cert_ck msb) = true.
Proof. destruct msb; vm_compute; reflexivity. Qed.

Lemma indep_checksum msb : indep msb 8160 32.
Proof. exact (cert_indep msb 8160 32 (cert_ck msb) (cert_ck_ok msb)). Qed.

(** * Detection *)

(** Any non-empty alteration confined to the checksum field is detected. *)
Theorem crc_detects_checksum_pattern : forall (msb : bool) (page l : list N),
  is_page page -> crc_ok page = true -> l <> [] -> pattern l -> within_checksum l ->
  crc_ok (flip_bits msb page l) = false.
Proof.
  intros msb page l Hp Hok Hne [Hnd Hlt] Hck.
  apply crc_flip_detected; try assumption.
  apply indep_checksum; try assumption.
  unfold within_checksum in Hck. rewrite Forall_forall in *.
  intros i Hi. specialize (Hlt i Hi). specialize (Hck i Hi). lia.
Qed.

Theorem crc_detects_burst_checksum : forall (msb : bool) (page l : list N),
  is_page page -> crc_ok page = true -> burst 32 l -> within_checksum l ->
  crc_ok (flip_bits msb page l) = false.
Proof.
  intros msb page l Hp Hok (Hne & Hpat & _) Hck.
  apply crc_detects_checksum_pattern; assumption.
Qed.

(** G3 in the CRC's own bit order. *)
Theorem crc_detects_burst_lsb : forall (page l : list N),
  is_page page -> crc_ok page = true -> burst 32 l -> (within_payload l \/ within_checksum l) ->
  crc_ok (flip_bits false page l) = false.
Proof.
  intros page l Hp Hok Hb [Hpay | Hck].
  - apply crc_flip_detected; try assumption; [ apply Hb | ].
    apply (burst_payload_indep false 32); [ lia | apply indep_lsb | assumption | assumption ].
  - apply crc_detects_burst_checksum; assumption.
Qed.

(** Most-significant-bit-first order: span 31. *)
Theorem crc_detects_burst_msb31 : forall (page l : list N),
  is_page page -> crc_ok page = true -> burst 31 l -> (within_payload l \/ within_checksum l) ->
  crc_ok (flip_bits true page l) = false.
Proof.
  intros page l Hp Hok Hb [Hpay | Hck].
  - apply crc_flip_detected; try assumption; [ apply Hb | ].
    apply (burst_payload_indep true 31); [ lia | apply indep_msb | assumption | assumption ].
  - destruct Hb as (Hne & Hpat & _).
    apply crc_detects_checksum_pattern; assumption.
Qed.

(** * Witnesses *)

Lemma bytes_okb_ok l : bytes_okb l = true -> bytes_ok l.
Proof.
  unfold bytes_okb, bytes_ok. rewrite forallb_forall, Forall_forall.
  intros H x Hx. apply N.ltb_lt. apply (H x Hx).
Qed.

(** The all-zero payload with its checksum (B6 41 CD E2). *)
Definition zero_page : list N := zeros 1020 ++ crc_bytes (zeros 1020).

Lemma zero_page_is_page : is_page zero_page.
Proof. split; [ vm_compute; reflexivity | apply bytes_okb_ok; vm_compute; reflexivity ]. Qed.

Lemma zero_page_ok : crc_ok zero_page = true.
Proof. vm_compute. reflexivity. Qed.

Ltac forall_list := repeat (apply Forall_cons; [ lia | ]); apply Forall_nil.

Ltac burst_at a :=
  split; [ discriminate | ];
  split; [ split; [ apply nodupb_nodup; vm_compute; reflexivity | forall_list ] | ];
  exists a; forall_list.

(** Payload burst, span 32, most-significant-bit first: bytes 0..4 become 62 95 E3 FD 80. *)
Definition wit_payload_msb : list N :=
  [1; 2; 6; 8; 11; 13; 15; 16; 17; 18; 22; 23; 24; 25; 26; 27; 28; 29; 31; 32].

Theorem crc_detects_burst_refuted : exists (page l : list N),
  is_page page /\ crc_ok page = true /\ burst 32 l /\ within_payload l /\
  flip_bits true page l <> page /\ crc_ok (flip_bits true page l) = true.
Proof.
  exists zero_page, wit_payload_msb.
  split; [ exact zero_page_is_page | ]. split; [ exact zero_page_ok | ].
  split; [ unfold wit_payload_msb; burst_at 1 | ].
  split; [ unfold within_payload, wit_payload_msb; forall_list | ].
  split.
  - intro E. apply (f_equal (fun p => nth 0 p 0)) in E. vm_compute in E. discriminate.
  - vm_compute. reflexivity.
Qed.

(** G3 exactly as it was stated is therefore false. *)
Theorem crc_detects_burst_false :
  ~ (forall (msb : bool) (page l : list N),
       is_page page -> crc_ok page = true -> burst 32 l ->
       (within_payload l \/ within_checksum l) ->
       crc_ok (flip_bits msb page l) = false).
Proof.
  intro G3. destruct crc_detects_burst_refuted as (page & l & Hp & Hok & Hb & Hpay & _ & Hbad).
  rewrite (G3 true page l Hp Hok Hb (or_introl Hpay)) in Hbad. discriminate.
Qed.

(** * G4: straddling bursts *)

(** Least-significant-bit first: bytes 1017..1023 become D2 86 E9 | CC 40 CD E2. *)
Definition wit_straddle_lsb : list N :=
  [8137; 8140; 8142; 8143; 8145; 8146; 8151; 8152; 8155; 8157; 8158; 8159;
   8161; 8163; 8164; 8165; 8166; 8168].

(** Most-significant-bit first: bytes 1016..1020 become 7E D6 10 D6 | 36. *)
Definition wit_straddle_msb : list N :=
  [8129; 8130; 8131; 8132; 8133; 8134; 8136; 8137; 8139; 8141; 8142; 8147; 8152;
   8153; 8155; 8157; 8158; 8160].

Lemma crc_burst_straddle_lsb :
  is_page zero_page /\ crc_ok zero_page = true /\ burst 32 wit_straddle_lsb /\
  flip_bits false zero_page wit_straddle_lsb <> zero_page /\
  crc_ok (flip_bits false zero_page wit_straddle_lsb) = true.
Proof.
  split; [ exact zero_page_is_page | ]. split; [ exact zero_page_ok | ].
  split; [ unfold wit_straddle_lsb; burst_at 8137 | ].
  split.
  - intro E. apply (f_equal (fun p => nth 1017 p 0)) in E. vm_compute in E. discriminate.
  - vm_compute. reflexivity.
Qed.

Lemma crc_burst_straddle_msb :
  is_page zero_page /\ crc_ok zero_page = true /\ burst 32 wit_straddle_msb /\
  flip_bits true zero_page wit_straddle_msb <> zero_page /\
  crc_ok (flip_bits true zero_page wit_straddle_msb) = true.
Proof.
  split; [ exact zero_page_is_page | ]. split; [ exact zero_page_ok | ].
  split; [ unfold wit_straddle_msb; burst_at 8129 | ].
  split.
  - intro E. apply (f_equal (fun p => nth 1016 p 0)) in E. vm_compute in E. discriminate.
  - vm_compute. reflexivity.
Qed.

Theorem crc_burst_straddle_refuted : exists (msb : bool) (page l : list N),
  is_page page /\ crc_ok page = true /\ burst 32 l /\ flip_bits msb page l <> page /\
  crc_ok (flip_bits msb page l) = true.
Proof. exists false, zero_page, wit_straddle_lsb. exact crc_burst_straddle_lsb. Qed.

(** G3 as originally stated -- FALSE for [msb = true], see [crc_detects_burst_false]:

Theorem crc_detects_burst : forall (msb : bool) (page l : list N),
  is_page page -> crc_ok page = true -> burst 32 l -> (within_payload l \/ within_checksum l) ->
  crc_ok (flip_bits msb page l) = false.
*)

Print Assumptions crc_detects_burst_lsb.
Print Assumptions crc_detects_burst_msb31.
Print Assumptions crc_detects_burst_checksum.
Print Assumptions crc_detects_checksum_pattern.
Print Assumptions crc_detects_burst_refuted.
Print Assumptions crc_detects_burst_false.
Print Assumptions crc_burst_straddle_lsb.
Print Assumptions crc_burst_straddle_msb.
Print Assumptions crc_burst_straddle_refuted.
