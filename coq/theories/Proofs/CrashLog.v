(** C15, part 1: what the paged writer writes to the device.
    - every operation keeps [d_bytes = apply_writes (rev d_log)] (the device is the replay of its log);
    - every logged write is a whole page at a page-aligned position;
    - as long as the logical stream has zeros at offsets 24..40 (the XML offset and length fields of
      the placeholder header) and nothing is written below logical offset 40, every write of page 0
      carries zeros at 24..40. *)
From E57 Require Import Base.Prelude Model.Crc Model.Device Model.PagedWriter Spec.PageSpec Model.Prog
  Model.CrashImage.
From E57 Require Import Proofs.PagedWriterLemmas Proofs.PagedWriterProofs Proofs.ProgTransfer.
From Coq Require Import ZifyN ZifyNat ZifyBool.
Ltac Zify.zify_post_hook ::= Z.div_mod_to_equations.
Local Open Scope monad_scope.

Local Arguments overwrite : simpl never.
Local Arguments seal : simpl never.
Local Arguments take : simpl never.
Local Arguments drop : simpl never.
Local Arguments slice : simpl never.
Local Arguments zeros : simpl never.
Local Arguments len : simpl never.
Local Arguments paginate_n : simpl never.
Local Arguments crc_bytes : simpl never.

Lemma pw_fresh_pw0 : pw_fresh = pw0.
Proof. reflexivity. Qed.

(** * Invariants of the device that do not depend on cursor and operation count *)

Section DevInv.
  Variable I : dev -> Prop.
  Hypothesis I_meta : forall d c o, I d -> I (mkDev (d_bytes d) c o (d_fault d) (d_log d)).

  Definition dinv {A} (m : M dev A) : Prop := forall d, I d -> I (fst (m d)).
  Definition pinv {A} (m : M pw A) : Prop := forall s, I (pw_dev s) -> I (pw_dev (fst (m s))).

  Lemma dinv_ret A (a : A) : dinv (ret a).
  Proof. intros d H. exact H. Qed.
  Lemma dinv_fail A k : dinv (@fail dev A k).
  Proof. intros d H. exact H. Qed.
  Lemma dinv_bind A B (m : M dev A) (k : A -> M dev B) :
    dinv m -> (forall a, dinv (k a)) -> dinv (bind m k).
  Proof.
    intros Hm Hk d H. unfold bind. specialize (Hm d H).
    destruct (m d) as [d1 [a|e|]]; cbn [fst] in *; [apply Hk|..]; assumption.
  Qed.
  Lemma dinv_relabel A e (m : M dev A) : dinv m -> dinv (relabel e m).
  Proof. intros Hm d H. unfold relabel. specialize (Hm d H). destruct (m d). exact Hm. Qed.

  Lemma dinv_tick : dinv tick.
  Proof.
    intros d H. unfold tick.
    set (d' := mkDev (d_bytes d) (d_cur d) (d_ops d + 1) (d_fault d) (d_log d)).
    assert (H' : I d') by (apply I_meta; exact H). clearbody d'.
    destruct (d_fault d) as [k|]; [destruct (k =? d_ops d)|]; exact H'.
  Qed.
  Lemma dinv_set_cur A (f : dev -> N) (g : dev -> A) : dinv (fun d => (set_cur d (f d), Ok (g d))).
  Proof. intros d H. cbn [fst]. unfold set_cur. apply I_meta. exact H. Qed.

  Lemma dinv_seek_end : dinv d_seek_end.
  Proof. apply dinv_bind; [apply dinv_tick|intros _]. apply (dinv_set_cur N (fun d => len (d_bytes d))). Qed.
  Lemma dinv_seek_start p : dinv (d_seek_start p).
  Proof. apply dinv_bind; [apply dinv_tick|intros _]. apply (dinv_set_cur N (fun _ => p) (fun _ => p)). Qed.
  Lemma dinv_pos : dinv d_pos.
  Proof. apply dinv_bind; [apply dinv_tick|intros _]. intros d H. exact H. Qed.
  Lemma dinv_read n : dinv (d_read n).
  Proof.
    apply dinv_bind; [apply dinv_tick|intros _].
    apply (dinv_set_cur _ (fun d => d_cur d + len (slice (d_cur d) n (d_bytes d)))
                          (fun d => slice (d_cur d) n (d_bytes d))).
  Qed.
  Lemma dinv_flush : dinv d_flush.
  Proof. apply dinv_tick. Qed.
  Lemma dinv_read_fill : forall fuel want acc, dinv (d_read_fill fuel want acc).
  Proof.
    induction fuel as [|f IH]; intros want acc; cbn [d_read_fill]; [apply dinv_ret|].
    destruct (want =? 0); [apply dinv_ret|].
    apply dinv_bind; [apply dinv_read|intros got].
    destruct got; [apply dinv_ret|apply IH].
  Qed.

  (** on the paged writer *)
  Lemma pinv_ret A (a : A) : pinv (ret a).
  Proof. intros s H. exact H. Qed.
  Lemma pinv_fail A k : pinv (@fail pw A k).
  Proof. intros s H. exact H. Qed.
  Lemma pinv_panic A : pinv (@panic pw A).
  Proof. intros s H. exact H. Qed.
  Lemma pinv_bind A B (m : M pw A) (k : A -> M pw B) :
    pinv m -> (forall a, pinv (k a)) -> pinv (bind m k).
  Proof.
    intros Hm Hk s H. unfold bind. specialize (Hm s H).
    destruct (m s) as [s1 [a|e|]]; cbn [fst] in *; [apply Hk|..]; assumption.
  Qed.
  Lemma pinv_relabel A e (m : M pw A) : pinv m -> pinv (relabel e m).
  Proof. intros Hm s H. unfold relabel. specialize (Hm s H). destruct (m s). exact Hm. Qed.
  Lemma pinv_ignore_err A (m : M pw A) : pinv m -> pinv (ignore_err m).
  Proof.
    intros Hm s H. unfold ignore_err. specialize (Hm s H). destruct (m s) as [s1 [a|e|]]; exact Hm.
  Qed.
  Lemma pinv_lift A (m : M dev A) : dinv m -> pinv (pw_lift m).
  Proof.
    intros Hm s H. unfold pw_lift. specialize (Hm _ H). destruct (m (pw_dev s)). exact Hm.
  Qed.
  Lemma pinv_set_off o : pinv (pw_set_off o).
  Proof. intros s H. exact H. Qed.
  Lemma pinv_set_buf b : pinv (pw_set_buf b).
  Proof. intros s H. exact H. Qed.
  Lemma pinv_get_off : pinv pw_get_off.
  Proof. intros s H. exact H. Qed.
  Lemma pinv_get_buf : pinv pw_get_buf.
  Proof. intros s H. exact H. Qed.

  Lemma pinv_read_current_page : pinv pw_read_current_page.
  Proof.
    apply pinv_bind; [apply pinv_lift, dinv_read_fill|intros got]. apply pinv_set_buf.
  Qed.

  (** the operations that write *)
  Hypothesis I_write : forall bs, dinv (d_write_all bs).

  Lemma pinv_write data : pinv (pw_write data).
  Proof.
    unfold pw_write.
    apply pinv_bind; [apply pinv_get_off|intros off].
    destruct (PAYLOAD <? off); [apply pinv_panic|]. cbv zeta.
    apply pinv_bind; [apply pinv_get_buf|intros buf].
    apply pinv_bind; [apply pinv_set_buf|intros _].
    apply pinv_bind; [apply pinv_set_off|intros _].
    apply pinv_bind; [|intros _; apply pinv_ret].
    destruct (off + N.min (len data) (PAYLOAD - off) =? PAYLOAD); [|apply pinv_ret].
    apply pinv_bind; [apply pinv_get_buf|intros buf1].
    apply pinv_bind; [apply pinv_set_buf|intros _].
    apply pinv_bind; [apply pinv_lift, I_write|intros _].
    apply pinv_bind; [apply pinv_lift, dinv_pos|intros pos].
    apply pinv_bind; [apply pinv_set_off|intros _].
    apply pinv_bind; [apply pinv_read_current_page|intros _].
    apply pinv_bind; [apply pinv_lift, dinv_seek_start|intros _].
    apply pinv_ret.
  Qed.

  Lemma pinv_write_all_loop : forall fuel data, pinv (pw_write_all_loop fuel data).
  Proof.
    induction fuel as [|f IH]; intros data; cbn [pw_write_all_loop]; [apply pinv_ret|].
    destruct data as [|x r]; [apply pinv_ret|].
    apply pinv_bind; [apply pinv_write|intros n].
    destruct (n =? 0); [apply pinv_fail|apply IH].
  Qed.
  Lemma pinv_write_all data : pinv (pw_write_all data).
  Proof. apply pinv_write_all_loop. Qed.

  Lemma pinv_pw_flush : pinv pw_flush.
  Proof.
    unfold pw_flush.
    apply pinv_bind; [apply pinv_get_off|intros off].
    apply pinv_bind; [|intros _; apply pinv_lift, dinv_flush].
    destruct (0 <? off); [|apply pinv_ret].
    apply pinv_bind; [apply pinv_lift, dinv_pos|intros pos].
    apply pinv_bind; [apply pinv_get_buf|intros buf].
    apply pinv_bind; [apply pinv_set_buf|intros _].
    apply pinv_bind; [apply pinv_lift, I_write|intros _].
    apply pinv_bind; [apply pinv_lift, dinv_seek_start|intros _].
    apply pinv_ret.
  Qed.

  Lemma pinv_physical_position : pinv pw_physical_position.
  Proof.
    unfold pw_physical_position.
    apply pinv_bind; [apply pinv_relabel, pinv_lift, dinv_pos|intros pos].
    apply pinv_bind; [apply pinv_get_off|intros off]. apply pinv_ret.
  Qed.

  Lemma pinv_physical_size : pinv pw_physical_size.
  Proof.
    unfold pw_physical_size.
    apply pinv_bind; [apply pinv_relabel, pinv_pw_flush|intros _].
    apply pinv_bind; [apply pinv_relabel, pinv_lift, dinv_pos|intros pos].
    apply pinv_bind; [apply pinv_relabel, pinv_lift, dinv_seek_end|intros size].
    apply pinv_bind; [apply pinv_relabel, pinv_lift, dinv_seek_start|intros _].
    apply pinv_ret.
  Qed.

  Lemma pinv_physical_seek p : pinv (pw_physical_seek p).
  Proof.
    unfold pw_physical_seek.
    apply pinv_bind; [apply pinv_physical_size|intros e].
    destruct (e <? p); [apply pinv_fail|]. cbv zeta.
    destruct (PAYLOAD <=? p mod PAGE); [apply pinv_fail|].
    apply pinv_bind; [apply pinv_relabel, pinv_lift, dinv_seek_start|intros _].
    apply pinv_bind; [apply pinv_relabel, pinv_read_current_page|intros _].
    apply pinv_bind; [apply pinv_relabel, pinv_lift, dinv_seek_start|intros _].
    apply pinv_set_off.
  Qed.

  Lemma pinv_align : pinv pw_align.
  Proof.
    unfold pw_align.
    apply pinv_bind; [apply pinv_get_off|intros off]. cbv zeta.
    destruct (off mod 4 =? 0); [apply pinv_ret|apply pinv_relabel, pinv_write_all].
  Qed.

  Lemma pinv_step o : pinv (pw_step o).
  Proof.
    destruct o; cbn [pw_step].
    - apply pinv_bind; [apply pinv_relabel, pinv_write_all|intros _; apply pinv_ret].
    - apply pinv_bind; [apply pinv_physical_seek|intros _; apply pinv_ret].
    - apply pinv_bind; [apply pinv_relabel, pinv_pw_flush|intros _; apply pinv_ret].
    - apply pinv_bind; [apply pinv_align|intros _; apply pinv_ret].
    - apply pinv_physical_position.
    - apply pinv_physical_size.
  Qed.

  Lemma pinv_drop : pinv pw_drop.
  Proof. apply pinv_ignore_err, pinv_pw_flush. Qed.

  Lemma pinv_wrun A (p : wprog A) : forall s, I (pw_dev s) -> I (pw_dev (fst (wrun p s))).
  Proof.
    induction p as [a|k| |o k IH]; intros s H; cbn [wrun fst]; try exact H.
    pose proof (pinv_step o s H) as H1. destruct (pw_step o s) as [s1 r]. apply IH. exact H1.
  Qed.
End DevInv.

(** * The device is the replay of its write log *)

Definition replay_ok (d : dev) : Prop := d_bytes d = apply_writes (rev (d_log d)).

Lemma apply_writes_snoc ws w :
  apply_writes (ws ++ [w]) = overwrite (apply_writes ws) (fst w) (snd w).
Proof. unfold apply_writes. rewrite fold_left_app. reflexivity. Qed.

Lemma replay_meta d c o : replay_ok d -> replay_ok (mkDev (d_bytes d) c o (d_fault d) (d_log d)).
Proof. exact (fun H => H). Qed.

Lemma replay_write bs : dinv replay_ok (d_write_all bs).
Proof.
  intros d H. unfold d_write_all. destruct bs as [|x r]; [exact H|].
  unfold bind.
  pose proof (dinv_tick replay_ok replay_meta d H) as Ht.
  destruct (tick d) as [d1 [[]|e|]]; cbn [fst] in *; try exact Ht.
  unfold replay_ok in *. cbn [d_bytes d_log rev]. rewrite apply_writes_snoc, <- Ht. reflexivity.
Qed.

Theorem replay_wrun A (p : wprog A) :
  replay_ok (pw_dev (fst (pw_drop (fst (wrun p pw_fresh))))).
Proof.
  apply (pinv_drop replay_ok replay_meta replay_write).
  apply (pinv_wrun replay_ok replay_meta replay_write). reflexivity.
Qed.

(** the bytes a completed run leaves are the replay of its whole trace *)
Corollary final_image_replay A (p : wprog A) : final_image p = apply_writes (trace_of p).
Proof. exact (replay_wrun A p). Qed.

(** * Operations that do not write keep bytes and log *)

Definition same_as (b : list N) (lg : list (N * list N)) (d : dev) : Prop :=
  d_bytes d = b /\ d_log d = lg.

Lemma same_meta b lg d c o : same_as b lg d -> same_as b lg (mkDev (d_bytes d) c o (d_fault d) (d_log d)).
Proof. exact (fun H => H). Qed.

Definition keeps {A} (m : M pw A) : Prop :=
  forall s, d_bytes (pw_dev (fst (m s))) = d_bytes (pw_dev s) /\ d_log (pw_dev (fst (m s))) = d_log (pw_dev s).

Lemma keeps_of_pinv A (m : M pw A) : (forall b lg, pinv (same_as b lg) m) -> keeps m.
Proof. intros H s. apply (H _ _ s). split; reflexivity. Qed.

Lemma keeps_read_current_page : keeps pw_read_current_page.
Proof. apply keeps_of_pinv. intros b lg. apply pinv_read_current_page, same_meta. Qed.

Lemma keeps_lift_seek_start p : keeps (pw_lift (d_seek_start p)).
Proof. apply keeps_of_pinv. intros b lg. apply pinv_lift, dinv_seek_start, same_meta. Qed.

(** * The log after each operation, on a fault-free state *)

Definition flush_log (c off : N) (buf : list N) (lg : list (N * list N)) : list (N * list N) :=
  if 0 <? off then (c, seal buf) :: lg else lg.

Local Arguments pw_lift : simpl never.
Local Arguments pw_read_current_page : simpl never.

Lemma x_flush b c o lg off buf :
  exists o', pw_flush (St b c o lg off buf) =
    (St (if 0 <? off then overwrite b c (seal buf) else b) c o' (flush_log c off buf lg) off
        (if 0 <? off then seal buf else buf), Ok tt).
Proof.
  unfold pw_flush, flush_log, bind, pw_get_off, pw_get_buf, pw_set_buf, ret. cbn.
  destruct (0 <? off).
  - rewrite v_pos. cbn. rewrite v_write_all by apply seal_ne. rewrite v_seek_start. cbn.
    rewrite v_dflush. eauto.
  - rewrite v_dflush. eauto.
Qed.

Lemma x_size b c o lg off buf :
  exists o', pw_physical_size (St b c o lg off buf) =
    (St (if 0 <? off then overwrite b c (seal buf) else b) c o' (flush_log c off buf lg) off
        (if 0 <? off then seal buf else buf),
     Ok (len (if 0 <? off then overwrite b c (seal buf) else b))).
Proof.
  destruct (x_flush b c o lg off buf) as (o1 & E).
  unfold pw_physical_size, bind, relabel, ret. rewrite E. cbn.
  rewrite v_pos. cbn. rewrite v_seek_end. cbn. rewrite v_seek_start. cbn. eauto.
Qed.

Local Arguments pw_physical_size : simpl never.

Lemma x_seek_acc b c o lg off buf p :
  let bf := if 0 <? off then overwrite b c (seal buf) else b in
  let c' := p / 1024 * 1024 in
  len bf <? p = false -> 1020 <=? p mod 1024 = false ->
  (c' + 1024 <= len bf \/ len bf <= c') ->
  exists o', pw_physical_seek p (St b c o lg off buf) =
    (St bf c' o' (flush_log c off buf lg) (p mod 1024)
        (if c' + 1024 <=? len bf then slice c' 1024 bf else zeros 1024), Ok tt).
Proof.
  intros bf c' H1 H2 Hc.
  destruct (x_size b c o lg off buf) as (o1 & E).
  unfold pw_physical_seek, bind, fail, relabel. rewrite E. fold bf.
  change PAYLOAD with 1020. change PAGE with 1024. rewrite H1, H2. fold c'.
  rewrite v_seek_start. cbn.
  destruct (N.leb_spec (c' + 1024) (len bf)).
  - rewrite v_read_page_full by lia. cbn. rewrite v_seek_start. cbn.
    unfold pw_set_off. cbn. eauto.
  - rewrite v_read_page_eof by lia. cbn. rewrite v_seek_start. cbn.
    unfold pw_set_off. cbn. eauto.
Qed.

(** the log after a seek, accepted or not *)
Lemma log_seek b c o lg off buf p :
  d_log (pw_dev (fst (pw_physical_seek p (St b c o lg off buf)))) = flush_log c off buf lg.
Proof.
  destruct (x_size b c o lg off buf) as (o1 & E).
  unfold pw_physical_seek. unfold bind at 1. rewrite E.
  match goal with |- context [if ?x then _ else _] => destruct x end; [reflexivity|]. cbv zeta.
  match goal with |- context [if ?x then _ else _] => destruct x end; [reflexivity|].
  set (s1 := St _ c o1 _ off _).
  assert (K : keeps (relabel EWrite (pw_lift (d_seek_start (p / PAGE * PAGE))) ;;;
                     relabel EWrite pw_read_current_page ;;;
                     relabel EWrite (pw_lift (d_seek_start (p / PAGE * PAGE))) ;;;
                     pw_set_off (p mod PAGE))).
  { apply keeps_of_pinv. intros b0 lg0.
    apply pinv_bind; [apply pinv_relabel, pinv_lift, dinv_seek_start, same_meta|intros _].
    apply pinv_bind; [apply pinv_relabel, pinv_read_current_page, same_meta|intros _].
    apply pinv_bind; [apply pinv_relabel, pinv_lift, dinv_seek_start, same_meta|intros _].
    apply pinv_set_off. }
  destruct (K s1) as [_ K2]. rewrite K2. reflexivity.
Qed.

Lemma bytes_seek b c o lg off buf p :
  d_bytes (pw_dev (fst (pw_physical_seek p (St b c o lg off buf)))) =
  if 0 <? off then overwrite b c (seal buf) else b.
Proof.
  destruct (x_size b c o lg off buf) as (o1 & E).
  unfold pw_physical_seek. unfold bind at 1. rewrite E.
  match goal with |- context [if ?x then fail _ else _] => destruct x end; [reflexivity|]. cbv zeta.
  match goal with |- context [if ?x then fail _ else _] => destruct x end; [reflexivity|].
  set (s1 := St _ c o1 _ off _).
  assert (K : keeps (relabel EWrite (pw_lift (d_seek_start (p / PAGE * PAGE))) ;;;
                     relabel EWrite pw_read_current_page ;;;
                     relabel EWrite (pw_lift (d_seek_start (p / PAGE * PAGE))) ;;;
                     pw_set_off (p mod PAGE))).
  { apply keeps_of_pinv. intros b0 lg0.
    apply pinv_bind; [apply pinv_relabel, pinv_lift, dinv_seek_start, same_meta|intros _].
    apply pinv_bind; [apply pinv_relabel, pinv_read_current_page, same_meta|intros _].
    apply pinv_bind; [apply pinv_relabel, pinv_lift, dinv_seek_start, same_meta|intros _].
    apply pinv_set_off. }
  destruct (K s1) as [K1 _]. rewrite K1. reflexivity.
Qed.

(** one [write] call *)
Lemma log_write b c o lg off buf data :
  off <= 1020 ->
  let n := N.min (len data) (1020 - off) in
  let buf1 := take off buf ++ take n data ++ drop (off + n) buf in
  d_log (pw_dev (fst (pw_write data (St b c o lg off buf)))) =
  if off + n =? 1020 then (c, seal buf1) :: lg else lg.
Proof.
  intros Hoff n buf1.
  destruct (N.eqb_spec (off + n) 1020) as [E|E].
  2:{ rewrite (v_write_part b c o lg off buf data Hoff E). reflexivity. }
  unfold pw_write, bind, pw_get_off, pw_get_buf, pw_set_buf, pw_set_off, ret. cbn.
  change PAYLOAD with 1020. fold n. fold buf1.
  destruct (N.ltb_spec 1020 off); [lia|].
  destruct (N.eqb_spec (off + n) 1020); [|lia].
  cbn [pw_dev pw_off pw_buf]. fold n. fold buf1.
  rewrite v_write_all by apply seal_ne.
  rewrite v_pos. cbn [pw_dev pw_off pw_buf].
  set (s1 := St _ _ _ _ 0 _).
  destruct (keeps_read_current_page s1) as [_ K1].
  destruct (pw_read_current_page s1) as [s2 [[]|e1|]] eqn:E2; cbn [fst] in K1; cbn [pw_dev d_log] in K1;
    try (cbn [fst]; exact K1).
  destruct (keeps_lift_seek_start (d_cur (pw_dev s1)) s2) as [_ K2].
  destruct (pw_lift (d_seek_start _) s2) as [s3 [x|e2|]]; cbn [fst] in *; rewrite K2; exact K1.
Qed.

(** * Page-0 writes carry zeros in the XML offset / XML length fields *)

Definition z2440 (bs : list N) : Prop := forall j, 24 <= j -> j < 40 -> nthN j bs = 0.

Definition entry_ok (w : N * list N) : Prop :=
  (exists pg, fst w = 1024 * pg) /\ len (snd w) = 1024 /\ (fst w = 0 -> z2440 (snd w)).

Definition log_ok (lg : list (N * list N)) : Prop := Forall entry_ok lg.

Lemma nthN_seal j buf : len buf = 1024 -> j < 1020 -> nthN j (seal buf) = nthN j buf.
Proof.
  intros Hb Hj. rewrite seal_sealp. unfold sealp. rewrite nthN_app, len_take, nthN_take.
  destruct (N.ltb_spec j (N.min 1020 (len buf))); [|lia].
  destruct (N.ltb_spec j 1020); [reflexivity|lia].
Qed.

Lemma len_seal buf : len buf = 1024 -> len (seal buf) = 1024.
Proof. intros Hb. rewrite seal_sealp, len_sealp, len_take. lia. Qed.

Lemma flush_entry_ok np pg dl b c off buf data pos :
  Inv np pg dl b c off buf data pos -> z2440 data -> entry_ok (c, seal buf).
Proof.
  intros [Hb Hdl Hc Hpg Hoff Hbuf Hpos Hbd Hdd Hpages] Hz. unfold entry_ok. cbn [fst snd].
  split; [exists pg; exact Hc|]. split; [apply len_seal, Hbuf|].
  intros Hc0 j Hj1 Hj2. rewrite nthN_seal by (assumption || lia).
  rewrite Hbd by lia. replace (1020 * pg + j) with j by lia. apply Hz; assumption.
Qed.

Lemma log_ok_flush np pg dl b c off buf data pos lg :
  Inv np pg dl b c off buf data pos -> z2440 data -> log_ok lg -> log_ok (flush_log c off buf lg).
Proof.
  intros HI Hz Hlg. unfold flush_log. destruct (0 <? off); [|exact Hlg].
  constructor; [eapply flush_entry_ok; eassumption|exact Hlg].
Qed.

Lemma z2440_overwrite data pos bs : 40 <= pos -> z2440 data -> z2440 (overwrite data pos bs).
Proof.
  intros Hp Hz j Hj1 Hj2. rewrite nthN_overwrite.
  destruct (N.ltb_spec j pos); [apply Hz; assumption|lia].
Qed.

Lemma z2440_ls_write l bs : 40 <= ls_pos l -> z2440 (ls_data l) -> z2440 (ls_data (ls_write l bs)).
Proof.
  intros Hp Hz. destruct bs as [|x r]; [exact Hz|]. cbn [ls_write ls_data].
  apply z2440_overwrite; assumption.
Qed.

Lemma fst_bind_ret {S A B} (m : M S A) (b : B) s : fst (bind m (fun _ => ret b) s) = fst (m s).
Proof. unfold bind, ret. destruct (m s) as [s1 [a|e|]]; reflexivity. Qed.

Lemma fst_relabel {S A} e (m : M S A) s : fst (relabel e m s) = fst (m s).
Proof. unfold relabel. destruct (m s). reflexivity. Qed.

Lemma log_ok_write_all_loop fuel : forall wr s l,
  R s l -> (length wr < fuel)%nat -> 40 <= ls_pos l -> z2440 (ls_data l) ->
  log_ok (d_log (pw_dev s)) ->
  log_ok (d_log (pw_dev (fst (pw_write_all_loop fuel wr s)))).
Proof.
  induction fuel as [|f IH]; intros wr s l HR Hfuel Hp Hz Hlg; [lia|].
  destruct wr as [|x wr'].
  - exact Hlg.
  - change (pw_write_all_loop (S f) (x :: wr') s) with
      (bind (pw_write (x :: wr'))
            (fun n => if n =? 0 then fail EIo else pw_write_all_loop f (drop n (x :: wr'))) s).
    set (wr := x :: wr') in *.
    assert (Hne : wr <> []) by (unfold wr; discriminate).
    R_elim HR s l. cbn [pw_dev d_log ls_data ls_pos] in Hlg, Hz, Hp.
    pose proof HR as HI0.
    destruct (Inv_write _ _ _ _ _ o lg _ _ _ _ wr HR Hne)
      as (b' & c' & o' & lg' & off' & buf' & np' & pg' & dl' & V & HI).
    set (n := N.min (len wr) (1020 - off)) in *.
    pose proof (len_pos_ne wr Hne) as Hwr.
    destruct HI0 as [Hb Hdl Hc Hpg Hoff Hbuf Hpos Hbd Hdd Hpages].
    assert (Hn0 : 0 < n) by (unfold n; lia).
    assert (Hn1 : n <= len wr) by (unfold n; lia).
    assert (Hn2 : off + n <= 1020) by (unfold n; lia).
    pose proof (log_write b c o lg off buf wr ltac:(lia)) as L. cbv zeta in L. fold n in L.
    rewrite V in L. cbn [fst pw_dev d_log] in L.
    assert (Hlg' : log_ok lg').
    { rewrite L. destruct (off + n =? 1020); [|exact Hlg].
      constructor; [|exact Hlg]. unfold entry_ok. cbn [fst snd].
      pose proof (buf1_len buf wr off n Hbuf Hn2 Hn1) as Hl1.
      split; [exists pg; exact Hc|]. split; [apply len_seal, Hl1|].
      intros Hc0 j Hj1 Hj2. rewrite nthN_seal by (assumption || lia).
      rewrite (buf1_nth buf wr off n Hbuf Hn2 Hn1).
      destruct (N.ltb_spec j off); [|lia].
      rewrite Hbd by lia. replace (1020 * pg + j) with j by lia. apply Hz; assumption. }
    unfold bind. rewrite V.
    destruct (N.eqb_spec n 0) as [E|_]; [lia|].
    apply (IH _ _ (ls_write (mkLs data pos) (take n wr))).
    + rewrite ls_write_ne.
      * cbn [ls_data ls_pos]. replace (len (take n wr)) with n by (rewrite len_take; lia).
        eapply R_intro, HI.
      * intros E. pose proof (len_take n wr) as L1. rewrite E, len_nil in L1. lia.
    + pose proof (len_drop n wr) as L1. unfold len in L1, Hwr. lia.
    + destruct (take n wr); cbn [ls_write ls_pos]; lia.
    + apply z2440_ls_write; assumption.
    + exact Hlg'.
Qed.

Lemma log_ok_write_all wr s l :
  R s l -> 40 <= ls_pos l -> z2440 (ls_data l) -> log_ok (d_log (pw_dev s)) ->
  log_ok (d_log (pw_dev (fst (pw_write_all wr s)))).
Proof. intros HR Hp Hz Hlg. eapply log_ok_write_all_loop; eauto. Qed.

(** one page-layer operation *)
Lemma log_ok_step o s l :
  R s l -> 40 <= ls_pos l -> z2440 (ls_data l) -> log_ok (d_log (pw_dev s)) ->
  log_ok (d_log (pw_dev (fst (pw_step o s)))) /\ z2440 (ls_data (fst (ls_step o l))).
Proof.
  intros HR Hp Hz Hlg. split.
  - destruct o as [wr|p| | | | ]; cbn [pw_step].
    + rewrite fst_bind_ret, fst_relabel. eapply log_ok_write_all; eassumption.
    + rewrite fst_bind_ret. R_elim HR s l. rewrite log_seek.
      eapply log_ok_flush; eassumption.
    + rewrite fst_bind_ret, fst_relabel. R_elim HR s l.
      destruct (x_flush b c o lg off buf) as (o' & E). rewrite E. cbn [fst pw_dev d_log].
      eapply log_ok_flush; eassumption.
    + rewrite fst_bind_ret. unfold pw_align, bind, pw_get_off, ret. cbv zeta.
      destruct (pw_off s mod 4 =? 0); [exact Hlg|].
      rewrite fst_relabel. eapply log_ok_write_all; eassumption.
    + R_elim HR s l. rewrite v_position. exact Hlg.
    + R_elim HR s l. destruct (x_size b c o lg off buf) as (o' & E). rewrite E. cbn [fst pw_dev d_log].
      eapply log_ok_flush; eassumption.
  - destruct o as [wr|p| | | | ]; cbn [ls_step fst]; try exact Hz.
    + apply z2440_ls_write; assumption.
    + repeat match goal with |- context [if ?x then _ else _] => destruct x end; exact Hz.
    + apply z2440_ls_write; assumption.
Qed.

(** * Programs that stay behind the header *)

(** [wsp p l Q]: run on the logical stream from [l], the program issues every page-layer
    operation at a logical position of at least 48 (behind the file header), an error leaves it
    at such a position, and if it returns [a] in stream [l'] then [Q a l'] *)
Fixpoint wsp {A} (p : wprog A) (l : lstream) (Q : A -> lstream -> Prop) : Prop :=
  match p with
  | WRet a => Q a l
  | WErr _ => 48 <= ls_pos l
  | WPanic => True
  | WOp o k => 48 <= ls_pos l /\ wsp (k (snd (ls_step o l))) (fst (ls_step o l)) Q
  end.

Lemma wsp_bind A B (p : wprog A) (f : A -> wprog B) : forall l Q,
  wsp p l (fun a l' => wsp (f a) l' Q) -> wsp (wbind p f) l Q.
Proof.
  induction p as [a|k| |o k IH]; intros l Q H; cbn [wbind wsp] in *; try exact H.
  destruct H as [H1 H2]. split; [exact H1|]. apply IH. exact H2.
Qed.

Lemma wsp_weaken A (p : wprog A) : forall l (Q Q' : A -> lstream -> Prop),
  (forall a l', Q a l' -> Q' a l') -> wsp p l Q -> wsp p l Q'.
Proof.
  induction p as [a|k| |o k IH]; intros l Q Q' HQ H; cbn [wsp] in *; auto.
  destruct H as [H1 H2]. split; [exact H1|]. eapply IH; eassumption.
Qed.

Lemma wsp_relabel A e (p : wprog A) : forall l Q, wsp p l Q -> wsp (wrelabel e p) l Q.
Proof.
  induction p as [a|k| |o k IH]; intros l Q H; cbn [wrelabel wsp] in *; try exact H.
  destruct H as [H1 H2]. split; [exact H1|]. apply IH. exact H2.
Qed.

Lemma wsp_err_pos A (p : wprog A) : forall l (Q : A -> lstream -> Prop) k,
  wsp p l Q -> snd (wrun_spec p l) = Err k -> 48 <= ls_pos (fst (wrun_spec p l)).
Proof.
  induction p as [a|e| |o k0 IH]; intros l Q k H E; cbn [wrun_spec fst snd wsp] in *; try discriminate.
  - exact H.
  - destruct H as [_ H]. destruct (ls_step o l) as [l1 x]. cbn [fst snd] in *. eapply IH; eassumption.
Qed.

Theorem log_ok_wrun A (p : wprog A) : forall s l Q,
  R s l -> wsp p l Q -> z2440 (ls_data l) -> log_ok (d_log (pw_dev s)) ->
  R (fst (wrun p s)) (fst (wrun_spec p l)) /\
  log_ok (d_log (pw_dev (fst (wrun p s)))) /\
  z2440 (ls_data (fst (wrun_spec p l))) /\
  snd (wrun p s) = snd (wrun_spec p l) /\
  (forall a, snd (wrun_spec p l) = Ok a -> Q a (fst (wrun_spec p l))).
Proof.
  induction p as [a|k| |o k IH]; intros s l Q HR Hsp Hz Hlg; cbn [wrun wrun_spec fst snd].
  - refine (conj HR (conj Hlg (conj Hz (conj eq_refl _)))). intros a' E. injection E as <-. exact Hsp.
  - refine (conj HR (conj Hlg (conj Hz (conj eq_refl _)))). discriminate.
  - refine (conj HR (conj Hlg (conj Hz (conj eq_refl _)))). discriminate.
  - cbn [wsp] in Hsp. destruct Hsp as [Hp Hsp].
    destruct (R_step o s l HR) as (s1 & V & HR1).
    destruct (log_ok_step o s l HR ltac:(lia) Hz Hlg) as [Hlg1 Hz1].
    rewrite V in Hlg1 |- *. cbn [fst] in Hlg1.
    destruct (ls_step o l) as [l1 x] eqn:E. cbn [fst snd] in *.
    apply (IH x s1 l1 Q HR1 Hsp Hz1 Hlg1).
Qed.

Print Assumptions log_ok_wrun.
Print Assumptions final_image_replay.
