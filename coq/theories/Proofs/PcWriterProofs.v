(** Point-cloud writer, part 4: flushes keep the invariant; [pcw_new],
    [pcw_add_point], [add_points], [drain_buffer], [pcw_finalize]; the writer
    emits exactly a compressed-vector section of the format specification
    for a legal layout of the points given. *)
From E57 Require Import Base.Prelude Spec.PageSpec Model.Prog Model.BsWrite Model.Record
  Model.PcWriter Model.FileBin Spec.BitSpec Spec.FormatSpec.
From E57 Require Import Proofs.BitLemmas Proofs.BitWidthProofs Proofs.BitWriteProofs.
From E57 Require Import Proofs.PcWriterLemmas Proofs.PcWriterStreams Proofs.PcWriterPacket.
From Coq Require Import ZifyN ZifyNat ZifyBool.
Ltac Zify.zify_post_hook ::= Z.div_mod_to_equations.
Open Scope N_scope.

(** * A non-last flush keeps the invariant and empties the point buffer *)

Lemma flush_nonlast proto mpp d0 pts lay w d :
  forallb type_ok proto = true -> get_max_packet_points proto = Ok mpp ->
  winv proto mpp d0 pts lay w d -> len (w_buffer w) <= mpp ->
  exists lay' w' d', wrun_spec (write_buffer_to_disk false w) (lend d) = (lend d', Ok w') /\
     winv proto mpp d0 (pts ++ w_buffer w) lay' w' d' /\ w_buffer w' = [].
Proof.
  intros Hty Hmpp Hinv Hlen.
  destruct Hinv as [Hproto Hwmpp Hso Hdo Hsl Hcnt Hd Hal Hpk Hbuf Hls (E & P & Hs)].
  destruct (write_points_sinv proto lay E Hty (w_buffer w) [] pts (w_streams w) 0 P Hbuf Hls Hs)
    as (s1 & P1 & Hwp & Hl1 & Hs1).
  rewrite app_nil_r in Hwp.
  assert (Hk : if false then 0 + len (w_buffer w) = 0 else 0 + len (w_buffer w) <= mpp)
    by (cbv beta iota; lia).
  destruct (flush_core false proto mpp w d (pts ++ w_buffer w) lay (0 + len (w_buffer w)) E P1 [] s1
              Hmpp Hproto Hal Hl1 Hs1 Hk)
    as (sizes & pk & s2 & Hsz & Hrun & Hpk' & Hal' & Hl2 & Hpost).
  eexists (lay ++ pk), _, (d ++ section_body pk).
  split; [|split].
  - rewrite (wbtd_run false w _ [] s1 sizes); [exact Hrun| |exact Hsz].
    rewrite Hwmpp, N.min_r by lia. rewrite pc_to_nat_len, Hproto. exact Hwp.
  - constructor; cbn [w_proto w_max_ppp w_section_offset w_data_offset w_section_length
                      w_point_count w_buffer w_streams]; try assumption.
    + rewrite section_body_app, pc_len_app, Hsl. lia.
    + rewrite Hcnt, pc_len_app, pc_len_nil. lia.
    + rewrite Hd, section_body_app, <- !app_assoc. reflexivity.
    + rewrite forallb_app, Hpk, Hpk'. reflexivity.
    + constructor.
    + exists (fun i => E i ++ firstn (cut false (P1 i)) (P1 i)), (fun i => rest false (P1 i)).
      intros i Hi. destruct (Hs1 i Hi) as (_ & He & Hep & _ & _).
      destruct (Hpost i Hi) as (Hh & Hc).
      split; [exact Hh|]. split; [|split; [|split]].
      * rewrite app_length, firstn_length_le by apply cut_le.
        pose proof (cut_mod8 (P1 i)). lia.
      * rewrite <- app_assoc. unfold rest. rewrite firstn_skipn. exact Hep.
      * rewrite Hc, bob_app_mod8 by exact He. reflexivity.
      * pose proof (rest_false_short (P1 i)). lia.
  - reflexivity.
Qed.

(** * The last flush *)

Definition wfin (proto : list dtype) (d0 : list N) (pts : list (list rvalue)) (lay : layout)
    (w : pcw) (d : list N) : Prop :=
  w_section_offset w = phys_of_log (len d0) /\
  w_data_offset w = phys_of_log (len d0 + 32) /\
  w_section_length w = 32 + len (section_body lay) /\
  w_point_count w = len pts /\
  d = d0 ++ cv_header_bytes 32 0 0 ++ section_body lay /\
  len d mod 4 = 0 /\
  forallb (packet_ok (length proto)) lay = true /\
  forall i, (i < length proto)%nat ->
    concat (record_chunks i lay) = spec_stream_bytes (nth i proto TSingle) (column i pts).

Lemma flush_last proto mpp d0 pts lay w d :
  get_max_packet_points proto = Ok mpp ->
  winv proto mpp d0 pts lay w d -> w_buffer w = [] ->
  exists lay' w' d', wrun_spec (write_buffer_to_disk true w) (lend d) = (lend d', Ok w') /\
     wfin proto d0 pts lay' w' d'.
Proof.
  intros Hmpp Hinv Hb.
  destruct Hinv as [Hproto Hwmpp Hso Hdo Hsl Hcnt Hd Hal Hpk Hbuf Hls (E & P & Hs)].
  assert (Hk : if true then 0 = 0 else 0 <= mpp) by reflexivity.
  destruct (flush_core true proto mpp w d pts lay 0 E P [] (w_streams w)
              Hmpp Hproto Hal Hls Hs Hk)
    as (sizes & pk & s2 & Hsz & Hrun & Hpk' & Hal' & Hl2 & Hpost).
  eexists (lay ++ pk), _, (d ++ section_body pk).
  split.
  - rewrite (wbtd_run true w _ [] (w_streams w) sizes); [exact Hrun| |exact Hsz].
    rewrite Hb. change (len (@nil (list rvalue))) with 0. rewrite N.min_0_r. reflexivity.
  - unfold wfin. cbn [w_section_offset w_data_offset w_section_length w_point_count].
    split; [exact Hso|]. split; [exact Hdo|]. split; [|split; [|split; [|split; [exact Hal'|split]]]].
    + rewrite section_body_app, pc_len_app, Hsl. lia.
    + rewrite Hcnt, Hb, pc_len_nil. lia.
    + rewrite Hd, section_body_app, <- !app_assoc. reflexivity.
    + rewrite forallb_app, Hpk, Hpk'. reflexivity.
    + intros i Hi. destruct (Hs i Hi) as (_ & He & Hep & _ & _).
      destruct (Hpost i Hi) as (_ & Hc).
      rewrite Hc, chunk_true, <- bob_app_mod8 by exact He. rewrite Hep. reflexivity.
Qed.

(** * [pcw_new] *)

Lemma len_cv_header a b c : len (cv_header_bytes a b c) = 32.
Proof.
  unfold cv_header_bytes. rewrite !pc_len_app, !pc_len_le_bytes. reflexivity.
Qed.

Lemma nth_map_const {A B} (b : B) : forall (l : list A) i, nth i (map (fun _ => b) l) b = b.
Proof. induction l; intros [|i]; cbn [map nth]; auto. Qed.

Lemma run_w_position_end d : wrun_spec w_position (lend d) = (lend d, Ok (phys_of_log (len d))).
Proof. reflexivity. Qed.

Lemma pcw_new_run proto mpp d0 :
  get_max_packet_points proto = Ok mpp -> len d0 mod 4 = 0 ->
  exists w, wrun_spec (pcw_new proto) (lend d0) = (lend (d0 ++ cv_header_bytes 32 0 0), Ok w) /\
    winv proto mpp d0 [] [] w (d0 ++ cv_header_bytes 32 0 0) /\ w_buffer w = [].
Proof.
  intros Hmpp Hal. eexists. split; [|split].
  - unfold pcw_new. rewrite Hmpp.
    rewrite (run_bind_ok _ _ _ _ _ (run_lift_ok _ _)).
    rewrite (run_bind_ok _ _ _ _ _ (run_w_position_end _)).
    rewrite (run_bind_ok _ _ _ _ _ (run_wr _ _)).
    rewrite (run_bind_ok _ _ _ _ _ (run_w_position_end _)).
    reflexivity.
  - constructor; cbn [w_proto w_max_ppp w_section_offset w_data_offset w_section_length
                      w_point_count w_buffer w_streams]; try reflexivity.
    + rewrite pc_len_app, len_cv_header. reflexivity.
    + rewrite pc_len_app, len_cv_header. lia.
    + constructor.
    + apply map_length.
    + exists (fun _ => []), (fun _ => []). intros i Hi.
      rewrite nth_map_const. split; [apply bsw_new_holds|]. split; [reflexivity|].
      split; [reflexivity|]. split; [reflexivity|]. cbn [length]. lia.
  - reflexivity.
Qed.

(** * [pcw_add_point] and [add_points] *)

Lemma add_point_run proto mpp d0 pts lay w d p :
  forallb type_ok proto = true -> get_max_packet_points proto = Ok mpp ->
  winv proto mpp d0 pts lay w d -> len (w_buffer w) < mpp -> point_ok proto p = true ->
  exists pts' lay' w' d', wrun_spec (pcw_add_point p w) (lend d) = (lend d', Ok w') /\
    winv proto mpp d0 pts' lay' w' d' /\ len (w_buffer w') < mpp /\
    pts' ++ w_buffer w' = pts ++ w_buffer w ++ [p].
Proof.
  intros Hty Hmpp Hinv Hlen Hp.
  pose proof (packet_capacity proto mpp Hmpp) as (Hc1 & _).
  pose proof Hinv as [Hproto Hwmpp Hso Hdo Hsl Hcnt Hd Hal Hpk Hbuf Hls Hs].
  unfold pcw_add_point.
  replace (values_ok (w_proto w) p) with true
    by (rewrite Hproto; symmetry; apply point_ok_values_ok; exact Hp).
  cbn [negb]. cbv zeta. cbn [w_max_ppp w_buffer].
  set (w1 := mkPcw (w_proto w) (w_section_offset w) (w_section_length w) (w_data_offset w)
                   (w_point_count w + 1) (w_buffer w ++ [p]) (w_max_ppp w) (w_streams w)).
  assert (Hinv1 : winv proto mpp d0 pts lay w1 d).
  { subst w1. constructor; cbn [w_proto w_max_ppp w_section_offset w_data_offset w_section_length
                      w_point_count w_buffer w_streams]; try assumption.
    - rewrite Hcnt, pc_len_app, pc_len_cons, pc_len_nil. lia.
    - apply Forall_app. split; [exact Hbuf|]. constructor; [exact Hp|constructor]. }
  assert (Hl1 : len (w_buffer w ++ [p]) = len (w_buffer w) + 1).
  { rewrite pc_len_app, pc_len_cons, pc_len_nil. lia. }
  rewrite Hwmpp.
  destruct (mpp <=? len (w_buffer w ++ [p])) eqn:E.
  - destruct (flush_nonlast proto mpp d0 pts lay w1 d Hty Hmpp Hinv1) as (lay' & w' & d' & Hrun & Hinv' & Hb').
    { subst w1. cbn [w_buffer]. lia. }
    exists (pts ++ w_buffer w1), lay', w', d'. split; [exact Hrun|]. split; [exact Hinv'|].
    rewrite Hb'. split; [rewrite pc_len_nil; lia|]. subst w1. cbn [w_buffer]. apply app_nil_r.
  - exists pts, lay, w1, d. split; [apply run_wret|]. split; [exact Hinv1|].
    subst w1. cbn [w_buffer]. split; [lia|reflexivity].
Qed.

Lemma add_points_run proto mpp d0 :
  forallb type_ok proto = true -> get_max_packet_points proto = Ok mpp ->
  forall more pts lay w d,
  winv proto mpp d0 pts lay w d -> len (w_buffer w) < mpp ->
  Forall (fun p => point_ok proto p = true) more ->
  exists pts' lay' w' d', wrun_spec (add_points more w) (lend d) = (lend d', Ok w') /\
    winv proto mpp d0 pts' lay' w' d' /\ len (w_buffer w') < mpp /\
    pts' ++ w_buffer w' = pts ++ w_buffer w ++ more.
Proof.
  intros Hty Hmpp. induction more as [|p r IH]; intros pts lay w d Hinv Hlen Hok.
  - exists pts, lay, w, d. split; [apply run_wret|]. split; [exact Hinv|]. split; [exact Hlen|].
    rewrite app_nil_r. reflexivity.
  - inversion Hok as [|? ? Hp Hr]; subst.
    destruct (add_point_run proto mpp d0 pts lay w d p Hty Hmpp Hinv Hlen Hp)
      as (pts1 & lay1 & w1 & d1 & Hrun1 & Hinv1 & Hlen1 & Heq1).
    destruct (IH pts1 lay1 w1 d1 Hinv1 Hlen1 Hr) as (pts2 & lay2 & w2 & d2 & Hrun2 & Hinv2 & Hlen2 & Heq2).
    exists pts2, lay2, w2, d2. split; [|split; [exact Hinv2|split; [exact Hlen2|]]].
    + cbn [add_points]. rewrite (run_bind_ok _ _ _ _ _ Hrun1). exact Hrun2.
    + rewrite Heq2, app_assoc, Heq1, <- !app_assoc. reflexivity.
Qed.

(** * [drain_buffer] *)

Lemma drain_buffer_run proto mpp d0 pts lay w d :
  forallb type_ok proto = true -> get_max_packet_points proto = Ok mpp ->
  winv proto mpp d0 pts lay w d -> len (w_buffer w) <= mpp ->
  exists lay' w' d', wrun_spec (drain_buffer (S (length (w_buffer w))) w) (lend d) = (lend d', Ok w') /\
    winv proto mpp d0 (pts ++ w_buffer w) lay' w' d' /\ w_buffer w' = [].
Proof.
  intros Hty Hmpp Hinv Hlen. cbn [drain_buffer].
  destruct (w_buffer w) as [|p r] eqn:Eb.
  - exists lay, w, d. split; [apply run_wret|]. rewrite app_nil_r. split; [exact Hinv|exact Eb].
  - destruct (flush_nonlast proto mpp d0 pts lay w d Hty Hmpp Hinv) as (lay' & w' & d' & Hrun & Hinv' & Hb').
    { rewrite Eb. exact Hlen. }
    rewrite Eb in Hinv'.
    exists lay', w', d'. split; [|split; [exact Hinv'|exact Hb']].
    rewrite (run_bind_ok _ _ _ _ _ Hrun). cbn [length drain_buffer]. rewrite Hb'. apply run_wret.
Qed.

(** * [pcw_finalize] *)

Lemma run_wr_mid d0 h0 h1 body : len h0 = len h1 -> len h1 = 32 ->
  wrun_spec (wr h1) (mkLs (d0 ++ h0 ++ body) (len d0))
    = (mkLs (d0 ++ h1 ++ body) (len d0 + 32), Ok tt).
Proof.
  intros H H32. unfold wr, w_write, wop_. cbn [wrun_spec ls_step res_map wlift].
  destruct h1 as [|b h1]; [rewrite pc_len_nil in H32; lia|].
  unfold ls_write. cbn [ls_data ls_pos]. rewrite overwrite_mid by exact H. rewrite H32. reflexivity.
Qed.

Lemma finalize_run proto mpp d0 pts lay w d :
  forallb type_ok proto = true -> get_max_packet_points proto = Ok mpp ->
  winv proto mpp d0 pts lay w d -> len (w_buffer w) <= mpp ->
  exists lay' w' d',
    wrun_spec (pcw_finalize w) (lend d)
      = (lend d', Ok (w', phys_of_log (len d0), len (pts ++ w_buffer w))) /\
    d' = d0 ++ encode_section (phys_of_log (len d0 + 32)) lay' /\
    len d' mod 4 = 0 /\
    forallb (packet_ok (length proto)) lay' = true /\
    forall i, (i < length proto)%nat ->
      concat (record_chunks i lay')
        = spec_stream_bytes (nth i proto TSingle) (column i (pts ++ w_buffer w)).
Proof.
  intros Hty Hmpp Hinv Hlen.
  destruct (drain_buffer_run proto mpp d0 pts lay w d Hty Hmpp Hinv Hlen)
    as (lay1 & w1 & d1 & Hrun1 & Hinv1 & Hb1).
  destruct (flush_last proto mpp d0 _ lay1 w1 d1 Hmpp Hinv1 Hb1)
    as (lay2 & w2 & d2 & Hrun2 & Hso & Hdo & Hsl & Hcnt & Hd2 & Hal2 & Hpk2 & Hrec).
  set (h1 := cv_header_bytes (w_section_length w2) (w_data_offset w2) 0).
  set (dn := d0 ++ h1 ++ section_body lay2).
  assert (Hlen_dn : len dn = len d2).
  { subst dn h1. rewrite Hd2, !pc_len_app, !len_cv_header. reflexivity. }
  exists lay2, w2, dn. split; [|split; [|split; [|split; [exact Hpk2|exact Hrec]]]].
  - unfold pcw_finalize.
    rewrite (run_bind_ok _ _ _ _ _ Hrun1).
    rewrite (run_bind_ok _ _ _ _ _ Hrun2).
    rewrite (run_bind_ok _ _ _ _ _ (run_relabel_ok _ _ _ _ _ (run_w_position_end _))).
    rewrite Hso.
    assert (Hseek1 : wrun_spec (w_seek (phys_of_log (len d0))) (lend d2) = (mkLs d2 (len d0), Ok tt)).
    { apply run_w_seek. rewrite Hd2, pc_len_app. lia. }
    rewrite (run_bind_ok _ _ _ _ _ (run_relabel_ok _ _ _ _ _ Hseek1)).
    fold h1.
    assert (Hwr : wrun_spec (wr h1) (mkLs d2 (len d0)) = (mkLs dn (len d0 + 32), Ok tt)).
    { rewrite Hd2. subst dn. apply run_wr_mid; subst h1; rewrite !len_cv_header; reflexivity. }
    rewrite (run_bind_ok _ _ _ _ _ Hwr).
    assert (Hseek2 : wrun_spec (w_seek (phys_of_log (len d2))) (mkLs dn (len d0 + 32))
                     = (mkLs dn (len d2), Ok tt)).
    { apply run_w_seek. lia. }
    rewrite (run_bind_ok _ _ _ _ _ (run_relabel_ok _ _ _ _ _ Hseek2)).
    rewrite Hcnt. unfold lend. rewrite Hlen_dn. reflexivity.
  - subst dn h1. rewrite Hsl, Hdo. unfold encode_section, cv_header_bytes.
    rewrite <- !app_assoc. reflexivity.
  - lia.
Qed.

(** * The theorem *)

Theorem pcw_emits_spec : forall (proto : list dtype) (points : list (list rvalue)) (l0 : lstream) (mpp : N),
  scene_ok proto points = true ->
  get_max_packet_points proto = Ok mpp ->
  ls_pos l0 = len (ls_data l0) -> len (ls_data l0) mod 4 = 0 ->
  exists (lay : layout) (l1 : lstream),
    wrun_spec (item_write (IPc proto points)) l0
      = (l1, Ok (OPc (phys_of_log (len (ls_data l0))) (len points))) /\
    legal proto points lay = true /\
    ls_data l1 = ls_data l0 ++ encode_section (phys_of_log (len (ls_data l0) + 32)) lay /\
    ls_pos l1 = len (ls_data l1) /\ len (ls_data l1) mod 4 = 0.
Proof.
  intros proto points [d0 p0] mpp Hscene Hmpp Hpos Hal. cbn [ls_data ls_pos] in *. subst p0.
  change (mkLs d0 (len d0)) with (lend d0).
  unfold scene_ok in Hscene.
  apply andb_prop in Hscene as [Hscene _]. apply andb_prop in Hscene as [Hty Hpts].
  assert (Hok : Forall (fun p => point_ok proto p = true) points).
  { apply Forall_forall. intros p Hp. rewrite forallb_forall in Hpts. apply Hpts. exact Hp. }
  pose proof (packet_capacity proto mpp Hmpp) as (Hc1 & _).
  destruct (pcw_new_run proto mpp d0 Hmpp Hal) as (w0 & Hrun0 & Hinv0 & Hb0).
  destruct (add_points_run proto mpp d0 Hty Hmpp points [] [] w0 _ Hinv0) as
    (pts1 & lay1 & w1 & d1 & Hrun1 & Hinv1 & Hlen1 & Heq1); [rewrite Hb0, pc_len_nil; lia|exact Hok|].
  rewrite Hb0 in Heq1. cbn [app] in Heq1.
  destruct (finalize_run proto mpp d0 pts1 lay1 w1 d1 Hty Hmpp Hinv1) as
    (lay2 & w2 & d2 & Hrun2 & Hd2 & Hal2 & Hpk2 & Hrec); [lia|].
  rewrite Heq1 in Hrun2, Hrec.
  exists lay2, (lend d2). split; [|split; [|split; [exact Hd2|split; [reflexivity|exact Hal2]]]].
  - cbn [item_write].
    rewrite (run_bind_ok _ _ _ _ _ Hrun0).
    rewrite (run_bind_ok _ _ _ _ _ Hrun1).
    rewrite (run_bind_ok _ _ _ _ _ Hrun2). reflexivity.
  - unfold legal. rewrite Hpk2. cbn [andb]. apply all_nat_intro. intros i Hi.
    destruct (list_eq_dec N.eq_dec _ _) as [_|Hn]; [reflexivity|]. exfalso. apply Hn. apply Hrec. exact Hi.
Qed.

Print Assumptions pcw_emits_spec.
Print Assumptions packet_capacity.
