(** C05: the theorems as stated in Props/C05.v, for the two interpretations of
    reader programs used elsewhere - [rrun] (the paged reader model on a device:
    every reader state, device content, fault plan) and [rrun_spec] (the logical
    stream) - and instances by computation, including the two statements that
    are false without their extra hypothesis. *)
From Coq Require Import ZArith NArith Bool List Lia.
From Flocq Require Import Binary Bits.
From E57 Require Import Base.Prelude Base.Floats Model.PagedReader Spec.PageSpec Model.BsRead Model.Record Model.Meta
  Model.Prog Model.QueueReader Model.Normalize Model.SimpleIter Spec.BitSpec Spec.FormatSpec Spec.SimpleSpec
  Proofs.SimpleRun Proofs.SimpleIterProofs Proofs.SimpleFrames.
Open Scope N_scope.

Section OnDevice.
  Variables (fcos fsin fasin : binary64 -> binary64) (fatan2 : binary64 -> binary64 -> binary64).

  Theorem simple_is_view_rrun : forall pc o log_size fuel (s s' : pr) raws rgs,
    rrun (raw_read_all fuel log_size pc) s = (s', Ok raws) ->
    prepare_ranges pc = Ok rgs ->
    index_records_are_integers pc = true ->
    Forall (fun raw => invalid_states_in_set pc raw = true) raws ->
    exists pts, rrun (simple_read_all fcos fsin fasin fatan2 fuel log_size pc o) s = (s', Ok pts) /\
                res_all (view fcos fsin fasin fatan2 pc o) raws = Ok pts.
  Proof.
    intros pc o log_size fuel s s' raws rgs H. rewrite rrun_is_grun in H.
    intros Hrg Hint HI. rewrite rrun_is_grun. eapply simple_is_view; eassumption.
  Qed.

  Theorem simple_is_view_rrun_spec : forall pc o log_size fuel log (off off' : N) raws rgs,
    rrun_spec log (raw_read_all fuel log_size pc) off = (off', Ok raws) ->
    prepare_ranges pc = Ok rgs ->
    index_records_are_integers pc = true ->
    Forall (fun raw => invalid_states_in_set pc raw = true) raws ->
    exists pts, rrun_spec log (simple_read_all fcos fsin fasin fatan2 fuel log_size pc o) off = (off', Ok pts) /\
                res_all (view fcos fsin fasin fatan2 pc o) raws = Ok pts.
  Proof.
    intros pc o log_size fuel log off off' raws rgs H. rewrite rrun_spec_is_grun in H.
    intros Hrg Hint HI. rewrite rrun_spec_is_grun. eapply simple_is_view; eassumption.
  Qed.

  Theorem simple_fails_only_if_rrun : forall pc o log_size fuel (s s' : pr) e,
    rrun (simple_read_all fcos fsin fasin fatan2 fuel log_size pc o) s = (s', Err e) ->
    (forall raws, snd (rrun (raw_read_all fuel log_size pc) s) <> Ok raws)
    \/ (forall rgs, prepare_ranges pc <> Ok rgs)
    \/ index_records_are_integers pc = false
    \/ exists s'' raws, rrun (raw_read_all fuel log_size pc) s = (s'', Ok raws) /\
         Exists (fun raw => invalid_states_in_set pc raw = false) raws.
  Proof.
    intros pc o log_size fuel s s' e H. rewrite rrun_is_grun in H.
    destruct (simple_fails_only_if fcos fsin fasin fatan2 pr_step pc o log_size fuel s s' e H) as [H1|[H1|[H1|H1]]].
    - left. intros raws. rewrite rrun_is_grun. apply H1.
    - right. left. exact H1.
    - right. right. left. exact H1.
    - right. right. right. destruct H1 as (s'' & raws & Hr & He). exists s'', raws.
      rewrite rrun_is_grun. split; assumption.
  Qed.

  (** The six frames, together. *)
  Theorem option_frames : forall pc raw o o' p p',
    view fcos fsin fasin fatan2 pc o raw = Ok p -> view fcos fsin fasin fatan2 pc o' raw = Ok p' ->
    (same_but_s2c o o' ->
       p_spherical p = p_spherical p' /\ p_color p = p_color p' /\ p_intensity p = p_intensity p' /\
       p_row p = p_row p' /\ p_column p = p_column p') /\
    (same_but_c2s o o' ->
       p_cartesian p = p_cartesian p' /\ p_color p = p_color p' /\ p_intensity p = p_intensity p' /\
       p_row p = p_row p' /\ p_column p = p_column p') /\
    (same_but_i2c o o' ->
       p_cartesian p = p_cartesian p' /\ p_spherical p = p_spherical p' /\ p_intensity p = p_intensity p' /\
       p_row p = p_row p' /\ p_column p = p_column p' /\
       (forall col, view_color_stored pc o raw = Ok (Some col) -> p_color p = Some col /\ p_color p' = Some col)) /\
    (same_but_ni o o' ->
       p_cartesian p = p_cartesian p' /\ p_spherical p = p_spherical p' /\
       p_row p = p_row p' /\ p_column p = p_column p' /\
       (o_i2c o = false -> p_color p = p_color p') /\
       (forall col, view_color_stored pc o raw = Ok (Some col) -> p_color p = p_color p')) /\
    (same_but_nc o o' ->
       p_cartesian p = p_cartesian p' /\ p_spherical p = p_spherical p' /\ p_intensity p = p_intensity p' /\
       p_row p = p_row p' /\ p_column p = p_column p') /\
    (same_but_pose o o' ->
       p_spherical p = p_spherical p' /\ p_color p = p_color p' /\ p_intensity p = p_intensity p' /\
       p_row p = p_row p' /\ p_column p = p_column p' /\
       match p_cartesian p with
       | CValid _ _ _ => exists x y z, p_cartesian p' = CValid x y z
       | c => p_cartesian p' = c
       end).
  Proof.
    intros pc raw o o' p p' H H'.
    split; [intros Hs; eapply frame_s2c; eassumption|].
    split; [intros Hs; eapply frame_c2s; eassumption|].
    split; [intros Hs; eapply frame_i2c; eassumption|].
    split; [intros Hs; eapply frame_ni; eassumption|].
    split; [intros Hs; eapply frame_nc; eassumption|].
    intros Hs; eapply frame_pose; eassumption.
  Qed.
End OnDevice.

(** * Instances, by computation *)
Module C05Instance.
  Definition f64c (bits : N) : f64t := mkF64 bits [].
  Definition one := 0x3ff0000000000000.
  Definition two := 0x4000000000000000.
  Definition three := 0x4008000000000000.
  Definition half := 0x3fe0000000000000.

  Definition recs : list record :=
    [mkRecord CartesianX (DDouble None None); mkRecord CartesianY (DDouble None None);
     mkRecord CartesianZ (DDouble None None); mkRecord CartesianInvalidState (DInteger 0 3);
     mkRecord Intensity (DInteger 0 255)].
  Definition dts : list dtype := map (fun r => dtype_of (r_type r)) recs.

  (** three points; the third has an invalid-state value outside {0,1,2} *)
  Definition pts : list (list rvalue) :=
    [[VDouble one; VDouble two; VDouble three; VInteger 0; VInteger 255];
     [VDouble two; VDouble three; VDouble one; VInteger 1; VInteger 51];
     [VDouble three; VDouble one; VDouble two; VInteger 3; VInteger 0]].

  Definition stream (i : nat) : list N := spec_stream_bytes (nth i dts TSingle) (column i pts).
  (** two data packets with an index packet between them: the first carries
      point 1 completely and the invalid state of all three points *)
  Definition lay : layout :=
    [SData [take 8 (stream 0); take 8 (stream 1); take 8 (stream 2); stream 3; take 1 (stream 4)];
     SIndex 16;
     SData [drop 8 (stream 0); drop 8 (stream 1); drop 8 (stream 2); []; drop 1 (stream 4)]].
  Definition pre : list N := repeat 9 1000%nat.
  Definition section : list N := encode_section (phys_of_log (len pre + 32)) lay.
  Definition post : list N := zeros (1020 + (1020 - (len pre + len section) mod 1020)).
  Definition log : list N := pre ++ section ++ post.

  (** pose: a quarter turn about z (w = z = sqrt(1/2) rounded) and a translation *)
  Definition pose : transform :=
    mkTransform (f64c 0x3fe6a09e667f3bcd) (f64c 0) (f64c 0) (f64c 0x3fe6a09e667f3bcd) (f64c one) (f64c two) (f64c three).

  Definition pc (records : N) : pointcloud :=
    mkPointCloud None (phys_of_log (len pre)) records recs None None None None None None None None (Some pose)
                 None None None None None None None None None None None.

  (** stand-ins for libm (the theorems hold for any functions) *)
  Definition fid (x : binary64) : binary64 := x.
  Definition fadd (y x : binary64) : binary64 := f64_add y x.

  Definition all_opts : list opts :=
    flat_map (fun a => flat_map (fun b => flat_map (fun c => flat_map (fun d => flat_map (fun e =>
      [mkOpts a b c d e true; mkOpts a b c d e false]) [true; false]) [true; false]) [true; false]) [true; false]) [true; false].

  Definition raw_run (records : N) := snd (rrun_spec log (raw_read_all 10 (len log) (pc records)) 0).
  Definition simple_run (records : N) (o : opts) :=
    snd (rrun_spec log (simple_read_all fid fid fid fadd 10 (len log) (pc records) o) 0).
  Definition views (records : N) (o : opts) := res_all (view fid fid fid fadd (pc records) o) (firstn (N.to_nat records) pts).

  Definition point_bits (p : point) : list N :=
    match p_cartesian p with
    | CValid x y z => [1; bits_of_f64c x; bits_of_f64c y; bits_of_f64c z]
    | CDirection x y z => [2; bits_of_f64c x; bits_of_f64c y; bits_of_f64c z]
    | CInvalid => [3]
    end ++
    match p_spherical p with
    | SValid r a e => [1; bits_of_f64c r; bits_of_f64c a; bits_of_f64c e]
    | SDirection a e => [2; bits_of_f64c a; bits_of_f64c e]
    | SInvalid => [3]
    end ++
    match p_color p with Some c => [bits_of_f32c (c_red c); bits_of_f32c (c_green c); bits_of_f32c (c_blue c)] | None => [] end ++
    match p_intensity p with Some i => [bits_of_f32c i] | None => [] end.
  Definition res_bits (r : res (list point)) : res (list (list N)) := res_map (map point_bits) r.
End C05Instance.

Import C05Instance.

(** The hypotheses of [simple_is_view] hold for [records = 2]: the raw iteration
    succeeds with points 1 and 2, the limits are usable, the index records are
    integers, both points are in set.  (Point 3, decoded from the same packet
    as point 2, has invalid state 3: it lies behind the last point.) *)
Example C05_instance_hypotheses :
  raw_run 2 = Ok (firstn 2 pts) /\
  is_ok (prepare_ranges (pc 2)) = true /\ index_records_are_integers (pc 2) = true /\
  forallb (invalid_states_in_set (pc 2)) (firstn 2 pts) = true.
Proof. repeat split; vm_compute; reflexivity. Qed.

(** ... and for all 64 option vectors the simple iterator returns the views of the raw points *)
Example C05_instance_all_options :
  forallb (fun o => match res_bits (simple_run 2 o), res_bits (views 2 o) with
                    | Ok a, Ok b => if list_eq_dec (list_eq_dec N.eq_dec) a b then (length a =? 2)%nat else false
                    | _, _ => false
                    end) all_opts = true /\ length all_opts = 64%nat.
Proof. split; vm_compute; reflexivity. Qed.

(** The value delivered with the default options: point 1 rotated a quarter turn about z
    ((1,2,3) -> (-2,1,3) up to the rounding of sqrt(1/2)) and translated by (1,2,3); intensity 255/255 = 1 as grey. *)
Example C05_instance_value :
  res_bits (simple_run 1 default_opts) =
  Ok [[1; 0xbff0000000000002; 0x4008000000000000; 0x4018000000000001; 3;
       0x3f800000; 0x3f800000; 0x3f800000; 0x3f800000]].
Proof. vm_compute. reflexivity. Qed.

(** Values decoded behind the last point are not converted (repair 1d9b775; before
    it this instance failed with Invalid): with two records the third point, which
    arrives in the same packet as the second and has invalid state 3, does not matter. *)
Example C05_values_behind_last_point_ignored :
  raw_run 2 = Ok (firstn 2 pts) /\
  match simple_run 2 default_opts with Ok l => length l | _ => 0%nat end = 2%nat.
Proof. split; vm_compute; reflexivity. Qed.

(** With all three records the raw iterator succeeds and the simple iterator
    fails for the documented reason; the points of the packets before the
    offending one are not affected (here: none is delivered, all three invalid
    states arrive with the first packet). *)
Example C05_out_of_set_fails :
  raw_run 3 = Ok pts /\ simple_run 3 default_opts = Err EInvalid /\
  existsb (fun raw => negb (invalid_states_in_set (pc 3) raw)) pts = true.
Proof. repeat split; vm_compute; reflexivity. Qed.

(** The setter documentation of spherical_to_cartesian ("will only replace fully
    invalid Cartesian coordinates and do nothing otherwise") is narrower than the
    code and the property text ("when no valid Cartesian value exists"): a
    Cartesian direction is replaced by the converted valid spherical coordinate. *)
Example C05_s2c_replaces_direction_refuted :
  let d := f64_of_bits one in
  exists x y z, converted_cartesian fid fid (CDirection d d d) (SValid d d d) = CValid x y z.
Proof. cbv zeta. eexists _, _, _. reflexivity. Qed.

(** The identity pose (no pose in the file) is not the identity on non-finite
    coordinates: 0 * inf = NaN poisons the other two coordinates; and it turns -0 into +0. *)
Example C05_identity_pose_not_identity_refuted :
  let r := fst (prepare_transform None) in let t := snd (prepare_transform None) in
  let v := apply_pose64 r t (mkVec3 (f64_of_bits 0x7ff0000000000000) (f64_of_bits one) (f64_of_bits two)) in
  map bits_of_f64c [v_x v; v_y v; v_z v] = [0x7ff0000000000000; 0x7ff8000000000000; 0x7ff8000000000000] /\
  let w := apply_pose64 r t (mkVec3 (f64_of_bits 0x8000000000000000) (f64_of_bits one) (f64_of_bits two)) in
  map bits_of_f64c [v_x w; v_y w; v_z w] = [0; one; two].
Proof. split; vm_compute; reflexivity. Qed.
