(** Writer API, part 3: the documented rules as a specification-side predicate
    ([representable_*], written with [In] / [exists] from the documentation of
    the API: the doc comments of [RecordName], the messages of the rule checks,
    the doc of [Extension]), and the proof that the model's validators accept
    nothing else.  Also the facts about accepted prototypes that the state
    invariant needs. *)
From Flocq Require Import Binary Bits.
From E57 Require Import Base.Prelude Base.Floats Model.Record Model.PcWriter Spec.BitSpec
  Model.Meta Model.WriterApi.
From E57 Require Import Proofs.PcWriterLemmas Proofs.WapiFloatOrder.
From Coq Require Import ZifyN ZifyNat ZifyBool.
Ltac Zify.zify_post_hook ::= Z.div_mod_to_equations.
Open Scope N_scope.

(** * Equality tests *)

Lemma xs_eqb_eq : forall a b, xs_eqb a b = true <-> a = b.
Proof.
  induction a as [|x a IH]; intros [|y b]; cbn [xs_eqb]; split; intros H; try discriminate; try reflexivity.
  - apply andb_prop in H as [H1 H2]. apply N.eqb_eq in H1. apply IH in H2. congruence.
  - inversion H; subst. rewrite N.eqb_refl. cbn [andb]. apply IH. reflexivity.
Qed.

Lemma name_eqb_eq a b : name_eqb a b = true <-> a = b.
Proof.
  split.
  - destruct a, b; cbn [name_eqb]; intros H; try discriminate; try reflexivity.
    apply andb_prop in H as [H1 H2]. apply xs_eqb_eq in H1, H2. congruence.
  - intros <-. destruct a; cbn [name_eqb]; try reflexivity.
    apply andb_true_intro. split; apply xs_eqb_eq; reflexivity.
Qed.

(** * The specification side *)

(** a record with this name occurs *)
Definition has (proto : list record) (n : record_name) : Prop :=
  exists t, In (mkRecord n t) proto.
(** the type of the first record with this name *)
Definition first_type (proto : list record) (n : record_name) (t : data_type) : Prop :=
  exists pre post, proto = pre ++ mkRecord n t :: post /\ ~ has pre n.

Definition all_or_none3 (proto : list record) (a b c : record_name) : Prop :=
  (has proto a /\ has proto b /\ has proto c) \/ (~ has proto a /\ ~ has proto b /\ ~ has proto c).

(** "Can have the value 0 .. hi": an integer record with exactly that range, next to its companion *)
Definition flag_rule (proto : list record) (flag companion : record_name) (hi : Z) : Prop :=
  has proto flag -> has proto companion /\ first_type proto flag (DInteger 0 hi).

Definition integer_rule (proto : list record) (n : record_name) : Prop :=
  forall t, first_type proto n t -> exists mn mx, t = DInteger mn mx.
Definition not_integer_rule (proto : list record) (n : record_name) : Prop :=
  forall t, first_type proto n t -> forall mn mx, t <> DInteger mn mx.

(** names of XML namespaces and attributes: a-z A-Z 0-9 - _ only, not empty, not starting
    with "xml" in any case, not starting with a digit or a dash *)
Definition allowed_char (b : N) : Prop :=
  (48 <= b <= 57) \/ (65 <= b <= 90) \/ (97 <= b <= 122) \/ b = 95 \/ b = 45.
Definition starts_xml (s : xstring) : Prop :=
  exists a b c r, s = a :: b :: c :: r /\ (a = 120 \/ a = 88) /\ (b = 109 \/ b = 77) /\ (c = 108 \/ c = 76).
Definition name_wf (s : xstring) : Prop :=
  s <> [] /\ ~ starts_xml s /\ Forall allowed_char s.
Definition name_start_ok (s : xstring) : Prop :=
  forall c r, s = c :: r -> ~ (48 <= c <= 57) /\ c <> 45.

Definition registered (exts : list extension) (ns : xstring) : Prop :=
  exists url, In (mkExtension ns url) exts.

Definition range_ok (t : data_type) : Prop :=
  match t with DInteger mn mx | DScaledInteger mn mx _ _ => (mn <= mx)%Z | _ => True end.

(** limits of float records are numbers, minimum <= maximum (a Single's limits as f64) *)
Definition limits_ordered (mn mx : option binary64) : Prop :=
  (forall a, mn = Some a -> not_nan a) /\ (forall b, mx = Some b -> not_nan b) /\
  (forall a b, mn = Some a -> mx = Some b -> f64_le a b = true).
Definition float_range_ok (t : data_type) : Prop :=
  match t with
  | DSingle mn mx => limits_ordered (option_map f64_of_t32 mn) (option_map f64_of_t32 mx)
  | DDouble mn mx => limits_ordered (option_map f64_of_t64 mn) (option_map f64_of_t64 mx)
  | _ => True
  end.

(** bits of one point, and: a data packet with one point - 6 bytes header, two bytes per
    record, the data with up to seven left-over bits per record, padding - fits the u16 length *)
Definition point_bits_of (proto : list record) : N :=
  fold_left (fun a t => a + bit_size t) (proto_dtypes proto) 0.
Definition fits_packet (proto : list record) : Prop :=
  0 < point_bits_of proto /\
  6 + 2 * len proto + (point_bits_of proto + 7 * len proto) / 8 + 3 <= 65535.

Definition representable_prototype (exts : list extension) (proto : list record) : Prop :=
  all_or_none3 proto CartesianX CartesianY CartesianZ /\
  all_or_none3 proto SphericalAzimuth SphericalElevation SphericalRange /\
  all_or_none3 proto ColorRed ColorGreen ColorBlue /\
  (has proto CartesianX \/ has proto SphericalAzimuth) /\
  (has proto ReturnCount <-> has proto ReturnIndex) /\
  flag_rule proto CartesianInvalidState CartesianX 2 /\
  flag_rule proto SphericalInvalidState SphericalAzimuth 2 /\
  flag_rule proto IsColorInvalid ColorRed 1 /\
  flag_rule proto IsIntensityInvalid Intensity 1 /\
  flag_rule proto IsTimeStampInvalid TimeStamp 1 /\
  not_integer_rule proto SphericalAzimuth /\ not_integer_rule proto SphericalElevation /\
  integer_rule proto ReturnCount /\ integer_rule proto ReturnIndex /\
  integer_rule proto RowIndex /\ integer_rule proto ColumnIndex /\
  (forall p, In p proto -> range_ok (r_type p)) /\
  NoDup (map r_name proto) /\
  (forall ns name t, In (mkRecord (Unknown ns name) t) proto ->
     name_wf ns /\ name_wf name /\ name_start_ok name /\ registered exts ns) /\
  fits_packet proto /\
  (forall p, In p proto -> float_range_ok (r_type p)).

(** a value fits a record: same kind, integers inside the declared range *)
Definition representable_value (t : data_type) (v : rvalue) : Prop :=
  match t with
  | DSingle _ _ => exists b, v = VSingle b
  | DDouble _ _ => exists b, v = VDouble b
  | DScaledInteger mn mx _ _ => exists i, v = VScaled i /\ (mn <= i <= mx)%Z
  | DInteger mn mx => exists i, v = VInteger i /\ (mn <= i <= mx)%Z
  end.
Definition representable_point (proto : list record) (vs : list rvalue) : Prop :=
  Forall2 (fun p v => representable_value (r_type p) v) proto vs.

(** * [contains] / [get_rec] against [has] / [first_type] *)

Lemma contains_has proto n : contains proto n = true <-> has proto n.
Proof.
  unfold contains, has. rewrite existsb_exists. split.
  - intros (p & Hin & He). apply name_eqb_eq in He. destruct p as [m t]. cbn in He. subst m.
    exists t. exact Hin.
  - intros (t & Hin). exists (mkRecord n t). split; [exact Hin|]. apply name_eqb_eq. reflexivity.
Qed.

Lemma contains_false proto n : contains proto n = false <-> ~ has proto n.
Proof.
  rewrite <- contains_has. destruct (contains proto n); split; intros H; try congruence; try discriminate;
    try (exfalso; apply H; reflexivity).
Qed.

Lemma get_rec_first : forall proto n r, get_rec proto n = Some r ->
  r_name r = n /\ first_type proto n (r_type r).
Proof.
  induction proto as [|p pr IH]; intros n r H; cbn [get_rec find] in H; [discriminate|].
  destruct (name_eqb (r_name p) n) eqn:E.
  - inversion H; subst. apply name_eqb_eq in E. split; [exact E|].
    exists [], pr. split; [destruct r as [m t]; cbn in *; subst; reflexivity|].
    intros (t & Hin). exact Hin.
  - destruct (IH n r H) as (Hn & pre & post & Hp & Hno). split; [exact Hn|].
    exists (p :: pre), post. split; [cbn [app]; rewrite Hp; reflexivity|].
    intros (t & [Hin|Hin]).
    + subst p. cbn in E. assert (name_eqb n n = true) by (apply name_eqb_eq; reflexivity). congruence.
    + apply Hno. exists t. exact Hin.
Qed.

Lemma get_rec_none proto n : get_rec proto n = None <-> ~ has proto n.
Proof.
  rewrite <- contains_false. unfold get_rec, contains. induction proto as [|p pr IH]; cbn [find existsb].
  - split; reflexivity.
  - destruct (name_eqb (r_name p) n); cbn [orb]; [split; discriminate|exact IH].
Qed.

Lemma first_type_unique proto n t t' : first_type proto n t -> first_type proto n t' -> t = t'.
Proof.
  intros (pre & post & Hp & Hno) (pre' & post' & Hp' & Hno').
  assert (G : forall (a : list record) b a' b', a ++ mkRecord n t :: b = a' ++ mkRecord n t' :: b' ->
              ~ has a n -> ~ has a' n -> t = t').
  { induction a as [|x a IH]; intros b [|x' a'] b' He H1 H2; cbn [app] in He.
    - inversion He. reflexivity.
    - inversion He; subst. exfalso. apply H2. exists t. left. reflexivity.
    - inversion He; subst. exfalso. apply H1. exists t'. left. reflexivity.
    - inversion He; subst. apply (IH b a' b' H3).
      + intros (u & Hu). apply H1. exists u. right. exact Hu.
      + intros (u & Hu). apply H2. exists u. right. exact Hu. }
  apply (G pre post pre' post'); [congruence|exact Hno|exact Hno'].
Qed.

Lemma first_type_get proto n t : first_type proto n t -> exists r, get_rec proto n = Some r /\ r_type r = t.
Proof.
  intros Hf. destruct (get_rec proto n) as [r|] eqn:E.
  - exists r. split; [reflexivity|]. destruct (get_rec_first _ _ _ E) as (_ & Hf').
    apply (first_type_unique proto n _ _ Hf' Hf).
  - exfalso. apply get_rec_none in E. apply E. destruct Hf as (pre & post & Hp & _).
    exists t. rewrite Hp. apply in_or_app. right. left. reflexivity.
Qed.

(** * The validators *)

Lemma seq_res_ok a b : (a >> b) = Ok tt -> a = Ok tt /\ b = Ok tt.
Proof. destruct a as [[]|k|]; cbn [seq_res]; intros H; try discriminate. split; [reflexivity|exact H]. Qed.

Lemma count3_all_or_none proto a b c :
  (negb (count3 proto a b c =? 0) && negb (count3 proto a b c =? 3)) = false ->
  all_or_none3 proto a b c.
Proof.
  unfold count3, all_or_none3. rewrite <- !contains_has.
  destruct (contains proto a), (contains proto b), (contains proto c); cbn; intros H; try discriminate.
  - left. auto.
  - right. repeat split; discriminate.
Qed.

Lemma validate_flag_ok proto flag companion hi :
  validate_flag proto flag companion hi = Ok tt -> flag_rule proto flag companion hi.
Proof.
  unfold validate_flag, flag_rule. intros H Hhas.
  destruct (get_rec proto flag) as [r|] eqn:E.
  - destruct (contains proto companion) eqn:Ec; cbn [negb] in H; [|discriminate].
    split; [apply contains_has; exact Ec|].
    destruct (get_rec_first _ _ _ E) as (_ & Hf).
    unfold is_integer_range in H. destruct (r_type r) as [| | |mn mx]; try discriminate.
    destruct ((mn =? 0)%Z && (mx =? hi)%Z) eqn:Er; [|discriminate].
    apply andb_prop in Er as [E1 E2]. apply Z.eqb_eq in E1, E2. subst. exact Hf.
  - exfalso. apply get_rec_none in E. apply E. exact Hhas.
Qed.

Lemma integer_if_present_ok proto n : integer_if_present proto n = Ok tt -> integer_rule proto n.
Proof.
  unfold integer_if_present, integer_rule. intros H t Hf.
  destruct (first_type_get _ _ _ Hf) as (r & Hr & Ht). rewrite Hr in H. subst t.
  destruct (r_type r); cbn in H; try discriminate. eauto.
Qed.

Lemma not_integer_if_present_ok proto n : not_integer_if_present proto n = Ok tt -> not_integer_rule proto n.
Proof.
  unfold not_integer_if_present, not_integer_rule. intros H t Hf mn mx Heq.
  destruct (first_type_get _ _ _ Hf) as (r & Hr & Ht). rewrite Hr, Ht, Heq in H. discriminate.
Qed.

Lemma if_err_ok (c : bool) : (if c then @Err unit EInvalid else Ok tt) = Ok tt -> c = false.
Proof. destruct c; [discriminate|reflexivity]. Qed.

Definition rules_part (proto : list record) : Prop :=
  all_or_none3 proto CartesianX CartesianY CartesianZ /\
  all_or_none3 proto SphericalAzimuth SphericalElevation SphericalRange /\
  all_or_none3 proto ColorRed ColorGreen ColorBlue /\
  (has proto CartesianX \/ has proto SphericalAzimuth) /\
  (has proto ReturnCount <-> has proto ReturnIndex) /\
  flag_rule proto CartesianInvalidState CartesianX 2 /\
  flag_rule proto SphericalInvalidState SphericalAzimuth 2 /\
  flag_rule proto IsColorInvalid ColorRed 1 /\
  flag_rule proto IsIntensityInvalid Intensity 1 /\
  flag_rule proto IsTimeStampInvalid TimeStamp 1 /\
  not_integer_rule proto SphericalAzimuth /\ not_integer_rule proto SphericalElevation /\
  integer_rule proto ReturnCount /\ integer_rule proto ReturnIndex /\
  integer_rule proto RowIndex /\ integer_rule proto ColumnIndex /\
  (forall p, In p proto -> range_ok (r_type p)) /\
  NoDup (map r_name proto) /\ nodup_names proto = true /\
  (forall p, In p proto -> float_range_ok (r_type p)).

Lemma float_limits_check_iff mn mx : float_limits_check mn mx = true <-> limits_ordered mn mx.
Proof.
  unfold float_limits_check, limits_ordered. split.
  - intros H. apply andb_prop in H as [H H3]. apply andb_prop in H as [H1 H2].
    assert (N1 : forall a, mn = Some a -> not_nan a).
    { intros a ->. unfold not_nan. destruct (f64_is_nan a); [discriminate|reflexivity]. }
    assert (N2 : forall b, mx = Some b -> not_nan b).
    { intros b ->. unfold not_nan. destruct (f64_is_nan b); [discriminate|reflexivity]. }
    split; [exact N1|]. split; [exact N2|]. intros a b Ea Eb. pose proof (N1 a Ea) as Na. pose proof (N2 b Eb) as Nb. subst.
    rewrite (f64_gt_lt a b Na Nb) in H1. apply f64_not_lt_le; try assumption.
    destruct (f64_lt b a); [discriminate|reflexivity].
  - intros (N1 & N2 & Hle). apply andb_true_intro. split; [apply andb_true_intro; split|].
    + destruct mn as [a|], mx as [b|]; try reflexivity. pose proof (N1 a eq_refl) as Na. pose proof (N2 b eq_refl) as Nb.
      rewrite (f64_gt_lt a b Na Nb). specialize (Hle a b eq_refl eq_refl). apply (f64_le_key a b Na Nb) in Hle.
      destruct (f64_lt b a) eqn:E; [|reflexivity]. apply (f64_lt_key b a Nb Na) in E. contradiction.
    + destruct mn as [a|]; [|reflexivity]. rewrite (N1 a eq_refl). reflexivity.
    + destruct mx as [b|]; [|reflexivity]. rewrite (N2 b eq_refl). reflexivity.
Qed.
Lemma float_limits_ok_iff t : float_limits_ok t = true <-> float_range_ok t.
Proof. destruct t; cbn [float_limits_ok float_range_ok]; try apply float_limits_check_iff; tauto. Qed.

Lemma in_contains proto p : In p proto -> contains proto (r_name p) = true.
Proof. intros H. apply contains_has. exists (r_type p). destruct p; exact H. Qed.

Lemma nodup_names_NoDup : forall proto, nodup_names proto = true -> NoDup (map r_name proto).
Proof.
  induction proto as [|p r IH]; cbn [nodup_names map]; intros H; [constructor|].
  apply andb_prop in H as [H1 H2]. constructor; [|apply IH; exact H2].
  intros Hin. apply in_map_iff in Hin as (q & Hq & Hin).
  pose proof (in_contains _ _ Hin) as Hc. rewrite Hq in Hc. rewrite Hc in H1. discriminate.
Qed.

Lemma nodup_get_rec : forall proto p, nodup_names proto = true -> In p proto ->
  get_rec proto (r_name p) = Some p.
Proof.
  induction proto as [|q r IH]; intros p H Hin; [destruct Hin|].
  cbn [nodup_names] in H. apply andb_prop in H as [H1 H2]. cbn [get_rec find].
  destruct Hin as [->|Hin].
  - rewrite (proj2 (name_eqb_eq (r_name p) (r_name p)) eq_refl). reflexivity.
  - destruct (name_eqb (r_name q) (r_name p)) eqn:E.
    + apply name_eqb_eq in E. pose proof (in_contains _ _ Hin) as Hc. rewrite <- E in Hc.
      rewrite Hc in H1. discriminate.
    + apply IH; assumption.
Qed.

Lemma validate_prototype_ok proto : validate_prototype proto = Ok tt -> rules_part proto.
Proof.
  unfold validate_prototype. intros H.
  apply seq_res_ok in H as [Hc H]. apply seq_res_ok in H as [Hs H].
  apply seq_res_ok in H as [Hco H]. apply seq_res_ok in H as [Hcol H].
  apply seq_res_ok in H as [Hret H]. apply seq_res_ok in H as [Hnd H]. apply seq_res_ok in H as [Hrng H].
  apply seq_res_ok in H as [Hflt H]. apply seq_res_ok in H as [Hrow H]. apply seq_res_ok in H as [Hcl H].
  apply seq_res_ok in H as [Hii Hts].
  unfold validate_cartesian in Hc. cbv zeta in Hc.
  destruct (negb (count3 proto CartesianX CartesianY CartesianZ =? 0) && _) eqn:Ec; [discriminate|].
  unfold validate_spherical in Hs. cbv zeta in Hs.
  apply seq_res_ok in Hs as [Hs1 Hs]. apply seq_res_ok in Hs as [Hs2 Hs]. apply seq_res_ok in Hs as [Hs3 Hs4].
  destruct (negb (count3 proto SphericalAzimuth SphericalElevation SphericalRange =? 0) && _) eqn:Es; [discriminate|].
  unfold validate_color in Hcol. cbv zeta in Hcol. apply seq_res_ok in Hcol as [Hk1 Hk2].
  destruct (negb (count3 proto ColorRed ColorGreen ColorBlue =? 0) && _) eqn:Ek; [discriminate|].
  unfold validate_return in Hret. apply seq_res_ok in Hret as [Hr1 Hret]. apply seq_res_ok in Hret as [Hr2 Hr3].
  apply if_err_ok in Hco, Hr3.
  unfold rules_part.
  split; [apply count3_all_or_none; exact Ec|]. split; [apply count3_all_or_none; exact Es|].
  split; [apply count3_all_or_none; exact Ek|].
  split.
  { rewrite <- !contains_has.
    destruct (contains proto CartesianX); [left; reflexivity|].
    destruct (contains proto SphericalAzimuth); [right; reflexivity|discriminate]. }
  split.
  { rewrite <- !contains_has.
    destruct (contains proto ReturnCount), (contains proto ReturnIndex); cbn in Hr3; try discriminate; tauto. }
  split; [apply validate_flag_ok; exact Hc|]. split; [apply validate_flag_ok; exact Hs2|].
  split; [apply validate_flag_ok; exact Hk2|]. split; [apply validate_flag_ok; exact Hii|].
  split; [apply validate_flag_ok; exact Hts|].
  split; [apply not_integer_if_present_ok; exact Hs3|]. split; [apply not_integer_if_present_ok; exact Hs4|].
  split; [apply integer_if_present_ok; exact Hr1|]. split; [apply integer_if_present_ok; exact Hr2|].
  split; [apply integer_if_present_ok; exact Hrow|]. split; [apply integer_if_present_ok; exact Hcl|].
  destruct (nodup_names proto) eqn:End; [|discriminate].
  split; [|split; [apply nodup_names_NoDup; exact End|split; [reflexivity|]]].
  2:{ intros p Hin. destruct (forallb (fun p => float_limits_ok (r_type p)) proto) eqn:Ef; [|discriminate].
      rewrite forallb_forall in Ef. apply float_limits_ok_iff. apply Ef. exact Hin. }
  intros p Hin.
  destruct (forallb (fun p => range_nonempty (r_type p)) proto) eqn:Ef; [|discriminate].
  rewrite forallb_forall in Ef. specialize (Ef p Hin).
  unfold range_nonempty in Ef. unfold range_ok. destruct (r_type p); try exact I; lia.
Qed.

(** every record that feeds an index bound has an integer type: the rule check looks at
    the first record of a name, and names do not repeat *)
Definition idx_typed (proto : list record) : Prop :=
  forall p, In p proto ->
    match axis_of (r_name p) with
    | Some (AxI _) => exists mn mx, r_type p = DInteger mn mx
    | _ => True
    end.

Lemma accepted_idx_typed proto : validate_prototype proto = Ok tt -> idx_typed proto.
Proof.
  intros H. apply validate_prototype_ok in H.
  destruct H as (_ & _ & _ & _ & _ & _ & _ & _ & _ & _ & _ & _ & _ & Hri & Hrow & Hcol & _ & _ & Hnd & _).
  intros p Hin. pose proof (nodup_get_rec proto p Hnd Hin) as Hg.
  destruct (get_rec_first _ _ _ Hg) as (_ & Hf).
  destruct (r_name p) eqn:En; cbn [axis_of]; try exact I.
  - apply (Hrow _ Hf).
  - apply (Hcol _ Hf).
  - apply (Hri _ Hf).
Qed.

(** ** extension names *)

Lemma validate_name_ok s : validate_name s = Ok tt -> name_wf s.
Proof.
  unfold validate_name, name_wf. destruct s as [|c r]; [discriminate|].
  destruct (starts_with_xml (c :: r)) eqn:Ex; [discriminate|].
  destruct (forallb name_char (c :: r)) eqn:Ef; [|discriminate]. intros _.
  split; [discriminate|]. split.
  - intros (a & b & c' & r' & Hs & Ha & Hb & Hc). rewrite Hs in Ex. cbn [starts_with_xml] in Ex.
    unfold ascii_lower in Ex.
    destruct Ha as [-> | ->], Hb as [-> | ->], Hc as [-> | ->]; cbn in Ex; discriminate.
  - apply Forall_forall. intros b Hb. rewrite forallb_forall in Ef. specialize (Ef b Hb).
    unfold name_char, is_alnum in Ef. unfold allowed_char. lia.
Qed.

Lemma validate_name_start_ok s : validate_name_start s = Ok tt -> name_start_ok s.
Proof.
  unfold validate_name_start, name_start_ok. intros H c r ->.
  destruct ((48 <=? c) && (c <=? 57) || (c =? 45)) eqn:E; [discriminate|]. lia.
Qed.

Lemma ext_registered_ok exts ns : ext_registered exts ns = true -> registered exts ns.
Proof.
  unfold ext_registered, registered. rewrite existsb_exists. intros (e & Hin & He).
  apply xs_eqb_eq in He. destruct e as [n u]. cbn in He. subst n. exists u. exact Hin.
Qed.

Lemma ext_validate_prototype_ok : forall proto exts, ext_validate_prototype proto exts = Ok tt ->
  forall ns name t, In (mkRecord (Unknown ns name) t) proto ->
    name_wf ns /\ name_wf name /\ name_start_ok name /\ registered exts ns.
Proof.
  induction proto as [|p pr IH]; intros exts H ns name t Hin; [destruct Hin|].
  cbn [ext_validate_prototype] in H.
  destruct Hin as [Hp|Hin].
  - subst p. cbn [r_name] in H.
    destruct (validate_name ns) as [[]|k|] eqn:E1; try discriminate.
    destruct (validate_name name) as [[]|k|] eqn:E2; try discriminate.
    destruct (validate_name_start name) as [[]|k|] eqn:E3; try discriminate.
    destruct (ext_registered exts ns) eqn:E4; [|discriminate].
    split; [apply validate_name_ok; exact E1|]. split; [apply validate_name_ok; exact E2|].
    split; [apply validate_name_start_ok; exact E3|apply ext_registered_ok; exact E4].
  - refine (IH exts _ ns name t Hin).
    destruct (r_name p); try exact H.
    destruct (validate_name namespace) as [[]|k|]; try discriminate.
    destruct (validate_name name0) as [[]|k|]; try discriminate.
    destruct (validate_name_start name0) as [[]|k|]; try discriminate.
    destruct (ext_registered exts namespace); [exact H|discriminate].
Qed.

(** ** capacity *)

Lemma len_proto_dtypes proto : len (proto_dtypes proto) = len proto.
Proof. unfold proto_dtypes, len. rewrite map_length. reflexivity. Qed.

Lemma capacity_fits proto mpp : get_max_packet_points (proto_dtypes proto) = Ok mpp -> fits_packet proto.
Proof.
  intros H. apply max_packet_points_facts in H as (H1 & H2 & H3).
  unfold fits_packet, point_bits_of. fold (point_bits (proto_dtypes proto)).
  rewrite len_proto_dtypes in H3. set (pb := point_bits (proto_dtypes proto)) in *. set (n := len proto) in *.
  assert (pb <= mpp * pb) by nia.
  split; [lia|]. lia.
Qed.

(** ** values *)

Lemma values_ok_representable : forall proto vs,
  values_ok (proto_dtypes proto) vs = true -> representable_point proto vs.
Proof.
  unfold representable_point.
  induction proto as [|p pr IH]; intros [|v vr] H; cbn [proto_dtypes map values_ok] in H; try discriminate.
  - constructor.
  - apply andb_prop in H as [Hv Hr]. constructor; [|apply IH; exact Hr].
    unfold rec_dtype in Hv. unfold representable_value.
    destruct (r_type p); cbn [dtype_of] in Hv; destruct v; try discriminate; eauto.
    + exists v. split; [reflexivity|lia].
    + exists v. split; [reflexivity|lia].
Qed.

(** * Facts about accepted prototypes used by the invariant *)

Lemma accepted_has_coordinates proto : validate_prototype proto = Ok tt ->
  contains proto CartesianX = true \/ contains proto SphericalAzimuth = true.
Proof.
  intros H. apply validate_prototype_ok in H as (_ & _ & _ & H & _).
  rewrite !contains_has. exact H.
Qed.

Definition proto_i64 (proto : list record) : Prop :=
  forall p, In p proto ->
    match r_type p with
    | DInteger mn mx | DScaledInteger mn mx _ _ => in_i64 mn = true /\ in_i64 mx = true
    | _ => True
    end.

Lemma accepted_type_ok proto : validate_prototype proto = Ok tt -> proto_i64 proto ->
  forallb type_ok (proto_dtypes proto) = true.
Proof.
  intros H Hw. apply validate_prototype_ok in H.
  destruct H as (_ & _ & _ & _ & _ & _ & _ & _ & _ & _ & _ & _ & _ & _ & _ & _ & Hr & _).
  unfold proto_dtypes. rewrite forallb_forall. intros t Ht. apply in_map_iff in Ht as (p & Hp & Hin).
  subst t. specialize (Hr p Hin). specialize (Hw p Hin). unfold rec_dtype, range_ok in *.
  destruct (r_type p); cbn [dtype_of type_ok]; try reflexivity;
    destruct Hw as [-> ->]; cbn [andb]; lia.
Qed.

Lemma accepted_color_limits proto : validate_prototype proto = Ok tt ->
  exists cl, default_color_limits proto = Ok cl.
Proof.
  intros H. apply validate_prototype_ok in H as (_ & _ & Hk & _).
  unfold default_color_limits. destruct (contains proto ColorRed) eqn:E; [|eauto].
  apply contains_has in E. destruct Hk as [(H1 & H2 & H3)|(H1 & _)]; [|contradiction].
  destruct (get_rec proto ColorRed) eqn:E1; [|apply get_rec_none in E1; contradiction].
  destruct (get_rec proto ColorGreen) eqn:E2; [|apply get_rec_none in E2; contradiction].
  destruct (get_rec proto ColorBlue) eqn:E3; [|apply get_rec_none in E3; contradiction].
  eauto.
Qed.

(** every record that feeds a bound finds its bounds structure *)
Definition bounds_cover (proto : list record) (b : run_bounds) : Prop :=
  forall p, In p proto ->
    match axis_of (r_name p) with
    | Some (AxF a) => fget a b <> None
    | Some (AxI a) => iget a b <> None
    | None => True
    end.

Lemma bounds_new_cover proto : validate_prototype proto = Ok tt -> bounds_cover proto (bounds_new proto).
Proof.
  intros H. apply validate_prototype_ok in H as (Hc & Hs & _).
  intros p Hin. pose proof (in_contains _ _ Hin) as Hcp.
  assert (Cx : (has proto CartesianX \/ has proto CartesianY \/ has proto CartesianZ) -> contains proto CartesianX = true).
  { intros Hh. apply contains_has. destruct Hc as [(H1 & _)|(H1 & H2 & H3)]; [exact H1|tauto]. }
  assert (Sx : (has proto SphericalAzimuth \/ has proto SphericalElevation \/ has proto SphericalRange) ->
               contains proto SphericalAzimuth = true).
  { intros Hh. apply contains_has. destruct Hs as [(H1 & _)|(H1 & H2 & H3)]; [exact H1|tauto]. }
  apply contains_has in Hcp.
  unfold bounds_new. destruct (r_name p) eqn:En; cbn [axis_of]; try exact I; cbn [fget iget rb_cart rb_sph rb_idx].
  - rewrite Cx by tauto. discriminate.
  - rewrite Cx by tauto. discriminate.
  - rewrite Cx by tauto. discriminate.
  - rewrite Sx by tauto. discriminate.
  - rewrite Sx by tauto. discriminate.
  - rewrite Sx by tauto. discriminate.
  - apply contains_has in Hcp. rewrite Hcp, !orb_true_r. discriminate.
  - apply contains_has in Hcp. rewrite Hcp, orb_true_r. discriminate.
  - apply contains_has in Hcp. rewrite Hcp. discriminate.
Qed.
