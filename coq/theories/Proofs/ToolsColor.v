(** C20, colours: an 8-bit colour written by e57-from-xyz (Integer 0..255,
    colour limits 0/255 derived by the writer) is normalised by the simple
    iterator to (v - 0) / 255 as f32 and printed by e57-to-xyz as
    [(c * 255.) as u8]: for each of the 256 values the truncation gives v
    again.  Finite domain, by computation on Flocq's binary32/binary64. *)
From Coq Require Import ZArith NArith Bool List Lia ZifyN ZifyNat ZifyBool.
From Flocq Require Import Binary Bits.
From E57 Require Import Base.Prelude Base.Floats Model.Normalize Model.Tools.

Definition res_eqZ (r : res Z) (z : Z) : bool := match r with Ok v => Z.eqb v z | _ => false end.

Lemma color_path_256 :
  forallb (fun n => res_eqZ (color_path (N.of_nat n)) (Z.of_nat n)) (seq 0 256) = true.
Proof. vm_compute. reflexivity. Qed.

Theorem color_path_u8 : forall v : N, v < 256 -> color_path v = Ok (Z.of_N v).
Proof.
  intros v Hv. pose proof color_path_256 as H. rewrite forallb_forall in H.
  specialize (H (N.to_nat v)). rewrite N2Nat.id in H.
  assert (Hin : In (N.to_nat v) (seq 0 256)) by (apply in_seq; lia).
  specialize (H Hin). unfold res_eqZ in H.
  destruct (color_path v) as [z| |]; try discriminate H.
  apply Z.eqb_eq in H. rewrite H. f_equal. lia.
Qed.

(** the colour the iterator delivers exists, and its printed value is [v] *)
Corollary color_value_u8 : forall v : N, v < 256 ->
  exists c, color_value v = Ok c /\ to_u8_color c = Z.of_N v.
Proof.
  intros v Hv. pose proof (color_path_u8 v Hv) as H. unfold color_path in H.
  destruct (color_value v) as [c| |]; try discriminate H.
  exists c. split; [reflexivity|]. cbn [res_map] in H. congruence.
Qed.

(** the boundary: 256 is outside the prototype's range; it would saturate *)
Example color_path_256_saturates : color_path 256 = Ok 255%Z.
Proof. vm_compute. reflexivity. Qed.

(** decimal text of a u8 parses back ([u8::to_string] / [u8::from_str]) *)
Lemma dec_parse_u8_256 :
  forallb (fun n => match parse_u8 (dec_N (N.of_nat n)) with Some v => v =? N.of_nat n | None => false end)
          (seq 0 256) = true.
Proof. vm_compute. reflexivity. Qed.

Theorem dec_parse_u8 : forall v : N, v < 256 -> parse_u8 (dec_N v) = Some v.
Proof.
  intros v Hv. pose proof dec_parse_u8_256 as H. rewrite forallb_forall in H.
  specialize (H (N.to_nat v)). rewrite N2Nat.id in H.
  assert (Hin : In (N.to_nat v) (seq 0 256)) by (apply in_seq; lia).
  specialize (H Hin). destruct (parse_u8 (dec_N v)) as [w|]; try discriminate H.
  apply N.eqb_eq in H. congruence.
Qed.

(** [u8::from_str] never yields more than 255 *)
Lemma u8_digits_lt : forall l acc v, acc < 256 -> u8_digits acc l = Some v -> v < 256.
Proof.
  induction l as [|b r IH]; intros acc v Ha H; cbn [u8_digits] in H.
  - congruence.
  - destruct (digit_of b) as [d|]; [|discriminate].
    destruct (255 <? acc * 10 + d) eqn:E; [discriminate|].
    apply (IH (acc * 10 + d)); [lia|exact H].
Qed.

Theorem parse_u8_lt : forall s v, parse_u8 s = Some v -> v < 256.
Proof.
  intros s v H. unfold parse_u8 in H.
  destruct s as [|b [|b1 r]]; [discriminate| |].
  - destruct ((b =? 43) || (b =? 45)); [discriminate|]. eapply u8_digits_lt; [|exact H]. lia.
  - destruct (b =? 43); eapply u8_digits_lt; try exact H; lia.
Qed.

Example parse_u8_examples :
  parse_u8 [50;53;53] = Some 255 /\ parse_u8 [50;53;54] = None /\ parse_u8 [43;48;48;55] = Some 7 /\
  parse_u8 [43] = None /\ parse_u8 [45;48] = None /\ parse_u8 [] = None /\ parse_u8 [49;32] = None /\
  parse_u8 [48;48;48;48;48;48;48;48;48;48;48;48;49] = Some 1.
Proof. vm_compute. repeat split. Qed.
