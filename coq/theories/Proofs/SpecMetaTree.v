(** C03 with no hypothesis about the extractor or about the tree: the XML
    text is ANY rendering of the tree of ANY metadata value the two XML
    slices accept ([tree_of_wf] of slice xg: the tree is renderable;
    [extract_tree_of] of slice xe: the reader's extractors return the reader's
    view of the metadata), the binary sections are ANY legal file layout whose
    placements the metadata states, and the FULL reader ([ReaderFull.reader_new]:
    header, pages, UTF-8 check, nesting-depth guard, parser, extractors) returns
    that metadata and, for every descriptor in it, the encoded points / bytes. *)
From Coq Require Import Permutation.
From E57 Require Import Base.Prelude Model.Device Model.PagedReader Model.Record Model.Prog
  Model.QueueReader Model.FileBin Model.ReaderOpen Model.Meta Model.MetaFile Model.XmlTree
  Model.XmlParse Model.XmlDepth Model.XmlExtract Model.ReaderFull
  Spec.BitSpec Spec.PageSpec Spec.FormatSpec Spec.FileSpec Spec.FileSpecXml
  Spec.XmlRender Spec.MetaTree Spec.XeMetaOk Spec.XgWriterOk.
From E57 Require Import Proofs.PagedReaderCache Proofs.XmlpRoundtripDoc Proofs.XeTreeMain Proofs.XgWf
  Proofs.XeDepthTree Proofs.SpecReader Proofs.SpecXml Proofs.SpecXmlExample.
Open Scope N_scope.

Lemma meta_descriptors_reader_view m : meta_descriptors (reader_view m) = meta_descriptors m.
Proof. reflexivity. Qed.

Theorem spec_file_read_any_producer :
  forall (pf64 pf32 : xstr -> option N) (fdiv : N -> Z -> N)
         (fl : file_layout) (m : file_meta) (c : render_choices),
  file_layout_ok fl = true ->
  writer_meta_ok m = true -> meta_xml_ok m = true ->          (* slice xg: the tree of m is renderable *)
  XeMetaOk.meta_ok m = true -> float_oracle_ok pf64 pf32 m = true ->   (* slice xe: extraction inverts tree_of *)
  let x := render c (tree_of m) in
  forallb (fun b => b <? 256) x && utf8_valid x = true ->     (* the rendering is UTF-8 (the strings of m are) *)
  Permutation (meta_descriptors m) (layout_descriptors 48 fl (len x)) ->   (* m states the placements *)
  len x <= MAX_XML_SIZE ->
  len (spec_encode_file fl x) < 2 ^ 64 ->
  let f := spec_encode_file fl x in
  exists rs d',
    reader_new pf64 pf32 fdiv (dev_init f None)
    = (d', Ok (rs, mkHeader 1 0 (len f) (phys_of_log (xml_start 48 fl (len x))) (len x) 1024, x, reader_view m)) /\
    pr_inv 1024 f rs /\
    forall d, In d (meta_descriptors (reader_view m)) ->
      exists cnt, In (d, cnt) (combine (layout_descriptors 48 fl (len x)) (layout_contents fl)) /\
                  desc_reads rs d cnt.
Proof.
  intros pf64 pf32 fdiv fl m c Hok Hw Hxo Hmo Hfo x Hutf Hperm Hxl Hsize f.
  pose proof (tree_of_wf m Hw Hxo) as Hwf.
  pose proof (extract_tree_of pf64 pf32 fdiv m Hmo Hfo) as Hext.
  rewrite <- meta_descriptors_reader_view in Hperm.
  destruct (spec_file_read_any_rendering pf64 pf32 fdiv fl (tree_of m) (reader_view m) c Hok Hwf Hext Hperm Hxl Hsize)
    as (rs & d' & Hopen & Hinv & Hparse & _ & Hread).
  exists rs, d'. split; [|split; [exact Hinv|exact Hread]].
  unfold reader_new. fold x f in Hopen, Hparse. rewrite Hopen.
  unfold ReaderFull.xml_meta. rewrite Hutf. cbn [negb].
  pose proof (tree_of_depth_ok c m Hwf) as Hd. fold x in Hd. rewrite Hd. cbn [negb].
  rewrite Hparse, Hext. reflexivity.
Qed.

(** Non-vacuity: the metadata of Proofs/SpecXmlExample.v (an image blob of 1019 bytes, a point
    cloud with a 0-bit, an 11-bit and a 64-bit record in a layout with index and ignored packets),
    in the writer's rendering and in a very different one. *)
Example spec_file_read_any_producer_instance : forall c, c = writer_choices \/ c = RenderInstance.other_choices ->
  let m := RenderInstance.meta2 in
  let x := render c (tree_of m) in
  let f := spec_encode_file RenderInstance.fl x in
  exists rs d',
    reader_new XmlInstance.pf XmlInstance.pf XmlInstance.fd (dev_init f None)
    = (d', Ok (rs, mkHeader 1 0 (len f) (phys_of_log (xml_start 48 RenderInstance.fl (len x))) (len x) 1024, x, reader_view m)) /\
    pr_inv 1024 f rs /\
    forall d, In d (meta_descriptors (reader_view m)) ->
      exists cnt, In (d, cnt) (combine (layout_descriptors 48 RenderInstance.fl (len x)) (layout_contents RenderInstance.fl)) /\
                  desc_reads rs d cnt.
Proof.
  intros c Hc. cbv zeta.
  apply (spec_file_read_any_producer XmlInstance.pf XmlInstance.pf XmlInstance.fd RenderInstance.fl RenderInstance.meta2 c).
  - vm_compute. reflexivity.
  - vm_compute. reflexivity.
  - vm_compute. reflexivity.
  - vm_compute. reflexivity.
  - vm_compute. reflexivity.
  - destruct Hc as [-> | ->]; vm_compute; reflexivity.
  - destruct Hc as [-> | ->]; vm_compute; apply perm_swap.
  - destruct Hc as [-> | ->]; vm_compute; discriminate.
  - destruct Hc as [-> | ->]; vm_compute; reflexivity.
Qed.

Print Assumptions spec_file_read_any_producer.
Print Assumptions spec_file_read_any_producer_instance.
