(** Slice "xg": totality of the XML generator.  [serialize_root] has exactly one
    failure: the empty file GUID ([Error::Invalid]); nothing in it can panic
    (no arithmetic, no indexing: it only concatenates strings). *)
From E57 Require Import Base.Prelude Model.Meta Model.MetaFile Model.XmlGen.
Local Open Scope N_scope.

Lemma pointclouds_xml_total : forall l, exists bs, pointclouds_xml l = Ok bs.
Proof.
  induction l as [|pc r [bs IH]]; [now exists []|].
  cbn [pointclouds_xml]. unfold pointcloud_xml at 1. cbn [res_bind]. rewrite IH. cbn [res_bind].
  eexists. reflexivity.
Qed.

(** [gen_total]: with a non-empty file GUID the generator returns bytes *)
Theorem gen_total : forall m, rt_guid (fm_root m) <> [] -> exists bs, gen_root m = Ok bs.
Proof.
  intros m Hg. unfold gen_root, serialize_root.
  destruct (rt_guid (fm_root m)) as [|g0 gr]; [congruence|].
  destruct (pointclouds_xml_total (fm_pointclouds m)) as [pcs Hp]. rewrite Hp. cbn [res_bind].
  eexists. reflexivity.
Qed.

(** the only error is [Invalid], exactly for the empty GUID; never a panic *)
Theorem gen_root_cases : forall m,
  (rt_guid (fm_root m) = [] /\ gen_root m = Err EInvalid) \/
  (rt_guid (fm_root m) <> [] /\ exists bs, gen_root m = Ok bs).
Proof.
  intro m. destruct (rt_guid (fm_root m)) as [|g0 gr] eqn:E.
  - left. split; [reflexivity|]. unfold gen_root, serialize_root. rewrite E. reflexivity.
  - right. split; [discriminate|]. apply gen_total. rewrite E. discriminate.
Qed.

Corollary gen_never_panics : forall m, gen_root m <> Panic.
Proof.
  intro m. destruct (gen_root_cases m) as [[_ H]|[_ [bs H]]]; rewrite H; discriminate.
Qed.

Example gen_total_example :
  exists bs, gen_root (mkFileMeta (mkRoot [] [103] 1 0 None None None) [] [] []) = Ok bs.
Proof. apply gen_total. discriminate. Qed.

Example gen_empty_guid :
  gen_root (mkFileMeta (mkRoot [] [] 1 0 None None None) [] [] []) = Err EInvalid.
Proof. reflexivity. Qed.

Print Assumptions gen_total.
Print Assumptions gen_root_cases.
