(** [view] is defined: on a raw point whose values have the constructors of
    their prototype records (what the queue reader delivers), whose
    invalid-state values lie in the documented sets, for a descriptor whose
    invalid-state / row / column records are integers and whose normalisation
    ranges are accepted by the constructor, [view] returns a point - no error
    and no panic (the [clamp] assertion of the normalisation cannot fire). *)
From Coq Require Import ZArith NArith Bool List Lia.
From Flocq Require Import Binary Bits.
From E57 Require Import Base.Prelude Base.Floats Model.BsRead Model.Record Model.Meta
  Model.Prog Model.QueueReader Model.Normalize Model.SimpleIter Spec.SimpleSpec Proofs.SimplePoint.
Local Open Scope res_scope.

(** * Accepted ranges are ordered: [clamp] does not panic *)

Lemma finite_compare (a b : binary64) : f64_is_finite a = true -> f64_is_finite b = true ->
  exists c, b64_compare a b = Some c.
Proof.
  unfold f64_is_finite, b64_compare. intros Ha Hb.
  rewrite (Bcompare_correct 53 1024 a b Ha Hb). eexists. reflexivity.
Qed.

Lemma from_min_max_ordered mn mx rg : from_min_max mn mx = Ok rg ->
  f64_le (rg_min rg) (rg_max rg) = true.
Proof.
  unfold from_min_max.
  destruct (f64_is_finite mn) eqn:Ha; cbn [negb orb]; [|discriminate].
  destruct (f64_is_finite mx) eqn:Hb; cbn [negb orb]; [|discriminate].
  destruct (f64_gt mn mx) eqn:Hg; [discriminate|]. intros H. injection H as <-. cbn [rg_min rg_max].
  destruct (finite_compare mn mx Ha Hb) as [c Hc]. unfold f64_gt, f64_le in *. rewrite Hc in *.
  destruct c; [reflexivity|reflexivity|discriminate].
Qed.

Definition range_wf (r : option range) : Prop :=
  match r with Some rg => f64_le (rg_min rg) (rg_max rg) = true | None => True end.

Lemma res_map_some_wf (r : res range) o : res_map Some r = Ok o ->
  (forall rg, r = Ok rg -> f64_le (rg_min rg) (rg_max rg) = true) -> range_wf o.
Proof.
  destruct r as [rg| |]; cbn [res_map]; try discriminate. intros H Hw. injection H as <-.
  exact (Hw rg eq_refl).
Qed.

Lemma from_limits_wf mn mx dt o : from_limits mn mx dt = Ok o -> range_wf o.
Proof.
  unfold from_limits, from_scaled. intros H.
  repeat match type of H with
         | context [match ?x with _ => _ end] => destruct x
         end;
    try (injection H as <-; exact I);
    (eapply res_map_some_wf; [exact H|]; intros rg Hrg; eapply from_min_max_ordered; exact Hrg).
Qed.

Lemma from_record_data_type_wf dt rg : from_record_data_type dt = Ok rg ->
  f64_le (rg_min rg) (rg_max rg) = true.
Proof.
  unfold from_record_data_type, from_scaled. destruct dt; intros H; eapply from_min_max_ordered; exact H.
Qed.

Lemma range_of_channel_wf ch o : range_of_channel ch = Ok o -> range_wf o.
Proof.
  unfold range_of_channel.
  destruct (from_limits (ch_lmin ch) (ch_lmax ch) (ch_type ch)) as [r| |] eqn:E; cbn [res_bind]; try discriminate.
  pose proof (from_limits_wf _ _ _ _ E) as Hw.
  destruct r as [rg|].
  - intros H. injection H as <-. exact Hw.
  - destruct (ch_type ch) as [dt|]; [|intros H; injection H as <-; exact I].
    intros H. eapply res_map_some_wf; [exact H|]. intros rg Hrg.
    eapply from_record_data_type_wf. exact Hrg.
Qed.

Lemma normalize_value_ok en v o : range_wf o -> exists x, normalize_value en v o = Ok x.
Proof.
  intros Hw. unfold normalize_value. destruct en; [|eexists; reflexivity].
  destruct o as [rg|]; [|eexists; reflexivity].
  unfold normalize, f64_clamp. cbn [range_wf] in Hw. rewrite Hw. cbn [res_bind]. eexists. reflexivity.
Qed.

(** * Typed raw points *)

Definition value_typed (r : record) (v : rvalue) : Prop := value_matches (dtype_of (r_type r)) v = true.
Definition raw_typed (pc : pointcloud) (raw : list rvalue) : Prop := Forall2 value_typed (pc_prototype pc) raw.

Lemma Forall2_len {X Y} (R : X -> Y -> Prop) la lb : Forall2 R la lb -> length la = length lb.
Proof. induction 1; cbn [length]; congruence. Qed.

Lemma raw_typed_length pc raw : raw_typed pc raw -> length raw = length (pc_prototype pc).
Proof. intros H. symmetry. eapply Forall2_len. exact H. Qed.

Lemma field_typed pc raw nm t v : raw_typed pc raw -> field pc raw nm = Some (t, v) ->
  value_matches (dtype_of t) v = true /\
  exists r, find_record (pc_prototype pc) nm = Some r /\ r_type r = t.
Proof.
  unfold raw_typed, field, find_record. intros HF. induction HF as [|r v' proto raw' Hrv HF IH].
  - discriminate.
  - cbn [combine find fst]. destruct (name_eqb (r_name r) nm).
    + cbn [option_map fst snd]. intros H. injection H as <- <-. split; [exact Hrv|].
      exists r. split; reflexivity.
    + exact IH.
Qed.

Lemma number_ok t v : value_matches (dtype_of t) v = true -> exists x, number (t, v) = Ok x.
Proof.
  destruct t, v; cbn [dtype_of value_matches]; try discriminate; intros _; unfold number; cbn [fst snd];
    eexists; reflexivity.
Qed.

Lemma integer_ok t v : value_matches (dtype_of t) v = true -> (match t with DInteger _ _ => True | _ => False end) ->
  exists z, v = VInteger z /\ integer (t, v) = Ok z.
Proof.
  destruct t, v; cbn [dtype_of value_matches]; try discriminate; intros _ H; try contradiction.
  eexists. split; reflexivity.
Qed.

Section Defined.
  Variables (fcos fsin fasin : binary64 -> binary64) (fatan2 : binary64 -> binary64 -> binary64).
  Variables (pc : pointcloud) (o : opts) (rgs : ranges) (raw : list rvalue).
  Hypothesis Htyped : raw_typed pc raw.
  Hypothesis Hrg : prepare_ranges pc = Ok rgs.
  Hypothesis Hint : index_records_are_integers pc = true.
  Hypothesis Hset : invalid_states_in_set pc raw = true.

  Lemma integer_record_type nm t v : integer_record pc nm = true -> field pc raw nm = Some (t, v) ->
    exists z, v = VInteger z /\ integer (t, v) = Ok z.
  Proof.
    intros Hi Hf. destruct (field_typed pc raw nm t v Htyped Hf) as (Hv & r & Hr & Ht).
    apply integer_ok; [exact Hv|]. unfold integer_record in Hi. rewrite Hr, Ht in Hi.
    destruct t; try discriminate. exact I.
  Qed.

  Lemma state_ok nm top : integer_record pc nm = true -> state_in pc raw nm top = true ->
    exists st, opt_integer (field pc raw nm) = Ok st /\
               match st with Some z => (0 <= z <= top)%Z | None => True end.
  Proof.
    intros Hi Hs. unfold state_in in Hs. destruct (field pc raw nm) as [[t v]|] eqn:Hf.
    - destruct (integer_record_type nm t v Hi Hf) as (z & -> & Hz).
      exists (Some z). cbn [opt_integer]. rewrite Hz. split; [reflexivity|]. lia.
    - exists None. split; [reflexivity|exact I].
  Qed.

  Lemma validity3_ok st : match st with Some z => (0 <= z <= 2)%Z | None => True end ->
    exists v, validity3 st = Ok v.
  Proof.
    destruct st as [z|]; [|eexists; reflexivity]. intros H. unfold validity3.
    destruct (z =? 0)%Z eqn:E0; [eexists; reflexivity|].
    destruct (z =? 1)%Z eqn:E1; [eexists; reflexivity|].
    destruct (z =? 2)%Z eqn:E2; [eexists; reflexivity|]. lia.
  Qed.

  Lemma validity2_ok st : match st with Some z => (0 <= z <= 1)%Z | None => True end ->
    exists v, validity2 st = Ok v.
  Proof.
    destruct st as [z|]; [|eexists; reflexivity]. intros H. unfold validity2.
    destruct (z =? 0)%Z eqn:E0; [eexists; reflexivity|].
    destruct (z =? 1)%Z eqn:E1; [eexists; reflexivity|]. lia.
  Qed.

  Lemma field_number_ok nm f : field pc raw nm = Some f -> exists x, number f = Ok x.
  Proof.
    destruct f as [t v]. intros Hf. destruct (field_typed pc raw nm t v Htyped Hf) as (Hv & _).
    apply number_ok. exact Hv.
  Qed.

  Lemma channel_number_ok c en nm f : field pc raw nm = Some f -> exists x, channel_number pc c en f = Ok x.
  Proof.
    intros Hf. rewrite (channel_number_eq pc rgs Hrg).
    destruct (field_number_ok nm f Hf) as [x ->]. cbn [res_bind].
    apply normalize_value_ok.
    destruct (ranges_of pc rgs Hrg) as (H0 & H1 & H2 & H3).
    destruct c; eapply range_of_channel_wf; eassumption.
  Qed.

  Lemma sets : state_in pc raw CartesianInvalidState 2 = true /\ state_in pc raw SphericalInvalidState 2 = true /\
               state_in pc raw IsColorInvalid 1 = true /\ state_in pc raw IsIntensityInvalid 1 = true.
  Proof.
    revert Hset. unfold invalid_states_in_set. rewrite !andb_true_iff. tauto.
  Qed.

  Lemma ints : integer_record pc CartesianInvalidState = true /\ integer_record pc SphericalInvalidState = true /\
               integer_record pc IsColorInvalid = true /\ integer_record pc IsIntensityInvalid = true /\
               integer_record pc RowIndex = true /\ integer_record pc ColumnIndex = true.
  Proof.
    revert Hint. unfold index_records_are_integers. rewrite !andb_true_iff. tauto.
  Qed.

  Lemma stored_cartesian_ok : exists c, stored_cartesian pc raw = Ok c.
  Proof.
    destruct sets as (Hs & _). destruct ints as (Hi & _).
    destruct (state_ok _ _ Hi Hs) as (st & Hst & Hr). unfold stored_cartesian. rewrite Hst. cbn [res_bind].
    destruct (field pc raw CartesianX) as [fx|] eqn:Ex; [|eexists; reflexivity].
    destruct (field pc raw CartesianY) as [fy|] eqn:Ey; [|eexists; reflexivity].
    destruct (field pc raw CartesianZ) as [fz|] eqn:Ez; [|eexists; reflexivity].
    destruct (validity3_ok st Hr) as [v ->]. cbn [res_bind].
    destruct (field_number_ok _ _ Ex) as [x ->], (field_number_ok _ _ Ey) as [y ->],
             (field_number_ok _ _ Ez) as [z ->].
    destruct v; cbn [res_bind]; eexists; reflexivity.
  Qed.

  Lemma stored_spherical_ok : exists s, stored_spherical pc raw = Ok s.
  Proof.
    destruct sets as (_ & Hs & _). destruct ints as (_ & Hi & _).
    destruct (state_ok _ _ Hi Hs) as (st & Hst & Hr). unfold stored_spherical. rewrite Hst. cbn [res_bind].
    destruct (field pc raw SphericalRange) as [fx|] eqn:Ex; [|eexists; reflexivity].
    destruct (field pc raw SphericalAzimuth) as [fy|] eqn:Ey; [|eexists; reflexivity].
    destruct (field pc raw SphericalElevation) as [fz|] eqn:Ez; [|eexists; reflexivity].
    destruct (validity3_ok st Hr) as [v ->]. cbn [res_bind].
    destruct (field_number_ok _ _ Ex) as [x ->], (field_number_ok _ _ Ey) as [y ->],
             (field_number_ok _ _ Ez) as [z ->].
    destruct v; cbn [res_bind]; eexists; reflexivity.
  Qed.

  Lemma view_color_stored_ok : exists c, view_color_stored pc o raw = Ok c.
  Proof.
    destruct sets as (_ & _ & Hs & _). destruct ints as (_ & _ & Hi & _).
    destruct (state_ok _ _ Hi Hs) as (st & Hst & Hr). unfold view_color_stored. rewrite Hst. cbn [res_bind].
    destruct (field pc raw ColorRed) as [fx|] eqn:Ex; [|eexists; reflexivity].
    destruct (field pc raw ColorGreen) as [fy|] eqn:Ey; [|eexists; reflexivity].
    destruct (field pc raw ColorBlue) as [fz|] eqn:Ez; [|eexists; reflexivity].
    destruct (validity2_ok st Hr) as [v ->]. cbn [res_bind].
    destruct v; [|eexists; reflexivity].
    destruct (channel_number_ok ChRed (o_nc o) _ _ Ex) as [x ->]. cbn [res_bind].
    destruct (channel_number_ok ChGreen (o_nc o) _ _ Ey) as [y ->]. cbn [res_bind].
    destruct (channel_number_ok ChBlue (o_nc o) _ _ Ez) as [z ->]. cbn [res_bind].
    eexists; reflexivity.
  Qed.

  Lemma view_intensity_ok : exists i, view_intensity pc o raw = Ok i.
  Proof.
    destruct sets as (_ & _ & _ & Hs). destruct ints as (_ & _ & _ & Hi & _).
    destruct (state_ok _ _ Hi Hs) as (st & Hst & Hr). unfold view_intensity. rewrite Hst. cbn [res_bind].
    destruct (field pc raw Intensity) as [fx|] eqn:Ex; [|eexists; reflexivity].
    destruct (validity2_ok st Hr) as [v ->]. cbn [res_bind].
    destruct v; [|eexists; reflexivity].
    destruct (channel_number_ok ChIntensity (o_ni o) _ _ Ex) as [x ->]. cbn [res_bind].
    eexists; reflexivity.
  Qed.

  Lemma view_index_ok nm : integer_record pc nm = true -> exists z, view_index pc raw nm = Ok z.
  Proof.
    intros Hi. unfold view_index. destruct (field pc raw nm) as [[t v]|] eqn:Hf; [|eexists; reflexivity].
    destruct (integer_record_type nm t v Hi Hf) as (z & _ & Hz). exists z. exact Hz.
  Qed.

  Theorem view_defined : exists p, view fcos fsin fasin fatan2 pc o raw = Ok p.
  Proof.
    unfold view.
    destruct stored_cartesian_ok as [c ->], stored_spherical_ok as [s ->],
             view_color_stored_ok as [col ->], view_intensity_ok as [i ->]. cbn [res_bind].
    destruct ints as (_ & _ & _ & _ & Hr & Hc).
    destruct (view_index_ok RowIndex Hr) as [row ->], (view_index_ok ColumnIndex Hc) as [column ->].
    cbn [res_bind]. eexists. reflexivity.
  Qed.
End Defined.
