(** Basic facts about the file-level specification (Spec/FileSpec.v): lengths
    and alignment of the entries of a layout, the logical stream of an encoded
    file split at an entry, the padded stream that [spec_encode_file] paginates. *)
From E57 Require Import Base.Prelude Model.Record Spec.BitSpec Spec.PageSpec Spec.FormatSpec Spec.FileSpec.
From E57 Require Import Model.Prog Model.QueueReader Model.FileBin.
From E57 Require Import Proofs.PageSpecLemmas Proofs.PagedReaderProofs Proofs.QueueReaderLemmas
  Proofs.QueueReaderPacket Proofs.QueueReaderProofs Proofs.BlobProofs Proofs.FileRtWriter.
From Coq Require Import ZifyN ZifyNat ZifyBool.
Ltac Zify.zify_post_hook ::= Z.div_mod_to_equations.
Open Scope N_scope.

(** * Padding to four *)

Lemma pad4n_lt n : pad4n n < 4.
Proof. unfold pad4n. lia. Qed.

Lemma pad4n_aligned n : (n + pad4n n) mod 4 = 0.
Proof. unfold pad4n. lia. Qed.

Lemma pad4n_0 n : n mod 4 = 0 -> pad4n n = 0.
Proof. unfold pad4n. lia. Qed.

(** * Physical offsets *)

Lemma in_payload_phys_of_log y : in_payload (phys_of_log y) = true.
Proof. unfold in_payload, phys_of_log, PAYLOAD_SZ. lia. Qed.

Lemma phys_of_log_lt x y : x < y -> phys_of_log x < phys_of_log y.
Proof. unfold phys_of_log, PAYLOAD_SZ. lia. Qed.

Lemma phys_of_log_pages k : phys_of_log (k * 1020) = k * 1024.
Proof. unfold phys_of_log, PAYLOAD_SZ. lia. Qed.

(** * The pieces *)

Lemma spec_blob_section_eq data : spec_blob_section data = blob_section data.
Proof. reflexivity. Qed.

Lemma len_spec_blob_section data : len (spec_blob_section data) = 16 + len data + pad4n (len data).
Proof. rewrite spec_blob_section_eq, len_blob_section. reflexivity. Qed.

Lemma len_encode_section off lay : len (encode_section off lay) = 32 + len (section_body lay).
Proof.
  unfold encode_section. rewrite !len_app, !len_le_bytes.
  change (len [1; 0; 0; 0; 0; 0; 0; 0]) with 8. lia.
Qed.

Lemma spec_header_eq pl xo xl : spec_header pl xo xl = hdr pl xo xl.
Proof. reflexivity. Qed.

Lemma len_spec_header pl xo xl : len (spec_header pl xo xl) = 48.
Proof. reflexivity. Qed.

Lemma len_encode_fsection base s x : len (encode_fsection base s x) = fsec_len s (len x).
Proof.
  destruct s as [data pad|proto points lay pad|]; cbn [encode_fsection fsec_len].
  - rewrite len_app, len_spec_blob_section, len_zeros. reflexivity.
  - rewrite len_app, len_encode_section, len_zeros. reflexivity.
  - rewrite len_app, len_zeros. reflexivity.
Qed.

Lemma len_encode_fsections : forall fl base x, len (encode_fsections base fl x) = fsecs_len fl (len x).
Proof.
  induction fl as [|s r IH]; intros base x; [reflexivity|].
  cbn [encode_fsections fsecs_len]. rewrite len_app, len_encode_fsection, IH. reflexivity.
Qed.

Lemma fsection_ok_pc proto points lay pad : fsection_ok (FPc proto points lay pad) = true ->
  pad mod 4 = 0 /\ scene_ok proto points = true /\ legal proto points lay = true.
Proof.
  cbn [fsection_ok]. intros H. apply andb_prop in H as [H H3]. apply andb_prop in H as [H1 H2].
  split; [lia|]. split; assumption.
Qed.

Lemma fsec_len_mod4 s xl : fsection_ok s = true -> fsec_len s xl mod 4 = 0.
Proof.
  destruct s as [data pad|proto points lay pad|]; cbn [fsec_len]; intros H.
  - cbn [fsection_ok] in H. pose proof (pad4n_aligned (len data)). lia.
  - apply fsection_ok_pc in H as (Hp & _ & Hl). apply legal_spec in Hl as [Hl _].
    destruct (qlen_section_body _ _ Hl) as [_ Hb]. lia.
  - apply pad4n_aligned.
Qed.

Lemma fsecs_len_mod4 fl xl : forallb fsection_ok fl = true -> fsecs_len fl xl mod 4 = 0.
Proof.
  induction fl as [|s r IH]; [reflexivity|]. cbn [forallb fsecs_len]. intros H.
  apply andb_prop in H as [H1 H2]. pose proof (fsec_len_mod4 s xl H1). specialize (IH H2). lia.
Qed.

Lemma fsecs_len_app a b xl : fsecs_len (a ++ b) xl = fsecs_len a xl + fsecs_len b xl.
Proof. induction a as [|s r IH]; cbn [app fsecs_len]; [reflexivity|]. rewrite IH. lia. Qed.

Lemma encode_fsections_app : forall a b base x,
  encode_fsections base (a ++ b) x
  = encode_fsections base a x ++ encode_fsections (base + fsecs_len a (len x)) b x.
Proof.
  induction a as [|s r IH]; intros b base x; cbn [app encode_fsections fsecs_len].
  - rewrite N.add_0_r. reflexivity.
  - rewrite IH, <- app_assoc. do 3 f_equal. lia.
Qed.

(** * The XML entry *)

Lemma one_xml_split : forall fl, (length (filter is_xml fl) = 1)%nat ->
  exists l1 l2, fl = l1 ++ FXml :: l2 /\ filter is_xml l1 = [] /\ filter is_xml l2 = [].
Proof.
  induction fl as [|s r IH]; cbn [filter length]; [discriminate|].
  destruct s as [data pad|proto points lay pad|]; cbn [is_xml]; intros H.
  - destruct (IH H) as (l1 & l2 & -> & H1 & H2). exists (FBlob data pad :: l1), l2.
    cbn [app filter is_xml]. auto.
  - destruct (IH H) as (l1 & l2 & -> & H1 & H2). exists (FPc proto points lay pad :: l1), l2.
    cbn [app filter is_xml]. auto.
  - exists [], r. cbn [app filter length] in *. split; [reflexivity|]. split; [reflexivity|].
    destruct (filter is_xml r); [reflexivity|discriminate].
Qed.

Lemma xml_start_split : forall l1 l2 base xl, filter is_xml l1 = [] ->
  xml_start base (l1 ++ FXml :: l2) xl = base + fsecs_len l1 xl.
Proof.
  induction l1 as [|s r IH]; intros l2 base xl H; cbn [app xml_start fsecs_len].
  - lia.
  - destruct s as [data pad|proto points lay pad|]; cbn [filter is_xml] in H; try discriminate;
      rewrite IH by exact H; cbn [fsec_len]; lia.
Qed.

Lemma file_layout_ok_spec fl : file_layout_ok fl = true ->
  forallb fsection_ok fl = true /\ (length (filter is_xml fl) = 1)%nat.
Proof.
  unfold file_layout_ok. intros H. apply andb_prop in H as [H1 H2].
  split; [exact H1|]. apply Nat.eqb_eq. exact H2.
Qed.

(** * The stream that is paginated *)

Lemma pad_payload_zeros d k : len d + k <= pages_for (len d) * 1020 ->
  pad_payload (d ++ zeros k) = pad_payload d.
Proof.
  intros H. unfold pad_payload, PAYLOAD_SZ.
  assert (Hp : pages_for (len (d ++ zeros k)) = pages_for (len d)).
  { rewrite len_app, len_zeros. unfold pages_for, PAYLOAD_SZ in *. lia. }
  rewrite Hp, len_app, len_zeros, <- app_assoc. f_equal.
  rewrite <- zeros_add. f_equal. lia.
Qed.

Lemma paginate_zeros d k : len d + k <= pages_for (len d) * 1020 ->
  paginate (d ++ zeros k) = paginate d.
Proof.
  intros H. rewrite <- (paginate_pad (d ++ zeros k)), <- (paginate_pad d), pad_payload_zeros by exact H.
  reflexivity.
Qed.

(** the whole-page logical stream of an encoded file *)
Definition spec_file_stream (fl : file_layout) (x : list N) : list N := pad_payload (spec_file_log fl x).

Lemma len_spec_file_log fl x : len (spec_file_log fl x) = 48 + fsecs_len fl (len x).
Proof. unfold spec_file_log. cbv zeta. rewrite len_app, len_spec_header, len_encode_fsections. reflexivity. Qed.

Lemma spec_file_stream_eq fl x :
  spec_file_stream fl x
  = spec_header (pages_for (48 + fsecs_len fl (len x)) * 1024) (phys_of_log (xml_start 48 fl (len x))) (len x)
    ++ encode_fsections 48 fl x ++ zeros (spec_file_filler fl x).
Proof.
  unfold spec_file_stream, pad_payload, spec_file_filler, PAYLOAD_SZ. cbv zeta.
  unfold spec_file_log at 1. cbv zeta. rewrite len_encode_fsections, <- app_assoc. reflexivity.
Qed.

Lemma len_spec_file_stream fl x :
  len (spec_file_stream fl x) = pages_for (48 + fsecs_len fl (len x)) * 1020.
Proof. unfold spec_file_stream. rewrite len_pad_payload, len_spec_file_log. reflexivity. Qed.

Lemma spec_file_stream_mod fl x : len (spec_file_stream fl x) mod 1020 = 0.
Proof. rewrite len_spec_file_stream. lia. Qed.

Lemma spec_encode_file_stream fl x : spec_encode_file fl x = paginate (spec_file_stream fl x).
Proof. unfold spec_encode_file, spec_file_stream. rewrite paginate_pad. reflexivity. Qed.

Lemma strip_spec_encode_file fl x : strip_crc (spec_encode_file fl x) = spec_file_stream fl x.
Proof. unfold spec_encode_file. apply strip_paginate. Qed.

Lemma len_spec_encode_file fl x :
  len (spec_encode_file fl x) = pages_for (48 + fsecs_len fl (len x)) * 1024.
Proof. unfold spec_encode_file. rewrite len_paginate, len_spec_file_log. reflexivity. Qed.

Lemma spec_file_filler_eq fl x :
  spec_file_filler fl x = pages_for (48 + fsecs_len fl (len x)) * 1020 - (48 + fsecs_len fl (len x)).
Proof. unfold spec_file_filler. cbv zeta. rewrite len_spec_file_log. reflexivity. Qed.

(** the size bound in terms of the logical stream *)
Lemma spec_size_bound fl x : len (spec_encode_file fl x) < 2 ^ 64 ->
  phys_of_log (len (spec_file_stream fl x)) < 2 ^ 64.
Proof.
  rewrite len_spec_encode_file, len_spec_file_stream, phys_of_log_pages. exact (fun H => H).
Qed.
