(** Namespace bookkeeping for the XML round trip: the scope the parser model computes for a
    start tag equals the scope in the tree; attributes and declarations written by the
    renderer are sorted apart and resolved to the names in the tree. *)
From Coq Require Import Lia ZifyN ZifyNat ZifyBool.
From E57 Require Import Base.Prelude Model.XmlTree Model.XmlParse Spec.XmlRender Proofs.XmlpLex.

Local Open Scope N_scope.

(** * Equality tests *)
Lemma xstr_eqb_eq : forall a b, xstr_eqb a b = true <-> a = b.
Proof.
  induction a as [|x a IH]; intros [|y b]; cbn [xstr_eqb]; split; intros H; try reflexivity; try discriminate.
  - apply andb_true_iff in H. destruct H as [H1 H2]. apply N.eqb_eq in H1. apply IH in H2. congruence.
  - inversion H; subst. rewrite N.eqb_refl. cbn [andb]. apply IH. reflexivity.
Qed.

Lemma xstr_eqb_refl : forall a, xstr_eqb a a = true.
Proof. intros. apply xstr_eqb_eq. reflexivity. Qed.

Lemma xstr_eqb_neq : forall a b, xstr_eqb a b = false <-> a <> b.
Proof.
  intros a b. split; intros H.
  - intros E. apply xstr_eqb_eq in E. congruence.
  - destruct (xstr_eqb a b) eqn:E; [|reflexivity]. apply xstr_eqb_eq in E. contradiction.
Qed.

Lemma xstr_eqb_sym : forall a b, xstr_eqb a b = xstr_eqb b a.
Proof.
  intros a b. destruct (xstr_eqb a b) eqn:E.
  - apply xstr_eqb_eq in E. subst. symmetry. apply xstr_eqb_refl.
  - symmetry. apply xstr_eqb_neq. apply xstr_eqb_neq in E. congruence.
Qed.

Lemma opt_eqb_same : forall a b, opt_str_eqb a b = opt_eqb a b.
Proof. intros [a|] [b|]; reflexivity. Qed.

Lemma opt_eqb_eq : forall a b, opt_eqb a b = true <-> a = b.
Proof.
  intros [a|] [b|]; cbn [opt_eqb]; split; intros H; try reflexivity; try discriminate.
  - apply xstr_eqb_eq in H. congruence.
  - inversion H. apply xstr_eqb_refl.
Qed.

Lemma opt_eqb_sym : forall a b, opt_eqb a b = opt_eqb b a.
Proof. intros [a|] [b|]; cbn [opt_eqb]; try reflexivity. apply xstr_eqb_sym. Qed.

Lemma has_prefix_exists : forall p l, has_prefix p l = ns_exists p l.
Proof.
  intros p l. unfold has_prefix, ns_exists. induction l as [|d l IH]; cbn [existsb]; [reflexivity|].
  rewrite IH, opt_eqb_same. reflexivity.
Qed.

Lemma decl_eqb_eq : forall a b, decl_eqb a b = true -> a = b.
Proof.
  intros [pa ua] [pb ub] H. unfold decl_eqb in H. cbn [xns_prefix xns_uri] in H.
  apply andb_true_iff in H. destruct H as [H1 H2]. rewrite opt_eqb_same in H1.
  apply opt_eqb_eq in H1. apply xstr_eqb_eq in H2. congruence.
Qed.

Lemma scope_eqb_eq : forall a b, scope_eqb a b = true -> a = b.
Proof.
  induction a as [|x a IH]; intros [|y b] H; cbn [scope_eqb] in H; try reflexivity; try discriminate.
  apply andb_true_iff in H. destruct H as [H1 H2]. apply decl_eqb_eq in H1. apply IH in H2. congruence.
Qed.

(** * Scopes *)
Lemma ns_exists_app : forall p a b, ns_exists p (a ++ b) = ns_exists p a || ns_exists p b.
Proof. intros. unfold ns_exists. apply existsb_app. Qed.

Lemma distinct_not_in : forall d r x, has_prefix (xns_prefix d) r = false -> In x r -> opt_eqb (xns_prefix d) (xns_prefix x) = false.
Proof.
  intros d r x H Hx. rewrite has_prefix_exists in H. unfold ns_exists in H.
  destruct (opt_eqb (xns_prefix d) (xns_prefix x)) eqn:E; [|reflexivity].
  assert (existsb (fun d0 => opt_eqb (xns_prefix d0) (xns_prefix d)) r = true).
  { apply existsb_exists. exists x. split; [exact Hx|]. rewrite opt_eqb_sym. exact E. }
  congruence.
Qed.

Lemma inherit_spec : forall P acc, distinct_prefixes P = true ->
  inherit acc P = acc ++ filter (fun d => negb (has_prefix (xns_prefix d) acc)) P.
Proof.
  induction P as [|d r IH]; intros acc HP; cbn [inherit filter]; [rewrite app_nil_r; reflexivity|].
  cbn [distinct_prefixes] in HP. apply andb_true_iff in HP. destruct HP as [Hd Hr]. apply negb_true_iff in Hd.
  change (has_prefix (xns_prefix d) acc) with (ns_exists (xns_prefix d) acc).
  destruct (ns_exists (xns_prefix d) acc) eqn:E; cbn [negb].
  - apply IH. exact Hr.
  - rewrite (IH (acc ++ [d]) Hr). rewrite <- app_assoc. cbn [app]. f_equal. f_equal.
    apply filter_ext_in. intros x Hx. f_equal.
    rewrite !has_prefix_exists, ns_exists_app. unfold ns_exists at 2. cbn [existsb].
    rewrite (distinct_not_in d r x Hd Hx). rewrite !orb_false_r. reflexivity.
Qed.

Lemma find_own_spec : forall f k P sc own, find_own k f P sc = Some own ->
  exists k', (k <= k')%nat /\ own = firstn k' sc /\ scope_below own P = sc.
Proof.
  induction f as [|f IH]; intros k P sc own H; cbn [find_own] in H; [discriminate|].
  destruct (scope_eqb (scope_below (firstn k sc) P) sc) eqn:E.
  - inversion H; subst own. exists k. split; [lia|]. split; [reflexivity|]. apply scope_eqb_eq. exact E.
  - destruct (IH _ _ _ _ H) as (k' & A & B & C). exists k'. split; [lia|]. tauto.
Qed.

Lemma scope_eqb_refl : forall a, scope_eqb a a = true.
Proof.
  induction a as [|x a IH]; cbn [scope_eqb]; [reflexivity|]. rewrite IH. unfold decl_eqb.
  rewrite opt_eqb_same. rewrite (proj2 (opt_eqb_eq _ _) eq_refl), xstr_eqb_refl. reflexivity.
Qed.

(** the scope the parser computes is the scope in the tree *)
Lemma resolve_scope_own : forall P sc own,
  match P with Some p => distinct_prefixes p = true | None => True end ->
  own_decls P sc = Some own -> resolve_scope P own = sc.
Proof.
  intros P sc own HP H. destruct P as [p|]; cbn [own_decls resolve_scope] in *.
  - destruct (scope_eqb sc p) eqn:E.
    + inversion H; subst own. cbn [is_nil]. symmetry. apply scope_eqb_eq. exact E.
    + destruct (find_own_spec _ _ _ _ _ H) as (k & Hk & Ho & Hs).
      destruct own as [|d own'].
      * exfalso. unfold scope_below in Hs. cbn [app] in Hs.
        rewrite (filter_ext _ (fun _ => true)) in Hs by (intros; reflexivity).
        assert (filter (fun _ : xnsdecl => true) p = p) by (clear; induction p; cbn; congruence).
        rewrite H0 in Hs. subst p. rewrite scope_eqb_refl in E. discriminate.
      * cbn [is_nil]. rewrite inherit_spec by exact HP. exact Hs.
  - inversion H. reflexivity.
Qed.

Lemma lookup_distinct : forall sc d, distinct_prefixes sc = true -> In d sc ->
  lookup_ns (xns_prefix d) sc = Some (xns_uri d).
Proof.
  unfold lookup_ns. induction sc as [|x sc IH]; intros d Hd Hin; [contradiction|].
  cbn [distinct_prefixes] in Hd. apply andb_true_iff in Hd. destruct Hd as [Hx Hsc]. apply negb_true_iff in Hx.
  cbn [find]. destruct Hin as [E|Hin].
  - subst x. rewrite (proj2 (opt_eqb_eq _ _) eq_refl). reflexivity.
  - rewrite (distinct_not_in x sc d Hx Hin). apply IH; assumption.
Qed.

Lemma lookup_none : forall sc p, has_prefix p sc = false -> lookup_ns p sc = None.
Proof.
  unfold lookup_ns. intros sc p H. rewrite has_prefix_exists in H. unfold ns_exists in H.
  induction sc as [|x sc IH]; [reflexivity|]. cbn [existsb] in H. apply orb_false_iff in H. destruct H as [H1 H2].
  cbn [find]. rewrite H1. apply IH. exact H2.
Qed.

Lemma ncname_not_nil : forall s, ncname s = true -> is_nil s = false.
Proof. intros [|b r] H; [discriminate | reflexivity]. Qed.

Lemma decl_ok_in : forall sc d, forallb decl_ok sc = true -> In d sc -> decl_ok d = true.
Proof. intros sc d H Hin. rewrite forallb_forall in H. apply H. exact Hin. Qed.

Lemma decl_ok_prefix : forall d p, decl_ok d = true -> xns_prefix d = Some p ->
  ncname p = true /\ p <> s_xml /\ p <> s_xmlns.
Proof.
  intros d p H E. unfold decl_ok in H. rewrite E in H.
  repeat (apply andb_true_iff in H; destruct H as [H ?]).
  apply negb_true_iff in H3, H4. apply xstr_eqb_neq in H3, H4. repeat split; assumption.
Qed.

(** the element name *)
Lemma elem_name_resolves : forall sc ns pre,
  forallb decl_ok sc = true -> distinct_prefixes sc = true -> elem_prefix sc ns = Some pre ->
  ns_by_prefix (prefix_str pre) sc = Some ns /\ xstr_eqb (prefix_str pre) s_xmlns = false
  /\ match pre with Some p => ncname p = true | None => True end.
Proof.
  intros sc ns pre Hok Hd H. unfold elem_prefix in H. destruct ns as [u|].
  - destruct (find (fun d => xstr_eqb (xns_uri d) u) sc) as [d|] eqn:F; [|discriminate].
    inversion H; subst pre. apply find_some in F. destruct F as [Hin Hu]. apply xstr_eqb_eq in Hu.
    assert (L := lookup_distinct sc d Hd Hin). rewrite Hu in L.
    assert (Dk := decl_ok_in sc d Hok Hin).
    unfold ns_by_prefix. destruct (xns_prefix d) as [p|] eqn:Ep; cbn [prefix_str].
    + destruct (decl_ok_prefix d p Dk Ep) as (N1 & N2 & N3).
      rewrite (ncname_not_nil p N1). rewrite L. repeat split; [apply xstr_eqb_neq; exact N3 | exact N1].
    + cbn [is_nil]. rewrite L. repeat split.
  - destruct (has_prefix None sc) eqn:E; [discriminate|]. inversion H; subst pre.
    unfold ns_by_prefix. cbn [prefix_str is_nil]. rewrite (lookup_none sc None E). repeat split.
Qed.

(** * Attributes and declarations of a start tag *)
Definition raw_of_item (sc : list xnsdecl) (it : item) : raw_attr :=
  match it with
  | ItAttr a => mkRaw (prefix_str (or_default (attr_prefix sc (xn_ns (xa_name a))) None)) (xn_local (xa_name a)) (xa_value a)
  | ItDecl d => match xns_prefix d with
                | Some p => mkRaw s_xmlns p (xns_uri d)
                | None => mkRaw [] s_xmlns (xns_uri d)
                end
  end.

Fixpoint item_attrs (l : list item) : list xattr :=
  match l with [] => [] | ItAttr a :: r => a :: item_attrs r | ItDecl _ :: r => item_attrs r end.
Fixpoint item_decls (l : list item) : list xnsdecl :=
  match l with [] => [] | ItDecl d :: r => d :: item_decls r | ItAttr _ :: r => item_decls r end.

Lemma merge_items_split : forall m attrs decls,
  item_attrs (merge_items m attrs decls) = attrs /\ item_decls (merge_items m attrs decls) = decls.
Proof.
  assert (HA : forall attrs, item_attrs (map ItAttr attrs) = attrs /\ item_decls (map ItAttr attrs) = [])
    by (induction attrs as [|a l [I1 I2]]; cbn; split; congruence).
  assert (HD : forall decls, item_attrs (map ItDecl decls) = [] /\ item_decls (map ItDecl decls) = decls)
    by (induction decls as [|a l [I1 I2]]; cbn; split; congruence).
  assert (HB : forall attrs decls, item_attrs (map ItAttr attrs ++ map ItDecl decls) = attrs /\
                                   item_decls (map ItAttr attrs ++ map ItDecl decls) = decls).
  { induction attrs as [|a l IH]; intros decls; cbn [map app]; [apply HD|].
    destruct (IH decls) as [I1 I2]. cbn [item_attrs item_decls]. split; congruence. }
  induction m as [|[|] m IH]; intros attrs decls; cbn [merge_items].
  - apply HB.
  - destruct attrs as [|a ar]; [apply IH|]. destruct (IH ar decls) as [I1 I2]. cbn [item_attrs item_decls]. split; congruence.
  - destruct decls as [|d dr]; [apply IH|]. destruct (IH attrs dr) as [I1 I2]. cbn [item_attrs item_decls]. split; congruence.
Qed.

Definition attr_prefix_str (sc : list xnsdecl) (a : xattr) : xstr :=
  prefix_str (or_default (attr_prefix sc (xn_ns (xa_name a))) None).

Lemma attr_prefix_facts : forall sc a,
  forallb decl_ok sc = true -> distinct_prefixes sc = true -> attr_ok sc a = true ->
  let p := attr_prefix_str sc a in
  xstr_eqb p s_xmlns = false /\ xstr_eqb (xn_local (xa_name a)) s_xmlns = false
  /\ (if xstr_eqb p s_xml then Some (Some NS_XML_URI)
      else if is_nil p then Some None else ns_by_prefix p sc) = Some (xn_ns (xa_name a))
  /\ match attr_prefix sc (xn_ns (xa_name a)) with Some (Some q) => ncname q = true | Some None => True | None => False end.
Proof.
  intros sc a Hok Hd Ha. unfold attr_ok in Ha.
  apply andb_true_iff in Ha. destruct Ha as [Ha Hp]. apply andb_true_iff in Ha. destruct Ha as [Ha _].
  apply andb_true_iff in Ha. destruct Ha as [_ Hl]. apply negb_true_iff in Hl.
  unfold attr_prefix_str. cbv zeta. unfold attr_prefix in *.
  destruct (xn_ns (xa_name a)) as [u|].
  - destruct (xstr_eqb u NS_XML_URI) eqn:Eu.
    + apply xstr_eqb_eq in Eu. subst u. cbn [or_default prefix_str]. repeat split; try assumption; reflexivity.
    + destruct (find _ sc) as [d|] eqn:F; [|discriminate]. cbn [or_default].
      apply find_some in F. destruct F as [Hin Hu]. apply andb_true_iff in Hu. destruct Hu as [Hu Hpre].
      apply xstr_eqb_eq in Hu. destruct (xns_prefix d) as [q|] eqn:Eq; [|discriminate]. cbn [prefix_str].
      destruct (decl_ok_prefix d q (decl_ok_in sc d Hok Hin) Eq) as (N1 & N2 & N3).
      assert (L := lookup_distinct sc d Hd Hin). rewrite Hu, Eq in L.
      repeat split; try assumption.
      * apply xstr_eqb_neq. exact N3.
      * rewrite (proj2 (xstr_eqb_neq q s_xml) N2). rewrite (ncname_not_nil q N1).
        unfold ns_by_prefix. rewrite (ncname_not_nil q N1), L. reflexivity.
  - cbn [or_default prefix_str]. repeat split; try assumption; reflexivity.
Qed.

Lemma split_attrs_items : forall sc items own0 plain0,
  forallb decl_ok sc = true -> distinct_prefixes sc = true ->
  forallb (attr_ok sc) (item_attrs items) = true ->
  forallb decl_ok (item_decls items) = true -> distinct_prefixes (own0 ++ item_decls items) = true ->
  split_attrs (map (raw_of_item sc) items) own0 plain0 =
    Some (own0 ++ item_decls items, plain0 ++ map (fun a => mkRaw (attr_prefix_str sc a) (xn_local (xa_name a)) (xa_value a)) (item_attrs items)).
Proof.
  intros sc items. induction items as [|it items IH]; intros own0 plain0 Hok Hd Ha Hdk Hdist.
  - cbn. rewrite !app_nil_r. reflexivity.
  - destruct it as [a|d]; cbn [map raw_of_item item_attrs item_decls split_attrs ra_prefix ra_local ra_value] in *.
    + cbn [forallb] in Ha. apply andb_true_iff in Ha. destruct Ha as [Ha1 Ha2].
      destruct (attr_prefix_facts sc a Hok Hd Ha1) as (F1 & F2 & _ & _). fold (attr_prefix_str sc a).
      rewrite F1, F2. rewrite (IH own0 _ Hok Hd Ha2 Hdk Hdist). rewrite <- app_assoc. reflexivity.
    + cbn [forallb] in Hdk. apply andb_true_iff in Hdk. destruct Hdk as [Hd1 Hd2].
      assert (Hdist' : distinct_prefixes ((own0 ++ [d]) ++ item_decls items) = true)
        by (rewrite <- app_assoc; exact Hdist).
      assert (Hnew : has_prefix (xns_prefix d) own0 = false).
      { clear - Hdist. induction own0 as [|x own0 IHo]; [reflexivity|].
        cbn [app distinct_prefixes] in Hdist. apply andb_true_iff in Hdist. destruct Hdist as [Hx Hr].
        apply negb_true_iff in Hx. unfold has_prefix. cbn [existsb]. fold (has_prefix (xns_prefix d) own0).
        rewrite (IHo Hr). rewrite orb_false_r.
        rewrite opt_eqb_same. apply (distinct_not_in x (own0 ++ d :: item_decls items) d Hx).
        apply in_or_app. right. left. reflexivity. }
      assert (Hu : xstr_eqb (xns_uri d) NS_XMLNS_URI = false /\ xstr_eqb (xns_uri d) NS_XML_URI = false).
      { unfold decl_ok in Hd1. repeat (apply andb_true_iff in Hd1; destruct Hd1 as [Hd1 ?]).
        apply negb_true_iff in H, H0. split; assumption. }
      destruct Hu as [U1 U2].
      destruct (xns_prefix d) as [p|] eqn:Ep; cbn [ra_prefix ra_local ra_value].
      * destruct (decl_ok_prefix d p Hd1 Ep) as (N1 & N2 & N3).
        rewrite xstr_eqb_refl, U1, U2. rewrite (proj2 (xstr_eqb_neq p s_xml) N2).
        assert (Hnew' : ns_exists (Some p) own0 = false) by exact Hnew. rewrite Hnew'.
        replace (mkXNs (Some p) (xns_uri d)) with d by (destruct d; cbn in *; congruence).
        rewrite (IH (own0 ++ [d]) plain0 Hok Hd Ha Hd2 Hdist'). rewrite <- app_assoc. reflexivity.
      * change (xstr_eqb [] s_xmlns) with false. cbv iota. rewrite xstr_eqb_refl, U1, U2. cbn [orb].
        replace (mkXNs None (xns_uri d)) with d by (destruct d; cbn in *; congruence).
        rewrite (IH (own0 ++ [d]) plain0 Hok Hd Ha Hd2 Hdist'). rewrite <- app_assoc. reflexivity.
Qed.

Lemma xname_eqb_same : forall a b, xname_eqb a b = xname_eqb' a b.
Proof. reflexivity. Qed.

Lemma xname_eqb_sym : forall a b, xname_eqb a b = xname_eqb b a.
Proof. intros. unfold xname_eqb. rewrite opt_eqb_sym, xstr_eqb_sym. reflexivity. Qed.

Lemma distinct_attrs_app_head : forall done a r, distinct_attrs (done ++ a :: r) = true ->
  existsb (fun x => xname_eqb (xa_name x) (xa_name a)) done = false.
Proof.
  induction done as [|x done IH]; intros a r H; [reflexivity|].
  cbn [app distinct_attrs] in H. apply andb_true_iff in H. destruct H as [Hx Hr]. apply negb_true_iff in Hx.
  cbn [existsb]. rewrite (IH a r Hr). rewrite orb_false_r.
  destruct (xname_eqb (xa_name x) (xa_name a)) eqn:E; [|reflexivity].
  assert (existsb (fun y => xname_eqb' (xa_name y) (xa_name x)) (done ++ a :: r) = true).
  { apply existsb_exists. exists a. split; [apply in_or_app; right; left; reflexivity|].
    rewrite <- xname_eqb_same, xname_eqb_sym. exact E. }
  congruence.
Qed.

Lemma resolve_attrs_ok : forall sc l done,
  forallb decl_ok sc = true -> distinct_prefixes sc = true ->
  forallb (attr_ok sc) l = true -> distinct_attrs (done ++ l) = true ->
  resolve_attrs sc (map (fun a => mkRaw (attr_prefix_str sc a) (xn_local (xa_name a)) (xa_value a)) l) done = Some (done ++ l).
Proof.
  intros sc l. induction l as [|a l IH]; intros done Hok Hd Ha Hdist; cbn [map resolve_attrs].
  - rewrite app_nil_r. reflexivity.
  - cbn [forallb] in Ha. apply andb_true_iff in Ha. destruct Ha as [Ha1 Ha2].
    destruct (attr_prefix_facts sc a Hok Hd Ha1) as (_ & _ & F3 & _).
    cbn [ra_prefix ra_local ra_value]. rewrite F3.
    replace (mkXName (xn_ns (xa_name a)) (xn_local (xa_name a))) with (xa_name a) by (destruct (xa_name a); reflexivity).
    rewrite (distinct_attrs_app_head done a l Hdist).
    replace (mkXAttr (xa_name a) (xa_value a)) with a by (destruct a; reflexivity).
    rewrite (IH (done ++ [a]) Hok Hd Ha2); rewrite <- app_assoc; [reflexivity | exact Hdist].
Qed.
