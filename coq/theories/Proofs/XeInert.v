(** Every extractor of Model/XmlExtract.v gives the same result on a tree and on the tree with
    restricted foreign insertions ([ins], Spec/XeForeign.v); hence so does [extract_all].
    The float parsers are arbitrary (section variables; nothing is assumed about them). *)
From Coq Require Import Strings.String.
From Coq Require Import List Bool NArith ZArith Lia.
From E57 Require Import Base.Prelude Model.Meta Model.MetaFile Model.XmlTree Model.XmlExtract
  Spec.XeForeign Proofs.XeLemmas.
Import ListNotations.

Local Notation "'B' s" := (ltac:(let v := eval vm_compute in (bytes_of_string s%string) in exact v))
  (at level 0, s at level 0, only parsing).

Section Inert.
Variables pf64 pf32 : xstr -> option N.
Variable fdiv : N -> Z -> N.

Lemma check_type_ins e c c' : fins c c' -> check_type e c' = check_type e c.
Proof. intros H. unfold check_type. rewrite (ins_attribute _ _ _ H). reflexivity. Qed.

(** * xml.rs *)
Lemma opt_string_ins n n' nm :
  fins n n' -> opt_string n' nm = opt_string n nm.
Proof.
  intros H. unfold opt_string, opt_bind. apply opt_case_ins; [apply ins_find_child; assumption|].
  intros c c' Hc. rewrite (check_type_ins _ _ _ Hc), (ins_opt_text _ _ _ Hc). reflexivity.
Qed.

Lemma req_string_ins n n' nm :
  fins n n' -> req_string n' nm = req_string n nm.
Proof. intros H. unfold req_string. rewrite (opt_string_ins _ _ _ H). reflexivity. Qed.

Lemma opt_num_ins {T} (parse : xstr -> option T) n n' nm e :
  fins n n' -> opt_num parse n' nm e = opt_num parse n nm e.
Proof.
  intros H. unfold opt_num, opt_bind. apply opt_case_ins; [apply ins_find_child; assumption|].
  intros c c' Hc. rewrite (check_type_ins _ _ _ Hc), (ins_opt_text _ _ _ Hc). reflexivity.
Qed.

Lemma opt_f64_ins n n' nm :
  fins n n' -> opt_f64 pf64 n' nm = opt_f64 pf64 n nm.
Proof. intros H. unfold opt_f64. apply opt_num_ins; assumption. Qed.

Lemma req_f64_ins n n' nm :
  fins n n' -> req_f64 pf64 n' nm = req_f64 pf64 n nm.
Proof. intros H. unfold req_f64. rewrite (opt_f64_ins _ _ _ H). reflexivity. Qed.

Lemma opt_int_ins parse n n' nm :
  fins n n' -> opt_int parse n' nm = opt_int parse n nm.
Proof. intros H. unfold opt_int. apply opt_num_ins; assumption. Qed.

Lemma req_int_ins parse n n' nm :
  fins n n' -> req_int parse n' nm = req_int parse n nm.
Proof. intros H. unfold req_int. rewrite (opt_int_ins _ _ _ _ H). reflexivity. Qed.

(** rewriting with the leaf extractors applied to the same node *)
Ltac rw H :=
  repeat first
    [ rewrite (opt_string_ins _ _ _ H) by reflexivity
    | rewrite (req_string_ins _ _ _ H) by reflexivity
    | rewrite (opt_f64_ins _ _ _ H) by reflexivity
    | rewrite (req_f64_ins _ _ _ H) by reflexivity
    | rewrite (opt_int_ins _ _ _ _ H) by reflexivity
    | rewrite (req_int_ins _ _ _ _ H) by reflexivity ].

(** * date_time.rs *)
Lemma date_time_from_node_ins n n' :
  fins n n' -> date_time_from_node pf64 n' = date_time_from_node pf64 n.
Proof.
  intros H. unfold date_time_from_node, req_node.
  apply opt_case_ins2; [apply ins_find_child_typed; assumption| |reflexivity].
  intros v v' Hv. rewrite (ins_elem_text _ _ Hv). destruct (elem_text v); [|reflexivity].
  apply res_bind_cong; [reflexivity|intros gps].
  apply opt_case_ins; [apply ins_find_child_typed; assumption|].
  intros a a' Ha. rewrite (ins_opt_text _ _ _ Ha). reflexivity.
Qed.

Lemma opt_date_time_ins n n' nm :
  fins n n' -> opt_date_time pf64 n' nm = opt_date_time pf64 n nm.
Proof.
  intros H. unfold opt_date_time, opt_bind. apply opt_case_ins; [apply ins_find_child; assumption|].
  intros c c' Hc. rewrite (check_type_ins _ _ _ Hc), (date_time_from_node_ins _ _ Hc). reflexivity.
Qed.

(** * transform.rs *)
Lemma translation_from_node_ins n n' :
  fins n n' -> translation_from_node pf64 n' = translation_from_node pf64 n.
Proof. intros H. unfold translation_from_node. rw H. reflexivity. Qed.

Lemma quaternion_from_node_ins n n' :
  fins n n' -> quaternion_from_node pf64 n' = quaternion_from_node pf64 n.
Proof. intros H. unfold quaternion_from_node. rw H. reflexivity. Qed.

Lemma transform_from_node_ins n n' :
  fins n n' -> transform_from_node pf64 n' = transform_from_node pf64 n.
Proof.
  intros H. unfold transform_from_node.
  apply res_bind_cong.
  { apply opt_case_ins; [apply ins_find_child; assumption|].
    intros c c' Hc. apply translation_from_node_ins; assumption. }
  intros t. apply res_bind_cong; [|reflexivity].
  apply opt_case_ins; [apply ins_find_child; assumption|].
  intros c c' Hc. apply quaternion_from_node_ins; assumption.
Qed.

Lemma opt_node_ins {A} (f : xnode -> res A) n n' nm :
  fins n n' -> (forall c c', fins c c' -> f c' = f c) ->
  opt_node (find_child nm n') f = opt_node (find_child nm n) f.
Proof.
  intros H Hf. unfold opt_node. apply opt_case_ins; [apply ins_find_child; assumption|].
  intros c c' Hc. rewrite (Hf _ _ Hc). reflexivity.
Qed.

Lemma opt_transform_ins n n' nm :
  fins n n' -> opt_transform pf64 n' nm = opt_transform pf64 n nm.
Proof.
  intros H. unfold opt_transform. apply opt_node_ins; auto. apply transform_from_node_ins.
Qed.

(** * bounds.rs *)
Lemma cartesian_bounds_from_node_ins n n' :
  fins n n' -> cartesian_bounds_from_node pf64 n' = cartesian_bounds_from_node pf64 n.
Proof. intros H. unfold cartesian_bounds_from_node. rw H. reflexivity. Qed.

Lemma spherical_bounds_from_node_ins n n' :
  fins n n' -> spherical_bounds_from_node pf64 n' = spherical_bounds_from_node pf64 n.
Proof. intros H. unfold spherical_bounds_from_node. rw H. reflexivity. Qed.

Lemma index_bounds_from_node_ins n n' :
  fins n n' -> index_bounds_from_node n' = index_bounds_from_node n.
Proof. intros H. unfold index_bounds_from_node. rw H. reflexivity. Qed.

(** * limits.rs *)
Lemma extract_limit_ins n n' nm :
  fins n n' ->
  extract_limit pf64 pf32 n' nm = extract_limit pf64 pf32 n nm.
Proof.
  intros H. unfold extract_limit, opt_bind. apply opt_case_ins; [apply ins_find_child; assumption|].
  intros c c' Hc. rewrite !(ins_attribute _ _ _ Hc), (ins_opt_text _ _ _ Hc). reflexivity.
Qed.

Lemma intensity_limits_from_node_ins n n' :
  fins n n' -> intensity_limits_from_node pf64 pf32 n' = intensity_limits_from_node pf64 pf32 n.
Proof.
  intros H. unfold intensity_limits_from_node.
  repeat rewrite (extract_limit_ins _ _ _ H) by reflexivity. reflexivity.
Qed.

Lemma color_limits_from_node_ins n n' :
  fins n n' -> color_limits_from_node pf64 pf32 n' = color_limits_from_node pf64 pf32 n.
Proof.
  intros H. unfold color_limits_from_node.
  repeat rewrite (extract_limit_ins _ _ _ H) by reflexivity. reflexivity.
Qed.

(** * record.rs *)
Lemma optional_attribute_ins {T} (parse : xstr -> option T) n n' a :
  fins n n' -> optional_attribute parse n' a = optional_attribute parse n a.
Proof. intros H. unfold optional_attribute. rewrite (ins_attribute _ _ _ H). reflexivity. Qed.

Lemma data_type_from_node_ins n n' :
  fins n n' -> data_type_from_node pf64 pf32 n' = data_type_from_node pf64 pf32 n.
Proof.
  intros H. unfold data_type_from_node.
  rewrite !(ins_attribute _ _ _ H).
  repeat rewrite (optional_attribute_ins _ _ _ _ H). reflexivity.
Qed.

Lemma record_from_node_ins n n' :
  fins n n' -> record_from_node pf64 pf32 n' = record_from_node pf64 pf32 n.
Proof.
  intros H. pose proof (data_type_from_node_ins _ _ H) as Hd.
  inversion H as [| | |nm a a' sc ch ch' Ha Hl Hh]; subst; try reflexivity.
  unfold record_from_node. rewrite Hd. reflexivity.
Qed.

Lemma prototype_records_ins n n' :
  fins n n' -> is_tag PROTOTYPE n = true ->
  prototype_records pf64 pf32 n' = prototype_records pf64 pf32 n.
Proof.
  intros H Hp. unfold prototype_records.
  apply map_res_ins; [apply ins_prototype_children; assumption|].
  intros c c' Hc. apply record_from_node_ins; assumption.
Qed.

(** * blob.rs *)
Lemma blob_from_node_ins n n' : fins n n' -> blob_from_node n' = blob_from_node n.
Proof.
  intros H. unfold blob_from_node. rewrite (ins_attr_is _ _ _ _ H), !(ins_attribute _ _ _ H). reflexivity.
Qed.

Lemma blob_from_parent_node_ins n n' nm :
  fins n n' -> blob_from_parent_node nm n' = blob_from_parent_node nm n.
Proof.
  intros H. unfold blob_from_parent_node. apply opt_node_ins; auto. apply blob_from_node_ins.
Qed.

(** * pointcloud.rs *)
Lemma original_guids_of_ins n n' : fins n n' -> original_guids_of n' = original_guids_of n.
Proof.
  intros H. unfold original_guids_of.
  apply map_ins; [apply ins_filter_elem_vector_child; assumption|].
  intros c c' Hc. apply ins_opt_text; assumption.
Qed.

Lemma original_guids_from_node_ins n n' :
  fins n n' -> original_guids_from_node n' = original_guids_from_node n.
Proof.
  intros H. unfold original_guids_from_node.
  apply opt_case_ins; [apply ins_find_child; assumption|].
  intros c c' Hc. rewrite (original_guids_of_ins _ _ Hc). reflexivity.
Qed.

Lemma find_child_typed_tag nm ty n c :
  find_child_typed nm ty n = Some c -> is_tag nm c = true.
Proof.
  unfold find_child_typed. intros H. apply find_some in H. destruct H as [_ H].
  apply andb_true_iff in H. tauto.
Qed.

Lemma points_from_node_ins n n' :
  fins n n' -> points_from_node pf64 pf32 n' = points_from_node pf64 pf32 n.
Proof.
  intros H. unfold points_from_node, req_node.
  apply opt_case_ins; [apply ins_find_child_typed; assumption|].
  intros p p' Hp. rewrite !(ins_attribute _ _ _ Hp).
  repeat (apply res_bind_cong; [reflexivity|intros ?]).
  pose proof (ins_find_child_typed (B"prototype") (B"Structure") p p' Hp) as Hq.
  destruct (find_child_typed (B"prototype") (B"Structure") p) as [q|] eqn:Eq;
    inversion Hq as [|x q' Hqq]; subst; cbn [opt_case]; [|reflexivity].
  rewrite (prototype_records_ins _ _ Hqq); [reflexivity|].
  apply (find_child_typed_tag _ _ _ _ Eq).
Qed.

Lemma pointcloud_from_node_ins n n' :
  fins n n' -> pointcloud_from_node pf64 pf32 n' = pointcloud_from_node pf64 pf32 n.
Proof.
  intros H. unfold pointcloud_from_node. rw H.
  repeat rewrite (opt_date_time_ins _ _ _ H) by reflexivity.
  rewrite (opt_transform_ins _ _ _ H) by reflexivity.
  rewrite (original_guids_from_node_ins _ _ H), (points_from_node_ins _ _ H).
  rewrite (opt_node_ins (cartesian_bounds_from_node pf64) _ _ (B"cartesianBounds") H cartesian_bounds_from_node_ins).
  rewrite (opt_node_ins (spherical_bounds_from_node pf64) _ _ (B"sphericalBounds") H spherical_bounds_from_node_ins).
  rewrite (opt_node_ins index_bounds_from_node _ _ (B"indexBounds") H index_bounds_from_node_ins).
  rewrite (opt_node_ins (intensity_limits_from_node pf64 pf32) _ _ (B"intensityLimits") H intensity_limits_from_node_ins).
  rewrite (opt_node_ins (color_limits_from_node pf64 pf32) _ _ (B"colorLimits") H color_limits_from_node_ins).
  reflexivity.
Qed.

Lemma e57_root_ins d d' :
  fins_doc d d' ->
  match e57_root d, e57_root d' with
  | Ok o, Ok o' => orel fins o o'
  | Panic, Panic => True
  | _, _ => False
  end.
Proof.
  intros H. unfold e57_root. destruct (ins_doc_root _ _ H) as [|r r' Hr]; [exact I|].
  rewrite (ins_is_tag _ _ _ Hr). destruct (is_tag _ r); constructor. exact Hr.
Qed.

Lemma vec_from_document_ins {A} tag (f : xnode -> res A) d d' :
  fins_doc d d' -> (forall c c', fins c c' -> f c' = f c) ->
  vec_from_document tag f d' = vec_from_document tag f d.
Proof.
  intros H Hf. unfold vec_from_document. pose proof (e57_root_ins _ _ H) as Hr.
  destruct (e57_root d) as [o| |], (e57_root d') as [o'| |]; try contradiction; [|reflexivity].
  cbn [res_bind]. apply opt_case_ins.
  - destruct Hr as [|r r' Hrr]; cbn [opt_case]; [constructor|apply ins_find_child; exact Hrr].
  - intros v v' Hv. apply map_res_ins; [apply ins_filter_vector_child; assumption|exact Hf].
Qed.

(** * images.rs *)
Lemma image_blob_from_rep_node_ins n n' :
  fins n n' -> image_blob_from_rep_node n' = image_blob_from_rep_node n.
Proof.
  intros H. unfold image_blob_from_rep_node.
  apply opt_case_ins2; [apply ins_find_child; assumption| |].
  - intros c c' Hc. rewrite (blob_from_node_ins _ _ Hc). reflexivity.
  - apply opt_case_ins; [apply ins_find_child; assumption|].
    intros c c' Hc. rewrite (blob_from_node_ins _ _ Hc). reflexivity.
Qed.

Ltac rwi H :=
  rewrite ?(image_blob_from_rep_node_ins _ _ H);
  repeat rewrite (blob_from_parent_node_ins _ _ _ H) by reflexivity;
  rw H.

Lemma visual_reference_from_node_ins n n' :
  fins n n' -> visual_reference_from_node n' = visual_reference_from_node n.
Proof. intros H. unfold visual_reference_from_node. rwi H. reflexivity. Qed.

Lemma pinhole_from_node_ins n n' :
  fins n n' -> pinhole_from_node pf64 n' = pinhole_from_node pf64 n.
Proof. intros H. unfold pinhole_from_node. rwi H. reflexivity. Qed.

Lemma spherical_from_node_ins n n' :
  fins n n' -> spherical_from_node pf64 fdiv n' = spherical_from_node pf64 fdiv n.
Proof. intros H. unfold spherical_from_node. rwi H. reflexivity. Qed.

Lemma cylindrical_from_node_ins n n' :
  fins n n' -> cylindrical_from_node pf64 n' = cylindrical_from_node pf64 n.
Proof. intros H. unfold cylindrical_from_node. rwi H. reflexivity. Qed.

Lemma projection_from_image_node_ins n n' :
  fins n n' -> projection_from_image_node pf64 fdiv n' = projection_from_image_node pf64 fdiv n.
Proof.
  intros H. unfold projection_from_image_node.
  apply opt_case_ins2; [apply ins_find_child; assumption| |].
  { intros c c' Hc. rewrite (pinhole_from_node_ins _ _ Hc). reflexivity. }
  apply opt_case_ins2; [apply ins_find_child; assumption| |].
  { intros c c' Hc. rewrite (spherical_from_node_ins _ _ Hc). reflexivity. }
  apply opt_case_ins; [apply ins_find_child; assumption|].
  intros c c' Hc. rewrite (cylindrical_from_node_ins _ _ Hc). reflexivity.
Qed.

Lemma image_from_node_ins n n' :
  fins n n' -> image_from_node pf64 fdiv n' = image_from_node pf64 fdiv n.
Proof.
  intros H. unfold image_from_node. rw H.
  rewrite (opt_transform_ins _ _ _ H) by reflexivity.
  rewrite (opt_date_time_ins _ _ _ H) by reflexivity.
  rewrite (projection_from_image_node_ins _ _ H).
  rewrite (opt_node_ins visual_reference_from_node _ _ (B"visualReferenceRepresentation") H visual_reference_from_node_ins).
  reflexivity.
Qed.

(** * root.rs, extension.rs, e57_reader.rs *)
Lemma root_from_document_ins d d' :
  fins_doc d d' -> root_from_document pf64 d' = root_from_document pf64 d.
Proof.
  intros H. unfold root_from_document, req_node. pose proof (e57_root_ins _ _ H) as Hr.
  destruct (e57_root d) as [o| |], (e57_root d') as [o'| |]; try contradiction; [|reflexivity].
  cbn [res_bind]. apply opt_case_ins; [exact Hr|].
  intros r r' Hrr. rw Hrr.
  rewrite (opt_date_time_ins _ _ _ Hrr) by reflexivity. reflexivity.
Qed.

Lemma extensions_from_document_ins d d' :
  fins_doc d d' -> extensions_from_document d' = extensions_from_document d.
Proof.
  intros H. unfold extensions_from_document. destruct (ins_doc_root _ _ H) as [|r r' Hr]; [reflexivity|].
  inversion Hr; reflexivity.
Qed.

Theorem extract_all_ins d d' :
  fins_doc d d' -> extract_all pf64 pf32 fdiv d' = extract_all pf64 pf32 fdiv d.
Proof.
  intros H. unfold extract_all, pointclouds_from_document, images_from_document.
  rewrite (root_from_document_ins _ _ H), (extensions_from_document_ins _ _ H).
  rewrite (vec_from_document_ins (B"data3D") (pointcloud_from_node pf64 pf32) _ _ H pointcloud_from_node_ins).
  rewrite (vec_from_document_ins (B"images2D") (image_from_node pf64 fdiv) _ _ H image_from_node_ins).
  reflexivity.
Qed.

(** namespaced attributes anywhere (also inside prototypes) *)
Theorem extract_all_fattr d d' :
  fattr_doc d d' -> extract_all pf64 pf32 fdiv d' = extract_all pf64 pf32 fdiv d.
Proof. intros H. apply extract_all_ins. apply fattr_doc_ins_doc. exact H. Qed.

End Inert.
