(** C02, binary side, final form: the only hypothesis about the run is that the
    writer model returned Ok.  What remains are typing facts about the inputs
    ([item_typed]: float values are bit patterns of their width; integer bounds
    are i64 with minimum <= maximum), a non-empty XML text and the u64 size bound. *)
From E57 Require Import Base.Prelude Model.Crc Model.Device Model.PagedWriter Model.Record Model.Prog
  Model.QueueReader Model.PcWriter Model.FileBin Spec.BitSpec Spec.PageSpec Spec.FormatSpec Spec.FileSpec.
From E57 Require Import Proofs.PagedWriterProofs Proofs.ProgTransfer Proofs.FileRtWriter
  Proofs.SpecLayout Proofs.SpecDecode Proofs.SpecWriter Proofs.SpecWriterOk.
Open Scope N_scope.

Theorem writer_ok_file_wellformed : forall (is : list item) (xml : list N) (outs : list item_out) (s : pw)
    (dx : list N -> list descriptor),
  forallb item_typed is = true ->
  xml <> [] ->
  wrun (file_prog is xml) pw0 = (s, Ok outs) ->
  let f := d_bytes (pw_dev (fst (pw_flush s))) in
  len f < 2 ^ 64 ->
  dx xml = item_descriptors is outs ->
  spec_wellformed f dx = true /\
  spec_decode_file f dx = Some (mkDecoded xml (map item_content is)).
Proof.
  intros is xml outs s dx Hty Hx Hrun f Hsize Hdx.
  destruct (wrun_image _ (file_prog is xml)) as (Hres & _ & _).
  rewrite Hrun in Hres. cbn [snd] in Hres.
  destruct (wrun_spec (file_prog is xml) ls_init) as [l' r] eqn:E. cbn [snd] in Hres. subst r.
  pose proof (file_prog_ok_wf is xml ls_init l' outs Hty E) as Hwf.
  exact (writer_file_wellformed is xml outs s dx Hwf Hx Hrun Hsize Hdx).
Qed.

(** * Instances *)

Module C02Instance.
  (* a 0-bit, an 11-bit, a 64-bit and a double record *)
  Definition proto : list dtype := [TInteger 5 5; TInteger 0 2047; TInteger (- 2 ^ 63) (2 ^ 63 - 1); TDouble].
  Definition pts : list (list rvalue) :=
    [[VInteger 5; VInteger 0; VInteger (- 2 ^ 63); VDouble 77];
     [VInteger 5; VInteger 2047; VInteger (2 ^ 63 - 1); VDouble (2 ^ 64 - 1)];
     [VInteger 5; VInteger 1234; VInteger (-1); VDouble 0]].
  (* 1019 bytes: one byte of padding, and the section crosses a page boundary *)
  Definition blob : list N := map (fun i => N.of_nat i mod 256) (seq 0 1019).
  Definition xml : list N := [60; 101; 53; 55; 47; 62].
  Definition items : list item := [IBlob blob; IPc proto pts; IPc proto []].
  Definition run := wrun (file_prog items xml) pw0.
  Definition file : list N := d_bytes (pw_dev (fst (pw_flush (fst run)))).
  Definition outs : list item_out := match snd run with Ok o => o | _ => [] end.
End C02Instance.

(** The hypotheses of the theorem are satisfiable: the run returns Ok, the inputs are typed. *)
Example writer_ok_file_wellformed_instance :
  let dx := fun _ : list N => item_descriptors C02Instance.items C02Instance.outs in
  spec_wellformed C02Instance.file dx = true /\
  spec_decode_file C02Instance.file dx
  = Some (mkDecoded C02Instance.xml (map item_content C02Instance.items)).
Proof.
  cbv zeta.
  assert (Hrun : wrun (file_prog C02Instance.items C02Instance.xml) pw0
                 = (fst C02Instance.run, Ok C02Instance.outs)) by (vm_compute; reflexivity).
  apply (writer_ok_file_wellformed C02Instance.items C02Instance.xml C02Instance.outs (fst C02Instance.run)
           (fun _ => item_descriptors C02Instance.items C02Instance.outs)).
  - vm_compute. reflexivity.
  - discriminate.
  - exact Hrun.
  - vm_compute. reflexivity.
  - reflexivity.
Qed.

(** The same, end to end by evaluation: the writer model's file (2 pages), judged and decoded by
    the independent decoder. *)
Example writer_file_computed :
  let dx := fun _ : list N => item_descriptors C02Instance.items C02Instance.outs in
  C02Instance.outs = [OBlob 48 1019; OPc 1088 3; OPc 1204 0] /\ len C02Instance.file = 2048 /\
  spec_wellformed C02Instance.file dx = true /\
  spec_decode_file C02Instance.file dx
  = Some (mkDecoded C02Instance.xml [CBlob C02Instance.blob; CPoints C02Instance.pts; CPoints []]).
Proof. cbv zeta. repeat split; vm_compute; reflexivity. Qed.

Print Assumptions writer_ok_file_wellformed.
