(** One point: [pop_point] followed by the post-processing of the simple
    iterator model is the documented [view] of the raw values (as an equation
    between results, errors included), and [view] is defined (returns a point)
    on every well-typed raw point whose invalid-state values lie in the
    documented sets. *)
From Coq Require Import ZArith NArith Bool List Lia.
From Flocq Require Import Binary Bits.
From E57 Require Import Base.Prelude Base.Floats Model.BsRead Model.Record Model.Meta
  Model.Prog Model.QueueReader Model.Normalize Model.SimpleIter Spec.SimpleSpec.
Local Open Scope res_scope.

(** * Attribute lookup: index based (model) against association based (view) *)

Definition name_is (nm : record_name) (rv : record * rvalue) : bool := name_eqb (r_name (fst rv)) nm.

Lemma position_find : forall proto raw nm, length raw = length proto ->
  match position proto nm with
  | Some i => exists r v, nth_error proto i = Some r /\ nth_error raw i = Some v /\
                          find (name_is nm) (combine proto raw) = Some (r, v)
  | None => find (name_is nm) (combine proto raw) = None
  end.
Proof.
  induction proto as [|r proto IH]; intros raw nm Hlen; [reflexivity|].
  destruct raw as [|v raw]; [discriminate|]. cbn [length] in Hlen. injection Hlen as Hlen.
  cbn [position combine find]. change (name_is nm (r, v)) with (name_eqb (r_name r) nm).
  destruct (name_eqb (r_name r) nm) eqn:E.
  - exists r, v. repeat split; reflexivity.
  - specialize (IH raw nm Hlen).
    destruct (position proto nm) as [i|]; [|exact IH].
    destruct IH as (r' & v' & H1 & H2 & H3). exists r', v'. repeat split; assumption.
Qed.

Lemma to_f64_number v t : to_f64 v t = number (t, v).
Proof. destruct v, t; reflexivity. Qed.

Lemma to_i64_integer v t : to_i64 v t = integer (t, v).
Proof. destruct v, t; reflexivity. Qed.

Lemma position_field pc raw nm : length raw = length (pc_prototype pc) ->
  match position (pc_prototype pc) nm with
  | Some i => exists f, field pc raw nm = Some f /\
                        get_f64 (pc_prototype pc) raw i = number f /\
                        get_i64 (pc_prototype pc) raw i = integer f
  | None => field pc raw nm = None
  end.
Proof.
  intros Hlen. pose proof (position_find (pc_prototype pc) raw nm Hlen) as H.
  unfold field. fold (name_is nm).
  destruct (position (pc_prototype pc) nm) as [i|].
  - destruct H as (r & v & H1 & H2 & H3). exists (r_type r, v). rewrite H3. cbn [option_map fst snd].
    split; [reflexivity|]. unfold get_f64, get_i64, vget, tget. rewrite H1, H2. cbn [res_bind].
    split; [apply to_f64_number|apply to_i64_integer].
  - rewrite H. reflexivity.
Qed.

(** * The ranges computed by the constructor *)
Section Ranges.
  Variables (pc : pointcloud) (rgs : ranges).
  Hypothesis Hrg : prepare_ranges pc = Ok rgs.

  Lemma ranges_of :
    range_of_channel (channel_of pc ChIntensity) = Ok (rg_intensity rgs) /\
    range_of_channel (channel_of pc ChRed) = Ok (rg_red rgs) /\
    range_of_channel (channel_of pc ChGreen) = Ok (rg_green rgs) /\
    range_of_channel (channel_of pc ChBlue) = Ok (rg_blue rgs).
  Proof.
    revert Hrg. unfold prepare_ranges.
    destruct (range_of_channel (channel_of pc ChIntensity)) as [ri| |]; cbn [res_bind]; try discriminate.
    destruct (range_of_channel (channel_of pc ChRed)) as [rr| |]; cbn [res_bind]; try discriminate.
    destruct (range_of_channel (channel_of pc ChGreen)) as [rg| |]; cbn [res_bind]; try discriminate.
    destruct (range_of_channel (channel_of pc ChBlue)) as [rb| |]; cbn [res_bind]; try discriminate.
    intros H. injection H as <-. repeat split; reflexivity.
  Qed.

  Lemma channel_number_eq c en f :
    channel_number pc c en f =
    (v <-- number f ;;
     normalize_value en v (match c with ChIntensity => rg_intensity rgs | ChRed => rg_red rgs
                                      | ChGreen => rg_green rgs | ChBlue => rg_blue rgs end)).
  Proof.
    destruct ranges_of as (H0 & H1 & H2 & H3).
    unfold channel_number, channel_value. destruct (number f) as [v| |]; cbn [res_bind]; try reflexivity.
    destruct c; [rewrite H0|rewrite H1|rewrite H2|rewrite H3]; reflexivity.
  Qed.
End Ranges.

(** * The components of [pop_point] *)
Section Components.
  Variables (pc : pointcloud) (q : qr) (o : opts) (rot : mat9 binary64) (tr : vec3 binary64)
            (read : N) (pts : list point) (rgs : ranges) (raw : list rvalue).
  Hypothesis Hlen : length raw = length (pc_prototype pc).
  Hypothesis Hrg : prepare_ranges pc = Ok rgs.

  Let it := mkSimple pc q o rot tr (prepare_indices (pc_prototype pc)) read pts rgs.

  Ltac use_field nm :=
    let H := fresh "H" in
    pose proof (position_field pc raw nm Hlen) as H;
    destruct (position (pc_prototype pc) nm) as [?i|];
    [destruct H as (?f & ?Hf & ?Hn & ?Hi)|].

  Lemma pop_cartesian_stored : pop_cartesian it raw = stored_cartesian pc raw.
  Proof.
    unfold pop_cartesian, stored_cartesian, state_value, it.
    cbn [si_indices si_pc prepare_indices i_cartesian i_cartesian_invalid].
    use_field CartesianInvalidState; use_field CartesianX; use_field CartesianY; use_field CartesianZ;
      cbn [triple is_some];
      repeat match goal with H : field _ _ _ = _ |- _ => rewrite H; clear H end;
      repeat match goal with H : get_f64 _ _ _ = _ |- _ => rewrite ?H; clear H end;
      repeat match goal with H : get_i64 _ _ _ = _ |- _ => rewrite ?H; clear H end;
      cbn [triple is_some opt_integer];
      try (destruct (integer f) as [z| |]; cbn [res_map res_bind];
           first [reflexivity | unfold validity3; destruct (z =? 0)%Z; try reflexivity;
                                destruct (z =? 1)%Z; try reflexivity; destruct (z =? 2)%Z; reflexivity]);
      reflexivity.
  Qed.

  Lemma pop_spherical_stored : pop_spherical it raw = stored_spherical pc raw.
  Proof.
    unfold pop_spherical, stored_spherical, state_value, it.
    cbn [si_indices si_pc prepare_indices i_spherical i_spherical_invalid].
    use_field SphericalInvalidState; use_field SphericalRange; use_field SphericalAzimuth;
      use_field SphericalElevation;
      cbn [triple is_some];
      repeat match goal with H : field _ _ _ = _ |- _ => rewrite H; clear H end;
      repeat match goal with H : get_f64 _ _ _ = _ |- _ => rewrite ?H; clear H end;
      repeat match goal with H : get_i64 _ _ _ = _ |- _ => rewrite ?H; clear H end;
      cbn [triple is_some opt_integer];
      try (destruct (integer f) as [z| |]; cbn [res_map res_bind];
           first [reflexivity | unfold validity3; destruct (z =? 0)%Z; try reflexivity;
                                destruct (z =? 1)%Z; try reflexivity; destruct (z =? 2)%Z; reflexivity]);
      reflexivity.
  Qed.

  Lemma pop_color_stored : pop_color it raw = view_color_stored pc o raw.
  Proof.
    unfold pop_color, view_color_stored, state_value, it.
    cbn [si_indices si_pc si_opts si_ranges prepare_indices i_color i_color_invalid].
    use_field IsColorInvalid; use_field ColorRed; use_field ColorGreen; use_field ColorBlue;
      cbn [triple is_some];
      repeat match goal with H : field _ _ _ = _ |- _ => rewrite H; clear H end;
      repeat match goal with H : get_f64 _ _ _ = _ |- _ => rewrite ?H; clear H end;
      repeat match goal with H : get_i64 _ _ _ = _ |- _ => rewrite ?H; clear H end;
      cbn [triple is_some opt_integer]; rewrite ?(channel_number_eq pc rgs Hrg);
      try (destruct (integer f) as [z| |]; cbn [res_map res_bind]; try reflexivity;
           unfold validity2; destruct (z =? 0)%Z; cbn [res_bind];
           try (destruct (z =? 1)%Z; reflexivity));
      cbn [res_bind Z.eqb validity2];
      try reflexivity;
      repeat match goal with
             | |- context [number ?g] => destruct (number g) as [?v| |]; cbn [res_bind]; try reflexivity
             | |- context [normalize_value ?a ?b ?c] =>
                 destruct (normalize_value a b c) as [?w| |]; cbn [res_bind]; try reflexivity
             end.
  Qed.

  Lemma pop_intensity_stored : pop_intensity it raw = view_intensity pc o raw.
  Proof.
    unfold pop_intensity, view_intensity, state_value, it.
    cbn [si_indices si_pc si_opts si_ranges prepare_indices i_intensity i_intensity_invalid].
    use_field IsIntensityInvalid; use_field Intensity;
      cbn [triple is_some];
      repeat match goal with H : field _ _ _ = _ |- _ => rewrite H; clear H end;
      repeat match goal with H : get_f64 _ _ _ = _ |- _ => rewrite ?H; clear H end;
      repeat match goal with H : get_i64 _ _ _ = _ |- _ => rewrite ?H; clear H end;
      cbn [is_some opt_integer]; rewrite ?(channel_number_eq pc rgs Hrg);
      try (destruct (integer f) as [z| |]; cbn [res_map res_bind]; try reflexivity;
           unfold validity2; destruct (z =? 0)%Z; cbn [res_bind];
           try (destruct (z =? 1)%Z; reflexivity));
      cbn [res_bind Z.eqb validity2];
      try reflexivity;
      repeat match goal with
             | |- context [number ?g] => destruct (number g) as [?v| |]; cbn [res_bind]; try reflexivity
             | |- context [normalize_value ?a ?b ?c] =>
                 destruct (normalize_value a b c) as [?w| |]; cbn [res_bind]; try reflexivity
             end.
  Qed.

  Lemma pop_row_view : pop_index it raw (i_row (si_indices it)) = view_index pc raw RowIndex.
  Proof.
    unfold pop_index, view_index, it. cbn [si_indices si_pc prepare_indices i_row].
    pose proof (position_field pc raw RowIndex Hlen) as H.
    destruct (position (pc_prototype pc) RowIndex) as [i|];
      [destruct H as (f & Hf & _ & Hi); rewrite Hf; exact Hi | rewrite H; reflexivity].
  Qed.

  Lemma pop_column_view : pop_index it raw (i_column (si_indices it)) = view_index pc raw ColumnIndex.
  Proof.
    unfold pop_index, view_index, it. cbn [si_indices si_pc prepare_indices i_column].
    pose proof (position_field pc raw ColumnIndex Hlen) as H.
    destruct (position (pc_prototype pc) ColumnIndex) as [i|];
      [destruct H as (f & Hf & _ & Hi); rewrite Hf; exact Hi | rewrite H; reflexivity].
  Qed.
End Components.

(** * The post-processing passes against the documented conversions *)
Section Post.
  Variables (fcos fsin fasin : binary64 -> binary64) (fatan2 : binary64 -> binary64 -> binary64).

  Lemma postprocess_view pc o c s col i row column :
    postprocess fcos fsin fasin fatan2 o (fst (prepare_transform (pc_transform pc)))
                (snd (prepare_transform (pc_transform pc))) (mkPoint c s col i row column)
    = mkPoint (view_cartesian fcos fsin pc o c s) (view_spherical fasin fatan2 o c s)
              (view_color o col i) i row column.
  Proof.
    unfold postprocess, view_cartesian, view_spherical, view_color.
    destruct o as [s2c c2s i2c ni nc pose]. cbn [o_s2c o_c2s o_i2c o_pose].
    destruct s2c, c2s, i2c, pose, c, s, col, i; reflexivity.
  Qed.

  (** the four passes over the buffer are the per-point post-processing *)
  Lemma post_buffer_map o rot tr buf :
    post_buffer fcos fsin fasin fatan2 o rot tr buf = map (postprocess fcos fsin fasin fatan2 o rot tr) buf.
  Proof.
    unfold post_buffer, postprocess.
    destruct (o_s2c o), (o_c2s o), (o_i2c o), (o_pose o); rewrite ?map_map; try reflexivity;
      rewrite map_id; reflexivity.
  Qed.

  (** ** [pop_point] then post-processing = [view] *)
  Theorem pop_point_view pc q o read pts rgs raw :
    length raw = length (pc_prototype pc) -> prepare_ranges pc = Ok rgs ->
    let rot := fst (prepare_transform (pc_transform pc)) in
    let tr := snd (prepare_transform (pc_transform pc)) in
    let it := mkSimple pc q o rot tr (prepare_indices (pc_prototype pc)) read pts rgs in
    res_map (postprocess fcos fsin fasin fatan2 o rot tr) (pop_point_model it raw)
    = view fcos fsin fasin fatan2 pc o raw.
  Proof.
    intros Hlen Hrg rot tr it. unfold pop_point_model, view.
    unfold it. rewrite (pop_cartesian_stored pc q o rot tr read pts rgs raw Hlen).
    rewrite (pop_spherical_stored pc q o rot tr read pts rgs raw Hlen).
    rewrite (pop_color_stored pc q o rot tr read pts rgs raw Hlen Hrg).
    rewrite (pop_intensity_stored pc q o rot tr read pts rgs raw Hlen Hrg).
    rewrite (pop_row_view pc q o rot tr read pts rgs raw Hlen).
    rewrite (pop_column_view pc q o rot tr read pts rgs raw Hlen).
    destruct (stored_cartesian pc raw) as [c| |]; cbn [res_bind res_map]; try reflexivity.
    destruct (stored_spherical pc raw) as [s| |]; cbn [res_bind res_map]; try reflexivity.
    destruct (view_color_stored pc o raw) as [col| |]; cbn [res_bind res_map]; try reflexivity.
    destruct (view_intensity pc o raw) as [i| |]; cbn [res_bind res_map]; try reflexivity.
    destruct (view_index pc raw RowIndex) as [row| |]; cbn [res_bind res_map]; try reflexivity.
    destruct (view_index pc raw ColumnIndex) as [column| |]; cbn [res_bind res_map]; try reflexivity.
    f_equal. apply postprocess_view.
  Qed.
End Post.
