(** The input/output part of the section reader on the logical stream: the
    section header, the three packet kinds, the size table and the chunks of
    a data packet.  The decoding of a data packet is abstracted here by the
    results of [bsr_append] and [parse_streams]. *)
From E57 Require Import Base.Prelude Spec.PageSpec Model.PagedReader Model.Prog Model.BsRead
  Model.Record Model.QueueReader Spec.BitSpec Spec.FormatSpec.
From E57 Require Import Proofs.BitLemmas Proofs.QueueReaderLemmas.
From Coq Require Import ZifyN ZifyNat ZifyBool.
Ltac Zify.zify_post_hook ::= Z.div_mod_to_equations.
Open Scope N_scope.

(** * Byte layout of the packets *)

Definition raw_len (chunks : list (list N)) : N := 6 + 2 * len chunks + len (concat chunks).

Lemma data_packet_len_eq chunks : data_packet_len chunks = raw_len chunks + padn (raw_len chunks).
Proof. reflexivity. Qed.

Definition size_table (chunks : list (list N)) : list N :=
  concat (map (fun c => le_bytes 2 (len c)) chunks).

Lemma qlen_size_table chunks : len (size_table chunks) = 2 * len chunks.
Proof.
  unfold size_table. induction chunks as [|c r IH]; [reflexivity|].
  cbn [map concat]. rewrite qlen_app, IH, qlen_le_bytes, qlen_cons. lia.
Qed.

Lemma encode_index_eq total : 16 <= total ->
  encode_packet (SIndex total) =
  [0] ++ [0; (total - 1) mod 256; (total - 1) / 256 mod 256; 0; 0; 0; 0; 0; 0; 0; 0; 0; 0; 0; 0]
  ++ zeros (total - 16).
Proof.
  intros H. cbn [encode_packet]. replace (total - 4) with (12 + (total - 16)) by lia.
  rewrite zeros_add. reflexivity.
Qed.

Lemma encode_ignored_eq total :
  encode_packet (SIgnored total) =
  [2] ++ [0; (total - 1) mod 256; (total - 1) / 256 mod 256] ++ zeros (total - 4).
Proof. reflexivity. Qed.

Lemma encode_data_eq chunks :
  encode_packet (SData chunks) =
  [1] ++ [0; (data_packet_len chunks - 1) mod 256; (data_packet_len chunks - 1) / 256 mod 256;
          len chunks mod 256; len chunks / 256 mod 256]
  ++ size_table chunks ++ concat chunks ++ zeros (padn (raw_len chunks)).
Proof.
  cbn [encode_packet]. unfold pad4.
  set (body := [1; 0] ++ _).
  assert (Hl : len body = raw_len chunks).
  { subst body. rewrite !qlen_app, !qlen_le_bytes. fold (size_table chunks).
    rewrite qlen_size_table. unfold raw_len. change (len [1; 0]) with 2. lia. }
  rewrite Hl. fold (padn (raw_len chunks)). subst body. fold (size_table chunks).
  cbn [le_bytes app]. rewrite <- !app_assoc. reflexivity.
Qed.

Lemma qlen_encode_index total : 4 <= total -> len (encode_packet (SIndex total)) = total.
Proof.
  intros H. cbn [encode_packet]. rewrite !qlen_app, qlen_le_bytes, qlen_zeros.
  change (len [0; 0]) with 2. lia.
Qed.

Lemma qlen_encode_ignored total : 4 <= total -> len (encode_packet (SIgnored total)) = total.
Proof.
  intros H. cbn [encode_packet]. rewrite !qlen_app, qlen_le_bytes, qlen_zeros.
  change (len [2; 0]) with 2. lia.
Qed.

Lemma qlen_encode_data chunks : len (encode_packet (SData chunks)) = data_packet_len chunks.
Proof.
  rewrite encode_data_eq, !qlen_app, qlen_size_table, qlen_zeros, data_packet_len_eq.
  rewrite !qlen_cons, qlen_nil.
  unfold raw_len. lia.
Qed.

(** What [packet_ok] says, as propositions. *)
Lemma packet_ok_index n total : packet_ok n (SIndex total) = true ->
  16 <= total /\ total <= 65536 /\ total mod 4 = 0.
Proof. cbn [packet_ok]. lia. Qed.

Lemma packet_ok_ignored n total : packet_ok n (SIgnored total) = true ->
  4 <= total /\ total <= 65536 /\ total mod 4 = 0.
Proof. cbn [packet_ok]. lia. Qed.

Lemma packet_ok_data n chunks : packet_ok n (SData chunks) = true ->
  length chunks = n /\ 0 < len chunks /\ data_packet_len chunks <= 65536 /\
  Forall (fun c => len c < 65536) chunks /\ Forall bytes_ok chunks.
Proof.
  cbn [packet_ok]. intros H.
  apply andb_prop in H as [H H5]. apply andb_prop in H as [H H4].
  apply andb_prop in H as [H H3]. apply andb_prop in H as [H1 H2].
  split; [apply Nat.eqb_eq; exact H1|]. split; [lia|]. split; [lia|]. split.
  - apply Forall_forall. intros c Hc. rewrite forallb_forall in H4. specialize (H4 c Hc). lia.
  - apply Forall_forall. intros c Hc. rewrite forallb_forall in H5. specialize (H5 c Hc).
    unfold bytes_okb in H5. rewrite forallb_forall in H5.
    apply Forall_forall. intros x Hx. specialize (H5 x Hx). unfold byte_okb in H5. unfold byte_ok. lia.
Qed.

Lemma data_packet_len_mod4 chunks : data_packet_len chunks mod 4 = 0.
Proof. rewrite data_packet_len_eq. unfold padn. lia. Qed.

Lemma qlen_encode_packet n p : packet_ok n p = true ->
  4 <= len (encode_packet p) /\ len (encode_packet p) mod 4 = 0.
Proof.
  intros H. destruct p as [chunks|total|total].
  - rewrite qlen_encode_data. pose proof (data_packet_len_mod4 chunks).
    rewrite data_packet_len_eq in *. unfold raw_len in *. lia.
  - apply packet_ok_index in H. rewrite qlen_encode_index by lia. lia.
  - apply packet_ok_ignored in H. rewrite qlen_encode_ignored by lia. lia.
Qed.

Lemma section_body_cons p l : section_body (p :: l) = encode_packet p ++ section_body l.
Proof. reflexivity. Qed.

Lemma qlen_section_body n l : Forall (fun p => packet_ok n p = true) l ->
  4 * len l <= len (section_body l) /\ len (section_body l) mod 4 = 0.
Proof.
  induction 1 as [|p l Hp Hl IH]; [split; [vm_compute; discriminate|reflexivity]|].
  rewrite section_body_cons, qlen_app, qlen_cons.
  pose proof (qlen_encode_packet n p Hp). lia.
Qed.

(** * Headers *)

Lemma u16_at_1 x a b r : le_num (slice 1 2 (x :: a :: b :: r)) = a + 256 * b.
Proof.
  change (slice 1 2 (x :: a :: b :: r)) with [a; b]. cbn [le_num]. lia.
Qed.

Lemma u16_at_3 x y z a b r : le_num (slice 3 2 (x :: y :: z :: a :: b :: r)) = a + 256 * b.
Proof.
  change (slice 3 2 (x :: y :: z :: a :: b :: r)) with [a; b]. cbn [le_num]. lia.
Qed.

Lemma hdr_index_runs log off total rest :
  16 <= total -> total <= 65536 -> total mod 4 = 0 ->
  cur log off (encode_packet (SIndex total) ++ rest) ->
  runs log packet_header_read off (off + 16) (HIndex total) /\
  cur log (off + 16) (zeros (total - 16) ++ rest).
Proof.
  intros H1 H2 H3 Hc. rewrite encode_index_eq in Hc by exact H1.
  rewrite <- !app_assoc in Hc.
  destruct (rd_runs _ _ _ _ 1 Hc eq_refl) as [Hr1 Hc1].
  destruct (rd_runs _ _ _ _ 15 Hc1 eq_refl) as [Hr2 Hc2].
  replace (off + 1 + 15) with (off + 16) in * by lia.
  split; [|exact Hc2].
  unfold packet_header_read. eapply runs_bind; [exact Hr1|].
  cbn [byte_at nth]. change (0 =? 0) with true. cbv iota.
  unfold index_header_read. eapply runs_bind; [exact Hr2|].
  cbn [byte_at nth skipn existsb]. change (0 =? 0) with true. cbn [negb orb].
  rewrite u16_at_1.
  replace ((total - 1) mod 256 + 256 * ((total - 1) / 256 mod 256) + 1) with total by lia.
  rewrite H3. change (0 =? 0) with true. cbn [negb]. apply runs_ret.
Qed.

Lemma hdr_ignored_runs log off total rest :
  4 <= total -> total <= 65536 -> total mod 4 = 0 ->
  cur log off (encode_packet (SIgnored total) ++ rest) ->
  runs log packet_header_read off (off + 4) (HIgnored total) /\
  cur log (off + 4) (zeros (total - 4) ++ rest).
Proof.
  intros H1 H2 H3 Hc. rewrite encode_ignored_eq in Hc.
  rewrite <- !app_assoc in Hc.
  destruct (rd_runs _ _ _ _ 1 Hc eq_refl) as [Hr1 Hc1].
  destruct (rd_runs _ _ _ _ 3 Hc1 eq_refl) as [Hr2 Hc2].
  replace (off + 1 + 3) with (off + 4) in * by lia.
  split; [|exact Hc2].
  unfold packet_header_read. eapply runs_bind; [exact Hr1|].
  cbn [byte_at nth]. change (2 =? 0) with false. change (2 =? 1) with false.
  change (2 =? 2) with true. cbv iota.
  unfold ignored_header_read. eapply runs_bind; [exact Hr2|].
  cbn [byte_at nth]. change (0 =? 0) with true. cbn [negb].
  rewrite u16_at_1.
  replace ((total - 1) mod 256 + 256 * ((total - 1) / 256 mod 256) + 1) with total by lia.
  rewrite H3. change (0 =? 0) with true. cbn [negb]. apply runs_ret.
Qed.

Lemma hdr_data_runs log off chunks rest :
  0 < len chunks -> data_packet_len chunks <= 65536 ->
  cur log off (encode_packet (SData chunks) ++ rest) ->
  exists flag,
  runs log packet_header_read off (off + 6) (HData flag (data_packet_len chunks) (len chunks)) /\
  cur log (off + 6) (size_table chunks ++ concat chunks ++ zeros (padn (raw_len chunks)) ++ rest).
Proof.
  intros H1 H2 Hc. rewrite encode_data_eq in Hc.
  rewrite <- !app_assoc in Hc.
  destruct (rd_runs _ _ _ _ 1 Hc eq_refl) as [Hr1 Hc1].
  destruct (rd_runs _ _ _ _ 5 Hc1 eq_refl) as [Hr2 Hc2].
  replace (off + 1 + 5) with (off + 6) in * by lia.
  eexists. split; [|exact Hc2].
  unfold packet_header_read. eapply runs_bind; [exact Hr1|].
  cbn [byte_at nth]. change (1 =? 0) with false. change (1 =? 1) with true. cbv iota.
  unfold data_header_read. eapply runs_bind; [exact Hr2|].
  rewrite u16_at_1, u16_at_3.
  pose proof (data_packet_len_mod4 chunks) as Hm.
  assert (Hn : len chunks < 65536).
  { rewrite data_packet_len_eq in H2. unfold raw_len in H2. lia. }
  assert (Hd : 6 <= data_packet_len chunks).
  { rewrite data_packet_len_eq. unfold raw_len. lia. }
  replace ((data_packet_len chunks - 1) mod 256 + 256 * ((data_packet_len chunks - 1) / 256 mod 256) + 1)
    with (data_packet_len chunks) by lia.
  replace (len chunks mod 256 + 256 * (len chunks / 256 mod 256)) with (len chunks) by lia.
  rewrite Hm. change (0 =? 0) with true. cbn [negb].
  destruct (len chunks =? 0) eqn:E; [lia|]. apply runs_ret.
Qed.

(** * Size table and chunks *)

Lemma read_sizes_runs log : forall chunks off rest,
  Forall (fun c => len c < 65536) chunks ->
  cur log off (size_table chunks ++ rest) ->
  runs log (read_sizes (length chunks)) off (off + 2 * len chunks) (map (@len N) chunks) /\
  cur log (off + 2 * len chunks) rest.
Proof.
  induction chunks as [|c r IH]; intros off rest Hlt Hc.
  - cbn [length read_sizes map]. rewrite (@qlen_nil (list N)), N.mul_0_r, N.add_0_r.
    split; [apply runs_ret|exact Hc].
  - inversion Hlt as [|? ? Hc0 Hr]; subst.
    unfold size_table in Hc. cbn [map concat] in Hc. rewrite <- app_assoc in Hc.
    destruct (rd_runs _ _ _ _ 2 Hc (qlen_le_bytes 2 _)) as [Hr1 Hc1].
    destruct (IH _ _ Hr Hc1) as [Hr2 Hc2].
    rewrite qlen_cons. replace (off + 2 * (1 + len r)) with (off + 2 + 2 * len r) by lia.
    split; [|exact Hc2].
    cbn [length read_sizes map]. eapply runs_bind; [exact Hr1|].
    eapply runs_bind; [exact Hr2|].
    rewrite le_num_le_bytes2 by exact Hc0. apply runs_ret.
Qed.

(** What [read_streams] does with the chunk of one record: appended to the bit
    buffer, or dropped when the record has no bits. *)
Definition keep_append (t : dtype) (s : bsr) (c : list N) : res bsr :=
  if bit_size t =? 0 then Ok s else bsr_append s c.

Inductive Forall4 {A B C D} (R : A -> B -> C -> D -> Prop) :
  list A -> list B -> list C -> list D -> Prop :=
| Forall4_nil : Forall4 R [] [] [] []
| Forall4_cons a b c d la lb lc ld : R a b c d -> Forall4 R la lb lc ld ->
    Forall4 R (a :: la) (b :: lb) (c :: lc) (d :: ld).

Lemma read_streams_runs log : forall ts ss chunks ss1,
  Forall4 (fun t s c s1 => keep_append t s c = Ok s1) ts ss chunks ss1 ->
  forall off rest, cur log off (concat chunks ++ rest) ->
  runs log (read_streams ts (map (@len N) chunks) ss) off (off + len (concat chunks)) ss1 /\
  cur log (off + len (concat chunks)) rest.
Proof.
  induction 1 as [|t s c s1 ts ss chunks ss1 Ha HF IH]; intros off rest Hc.
  - cbn [map read_streams concat]. rewrite qlen_nil, N.add_0_r. split; [apply runs_ret|exact Hc].
  - cbn [concat] in Hc. rewrite <- app_assoc in Hc.
    destruct (rd_runs _ _ _ _ (len c) Hc eq_refl) as [Hr1 Hc1].
    destruct (IH _ _ Hc1) as [Hr2 Hc2].
    cbn [concat]. rewrite qlen_app.
    replace (off + (len c + len (concat chunks))) with (off + len c + len (concat chunks)) by lia.
    split; [|exact Hc2].
    cbn [map read_streams]. eapply runs_bind; [exact Hr1|].
    unfold keep_append in Ha.
    eapply runs_bind with (a := s1) (off1 := off + len c).
    { destruct (bit_size t =? 0); [injection Ha as <-; apply runs_ret|apply runs_rlift; exact Ha]. }
    eapply runs_bind; [exact Hr2|]. apply runs_ret.
Qed.

Lemma Forall3_length {A B C} (R : A -> B -> C -> Prop) la lb lc :
  Forall3 R la lb lc -> length la = length lb /\ length lb = length lc.
Proof. induction 1; cbn [length]; lia. Qed.

Lemma Forall4_length {A B C D} (R : A -> B -> C -> D -> Prop) la lb lc ld :
  Forall4 R la lb lc ld -> length la = length lb /\ length lb = length lc /\ length lc = length ld.
Proof. induction 1; cbn [length]; lia. Qed.

(** * [qr_advance] *)

Lemma padn_0 n : n mod 4 = 0 -> padn n = 0.
Proof. unfold padn. lia. Qed.

Lemma advance_index log off q total rest :
  off mod 4 = 0 -> packet_ok (length (q_proto q)) (SIndex total) = true ->
  cur log off (encode_packet (SIndex total) ++ rest) ->
  runs log (qr_advance q) off (off + total) q /\ cur log (off + total) rest.
Proof.
  intros Hoff Hok Hc. apply packet_ok_index in Hok as (H1 & H2 & H3).
  destruct (hdr_index_runs _ _ _ _ H1 H2 H3 Hc) as [Hr1 Hc1].
  destruct (rd_runs _ _ _ _ (total - 16) Hc1 (qlen_zeros _)) as [Hr2 Hc2].
  replace (off + 16 + (total - 16)) with (off + total) in * by lia.
  split; [|exact Hc2].
  unfold qr_advance. eapply runs_bind; [exact Hr1|].
  cbv iota. unfold INDEX_HEADER_SIZE.
  destruct (total <? 16) eqn:E; [lia|].
  eapply runs_bind; [eapply runs_bind; [exact Hr2|apply runs_ret]|].
  assert (Hp : padn (off + total) = 0) by (apply padn_0; lia).
  assert (Hc3 : cur log (off + total) (zeros (padn (off + total)) ++ rest)) by (rewrite Hp; exact Hc2).
  destruct (align_runs _ _ _ Hc3) as [Hr3 _]. rewrite Hp, N.add_0_r in Hr3.
  eapply runs_bind; [exact Hr3|]. apply runs_ret.
Qed.

Lemma advance_ignored log off q total rest :
  off mod 4 = 0 -> packet_ok (length (q_proto q)) (SIgnored total) = true ->
  cur log off (encode_packet (SIgnored total) ++ rest) ->
  runs log (qr_advance q) off (off + total) q /\ cur log (off + total) rest.
Proof.
  intros Hoff Hok Hc. apply packet_ok_ignored in Hok as (H1 & H2 & H3).
  destruct (hdr_ignored_runs _ _ _ _ H1 H2 H3 Hc) as [Hr1 Hc1].
  destruct (rd_runs _ _ _ _ (total - 4) Hc1 (qlen_zeros _)) as [Hr2 Hc2].
  replace (off + 4 + (total - 4)) with (off + total) in * by lia.
  split; [|exact Hc2].
  unfold qr_advance. eapply runs_bind; [exact Hr1|].
  cbv iota. unfold IGNORED_HEADER_SIZE.
  destruct (total <? 4) eqn:E; [lia|].
  eapply runs_bind; [eapply runs_bind; [exact Hr2|apply runs_ret]|].
  assert (Hp : padn (off + total) = 0) by (apply padn_0; lia).
  assert (Hc3 : cur log (off + total) (zeros (padn (off + total)) ++ rest)) by (rewrite Hp; exact Hc2).
  destruct (align_runs _ _ _ Hc3) as [Hr3 _]. rewrite Hp, N.add_0_r in Hr3.
  eapply runs_bind; [exact Hr3|]. apply runs_ret.
Qed.

Lemma advance_data log off q chunks rest ss1 ss2 qs2 :
  off mod 4 = 0 -> packet_ok (length (q_proto q)) (SData chunks) = true ->
  cur log off (encode_packet (SData chunks) ++ rest) ->
  Forall4 (fun t s c s1 => keep_append t s c = Ok s1) (q_proto q) (q_streams q) chunks ss1 ->
  has_sized (q_proto q) = true ->
  parse_streams (q_proto q) ss1 (q_queues q) = Ok (ss2, qs2) ->
  runs log (qr_advance q) off (off + data_packet_len chunks) (mkQr (q_proto q) ss2 qs2) /\
  cur log (off + data_packet_len chunks) rest.
Proof.
  intros Hoff Hok Hc HF Hhs Hps.
  apply packet_ok_data in Hok as (Hn & H0 & Hdl & Hlt & _).
  destruct (hdr_data_runs _ _ _ _ H0 Hdl Hc) as (flag & Hr1 & Hc1).
  destruct (read_sizes_runs _ _ _ _ Hlt Hc1) as [Hr2 Hc2].
  destruct (read_streams_runs _ _ _ _ _ HF _ _ Hc2) as [Hr3 Hc3].
  assert (Ho : off + 6 + 2 * len chunks + len (concat chunks) = off + raw_len chunks)
    by (unfold raw_len; lia).
  rewrite Ho in *.
  assert (Hp : padn (off + raw_len chunks) = padn (raw_len chunks)) by (unfold padn; lia).
  rewrite <- Hp in Hc3. destruct (align_runs _ _ _ Hc3) as [Hr4 Hc4].
  rewrite Hp in Hr4, Hc4.
  replace (off + raw_len chunks + padn (raw_len chunks)) with (off + data_packet_len chunks) in *
    by (rewrite data_packet_len_eq; lia).
  split; [|exact Hc4].
  unfold qr_advance. eapply runs_bind; [exact Hr1|]. cbv iota.
  destruct (Forall4_length _ _ _ _ _ HF) as (Hl0 & Hl1 & Hl2).
  assert (Hcnt : (len chunks =? len (q_streams q)) = true) by (unfold len; lia).
  rewrite Hcnt. cbn [negb].
  eapply runs_bind.
  - eapply runs_bind; [rewrite <- Hn; exact Hr2|].
    eapply runs_bind; [exact Hr3|].
    rewrite Hhs. cbn [negb].
    eapply runs_bind; [apply runs_rlift; exact Hps|]. cbv iota. apply runs_ret.
  - eapply runs_bind; [exact Hr4|]. apply runs_ret.
Qed.

(** * The section header and [raw_new] *)

Lemma slice_mid {A} s n (a b c : list A) : len a = s -> len b = n -> slice s n (a ++ b ++ c) = b.
Proof.
  intros Ha Hb. unfold slice. rewrite drop_app_exact by exact Ha. apply take_app_exact. exact Hb.
Qed.

Lemma cv_header_runs log off len_field data_offset rest :
  len_field < 2 ^ 64 -> len_field mod 4 = 0 -> data_offset < 2 ^ 64 ->
  cur log off (([1; 0; 0; 0; 0; 0; 0; 0] ++ le_bytes 8 len_field ++ le_bytes 8 data_offset
                ++ le_bytes 8 0) ++ rest) ->
  runs log cv_header_read off (off + 32) (mkCv len_field data_offset 0) /\
  cur log (off + 32) rest.
Proof.
  intros H1 H2 H3 Hc.
  assert (Hl : len ([1; 0; 0; 0; 0; 0; 0; 0] ++ le_bytes 8 len_field ++ le_bytes 8 data_offset
                    ++ le_bytes 8 0) = 32).
  { rewrite !qlen_app, !qlen_le_bytes. reflexivity. }
  destruct (rd_runs _ _ _ _ 32 Hc Hl) as [Hr1 Hc1].
  split; [|exact Hc1].
  unfold cv_header_read. eapply runs_bind; [exact Hr1|].
  set (h8 := [1; 0; 0; 0; 0; 0; 0; 0]).
  assert (E1 : slice 8 8 (h8 ++ le_bytes 8 len_field ++ le_bytes 8 data_offset ++ le_bytes 8 0)
               = le_bytes 8 len_field).
  { apply slice_mid; [reflexivity|apply qlen_le_bytes]. }
  assert (E2 : slice 16 8 (h8 ++ le_bytes 8 len_field ++ le_bytes 8 data_offset ++ le_bytes 8 0)
               = le_bytes 8 data_offset).
  { rewrite (app_assoc h8). apply slice_mid; [|apply qlen_le_bytes].
    rewrite qlen_app, qlen_le_bytes. reflexivity. }
  assert (E3 : slice 24 8 (h8 ++ le_bytes 8 len_field ++ le_bytes 8 data_offset ++ le_bytes 8 0)
               = le_bytes 8 0).
  { rewrite (app_assoc h8), (app_assoc (h8 ++ _)).
    rewrite <- (app_nil_r (le_bytes 8 0)) at 1. rewrite slice_mid; [reflexivity| |apply qlen_le_bytes].
    rewrite !qlen_app, !qlen_le_bytes. reflexivity. }
  rewrite E1, E2, E3.
  rewrite (le_num_le_bytes8 _ H1), (le_num_le_bytes8 _ H3), (le_num_le_bytes8 0) by lia.
  subst h8. cbn [app byte_at nth cv_section_length]. change (1 =? 1) with true. cbn [negb].
  rewrite H2. change (0 =? 0) with true. cbn [negb]. apply runs_ret.
Qed.

(** [raw_new] on a section inside the stream.  The seek to the data offset
    (only done when there are records) needs one byte after the section header:
    a packet or a byte of [post]. *)
Lemma raw_new_runs_gen log pre lay post n records proto :
  log = pre ++ encode_section (phys_of_log (len pre + 32)) lay ++ post ->
  records = 0 \/ post <> [] ->
  Forall (fun p => packet_ok n p = true) lay ->
  len log mod 1020 = 0 -> phys_of_log (len log) < 2 ^ 64 ->
  runs log (raw_new (phys_of_log (len pre)) records proto) 0 (len pre + 32)
       (mkRaw (mkQr proto (map (fun _ => bsr_new) proto) (map (fun _ => []) proto)) records 0) /\
  cur log (len pre + 32) (section_body lay ++ post).
Proof.
  intros Hlog Hpost Hlay Hmod Hsz.
  destruct (qlen_section_body n lay Hlay) as [_ Hb4].
  assert (Hc0 : cur log (len pre) (encode_section (phys_of_log (len pre + 32)) lay ++ post)).
  { rewrite Hlog. apply cur_app. }
  pose proof (cur_len _ _ _ Hc0) as HL.
  unfold encode_section in Hc0, HL.
  rewrite !app_assoc in Hc0, HL. rewrite <- !(app_assoc _ _ (le_bytes 8 0)) in Hc0, HL.
  rewrite <- !(app_assoc _ _ (le_bytes 8 (phys_of_log (len pre + 32)) ++ le_bytes 8 0)) in Hc0, HL.
  rewrite <- (app_assoc _ (section_body lay) post) in Hc0, HL.
  assert (Hpl : records = 0 \/ 0 < len post).
  { destruct Hpost as [Hpost|Hpost]; [left; exact Hpost|right].
    destruct post; [congruence|]. rewrite qlen_cons. lia. }
  rewrite qlen_app in HL. rewrite (qlen_app (section_body lay)) in HL.
  rewrite !qlen_app, !qlen_le_bytes in HL. change (len [1; 0; 0; 0; 0; 0; 0; 0]) with 8 in HL.
  assert (Hlt : len log < 2 ^ 64).
  { unfold phys_of_log, PAYLOAD_SZ in Hsz. lia. }
  assert (Hdo : phys_of_log (len pre + 32) < 2 ^ 64).
  { eapply N.le_lt_trans; [apply phys_of_log_mono|exact Hsz]. lia. }
  destruct (cv_header_runs log (len pre) (32 + len (section_body lay)) (phys_of_log (len pre + 32))
              (section_body lay ++ post)) as [Hr1 Hc1]; try assumption; try lia.
  split; [|exact Hc1].
  unfold raw_new, qr_new.
  eapply runs_bind; [|apply runs_ret].
  eapply runs_bind; [apply seek_runs; [exact Hmod|lia]|].
  eapply runs_bind; [exact Hr1|]. cbn [cv_data_offset].
  destruct (0 <? records) eqn:E.
  - eapply runs_bind; [apply seek_runs; [exact Hmod|lia]|]. apply runs_ret.
  - eapply runs_bind; [apply runs_ret|]. apply runs_ret.
Qed.

Lemma raw_new_runs log pre lay post n records proto :
  log = pre ++ encode_section (phys_of_log (len pre + 32)) lay ++ post ->
  post <> [] ->
  Forall (fun p => packet_ok n p = true) lay ->
  len log mod 1020 = 0 -> phys_of_log (len log) < 2 ^ 64 ->
  runs log (raw_new (phys_of_log (len pre)) records proto) 0 (len pre + 32)
       (mkRaw (mkQr proto (map (fun _ => bsr_new) proto) (map (fun _ => []) proto)) records 0) /\
  cur log (len pre + 32) (section_body lay ++ post).
Proof.
  intros Hlog Hpost. apply raw_new_runs_gen; [exact Hlog|right; exact Hpost].
Qed.
