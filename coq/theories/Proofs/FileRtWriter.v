(** File-level round trip, part 1 (writer side, on the logical stream): the
    whole writer program [file_prog] leaves the logical stream
    [header ++ section_1 ++ ... ++ section_n ++ xml], every section being the
    blob section / a compressed-vector section of a legal layout, starting at
    a 4-aligned logical offset whose physical address is what the item
    publishes; the header holds the physical size of the padded file, the
    physical address of the XML and its length. *)
From E57 Require Import Base.Prelude Spec.PageSpec Model.PagedWriter Model.Prog Model.Record
  Model.QueueReader Model.PcWriter Model.FileBin Spec.FormatSpec.
From E57 Require Import Proofs.PagedWriterLemmas Proofs.ProgTransfer Proofs.PcWriterLemmas
  Proofs.PcWriterProofs Proofs.BlobProofs.
From Coq Require Import ZifyN ZifyNat ZifyBool.
Ltac Zify.zify_post_hook ::= Z.div_mod_to_equations.
Open Scope N_scope.

(** * The program and the conditions on its inputs *)

(** what the round trip needs of an item: nothing for a blob; for a point cloud the
    format-level scene condition and a prototype the packet writer accepts *)
Definition item_wf (i : item) : bool :=
  match i with
  | IBlob _ => true
  | IPc proto points => scene_ok proto points && is_ok (get_max_packet_points proto)
  end.

(** the condition as first proposed (bytes of a blob below 256 in addition) *)
Definition item_ok (i : item) : bool :=
  match i with
  | IBlob data => bytes_okb data
  | IPc proto points => scene_ok proto points && is_ok (get_max_packet_points proto)
  end.

Lemma item_ok_wf i : item_ok i = true -> item_wf i = true.
Proof. destruct i; [reflexivity|exact (fun H => H)]. Qed.

Lemma items_ok_wf is : forallb item_ok is = true -> forallb item_wf is = true.
Proof.
  induction is as [|i r IH]; [reflexivity|]. cbn [forallb]. intros H.
  apply andb_prop in H as [H1 H2]. rewrite (item_ok_wf _ H1), (IH H2). reflexivity.
Qed.

Definition file_prog (is : list item) (xml : list N) : wprog (list item_out) :=
  (writer_init ;;; outs <- items_write is ;; writer_finalize xml ;;; wret outs)%wprog.

(** * The sections of the items *)

(** item [i], publishing [o], occupies the bytes [s] from logical offset [base] *)
Definition sec_of (base : N) (i : item) (o : item_out) (s : list N) : Prop :=
  match i, o with
  | IBlob data, OBlob off l => off = phys_of_log base /\ l = len data /\ s = blob_section data
  | IPc proto points, OPc off n =>
      off = phys_of_log base /\ n = len points /\
      exists lay, legal proto points lay = true /\ s = encode_section (phys_of_log (base + 32)) lay
  | _, _ => False
  end.

Inductive laid : N -> list item -> list item_out -> list (list N) -> Prop :=
| laid_nil base : laid base [] [] []
| laid_cons base i o s is outs secs :
    base mod 4 = 0 -> sec_of base i o s -> laid (base + len s) is outs secs ->
    laid base (i :: is) (o :: outs) (s :: secs).

Lemma lend_eta l : ls_pos l = len (ls_data l) -> l = lend (ls_data l).
Proof. destruct l as [d p]. cbn [ls_data ls_pos]. intros ->. reflexivity. Qed.

Lemma item_write_spec : forall i d, item_wf i = true -> len d mod 4 = 0 ->
  exists o s, wrun_spec (item_write i) (lend d) = (lend (d ++ s), Ok o) /\
              sec_of (len d) i o s /\ len (d ++ s) mod 4 = 0.
Proof.
  intros [data|proto points] d Hwf Hal.
  - destruct (blob_write_spec data (lend d) eq_refl Hal) as (l1 & Hrun & Hd & Hp & Hal1).
    cbn [ls_data lend] in Hrun, Hd. rewrite (lend_eta l1 Hp), Hd in Hrun. rewrite Hd in Hal1.
    exists (OBlob (phys_of_log (len d)) (len data)), (blob_section data).
    split; [|split; [cbn [sec_of]; auto|exact Hal1]].
    cbn [item_write]. rewrite (run_bind_ok _ _ _ _ _ Hrun). reflexivity.
  - cbn [item_wf] in Hwf. apply andb_prop in Hwf as [Hscene Hmpp].
    destruct (get_max_packet_points proto) as [mpp| |] eqn:Empp; try discriminate Hmpp.
    destruct (pcw_emits_spec proto points (lend d) mpp Hscene Empp eq_refl Hal)
      as (lay & l1 & Hrun & Hlegal & Hd & Hp & Hal1).
    cbn [ls_data lend] in Hrun, Hd. rewrite (lend_eta l1 Hp), Hd in Hrun. rewrite Hd in Hal1.
    exists (OPc (phys_of_log (len d)) (len points)), (encode_section (phys_of_log (len d + 32)) lay).
    split; [exact Hrun|]. split; [|exact Hal1].
    cbn [sec_of]. split; [reflexivity|]. split; [reflexivity|]. exists lay. auto.
Qed.

Lemma items_write_spec : forall is d, forallb item_wf is = true -> len d mod 4 = 0 ->
  exists outs secs,
    wrun_spec (items_write is) (lend d) = (lend (d ++ concat secs), Ok outs) /\
    laid (len d) is outs secs /\ len (d ++ concat secs) mod 4 = 0.
Proof.
  induction is as [|i r IH]; intros d Hwf Hal.
  - exists [], []. cbn [items_write concat]. rewrite app_nil_r.
    split; [reflexivity|]. split; [constructor|exact Hal].
  - cbn [forallb] in Hwf. apply andb_prop in Hwf as [Hi Hr].
    destruct (item_write_spec i d Hi Hal) as (o & s & Hrun1 & Hsec & Hal1).
    destruct (IH (d ++ s) Hr Hal1) as (outs & secs & Hrun2 & Hlaid & Hal2).
    exists (o :: outs), (s :: secs). cbn [items_write concat].
    rewrite app_assoc. split; [|split; [|exact Hal2]].
    + rewrite (run_bind_ok _ _ _ _ _ Hrun1). rewrite (run_bind_ok _ _ _ _ _ Hrun2). reflexivity.
    + constructor; [exact Hal|exact Hsec|]. rewrite pc_len_app in Hlaid. exact Hlaid.
Qed.

(** * The header *)

Definition hdr (pl xo xl : N) : list N := concat (header_fields pl xo xl).

Lemma len_hdr pl xo xl : len (hdr pl xo xl) = 48.
Proof. reflexivity. Qed.

Lemma ls_write_app l a b : ls_write (ls_write l a) b = ls_write l (a ++ b).
Proof.
  destruct a as [|x a]; [reflexivity|].
  destruct b as [|y b]; [rewrite app_nil_r; reflexivity|].
  rewrite (ls_write_ne l (x :: a)) by discriminate.
  rewrite (ls_write_ne _ (y :: b)) by discriminate.
  rewrite (ls_write_ne l ((x :: a) ++ y :: b)) by discriminate.
  cbn [ls_data ls_pos]. rewrite overwrite_overwrite, pc_len_app. f_equal. lia.
Qed.

Lemma wr_all_as_write : forall chunks l,
  wrun_spec (wr_all chunks) l = (ls_write l (concat chunks), Ok tt).
Proof.
  induction chunks as [|c r IH]; intros l; cbn [wr_all concat]; [reflexivity|].
  rewrite (run_bind_ok _ _ _ _ _ (wrun_wr c l)), IH, ls_write_app. reflexivity.
Qed.

Lemma header_write_start pl xo xl :
  wrun_spec (header_write pl xo xl) ls_init = (lend (hdr pl xo xl), Ok tt).
Proof.
  unfold header_write. change ls_init with (lend []). rewrite run_wr_all. reflexivity.
Qed.

(** overwriting the placeholder header *)
Lemma header_write_over pl xo xl rest :
  wrun_spec (header_write pl xo xl) (mkLs (hdr 0 0 0 ++ rest) 0) = (mkLs (hdr pl xo xl ++ rest) 48, Ok tt).
Proof.
  unfold header_write. rewrite wr_all_as_write. fold (hdr pl xo xl).
  rewrite ls_write_ne by discriminate. cbn [ls_data ls_pos].
  pose proof (PagedWriterLemmas.overwrite_mid [] (hdr 0 0 0) rest (hdr pl xo xl) eq_refl) as H.
  cbn [app] in H. change (len (@nil N)) with 0 in H. rewrite H. reflexivity.
Qed.

(** * [writer_finalize] *)

Lemma writer_finalize_spec : forall xml body,
  wrun_spec (writer_finalize xml) (lend (hdr 0 0 0 ++ body)) =
  (mkLs (hdr (pages_for (48 + len body + len xml) * 1024) (phys_of_log (48 + len body)) (len xml)
           ++ body ++ xml) 48, Ok tt).
Proof.
  intros xml body. unfold writer_finalize.
  rewrite (run_bind_ok _ _ _ _ _ (run_w_position_end _)).
  rewrite (run_bind_ok _ _ _ _ _ (run_wr _ _)).
  assert (Hsz : wrun_spec w_size (lend ((hdr 0 0 0 ++ body) ++ xml))
                = (lend ((hdr 0 0 0 ++ body) ++ xml), Ok (pages_for (48 + len body + len xml) * 1024))).
  { unfold w_size, wop. cbn [wrun_spec ls_step wlift]. unfold ls_phys_size, lend. cbn [ls_data].
    rewrite !pc_len_app, len_hdr. reflexivity. }
  rewrite (run_bind_ok _ _ _ _ _ Hsz).
  assert (Hseek : wrun_spec (w_seek 0) (lend ((hdr 0 0 0 ++ body) ++ xml))
                  = (mkLs ((hdr 0 0 0 ++ body) ++ xml) 0, Ok tt)).
  { exact (run_w_seek ((hdr 0 0 0 ++ body) ++ xml) _ 0 (N.le_0_l _)). }
  rewrite (run_bind_ok _ _ _ _ _ Hseek).
  rewrite <- app_assoc.
  rewrite (run_bind_ok _ _ _ _ _ (header_write_over _ _ _ _)).
  rewrite pc_len_app, len_hdr. reflexivity.
Qed.

(** * The whole program on the logical stream *)

Theorem file_prog_spec : forall (is : list item) (xml : list N),
  forallb item_wf is = true ->
  exists outs secs,
    wrun_spec (file_prog is xml) ls_init =
      (mkLs (hdr (pages_for (48 + len (concat secs) + len xml) * 1024)
                 (phys_of_log (48 + len (concat secs))) (len xml) ++ concat secs ++ xml) 48, Ok outs) /\
    laid 48 is outs secs /\ (48 + len (concat secs)) mod 4 = 0.
Proof.
  intros is xml Hwf.
  destruct (items_write_spec is (hdr 0 0 0) Hwf eq_refl) as (outs & secs & Hrun & Hlaid & Hal).
  exists outs, secs. rewrite pc_len_app, len_hdr in Hal. rewrite len_hdr in Hlaid.
  split; [|split; assumption].
  unfold file_prog, writer_init.
  rewrite (run_bind_ok _ _ _ _ _ (header_write_start 0 0 0)).
  rewrite (run_bind_ok _ _ _ _ _ Hrun).
  rewrite (run_bind_ok _ _ _ _ _ (writer_finalize_spec xml (concat secs))).
  reflexivity.
Qed.

Print Assumptions file_prog_spec.
