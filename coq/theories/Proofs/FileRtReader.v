(** File-level round trip, part 2 (reader side): the raw header read and
    [pr_new] on a device holding the pagination of a whole number of payloads,
    [open_paged] on the logical stream, and the read-back of every laid-out
    item from any reachable state of the opened reader. *)
From E57 Require Import Base.Prelude Model.Crc Model.Device Model.PagedReader Spec.PageSpec Spec.PageReadSpec
  Model.Prog Model.Record Model.QueueReader Model.PcWriter Model.FileBin Model.ReaderOpen Spec.FormatSpec.
From E57 Require Import Proofs.PageSpecLemmas Proofs.PagedReaderCache Proofs.PagedReaderLogical
  Proofs.PagedReaderProofs Proofs.ProgTransfer Proofs.ReaderProgSem Proofs.ReaderProgStrict
  Proofs.ReaderProgAlter Proofs.ReaderSessions Proofs.BlobProofs Proofs.QueueReaderProofs
  Proofs.FileRtWriter.
From Coq Require Import ZifyN ZifyNat ZifyBool.
Ltac Zify.zify_post_hook ::= Z.div_mod_to_equations.
Open Scope N_scope.

(** * The header *)

Lemma header_parse_hdr a b c :
  header_parse (hdr a b c) = Ok (mkHeader 1 0 (a mod 2 ^ 64) (b mod 2 ^ 64) (c mod 2 ^ 64) 1024).
Proof.
  unfold header_parse.
  change (take 8 (hdr a b c)) with SIGNATURE.
  change (slice 8 4 (hdr a b c)) with (le_bytes 4 1).
  change (slice 12 4 (hdr a b c)) with (le_bytes 4 0).
  change (slice 16 8 (hdr a b c)) with (le_bytes 8 a).
  change (slice 24 8 (hdr a b c)) with (le_bytes 8 b).
  change (slice 32 8 (hdr a b c)) with (le_bytes 8 c).
  change (slice 40 8 (hdr a b c)) with (le_bytes 8 1024).
  rewrite !BlobProofs.le_num_le_bytes.
  change (256 ^ N.of_nat 8) with (2 ^ 64).
  change (1 mod 256 ^ N.of_nat 4) with 1. change (0 mod 256 ^ N.of_nat 4) with 0.
  change (1024 mod 2 ^ 64) with 1024.
  cbv zeta. cbn [h_major h_minor h_page_size].
  destruct (list_eq_dec N.eq_dec SIGNATURE SIGNATURE) as [_|Hn]; [|exfalso; apply Hn; reflexivity].
  reflexivity.
Qed.

(** the raw [Header::read] performs the checks of [header_parse] on the 48 bytes it got *)
Lemma header_read_parse d d1 data :
  relabel ERead (d_read_exact 48) d = (d1, Ok data) -> header_read d = (d1, header_parse data).
Proof.
  intros H. unfold header_read, bind. rewrite H. unfold header_parse. cbv zeta.
  cbn [h_major h_minor h_page_size].
  destruct (list_eq_dec N.eq_dec (take 8 data) SIGNATURE); cbn [negb]; [|reflexivity].
  destruct (le_num (slice 8 4 data) =? 1); cbn [negb h_major]; [|reflexivity].
  destruct (le_num (slice 12 4 data) =? 0); cbn [negb h_minor]; [|reflexivity].
  destruct (le_num (slice 40 8 data) =? 1024); cbn [negb h_page_size]; reflexivity.
Qed.

Lemma d_read_exact_init f n : n <> 0 -> n <= len f ->
  d_read_exact n (dev_init f None) = (mkDev f n 1 None [], Ok (take n f)).
Proof.
  intros Hn Hle. unfold d_read_exact. cbn [d_read_exact_loop].
  destruct (n =? 0) eqn:E; [lia|].
  cbv beta iota zeta delta [bind d_read tick dev_init set_cur d_fault d_bytes d_cur d_ops d_log].
  rewrite slice_0.
  assert (Hl : len (take n f) = n) by (rewrite len_take; lia).
  destruct (take n f) as [|b got] eqn:Eg; [rewrite len_nil in Hl; lia|].
  rewrite <- Eg in *. rewrite Hl. replace (n - n) with 0 by lia. rewrite N.add_0_l.
  destruct (N.to_nat n); reflexivity.
Qed.

Lemma take_paginate n log : log <> [] -> len log mod 1020 = 0 -> n <= 1020 ->
  take n (paginate log) = take n log.
Proof.
  intros Hne Hm Hn. apply len_nonnil in Hne.
  unfold paginate. rewrite (pad_payload_divisible log Hm), (pages_for_divisible _ Hm).
  destruct (N.to_nat (len log / 1020)) as [|k] eqn:E; [lia|].
  cbn [paginate_n]. unfold PAYLOAD_SZ.
  rewrite take_app_le by (rewrite len_take; lia).
  rewrite take_take. f_equal. lia.
Qed.

(** the raw header read of a file whose first 48 logical bytes are a header *)
Lemma header_read_paginate log a b c rest :
  log = hdr a b c ++ rest -> len log mod 1020 = 0 ->
  header_read (dev_init (paginate log) None)
  = (mkDev (paginate log) 48 1 None [],
     Ok (mkHeader 1 0 (a mod 2 ^ 64) (b mod 2 ^ 64) (c mod 2 ^ 64) 1024)).
Proof.
  intros Hlog Hm.
  assert (Hne : log <> []) by (rewrite Hlog; discriminate).
  assert (HL : 48 <= len log) by (rewrite Hlog, len_app, len_hdr; lia).
  assert (Hf : 48 <= len (paginate log)).
  { rewrite len_paginate, (pages_for_divisible _ Hm). lia. }
  erewrite header_read_parse.
  2:{ unfold relabel. rewrite (d_read_exact_init _ 48) by (try exact Hf; lia). reflexivity. }
  cbn [res_relabel]. rewrite take_paginate by (try assumption; lia).
  rewrite Hlog, take_app_le by (rewrite len_hdr; lia).
  rewrite take_all by (rewrite len_hdr; lia).
  rewrite header_parse_hdr. reflexivity.
Qed.

(** * [pr_new] on any fault-free device *)

Lemma pr_new_ok d :
  d_fault d = None -> len (d_bytes d) <> 0 -> len (d_bytes d) mod 1024 = 0 ->
  exists d1 s0, pr_new 1024 d = (d1, Ok s0) /\ pr_inv 1024 (d_bytes d) s0 /\ pr_off s0 = 0.
Proof.
  destruct d as [bytes cur ops fault lg]. cbn [d_fault d_bytes]. intros -> Hnz Hm.
  unfold pr_new, MAX_PAGE_SIZE, CHECKSUM_SIZE.
  change (1024 * 1024 <? 1024) with false. change (1024 <=? 4) with false. cbv iota.
  unfold d_seek_end, bind, tick, set_cur. cbn [d_fault d_bytes d_cur d_ops d_log].
  destruct (len bytes =? 0) eqn:E3; [lia|].
  destruct (len bytes mod 1024 =? 0) eqn:E4; cbn [negb]; [|lia].
  eexists _, _. split; [reflexivity|]. split; [|reflexivity].
  constructor; cbn [pr_dev pr_page_size pr_phy_size pr_log_size pr_pages pr_buf pr_page_num
                    d_fault d_bytes]; try reflexivity; try lia.
  discriminate.
Qed.

(** [reader_open] on a well-formed image whose logical stream starts with a header: the raw
    header read and [pr_new] succeed; what remains is [open_paged] on a fresh paged reader *)
Lemma reader_open_paginate log a b c rest :
  log = hdr a b c ++ rest -> len log mod 1020 = 0 ->
  exists s0, pr_inv 1024 (paginate log) s0 /\ pr_off s0 = 0 /\
    reader_open (dev_init (paginate log) None) =
    (let '(s1, r3) := rrun open_paged s0 in
     match r3 with
     | Ok (h, xml) => (pr_dev s1, Ok (s1, h, xml))
     | Err k => (pr_dev s1, Err k)
     | Panic => (pr_dev s1, Panic)
     end).
Proof.
  intros Hlog Hm.
  pose proof (header_read_paginate log a b c rest Hlog Hm) as Hhdr.
  assert (HL : 48 <= len log) by (rewrite Hlog, len_app, len_hdr; lia).
  destruct (pr_new_ok (mkDev (paginate log) 48 1 None []) eq_refl) as (d2 & s0 & Hnew & I0 & Hoff0).
  { cbn [d_bytes]. rewrite len_paginate, (pages_for_divisible _ Hm). lia. }
  { cbn [d_bytes]. rewrite len_paginate, (pages_for_divisible _ Hm). lia. }
  exists s0. split; [exact I0|]. split; [exact Hoff0|].
  unfold reader_open. rewrite Hhdr. cbn [h_page_size]. rewrite Hnew. cbn [res_relabel]. reflexivity.
Qed.

(** * Programs on reachable states of a reader over a well-formed image *)

Section OnLog.
Variable log : list N.
Hypothesis Hmod : len log mod 1020 = 0.

Lemma inv_log_size s : pr_inv 1024 (paginate log) s -> pr_log_size s = len log.
Proof.
  intros I. rewrite (inv_log _ _ _ I), len_paginate, (pages_for_divisible _ Hmod). lia.
Qed.

(** a strict program that starts with an absolute seek, run after any history of page-layer
    operations, returns what it returns on the logical stream from offset 0 *)
Lemma rrun_seek_reachable A (x : N) (k : res pr_out -> rprog A) (s : pr) (ops : list pr_op) :
  pr_inv 1024 (paginate log) s -> strict (ROp (PrSeek x) k) ->
  snd (rrun (ROp (PrSeek x) k) (fst (pr_run ops s))) = snd (rrun_spec log (ROp (PrSeek x) k) 0).
Proof.
  intros I Hs.
  destruct (pr_run_inv log Hmod ops s I) as [I1 _].
  pose proof (pr_inv_set_off _ _ s 0 I) as Iz.
  rewrite (history_independent 1024 (paginate log) A x k _ _ I1 Iz Hs).
  rewrite (rrun_inv log Hmod A _ _ Iz). reflexivity.
Qed.

(** * [open_paged] on the logical stream *)

Lemma rrun_rd_any n off : off + n <= len log ->
  rrun_spec log (rd n) off = (off + n, Ok (slice off n log)).
Proof.
  intros H. destruct (N.eq_dec n 0) as [->|Hn]; [|apply rrun_rd; assumption].
  rewrite slice_len0, N.add_0_r. reflexivity.
Qed.

Lemma open_paged_spec pl xo_log rest xml :
  log = hdr pl (phys_of_log xo_log) (len xml) ++ rest ->
  pl < 2 ^ 64 -> phys_of_log xo_log < 2 ^ 64 -> len xml <= MAX_XML_SIZE ->
  xo_log < len log -> xo_log + len xml <= len log -> slice xo_log (len xml) log = xml ->
  snd (rrun_spec log open_paged 0)
  = Ok (mkHeader 1 0 pl (phys_of_log xo_log) (len xml) 1024, xml).
Proof.
  intros Hlog Hpl Hxo Hxl Hin Hend Hslice. unfold MAX_XML_SIZE in Hxl.
  assert (HL : 48 <= len log) by (rewrite Hlog, len_app, len_hdr; lia).
  unfold open_paged.
  change 0 with (phys_of_log 0) at 1.
  erewrite rrun_spec_bind_ok by (apply rrun_seek; [lia|exact Hmod]).
  unfold header_read_paged. rewrite rrun_spec_bind.
  erewrite rrun_spec_bind_ok by (apply rrun_rd_any; lia).
  assert (Hh : slice 0 48 log = hdr pl (phys_of_log xo_log) (len xml)).
  { rewrite slice_0, Hlog, take_app_le by (rewrite len_hdr; lia).
    apply take_all. rewrite len_hdr. lia. }
  rewrite Hh, header_parse_hdr. rewrite !N.mod_small by lia.
  cbn [rlift rrun_spec h_xml_offset h_xml_length].
  unfold extract_xml, MAX_XML_SIZE.
  destruct (1024 * 1024 * 10 <? len xml) eqn:E; [lia|].
  erewrite rrun_spec_bind_ok.
  2:{ erewrite rrun_spec_bind_ok by (apply rrun_seek; [exact Hin|exact Hmod]).
      apply rrun_rd_any. exact Hend. }
  rewrite Hslice. reflexivity.
Qed.

(** * Reading the items back *)

Definition reads_back_spec (i : item) (o : item_out) : Prop :=
  match i, o with
  | IBlob data, OBlob off l =>
      l = len data /\ snd (rrun_spec log (blob_read (len log) off l) 0) = Ok data
  | IPc proto points, OPc off n =>
      n = len points /\
      forall fuel, (length points < fuel)%nat ->
        snd (rrun_spec log (rbind (raw_new off n proto) (fun it => raw_collect fuel (len log) it [])) 0)
        = Ok points
  | _, _ => False
  end.

Hypothesis Hsz : phys_of_log (len log) < 2 ^ 64.

Lemma laid_reads_back : forall is outs secs pre post,
  forallb item_wf is = true -> laid (len pre) is outs secs ->
  log = pre ++ concat secs ++ post -> post <> [] ->
  Forall2 reads_back_spec is outs.
Proof.
  induction is as [|i r IH]; intros outs secs pre post Hwf Hlaid Hlog Hpost;
    inversion Hlaid as [|base i' o s is' outs' secs' Hal Hsec Hrest]; subst; [constructor|].
  cbn [forallb] in Hwf. apply andb_prop in Hwf as [Hi Hr].
  cbn [concat] in Hlog. rewrite <- app_assoc in Hlog.
  assert (Hpost' : concat secs' ++ post <> []).
  { intros E. apply app_eq_nil in E as [_ E]. contradiction. }
  assert (HLlt : len log < 2 ^ 64) by (pose proof Hsz as Hsz'; unfold phys_of_log, PAYLOAD_SZ in Hsz'; lia).
  constructor.
  - destruct i as [data|proto points]; destruct o as [off l|off n]; cbn [sec_of] in Hsec;
      try contradiction.
    + destruct Hsec as (-> & -> & ->). cbn [reads_back_spec]. split; [reflexivity|].
      assert (Hb : len pre + len (blob_section data) <= len log).
      { rewrite Hlog at 1. rewrite !len_app. lia. }
      rewrite len_blob_section in Hb.
      apply (blob_read_spec data pre (concat secs' ++ post) log Hlog Hmod); [lia|].
      unfold blob_section_length_fits_u64. lia.
    + destruct Hsec as (-> & -> & lay & Hlegal & ->). cbn [reads_back_spec]. split; [reflexivity|].
      intros fuel Hfuel. cbn [item_wf] in Hi. apply andb_prop in Hi as [Hscene _].
      apply (qr_decodes_any_layout proto points lay pre (concat secs' ++ post) log fuel);
        assumption.
  - apply (IH outs' secs' (pre ++ s) post Hr).
    + rewrite len_app. exact Hrest.
    + rewrite <- app_assoc. exact Hlog.
    + exact Hpost.
Qed.

(** the same on a paged reader in any reachable state *)
Definition reads_back (rs : pr) (i : item) (o : item_out) : Prop :=
  match i, o with
  | IBlob data, OBlob off l =>
      l = len data /\
      forall ops, snd (rrun (blob_read (pr_log_size rs) off l) (fst (pr_run ops rs))) = Ok data
  | IPc proto points, OPc off n =>
      n = len points /\
      forall ops fuel, (length points < fuel)%nat ->
        snd (rrun (rbind (raw_new off n proto) (fun it => raw_collect fuel (pr_log_size rs) it []))
                  (fst (pr_run ops rs))) = Ok points
  | _, _ => False
  end.

Lemma reads_back_of_spec rs i o :
  pr_inv 1024 (paginate log) rs -> reads_back_spec i o -> reads_back rs i o.
Proof.
  intros I. destruct i as [data|proto points]; destruct o as [off l|off n];
    cbn [reads_back_spec reads_back]; try exact (fun H => H).
  - intros [Hl H]. split; [exact Hl|]. intros ops. rewrite (inv_log_size rs I).
    destruct (op_blob_seeks (len log) off l) as [k Hk].
    pose proof (strict_op_blob (len log) off l) as Hs. unfold op_blob in Hk, Hs.
    rewrite Hk in *. rewrite (rrun_seek_reachable _ off k rs ops I Hs). exact H.
  - intros [Hn H]. split; [exact Hn|]. intros ops fuel Hfuel. rewrite (inv_log_size rs I).
    specialize (H fuel Hfuel).
    destruct (op_raw_all_seeks fuel (len log) off n proto) as [k Hk].
    pose proof (strict_op_raw_all fuel (len log) off n proto) as Hs. unfold op_raw_all in Hk, Hs.
    rewrite Hk in *. rewrite (rrun_seek_reachable _ off k rs ops I Hs). exact H.
Qed.

End OnLog.

Print Assumptions reader_open_paginate.
Print Assumptions laid_reads_back.
Print Assumptions reads_back_of_spec.
