(** C20, e57-check-crc: exit status of the tool on one file = [validate_crc] of the
    library model returns Ok = the file is a whole number of pages of the size
    announced at offset 40 and every page carries a valid checksum. *)
From E57 Require Import Base.Prelude Model.Crc Model.Device Model.PagedReader Spec.PageSpec Spec.PageReadSpec
  Model.Prog Model.QueueReader Model.FileBin Model.ReaderOpen Model.Tools.
From E57 Require Import Proofs.PageSpecLemmas Proofs.PagedReaderCache Proofs.ReaderProgSem.
From Coq Require Import ZifyN ZifyNat ZifyBool.
Ltac Zify.zify_post_hook ::= Z.div_mod_to_equations.
Local Open Scope monad_scope.

(** * The raw device: [read_exact] on a fault-free device *)
Lemma tl_d_read_view n b c o lg :
  d_read n (mkDev b c o None lg) =
  (mkDev b (c + len (slice c n b)) (o + 1) None lg, Ok (slice c n b)).
Proof. reflexivity. Qed.

Lemma tl_read_exact_step f want acc d : want <> 0 ->
  d_read_exact_loop (S f) want acc d =
  (let '(d1, r) := d_read want d in
   match r with
   | Ok [] => (d1, Err EIo)
   | Ok got => d_read_exact_loop f (want - len got) (acc ++ got) d1
   | Err e => (d1, Err e)
   | Panic => (d1, Panic)
   end).
Proof.
  intros H. cbn [d_read_exact_loop]. destruct (N.eqb_spec want 0) as [E|_]; [lia|].
  unfold bind. destruct (d_read want d) as [d1 [[|x g]|e|]]; reflexivity.
Qed.

Lemma tl_d_read_exact n d :
  d_fault d = None -> n <> 0 ->
  exists d1, d_read_exact n d =
    (d1, if d_cur d + n <=? len (d_bytes d) then Ok (slice (d_cur d) n (d_bytes d)) else Err EIo)
    /\ d_bytes d1 = d_bytes d /\ d_fault d1 = None.
Proof.
  destruct d as [b c o f lg]. cbn [d_fault d_bytes d_cur]. intros -> Hn.
  unfold d_read_exact.
  destruct (N.to_nat n) as [|f1] eqn:Ef; [lia|].
  rewrite tl_read_exact_step by exact Hn. rewrite tl_d_read_view.
  pose proof (len_slice c n b) as Hl.
  destruct (slice c n b) as [|x got] eqn:Eg.
  { rewrite len_nil in Hl. eexists. split.
    { destruct (c + n <=? len b) eqn:E; [lia|reflexivity]. }
    split; reflexivity. }
  rewrite <- Eg in *.
  assert (Hpos : 0 < len (slice c n b)) by (rewrite Eg; unfold len; cbn [length]; lia).
  destruct (N.eq_dec (len (slice c n b)) n) as [Hfull|Hshort].
  - rewrite Hfull. replace (n - n) with 0 by lia. cbn [d_read_exact_loop].
    change (0 =? 0) with true. cbv iota. cbn [ret app].
    eexists. split.
    { destruct (c + n <=? len b) eqn:E; [reflexivity|lia]. }
    split; reflexivity.
  - rewrite tl_read_exact_step by lia. rewrite tl_d_read_view.
    assert (Hl2 : len (slice (c + len (slice c n b)) (n - len (slice c n b)) b) = 0).
    { rewrite len_slice. lia. }
    rewrite (len_0_nil _ Hl2).
    eexists. split.
    { destruct (c + n <=? len b) eqn:E; [lia|reflexivity]. }
    split; reflexivity.
Qed.

(** * [get_u64 40] on a fresh fault-free device *)
Lemma tl_seek_start_view p b c o lg :
  d_seek_start p (mkDev b c o None lg) = (mkDev b p (o + 1) None lg, Ok p).
Proof. reflexivity. Qed.

Lemma get_u64_40 (phys : list N) :
  exists d1, get_u64 40 (dev_init phys None) =
    (d1, if 48 <=? len phys then Ok (le_num (slice 40 8 phys)) else Err ERead)
    /\ d_bytes d1 = phys /\ d_fault d1 = None.
Proof.
  destruct (tl_d_read_exact 8 (mkDev phys 40 (0 + 1) None [])) as (d1 & E & Hb & Hf);
    [reflexivity|lia|].
  cbn [d_cur d_bytes] in E, Hb.
  unfold get_u64, dev_init, bind, relabel. rewrite tl_seek_start_view. cbn [res_relabel].
  rewrite E.
  replace (40 + 8 <=? len phys) with (48 <=? len phys) by (destruct (48 <=? len phys) eqn:?; lia).
  exists d1. destruct (48 <=? len phys); cbn [res_relabel ret]; auto.
Qed.

(** * [PagedReader::new] on any fault-free device *)
Definition ps_accepts (ps : N) (phys : list N) : Prop :=
  4 < ps /\ ps <= 1048576 /\ len phys <> 0 /\ len phys mod ps = 0.

Lemma tl_pr_new ps d : d_fault d = None ->
  (exists d1 s0, pr_new ps d = (d1, Ok s0) /\ pr_inv ps (d_bytes d) s0 /\ pr_off s0 = 0 /\
                 ps_accepts ps (d_bytes d)) \/
  (exists d1 e, pr_new ps d = (d1, Err e) /\ ~ ps_accepts ps (d_bytes d)).
Proof.
  destruct d as [b c o f lg]. cbn [d_fault d_bytes]. intros ->.
  unfold pr_new, MAX_PAGE_SIZE, CHECKSUM_SIZE, ps_accepts.
  change (1024 * 1024) with 1048576.
  destruct (1048576 <? ps) eqn:E1; [right; do 2 eexists; split; [reflexivity|lia]|].
  destruct (ps <=? 4) eqn:E2; [right; do 2 eexists; split; [reflexivity|lia]|].
  cbn.
  destruct (len b =? 0) eqn:E3; [right; do 2 eexists; split; [reflexivity|lia]|].
  destruct (len b mod ps =? 0) eqn:E4; cbn; [|right; do 2 eexists; split; [reflexivity|lia]].
  left. do 2 eexists. split; [reflexivity|]. split; [|split; [reflexivity|lia]].
  constructor; cbn; try reflexivity; try lia.
  - apply len_zeros.
  - discriminate.
Qed.

(** * The page loop of [validate_crc] on the cache-less validating reader *)
Lemma validate_loop_g f ps phys off :
  rrun_g ps phys (validate_loop (S f) ps) off =
  (let '(off1, r) := gr_read ps phys ps off in
   match r with
   | Ok [] => (off1, Ok tt)
   | Ok _ => rrun_g ps phys (validate_loop f ps) off1
   | Err _ => (off1, Err ERead)
   | Panic => (off1, Panic)
   end).
Proof.
  cbn [validate_loop]. unfold r_read. cbn [rbind rrun_g gr_step].
  destruct (gr_read ps phys ps off) as [off1 [[|x l]|e|]]; reflexivity.
Qed.

Definition pages_ok_from (ps : N) (phys : list N) (k : N) : Prop :=
  forall p, k <= p -> p < len phys / ps -> page_ok ps (page_at ps phys p) = true.

Lemma validate_loop_g_spec ps phys : 4 < ps -> len phys mod ps = 0 ->
  forall fuel k, k <= len phys / ps -> (N.to_nat (len phys / ps - k) < fuel)%nat ->
  let r := snd (rrun_g ps phys (validate_loop fuel ps) (k * (ps - 4))) in
  (pages_ok_from ps phys k -> r = Ok tt) /\
  (r = Ok tt -> pages_ok_from ps phys k) /\
  (r = Ok tt \/ r = Err ERead).
Proof.
  intros Hps Hmod. induction fuel as [|f IH]; intros k Hk Hf; [lia|]. cbv zeta.
  rewrite validate_loop_g. unfold gr_read. cbv zeta.
  assert (Ediv : k * (ps - 4) / (ps - 4) = k) by (apply N.div_mul; lia).
  assert (Emod : (k * (ps - 4)) mod (ps - 4) = 0) by (apply N.mod_mul; lia).
  rewrite Ediv, Emod. clear Ediv Emod.
  unfold pages_ok_from in *.
  remember (len phys / ps) as P eqn:EP.
  destruct (P <=? k) eqn:E1.
  - (* past the last page: the read returns 0 bytes *)
    cbn [snd]. split; [reflexivity|]. split; [|left; reflexivity]. intros _ p Hp1 Hp2. lia.
  - assert (Hlt : k < P) by lia.
    destruct (page_ok ps (page_at ps phys k)) eqn:E2.
    + replace (N.min ps (ps - 4 - 0)) with (ps - 4) by lia.
      pose proof (len_page_at ps phys k ltac:(rewrite <- EP; exact Hlt)) as Hlen.
      pose proof (len_slice 0 (ps - 4) (page_at ps phys k)) as Hs.
      destruct (slice 0 (ps - 4) (page_at ps phys k)) as [|x l] eqn:Es.
      { rewrite len_nil in Hs. lia. }
      replace (k * (ps - 4) + (ps - 4)) with ((k + 1) * (ps - 4)) by lia.
      destruct (IH (k + 1)) as (IH1 & IH2 & IH3); [lia|lia|]. cbv zeta in *.
      split; [|split; [|exact IH3]].
      * intros H. apply IH1. intros p Hp1 Hp2. apply H; lia.
      * intros H p Hp1 Hp2.
        destruct (N.eq_dec p k) as [->|Hne]; [exact E2|]. apply (IH2 H); lia.
    + cbn [snd]. split; [|split; [discriminate|right; reflexivity]].
      intros H. rewrite (H k) in E2 by lia. discriminate.
Qed.

(** * [validate_crc] *)
Definition crc_file_ok (phys : list N) : Prop :=
  48 <= len phys /\
  let ps := le_num (slice 40 8 phys) in
  4 < ps /\ ps <= 1048576 /\ len phys mod ps = 0 /\
  forall p, p < len phys / ps -> page_ok ps (page_at ps phys p) = true.

Theorem validate_crc_spec (phys : list N) :
  let r := snd (validate_crc (dev_init phys None)) in
  (crc_file_ok phys -> r = Ok (le_num (slice 40 8 phys))) /\
  (is_ok r = true -> crc_file_ok phys) /\
  (is_ok r = true \/ r = Err ERead).
Proof.
  cbv zeta. unfold validate_crc, crc_file_ok.
  destruct (get_u64_40 phys) as (d1 & E & Hb & Hf). rewrite E.
  destruct (48 <=? len phys) eqn:E48.
  2:{ cbn [snd is_ok]. split; [intros (H & _); lia|]. split; [discriminate|right; reflexivity]. }
  set (ps := le_num (slice 40 8 phys)).
  destruct (tl_pr_new ps d1 Hf) as [(d2 & s0 & En & I & Ho & Ha)|(d2 & e & En & Ha)]; rewrite En; cbn [res_relabel].
  - rewrite Hb in *. destruct Ha as (Ha1 & Ha2 & Ha3 & Ha4).
    pose proof (rrun_g_equiv ps phys unit (validate_loop (S (S (N.to_nat (pr_pages s0)))) ps) s0 I) as (Hr & _).
    destruct (rrun (validate_loop (S (S (N.to_nat (pr_pages s0)))) ps) s0) as [s1 r3] eqn:Er.
    cbn [snd] in Hr |- *. subst r3. rewrite Ho.
    rewrite (inv_pages _ _ _ I).
    destruct (validate_loop_g_spec ps phys Ha1 Ha4 (S (S (N.to_nat (len phys / ps)))) 0) as (V1 & V2 & V3);
      [apply N.le_0_l|rewrite N.sub_0_r; generalize (N.to_nat (len phys / ps)); clear; intros; lia|].
    cbv zeta in *. change (0 * (ps - 4)) with 0 in *.
    split; [|split].
    + intros (_ & _ & _ & _ & Hp). rewrite V1; [reflexivity|]. intros p _ Hp2. apply Hp. exact Hp2.
    + intros Hok.
      destruct V3 as [V3|V3]; [|rewrite V3 in Hok; discriminate].
      split; [lia|]. repeat split; try assumption. intros p Hp. apply (V2 V3); lia.
    + destruct V3 as [V3|V3]; rewrite V3; [left|right]; reflexivity.
  - rewrite Hb in *. cbn [snd is_ok]. split; [|split; [discriminate|right; reflexivity]].
    intros (H1 & H2 & H3 & H4 & _). exfalso. apply Ha. unfold ps_accepts. repeat split; try assumption. lia.
Qed.

Theorem check_crc_file_iff (phys : list N) : check_crc_file phys = true <-> crc_file_ok phys.
Proof.
  unfold check_crc_file. destruct (validate_crc_spec phys) as (H1 & H2 & _). cbv zeta in *.
  split; [exact H2|]. intros H. rewrite (H1 H). reflexivity.
Qed.

(** the library call never panics on a fault-free device, whatever the bytes *)
Theorem validate_crc_no_panic (phys : list N) : snd (validate_crc (dev_init phys None)) <> Panic.
Proof.
  destruct (validate_crc_spec phys) as (_ & _ & [H|H]); cbv zeta in *; intros E; rewrite E in H; discriminate.
Qed.

(** With the only page size the format knows (1024), in the vocabulary of the
    page specification: every page of the file is sealed. *)
Lemma page_ok_1024 pg : page_ok 1024 pg = page_valid pg.
Proof. reflexivity. Qed.

Theorem check_crc_file_1024 (phys : list N) :
  le_num (slice 40 8 phys) = 1024 ->
  (check_crc_file phys = true <-> 48 <= len phys /\ all_pages_valid phys = true).
Proof.
  intros Eps. rewrite check_crc_file_iff. unfold crc_file_ok. rewrite Eps. cbv zeta.
  unfold all_pages_valid, PAGE_SZ.
  split.
  - intros (H48 & _ & _ & Hm & Hp). split; [exact H48|].
    apply andb_true_iff. split; [apply N.eqb_eq; exact Hm|].
    apply forallb_forall. intros n Hn. apply in_seq in Hn.
    rewrite <- page_ok_1024. apply Hp. lia.
  - intros (H48 & H). apply andb_true_iff in H. destruct H as (Hm & Hp).
    apply N.eqb_eq in Hm. split; [exact H48|]. repeat split; try lia.
    intros p Hlt. rewrite forallb_forall in Hp.
    specialize (Hp (N.to_nat p)). rewrite N2Nat.id in Hp. rewrite page_ok_1024. apply Hp.
    apply in_seq. lia.
Qed.

(** * e57-extract-xml: status and standard output are the library's [raw_xml] *)
Theorem extract_xml_tool_spec (phys : list N) :
  match snd (ReaderOpen.raw_xml (dev_init phys None)) with
  | Ok xml => extract_xml_tool phys = (true, xml)
  | _ => extract_xml_tool phys = (false, [])
  end.
Proof. unfold extract_xml_tool. destruct (snd (ReaderOpen.raw_xml (dev_init phys None))); reflexivity. Qed.

(** a directory: all files must validate *)
Theorem check_crc_files_iff (files : list (list N)) :
  check_crc_files files = true <-> Forall crc_file_ok files.
Proof.
  unfold check_crc_files. rewrite forallb_forall, Forall_forall.
  split; intros H f Hf; apply check_crc_file_iff; apply H; exact Hf.
Qed.

(** a one-page file that announces 1024-byte pages validates; the same file
    with one payload bit flipped, or cut short, does not *)
Definition ex_crc_file : list N := paginate (zeros 40 ++ le_bytes 8 1024 ++ [1; 2; 3]).
Example check_crc_example :
  check_crc_file ex_crc_file = true /\
  check_crc_file (overwrite ex_crc_file 100 [1]) = false /\
  check_crc_file (take 1000 ex_crc_file) = false /\
  check_crc_file (ex_crc_file ++ [0]) = false /\
  check_crc_file (ex_crc_file ++ ex_crc_file) = true.
Proof. vm_compute. repeat split. Qed.
