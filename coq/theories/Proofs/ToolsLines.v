(** C20, the text side of e57-from-xyz: line splitting, the line filter (lines
    with fewer than six space-separated parts are dropped, further columns are
    ignored, order is preserved, any parse failure aborts the whole run),
    [split(' ')] and [trim] characterised. *)
From Coq Require Import ZArith NArith Bool List Lia ZifyN ZifyNat ZifyBool.
From E57 Require Import Base.Prelude Base.Floats Model.Normalize Model.Tools.

(** * [read_line]: the lines are a partition of the input; every line is
    non-empty; a '\n' occurs only as the last byte of a line *)
Lemma xyz_lines_aux_concat : forall input cur, concat (xyz_lines_aux cur input) = rev cur ++ input.
Proof.
  induction input as [|b r IH]; intros cur; cbn [xyz_lines_aux].
  - destruct cur as [|c cs]; cbn [concat]; rewrite ?app_nil_r; reflexivity.
  - destruct (b =? 10) eqn:E.
    + cbn [concat]. rewrite IH. cbn [rev app]. rewrite <- app_assoc. reflexivity.
    + rewrite IH. cbn [rev]. rewrite <- app_assoc. reflexivity.
Qed.

Theorem xyz_lines_concat : forall input, concat (xyz_lines input) = input.
Proof. intros input. unfold xyz_lines. rewrite xyz_lines_aux_concat. reflexivity. Qed.

(** shape of one line: a body without '\n', then '\n' - or, for the last line
    of an input that does not end with '\n', a non-empty body alone *)
Definition line_shape (l : list N) : Prop :=
  exists body, ~ In 10 body /\ (l = body ++ [10] \/ (l = body /\ body <> [])).

Lemma xyz_lines_aux_shape : forall input cur, ~ In 10 cur ->
  Forall line_shape (xyz_lines_aux cur input).
Proof.
  induction input as [|b r IH]; intros cur Hc; cbn [xyz_lines_aux].
  - destruct cur as [|c cs]; constructor; [|constructor].
    exists (rev (c :: cs)). split; [rewrite <- in_rev; exact Hc|].
    right. split; [reflexivity|]. intros E. apply (f_equal (@length N)) in E.
    rewrite rev_length in E. discriminate E.
  - destruct (b =? 10) eqn:E.
    + constructor; [|apply IH; intros []].
      exists (rev cur). split; [rewrite <- in_rev; exact Hc|]. left.
      apply N.eqb_eq in E. subst b. reflexivity.
    + apply IH. intros [H|H]; [lia|exact (Hc H)].
Qed.

Theorem xyz_lines_shape : forall input, Forall line_shape (xyz_lines input).
Proof. intros input. apply xyz_lines_aux_shape. intros []. Qed.

(** * [split(' ')] *)
Fixpoint join_sp (ps : list (list N)) : list N :=
  match ps with
  | [] => []
  | [p] => p
  | p :: r => p ++ 32 :: join_sp r
  end.

Lemma split_sp_aux_part : forall p cur rest, ~ In 32 p ->
  split_sp_aux cur (p ++ rest) = split_sp_aux (rev p ++ cur) rest.
Proof.
  induction p as [|b r IH]; intros cur rest Hp; [reflexivity|].
  cbn [app split_sp_aux]. destruct (b =? 32) eqn:E.
  - exfalso. apply Hp. left. lia.
  - rewrite IH by (intros H; apply Hp; right; exact H).
    cbn [rev]. rewrite <- app_assoc. reflexivity.
Qed.

Lemma split_sp_aux_join : forall ps cur, ps <> [] -> Forall (fun p => ~ In 32 p) ps ->
  split_sp_aux cur (join_sp ps) =
  match ps with p :: r => (rev cur ++ p) :: r | [] => [] end.
Proof.
  induction ps as [|p r IH]; intros cur Hne Hf; [congruence|].
  inversion Hf as [|? ? Hp Hr]; subst.
  destruct r as [|q r'].
  - cbn [join_sp]. rewrite <- (app_nil_r p) at 1. rewrite split_sp_aux_part by exact Hp.
    cbn [split_sp_aux]. rewrite rev_app_distr, rev_involutive. reflexivity.
  - change (join_sp (p :: q :: r')) with (p ++ 32 :: join_sp (q :: r')).
    rewrite split_sp_aux_part by exact Hp. cbn [split_sp_aux]. change (32 =? 32) with true. cbv iota.
    rewrite rev_app_distr, rev_involutive.
    rewrite (IH []) by (try exact Hr; discriminate). reflexivity.
Qed.

(** the parts are exactly the maximal space-free pieces: n spaces, n + 1 parts *)
Theorem split_sp_join : forall ps, ps <> [] -> Forall (fun p => ~ In 32 p) ps ->
  split_sp (join_sp ps) = ps.
Proof.
  intros ps Hne Hf. unfold split_sp. rewrite split_sp_aux_join by assumption.
  destruct ps; [congruence|reflexivity].
Qed.

Example split_sp_examples :
  split_sp [] = [[]] /\ split_sp [32] = [[]; []] /\
  split_sp [49; 32; 32; 50] = [[49]; []; [50]] /\ split_sp [49; 9; 50] = [[49; 9; 50]].
Proof. repeat split. Qed.

(** * [trim] on a line whose content starts and ends with a plain ASCII
    character: exactly the surrounding ASCII whitespace goes *)
Definition plain (b : N) : bool := (b <? 128) && negb (ascii_ws b).

Lemma ws_prefix_plain : forall b r, plain b = true -> ws_prefix (b :: r) = None.
Proof.
  intros b r H. unfold plain in H. apply andb_true_iff in H. destruct H as (H1 & H2).
  apply negb_true_iff in H2. cbn [ws_prefix]. rewrite H2.
  assert (E1 : (b =? 194) = false) by lia. assert (E2 : (b =? 225) = false) by lia.
  assert (E3 : (b =? 226) = false) by lia. assert (E4 : (b =? 227) = false) by lia.
  rewrite E1, E2, E3, E4. cbn [andb].
  destruct r as [|b1 [|b2 r2]]; reflexivity.
Qed.

Lemma ws_suffix_rev_plain : forall b r, plain b = true -> ws_suffix_rev (b :: r) = None.
Proof.
  intros b r H. unfold plain in H. apply andb_true_iff in H. destruct H as (H1 & H2).
  apply negb_true_iff in H2. cbn [ws_suffix_rev]. rewrite H2.
  assert (E1 : (b =? 133) = false) by lia. assert (E2 : (b =? 160) = false) by lia.
  assert (E3 : (b =? 128) = false) by lia. assert (E4 : in_rng 128 138 b = false) by (unfold in_rng; lia).
  assert (E5 : (b =? 168) = false) by lia. assert (E6 : (b =? 169) = false) by lia.
  assert (E7 : (b =? 175) = false) by lia. assert (E8 : (b =? 159) = false) by lia.
  destruct r as [|b1 [|b2 r2]]; try reflexivity.
  - rewrite E1, E2. cbn [orb]. rewrite andb_false_r. reflexivity.
  - rewrite E1, E2, E3, E4, E5, E6, E7, E8. cbn [orb]. rewrite !andb_false_r. reflexivity.
Qed.

Lemma strip_ws_prefix : forall ws rest fuel,
  forallb ascii_ws ws = true -> (length ws <= fuel)%nat ->
  (rest = [] \/ exists b r, rest = b :: r /\ plain b = true) ->
  strip ws_prefix fuel (ws ++ rest) = rest.
Proof.
  induction ws as [|w ws IH]; intros rest fuel Hw Hf Hr.
  - cbn [app]. destruct fuel as [|k]; [reflexivity|]. cbn [strip].
    destruct Hr as [->|(b & r & -> & Hb)]; [reflexivity|]. rewrite ws_prefix_plain by exact Hb. reflexivity.
  - cbn [forallb] in Hw. apply andb_true_iff in Hw. destruct Hw as (Hw1 & Hw2).
    destruct fuel as [|k]; [cbn [length] in Hf; lia|]. cbn [strip app ws_prefix]. rewrite Hw1.
    apply IH; try assumption. cbn [length] in Hf. lia.
Qed.

Lemma strip_ws_suffix_rev : forall ws rest fuel,
  forallb ascii_ws ws = true -> (length ws <= fuel)%nat ->
  (rest = [] \/ exists b r, rest = b :: r /\ plain b = true) ->
  strip ws_suffix_rev fuel (ws ++ rest) = rest.
Proof.
  induction ws as [|w ws IH]; intros rest fuel Hw Hf Hr.
  - cbn [app]. destruct fuel as [|k]; [reflexivity|]. cbn [strip].
    destruct Hr as [->|(b & r & -> & Hb)]; [reflexivity|]. rewrite ws_suffix_rev_plain by exact Hb. reflexivity.
  - cbn [forallb] in Hw. apply andb_true_iff in Hw. destruct Hw as (Hw1 & Hw2).
    destruct fuel as [|k]; [cbn [length] in Hf; lia|]. cbn [strip app ws_suffix_rev]. rewrite Hw1.
    apply IH; try assumption. cbn [length] in Hf. lia.
Qed.

(** content = empty, or first and last byte plain *)
Definition plain_ends (body : list N) : Prop :=
  body = [] \/ (exists b r, body = b :: r /\ plain b = true) /\ (exists b r, rev body = b :: r /\ plain b = true).

Theorem trim_ascii : forall ws1 body ws2,
  forallb ascii_ws ws1 = true -> forallb ascii_ws ws2 = true -> plain_ends body ->
  trim (ws1 ++ body ++ ws2) = body.
Proof.
  intros ws1 body ws2 H1 H2 Hb. unfold trim, trim_start, trim_end.
  assert (Hrev2 : forallb ascii_ws (rev ws2) = true).
  { rewrite forallb_forall in *. intros x Hx. apply H2. apply in_rev. exact Hx. }
  destruct Hb as [->|(Hfirst & Hlast)].
  - (* only whitespace: everything goes, from the front *)
    cbn [app].
    assert (E : strip ws_prefix (length (ws1 ++ ws2)) ((ws1 ++ ws2) ++ []) = []).
    { apply strip_ws_prefix; [|lia|left; reflexivity].
      rewrite forallb_app, H1, H2. reflexivity. }
    rewrite app_nil_r in E. rewrite E. reflexivity.
  - rewrite strip_ws_prefix; [|exact H1|rewrite app_length; lia|].
    2:{ right. destruct Hfirst as (b & r & -> & Hp). exists b, (r ++ ws2). split; [reflexivity|exact Hp]. }
    rewrite rev_app_distr.
    rewrite strip_ws_suffix_rev; [apply rev_involutive|exact Hrev2|rewrite app_length, rev_length; lia|].
    right. exact Hlast.
Qed.

Example trim_examples :
  trim [32; 9; 49; 32; 50; 13; 10] = [49; 32; 50] /\ trim [10] = [] /\ trim [] = [] /\
  trim [194; 160; 49; 226; 128; 137; 227; 128; 128] = [49] /\          (* NBSP 1 THIN-SPACE IDEOGRAPHIC-SPACE *)
  trim [28; 49; 31] = [28; 49; 31] /\                                  (* U+001C..U+001F are not White_Space *)
  trim [226; 128; 139; 49] = [226; 128; 139; 49].                      (* U+200B ZERO WIDTH SPACE is not either *)
Proof. vm_compute. repeat split. Qed.

Example utf8_valid_examples :
  utf8_valid [49; 10] = true /\ utf8_valid [195; 164] = true /\ utf8_valid [255] = false /\
  utf8_valid [192; 128] = false /\ utf8_valid [237; 160; 128] = false /\ utf8_valid [226; 130] = false /\
  utf8_valid [240; 159; 152; 128] = true /\ utf8_valid [244; 144; 128; 128] = false.
Proof. vm_compute. repeat split. Qed.

Section Lines.
Variable parse_f32 : list N -> option N.

Notation from_xyz_line := (from_xyz_line parse_f32).
Notation from_xyz := (from_xyz parse_f32).
Notation parse6 := (parse6 parse_f32).

(** * One line *)
Lemma parse6_not_skip : forall a b c d e f, parse6 a b c d e f <> Ok None.
Proof.
  intros a b c d e f. unfold Tools.parse6.
  destruct (parse_f32 a); [|discriminate]. destruct (parse_f32 b); [|discriminate].
  destruct (parse_f32 c); [|discriminate]. destruct (parse_u8 d); [|discriminate].
  destruct (parse_u8 e); [|discriminate]. destruct (parse_u8 f); discriminate.
Qed.

Lemma parse6_no_panic : forall a b c d e f, parse6 a b c d e f <> Panic.
Proof.
  intros a b c d e f. unfold Tools.parse6.
  destruct (parse_f32 a); [|discriminate]. destruct (parse_f32 b); [|discriminate].
  destruct (parse_f32 c); [|discriminate]. destruct (parse_u8 d); [|discriminate].
  destruct (parse_u8 e); [|discriminate]. destruct (parse_u8 f); discriminate.
Qed.

(** six or more parts: the first six decide, the others are ignored *)
Theorem from_xyz_line_six : forall line p0 p1 p2 p3 p4 p5 rest,
  utf8_valid line = true -> split_sp (trim line) = p0 :: p1 :: p2 :: p3 :: p4 :: p5 :: rest ->
  from_xyz_line line = parse6 p0 p1 p2 p3 p4 p5.
Proof. intros line p0 p1 p2 p3 p4 p5 rest Hu Hs. unfold Tools.from_xyz_line. rewrite Hu, Hs. reflexivity. Qed.

(** a line is skipped iff it is text with fewer than six parts *)
Theorem from_xyz_line_skip_iff : forall line,
  from_xyz_line line = Ok None <-> utf8_valid line = true /\ (length (split_sp (trim line)) < 6)%nat.
Proof.
  intros line. unfold Tools.from_xyz_line. destruct (utf8_valid line); cbn [negb].
  2:{ split; [discriminate|intros (H & _); discriminate]. }
  destruct (split_sp (trim line)) as [|p0 [|p1 [|p2 [|p3 [|p4 [|p5 rest]]]]]]; cbn [length];
    try (split; [intros _; split; [reflexivity|lia]|reflexivity]).
  split; [intros H; exfalso; exact (parse6_not_skip _ _ _ _ _ _ H)|intros (_ & H); lia].
Qed.

Theorem from_xyz_line_no_panic : forall line, from_xyz_line line <> Panic.
Proof.
  intros line. unfold Tools.from_xyz_line. destruct (utf8_valid line); cbn [negb]; [|discriminate].
  destruct (split_sp (trim line)) as [|p0 [|p1 [|p2 [|p3 [|p4 [|p5 rest]]]]]]; try discriminate.
  apply parse6_no_panic.
Qed.

(** * The whole file: the points are those of the lines that parse, in order;
    one failing line fails the run *)
Definition line_points (line : list N) : list point6 :=
  match from_xyz_line line with Ok (Some p) => [p] | _ => [] end.

Theorem from_xyz_ok_iff : forall lines pts,
  from_xyz lines = Ok pts <->
  Forall (fun l => is_ok (from_xyz_line l) = true) lines /\ pts = flat_map line_points lines.
Proof.
  induction lines as [|l r IH]; intros pts; cbn [Tools.from_xyz flat_map].
  - split; [intros H; injection H as <-; split; [constructor|reflexivity]|intros (_ & ->); reflexivity].
  - unfold line_points at 1.
    destruct (from_xyz_line l) as [o|k|] eqn:El; cbn [res_bind].
    + destruct (from_xyz r) as [ps|k|] eqn:Er; cbn [res_bind].
      * destruct (IH ps) as (IH1 & _). destruct (IH1 eq_refl) as (Hf & ->).
        split.
        { intros H. injection H as <-. split; [constructor; [rewrite El; reflexivity|exact Hf]|].
          destruct o; reflexivity. }
        { intros (_ & ->). destruct o; reflexivity. }
      * split; [discriminate|]. intros (Hf & _). inversion Hf as [|? ? _ Hr]; subst.
        destruct (IH (flat_map line_points r)) as (_ & IH2). specialize (IH2 (conj Hr eq_refl)).
        discriminate IH2.
      * split; [discriminate|]. intros (Hf & _). inversion Hf as [|? ? _ Hr]; subst.
        destruct (IH (flat_map line_points r)) as (_ & IH2). specialize (IH2 (conj Hr eq_refl)).
        discriminate IH2.
    + split; [discriminate|]. intros (Hf & _). inversion Hf as [|? ? H1 _]; subst. rewrite El in H1. discriminate.
    + split; [discriminate|]. intros (Hf & _). inversion Hf as [|? ? H1 _]; subst. rewrite El in H1. discriminate.
Qed.

Theorem from_xyz_no_panic : forall lines, from_xyz lines <> Panic.
Proof.
  induction lines as [|l r IH]; cbn [Tools.from_xyz]; [discriminate|].
  pose proof (from_xyz_line_no_panic l) as Hl.
  destruct (from_xyz_line l) as [o|k|]; cbn [res_bind]; try discriminate; [|congruence].
  destruct (from_xyz r) as [ps|k|]; cbn [res_bind]; try discriminate. congruence.
Qed.

(** the tool aborts iff some line is not text or has six parts one of which does not parse *)
Corollary from_xyz_err_iff : forall lines,
  is_err (from_xyz lines) = true <-> exists l, In l lines /\ is_err (from_xyz_line l) = true.
Proof.
  intros lines. split.
  - intros H. destruct (Forall_Exists_dec (fun l => is_ok (from_xyz_line l) = true)
                          (fun l => bool_dec (is_ok (from_xyz_line l)) true) lines) as [Hf|He].
    + destruct (from_xyz_ok_iff lines (flat_map line_points lines)) as (_ & H2).
      rewrite H2 in H by (split; [exact Hf|reflexivity]). discriminate.
    + apply Exists_exists in He. destruct He as (l & Hin & Hl). exists l. split; [exact Hin|].
      pose proof (from_xyz_line_no_panic l) as Hnp.
      destruct (from_xyz_line l); [exfalso; apply Hl; reflexivity|reflexivity|exfalso; apply Hnp; reflexivity].
  - intros (l & Hin & Hl). pose proof (from_xyz_no_panic lines) as Hp.
    destruct (from_xyz lines) as [pts|k|] eqn:E; try reflexivity; [|congruence].
    destruct (from_xyz_ok_iff lines pts) as (H1 & _). destruct (H1 E) as (Hf & _).
    rewrite Forall_forall in Hf. specialize (Hf l Hin). destruct (from_xyz_line l); discriminate.
Qed.

(** dropped lines do not disturb the others: the result on the kept lines alone is the same *)
Corollary from_xyz_filter : forall lines,
  from_xyz (filter (fun l => match from_xyz_line l with Ok None => false | _ => true end) lines) =
  from_xyz lines.
Proof.
  induction lines as [|l r IH]; [reflexivity|]. cbn [filter].
  destruct (from_xyz_line l) as [[p|]|k|] eqn:El; cbn [Tools.from_xyz]; rewrite ?El; cbn [res_bind]; rewrite ?IH; try reflexivity.
  destruct (from_xyz r) as [ps|k|]; reflexivity.
Qed.

End Lines.
