(** C15 at the level of the public writer API (Model/WriterApi.v): the device write sequence of
    ANY sequence of API calls followed by Drop.
    - as long as no top-level [Finalize] has succeeded, every call issues its page-layer
      operations behind the file header (also the calls that fail, the sub-writers that are
      abandoned, the calls in an order Rust would not compile): every write of page 0 carries
      zeros in the XML offset / length fields;
    - the call that succeeds as top-level [Finalize] runs [writer_finalize] on the XML of the
      metadata collected so far; after it no call reaches the page layer.
    Hence the write sequence has the shape the crash-image theorems of CrashMain.v need
    ([gshape]), or consists of harmless entries only. *)
From E57 Require Import Base.Prelude Model.Crc Model.Device Model.PagedWriter Spec.PageSpec Model.Prog Model.Record
  Model.PcWriter Model.FileBin Model.Meta Model.MetaFile Model.XmlGen Model.WriterApi Model.WriterFull Model.CrashImage.
From E57 Require Import Proofs.PagedWriterLemmas Proofs.PagedWriterProofs Proofs.ProgTransfer
  Proofs.CrashLog Proofs.CrashSafe Proofs.CrashOpen Proofs.CrashTrace Proofs.CrashMain Proofs.CrashApiSteps.
From Coq Require Import Lia ZifyN ZifyNat ZifyBool.

(** * Programs that stay behind the header (not necessarily moving forward) *)

Definition wsafe {A} (p : wprog A) (F : A -> Prop) : Prop :=
  forall l (Q : A -> lstream -> Prop), 48 <= ls_pos l ->
    (forall a l', 48 <= ls_pos l' -> F a -> Q a l') -> wsp p l Q.

Lemma wsafe_of_wmono A (p : wprog A) F : wmono p F -> wsafe p F.
Proof. intros Hp l Q Hl HQ. apply Hp; [exact Hl|]. intros a l' Hle Ha. apply HQ; [lia|exact Ha]. Qed.

Lemma wsafe_bind A C (p : wprog A) (f : A -> wprog C) (F : A -> Prop) (G : C -> Prop) :
  wsafe p F -> (forall a, F a -> wsafe (f a) G) -> wsafe (wbind p f) G.
Proof.
  intros Hp Hf l Q Hl HQ. apply wsp_bind. apply Hp; [exact Hl|].
  intros a l' Hl' Ha. apply (Hf a Ha); assumption.
Qed.

Lemma wsafe_ret A (a : A) (F : A -> Prop) : F a -> wsafe (wret a) F.
Proof. intros Ha l Q Hl HQ. cbn. apply HQ; assumption. Qed.

Lemma wsafe_panic A (F : A -> Prop) : wsafe (@WPanic A) F.
Proof. intros l Q Hl HQ. exact I. Qed.

Lemma wsafe_weaken A (p : wprog A) (F G : A -> Prop) : (forall a, F a -> G a) -> wsafe p F -> wsafe p G.
Proof. intros HFG Hp l Q Hl HQ. apply Hp; [exact Hl|]. intros a l' Hl' Ha. apply HQ; auto. Qed.

Lemma wsp_wtry A (p : wprog A) : forall l (Q : res A -> lstream -> Prop),
  wsp p l (fun a l' => Q (Ok a) l') -> (forall k l', 48 <= ls_pos l' -> Q (Err k) l') -> wsp (wtry p) l Q.
Proof.
  induction p as [a|e| |o k IH]; intros l Q H He; cbn [wtry wsp] in *.
  - exact H.
  - apply He, H.
  - exact I.
  - destruct H as [H1 H2]. split; [exact H1|]. apply IH; assumption.
Qed.

Lemma wsafe_wtry A (p : wprog A) (F : A -> Prop) :
  wsafe p F -> wsafe (wtry p) (fun r => match r with Ok a => F a | _ => True end).
Proof.
  intros Hp l Q Hl HQ. apply wsp_wtry.
  - apply Hp; [exact Hl|]. intros a l' Hl' Ha. apply HQ; assumption.
  - intros k l' Hl'. apply HQ; [exact Hl'|exact I].
Qed.

Section Api.
Variable gen_xml : file_meta -> res (list N).
Variable lib_version : xstring.

Notation step := (wapi_step gen_xml lib_version).
Notation run := (wapi_run gen_xml lib_version).

(** * Every call of an open, unfinalized writer *)

(** a point cloud writer that can still write knows a section start behind the header *)
Definition sub_safe (st : wstate) : Prop :=
  match ws_sub st with
  | SubPc ps => ps_finalized ps = true \/ pcw_safe (ps_w ps)
  | _ => True
  end.

Definition post (x : wstate * call_result) : Prop :=
  ws_open (fst x) = true /\ ws_finalized (fst x) = false /\ sub_safe (fst x).

Lemma wmono_pc_new exts guid proto : wmono (pc_new exts guid proto) (fun ps => pcw_safe (ps_w ps)).
Proof.
  unfold pc_new.
  eapply wmono_bind; [apply wmono_lift|]. intros _ _.
  eapply wmono_bind; [apply wmono_lift|]. intros _ _.
  eapply wmono_bind; [apply wmono_pcw_new|]. intros w Hw.
  eapply wmono_bind; [apply wmono_lift|]. intros cl _.
  eapply wmono_weaken; [|apply wmono_ret]. intros ps <-. exact Hw.
Qed.

Lemma wmono_im_blobs data mask : wmono (im_blobs data mask) (fun _ => True).
Proof.
  unfold im_blobs.
  eapply wmono_bind; [apply wmono_blob_write|]. intros [o l] _.
  eapply wmono_bind with (F := fun _ => True).
  - destruct mask as [md|].
    + eapply wmono_bind; [apply wmono_blob_write|]. intros [o2 l2] _.
      eapply wmono_weaken; [|apply wmono_ret]. auto.
    + eapply wmono_weaken; [|apply wmono_ret]. auto.
  - intros m _. eapply wmono_weaken; [|apply wmono_ret]. auto.
Qed.

Ltac ret_post := apply wsafe_ret; unfold post, sub_safe; cbn [fst ws_open ws_finalized ws_sub set_sub]; auto.

Lemma step_wsafe st c :
  ws_open st = true -> ws_finalized st = false -> sub_safe st -> ~ at_finalize st c ->
  wsafe (step st c) post.
Proof.
  intros Ho Hf Hsafe Hn. unfold wapi_step. rewrite Ho. cbn [negb].
  unfold sub_safe in Hsafe.
  destruct (ws_sub st) as [|ps|im fin] eqn:Hs; destruct c; try (ret_post; rewrite ?Hs; auto; fail).
  - destruct (ws_root st). ret_post.
  - destruct (ws_root st). ret_post.
  - destruct (_ >> _) as [[]|k|]; [|ret_post; rewrite ?Hs; auto|apply wsafe_panic].
    destruct (url_registered _ _); [ret_post; rewrite ?Hs; auto|]. destruct (ext_registered _ _); ret_post; rewrite ?Hs; auto.
  - rewrite Hf. eapply wsafe_bind; [apply wsafe_wtry, wsafe_of_wmono, wmono_blob_write|].
    intros [[o l]|k|] _; [ret_post; rewrite ?Hs; auto|ret_post; rewrite ?Hs; auto|apply wsafe_panic].
  - rewrite Hf. eapply wsafe_bind; [apply wsafe_wtry, wsafe_of_wmono, wmono_pc_new|].
    intros [ps|k|] Hps; [ret_post|ret_post; rewrite ?Hs; auto|apply wsafe_panic].
  - rewrite Hf. ret_post.
  - exfalso. apply Hn. unfold at_finalize. auto.
  - (* add_point *)
    eapply wsafe_bind with (F := fun x : pcstate * call_result =>
                                   ps_finalized (fst x) = true \/ pcw_safe (ps_w (fst x))).
    + unfold pc_add_point.
      destruct (ps_finalized ps) eqn:Epf; [apply wsafe_ret; cbn; auto|].
      destruct Hsafe as [Hbad|Hsafe]; [congruence|].
      destruct (negb _); [apply wsafe_ret; cbn; auto|].
      destruct (update_bounds _ _ _) as [b1 [u|k|]]; [|apply wsafe_ret; cbn; auto|apply wsafe_panic].
      eapply wsafe_bind; [apply wsafe_wtry, wsafe_of_wmono, wmono_pcw_add_point|].
      intros [w'|k|] Hw; [|apply wsafe_ret; cbn; auto|apply wsafe_panic].
      apply wsafe_ret. cbn. right. unfold pcw_safe, same_section in *. rewrite Hw. exact Hsafe.
    + intros [ps' r] Hps. ret_post.
  - (* finalize of the point cloud writer *)
    eapply wsafe_bind with (F := fun x : pcstate * option pointcloud * call_result =>
                                   ps_finalized (fst (fst x)) = true \/ pcw_safe (ps_w (fst (fst x)))).
    + unfold pc_finalize.
      destruct (ps_finalized ps) eqn:Epf; [apply wsafe_ret; cbn; auto|].
      destruct Hsafe as [Hbad|Hsafe]; [congruence|].
      destruct (negb _); [apply wsafe_ret; cbn; auto|].
      eapply wsafe_bind; [apply wsafe_wtry, wsafe_of_wmono, wmono_pcw_finalize, Hsafe|].
      intros [[[w2 off] cnt]|k|] _; [apply wsafe_ret; cbn; auto|apply wsafe_ret; cbn; auto|apply wsafe_panic].
    + intros [[ps' pc] r] Hps. ret_post.
  - destruct fin; [ret_post; rewrite ?Hs; auto|].
    eapply wsafe_bind; [apply wsafe_wtry, wsafe_of_wmono, wmono_im_blobs|].
    intros [[b m]|k|] _; [ret_post|ret_post; rewrite ?Hs; auto|apply wsafe_panic].
  - unfold im_add_projection. destruct fin; [ret_post; rewrite ?Hs; auto|].
    destruct (has_projection im); [ret_post; rewrite ?Hs; auto|].
    eapply wsafe_bind; [apply wsafe_wtry, wsafe_of_wmono, wmono_im_blobs|].
    intros [[b m]|k|] _; [ret_post|ret_post; rewrite ?Hs; auto|apply wsafe_panic].
  - unfold im_add_projection. destruct fin; [ret_post; rewrite ?Hs; auto|].
    destruct (has_projection im); [ret_post; rewrite ?Hs; auto|].
    eapply wsafe_bind; [apply wsafe_wtry, wsafe_of_wmono, wmono_im_blobs|].
    intros [[b m]|k|] _; [ret_post|ret_post; rewrite ?Hs; auto|apply wsafe_panic].
  - unfold im_add_projection. destruct fin; [ret_post; rewrite ?Hs; auto|].
    destruct (has_projection im); [ret_post; rewrite ?Hs; auto|].
    eapply wsafe_bind; [apply wsafe_wtry, wsafe_of_wmono, wmono_im_blobs|].
    intros [[b m]|k|] _; [ret_post|ret_post; rewrite ?Hs; auto|apply wsafe_panic].
  - destruct fin; [ret_post; rewrite ?Hs; auto|].
    destruct (im_visual_reference im), (im_projection im); ret_post; rewrite ?Hs; auto.
Qed.

(** * The phases of a run *)

(** an open writer before the top-level finalize, on a paged writer behind the header *)
Record phase1 (st : wstate) (s : pw) (l : lstream) : Prop := mkP1 {
  p1_bf : before_finalize [] s l;
  p1_open : ws_open st = true;
  p1_fin : ws_finalized st = false;
  p1_sub : sub_safe st
}.

(** a paged writer all of whose writes are harmless, Drop included *)
Definition harmless (s : pw) : Prop :=
  exists l, R s l /\ z2440 (ls_data l) /\ log_ok (d_log (pw_dev s)).

Lemma harmless_bf s l : before_finalize [] s l -> harmless s.
Proof. intros [HR _ Hz Hlog _ _ _]. exists l. auto. Qed.

Lemma harmless_trace A (p : wprog A) : harmless (fst (wrun p pw0)) -> Forall entry_ok (trace_of p).
Proof.
  intros (l & HR & Hz & Hlog). unfold trace_of, dev_after. rewrite pw_fresh_pw0.
  apply Forall_rev. eapply drop_log_ok; eassumption.
Qed.

(** how a run ends: in a harmless state with an unfinalized writer, or in the state the
    successful top-level finalize left *)
Inductive outcome (s' : pw) (r : res (wstate * list call_result)) : Prop :=
| out_unfinalized :
    harmless s' ->
    (forall stf rs, r = Ok (stf, rs) ->
       ws_finalized stf = false /\ (stf = ws_init /\ s' = pw0 \/ exists l, phase1 stf s' l)) ->
    outcome s' r
| out_finalized s2 l2 st2 xml :
    before_finalize [] s2 l2 -> gen_xml (ws_meta st2) = Ok xml ->
    s' = fst (wrun (writer_finalize xml) s2) ->
    (forall stf rs, r = Ok (stf, rs) ->
       finalized stf /\ ws_pcs stf = ws_pcs st2 /\ ws_imgs stf = ws_imgs st2) ->
    outcome s' r.

Lemma finalized_run_result : forall calls st s stf xs, finalized st ->
  snd (wrun (run st calls) s) = Ok (stf, xs) ->
  finalized stf /\ ws_pcs stf = ws_pcs st /\ ws_imgs stf = ws_imgs st.
Proof.
  induction calls as [|c r IH]; intros st s stf xs Hf E; cbn [wapi_run] in E.
  - cbn in E. injection E as <- _. auto.
  - rewrite wrun_bind in E. destruct (finalized_step gen_xml lib_version st c Hf) as (x & Hc & Hx). rewrite Hc in E.
    destruct x as [[st1 cr]|k|]; try discriminate.
    destruct (Hx st1 cr eq_refl) as (Hf1 & Hp1 & Hi1).
    rewrite wrun_bind in E.
    destruct (wrun (run st1 r) s) as [s2 [[st2 ys]|k|]] eqn:E2; try discriminate.
    cbn [wret wrun snd] in E. injection E as <- _.
    destruct (IH st1 s st2 ys Hf1) as (H1 & H2 & H3); [rewrite E2; reflexivity|].
    rewrite H2, H3. auto.
Qed.

(** the step of the successful top-level finalize *)
Lemma finalize_from_phase1 st s l :
  phase1 st s l -> ws_sub st = SubNone ->
  forall xml, gen_xml (ws_meta st) = Ok xml ->
  wrun (step st Finalize) s =
  (fst (wrun (writer_finalize xml) s),
   Ok (mkWs true (ws_root st) (ws_exts st) (ws_pcs st) (ws_imgs st) SubNone true, CrOk)).
Proof.
  intros [Hbf Ho Hf _] Hs xml Hg.
  rewrite (finalize_step gen_xml lib_version st Ho Hs Hf), Hg, wrun_bind, wrun_wtry.
  destruct Hbf as [HR Hpos Hz Hlog Hrep _ _].
  destruct (finalize_shape s l xml HR Hpos Hz Hlog Hrep) as (Hok & _). rewrite Hok. reflexivity.
Qed.

Lemma run_from_phase1 : forall calls st s l, phase1 st s l ->
  outcome (fst (wrun (run st calls) s)) (snd (wrun (run st calls) s)).
Proof.
  induction calls as [|c r IH]; intros st s l P1; cbn [wapi_run].
  - cbn. apply out_unfinalized; [eapply harmless_bf, P1|].
    intros stf rs E. injection E as <- _. split; [apply P1|]. right. exists l. exact P1.
  - rewrite wrun_bind.
    assert (Hcase : at_finalize st c \/ ~ at_finalize st c).
    { unfold at_finalize. destruct c; try (right; intros (Hc & _); discriminate Hc).
      destruct (ws_sub st) eqn:Es; [left; destruct P1; auto|right; intros (_ & _ & H & _); discriminate H..]. }
    destruct Hcase as [(-> & _ & Es & _)|Hn].
    + (* the top-level finalize *)
      destruct (gen_xml (ws_meta st)) as [xml|k|] eqn:Eg.
      * rewrite (finalize_from_phase1 st s l P1 Es xml Eg).
        set (st1 := mkWs true (ws_root st) (ws_exts st) (ws_pcs st) (ws_imgs st) SubNone true).
        assert (Hf1 : finalized st1) by (unfold finalized; cbn; auto).
        rewrite wrun_bind.
        pose proof (finalized_run gen_xml lib_version r st1 (fst (wrun (writer_finalize xml) s)) Hf1) as Es1.
        pose proof (finalized_run_result r st1 (fst (wrun (writer_finalize xml) s))) as Hres.
        destruct (wrun (run st1 r) (fst (wrun (writer_finalize xml) s))) as [s2 r2]. cbn [fst snd] in *. subst s2.
        apply (out_finalized _ _ s l st xml); [apply P1|exact Eg| |].
        { destruct r2 as [[st2 ys]|k|]; reflexivity. }
        { intros stf rs E. destruct r2 as [[st2 ys]|k|]; cbn [wret wrun snd] in E; try discriminate.
          injection E as <- _. exact (Hres st2 ys Hf1 eq_refl). }
      * destruct P1 as [Hbf Ho Hf Hsub] eqn:EP1.
        rewrite (finalize_step gen_xml lib_version st Ho Es Hf), Eg. cbn [wret wrun].
        rewrite wrun_bind. specialize (IH st s l ltac:(constructor; assumption)).
        destruct (wrun (run st r) s) as [s2 [[st2 ys]|k2|]]; cbn [fst snd wret wrun] in *;
          (destruct IH as [Hh Hr|s2' l2 st2' xml' Hb Hg Hs2 Hr];
           [apply out_unfinalized; [exact Hh|]|eapply out_finalized; [exact Hb|exact Hg|exact Hs2|]]);
          intros stf rs E; try discriminate; injection E as <- _; eapply Hr; reflexivity.
      * destruct P1 as [Hbf Ho Hf Hsub].
        rewrite (finalize_step gen_xml lib_version st Ho Es Hf), Eg. cbn [wrun fst snd].
        apply out_unfinalized; [eapply harmless_bf, Hbf|]. discriminate.
    + (* every other call *)
      destruct P1 as [Hbf Ho Hf Hsub]. pose proof Hbf as [HR Hpos Hz Hlog Hrep Hhdr Hlen].
      assert (Hsp : wsp (step st c) l (fun x l' => 48 <= ls_pos l' /\ post x)).
      { apply (step_wsafe st c Ho Hf Hsub Hn); [exact Hpos|]. auto. }
      destruct (log_ok_wrun _ (step st c) s l _ HR Hsp Hz Hlog) as (HR1 & Hlog1 & Hz1 & Hres & HQ).
      destruct (wsp_prefix _ (step st c) _ _ Hsp) as [Hlen1 Hpre1].
      pose proof (replay_run _ (step st c) s Hrep) as Hrep1.
      destruct (wrun (step st c) s) as [s1 x] eqn:E1. cbn [fst snd] in *.
      set (l1 := fst (wrun_spec (step st c) l)) in *.
      destruct x as [[st1 cr]|k|].
      * destruct (HQ (st1, cr) (eq_sym Hres)) as (Hpos1 & Ho1 & Hf1 & Hsub1). cbn [fst] in *.
        assert (P1' : phase1 st1 s1 l1).
        { constructor; try assumption. constructor; try assumption.
          - intros j Hj. rewrite Hpre1 by exact Hj. apply Hhdr, Hj.
          - lia. }
        rewrite wrun_bind. specialize (IH st1 s1 l1 P1').
        destruct (wrun (run st1 r) s1) as [s2 [[st2 ys]|k2|]]; cbn [fst snd wret wrun] in *;
          (destruct IH as [Hh Hr|s2' l2 st2' xml' Hb Hg Hs2 Hr];
           [apply out_unfinalized; [exact Hh|]|eapply out_finalized; [exact Hb|exact Hg|exact Hs2|]]);
          intros stf rs E; try discriminate; injection E as <- _; eapply Hr; reflexivity.
      * apply out_unfinalized; [exists l1; auto|discriminate].
      * apply out_unfinalized; [exists l1; auto|discriminate].
Qed.

(** the placeholder header of [E57Writer::new] *)
Lemma init_bf : before_finalize [] (fst (wrun writer_init pw0)) (mkLs hdr0 48).
Proof.
  destruct (R_wrun _ writer_init pw0 ls_init R_init) as [HR1 _]. rewrite init_spec in HR1. cbn [fst] in HR1.
  destruct init_run as [_ Hlg1].
  constructor.
  - exact HR1.
  - cbn [ls_pos]. lia.
  - exact z2440_hdr0.
  - rewrite Hlg1. constructor.
  - apply replay_run. reflexivity.
  - reflexivity.
  - cbn [ls_data]. change (len hdr0) with 48. lia.
Qed.

Lemma harmless_pw0 : harmless pw0.
Proof.
  exists ls_init. split; [apply R_init|]. split; [intros j _ _; apply nthN_nil|constructor].
Qed.

Lemma run_from_closed : forall calls,
  outcome (fst (wrun (run ws_init calls) pw0)) (snd (wrun (run ws_init calls) pw0)).
Proof.
  induction calls as [|c r IH]; cbn [wapi_run].
  - cbn. apply out_unfinalized; [exact harmless_pw0|]. intros stf rs E. injection E as <- _. auto.
  - rewrite wrun_bind.
    assert (Hcase : (exists guid, c = NewWriter guid) \/ forall guid, c <> NewWriter guid).
    { destruct c; try (right; discriminate). left. eauto. }
    destruct Hcase as [[guid ->]|Hn].
    + rewrite new_writer_step, wrun_bind, wrun_wtry. destruct init_run as [Hi _]. rewrite Hi.
      cbn [wret wrun]. rewrite wrun_bind.
      set (st1 := mkWs true _ [] [] [] SubNone false).
      assert (P1 : phase1 st1 (fst (wrun writer_init pw0)) (mkLs hdr0 48)).
      { constructor; [exact init_bf|reflexivity|reflexivity|exact I]. }
      pose proof (run_from_phase1 r st1 _ _ P1) as Ho. clear P1 Hi.
      revert Ho. generalize (fst (wrun writer_init pw0)). intros s1 Ho.
      destruct (wrun (run st1 r) s1) as [s2 [[st2 ys]|k2|]]; cbn [fst snd wret wrun] in *;
        (destruct Ho as [Hh Hr|s2' l2 st2' xml' Hb Hg Hs2 Hr];
         [apply out_unfinalized; [exact Hh|]|eapply out_finalized; [exact Hb|exact Hg|exact Hs2|]]);
        intros stf rs E; try discriminate; injection E as <- _; eapply Hr; reflexivity.
    + rewrite (closed_step gen_xml lib_version c Hn). rewrite wrun_bind.
      destruct (wrun (run ws_init r) pw0) as [s2 [[st2 ys]|k2|]]; cbn [fst snd wret wrun] in *;
        (destruct IH as [Hh Hr|s2' l2 st2' xml' Hb Hg Hs2 Hr];
         [apply out_unfinalized; [exact Hh|]|eapply out_finalized; [exact Hb|exact Hg|exact Hs2|]]);
        intros stf rs E; try discriminate; injection E as <- _; eapply Hr; reflexivity.
Qed.

(** * The write sequence of any call sequence *)

Theorem api_trace_cases : forall calls,
  let p := run ws_init calls in
  (Forall entry_ok (trace_of p) /\
   forall stf rs, snd (wrun p pw_fresh) = Ok (stf, rs) -> ws_finalized stf = false) \/
  (exists st2 xml, gen_xml (ws_meta st2) = Ok xml /\ gshape p xml /\
     forall stf rs, snd (wrun p pw_fresh) = Ok (stf, rs) ->
       finalized stf /\ ws_pcs stf = ws_pcs st2 /\ ws_imgs stf = ws_imgs st2).
Proof.
  intros calls p. rewrite pw_fresh_pw0.
  destruct (run_from_closed calls) as [Hh Hr|s2 l2 st2 xml Hb Hg Hs2 Hr].
  - left. split; [apply harmless_trace, Hh|]. intros stf rs E. apply (Hr stf rs E).
  - right. exists st2, xml. split; [exact Hg|]. split; [|exact Hr].
    eapply gshape_of_finalize; eassumption.
Qed.

(** a run whose last call is the top-level finalize and returned CrOk: the XML is that of the
    final metadata *)
Lemma wrun_run_app : forall a b st s,
  wrun (run st (a ++ b)) s =
  let '(s1, r1) := wrun (run st a) s in
  match r1 with
  | Ok (st1, xs) =>
      let '(s2, r2) := wrun (run st1 b) s1 in
      (s2, match r2 with Ok (st2, ys) => Ok (st2, xs ++ ys) | Err k => Err k | Panic => Panic end)
  | Err k => (s1, Err k)
  | Panic => (s1, Panic)
  end.
Proof.
  induction a as [|c a IH]; intros b st s; cbn [app wapi_run].
  - cbn [wret wrun]. destruct (wrun (run st b) s) as [s2 [[st2 ys]|k|]]; reflexivity.
  - rewrite !wrun_bind. destruct (wrun (step st c) s) as [s1 [[st1 cr]|k|]]; try reflexivity.
    rewrite !wrun_bind, IH.
    destruct (wrun (run st1 a) s1) as [s2 [[st2 xs]|k|]]; try reflexivity.
    cbn [wret wrun]. destruct (wrun (run st2 b) s2) as [s3 [[st3 ys]|k|]]; reflexivity.
Qed.

Theorem api_finalize_last : forall cs stf rs,
  let p := run ws_init (cs ++ [Finalize]) in
  snd (wrun p pw_fresh) = Ok (stf, rs ++ [CrOk]) ->
  exists xml, gen_xml (ws_meta stf) = Ok xml /\ gshape p xml /\ finalized stf.
Proof.
  intros cs stf rs p Hrun. rewrite pw_fresh_pw0 in Hrun.
  assert (Hp : wrun p pw0 = wrun (run ws_init (cs ++ [Finalize])) pw0) by reflexivity.
  rewrite wrun_run_app in Hp.
  pose proof (run_from_closed cs) as Ho.
  destruct (wrun (run ws_init cs) pw0) as [s1 r1]. cbn [fst snd] in Ho.
  destruct r1 as [[st1 xs]|k|]; [|rewrite Hp in Hrun; discriminate Hrun|rewrite Hp in Hrun; discriminate Hrun].
  cbn [wapi_run] in Hp. rewrite wrun_bind in Hp.
  (* the state before the last call: not finalized, hence phase 1 or closed *)
  destruct Ho as [Hh Hr|s2 l2 st2 xml Hb Hg Hs2 Hr].
  - destruct (Hr st1 xs eq_refl) as (Hf1 & [[-> ->]|[l P1]]).
    + (* closed writer: Finalize does not compile *)
      rewrite (closed_step gen_xml lib_version Finalize) in Hp by discriminate.
      cbn [wret wrun wbind] in Hp. rewrite Hp in Hrun. cbn [snd] in Hrun.
      injection Hrun as _ E. apply app_inj_tail in E as [_ E]. discriminate.
    + destruct (ws_sub st1) eqn:Es.
      * destruct (gen_xml (ws_meta st1)) as [xml|k|] eqn:Eg.
        -- rewrite (finalize_from_phase1 st1 s1 l P1 Es xml Eg) in Hp. cbn [wret wrun wbind] in Hp.
           rewrite Hp in Hrun. cbn [snd] in Hrun. injection Hrun as <- _.
           exists xml. split; [exact Eg|]. split; [|unfold finalized; cbn; auto].
           eapply gshape_of_finalize; [apply P1|]. rewrite Hp. reflexivity.
        -- destruct P1 as [_ Ho1 Hf1' _].
           rewrite (finalize_step gen_xml lib_version st1 Ho1 Es Hf1'), Eg in Hp. cbn [wret wrun wbind] in Hp.
           rewrite Hp in Hrun. cbn [snd] in Hrun. injection Hrun as _ E. apply app_inj_tail in E as [_ E]. discriminate.
        -- destruct P1 as [_ Ho1 Hf1' _].
           rewrite (finalize_step gen_xml lib_version st1 Ho1 Es Hf1'), Eg in Hp. cbn [wrun] in Hp.
           rewrite Hp in Hrun. discriminate.
      * destruct P1 as [_ Ho1 _ _]. unfold wapi_step in Hp. rewrite Ho1, Es in Hp. cbn [negb wret wrun wbind] in Hp.
        rewrite Hp in Hrun. cbn [snd] in Hrun. injection Hrun as _ E. apply app_inj_tail in E as [_ E]. discriminate.
      * destruct P1 as [_ Ho1 _ _]. unfold wapi_step in Hp. rewrite Ho1, Es in Hp. cbn [negb wret wrun wbind] in Hp.
        rewrite Hp in Hrun. cbn [snd] in Hrun. injection Hrun as _ E. apply app_inj_tail in E as [_ E]. discriminate.
  - (* already finalized: the last Finalize is refused *)
    destruct (Hr st1 xs eq_refl) as ((Ho1 & Es1 & Hf1) & _).
    unfold wapi_step in Hp. rewrite Ho1, Es1, Hf1 in Hp. cbn [negb wret wrun wbind] in Hp.
    rewrite Hp in Hrun. cbn [snd] in Hrun. injection Hrun as _ E. apply app_inj_tail in E as [_ E]. discriminate.
Qed.

(** * The crash-image theorems for call sequences *)

(** before the final header write: whatever the calls *)
Theorem api_before_finalize : forall calls n cut,
  let tr := trace_of (run ws_init calls) in
  (n + 2 < length tr)%nat -> rejected_or_empty (crash_image tr n cut).
Proof.
  intros calls n cut tr Hn.
  destruct (api_trace_cases calls) as [[Hall _]|(st2 & xml & _ & Hg & _)].
  - apply weak_rejected, Hall.
  - apply (g_before_final_write _ _ xml True); [right; split; [exact I|exact Hg]|exact Hn].
Qed.

(** a writer dropped before a successful top-level finalize (abandoned sub-writers, failed
    calls, calls after errors included): every image, the final device content included *)
Theorem api_unfinalized : forall calls stf rs n cut,
  snd (wrun (run ws_init calls) pw_fresh) = Ok (stf, rs) -> ws_finalized stf = false ->
  rejected_or_empty (crash_image (trace_of (run ws_init calls)) n cut).
Proof.
  intros calls stf rs n cut Hrun Hf.
  destruct (api_trace_cases calls) as [[Hall _]|(st2 & xml & _ & _ & Hr)].
  - apply weak_rejected, Hall.
  - destruct (Hr stf rs Hrun) as ((_ & _ & Hbad) & _). congruence.
Qed.

(** a run that ended with a successful top-level finalize as last call *)
Theorem api_accepted_is_complete : forall cs stf rs xml,
  let p := run ws_init (cs ++ [Finalize]) in
  snd (wrun p pw_fresh) = Ok (stf, rs ++ [CrOk]) -> gen_xml (ws_meta stf) = Ok xml ->
  xml <> [] -> len (final_image p) < 2 ^ 64 -> forall n cut,
  match open_result (crash_image (trace_of p) n cut) with
  | Panic => False
  | Err _ => True
  | Ok (_, _, xr) =>
      (exists k, k <= len xml /\ xr = take k xml /\ (k = len xml \/ k = 0 \/ k + 256 <= len xml)) /\
      (xr = xml -> crash_image (trace_of p) n cut = final_image p)
  end.
Proof.
  intros cs stf rs xml p Hrun Hg Hne Hsize n cut.
  destruct (api_finalize_last cs stf rs Hrun) as (xml' & Hg' & Hsh & _).
  assert (xml' = xml) by congruence. subst xml'.
  pose proof (g_accepted_is_complete _ p xml True (or_intror (conj I Hsh)) Hne Hsize n cut) as H.
  destruct (open_result (crash_image (trace_of p) n cut)) as [[[s h] xr]|e|]; auto.
  destruct H as [H1 H2]. split; [exact H1|]. intros E. apply H2, E.
Qed.

End Api.

(** * The whole writer ([writer_run]: the XML of [gen_root] on the filled-in metadata) *)

Section Full.
Variables fmt64 fmt32 : N -> xstring.
Variable version : xstring.

Theorem writer_before_finalize : forall calls n cut,
  let tr := trace_of (writer_run fmt64 fmt32 version calls) in
  (n + 2 < length tr)%nat -> rejected_or_empty (crash_image tr n cut).
Proof. intros calls n cut. apply api_before_finalize. Qed.

Theorem writer_unfinalized : forall calls stf rs n cut,
  snd (wrun (writer_run fmt64 fmt32 version calls) pw_fresh) = Ok (stf, rs) -> ws_finalized stf = false ->
  rejected_or_empty (crash_image (trace_of (writer_run fmt64 fmt32 version calls)) n cut).
Proof. intros calls stf rs n cut. apply api_unfinalized. Qed.

Theorem writer_accepted_is_complete : forall cs stf rs xml,
  let p := writer_run fmt64 fmt32 version (cs ++ [Finalize]) in
  snd (wrun p pw_fresh) = Ok (stf, rs ++ [CrOk]) ->
  gen_root (fill_meta fmt64 fmt32 (ws_meta stf)) = Ok xml ->
  xml <> [] -> len (final_image p) < 2 ^ 64 -> forall n cut,
  match open_result (crash_image (trace_of p) n cut) with
  | Panic => False
  | Err _ => True
  | Ok (_, _, xr) =>
      (exists k, k <= len xml /\ xr = take k xml /\ (k = len xml \/ k = 0 \/ k + 256 <= len xml)) /\
      (xr = xml -> crash_image (trace_of p) n cut = final_image p)
  end.
Proof. intros cs stf rs xml. apply api_accepted_is_complete. Qed.

(** the XML of a successful run exists *)
Theorem writer_finalize_last : forall cs stf rs,
  let p := writer_run fmt64 fmt32 version (cs ++ [Finalize]) in
  snd (wrun p pw_fresh) = Ok (stf, rs ++ [CrOk]) ->
  exists xml, gen_root (fill_meta fmt64 fmt32 (ws_meta stf)) = Ok xml /\ gshape p xml /\ finalized stf.
Proof. intros cs stf rs. apply api_finalize_last. Qed.
End Full.

Print Assumptions api_trace_cases.
Print Assumptions api_accepted_is_complete.
